#!/bin/bash
# tools/seed_run_wt.sh <seed-name> [tier]  — run the check of a kept seeded change against a SCRATCH WORKTREE of /repo with the patch applied
# (XRFM_REPO points the harness and the translators at it; /repo itself and /verif/evidence are not touched), then remove the worktree.
NAME=$1; TIER=${2:-quick}; D=/verif/seeded/$NAME
P=$(python3 -c "import json;print(json.load(open('$D/meta.json'))['property'])")
WT=/tmp/seedrun/$NAME; rm -rf $WT; mkdir -p /tmp/seedrun
git -C /repo worktree add --detach $WT HEAD -q || exit 2
git -C $WT apply $D/patch.diff || { git -C /repo worktree remove --force $WT; exit 2; }
cd /verif
XRFM_REPO=$WT VERIF_EVIDENCE_DIR=/tmp/seedrun/evidence_$NAME ./check $P --tier $TIER > /tmp/seedrun/$NAME.log 2>&1; RC=$?
git -C /repo worktree remove --force $WT; rm -rf /tmp/seedrun/evidence_$NAME
grep -E "^VIOLATION|^KNOWN|^\[$P\]|what:|broken:" /tmp/seedrun/$NAME.log | head -6
echo "seed $NAME property $P tier $TIER: check exit=$RC ($( [ $RC -ne 0 ] && echo DETECTED || echo MISSED ))"
python3 - <<PY
import json
p='$D/meta.json'; m=json.load(open(p)); m.setdefault("detection",{})["$TIER" + ("" if "${VERIF_SEED:-0}"=="0" else "_seed${VERIF_SEED}")]=dict(exit=$RC, detected=($RC!=0), concrete=('no-failing-input-found' not in open('/tmp/seedrun/$NAME.log').read())); json.dump(m,open(p,'w'),indent=1)
PY
