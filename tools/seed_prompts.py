#!/usr/bin/env python3
"""Writes the prompts of a seeding round: tools/seed_prompts.py <round-letter> <workdir>
Each sub-agent gets ONLY the property text (from properties.jsonl), its own scratch worktree and the summaries of the earlier seeds of that property
(so that it looks elsewhere) — nothing else from /verif."""
import json, os, subprocess, sys, glob

letter, work = sys.argv[1], sys.argv[2]
props = [json.loads(l) for l in open('/verif/properties.jsonl')]
TEMPLATE = open('/verif/tools/seed_prompt_template.txt').read()
for p in props:
    pid = p['id']
    if len(sys.argv) > 3 and pid not in sys.argv[3].split(','):
        continue
    d = f'{work}/{pid}'
    os.makedirs(f'{d}/out', exist_ok=True)
    if not os.path.isdir(f'{d}/wt'):
        subprocess.run(['git', '-C', '/repo', 'worktree', 'add', '--detach', f'{d}/wt', 'HEAD'], check=True, capture_output=True)
    earlier = []
    for m in sorted(glob.glob(f'/verif/seeded/{pid}_*/meta.json')):
        try:
            earlier.append('- ' + json.load(open(m))['summary'][:260].replace('\n', ' '))
        except Exception:
            pass
    anchors = {k: v for k, v in p['anchors'].items() if k in ('files', 'mechanism', 'observe_at', 'hook_needed')}
    txt = (TEMPLATE.replace('@WT@', f'{d}/wt').replace('@OUT@', f'{d}/out').replace('@ID@', pid).replace('@TITLE@', p['title'])
           .replace('@STATEMENT@', p['statement']).replace('@QUANT@', p['quantifier']['text']).replace('@WHY@', p['why_tests_cant'])
           .replace('@ANCHORS@', json.dumps(anchors)).replace('@NROUNDS@', str(len(earlier))).replace('@EARLIER@', '\n'.join(earlier)))
    open(f'{d}/prompt.txt', 'w').write(txt)
print('prompts written under', work)
