(* Executable model of hard routing and prediction: xrfm/xrfm.py
   _get_leaf_groups_and_models_on_samples (1555-1624), _predict_tree_hard (1218-1261), predict (1125-1167),
   RFM.predict batching (783-804).  Definitions only. *)
From Coq Require Import QArith List Bool ZArith.
Import ListNotations.
Open Scope Q_scope.

Definition Qleb (p b : Q) : bool := Qle_bool p b.
Definition Qltb (p b : Q) : bool := negb (Qle_bool b p).
Definition Qgeb (p b : Q) : bool := Qle_bool b p.
Definition Qgtb (p b : Q) : bool := negb (Qle_bool p b).

Fixpoint dot (x v : list Q) : Q :=
  match x, v with
  | a :: x', b :: v' => a * b + dot x' v'
  | _, _ => 0
  end.

(* projection <= threshold goes left *)
Definition goes_left (p b : Q) : bool := Qle_bool p b.

Section Tree.
  Context {L : Type}.

  Inductive tree := Leaf (m : L) | Node (v : list Q) (b : Q) (l r : tree).

  Fixpoint route (T : tree) (x : list Q) : L :=
    match T with
    | Leaf m => m
    | Node v b l r => if goes_left (dot x v) b then route l x else route r x
    end.

  Definition irow := (nat * list Q)%type.      (* original index, row *)

  Definition is_nil {A} (l : list A) : bool := match l with [] => true | _ => false end.

  (* left-first traversal; a child that receives no rows is not visited *)
  Fixpoint groups (T : tree) (rows : list irow) : list (L * list irow) :=
    match T with
    | Leaf m => [(m, rows)]
    | Node v b l r =>
        let lr := filter (fun r => goes_left (dot (snd r) v) b) rows in
        let rr := filter (fun r => negb (goes_left (dot (snd r) v) b)) rows in
        (if is_nil lr then [] else groups l lr) ++ (if is_nil rr then [] else groups r rr)
    end.

  (* the code's own formulation: explicit LIFO stack; the right child is pushed first, so the left one is processed first *)
  Fixpoint tsize (T : tree) : nat := match T with Leaf _ => 1 | Node _ _ l r => S (tsize l + tsize r) end.
  Fixpoint groups_loop (fuel : nat) (stack : list (tree * list irow)) (acc : list (L * list irow)) : option (list (L * list irow)) :=
    match fuel with
    | O => None
    | S f =>
      match stack with
      | [] => Some acc
      | (Leaf m, rows) :: st => groups_loop f st (acc ++ [(m, rows)])
      | (Node v b l r, rows) :: st =>
          let lr := filter (fun r => goes_left (dot (snd r) v) b) rows in
          let rr := filter (fun r => negb (goes_left (dot (snd r) v) b)) rows in
          let st1 := if is_nil rr then st else (r, rr) :: st in
          let st2 := if is_nil lr then st1 else (l, lr) :: st1 in
          groups_loop f st2 acc
      end
    end.
  Definition groups_iter (T : tree) (rows : list irow) : option (list (L * list irow)) :=
    groups_loop (S (tsize T)) [(T, rows)] [].

  (* RFM.predict: the rows of one leaf are processed in chunks of max_batch_size *)
  Fixpoint chunks_aux {A} (fuel : nat) (bs : nat) (l : list A) : list (list A) :=
    match fuel with
    | O => []
    | S f => match l with [] => [] | _ => firstn bs l :: chunks_aux f bs (skipn bs l) end
    end.
  Definition chunks {A} (bs : nat) (l : list A) : list (list A) := chunks_aux (length l) bs l.

  Variable V : Type.
  Variable f : L -> list Q -> V.       (* the leaf predictor, row-wise *)

  Definition leaf_batched (m : L) (bs : nat) (rows : list irow) : list (nat * V) :=
    concat (map (map (fun r => (fst r, f m (snd r)))) (chunks bs rows)).

  Fixpoint insert_pair (p : nat * V) (l : list (nat * V)) : list (nat * V) :=
    match l with
    | [] => [p]
    | q :: t => if Nat.leb (fst p) (fst q) then p :: l else q :: insert_pair p t
    end.
  Definition sort_pairs (l : list (nat * V)) : list (nat * V) := fold_right insert_pair [] l.

  Definition index_rows (X : list (list Q)) : list irow := combine (seq 0 (length X)) X.

  (* torch.cat(predictions)[argsort(torch.cat(indices))] *)
  Definition predict_tree_hard (bs : nat) (T : tree) (X : list (list Q)) : list V :=
    map snd (sort_pairs (concat (map (fun g => leaf_batched (fst g) bs (snd g)) (groups T (index_rows X))))).
End Tree.
Arguments tree : clear implicits.

(* ensemble: row-wise mean over trees of vector outputs *)
Fixpoint vsum (a b : list Q) : list Q :=
  match a, b with x :: a', y :: b' => (x + y) :: vsum a' b' | _, _ => [] end.
Definition vscale (c : Q) (a : list Q) : list Q := map (Qmult c) a.
Definition vmean (vs : list (list Q)) : list Q :=
  match vs with
  | [] => []
  | v :: rest => vscale (1 / inject_Z (Z.of_nat (length vs))) (fold_left vsum rest v)
  end.

Definition predict_hard {L} (f : L -> list Q -> list Q) (bs : nat) (Ts : list (tree L)) (X : list (list Q)) : list (list Q) :=
  let per_tree := map (fun T => predict_tree_hard (list Q) f bs T X) Ts in
  map (fun i => vmean (map (fun p => nth i p []) per_tree)) (seq 0 (length X)).

(* comparison helpers for the correspondence check *)
Fixpoint Qlist_eqb (a b : list Q) : bool :=
  match a, b with
  | [], [] => true
  | x :: a', y :: b' => Qeq_bool x y && Qlist_eqb a' b'
  | _, _ => false
  end.
Fixpoint Qmat_eqb (a b : list (list Q)) : bool :=
  match a, b with
  | [], [] => true
  | x :: a', y :: b' => Qlist_eqb x y && Qmat_eqb a' b'
  | _, _ => false
  end.

(* |a - b| <= tol, entrywise *)
Definition Qclose (tol a b : Q) : bool := Qle_bool (a - b) tol && Qle_bool (b - a) tol.
Fixpoint Qlist_close (tol : Q) (a b : list Q) : bool :=
  match a, b with
  | [], [] => true
  | x :: a', y :: b' => Qclose tol x y && Qlist_close tol a' b'
  | _, _ => false
  end.
Fixpoint Qmat_close (tol : Q) (a b : list (list Q)) : bool :=
  match a, b with
  | [], [] => true
  | x :: a', y :: b' => Qlist_close tol x y && Qmat_close tol a' b'
  | _, _ => false
  end.

(* the documented leaf predictor  sum_i alpha_i * K(x, c_i)  for an arbitrary kernel function K;
   a leaf is its list of (center, coefficient row) pairs *)
Definition kernel_expansion (K : list Q -> list Q -> Q) (nout : nat) (leaf : list (list Q * list Q)) (x : list Q) : list Q :=
  fold_left vsum (map (fun ca => vscale (K x (fst ca)) (snd ca)) leaf) (repeat 0 nout).

(* compare only selected rows *)
Definition rows_eqb_at (keep : list nat) (a b : list (list Q)) : bool :=
  (length a =? length b)%nat && forallb (fun i => Qlist_eqb (nth i a []) (nth i b [])) keep.
Definition rows_close_at (tol : Q) (keep : list nat) (a b : list (list Q)) : bool :=
  (length a =? length b)%nat && forallb (fun i => Qlist_close tol (nth i a []) (nth i b [])) keep.
