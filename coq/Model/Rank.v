(* Relational model (pattern B) of "rank-based training split vs lower-median threshold routing".
   torch.sort is not stable and float projections are rounded, so the model is a decidable relation over what the
   real code produced, with an explicit slack e >= 0 for rounding.  Definitions only. *)
From Coq Require Import QArith List Bool ZArith Arith.
Require Import XV.Model.Split XV.Model.Tree.
Import ListNotations.

Definition countb {A} (p : A -> bool) (l : list A) : nat := length (filter p l).

(* b is a lower median (torch.median convention: element of rank (m-1)/2) of ps, up to slack e *)
Definition lower_median_okb (e b : Q) (ps : list Q) : bool :=
  let m := length ps in
  (countb (fun p => Qltb (p + e) b) ps <=? (m - 1) / 2)%nat &&
  ((m - 1) / 2 + 1 <=? countb (fun p => Qleb p (b + e)) ps)%nat.

(* every a in A is <= every c in B, up to e  (computed through the minimum of B: linear time) *)
Definition qmin (m c : Q) : Q := if Qle_bool c m then c else m.
Definition all_le (e : Q) (A B : list Q) : bool :=
  match B with
  | [] => true
  | c0 :: B' => let m := Qred (fold_left qmin B' c0 + e) in forallb (fun a => Qleb a m) A
  end.

(* lu / ov / ru : projections of the node's samples that went to the left child only / both children / right only *)
Definition rank_split_okb (e b : Q) (lu ov ru : list Q) : bool :=
  let m := Z.of_nat (length lu + length ov + length ru) in
  let o := Z.of_nat (length ov) in
  (Z.of_nat (length lu) =? left_unique m o)%Z && (Z.of_nat (length ru) =? right_unique m o)%Z &&
  all_le e lu (ov ++ ru) && all_le e (lu ++ ov) ru &&
  lower_median_okb e b (lu ++ ov ++ ru).

(* the deterministic instance: split a sorted list by rank, threshold = element (m-1)/2 *)
Definition model_lu (sorted : list Q) (o : Z) := firstn (Z.to_nat (left_unique (Z.of_nat (length sorted)) o)) sorted.
Definition model_ov (sorted : list Q) (o : Z) :=
  firstn (Z.to_nat o) (skipn (Z.to_nat (left_unique (Z.of_nat (length sorted)) o)) sorted).
Definition model_ru (sorted : list Q) (o : Z) :=
  skipn (Z.to_nat (overlap_end (Z.of_nat (length sorted)) o)) sorted.
Definition model_median (sorted : list Q) : Q := nth ((length sorted - 1) / 2) sorted 0.

Section Trained.
  Variable X : nat -> list Q.       (* training rows by original index *)

  Inductive ttree :=
  | TLeaf (ids : list nat)
  | TNode (ids : list nat) (v : list Q) (b : Q) (l r : ttree).

  Definition tids (t : ttree) : list nat := match t with TLeaf ids => ids | TNode ids _ _ _ _ => ids end.

  Fixpoint erase (t : ttree) : tree (list nat) :=
    match t with TLeaf ids => Leaf ids | TNode _ v b l r => Node v b (erase l) (erase r) end.

  Definition memb (i : nat) (l : list nat) : bool := existsb (Nat.eqb i) l.
  Definition projs_of (v : list Q) (ids : list nat) : list Q := map (fun i => Qred (dot (X i) v)) ids.

  Fixpoint tokb (e : Q) (t : ttree) : bool :=
    match t with
    | TLeaf _ => true
    | TNode ids v b l r =>
        let IL := tids l in
        let IR := tids r in
        let lu := filter (fun i => negb (memb i IR)) IL in
        let ov := filter (fun i => memb i IR) IL in
        let ru := filter (fun i => negb (memb i IL)) IR in
        forallb (fun i => memb i IL || memb i IR) ids &&
        rank_split_okb e b (projs_of v lu) (projs_of v ov) (projs_of v ru) &&
        tokb e l && tokb e r
    end.

  (* the row is not within 2e of any threshold on its route *)
  Fixpoint untied (e : Q) (t : ttree) (x : list Q) : Prop :=
    match t with
    | TLeaf _ => True
    | TNode _ v b l r =>
        ~ (b - 2 * e <= dot x v /\ dot x v <= b + 2 * e) /\
        (if goes_left (dot x v) b then untied e l x else untied e r x)
    end.
  Fixpoint untiedb (e : Q) (t : ttree) (x : list Q) : bool :=
    match t with
    | TLeaf _ => true
    | TNode _ v b l r =>
        negb (Qleb (b - 2 * e) (dot x v) && Qleb (dot x v) (b + 2 * e)) &&
        (if goes_left (dot x v) b then untiedb e l x else untiedb e r x)
    end.
End Trained.

(* validation rows: the caller's validation points are assigned by the same <= rule (up to slack e) *)
Definition val_routed_okb (e : Q) (v : list Q) (b : Q) (rows_left rows_right : list (list Q)) : bool :=
  forallb (fun x => Qleb (dot x v) (b + e)) rows_left &&
  forallb (fun x => Qltb (b - e) (dot x v)) rows_right.
