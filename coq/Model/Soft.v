(* Executable model of soft routing: xrfm/xrfm.py
   _build_tree_cache (353-407): explicit LIFO stack, preorder node ids, left-to-right leaf ids, per-leaf gate paths;
   _predict_tree_soft (1263-1374): truncation of the leaf weights by cumulative mass and leaf cap, renormalisation, aggregation.
   The weights themselves (exp / log-sigmoid) live in Real/SoftReal.v.  Definitions only. *)
From Coq Require Import QArith List Bool Arith.
Require Import XV.Model.Tree.
Import ListNotations.
Local Open Scope nat_scope.

Definition gpath := list (nat * bool).       (* (node id, took_left) from the root down *)

Section Cache.
  Context {L : Type}.

  Fixpoint nsplit (T : tree L) : nat :=
    match T with Leaf _ => 0 | Node _ _ l r => S (nsplit l + nsplit r) end.

  (* structural definition: preorder node numbering, leaves left to right *)
  Fixpoint paths_from (T : tree L) (next : nat) (p : gpath) : list (L * gpath) :=
    match T with
    | Leaf m => [(m, p)]
    | Node v b l r =>
        paths_from l (S next) (p ++ [(next, true)]) ++
        paths_from r (S next + nsplit l) (p ++ [(next, false)])
    end.
  Fixpoint nodes_from (T : tree L) (next : nat) : list (nat * (list Q * Q)) :=
    match T with
    | Leaf _ => []
    | Node v b l r => (next, (v, b)) :: nodes_from l (S next) ++ nodes_from r (S next + nsplit l)
    end.
  Definition paths (T : tree L) : list (L * gpath) := paths_from T 0 [].
  Definition nodes (T : tree L) : list (nat * (list Q * Q)) := nodes_from T 0.

  (* the code: while stack: node, path = stack.pop(); leaf -> next leaf id; split -> next node id, push right, push left *)
  Fixpoint cache_loop (fuel : nat) (stack : list (tree L * gpath)) (next_node : nat)
           (leaves : list (L * gpath)) (splits : list (nat * (list Q * Q))) : option (list (L * gpath) * list (nat * (list Q * Q))) :=
    match fuel with
    | O => None
    | S f =>
      match stack with
      | [] => Some (leaves, splits)
      | (Leaf m, p) :: st => cache_loop f st next_node (leaves ++ [(m, p)]) splits
      | (Node v b l r, p) :: st =>
          cache_loop f ((l, p ++ [(next_node, true)]) :: (r, p ++ [(next_node, false)]) :: st) (S next_node)
                     leaves (splits ++ [(next_node, (v, b))])
      end
    end.
  Definition build_cache (T : tree L) : option (list (L * gpath) * list (nat * (list Q * Q))) :=
    cache_loop (2 * nsplit T + 3) [(T, [])] 0 [] [].
End Cache.

(* ---------- truncation of the weights (rational arithmetic) ---------- *)
Local Open Scope Q_scope.

Fixpoint qsum (l : list Q) : Q := match l with [] => 0 | x :: t => x + qsum t end.

(* descending insertion sort of (weight, leaf index) pairs *)
Fixpoint insert_desc (p : Q * nat) (l : list (Q * nat)) : list (Q * nat) :=
  match l with
  | [] => [p]
  | q :: t => if Qle_bool (fst q) (fst p) then p :: l else q :: insert_desc p t
  end.
Definition sort_desc (l : list (Q * nat)) : list (Q * nat) := fold_right insert_desc [] l.

Fixpoint prefix_sums_from (acc : Q) (l : list Q) : list Q :=
  match l with [] => [] | x :: t => (acc + x) :: prefix_sums_from (acc + x) t end.
Definition prefix_sums (l : list Q) : list Q := prefix_sums_from 0 l.

Definition below (keep : Q) (c : Q) : bool := negb (Qle_bool keep c).     (* cumulative < keep *)

(* number of leaves that stay active for one row *)
Definition keep_count (keep : Q) (cap : nat) (sorted : list Q) : nat :=
  let k := length (filter (below keep) (prefix_sums sorted)) in
  let max_allowed := Nat.max (Nat.min cap (length sorted) - 1) 0 in
  S (Nat.min k max_allowed).

Definition indexed (w : list Q) : list (Q * nat) := combine w (seq 0 (length w)).

Definition active_ids (keep : Q) (cap : nat) (w : list Q) : list nat :=
  let s := sort_desc (indexed w) in
  map snd (firstn (keep_count keep cap (map fst s)) s).

Definition memb_nat (i : nat) (l : list nat) : bool := existsb (Nat.eqb i) l.

Definition mask_weights (act : list nat) (w : list Q) : list Q :=
  map (fun iw => if memb_nat (snd iw) act then fst iw else 0) (indexed w).

Definition truncate (keep : Q) (cap : nat) (w : list Q) : list Q :=
  let m := mask_weights (active_ids keep cap w) w in
  let tot := qsum m in
  map (fun x => x / tot) m.

(* weighted aggregation of the leaf outputs (vectors) *)
Fixpoint aggregate (w : list Q) (outs : list (list Q)) (nout : nat) : list Q :=
  match w, outs with
  | x :: w', o :: outs' => vsum (vscale x o) (aggregate w' outs' nout)
  | _, _ => repeat 0 nout
  end.
Fixpoint wdot (w v : list Q) : Q :=
  match w, v with x :: w', y :: v' => x * y + wdot w' v' | _, _ => 0 end.

(* ---------- relational check of an observed truncation (ties and rounding accepted either way) ---------- *)
(* w : the row's full weights as observed; out : the row's truncated, renormalised weights as observed; e : slack *)
Definition trunc_okb (e keep : Q) (cap : nat) (w out : list Q) : bool :=
  let n := length w in
  let act := filter (fun i => negb (Qle_bool (nth i out 0) 0)) (seq 0 n) in
  let ina := filter (fun i => Qle_bool (nth i out 0) 0) (seq 0 n) in
  let k := length act in
  let sorted := map fst (sort_desc (indexed w)) in
  let k_lo := keep_count (keep - e) cap sorted in
  let k_hi := keep_count (keep + e) cap sorted in
  let tot := qsum (map (fun i => nth i w 0) act) in
  (Nat.eqb (length out) n) && (Nat.leb k_lo k) && (Nat.leb k k_hi) &&
  forallb (fun i => forallb (fun j => Qle_bool (nth j w 0) (nth i w 0 + e)) ina) act &&
  forallb (fun i => Qclose e (nth i out 0) (nth i w 0 / tot)) act.
