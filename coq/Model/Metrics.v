(* Textbook definitions of the tuning metrics (xrfm/rfm_src/metrics.py 55-154) over exact rationals. Definitions only.
   rmse and log-loss involve sqrt / ln: their rational cores are here, the irrational step is in Real/MetricsReal.v. *)
From Coq Require Import QArith Qabs List Bool Arith.
Require Import XV.Model.Tree XV.Model.Soft XV.Model.Labels.
Import ListNotations.
Local Open Scope Q_scope.

Definition qmean (l : list Q) : Q := qsum l / inject_Z (Z.of_nat (length l)).

Definition pairs (t p : list (list Q)) : list (Q * Q) := combine (concat t) (concat p).

(* mean over ALL entries (torch .mean()) *)
Definition mse (t p : list (list Q)) : Q := qmean (map (fun ab => (fst ab - snd ab) * (fst ab - snd ab)) (pairs t p)).
Definition mae (t p : list (list Q)) : Q := qmean (map (fun ab => Qabs (fst ab - snd ab)) (pairs t p)).

Definition nclasses (P : list (list Q)) : nat := length (hd [] P).

Definition countb2 {A B} (f : A -> B -> bool) (a : list A) (b : list B) : nat :=
  length (filter (fun ab => f (fst ab) (snd ab)) (combine a b)).

Definition accuracy (y : list nat) (P : list (list Q)) : Q :=
  inject_Z (Z.of_nat (countb2 Nat.eqb y (map argmax P))) / inject_Z (Z.of_nat (length P)).

Definition brier (y : list nat) (P : list (list Q)) : Q := mse (map (one_hot (nclasses P)) y) P.

(* F1 of class c from hard labels *)
Definition f1_class (c : nat) (y yhat : list nat) : Q :=
  let tp := countb2 (fun a b => Nat.eqb a c && Nat.eqb b c) y yhat in
  let fp := countb2 (fun a b => negb (Nat.eqb a c) && Nat.eqb b c) y yhat in
  let fn := countb2 (fun a b => Nat.eqb a c && negb (Nat.eqb b c)) y yhat in
  let den := (2 * tp + fp + fn)%nat in
  if Nat.eqb den 0 then 0 else inject_Z (Z.of_nat (2 * tp)) / inject_Z (Z.of_nat den).

Definition f1 (y : list nat) (P : list (list Q)) : Q :=
  let K := nclasses P in
  let yhat := map argmax P in
  if Nat.eqb K 2 then f1_class 1 y yhat else qmean (map (fun c => f1_class c y yhat) (seq 0 K)).

(* AUC by pair counting, ties count one half *)
Definition pair_score (a b : Q) : Q := if Qle_bool a b then (if Qle_bool b a then 1 # 2 else 0) else 1.   (* a: positive, b: negative *)
Definition auc_bin (pos neg : list Q) : Q :=
  qsum (map (fun a => qsum (map (pair_score a) neg)) pos) / inject_Z (Z.of_nat (length pos * length neg)).

Definition column (c : nat) (P : list (list Q)) : list Q := map (fun r => nth c r 0) P.
Definition select (keep : nat -> bool) (y : list nat) (s : list Q) : list Q :=
  map snd (filter (fun ys => keep (fst ys)) (combine y s)).

Definition auc_class (c : nat) (y : list nat) (P : list (list Q)) : Q :=
  let s := column c P in auc_bin (select (Nat.eqb c) y s) (select (fun a => negb (Nat.eqb c a)) y s).

Definition auc (y : list nat) (P : list (list Q)) : Q :=
  let K := nclasses P in
  if Nat.eqb K 2 then auc_class 1 y P else qmean (map (fun c => auc_class c y P) (seq 0 K)).

(* probability assigned to the true class, per sample (the rational core of log-loss) *)
Definition true_class_probs (y : list nat) (P : list (list Q)) : list Q :=
  map (fun yp => nth (fst yp) (snd yp) 0) (combine y P).

(* declared directions: should_maximize *)
Inductive metric := Mse | Rmse | Mae | Accuracy | Brier | Logloss | F1 | Auc.
Definition should_maximize (m : metric) : bool :=
  match m with Accuracy | F1 | Auc => true | _ => false end.
