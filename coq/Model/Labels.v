(* Executable model of label encoding/decoding: xrfm/rfm_src/class_conversion.py (59-132) and
   RFM.predict_proba (1357-1392), over exact rationals.  Definitions only. *)
From Coq Require Import QArith List Bool Arith.
Require Import XV.Model.Tree XV.Model.Soft.
Import ListNotations.
Local Open Scope Q_scope.

Definition qclamp (lo hi x : Q) : Q := if Qle_bool x lo then lo else if Qle_bool hi x then hi else x.   (* torch.clamp *)

Definition normalise (v : list Q) : list Q := let s := qsum v in map (fun x => x / s) v.

(* numerical_to_probas, mode zero_one: (N,1) -> [1 - x, x]; clamp to [eps, 1-eps]; divide by the row sum *)
Definition probas_zero_one (eps : Q) (num : list Q) : list Q :=
  let v := match num with [x] => [1 - x; x] | _ => num end in
  normalise (map (qclamp eps (1 - eps)) v).

(* mode prevalence: pi = [num, 1] @ invA^T ; clamp; normalise.  invA given by rows *)
Definition raw_prevalence (invA : list (list Q)) (num : list Q) : list Q :=
  map (fun row => dot (num ++ [1]) row) invA.
Definition probas_prevalence (eps : Q) (invA : list (list Q)) (num : list Q) : list Q :=
  normalise (map (qclamp eps (1 - eps)) (raw_prevalence invA num)).

(* argmax, first maximum (torch.argmax on CPU returns the first maximal index) *)
Fixpoint argmax_from (best : Q) (bi i : nat) (v : list Q) : nat :=
  match v with
  | [] => bi
  | x :: t => if Qle_bool x best then argmax_from best bi (S i) t else argmax_from x i (S i) t
  end.
Definition argmax (v : list Q) : nat :=
  match v with [] => O | x :: t => argmax_from x O 1 t end.

(* labels_to_numerical *)
Definition one_hot (K l : nat) : list Q := map (fun j => if Nat.eqb j l then 1 else 0) (seq 0 K).
Definition encode_zero_one (K l : nat) : list Q :=
  if Nat.eqb K 2 then [inject_Z (Z.of_nat l)] else one_hot K l.
Definition encode_prevalence (C : list (list Q)) (l : nat) : list Q := nth l C [].

Definition labels_zero_one (eps : Q) (num : list Q) : nat := argmax (probas_zero_one eps num).
Definition labels_prevalence (eps : Q) (invA : list (list Q)) (num : list Q) : nat := argmax (probas_prevalence eps invA num).

(* ensemble / mixture of probability rows *)
Definition mean_rows (rows : list (list Q)) : list Q := vmean rows.

(* ---------- checker for the converter's actual matrices (pattern B: what QR / inv produced) ---------- *)
Definition sqdist (a b : list Q) : Q := qsum (map (fun p => (fst p - snd p) * (fst p - snd p)) (combine a b)).

Definition transpose_col (M : list (list Q)) (j : nat) : list Q := map (fun r => nth j r 0) M.

(* A = [C^T ; 1^T]  (K x K, by rows):  row j (j < K-1) = column j of C ; last row = ones *)
Definition A_of (K : nat) (C : list (list Q)) : list (list Q) :=
  map (fun j => transpose_col C j) (seq 0 (K - 1)) ++ [repeat 1 K].

Definition mat_vec (M : list (list Q)) (v : list Q) : list Q := map (fun r => dot r v) M.

(* delta : how far from the exact algebra the float32 matrices may be *)
Definition converter_okb (delta : Q) (K : nat) (C invA : list (list Q)) (prior : list Q) : bool :=
  let A := A_of K C in
  (Nat.eqb (length C) K) && (Nat.eqb (length invA) K) && (Nat.eqb (length prior) K) &&
  (* every code decodes to (nearly) its unit vector *)
  forallb (fun l => Qlist_close delta (raw_prevalence invA (nth l C [])) (one_hot K l)) (seq 0 K) &&
  (* zero decodes to (nearly) the prior *)
  Qlist_close delta (raw_prevalence invA (repeat 0 (K - 1))) prior &&
  (* the prior is a probability vector mapped to the origin: A prior = e_K *)
  Qlist_close delta (mat_vec A prior) (one_hot K (K - 1)) &&
  (* codes mutually equidistant: squared distance 2 *)
  forallb (fun i => forallb (fun j => if Nat.eqb i j then true else Qclose delta (sqdist (nth i C []) (nth j C [])) 2) (seq 0 K)) (seq 0 K).
