(* TreeIter — the two outer loops of xRFM.fit that decide WHICH constructed trees a fitted model holds (xrfm/xrfm.py):
   * `_build_tree_with_iterations` (n_tree_iters > 0): build a tree, score it on the validation data, then up to n_tree_iters times:
     [wall-clock test -> break] ; avg_M of the PREVIOUS build ; rebuild ; score ; keep a deep copy iff the score is STRICTLY better in the
     direction `maximizing_metric` declares; return the kept copy;
   * the loop over `n_trees` in `fit`: [wall-clock test for iter > 0 -> break] ; build (with or without iterations) ; append ; stop after
     the first tree that is a single leaf; `has_split` (which gates temperature tuning) is set by every appended tree that is not a leaf.
   Builders, scores and clocks are oracles.  Definitions only; theorems in Proofs/TreeIterProofs.v, property statements in Properties/C06b.v. *)
From Coq Require Import List Bool Arith PrimFloat.
Import ListNotations.

Section TreeIter.
  Variables T Sc : Type.
  Variable better : Sc -> Sc -> bool.       (* better new incumbent: strict improvement *)
  Variable rebuild : nat -> T -> T.         (* rebuild i prev: the tree iteration i builds from the averaged matrix of the previous build *)
  Variable score : T -> Sc.
  Variable tl : nat -> bool.                (* the wall-clock test at the top of iteration i fires *)

  Record ti_state := { ti_prev : T; ti_best : T; ti_best_score : Sc; ti_scores : list Sc; ti_builds : nat; ti_sources : list T }.

  Definition ti_init (t0 : T) : ti_state :=
    {| ti_prev := t0; ti_best := t0; ti_best_score := score t0; ti_scores := [score t0]; ti_builds := 1; ti_sources := [] |}.

  Definition ti_round (i : nat) (st : ti_state) : ti_state :=
    let t := rebuild i (ti_prev st) in
    let s := score t in
    let take := better s (ti_best_score st) in
    {| ti_prev := t;
       ti_best := if take then t else ti_best st;
       ti_best_score := if take then s else ti_best_score st;
       ti_scores := ti_scores st ++ [s];
       ti_builds := S (ti_builds st);
       ti_sources := ti_sources st ++ [ti_prev st] |}.

  (* the loop as coded: k iterations left, current index i *)
  Fixpoint ti_loop (k i : nat) (st : ti_state) : ti_state :=
    match k with
    | O => st
    | S k' => if tl i then st else ti_loop k' (S i) (ti_round i st)
    end.

  Definition tree_iterations (n_iters : nat) (t0 : T) : ti_state := ti_loop n_iters 0 (ti_init t0).

  (* ---- specification side ---- *)
  (* the loop without a clock *)
  Fixpoint ti_run (k i : nat) (st : ti_state) : ti_state :=
    match k with
    | O => st
    | S k' => ti_run k' (S i) (ti_round i st)
    end.
  (* iterations completed before the clock runs out *)
  Fixpoint ti_cut (k i : nat) : nat :=
    match k with
    | O => O
    | S k' => if tl i then O else S (ti_cut k' (S i))
    end.
  (* the trees built by k iterations starting at index i from `prev` *)
  Fixpoint iterates (k i : nat) (prev : T) : list T :=
    match k with
    | O => []
    | S k' => let t := rebuild i prev in t :: iterates k' (S i) t
    end.
  (* first best element of a list, starting from an incumbent *)
  Definition pick (b c : T) : T := if better (score c) (score b) then c else b.
  Definition first_best (l : list T) (t0 : T) : T := fold_left pick l t0.

  (* ---- the loop over n_trees ---- *)
  Variable is_leaf : T -> bool.
  Variable build_tree : nat -> T.           (* tree number i as returned by _build_tree / _build_tree_with_iterations *)
  Variable ftl : nat -> bool.               (* the wall-clock test at the top of round i (only consulted for i > 0) *)

  Fixpoint forest_loop (k i : nat) (acc : list T) (has_split : bool) : list T * bool :=
    match k with
    | O => (acc, has_split)
    | S k' =>
      if Nat.ltb 0 i && ftl i then (acc, has_split)
      else let t := build_tree i in
           if is_leaf t then (acc ++ [t], has_split)
           else forest_loop k' (S i) (acc ++ [t]) true
    end.
  Definition forest (n_trees : nat) : list T * bool := forest_loop n_trees 0 [] false.
End TreeIter.

(* binary64 instance: the comparison the code performs on python floats *)
Definition f_tibetter (maximize : bool) (new best : float) : bool :=
  if maximize then PrimFloat.ltb best new else PrimFloat.ltb new best.
