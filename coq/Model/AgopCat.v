(* Executable model of Kernel.get_agop_categorical (/repo/xrfm/rfm_src/kernels.py 116-146), over exact rationals. Definitions only.

     agop = torch.zeros((d, d))
     if numerical_indices is not None and len(numerical_indices) > 0:
         agop[numerical_indices[:, None], numerical_indices] = f_grads[:, numerical_indices].T @ f_grads[:, numerical_indices]
     for cat_idx in categorical_indices:
         agop[cat_idx[:, None], cat_idx] = f_grads[:, cat_idx].T @ f_grads[:, cat_idx]

   G = f_grads after the reshape(-1, d) (rows = outputs x points), as in Model/Agop.v.  `entry`, `ment`, `select_cols` are the
   definitions of Proofs/AgopProofs.v (entry G i j = sum_r G[r][i] * G[r][j]; ment M i j = M[i][j] with default 0;
   select_cols idx g = g[idx]). *)
From Coq Require Import QArith List Bool Arith.
Require Import XV.Model.Tree XV.Model.Soft XV.Model.Agop XV.Proofs.AgopProofs.
Import ListNotations.
Local Open Scope Q_scope.

(* torch.zeros((d, d)) *)
Definition zeros (d : nat) : mat := repeat (repeat 0 d) d.

(* functional update of one entry; out of range (row or column) is a no-op *)
Fixpoint vset (r : vec) (j : nat) (v : Q) : vec :=
  match r, j with
  | [], _ => []
  | _ :: t, O => v :: t
  | x :: t, S j' => x :: vset t j' v
  end.
Fixpoint mset (M : mat) (i j : nat) (v : Q) : mat :=
  match M, i with
  | [], _ => []
  | r :: t, O => vset r j v :: t
  | r :: t, S i' => r :: mset t i' j v
  end.

(* a single write  M[row][col] := value,  and a sequence of writes performed left to right *)
Definition write := (nat * nat * Q)%type.
Definition wrow (w : write) : nat := fst (fst w).
Definition wcol (w : write) : nat := snd (fst w).
Definition wval (w : write) : Q := snd w.
Definition apply_writes (M : mat) (ws : list write) : mat := fold_left (fun M' w => mset M' (wrow w) (wcol w) (wval w)) ws M.

(* positions (a, b) of a block in the order of the index assignment (row-major over idx[:, None] x idx) *)
Definition positions (n : nat) : list (nat * nat) := list_prod (seq 0 n) (seq 0 n).
(* the writes of  M[idx[:, None], idx] = B :  entry (idx[a], idx[b]) := B[a][b] *)
Definition block_writes (idx : list nat) (B : mat) : list write :=
  map (fun ab => (nth (fst ab) idx O, nth (snd ab) idx O, ment B (fst ab) (snd ab))) (positions (length idx)).
Definition scatter_block (M : mat) (idx : list nat) (B : mat) : mat := apply_writes M (block_writes idx B).

(* f_grads[:, idx].T @ f_grads[:, idx]  as a (length idx) x (length idx) matrix *)
Definition block_gram (idx : list nat) (G : list vec) : mat :=
  let Gi := map (select_cols idx) G in
  map (fun a => map (fun b => entry Gi a b) (seq 0 (length idx))) (seq 0 (length idx)).

(* the categorical AGOP: blocks written one after the other into the zero matrix *)
Definition cat_agop (d : nat) (G : list vec) (blocks : list (list nat)) : mat :=
  fold_left (fun M idx => scatter_block M idx (block_gram idx G)) blocks (zeros d).

(* `blocks` as the code forms them: the numerical index list if it is non-empty, then every categorical index list *)
Definition code_blocks (numerical : list nat) (categorical : list (list nat)) : list (list nat) :=
  match numerical with [] => categorical | _ => numerical :: categorical end.
Definition get_agop_categorical (d : nat) (G : list vec) (numerical : list nat) (categorical : list (list nat)) : mat :=
  cat_agop d G (code_blocks numerical categorical).

(* membership test used in the statements *)
Definition mem (i : nat) (idx : list nat) : bool := existsb (Nat.eqb i) idx.
(* "some block contains both coordinates" *)
Definition covered (blocks : list (list nat)) (i j : nat) : bool := existsb (fun idx => mem i idx && mem j idx) blocks.
