(* Pattern D: a structured read/write trace language for object attributes, an abstract semantics in which every written
   value, branch choice and iteration count is an ARBITRARY function (oracle) of the values read so far, and a computable
   may-taint analysis.  Programs are regenerated from the Python source by harness/attrflow.py on every run. *)
From Coq Require Import List Bool Arith.
Import ListNotations.

Inductive prog :=
| Skip
| Seq (p q : prog)
| Rd (a : nat)
| Wr (a : nat)
| Br (l r : prog)
| Loop (body : prog).

Fixpoint seqs (l : list prog) : prog := match l with [] => Skip | p :: t => Seq p (seqs t) end.

Section Sem.
  Variable V : Type.
  (* external inputs (data, arguments, RNG, library calls) are folded into the oracle: given a step counter and the values read
     so far it yields the value to write, the branch to take and the number of iterations *)
  Variable oracle : nat -> list V -> V * bool * nat.

  Definition store := nat -> V.
  Definition upd (s : store) (a : nat) (v : V) : store := fun b => if Nat.eqb b a then v else s b.

  Record st := { s_store : store; s_log : list V; s_k : nat }.

  Fixpoint exec (p : prog) (s : st) : st :=
    match p with
    | Skip => s
    | Seq p q => exec q (exec p s)
    | Rd a => {| s_store := s_store s; s_log := s_log s ++ [s_store s a]; s_k := s_k s |}
    | Wr a => let '(v, _, _) := oracle (s_k s) (s_log s) in
              {| s_store := upd (s_store s) a v; s_log := s_log s; s_k := S (s_k s) |}
    | Br l r => let '(_, b, _) := oracle (s_k s) (s_log s) in
                let s' := {| s_store := s_store s; s_log := s_log s; s_k := S (s_k s) |} in
                if b then exec l s' else exec r s'
    | Loop body => let '(_, _, n) := oracle (s_k s) (s_log s) in
                   let s' := {| s_store := s_store s; s_log := s_log s; s_k := S (s_k s) |} in
                   Nat.iter n (exec body) s'
    end.
End Sem.

(* ---- the analysis ---- *)
Definition mem (a : nat) (l : list nat) : bool := existsb (Nat.eqb a) l.
Definition inter (a b : list nat) : list nat := filter (fun x => mem x b) a.

(* mutable a = the attribute is written somewhere after construction; clean = attributes certainly (re)written so far *)
Fixpoint ana (mutable : nat -> bool) (p : prog) (clean : list nat) : option (list nat) :=
  match p with
  | Skip => Some clean
  | Seq p q => match ana mutable p clean with Some c => ana mutable q c | None => None end
  | Rd a => if mutable a && negb (mem a clean) then None else Some clean
  | Wr a => Some (a :: clean)
  | Br l r => match ana mutable l clean, ana mutable r clean with
              | Some c1, Some c2 => Some (inter c1 c2)
              | _, _ => None
              end
  | Loop body => match ana mutable body clean with Some _ => Some clean | None => None end
  end.

(* diagnostic variant: the list of offending reads (empty = accepted) *)
Fixpoint offenders (mutable : nat -> bool) (p : prog) (clean : list nat) : list nat * list nat :=
  match p with
  | Skip => ([], clean)
  | Seq p q => let '(o1, c) := offenders mutable p clean in let '(o2, c') := offenders mutable q c in (o1 ++ o2, c')
  | Rd a => (if mutable a && negb (mem a clean) then [a] else [], clean)
  | Wr a => ([], a :: clean)
  | Br l r => let '(o1, c1) := offenders mutable l clean in let '(o2, c2) := offenders mutable r clean in (o1 ++ o2, inter c1 c2)
  | Loop body => let '(o, _) := offenders mutable body clean in (o, clean)
  end.

Fixpoint writes (p : prog) : list nat :=
  match p with
  | Skip | Rd _ => []
  | Wr a => [a]
  | Seq p q | Br p q => writes p ++ writes q
  | Loop b => writes b
  end.
Fixpoint reads (p : prog) : list nat :=
  match p with
  | Skip | Wr _ => []
  | Rd a => [a]
  | Seq p q | Br p q => reads p ++ reads q
  | Loop b => reads b
  end.
