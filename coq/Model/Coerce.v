(* Thin model of input coercion: xrfm/xrfm.py fit (875-930), predict (1146-1149, 1164-1167), predict_proba (1192-1205),
   class_conversion.py labels_to_numerical (71-78).  A representation is (container, dtype, shape); the canonical form is
   what the leaf models receive.  Definitions only. *)
From Coq Require Import List Bool Arith.
Import ListNotations.

Inductive container := Tensor | Array.
Inductive dtype := F32 | F64 | I8 | I16 | I32 | I64 | U8.
Inductive yshape := Flat | Column | Wide (k : nat).      (* (n,), (n,1), (n,k) with k >= 2 *)

Definition is_float (d : dtype) : bool := match d with F32 | F64 => true | _ => false end.

Inductive metric_kind := NoMetric | RegMetric | ClassMetric.

(* fit: is_class *)
Definition is_class (m : metric_kind) (d : dtype) : bool :=
  match m with NoMetric => negb (is_float d) | RegMetric => false | ClassMetric => true end.

(* canonical features: always a float32 tensor of shape (n, d) *)
Definition accepted_X (c : container) (d : dtype) : bool :=
  match c, d with Tensor, F32 => true | Array, F32 => true | Array, F64 => true | _, _ => false end.
Definition canon_X (c : container) (d : dtype) : dtype := F32.

(* canonical targets: (dtype, number of columns) given K classes / k outputs *)
Inductive encoding := ZeroOne | Prevalence.
Definition class_columns (e : encoding) (K : nat) : nat :=
  match e with ZeroOne => if Nat.eqb K 2 then 1 else K | Prevalence => K - 1 end.

Definition canon_y (m : metric_kind) (e : encoding) (K : nat) (c : container) (d : dtype) (s : yshape) : dtype * nat :=
  if is_class m d then
    (if is_float d then (F32, match s with Wide k => k | _ => 1 end)     (* float y under a classification metric: taken as already encoded *)
     else (F32, class_columns e K))                                      (* labels.long().reshape(-1) -> codes *)
  else (F32, match s with Wide k => k | _ => 1 end).                      (* y.float(); (n,) -> (n,1) *)

(* output formats *)
Inductive out := OutFloat (cols : nat) | OutLabels | OutProba (K : nat).
Definition predict_format (cls : bool) (cols : nat) : out := if cls then OutLabels else OutFloat cols.
