(* Executable model of the AGOP accumulation: RFM.fit_M (1277-1309), Kernel.get_agop / get_agop_diag (103-114, 185-193),
   over exact rationals.  G is the list of gradient rows (outputs x points flattened, as the code reshapes them). Definitions only. *)
From Coq Require Import QArith List Bool Arith.
Require Import XV.Model.Tree XV.Model.Soft.
Import ListNotations.
Local Open Scope Q_scope.

Definition vec := list Q.
Definition mat := list (list Q).

Definition outer (g h : vec) : mat := map (fun a => map (fun b => a * b) h) g.
Fixpoint madd (A B : mat) : mat := match A, B with r :: A', s :: B' => vsum r s :: madd A' B' | _, _ => [] end.
Definition mzero (d : nat) : mat := repeat (repeat 0 d) d.

(* sum over the rows of g g^T  (f_grads^T @ f_grads) *)
Definition gram (d : nat) (G : list vec) : mat := fold_right (fun g acc => madd (outer g g) acc) (mzero d) G.
(* diagonal mode: f_grads.square().sum(dim=-2) *)
Definition gram_diag (d : nat) (G : list vec) : vec := fold_right (fun g acc => vsum (map (fun a => a * a) g) acc) (repeat 0 d) G.

(* optional centring of a batch: subtract the batch mean of every column *)
Definition col_mean (d : nat) (G : list vec) : vec :=
  vscale (1 / inject_Z (Z.of_nat (length G))) (fold_right vsum (repeat 0 d) G).
Definition vsubq (a b : vec) : vec := map (fun p => fst p - snd p) (combine a b).
Definition centre (d : nat) (G : list vec) : list vec := let m := col_mean d G in map (fun g => vsubq g m) G.

(* Gp : per training point, the gradient rows of all outputs at that point.
   batches of b POINTS (torch.arange(n).split(b)); inside a batch the rows of all outputs are merged (reshape(-1, d)) *)
Definition batches (b : nat) (Gp : list (list vec)) : list (list vec) := map (@concat vec) (chunks b Gp).

Definition agop (d : nat) (centring : bool) (b : nat) (Gp : list (list vec)) : mat :=
  fold_right (fun B acc => madd (gram d (if centring then centre d B else B)) acc) (mzero d) (batches b Gp).
Definition agop_diag (d : nat) (centring : bool) (b : nat) (Gp : list (list vec)) : vec :=
  fold_right (fun B acc => vsum (gram_diag d (if centring then centre d B else B)) acc) (repeat 0 d) (batches b Gp).

(* normalisation by the largest entry: M / (M.max() + 1e-30) *)
Definition qmaxl (l : list Q) : Q := fold_right (fun x m => if Qle_bool m x then x else m) (hd 0 l) l.
Definition mat_max (M : mat) : Q := qmaxl (concat M).
Definition tiny : Q := 1 # (10 ^ 30).
Definition normalise_mat (M : mat) : mat := let m := mat_max M + tiny in map (map (fun x => x / m)) M.
Definition normalise_vec (v : vec) : vec := let m := qmaxl v + tiny in map (fun x => x / m) v.

(* utils.stable_matrix_power adds 1e-8 to the diagonal of the (freshly normalised) matrix IN PLACE before taking the root,
   so for kernels that consume a root the stored M is normalise(M) + ridge * I *)
Definition add_ridge (r : Q) (M : mat) : mat :=
  map (fun ir => map (fun jx => if Nat.eqb (fst ir) (fst jx) then snd jx + r else snd jx) (combine (seq 0 (length (snd ir))) (snd ir)))
      (combine (seq 0 (length M)) M).

(* quadratic form and helpers used by the theorems and the checks *)
Definition mvec (M : mat) (x : vec) : vec := map (fun r => dot r x) M.
Definition quad (M : mat) (x : vec) : Q := dot x (mvec M x).
Definition mdiag (M : mat) : vec := map (fun ir => nth (fst ir) (snd ir) 0) (combine (seq 0 (length M)) M).
Definition mtranspose_entry (M : mat) (i j : nat) : Q := nth j (nth i M []) 0.
Fixpoint mat_close (tol : Q) (A B : mat) : bool :=
  match A, B with
  | [], [] => true
  | r :: A', s :: B' => Qlist_close tol r s && mat_close tol A' B'
  | _, _ => false
  end.
Definition mmul (A B : mat) : mat := map (fun r => map (fun j => dot r (map (fun s => nth j s 0) B)) (seq 0 (length (hd [] B)))) A.
