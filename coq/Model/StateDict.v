(* StateDict — executable model of the tree part of xRFM.get_state_dict / load_state_dict
   (xrfm/tree_utils.py get_param_tree, xrfm/xrfm.py _build_leaf_models_from_param_trees + the centre loop of load_state_dict)
   and of what the prediction code reads from a tree.

   Everything is keyed BY NAME, as in the code: a fitted tree node is a python dict (string keys), a leaf model is an
   object with attributes (attribute paths as strings).  The four tables below are regenerated from the source on every
   run by harness/stateops.py; `tables_okb` is the decidable condition under which the round trip is the identity on
   everything prediction reads (theorem in Proofs/StateDictProofs.v). *)
From Coq Require Import List String Bool Arith.
Import ListNotations.
Open Scope string_scope.

Section StateDict.
Variable V : Type.                       (* opaque payloads: tensors, floats *)
Variable V_eqb : V -> V -> bool.

Inductive pval := PV (v : V) | PIdx (l : list nat) | PBool (b : bool) | PStr (s : string).

Definition pval_eqb (a b : pval) : bool :=
  match a, b with
  | PV x, PV y => V_eqb x y
  | PIdx x, PIdx y => if list_eq_dec Nat.eq_dec x y then true else false
  | PBool x, PBool y => Bool.eqb x y
  | PStr x, PStr y => String.eqb x y
  | _, _ => false
  end.

(* a python dict built by successive assignments / a literal: the LAST binding of a key wins *)
Definition dict := list (string * pval).
Fixpoint dget (d : dict) (k : string) : option pval :=
  match d with
  | [] => None
  | (k', v) :: r => match dget r k with Some w => Some w | None => if String.eqb k k' then Some v else None end
  end.
Definition dget_default (d : dict) (k : string) (dflt : option pval) : option pval :=
  match dget d k with Some v => Some v | None => dflt end.

(* ---------- fitted tree ---------- *)
(* FLeaf d attrs : d = the node dict's plain entries ('type', 'train_indices', ...), attrs = attributes of tree['model'] by path
   FNode d l r   : d = plain entries; the children live under the keys "left" / "right" of the fitted node *)
Inductive ftree := FLeaf (d attrs : dict) | FNode (d : dict) (l r : ftree).

(* ---------- export table (get_param_tree) ---------- *)
Inductive esrc :=
| EKey (src : string) (dflt : option pval)      (* tree[src]  /  tree.get(src, dflt) *)
| EAttr (path : string)                         (* leaf_model.<path> *)
| EConst (c : pval)                             (* a literal *)
| EIsRoot                                       (* the is_root argument *)
| EChild (src : string).                        (* get_param_tree(tree[src], is_root=False) *)

Definition etable := list (string * esrc).       (* dict literal, in source order *)

Inductive ptree := PLeaf (d : dict) | PNode (d : dict) (kl : string) (l : ptree) (kr : string) (r : ptree).

Definition is_child (e : esrc) : bool := match e with EChild _ => true | _ => false end.

(* plain (non-child) entries of an exported dict; None = the export raises (KeyError / missing attribute) *)
Fixpoint eval_entries (t : etable) (d attrs : dict) (is_root : bool) : option dict :=
  match t with
  | [] => Some []
  | (k, e) :: r =>
      match eval_entries r d attrs is_root with
      | None => None
      | Some rest =>
          match e with
          | EKey src dflt => match dget_default d src dflt with Some v => Some ((k, v) :: rest) | None => None end
          | EAttr p => match dget attrs p with Some v => Some ((k, v) :: rest) | None => None end
          | EConst c => Some ((k, c) :: rest)
          | EIsRoot => Some ((k, PBool is_root) :: rest)
          | EChild _ => Some rest
          end
      end
  end.

(* destination key under which the child taken from fitted key `src` is exported (last such entry) *)
Fixpoint child_key (t : etable) (src : string) : option string :=
  match t with
  | [] => None
  | (k, e) :: r =>
      match child_key r src with
      | Some k' => Some k'
      | None => match e with EChild s => if String.eqb s src then Some k else None | _ => None end
      end
  end.

Variables (exp_leaf exp_node : etable).

Fixpoint export (is_root : bool) (t : ftree) : option ptree :=
  match t with
  | FLeaf d attrs => match eval_entries exp_leaf d attrs is_root with Some e => Some (PLeaf e) | None => None end
  | FNode d l r =>
      match eval_entries exp_node d [] is_root, child_key exp_node "left", child_key exp_node "right", export false l, export false r with
      | Some e, Some kl, Some kr, Some pl, Some pr => Some (PNode e kl pl kr pr)
      | _, _, _, _, _ => None
      end
  end.

(* ---------- loader (_build_leaf_models_from_param_trees + centre loop) ---------- *)
(* loaded tree: the exported dict itself, mutated: leaves get a model (attrs), nodes get setdefault entries *)
Inductive ltree := LLeaf (d attrs : dict) | LNode (d : dict) (kl : string) (l : ltree) (kr : string) (r : ltree).

Variable load_leaf : list (string * string).     (* (attribute path, key): leaf_model.<path> = tree[key], in source order *)
Variable load_defaults : dict.                   (* tree.setdefault(k, v) on nodes *)
Variable load_children : list string.            (* keys the loader recurses into, rewriting tree[k] *)
Variable centers_key : string.                   (* leaf_model.centers = X_train[leaf_node[centers_key]] *)
Variable gather : list nat -> pval.              (* X_train[indices] *)

Fixpoint load_attrs (tbl : list (string * string)) (d : dict) : option dict :=
  match tbl with
  | [] => Some []
  | (a, k) :: r =>
      match load_attrs r d, dget d k with
      | Some rest, Some v => Some ((a, v) :: rest)
      | _, _ => None
      end
  end.

Definition apply_defaults (d : dict) : dict :=
  (* setdefault: a default is only visible when the key is absent; prepending gives exactly that under last-binding-wins *)
  (load_defaults ++ d)%list.

Definition is_leaf_dict (d : dict) : bool :=
  match dget d "type" with Some (PStr s) => String.eqb s "leaf" | _ => false end.

Definition has_type (d : dict) : bool := match dget d "type" with Some _ => true | None => false end.

Fixpoint load (p : ptree) : option ltree :=
  match p with
  | PLeaf d =>
      if is_leaf_dict d then
        match load_attrs load_leaf d, dget d centers_key with
        | Some at_, Some (PIdx idx) => Some (LLeaf d (at_ ++ [("centers", gather idx)])%list)
        | _, _ => None
        end
      else None                                   (* not typed 'leaf': the loader would look for children that are not there *)
  | PNode d kl l kr r =>
      if negb (has_type d) || is_leaf_dict d then None      (* KeyError on 'type' / treated as a leaf: KeyError on the leaf keys *)
      else if negb (forallb (fun k => String.eqb k kl || String.eqb k kr) load_children
                    && existsb (String.eqb kl) load_children && existsb (String.eqb kr) load_children) then None
      else match load l, load r with
           | Some l', Some r' => Some (LNode (apply_defaults d) kl l' kr r')
           | _, _ => None
           end
  end.

Definition load_root (p : ptree) : option ltree :=
  match p with
  | PLeaf d | PNode d _ _ _ _ =>
      match dget d "is_root" with Some (PBool true) => load p | _ => None end      (* assert tree['is_root'] *)
  end.

(* ---------- what prediction reads ---------- *)
Variable pred_node_keys : list (string * option pval).    (* node[k] / node.get(k, dflt) in the prediction code (children and 'type' apart) *)
Variable pred_leaf_attrs : list string.                   (* attribute paths of the leaf model read by prediction that fitting changes *)

Inductive vtree := VLeaf (vals : list (option pval)) | VNode (vals : list (option pval)) (l r : vtree).

Definition read_node (d : dict) := map (fun kd => dget_default d (fst kd) (snd kd)) pred_node_keys.
Definition read_leaf (attrs : dict) := map (fun a => dget attrs a) pred_leaf_attrs.

Fixpoint view_f (t : ftree) : vtree :=
  match t with
  | FLeaf d attrs => VLeaf (read_leaf attrs)
  | FNode d l r => VNode (read_node d) (view_f l) (view_f r)
  end.

(* on the loaded tree the prediction code finds the children under "left" / "right" *)
Fixpoint view_l (t : ltree) : option vtree :=
  match t with
  | LLeaf d attrs => if is_leaf_dict d then Some (VLeaf (read_leaf attrs)) else None
  | LNode d kl l kr r =>
      if is_leaf_dict d || negb (has_type d) then None
      else if String.eqb kl "left" && String.eqb kr "right" then
        match view_l l, view_l r with Some a, Some b => Some (VNode (read_node d) a b) | _, _ => None end
      else None
  end.

(* ---------- the fitted trees the statement is about ---------- *)
(* the leaf's centres are the training rows its index list names *)
Fixpoint centers_ok (t : ftree) : Prop :=
  match t with
  | FLeaf d attrs => exists idx, dget d "train_indices" = Some (PIdx idx) /\ dget attrs "centers" = Some (gather idx)
  | FNode d l r => centers_ok l /\ centers_ok r
  end.

(* ---------- decidable condition on the tables ---------- *)
Definition esrc_is_key (e : option esrc) (k : string) (dflt : option pval) : bool :=
  match e with
  | Some (EKey src d') =>
      String.eqb src k &&
      match d', dflt with
      | None, _ => true                             (* export reads tree[k]: it raises unless the key is there *)
      | Some a, Some b => pval_eqb a b              (* same default on both sides *)
      | Some _, None => false
      end
  | _ => false
  end.

Fixpoint tget {A} (t : list (string * A)) (k : string) : option A :=
  match t with
  | [] => None
  | (k', v) :: r => match tget r k with Some w => Some w | None => if String.eqb k k' then Some v else None end
  end.

Definition plain_dst_keys (t : etable) : list string := map fst (filter (fun ke => negb (is_child (snd ke))) t).

Definition tables_okb : bool :=
  (* node entries that prediction reads come back as they were *)
  forallb (fun kd => esrc_is_key (tget exp_node (fst kd)) (fst kd) (snd kd)) pred_node_keys
  (* type tags *)
  && match tget exp_leaf "type" with Some (EConst (PStr s)) => String.eqb s "leaf" | _ => false end
  && match tget exp_node "type" with Some (EConst (PStr s)) => negb (String.eqb s "leaf") | _ => false end
  (* root flag *)
  && match tget exp_leaf "is_root" with Some EIsRoot => true | _ => false end
  && match tget exp_node "is_root" with Some EIsRoot => true | _ => false end
  (* children *)
  && match child_key exp_node "left", child_key exp_node "right" with
     | Some kl, Some kr => String.eqb kl "left" && String.eqb kr "right"
                           && forallb (fun k => String.eqb k kl || String.eqb k kr) load_children
                           && existsb (String.eqb kl) load_children && existsb (String.eqb kr) load_children
                           && negb (existsb (String.eqb "left") (plain_dst_keys exp_node))
                           && negb (existsb (String.eqb "right") (plain_dst_keys exp_node))
     | _, _ => false
     end
  (* leaf attributes: each attribute prediction reads is restored from a key that export fills from that very attribute *)
  && forallb (fun a => if String.eqb a "centers" then true else
                       match tget load_leaf a with
                       | Some k => match tget exp_leaf k with Some (EAttr p) => String.eqb p a | _ => false end
                       | None => false end) pred_leaf_attrs
  && negb (existsb (String.eqb "centers") (map fst load_leaf))
  (* every key the leaf loader reads (tree[key]) is written by the leaf export, else load raises KeyError *)
  && forallb (fun ak => existsb (String.eqb (snd ak)) (plain_dst_keys exp_leaf)) load_leaf
  (* centres: gathered from the exported copy of the fitted index list *)
  && String.eqb centers_key "train_indices"
  && match tget exp_leaf centers_key with Some (EKey src None) => String.eqb src "train_indices" | _ => false end.

(* the loaded tree seen as a fitted tree again (for a second export) *)
Fixpoint to_f (t : ltree) : ftree :=
  match t with
  | LLeaf d attrs => FLeaf d attrs
  | LNode d kl l kr r => FNode d (to_f l) (to_f r)
  end.

(* fitted trees on which the export does not raise *)
Fixpoint entries_present (t : etable) (d attrs : dict) : bool :=
  match t with
  | [] => true
  | (_, e) :: r =>
      entries_present r d attrs &&
      match e with
      | EKey src dflt => match dget_default d src dflt with Some _ => true | None => false end
      | EAttr p => match dget attrs p with Some _ => true | None => false end
      | _ => true
      end
  end.
Fixpoint wf_f (t : ftree) : bool :=
  match t with
  | FLeaf d attrs => entries_present exp_leaf d attrs
  | FNode d l r => entries_present exp_node d [] && wf_f l && wf_f r
  end.

End StateDict.
