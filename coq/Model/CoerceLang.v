(* Deep embedding of the fragment of Python used by the coercion block of xRFM.fit (xrfm/xrfm.py, from
   `y = torch.as_tensor(y).to(self.device)` to `self.data_dim = X.shape[1]`), with a total abstract interpreter.
   It mirrors, case by case, the Python class harness/coerceops.py:Interp (ev / run): an abstract tensor is
   (dtype, shape kind [columns]); a run is parameterised by the configuration (metric kind, label encoding, K).
   `run` returns None when the program leaves the fragment or an assertion fails (the Python interpreter raises
   TranslationError in those cases).  Where the Python interpreter ignores a sub-term (the argument of `.to`, the
   `n_classes` keyword of the converter, the second operand of `torch.cat`) this interpreter evaluates and checks it:
   it is never more permissive than the Python one.
   Definitions only: nat / bool / string / list, no axioms. *)
From Coq Require Import List Bool Arith String.
Require Import XV.Model.Coerce.
Import ListNotations.
Open Scope string_scope.

(* ---------- syntax ---------- *)
Inductive cmpop := CIs | CIsNot | CEq | CIn.

Inductive expr :=
| ENone | EInt (n : nat) | EStr (s : string) | EBool (b : bool)      (* constants *)
| EName (x : string)                                                  (* local name *)
| ESelf (attr : string)                                               (* self.<attr> *)
| ECmp (op : cmpop) (a b : expr)                                      (* a is b / a is not b / a == b / a in b *)
| ENot (a : expr) | EAnd (a b : expr) | EOr (a b : expr)
| EIfExp (c a b : expr)                                               (* a if c else b *)
| EAdd (a b : expr)                                                   (* a + b *)
| EMax2 (a b : expr)                                                  (* max(a, b) *)
| EAsTensor (a : expr)                                                (* torch.as_tensor(a) *)
| ETo (a dev : expr)                                                  (* a.to(dev) *)
| EIsFloat (a : expr)                                                 (* a.is_floating_point() *)
| EFloat (a : expr)                                                   (* a.float() *)
| ELenShape (a : expr)                                                (* len(a.shape) *)
| EShapeAt (a : expr) (k : nat)                                       (* a.shape[k] *)
| EColNone (a : expr)                                                 (* a[:, None] *)
| EUnsqueezeLast (a : expr)                                           (* a.unsqueeze(-1) *)
| ECat (a b : expr)                                                   (* torch.cat([a, b], dim=0) *)
| EMaxAll (a : expr)                                                  (* a.max() *)
| EItem (a : expr)                                                    (* a.item() *)
| EMetricFromName (a : expr)                                          (* Metric.from_name(a) *)
| ETaskTypes (a : expr)                                               (* a.task_types *)
| EConverter (mode ncls : expr) (labels : option expr)                (* ClassificationConverter(mode=, n_classes=[, labels=]) *)
| ELabelsToNum (conv a : expr)                                        (* conv.labels_to_numerical(a) *)
| EDict (kws : list (string * expr))                                  (* dict(k=v, ...) *)
| EPrint.                                                             (* print(...): arguments are not evaluated *)

Inductive stmt :=
| SAssign (x : string) (e : expr)                                     (* x = e *)
| SAssignSelf (attr : string) (e : expr)                              (* self.attr = e *)
| SIf (c : expr) (body orelse : list stmt)
| SAssert (c : expr)
| SExpr (e : expr).                                                   (* expression statement: only print(...) is in the fragment *)

(* ---------- abstract values ---------- *)
Inductive aval :=
| ATensor (d : dtype) (s : yshape)          (* columns: 1 for Flat / Column, k for Wide k *)
| ABool (b : bool) | AInt (n : nat) | ANone | AStr (s : string)
| ATuple (l : list string)                  (* metric.task_types *)
| AMetricName                               (* a configured (non-None) self.tuning_metric *)
| AMetric                                   (* Metric.from_name(...) *)
| AMode (e : encoding)                      (* self.classification_mode *)
| ADevice                                   (* self.device *)
| AConverter (e : encoding) (n : nat) (fitted : bool)   (* ClassificationConverter(mode, n_classes [, labels]) *)
| ADict
| AOpaque.                                  (* the feature matrices *)

Record config := mkConfig { c_metric : metric_kind; c_enc : encoding; c_K : nat }.

Definition store := list (string * aval).
Record env := mkEnv { vars : store; attrs : store }.

Fixpoint lookup (x : string) (s : store) : option aval :=
  match s with
  | [] => None
  | (y, v) :: t => if String.eqb x y then Some v else lookup x t
  end.

Definition set_var (x : string) (v : aval) (g : env) : env := mkEnv ((x, v) :: vars g) (attrs g).
Definition set_attr (x : string) (v : aval) (g : env) : env := mkEnv (vars g) ((x, v) :: attrs g).

Definition shape_cols (s : yshape) : nat := match s with Wide k => k | _ => 1 end.

(* Python truthiness, on the values for which the fragment uses it *)
Definition truthy (v : aval) : option bool :=
  match v with
  | ABool b => Some b
  | AInt n => Some (negb (Nat.eqb n 0))
  | ANone => Some false
  | _ => None
  end.

Definition eval_cmp (op : cmpop) (a b : aval) : option aval :=
  match op with
  | CIs | CIsNot =>
      let pos := match op with CIs => true | _ => false end in
      match a, b with
      | ANone, ANone => Some (ABool pos)
      | ANone, _ | _, ANone => Some (ABool (negb pos))
      | _, _ => None                                   (* identity of two non-None objects: outside the fragment *)
      end
  | CEq =>
      match a, b with
      | AInt x, AInt y => Some (ABool (Nat.eqb x y))
      | AStr x, AStr y => Some (ABool (String.eqb x y))
      | ABool x, ABool y => Some (ABool (Bool.eqb x y))
      | ANone, ANone => Some (ABool true)
      | _, _ => None
      end
  | CIn =>
      match a, b with
      | AStr x, ATuple l => Some (ABool (existsb (String.eqb x) l))
      | _, _ => None
      end
  end.

Definition opt_bind {A B} (o : option A) (f : A -> option B) : option B :=
  match o with Some a => f a | None => None end.

(* ---------- expressions ---------- *)
Fixpoint ev (c : config) (g : env) (e : expr) {struct e} : option aval :=
  match e with
  | ENone => Some ANone
  | EInt n => Some (AInt n)
  | EStr s => Some (AStr s)
  | EBool b => Some (ABool b)
  | EName x => lookup x (vars g)
  | ESelf a =>
      if String.eqb a "tuning_metric" then Some (match c_metric c with NoMetric => ANone | _ => AMetricName end)
      else if String.eqb a "classification_mode" then Some (AMode (c_enc c))
      else if String.eqb a "device" then Some ADevice
      else lookup a (attrs g)
  | ECmp op a b =>
      match ev c g a, ev c g b with
      | Some va, Some vb => eval_cmp op va vb
      | _, _ => None
      end
  | ENot a => opt_bind (ev c g a) (fun v => opt_bind (truthy v) (fun b => Some (ABool (negb b))))
  | EAnd a b =>                                       (* both operands are evaluated, as in Interp.ev *)
      match ev c g a, ev c g b with
      | Some va, Some vb => match truthy va, truthy vb with Some x, Some y => Some (ABool (x && y)) | _, _ => None end
      | _, _ => None
      end
  | EOr a b =>
      match ev c g a, ev c g b with
      | Some va, Some vb => match truthy va, truthy vb with Some x, Some y => Some (ABool (x || y)) | _, _ => None end
      | _, _ => None
      end
  | EIfExp t a b =>
      match ev c g t with
      | Some vt => match truthy vt with Some true => ev c g a | Some false => ev c g b | None => None end
      | None => None
      end
  | EAdd a b =>
      match ev c g a, ev c g b with Some (AInt x), Some (AInt y) => Some (AInt (x + y)) | _, _ => None end
  | EMax2 a b =>
      match ev c g a, ev c g b with Some (AInt x), Some (AInt y) => Some (AInt (Nat.max x y)) | _, _ => None end
  | EAsTensor a => ev c g a
  | ETo a dev =>
      match ev c g a, ev c g dev with Some v, Some ADevice => Some v | _, _ => None end
  | EIsFloat a =>
      match ev c g a with Some (ATensor d _) => Some (ABool (is_float d)) | _ => None end
  | EFloat a =>
      match ev c g a with Some (ATensor _ s) => Some (ATensor F32 s) | _ => None end
  | ELenShape a =>
      match ev c g a with Some (ATensor _ s) => Some (AInt (match s with Flat => 1 | _ => 2 end)) | _ => None end
  | EShapeAt a k =>
      match ev c g a with
      | Some (ATensor _ s) =>
          match s, k with
          | Flat, _ => None                            (* (n,) has no axis 1 *)
          | _, 1 => Some (AInt (shape_cols s))
          | _, _ => None
          end
      | _ => None
      end
  | EColNone a | EUnsqueezeLast a =>
      match ev c g a with Some (ATensor d Flat) => Some (ATensor d Column) | _ => None end
  | ECat a b =>
      match ev c g a, ev c g b with Some (ATensor d s), Some (ATensor _ _) => Some (ATensor d s) | _, _ => None end
  | EMaxAll a =>
      match ev c g a with
      | Some (ATensor d _) => if is_float d then None else Some (AInt (c_K c - 1))      (* labels 0 .. K-1 occur *)
      | _ => None
      end
  | EItem a =>
      match ev c g a with Some (AInt n) => Some (AInt n) | _ => None end
  | EMetricFromName a =>
      match ev c g a with Some AMetricName => Some AMetric | _ => None end
  | ETaskTypes a =>
      match ev c g a with
      | Some AMetric => Some (ATuple [match c_metric c with RegMetric => "reg" | _ => "class" end])
      | _ => None
      end
  | EConverter mode ncls labels =>
      match ev c g mode, ev c g ncls with
      | Some (AMode m), Some (AInt n) =>
          match labels with
          | None => Some (AConverter m n false)
          | Some l =>
              match ev c g l with
              | Some (ATensor d _) => if is_float d then None else Some (AConverter m n true)
              | _ => None
              end
          end
      | _, _ => None
      end
  | ELabelsToNum conv a =>
      match ev c g conv, ev c g a with
      | Some (AConverter m n _), Some (ATensor d _) =>
          if is_float d then None
          else let cc := class_columns m n in Some (ATensor F32 (if Nat.eqb cc 1 then Column else Wide cc))
      | _, _ => None
      end
  | EDict kws =>
      if (fix all_ok (l : list (string * expr)) : bool :=
            match l with
            | [] => true
            | (_, x) :: t => match ev c g x with Some _ => all_ok t | None => false end
            end) kws
      then Some ADict else None
  | EPrint => Some ANone
  end.

(* ---------- statements ---------- *)
Fixpoint exec (c : config) (s : stmt) (g : env) {struct s} : option env :=
  match s with
  | SAssign x e => match ev c g e with Some v => Some (set_var x v g) | None => None end
  | SAssignSelf a e => match ev c g e with Some v => Some (set_attr a v g) | None => None end
  | SIf t body orelse =>
      match ev c g t with
      | Some vt =>
          match truthy vt with
          | Some b =>
              (fix go (l : list stmt) (g : env) {struct l} : option env :=
                 match l with
                 | [] => Some g
                 | x :: r => match exec c x g with Some g' => go r g' | None => None end
                 end) (if b then body else orelse) g
          | None => None
          end
      | None => None
      end
  | SAssert t =>
      match ev c g t with
      | Some vt => match truthy vt with Some true => Some g | _ => None end
      | None => None
      end
  | SExpr e => match e with EPrint => Some g | _ => None end
  end.

Fixpoint run (c : config) (g : env) (p : list stmt) {struct p} : option env :=
  match p with
  | [] => Some g
  | s :: r => match exec c s g with Some g' => run c g' r | None => None end
  end.

(* ---------- representations, initial environment, outcome ---------- *)
Definition rep : Type := metric_kind * encoding * nat * container * dtype * yshape.

Definition cfg (r : rep) : config := let '(m, e, K, _, _, _) := r in mkConfig m e K.

(* y and y_val are the abstract target tensor (torch.as_tensor makes the container irrelevant), X and X_val opaque *)
Definition init (r : rep) : env :=
  let '(_, _, _, _, d, s) := r in
  mkEnv [("y", ATensor d s); ("y_val", ATensor d s); ("X", AOpaque); ("X_val", AOpaque)] [].

Definition dtype_eqb (a b : dtype) : bool :=
  match a, b with F32, F32 | F64, F64 | I8, I8 | I16, I16 | I32, I32 | I64, I64 | U8, U8 => true | _, _ => false end.
Definition yshape_eqb (a b : yshape) : bool :=
  match a, b with Flat, Flat | Column, Column => true | Wide x, Wide y => Nat.eqb x y | _, _ => false end.

(* (task type, canonical dtype, canonical columns [0 for a target left 1-D]); None if y / y_val are not tensors of one format *)
Definition outcome (g : env) : option (bool * dtype * nat) :=
  match lookup "y" (vars g), lookup "y_val" (vars g) with
  | Some (ATensor d s), Some (ATensor d' s') =>
      if dtype_eqb d d' && yshape_eqb s s' then
        let cols := match s with Flat => 0 | _ => shape_cols s end in
        match lookup "n_classes_" (attrs g) with
        | None => Some (false, d, cols)
        | Some (AInt n) => Some (Nat.ltb 0 n, d, cols)
        | Some _ => None
        end
      else None
  | _, _ => None
  end.

Definition expected (r : rep) : option (bool * dtype * nat) :=
  let '(m, e, K, c, d, s) := r in Some (is_class m d, fst (canon_y m e K c d s), snd (canon_y m e K c d s)).
