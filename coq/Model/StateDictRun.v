(* StateDictRun — boolean comparison of exported / loaded trees, used by the correspondence check of C11:
   the implementation's real param trees and real loaded trees (payloads abbreviated to digests of their bytes) are compared,
   inside Coq, with what the model's `export` / `load_root` compute from the real fitted tree under the regenerated tables. *)
From Coq Require Import List String Bool Arith.
Require Import XV.Model.StateDict.
Import ListNotations.
Open Scope string_scope.

Definition V := string.
Definition pv_eqb := pval_eqb V String.eqb.

(* dicts are compared as python compares them: same key set, same value under every key *)
Definition dkeys (d : dict V) : list string := map fst d.
Definition dict_sub (a b : dict V) : bool :=
  forallb (fun k => match dget V a k, dget V b k with Some x, Some y => pv_eqb x y | _, _ => false end) (dkeys a).
Definition dict_eqb (a b : dict V) : bool := dict_sub a b && dict_sub b a.

Fixpoint ptree_eqb (a b : ptree V) : bool :=
  match a, b with
  | PLeaf _ d, PLeaf _ e => dict_eqb d e
  | PNode _ d kl l kr r, PNode _ e kl' l' kr' r' => dict_eqb d e && String.eqb kl kl' && String.eqb kr kr' && ptree_eqb l l' && ptree_eqb r r'
  | _, _ => false
  end.

Fixpoint ltree_eqb (a b : ltree V) : bool :=
  match a, b with
  | LLeaf _ d at_, LLeaf _ e bt => dict_eqb d e && dict_eqb at_ bt
  | LNode _ d kl l kr r, LNode _ e kl' l' kr' r' => dict_eqb d e && String.eqb kl kl' && String.eqb kr kr' && ltree_eqb l l' && ltree_eqb r r'
  | _, _ => false
  end.

Definition opt_ptree_eqb (a : option (ptree V)) (b : ptree V) : bool := match a with Some x => ptree_eqb x b | None => false end.
Definition opt_ltree_eqb (a : option (ltree V)) (b : ltree V) : bool := match a with Some x => ltree_eqb x b | None => false end.

(* the hypothesis of the round-trip theorem, decided on a concrete fitted tree *)
Fixpoint centers_okb (gather : list nat -> pval V) (t : ftree V) : bool :=
  match t with
  | FLeaf _ d attrs =>
      match dget V d "train_indices", dget V attrs "centers" with
      | Some (PIdx _ idx), Some c => pv_eqb c (gather idx)
      | _, _ => false
      end
  | FNode _ d l r => centers_okb gather l && centers_okb gather r
  end.

Definition opv_eqb (a b : option (pval V)) : bool :=
  match a, b with Some x, Some y => pv_eqb x y | None, None => true | _, _ => false end.
Fixpoint olist_eqb (a b : list (option (pval V))) : bool :=
  match a, b with [] , [] => true | x :: a', y :: b' => opv_eqb x y && olist_eqb a' b' | _, _ => false end.
Fixpoint vtree_eqb (a b : vtree V) : bool :=
  match a, b with
  | VLeaf _ x, VLeaf _ y => olist_eqb x y
  | VNode _ x l r, VNode _ y l' r' => olist_eqb x y && vtree_eqb l l' && vtree_eqb r r'
  | _, _ => false
  end.
