(* Save / set / restore protocols for process-wide settings:
   gpu_utils.with_env_var (12-33): environment variable around a call, restored in `finally`;
   xRFM.fit / predict / predict_proba: torch thread count saved, set, restored on normal return.  Definitions only. *)
From Coq Require Import List Bool Arith.
Import ListNotations.

(* ---- environment variable: arbitrary nesting of wrapped calls, each returning normally or raising ----
   A wrapped call is: original = environ.get(var); environ[var] = value; try: body finally: restore(original).
   Whether the body returns or raises, the `finally` block runs, so an execution is a well-bracketed sequence of
   Enter / Exit events (exceptions only decide WHICH bodies are cut short, not the bracketing). *)
Definition env := option nat.           (* None = variable absent *)
Inductive eop := Enter | Exit | Observe.        (* Observe: the running body reads the variable *)

Record estate := { cur : env; saved_stack : list env; seen : list env }.

Definition estep (v : nat) (s : estate) (o : eop) : estate :=
  match o with
  | Enter => {| cur := Some v; saved_stack := cur s :: saved_stack s; seen := seen s |}
  | Exit => match saved_stack s with
            | orig :: st => {| cur := orig; saved_stack := st; seen := seen s |}      (* del if None, reassign otherwise *)
            | [] => s
            end
  | Observe => {| cur := cur s; saved_stack := saved_stack s; seen := seen s ++ [cur s] |}
  end.
Definition erun (v : nat) (ops : list eop) (s : estate) : estate := fold_left (estep v) ops s.

(* well-bracketed event sequences; observations only happen inside a wrapped body *)
Inductive inside : list eop -> Prop :=
| i_nil : inside []
| i_obs rest : inside rest -> inside (Observe :: rest)
| i_call body rest : inside body -> inside rest -> inside (Enter :: body ++ Exit :: rest).

Inductive balanced : list eop -> Prop :=
| b_nil : balanced []
| b_wrap body : inside body -> balanced (Enter :: body ++ [Exit])
| b_app a b : balanced a -> balanced b -> balanced (a ++ b).

(* ---- thread count ---- *)
Inductive top := TSave | TSet (n : nat) | TBody | TRestore | TReturn.

Record tstate := { threads : nat; saved : option nat; returned : bool }.

(* body_effect: what the code between set and restore does to the thread count (identity when nothing there sets it) *)
Definition tstep (body_effect : nat -> nat) (s : tstate) (o : top) : tstate :=
  if returned s then s else
  match o with
  | TSave => {| threads := threads s; saved := Some (threads s); returned := false |}
  | TSet n => {| threads := n; saved := saved s; returned := false |}
  | TBody => {| threads := body_effect (threads s); saved := saved s; returned := false |}
  | TRestore => {| threads := match saved s with Some t => t | None => threads s end; saved := saved s; returned := false |}
  | TReturn => {| threads := threads s; saved := saved s; returned := true |}
  end.

Definition trun (body_effect : nat -> nat) (ops : list top) (t0 : nat) : nat :=
  threads (fold_left (tstep body_effect) ops {| threads := t0; saved := None; returned := false |}).

(* the protocol of fit / predict / predict_proba for n_threads = Some n / None *)
Definition protocol (n_threads : option nat) : list top :=
  match n_threads with
  | Some n => [TSave; TSet n; TBody; TRestore; TReturn]
  | None => [TBody; TReturn]
  end.
