(* Executable models of the two model-selection loops.
   (1) RFM.fit (rfm_src/recursive_feature_machine.py 1118-1192, update_best_params 485-538, _should_early_stop 1059-1066)
   (2) xRFM.fit_temperature (xrfm/xrfm.py 997-1052)
   Generic over the score type S so that they run both on Q (theorem examples, exhaustive alphabets) and on
   binary64 PrimFloat (bit-exact with the Python floats the code compares).  Definitions only. *)
From Coq Require Import List Bool Arith QArith PrimFloat.
Import ListNotations.

Section Fit.
  Variable S : Type.
  Variable init : S.                      (* float('inf') / float('-inf') *)
  Variable better : S -> S -> bool.       (* better cur best : strict improvement in the metric's direction *)
  Variable stop : S -> S -> bool.         (* stop cur best : cur worse than best by more than the multiplier *)

  (* tags: an iterate i solves for coefficients with feature-matrix version m and adapts the bandwidth (tag i) *)
  Record wtag := { w_iter : nat; w_m : nat; w_bw : nat }.

  Record acc := {
    a_best : S;                           (* best_metric *)
    a_bi : option (option nat);           (* best_iter: None = Python None (never assigned); Some l = label l *)
    a_snap : option wtag;                 (* best_alphas / best_M / best_sqrtM / best_bandwidth, copied together *)
    a_m : nat;                            (* version of self.M / self.sqrtM (number of fit_M calls) *)
    a_bw : nat;                           (* tag of kernel_obj.bandwidth: iterate of the last solve *)
    a_w : option wtag;                    (* self.weights (None after `del self.weights`) *)
    a_evals : nat                         (* validation evaluations performed *)
  }.

  Definition acc0 : acc :=
    {| a_best := init; a_bi := None; a_snap := None; a_m := 0; a_bw := 0; a_w := None; a_evals := 0 |}.

  (* one solve + validation + (optional) snapshot at iterate index i with label lbl and score s *)
  Definition evaluate (return_best : bool) (a : acc) (i : nat) (lbl : option nat) (s : S) : acc :=
    let cur := {| w_iter := i; w_m := a_m a; w_bw := i |} in
    let upd := return_best && better s (a_best a) in
    {| a_best := if upd then s else a_best a;
       a_bi := if upd then Some lbl else a_bi a;
       a_snap := if upd then Some cur else a_snap a;
       a_m := a_m a; a_bw := i; a_w := Some cur; a_evals := Datatypes.S (a_evals a) |}.

  Definition advance_M (a : acc) (drop_w : bool) : acc :=
    {| a_best := a_best a; a_bi := a_bi a; a_snap := a_snap a; a_m := Datatypes.S (a_m a); a_bw := a_bw a;
       a_w := if drop_w then None else a_w a; a_evals := a_evals a |}.

  (* the main loop: k iterations left, current index i.  Returns (early_stopped, remaining scores, state);
     None when the scripted scores run out *)
  Fixpoint loop (return_best early : bool) (k i : nat) (scores : list S) (a : acc) : option (bool * list S * acc) :=
    match k with
    | O => Some (false, scores, a)
    | Datatypes.S k' =>
      match scores with
      | [] => None
      | s :: rest =>
        let a1 := evaluate return_best a i (Some i) s in
        if early && stop s (a_best a1) then
          Some (true, rest, if return_best then a1 else advance_M a1 false)
        else loop return_best early k' (Datatypes.S i) rest (advance_M a1 true)
      end
    end.

  Inductive outcome :=
  | Out (w : wtag) (m bw : nat) (best_iter : option (option nat)) (evals : nat) (stopped : bool)
        (* stored coefficients' tags, stored M version, stored bandwidth tag *)
  | Crash.     (* restore without a snapshot (best_alphas is None), or script exhausted *)

  (* iters = self.iters (loop count); final_label = the `iters` ARGUMENT of fit (possibly None) *)
  Definition run (iters : nat) (final_label : option nat) (return_best early : bool) (scores : list S) : outcome :=
    match loop return_best early iters 0 scores acc0 with
    | None => Crash
    | Some (stopped, rest, a) =>
      let a2 :=
        if stopped then Some a
        else match rest with
             | [] => None
             | s :: _ => Some (evaluate return_best a iters final_label s)
             end in
      match a2 with
      | None => Crash
      | Some a2 =>
        if return_best then
          match a_snap a2 with
          | None => Crash
          | Some w => Out w (w_m w) (w_bw w) (a_bi a2) (a_evals a2) stopped      (* M, sqrtM, weights, bandwidth restored together *)
          end
        else
          match a_w a2 with
          | None => Crash
          | Some w => Out w (a_m a2) (a_bw a2) (a_bi a2) (a_evals a2) stopped
          end
      end
    end.

  (* the scores that were actually evaluated *)
  Definition evaluated (o : outcome) (scores : list S) : list S :=
    match o with Out _ _ _ _ e _ => firstn e scores | Crash => [] end.
End Fit.


(* ---------- temperature tuning ---------- *)
Section Tune.
  Variable S : Type.
  Variable init : S.
  Variable better : S -> S -> bool.
  Variable seqb : S -> S -> bool.          (* score == best_score *)
  Variable T : Type.                       (* temperatures *)
  Variable tle0 : T -> bool.               (* temp_candidate <= 0.0 *)
  Variable teqb : T -> T -> bool.          (* temp_candidate == best_temp_value *)
  Variable tzero : T.

  Definition to_attr (c : T) : option T := if tle0 c then None else Some c.

  Record tacc := { t_best : S; t_attr : option T; t_results : list (T * S) }.

  Definition tstep (init_val : T) (score : option T -> S) (a : tacc) (c : T) : tacc :=
    let s := score (to_attr c) in
    let take := better s (t_best a) || (teqb c init_val && seqb s (t_best a)) in
    {| t_best := if take then s else t_best a;
       t_attr := if take then to_attr c else t_attr a;
       t_results := t_results a ++ [(c, s)] |}.

  (* init_attr = self.split_temperature on entry *)
  Definition tune (init_attr : option T) (score : option T -> S) (cands : list T) : tacc :=
    let init_val := match init_attr with None => tzero | Some t => t end in
    fold_left (tstep init_val score) cands {| t_best := init; t_attr := init_attr; t_results := [] |}.
End Tune.

(* ---------- instances ---------- *)
(* Q scores with an explicit sentinel: None = +-infinity *)
Definition Qltb' (a b : Q) : bool := negb (Qle_bool b a).
Definition q_better (minimize : bool) (cur best : option Q) : bool :=
  match cur, best with
  | Some c, Some b => if minimize then Qltb' c b else Qltb' b c
  | Some _, None => true
  | None, _ => false
  end.
Definition q_stop (minimize : bool) (mult : Q) (cur best : option Q) : bool :=
  match cur, best with
  | Some c, Some b => if minimize then Qltb' (b * mult) c else Qltb' c (b / mult)
  | _, _ => false
  end.
Definition q_seqb (a b : option Q) : bool :=
  match a, b with Some x, Some y => Qeq_bool x y | None, None => true | _, _ => false end.

(* binary64, exactly the comparisons Python performs *)
Definition f_init (minimize : bool) : float := if minimize then infinity else neg_infinity.
Definition f_better (minimize : bool) (cur best : float) : bool :=
  if minimize then PrimFloat.ltb cur best else PrimFloat.ltb best cur.
Definition f_stop (minimize : bool) (mult : float) (cur best : float) : bool :=
  if minimize then PrimFloat.ltb (PrimFloat.mul best mult) cur else PrimFloat.ltb cur (PrimFloat.div best mult).
