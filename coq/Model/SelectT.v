(* SelectT — the main loop of RFM.fit WITH its wall-clock test (rfm_src/recursive_feature_machine.py: at the top of every round i > 0,
   `if i > 0 and self.time_limit_s is not None and (i+1)/i*(time.time()-start_time) > self.time_limit_s: break`).
   The clock is an oracle `tl : nat -> bool` ("the test at the top of round i fires").  A break leaves `early_stopped` False, so the final
   solve / validation / update happens as after a completed loop.  Definitions only; Proofs/SelectTProofs.v shows that a timed-out fit is
   exactly a fit whose iteration budget is the round at which the clock ran out. *)
From Coq Require Import List Bool Arith.
Require Import XV.Model.Select.
Import ListNotations.

Section FitT.
  Variable S : Type.
  Variable init : S.
  Variable better : S -> S -> bool.
  Variable stop : S -> S -> bool.
  Variable tl : nat -> bool.

  Fixpoint loop_t (return_best early : bool) (k i : nat) (scores : list S) (a : acc S) : option (bool * list S * acc S) :=
    match k with
    | O => Some (false, scores, a)
    | Datatypes.S k' =>
      if Nat.ltb 0 i && tl i then Some (false, scores, a)            (* break: early_stopped stays False *)
      else
      match scores with
      | [] => None
      | s :: rest =>
        let a1 := evaluate S better return_best a i (Some i) s in
        if early && stop s (a_best S a1) then
          Some (true, rest, if return_best then a1 else advance_M S a1 false)
        else loop_t return_best early k' (Datatypes.S i) rest (advance_M S a1 true)
      end
    end.

  (* rounds completed before the clock runs out (k rounds left, current index i) *)
  Fixpoint cut_from (k i : nat) : nat :=
    match k with
    | O => O
    | Datatypes.S k' => if Nat.ltb 0 i && tl i then O else Datatypes.S (cut_from k' (Datatypes.S i))
    end.
  Definition cut (iters : nat) : nat := cut_from iters 0.

  (* as Select.run; the final solve is solve number `cut iters` (every completed round solved once) *)
  Definition run_t (iters : nat) (final_label : option nat) (return_best early : bool) (scores : list S) : outcome :=
    match loop_t return_best early iters 0 scores (acc0 S init) with
    | None => Crash
    | Some (stopped, rest, a) =>
      let a2 :=
        if stopped then Some a
        else match rest with
             | [] => None
             | s :: _ => Some (evaluate S better return_best a (cut iters) final_label s)
             end in
      match a2 with
      | None => Crash
      | Some a2 =>
        if return_best then
          match a_snap S a2 with
          | None => Crash
          | Some w => Out w (w_m w) (w_bw w) (a_bi S a2) (a_evals S a2) stopped
          end
        else
          match a_w S a2 with
          | None => Crash
          | Some w => Out w (a_m S a2) (a_bw S a2) (a_bi S a2) (a_evals S a2) stopped
          end
      end
    end.
End FitT.
