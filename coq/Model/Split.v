(* Executable model of xRFM's rank-based balanced split, tree-shape recursion and validation refill.
   Mirrors xrfm/xrfm.py: _get_balanced_split (493-551), _build_tree (553-725), _refill_val_set (727-775).
   Definitions only; proofs live in Proofs/SplitProofs.v. *)
From Coq Require Import ZArith List Bool Lia PrimFloat FloatOps SpecFloat Uint63.
Import ListNotations.
Open Scope Z_scope.

(* ---------- counts of _get_balanced_split ---------- *)
Definition clamp_overlap (o n : Z) : Z := Z.max 0 (Z.min o n).
Definition remaining (n o : Z) : Z := n - o.
Definition left_unique (n o : Z) : Z := (remaining n o + 1) / 2.
Definition right_unique (n o : Z) : Z := remaining n o / 2.
Definition overlap_start (n o : Z) : Z := left_unique n o.
Definition overlap_end (n o : Z) : Z := overlap_start n o + o.
Definition left_size (n o : Z) : Z := left_unique n o + o.
Definition right_size (n o : Z) : Z := (n - overlap_end n o) + o.

(* ---------- binary64 arithmetic used by the code for the two float expressions ---------- *)
(* value of a finite spec_float as (mantissa, exponent) with sign folded into the mantissa *)
Definition sf_to_ZE (f : spec_float) : option (Z * Z) :=
  match f with
  | S754_zero _ => Some (0, 0)
  | S754_finite s m e => Some ((if s then - Zpos m else Zpos m), e)
  | _ => None
  end.

(* Python's round(): round half to even, on an exactly known dyadic m * 2^e *)
Definition round_half_even_ZE (m e : Z) : Z :=
  if 0 <=? e then m * 2 ^ e
  else
    let d := 2 ^ (- e) in
    let q := m / d in           (* floor *)
    let r := m mod d in         (* 0 <= r < d *)
    let h := d / 2 in
    if r <? h then q else if h <? r then q + 1 else (if Z.even q then q else q + 1).

(* Python's int(): truncation toward zero *)
Definition trunc_ZE (m e : Z) : Z :=
  if 0 <=? e then m * 2 ^ e else Z.quot m (2 ^ (- e)).

Definition float_of_Z (n : Z) : float := PrimFloat.of_uint63 (Uint63.of_Z n).

(* int(round(2 * overlap_fraction * n_samples)), then max(0, min(., n)) *)
Definition overlap_count_float (f : float) (n : Z) : option Z :=
  match sf_to_ZE (Prim2SF (PrimFloat.mul (PrimFloat.mul (float_of_Z 2) f) (float_of_Z n))) with
  | Some (m, e) => Some (clamp_overlap (round_half_even_ZE m e) n)
  | None => None
  end.

(* int(len(X) * self.val_size_frac) *)
Definition frac_count_float (frac : float) (n : Z) : option Z :=
  match sf_to_ZE (Prim2SF (PrimFloat.mul (float_of_Z n) frac)) with
  | Some (m, e) => Some (trunc_ZE m e)
  | None => None
  end.

(* ---------- shape of the tree that _build_tree produces ---------- *)
Inductive shape := SLeaf (n : Z) | SNode (n : Z) (l r : shape).

Inductive bres := Ok (s : shape) (cnt : Z) | OutOfFuel | AssertFail.

(* ov n  : the (already clamped) overlap count the code computes at a node of size n
   quota : number_of_splits (None = no forced split count)
   cnt   : split_tracker['count'] on entry *)
Fixpoint build (fuel : nat) (L : Z) (ov : Z -> Z) (quota : option Z) (cnt n : Z) : bres :=
  match fuel with
  | O => OutOfFuel
  | S f =>
    if (n <=? L) && (match quota with None => true | Some q => q <=? cnt end) then Ok (SLeaf n) cnt
    else
      let o := ov n in
      if (left_size n o <=? 0) || (right_size n o <=? 0) then AssertFail
      else
      match build f L ov quota (cnt + 1) (left_size n o) with
      | Ok l c1 =>
        match build f L ov quota c1 (right_size n o) with
        | Ok r c2 => Ok (SNode n l r) c2
        | e => e
        end
      | e => e
      end
  end.

Fixpoint leaves (s : shape) : list Z :=
  match s with SLeaf n => [n] | SNode _ l r => leaves l ++ leaves r end.
Fixpoint height (s : shape) : nat :=
  match s with SLeaf _ => O | SNode _ l r => S (Nat.max (height l) (height r)) end.
Fixpoint nsplits (s : shape) : Z :=
  match s with SLeaf _ => 0 | SNode _ l r => 1 + nsplits l + nsplits r end.
Definition size_of (s : shape) : Z := match s with SLeaf n => n | SNode n _ _ => n end.

(* local well-formedness of an observed shape: every split node hands out the ceil/floor halves plus the band *)
Fixpoint shape_ok (L : Z) (ov : Z -> Z) (s : shape) : bool :=
  match s with
  | SLeaf n => n <=? L
  | SNode n l r =>
      (size_of l =? left_size n (ov n)) && (size_of r =? right_size n (ov n)) &&
      shape_ok L ov l && shape_ok L ov r
  end.

(* with no forced split count a node is split only when it is larger than L *)
Fixpoint splits_needed (L : Z) (s : shape) : bool :=
  match s with
  | SLeaf _ => true
  | SNode n l r => (L <? n) && splits_needed L l && splits_needed L r
  end.

Fixpoint shape_eqb (a b : shape) : bool :=
  match a, b with
  | SLeaf n, SLeaf m => n =? m
  | SNode n l r, SNode m l' r' => (n =? m) && shape_eqb l l' && shape_eqb r r'
  | _, _ => false
  end.

Definition bres_eqb (a : bres) (s : shape) : bool :=
  match a with Ok s' _ => shape_eqb s' s | _ => false end.

(* least k with n <= L * 2^k, searched up to fuel *)
Fixpoint clog_aux (fuel : nat) (n L : Z) (k : nat) : nat :=
  match fuel with
  | O => k
  | S f => if n <=? L * 2 ^ (Z.of_nat k) then k else clog_aux f n L (S k)
  end.
Definition clog (n L : Z) : nat := clog_aux (Z.to_nat n) n L O.

(* ---------- index level: who goes where ---------- *)
Section Lists.
  Context {A : Type}.
  (* sorted : the node's samples in the order torch.sort returned them *)
  Definition split_left (sorted : list A) (o : Z) : list A :=
    firstn (Z.to_nat (left_size (Z.of_nat (length sorted)) o)) sorted.
  Definition split_right (sorted : list A) (o : Z) : list A :=
    skipn (Z.to_nat (left_unique (Z.of_nat (length sorted)) o)) sorted.
End Lists.

(* refill (lines 755-775): how many training samples are moved into the leaf's validation set *)
Definition refill_count (n_val n_train min_val cap : Z) : Z :=
  if n_val <=? min_val then Z.min (min_val - n_val) cap else 0.
Definition refill_cap_exact (n_train : Z) : Z := n_train / 5.   (* 20% rounded down *)

Section Refill.
  Context {A : Type} (d : A).
  (* perm : what torch.randperm(len(X)) returned; ids : the node's samples *)
  Definition take_ids (ids : list A) (pos : list nat) : list A := map (fun p => nth p ids d) pos.
  Definition refill_moved (perm : list nat) (k : Z) (ids : list A) : list A :=
    take_ids ids (firstn (Z.to_nat k) perm).
  Definition refill_kept (perm : list nat) (k : Z) (ids : list A) : list A :=
    take_ids ids (skipn (Z.to_nat k) perm).
End Refill.

(* ---------- recorded training run (what the harness observes), with a local checker ---------- *)
(* RLeaf recv kept moved nval_routed : samples received, kept as centers, moved to validation, #routed val points
   RNode ids l r : samples received by a split node *)
Inductive rtree :=
| RLeaf (recv kept moved : list nat) (nval : Z)
| RNode (ids : list nat) (l r : rtree).

Definition rrecv (t : rtree) : list nat :=
  match t with RLeaf recv _ _ _ => recv | RNode ids _ _ => ids end.

Fixpoint insert_nat (x : nat) (l : list nat) : list nat :=
  match l with [] => [x] | y :: t => if Nat.leb x y then x :: l else y :: insert_nat x t end.
Definition sort_nat (l : list nat) : list nat := fold_right insert_nat [] l.
Fixpoint list_nat_eqb (a b : list nat) : bool :=
  match a, b with
  | [], [] => true
  | x :: a', y :: b' => Nat.eqb x y && list_nat_eqb a' b'
  | _, _ => false
  end.
Definition perm_natb (a b : list nat) : bool := list_nat_eqb (sort_nat a) (sort_nat b).

Fixpoint rleaves (t : rtree) : list (list nat * list nat) :=
  match t with RLeaf _ kept moved _ => [(kept, moved)] | RNode _ l r => rleaves l ++ rleaves r end.

(* zero-overlap accounting: children partition the node; a leaf's kept ++ moved is what it received;
   the number moved obeys the refill rule (root leaf: nothing moved). *)
Fixpoint rtree_okb (is_root : bool) (min_val : Z) (t : rtree) : bool :=
  match t with
  | RLeaf recv kept moved nval =>
      perm_natb recv (kept ++ moved) &&
      (Z.of_nat (length moved) =?
         (if is_root then 0 else refill_count nval (Z.of_nat (length recv)) min_val (refill_cap_exact (Z.of_nat (length recv)))))
  | RNode ids l r =>
      perm_natb ids (rrecv l ++ rrecv r) &&
      (Z.of_nat (length (rrecv l)) =? left_size (Z.of_nat (length ids)) 0) &&
      (Z.of_nat (length (rrecv r)) =? right_size (Z.of_nat (length ids)) 0) &&
      rtree_okb false min_val l && rtree_okb false min_val r
  end.

Definition all_used (t : rtree) : list nat :=
  concat (map (fun km => fst km ++ snd km) (rleaves t)).
