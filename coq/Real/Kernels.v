(* Real-valued models of the CPU kernels (xrfm/rfm_src/kernels.py): the SEQUENCE OF TENSOR OPERATIONS the code performs,
   read over the reals, and the theorems that this sequence equals the documented closed form.
   Vectors are lists of arbitrary length (any dimension). *)
From Coq Require Import Reals List Lra Lia.
Import ListNotations.
Local Open Scope R_scope.

(* ---------- vectors ---------- *)
Fixpoint vsubR (a b : list R) : list R := match a, b with x :: a', y :: b' => (x - y) :: vsubR a' b' | _, _ => [] end.
Fixpoint vaddR (a b : list R) : list R := match a, b with x :: a', y :: b' => (x + y) :: vaddR a' b' | _, _ => [] end.
Fixpoint vmulR (a b : list R) : list R := match a, b with x :: a', y :: b' => (x * y) :: vmulR a' b' | _, _ => [] end.
Definition vscaleR (c : R) (a : list R) : list R := map (Rmult c) a.
Fixpoint vdotR (a b : list R) : R := match a, b with x :: a', y :: b' => x * y + vdotR a' b' | _, _ => 0 end.
Definition rsumR (l : list R) : R := fold_right Rplus 0 l.
Definition sumsq (a : list R) : R := rsumR (map (fun x => x * x) a).

(* x @ mat for mat given by its rows (d_in rows of length d_out): sum_i x_i * row_i *)
Fixpoint xmat (dout : nat) (x : list R) (rows : list (list R)) : list R :=
  match x, rows with
  | xi :: x', r :: rows' => vaddR (vscaleR xi r) (xmat dout x' rows')
  | _, _ => repeat 0 dout
  end.

(* the feature transform `_transform_m` *)
Inductive tmat := TNone | TDiag (m : list R) | TFull (dout : nat) (rows : list (list R)).
Definition transform (t : tmat) (x : list R) : list R :=
  match t with TNone => x | TDiag m => vmulR x m | TFull dout rows => xmat dout x rows end.

(* d ^ q as torch.pow computes it for d >= 0, q > 0: 0 ^ q = 0 *)
Definition pw (d q : R) : R := if Req_EM_T d 0 then 0 else Rpower d q.

(* ---------- op sequences ---------- *)
(* LaplaceKernel._get_kernel_matrix_impl: cdist -> clamp(min=0) -> pow(q) -> * (-1 / L^q) -> exp *)
Definition cdist2 (a b : list R) : R := sqrt (sumsq (vsubR a b)).
Definition laplace_l2 (t : tmat) (L q : R) (x z : list R) : R :=
  exp (pw (Rmax 0 (cdist2 (transform t x) (transform t z))) q * (- 1 / Rpower L q)).

(* LightLaplaceKernel: xm = x@M ; ||.||^2 by expansion ; clamp ; sqrt ; pow ; scale ; exp *)
Definition light_sq (t : tmat) (x z : list R) : R :=
  vdotR (transform t x) x - 2 * vdotR (transform t x) z + vdotR (transform t z) z.
Definition laplace_light (t : tmat) (L q : R) (x z : list R) : R :=
  exp (pw (sqrt (Rmax 0 (light_sq t x z))) q * (- 1 / Rpower L q)).

(* ProductLaplaceKernel: cdist(p = q) -> clamp -> pow(q) -> scale -> exp *)
Definition sum_abs_pow (p : R) (a : list R) : R := rsumR (map (fun x => pw (Rabs x) p) a).
Definition cdistp (p : R) (a b : list R) : R := pw (sum_abs_pow p (vsubR a b)) (/ p).
Definition laplace_product (t : tmat) (L q : R) (x z : list R) : R :=
  exp (pw (Rmax 0 (cdistp q (transform t x) (transform t z))) q * (- 1 / Rpower L q)).

(* LpqLaplaceKernel: cdist(p) -> clamp -> pow(q) -> scale -> exp *)
Definition laplace_lpq (t : tmat) (L p q : R) (x z : list R) : R :=
  exp (pw (Rmax 0 (cdistp p (transform t x) (transform t z))) q * (- 1 / Rpower L q)).

(* SumPowerLaplaceKernel: per coordinate exp(-|d|^q / L^q); sum; * (1-c)/d ; + c ; ^power *)
Definition sum_power (t : tmat) (L q c : R) (power : nat) (x z : list R) : R :=
  let dif := vsubR (transform t x) (transform t z) in
  let s := rsumR (map (fun u => exp (pw (Rabs u) q * (- 1 / Rpower L q))) dif) in
  (s * ((1 - c) / INR (length (transform t x))) + c) ^ power.

(* ---------- documented closed forms ---------- *)
Definition norm2 (a : list R) : R := sqrt (sumsq a).
Definition normp (p : R) (a : list R) : R := pw (sum_abs_pow p a) (/ p).
Definition closed_l2 (t : tmat) (L q : R) (x z : list R) : R := exp (- pw (norm2 (transform t (vsubR x z))) q / Rpower L q).
Definition closed_lpq (t : tmat) (L p q : R) (x z : list R) : R := exp (- pw (normp p (transform t (vsubR x z))) q / Rpower L q).
Definition closed_product (t : tmat) (L q : R) (x z : list R) : R := exp (- sum_abs_pow q (transform t (vsubR x z)) / Rpower L q).
Definition closed_sum_power (t : tmat) (L q c : R) (power : nat) (x z : list R) : R :=
  let dif := transform t (vsubR x z) in
  ((1 - c) * (rsumR (map (fun u => exp (- pw (Rabs u) q / Rpower L q)) dif) / INR (length dif)) + c) ^ power.

(* ---------- lemmas ---------- *)
Lemma rsumR_nonneg l : Forall (fun x => 0 <= x) l -> 0 <= rsumR l.
Proof. induction 1 as [|x l Hx Hl IH]; cbn; [lra|]. unfold rsumR in IH. lra. Qed.

Lemma sumsq_nonneg a : 0 <= sumsq a.
Proof.
  unfold sumsq. apply rsumR_nonneg. apply Forall_forall. intros y Hy. apply in_map_iff in Hy. destruct Hy as [x [<- _]]. nra.
Qed.

Lemma pw_nonneg d q : 0 <= d -> 0 <= pw d q.
Proof. intros H. unfold pw. destruct (Req_EM_T d 0); [lra|]. left. apply exp_pos. Qed.

Lemma pw_pos d q : 0 < d -> pw d q = Rpower d q.
Proof. intros H. unfold pw. destruct (Req_EM_T d 0); [lra|reflexivity]. Qed.

Lemma pw_0 q : pw 0 q = 0.
Proof. unfold pw. destruct (Req_EM_T 0 0); [reflexivity|contradiction]. Qed.

(* d ^ 1 = d: the code skips the power when the exponent is 1 *)
Lemma pw_one d : 0 <= d -> pw d 1 = d.
Proof. intros H. unfold pw. destruct (Req_EM_T d 0) as [->|Hne]; [reflexivity|]. apply Rpower_1. lra. Qed.

Lemma vdotR_scale_l c : forall a b, vdotR (vscaleR c a) b = c * vdotR a b.
Proof.
  unfold vscaleR. induction a as [|x a IH]; intros [|y b]; cbn; try ring. rewrite IH. ring.
Qed.

Lemma sum_abs_pow_nonneg p a : 0 <= sum_abs_pow p a.
Proof.
  unfold sum_abs_pow. apply rsumR_nonneg. apply Forall_forall. intros y Hy. apply in_map_iff in Hy. destruct Hy as [x [<- _]].
  apply pw_nonneg. apply Rabs_pos.
Qed.

(* root then power: (S^(1/p))^p = S for S >= 0, p > 0 *)
Lemma pw_root_pow S p : 0 <= S -> 0 < p -> pw (pw S (/ p)) p = S.
Proof.
  intros HS Hp. unfold pw at 2. destruct (Req_EM_T S 0) as [->|Hne]; [apply pw_0|].
  assert (0 < S) by lra. rewrite pw_pos by (apply exp_pos).
  rewrite Rpower_mult, Rinv_l by lra. apply Rpower_1. assumption.
Qed.

(* the transform is linear: T(x) - T(z) = T(x - z) *)
Lemma vmulR_sub : forall x z m, vsubR (vmulR x m) (vmulR z m) = vmulR (vsubR x z) m.
Proof.
  induction x as [|a x IH]; intros [|b z] [|c m]; cbn; try reflexivity. f_equal; [ring|apply IH].
Qed.

Lemma vaddR_length : forall a b, length a = length b -> length (vaddR a b) = length a.
Proof. induction a as [|x a IH]; intros [|y b] H; try discriminate; cbn; [reflexivity|]. cbn in H. injection H as H. rewrite IH by exact H. reflexivity. Qed.

Lemma xmat_length dout : forall x rows, Forall (fun r => length r = dout) rows -> length (xmat dout x rows) = dout.
Proof.
  induction x as [|a x IH]; intros rows H; cbn; [apply repeat_length|]. destruct rows as [|r rows]; [apply repeat_length|].
  inversion H as [|? ? Hr Hrs]; subst. rewrite vaddR_length; unfold vscaleR; rewrite map_length; [reflexivity|]. rewrite IH by exact Hrs. reflexivity.
Qed.

Lemma vsub_vadd : forall a b c d, length a = length b -> length c = length d -> length a = length c ->
  vsubR (vaddR a b) (vaddR c d) = vaddR (vsubR a c) (vsubR b d).
Proof.
  induction a as [|x a IH]; intros [|y b] [|u c] [|v d] H1 H2 H3; try discriminate; cbn; [reflexivity|].
  cbn in *. injection H1 as H1. injection H2 as H2. injection H3 as H3. f_equal; [ring|apply IH; assumption].
Qed.

Lemma vscale_sub a b r : vsubR (vscaleR a r) (vscaleR b r) = vscaleR (a - b) r.
Proof. unfold vscaleR. induction r as [|x r IH]; cbn; [reflexivity|]. f_equal; [ring|exact IH]. Qed.

Lemma vsub_zeros n : vsubR (repeat 0 n) (repeat 0 n) = repeat 0 n.
Proof. induction n as [|n IH]; cbn; [reflexivity|]. f_equal; [ring|exact IH]. Qed.

Lemma xmat_sub dout : forall x z rows, length x = length z -> Forall (fun r => length r = dout) rows ->
  vsubR (xmat dout x rows) (xmat dout z rows) = xmat dout (vsubR x z) rows.
Proof.
  induction x as [|a x IH]; intros [|b z] rows Hl Hr; try discriminate; cbn; [apply vsub_zeros|].
  cbn in Hl. injection Hl as Hl. destruct rows as [|r rows]; [apply vsub_zeros|].
  inversion Hr as [|? ? Hr1 Hrs]; subst.
  rewrite vsub_vadd; try (unfold vscaleR; rewrite !map_length; try reflexivity).
  - rewrite vscale_sub, IH by assumption. reflexivity.
  - rewrite xmat_length by exact Hrs. reflexivity.
  - rewrite xmat_length by exact Hrs. reflexivity.
Qed.

Definition wf_tmat (t : tmat) (d : nat) : Prop :=
  match t with TNone => True | TDiag m => length m = d | TFull dout rows => length rows = d /\ Forall (fun r => length r = dout) rows end.

Lemma transform_sub t x z : length x = length z -> wf_tmat t (length x) ->
  vsubR (transform t x) (transform t z) = transform t (vsubR x z).
Proof.
  intros Hl Hw. destruct t as [|m|dout rows]; cbn; [reflexivity|apply vmulR_sub|].
  destruct Hw as [_ Hr]. apply xmat_sub; assumption.
Qed.

(* ---------- the op sequences equal the closed forms ---------- *)
Theorem laplace_l2_closed_form t L q x z : length x = length z -> wf_tmat t (length x) ->
  laplace_l2 t L q x z = closed_l2 t L q x z.
Proof.
  intros Hl Hw. unfold laplace_l2, closed_l2, cdist2, norm2. rewrite transform_sub by assumption.
  rewrite Rmax_right by apply sqrt_pos. f_equal. unfold Rdiv. ring.
Qed.

Theorem laplace_lpq_closed_form t L p q x z : length x = length z -> wf_tmat t (length x) ->
  laplace_lpq t L p q x z = closed_lpq t L p q x z.
Proof.
  intros Hl Hw. unfold laplace_lpq, closed_lpq, cdistp, normp. rewrite transform_sub by assumption.
  rewrite Rmax_right by (apply pw_nonneg, sum_abs_pow_nonneg). f_equal. unfold Rdiv. ring.
Qed.

Theorem laplace_product_closed_form t L q x z : 0 < q -> length x = length z -> wf_tmat t (length x) ->
  laplace_product t L q x z = closed_product t L q x z.
Proof.
  intros Hq Hl Hw. unfold laplace_product, closed_product, cdistp. rewrite transform_sub by assumption.
  rewrite Rmax_right by (apply pw_nonneg, sum_abs_pow_nonneg).
  rewrite pw_root_pow by (try apply sum_abs_pow_nonneg; assumption). f_equal. unfold Rdiv. ring.
Qed.

Lemma vsubR_length : forall a b, length a = length b -> length (vsubR a b) = length a.
Proof. induction a as [|x a IH]; intros [|y b] H; try discriminate; cbn; [reflexivity|]. cbn in H. injection H as H. rewrite IH by exact H. reflexivity. Qed.

Theorem sum_power_closed_form t L q c power x z : length x = length z -> wf_tmat t (length x) ->
  length (transform t x) = length (transform t z) ->
  sum_power t L q c power x z = closed_sum_power t L q c power x z.
Proof.
  intros Hl Hw Ht. unfold sum_power, closed_sum_power. cbn zeta. rewrite <- transform_sub by assumption.
  rewrite vsubR_length by exact Ht. f_equal.
  replace (map (fun u => exp (pw (Rabs u) q * (- 1 / Rpower L q))) (vsubR (transform t x) (transform t z)))
    with (map (fun u => exp (- pw (Rabs u) q / Rpower L q)) (vsubR (transform t x) (transform t z)))
    by (apply map_ext; intros u; f_equal; unfold Rdiv; ring).
  unfold Rdiv. ring.
Qed.

(* ---------- the memory-light kernel: expansion = quadratic form of the difference, for SYMMETRIC M ---------- *)
(* bilinear form  B(x, z) = (x @ M) . z *)
Definition bil (t : tmat) (x z : list R) : R := vdotR (transform t x) z.

Lemma light_sq_is_quadratic_form t x z :
  bil t x z = bil t z x ->                                  (* symmetry of M on this pair *)
  bil t (vsubR x z) (vsubR x z) = bil t x x - bil t x z - bil t z x + bil t z z ->   (* bilinearity *)
  light_sq t x z = bil t (vsubR x z) (vsubR x z).
Proof. intros Hs Hb. unfold light_sq. fold (bil t x x) (bil t x z) (bil t z z). rewrite Hb, Hs. ring. Qed.

(* diagonal M (vector of squares): everything is explicit *)
Lemma light_sq_diag : forall m x z, length x = length z -> length m = length x ->
  light_sq (TDiag m) x z = rsumR (vmulR (vmulR (vsubR x z) (vsubR x z)) m).
Proof.
  unfold light_sq, rsumR. cbn [transform].
  induction m as [|c m IH]; intros [|a x] [|b z] Hl Hm; try discriminate; cbn [vmulR vsubR vdotR fold_right]; try lra.
  cbn in Hl, Hm. injection Hl as Hl. injection Hm as Hm. specialize (IH x z Hl Hm). rewrite <- IH. ring.
Qed.

Theorem light_none_closed_form L q x z : length x = length z ->
  laplace_light TNone L q x z = closed_l2 TNone L q x z.
Proof.
  intros Hl. unfold laplace_light, closed_l2, norm2. cbn [transform].
  assert (E : light_sq TNone x z = sumsq (vsubR x z)).
  { unfold light_sq, sumsq, rsumR. cbn [transform]. revert z Hl.
    induction x as [|a x IH]; intros [|b z] Hl; try discriminate; cbn [vdotR vsubR map fold_right]; [lra|].
    cbn in Hl. injection Hl as Hl. specialize (IH z Hl). rewrite <- IH. ring. }
  rewrite E, Rmax_right by apply sumsq_nonneg. f_equal. unfold Rdiv. ring.
Qed.

(* without symmetry the expansion is NOT the quadratic form of the difference: a 2x2 witness *)
Example light_needs_symmetry :
  let M := TFull 2 [[0; 1]; [0; 0]] in
  light_sq M [1; 0] [0; 1] <> bil M (vsubR [1; 0] [0; 1]) (vsubR [1; 0] [0; 1]).
Proof. cbv [light_sq bil transform xmat vsubR vaddR vscaleR vdotR map repeat]. intro H. lra. Qed.

(* ---------- consequences: symmetry, unit diagonal, range ---------- *)
Lemma vsubR_self : forall x, vsubR x x = repeat 0 (length x).
Proof. induction x as [|a x IH]; cbn; [reflexivity|]. f_equal; [ring|exact IH]. Qed.

Lemma sumsq_zeros n : sumsq (repeat 0 n) = 0.
Proof. unfold sumsq. induction n as [|n IH]; cbn; [reflexivity|]. unfold rsumR in *. cbn in *. rewrite IH. ring. Qed.

Lemma sumsq_neg_sym : forall a b, sumsq (vsubR a b) = sumsq (vsubR b a).
Proof.
  unfold sumsq. induction a as [|x a IH]; intros [|y b]; cbn; try reflexivity. unfold rsumR in *. cbn. rewrite (IH b). ring.
Qed.

Theorem laplace_l2_symmetric t L q x z : laplace_l2 t L q x z = laplace_l2 t L q z x.
Proof. unfold laplace_l2, cdist2. rewrite sumsq_neg_sym. reflexivity. Qed.

Theorem laplace_l2_unit_diagonal t L q x : laplace_l2 t L q x x = 1.
Proof.
  unfold laplace_l2, cdist2. rewrite vsubR_self, sumsq_zeros, sqrt_0, Rmax_left by lra. rewrite pw_0, Rmult_0_l. apply exp_0.
Qed.

Theorem laplace_l2_range t L q x z : 0 < laplace_l2 t L q x z <= 1.
Proof.
  unfold laplace_l2. split; [apply exp_pos|]. rewrite <- exp_0 at 1.
  set (d := Rmax 0 (cdist2 (transform t x) (transform t z))).
  assert (Hd : 0 <= pw d q) by (apply pw_nonneg; unfold d; apply Rmax_l).
  assert (HL : 0 < Rpower L q) by apply exp_pos.
  assert (H : pw d q * (- 1 / Rpower L q) <= 0).
  { unfold Rdiv. assert (0 < / Rpower L q) by (apply Rinv_0_lt_compat; exact HL). nra. }
  destruct (Rle_lt_or_eq_dec _ _ H) as [Hlt|Heq]; [left; apply exp_increasing; exact Hlt|rewrite Heq; right; reflexivity].
Qed.
