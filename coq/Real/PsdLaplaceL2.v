(* The DEFAULT kernel of the library: the L2 Laplace kernel with exponent q = 1,
       k(x, z) = exp (- || T (x - z) ||_2 / L),
   is positive semi-definite for ANY number of points, ANY dimension, any well-formed transform  (property C05, q = 1, p = 2).

   What is proved here, and under which hypotheses:

   UNCONDITIONAL (no analytic fact is assumed; only the standard real/classical axioms appear under Print Assumptions):
     - laplace_l2_q1_psd        : 0 <= qf (closed_l2 t L 1) xs cs          (the closed form of the kernel)
     - laplace_l2_op_q1_psd     : 0 <= qf (laplace_l2 t L 1) xs cs         (the op-sequence model of LaplaceKernel)
     - mix_lim                  : the subordination identity in the form that is needed:
                                  there is H > 0 with   int_{1/N}^{N} exp (- v^2 - b^2 / v^2) dv  -->  H * exp (- 2 b)   for every b >= 0
                                  (Cauchy-Schloemilch substitution; the value of H is irrelevant)
     - cauchy_schlomilch        : 2 * int_{b/M}^{M} exp (-(v - b/v)^2) dv = int_{-(M - b/M)}^{M - b/M} exp (- u^2) du   (b, M > 0)
     - qf_RInt                  : the quadratic form of an integral of kernels is the integral of the quadratic forms
     - exp_neg_cnd_is_psd       : Schoenberg's theorem proper: psi symmetric, zero on the diagonal and conditionally negative
                                  definite on the set of the points of P  ==>  exp (- psi) is PSD on P   (no integral at all).
                                  "On the set of the points of P" (cnd_set / psd_set) is the standard formulation: every finite
                                  list Q of points of P, every coefficient list of the length of Q (summing to 0 for cnd).
     - psd_sym_has_rep          : a symmetric PSD kernel on a finite set of points has a feature representation (Schur
                                  complements), so the Schur-product / power / exp closure of PsdMore applies to every such kernel
     - sqdist_cnd, gauss_psd_by_schoenberg : ||u - v||^2 is cnd, hence a second proof that the Gaussian kernel is PSD
   CONDITIONAL (the analytic fact is a PREMISE of the theorem; kept because it is the fall-back formulation that was asked for, and
   it is independent of the integral machinery):
     - laplace_l2_q1_psd_from_mixture : if exp (- sqrt r) is, on the finite set of the scaled squared distances r of the points,
                                  the limit of finite non-negative combinations of Gaussians  sum_k w_{N,k} exp (- s_{N,k} r)
                                  (weights and nodes independent of r), then the conclusion of laplace_l2_q1_psd holds.

   Route of the unconditional proof (Schoenberg / subordination, "Route 1"):  exp (-2b) * H = lim_N int_{1/N}^{N} exp (-v^2 - b^2/v^2) dv;
   for every v > 0 the integrand, as a kernel in (x, z) with b = ||T(x - z)|| / (2L), is exp (-v^2) times the Gaussian kernel of
   bandwidth 2 L v, which is PSD (PsdMore.gaussian_psd); the quadratic form commutes with the integral (linearity), the integral of
   a non-negative function is non-negative, and PSD is closed under pointwise limits (PsdMore.psd_lim). *)
From Coq Require Import Reals List Lra Lia.
From Coquelicot Require Import Coquelicot.
Require Import XV.Real.Kernels XV.Real.PsdProduct XV.Real.PsdMore.
Import ListNotations.
Local Open Scope R_scope.

(* ====================================================================== *)
(* (0) the quadratic form is linear in the kernel                         *)
(* ====================================================================== *)
Lemma lin_plus k1 k2 x : forall ys cs, lin (fun u v => k1 u v + k2 u v) x ys cs = lin k1 x ys cs + lin k2 x ys cs.
Proof. induction ys as [|y ys IH]; intros [|c cs]; cbn [lin]; try ring. rewrite IH. ring. Qed.

Lemma lin_scale a k x : forall ys cs, lin (fun u v => a * k u v) x ys cs = a * lin k x ys cs.
Proof. induction ys as [|y ys IH]; intros [|c cs]; cbn [lin]; try ring. rewrite IH. ring. Qed.

Lemma qf_aux_plus k1 k2 all allc : forall xs cs,
  qf_aux (fun u v => k1 u v + k2 u v) all allc xs cs = qf_aux k1 all allc xs cs + qf_aux k2 all allc xs cs.
Proof. induction xs as [|x xs IH]; intros [|c cs]; cbn [qf_aux]; try ring. rewrite IH, lin_plus. ring. Qed.

Lemma qf_aux_scale a k all allc : forall xs cs, qf_aux (fun u v => a * k u v) all allc xs cs = a * qf_aux k all allc xs cs.
Proof. induction xs as [|x xs IH]; intros [|c cs]; cbn [qf_aux]; try ring. rewrite IH, lin_scale. ring. Qed.

Lemma qf_plus k1 k2 P cs : qf (fun u v => k1 u v + k2 u v) P cs = qf k1 P cs + qf k2 P cs.
Proof. apply qf_aux_plus. Qed.

Lemma qf_scale a k P cs : qf (fun u v => a * k u v) P cs = a * qf k P cs.
Proof. apply qf_aux_scale. Qed.

Lemma lin_zero x : forall ys cs, lin (fun _ _ => 0) x ys cs = 0.
Proof. induction ys as [|y ys IH]; intros [|c cs]; cbn [lin]; try ring. rewrite IH. ring. Qed.

Lemma qf_zero P cs : qf (fun _ _ => 0) P cs = 0.
Proof.
  unfold qf. generalize P at 1 as all. generalize cs at 1 as allc. intros allc all. revert cs.
  induction P as [|x xs IH]; intros [|c cs]; cbn [qf_aux]; try ring. rewrite IH, lin_zero. ring.
Qed.

(* ====================================================================== *)
(* (1) the kernel with exponent 1 and the Gaussians, as functions of the scaled squared distance *)
(* ====================================================================== *)
(* r(x, z) = || T (x - z) ||^2 / L^2 *)
Definition rdist (t : tmat) (L : R) (x z : list R) : R := sumsq (transform t (vsubR x z)) / (L * L).

Lemma rdist_nonneg t L x z : 0 < L -> 0 <= rdist t L x z.
Proof.
  intros HL. unfold rdist, Rdiv. apply Rmult_le_pos; [apply sumsq_nonneg|]. left. apply Rinv_0_lt_compat. nra.
Qed.

Lemma closed_l2_q1_eq t L x z : 0 < L -> closed_l2 t L 1 x z = exp (- sqrt (rdist t L x z)).
Proof.
  intros HL. unfold closed_l2, rdist, norm2.
  rewrite pw_one by apply sqrt_pos. rewrite Rpower_1 by exact HL.
  rewrite sqrt_div_alt by nra. rewrite sqrt_square by lra. f_equal. unfold Rdiv. ring.
Qed.

(* the Gaussian of bandwidth L' is exp (- r * (L / L')^2) *)
Lemma closed_l2_q2_eq t L L' x z : 0 < L -> 0 < L' ->
  closed_l2 t L' 2 x z = exp (- (L * L / (L' * L')) * rdist t L x z).
Proof.
  intros HL HL'. unfold closed_l2, rdist. rewrite pw_norm2_sq, Rpower_2 by exact HL'. f_equal. field. split; lra.
Qed.

(* finite combinations  sum_{k < m} w_k exp (- s_k r) *)
Fixpoint mixsum (w s : nat -> R) (m : nat) (r : R) : R :=
  match m with O => 0 | S m' => mixsum w s m' r + w m' * exp (- s m' * r) end.

Lemma mixsum_psd t L xs cs d (w s : nat -> R) : 0 < L -> wf_tmat t d -> List.Forall (fun x => length x = d) xs ->
  forall m, (forall k, (k < m)%nat -> 0 <= w k) -> (forall k, (k < m)%nat -> 0 < s k) ->
  0 <= qf (fun x z => mixsum w s m (rdist t L x z)) xs cs.
Proof.
  intros HL Hw Hd. induction m as [|m IH]; intros Hwk Hsk.
  - cbn [mixsum]. rewrite qf_zero. lra.
  - cbn [mixsum]. rewrite (qf_plus (fun x z => mixsum w s m (rdist t L x z)) (fun x z => w m * exp (- s m * rdist t L x z))).
    rewrite (qf_scale (w m) (fun x z => exp (- s m * rdist t L x z))).
    assert (H1 : 0 <= qf (fun x z => mixsum w s m (rdist t L x z)) xs cs) by (apply IH; intros k Hk; [apply Hwk|apply Hsk]; lia).
    assert (Hs : 0 < s m) by (apply Hsk; lia).
    assert (Hq : 0 < sqrt (s m)) by (apply sqrt_lt_R0; exact Hs).
    assert (H2 : 0 <= qf (fun x z => exp (- s m * rdist t L x z)) xs cs).
    { rewrite (qf_ext _ (closed_l2 t (L / sqrt (s m)) 2)).
      - apply (gaussian_psd t _ xs cs d); [apply Rdiv_lt_0_compat; assumption|exact Hw|exact Hd].
      - intros u v _ _. rewrite (closed_l2_q2_eq t L) by (try apply Rdiv_lt_0_compat; assumption). f_equal. f_equal.
        pose proof (sqrt_sqrt (s m) ltac:(lra)) as E. rewrite <- E at 1. field. split; lra. }
    assert (0 <= w m) by (apply Hwk; lia). nra.
Qed.

(* ---------- the CONDITIONAL theorem: the analytic fact is a premise ---------- *)
Theorem laplace_l2_q1_psd_from_mixture : forall t L (xs : list (list R)) (cs : list R) (d : nat)
    (w s : nat -> nat -> R) (m : nat -> nat),
  0 < L -> wf_tmat t d -> List.Forall (fun x => length x = d) xs ->
  (forall N k, (k < m N)%nat -> 0 <= w N k) ->
  (forall N k, (k < m N)%nat -> 0 < s N k) ->
  (forall x z, In x xs -> In z xs ->
     is_lim_seq (fun N => mixsum (w N) (s N) (m N) (rdist t L x z)) (exp (- sqrt (rdist t L x z)))) ->
  0 <= qf (closed_l2 t L 1) xs cs.
Proof.
  intros t L xs cs d w s m HL Hw Hd Hwk Hsk Hlim.
  apply (psd_lim (fun N x z => mixsum (w N) (s N) (m N) (rdist t L x z))).
  - intros N. apply (mixsum_psd t L xs cs d); try assumption; [apply Hwk|apply Hsk].
  - intros x z Hx Hz. rewrite closed_l2_q1_eq by exact HL. apply Hlim; assumption.
Qed.

(* ====================================================================== *)
(* (2) the analytic identity (Cauchy-Schloemilch)                          *)
(* ====================================================================== *)
Definition E (u : R) : R := exp (- (u * u)).
Definition fb (b v : R) : R := exp (- ((v - b / v) * (v - b / v))).
Definition hb (b v : R) : R := exp (- (v * v) - (b * b) / (v * v)).

Ltac nz := repeat split; try assumption; try lra;
  try (apply Rmult_integral_contrapositive_currified; (assumption || lra)); try (apply Rgt_not_eq; nra).

Lemma hb_fb b v : v <> 0 -> hb b v = exp (- 2 * b) * fb b v.
Proof. intros Hv. unfold hb, fb. rewrite <- exp_plus. f_equal. field. exact Hv. Qed.

Lemma hb_0 v : hb 0 v = E v.
Proof. unfold hb, E. f_equal. unfold Rdiv. ring. Qed.

Lemma E_cont u : continuous E u.
Proof. apply (ex_derive_continuous E). unfold E. auto_derive. exact I. Qed.

Lemma fb_cont b v : v <> 0 -> continuous (fb b) v.
Proof. intros Hv. apply (ex_derive_continuous (fb b)). unfold fb. auto_derive. nz. Qed.

Lemma hb_cont b v : v <> 0 -> continuous (hb b) v.
Proof. intros Hv. apply (ex_derive_continuous (hb b)). unfold hb. auto_derive. nz. Qed.

Lemma E_abs_le u : Rabs (E u) <= 1.
Proof. unfold E. rewrite Rabs_pos_eq by (left; apply exp_pos). apply exp_le_1. nra. Qed.

Lemma fb_abs_le b v : Rabs (fb b v) <= 1.
Proof. unfold fb. rewrite Rabs_pos_eq by (left; apply exp_pos). apply exp_le_1. set (w := v - b / v). nra. Qed.

Lemma between_pos lo hi x : 0 < lo -> 0 < hi -> Rmin lo hi <= x -> 0 < x.
Proof. intros H1 H2. apply Rmin_case; lra. Qed.

Lemma ex_RInt_cont (f : R -> R) a b : (forall z, Rmin a b <= z <= Rmax a b -> continuous f z) -> ex_RInt f a b.
Proof. exact (ex_RInt_continuous (V := R_CompleteNormedModule) f a b). Qed.

Lemma RInt_swap_R (f : R -> R) a b : ex_RInt f a b -> RInt f b a = - RInt f a b.
Proof. intros H. rewrite <- (opp_RInt_swap f a b H). reflexivity. Qed.

Lemma RInt_Chasles_R (f : R -> R) a b c : ex_RInt f a b -> ex_RInt f b c -> RInt f a c = RInt f a b + RInt f b c.
Proof. intros H1 H2. rewrite <- (RInt_Chasles f a b c H1 H2). reflexivity. Qed.

Lemma is_RInt_unique_R (f : R -> R) a b l : is_RInt f a b l -> RInt f a b = l.
Proof. exact (is_RInt_unique (V := R_CompleteNormedModule) f a b l). Qed.

Lemma RInt_correct_R (f : R -> R) a b : ex_RInt f a b -> is_RInt f a b (RInt f a b).
Proof. exact (RInt_correct (V := R_CompleteNormedModule) f a b). Qed.

(* |int_x^y f| <= |y - x| for |f| <= 1 *)
Lemma RInt_bound1 (f : R -> R) x y : (forall t, Rmin x y <= t <= Rmax x y -> continuous f t) -> (forall t, Rabs (f t) <= 1) ->
  Rabs (RInt f x y) <= Rabs (y - x).
Proof.
  intros Hc Hb. destruct (Rle_dec x y) as [Hxy|Hxy].
  - rewrite (Rabs_pos_eq (y - x)) by lra. replace (y - x) with ((y - x) * 1) by ring.
    apply abs_RInt_le_const; [exact Hxy|apply ex_RInt_cont; exact Hc|intros; apply Hb].
  - assert (Hyx : y <= x) by lra.
    rewrite (RInt_swap_R f y x).
    2:{ apply ex_RInt_cont. intros z Hz. apply Hc. rewrite Rmin_comm, Rmax_comm. exact Hz. }
    rewrite Rabs_Ropp. rewrite Rabs_minus_sym, (Rabs_pos_eq (x - y)) by lra.
    replace (x - y) with ((x - y) * 1) by ring.
    apply abs_RInt_le_const; [exact Hyx| |intros; apply Hb].
    apply ex_RInt_cont. intros z Hz. apply Hc. rewrite Rmin_comm, Rmax_comm. exact Hz.
Qed.

Lemma fb_ex_RInt b lo hi : 0 < lo -> 0 < hi -> ex_RInt (fb b) lo hi.
Proof.
  intros H1 H2. apply ex_RInt_cont. intros z [Hz _]. apply fb_cont.
  pose proof (between_pos lo hi z H1 H2 Hz). lra.
Qed.

Lemma E_ex_RInt x y : ex_RInt E x y.
Proof. apply ex_RInt_cont. intros z _. apply E_cont. Qed.

(* substitution u = v - b / v *)
Lemma subst1 b lo hi : 0 < lo -> 0 < hi ->
  is_RInt (fun v => (1 + b / (v * v)) * fb b v) lo hi (RInt E (lo - b / lo) (hi - b / hi)).
Proof.
  intros H1 H2.
  refine (is_RInt_ext _ _ _ _ _ _ (is_RInt_comp E (fun v => v - b / v) (fun v => 1 + b / (v * v)) lo hi _ _)).
  - intros x _. reflexivity.
  - intros x _. apply E_cont.
  - intros x [Hx _]. pose proof (between_pos lo hi x H1 H2 Hx) as Hp. split.
    + auto_derive; [nz|field; nz].
    + apply (ex_derive_continuous (fun v => 1 + b / (v * v))). auto_derive. nz.
Qed.

(* substitution w = b / v *)
Lemma subst2 b lo hi : 0 < b -> 0 < lo -> 0 < hi ->
  is_RInt (fun v => (- b / (v * v)) * fb b v) lo hi (RInt (fb b) (b / lo) (b / hi)).
Proof.
  intros Hb H1 H2.
  refine (is_RInt_ext _ _ _ _ _ _ (is_RInt_comp (fb b) (fun v => b / v) (fun v => - b / (v * v)) lo hi _ _)).
  - intros x [Hx _]. assert (Hp : 0 < x) by (apply (between_pos lo hi x H1 H2); lra).
    unfold scal; cbn. unfold mult; cbn. f_equal. unfold fb. f_equal. f_equal.
    replace (b / (b / x)) with x by (field; split; lra). ring.
  - intros x [Hx _]. pose proof (between_pos lo hi x H1 H2 Hx) as Hp. apply fb_cont.
    assert (0 < b / x) by (apply Rdiv_lt_0_compat; lra). lra.
  - intros x [Hx _]. pose proof (between_pos lo hi x H1 H2 Hx) as Hp. split.
    + auto_derive; [nz|field; nz].
    + apply (ex_derive_continuous (fun v => - b / (v * v))). auto_derive. nz.
Qed.

Theorem cauchy_schlomilch b M : 0 < b -> 0 < M ->
  2 * RInt (fb b) (b / M) M = RInt E (- (M - b / M)) (M - b / M).
Proof.
  intros Hb HM. set (m := b / M). assert (Hm : 0 < m) by (apply Rdiv_lt_0_compat; assumption).
  pose proof (RInt_correct_R (fb b) m M (fb_ex_RInt b m M Hm HM)) as H0.
  pose proof (subst2 b m M Hb Hm HM) as H2.
  replace (b / m) with M in H2 by (unfold m; field; split; lra). fold m in H2.
  apply is_RInt_opp in H2. change (opp (RInt (fb b) M m)) with (- RInt (fb b) M m) in H2.
  rewrite (RInt_swap_R (fb b) m M), Ropp_involutive in H2 by (apply fb_ex_RInt; assumption).
  pose proof (is_RInt_plus _ _ _ _ _ _ H0 H2) as H3.
  pose proof (subst1 b m M Hm HM) as H1.
  replace (m - b / m) with (- (M - b / M)) in H1 by (unfold m; field; split; lra).
  apply is_RInt_unique_R in H1.
  assert (H4 : is_RInt (fun v => (1 + b / (v * v)) * fb b v) m M (RInt (fb b) m M + RInt (fb b) m M)).
  { revert H3. apply is_RInt_ext. intros x _. unfold plus, opp; cbn. unfold Rdiv. ring. }
  apply is_RInt_unique_R in H4. rewrite H1 in H4. subst m. rewrite H4. ring.
Qed.

(* evenness of the Gaussian *)
Lemma E_even_RInt r : RInt E (- r) 0 = RInt E 0 r.
Proof.
  pose proof (RInt_correct_R E (- r) (- 0) (E_ex_RInt _ _)) as H. apply is_RInt_comp_opp in H.
  apply is_RInt_swap in H. apply is_RInt_opp in H.
  assert (H' : is_RInt E 0 r (RInt E (- r) 0)).
  { replace (RInt E (- r) 0) with (opp (opp (RInt E (- r) (- 0)))) by (rewrite Ropp_0; unfold opp; cbn; ring).
    revert H. apply is_RInt_ext. intros x _. unfold opp; cbn. unfold E.
      rewrite Ropp_involutive. apply f_equal. apply Rminus_diag_uniq. ring. }
  symmetry. apply is_RInt_unique_R. exact H'.
Qed.

Lemma E_sym_RInt r : RInt E (- r) r = 2 * RInt E 0 r.
Proof.
  rewrite (RInt_Chasles_R E (- r) 0 r) by apply E_ex_RInt. rewrite E_even_RInt. lra.
Qed.

(* the half-line Gaussian integral *)
Definition PG (N : nat) : R := RInt E 0 (INR N).

Lemma PG_incr N : PG N <= PG (S N).
Proof.
  unfold PG. rewrite (RInt_Chasles_R E 0 (INR N) (INR (S N))) by apply E_ex_RInt.
  assert (0 <= RInt E (INR N) (INR (S N))).
  { apply RInt_ge_0; [rewrite S_INR; lra|apply E_ex_RInt|intros; left; apply exp_pos]. }
  lra.
Qed.

Lemma PG_bound N : PG N <= exp (1 / 4).
Proof.
  unfold PG.
  assert (HI : is_RInt (fun u => exp (1 / 4) * exp (- u)) 0 (INR N) (exp (1 / 4) * (1 - exp (- INR N)))).
  { replace (exp (1 / 4) * (1 - exp (- INR N))) with (minus ((fun u => - (exp (1 / 4) * exp (- u))) (INR N)) ((fun u => - (exp (1 / 4) * exp (- u))) 0)).
    2:{ unfold minus, plus, opp; cbn. replace (- 0) with 0 by ring. rewrite exp_0. ring. }
    apply (is_RInt_derive (fun u => - (exp (1 / 4) * exp (- u)))).
    - intros x _. auto_derive; [exact I|ring].
    - intros x _. apply (ex_derive_continuous (fun u => exp (1 / 4) * exp (- u))). auto_derive. exact I. }
  apply Rle_trans with (RInt (fun u => exp (1 / 4) * exp (- u)) 0 (INR N)).
  - apply RInt_le; [apply pos_INR|apply E_ex_RInt|eexists; exact HI|].
    intros x _. unfold E. rewrite <- exp_plus.
    destruct (Rle_lt_or_eq_dec (- (x * x)) (1 / 4 + - x) ltac:(pose proof (Rle_0_sqr (x - 1 / 2)) as Q; unfold Rsqr in Q; nra)) as [Hlt|Heq];
      [left; apply exp_increasing; exact Hlt|rewrite Heq; right; reflexivity].
  - rewrite (is_RInt_unique_R _ _ _ _ HI). pose proof (exp_pos (1 / 4)). pose proof (exp_pos (- INR N)). nra.
Qed.

Lemma PG_1_pos : 0 < PG 1.
Proof.
  unfold PG. apply RInt_gt_0; [cbn; lra|intros; apply exp_pos|intros; apply E_cont].
Qed.

(* sequences bounded by c / (N + 1) tend to 0 *)
Lemma lim_inv_S c (e : nat -> R) : (forall N, Rabs (e N) <= c * / INR (S N)) -> is_lim_seq e 0.
Proof.
  intros H. apply is_lim_seq_abs_0.
  apply (is_lim_seq_le_le (fun _ => 0) _ (fun N => c * / INR (S N))).
  - intros N. split; [apply Rabs_pos|apply H].
  - apply is_lim_seq_const.
  - replace (Finite 0) with (Rbar_mult c 0) by (cbn; f_equal; ring).
    apply is_lim_seq_scal_l.
    apply (is_lim_seq_incr_1 (fun n => / INR n)).
    replace (Finite 0) with (Rbar_inv p_infty) by reflexivity.
    apply is_lim_seq_inv; [apply is_lim_seq_INR|discriminate].
Qed.

Lemma E_small x y : Rabs (RInt E x y) <= Rabs (y - x).
Proof. apply RInt_bound1; [intros; apply E_cont|apply E_abs_le]. Qed.

Lemma fb_small b x y : 0 < x -> 0 < y -> Rabs (RInt (fb b) x y) <= Rabs (y - x).
Proof.
  intros Hx Hy. apply RInt_bound1; [|apply fb_abs_le].
  intros t [Ht _]. apply fb_cont. pose proof (between_pos x y t Hx Hy Ht). lra.
Qed.

Lemma hb_RInt b lo hi : 0 < lo -> 0 < hi -> RInt (hb b) lo hi = exp (- 2 * b) * RInt (fb b) lo hi.
Proof.
  intros H1 H2. apply is_RInt_unique_R.
  apply (is_RInt_ext (fun v => scal (exp (- 2 * b)) (fb b v))).
  - intros x [Hx _]. assert (0 < x) by (apply (between_pos lo hi x H1 H2); lra). rewrite hb_fb by lra. reflexivity.
  - exact (is_RInt_scal (fb b) lo hi (exp (- 2 * b)) (RInt (fb b) lo hi) (RInt_correct_R _ _ _ (fb_ex_RInt b lo hi H1 H2))).
Qed.

Lemma mix_decomp b N : 0 < b ->
  RInt (hb b) (/ INR (S N)) (INR (S N)) =
  exp (- 2 * b) * (PG (S N) + (RInt (fb b) (/ INR (S N)) (b / INR (S N)) + RInt E (INR (S N)) (INR (S N) - b / INR (S N)))).
Proof.
  intros Hb. set (n := INR (S N)). assert (Hn : 0 < n) by (apply lt_0_INR; lia).
  assert (Hi : 0 < / n) by (apply Rinv_0_lt_compat; exact Hn).
  assert (Hbn : 0 < b / n) by (apply Rdiv_lt_0_compat; assumption).
  rewrite hb_RInt by assumption. f_equal.
  rewrite (RInt_Chasles_R (fb b) (/ n) (b / n) n) by (apply fb_ex_RInt; assumption).
  pose proof (cauchy_schlomilch b n Hb Hn) as CS. rewrite E_sym_RInt in CS.
  assert (CS' : RInt (fb b) (b / n) n = RInt E 0 (n - b / n)) by lra.
  rewrite CS'. rewrite (RInt_Chasles_R E 0 n (n - b / n)) by apply E_ex_RInt. unfold PG. fold n. lra.
Qed.

Lemma mix_decomp0 N :
  RInt (hb 0) (/ INR (S N)) (INR (S N)) = PG (S N) + - RInt E 0 (/ INR (S N)).
Proof.
  set (n := INR (S N)). unfold PG. fold n.
  rewrite (RInt_Chasles_R E 0 (/ n) n) by apply E_ex_RInt.
  assert (EQ : RInt (hb 0) (/ n) n = RInt E (/ n) n).
  { apply is_RInt_unique_R. apply (is_RInt_ext E); [intros x _; symmetry; apply hb_0|]. apply RInt_correct_R, E_ex_RInt. }
  rewrite EQ. lra.
Qed.

Theorem mix_lim : exists H : R, 0 < H /\
  forall b, 0 <= b -> is_lim_seq (fun N => RInt (hb b) (/ INR (S N)) (INR (S N))) (H * exp (- 2 * b)).
Proof.
  destruct (ex_finite_lim_seq_incr PG (exp (1 / 4)) PG_incr PG_bound) as [H HH].
  exists H. split.
  - pose proof (is_lim_seq_incr_compare PG H HH PG_incr 1%nat). pose proof PG_1_pos. lra.
  - intros b Hb0.
    assert (HS : is_lim_seq (fun N => PG (S N)) H) by (apply (is_lim_seq_incr_1 PG); exact HH).
    destruct (Rle_lt_or_eq_dec 0 b Hb0) as [Hb|Hb].
    + apply (is_lim_seq_ext (fun N => exp (- 2 * b) *
         (PG (S N) + (RInt (fb b) (/ INR (S N)) (b / INR (S N)) + RInt E (INR (S N)) (INR (S N) - b / INR (S N)))))).
      { intros N. symmetry. apply mix_decomp. exact Hb. }
      replace (H * exp (- 2 * b)) with (exp (- 2 * b) * (H + 0)) by ring.
      apply is_lim_seq_mult'; [apply is_lim_seq_const|]. apply is_lim_seq_plus'; [exact HS|].
      apply (lim_inv_S (Rabs (b - 1) + b)). intros N.
      set (n := INR (S N)). assert (Hn : 0 < n) by (apply lt_0_INR; lia).
      assert (Hi : 0 < / n) by (apply Rinv_0_lt_compat; exact Hn).
      assert (Hbn : 0 < b / n) by (apply Rdiv_lt_0_compat; assumption).
      eapply Rle_trans; [apply Rabs_triang|].
      pose proof (fb_small b (/ n) (b / n) Hi Hbn) as B1. pose proof (E_small n (n - b / n)) as B2.
      replace (b / n - / n) with ((b - 1) * / n) in B1 by (unfold Rdiv; ring).
      rewrite Rabs_mult, (Rabs_pos_eq (/ n)) in B1 by lra.
      replace (n - b / n - n) with (- (b / n)) in B2 by ring.
      rewrite Rabs_Ropp, (Rabs_pos_eq (b / n)) in B2 by lra. unfold Rdiv in B2. lra.
    + subst b.
      apply (is_lim_seq_ext (fun N => PG (S N) + - RInt E 0 (/ INR (S N)))).
      { intros N. symmetry. apply mix_decomp0. }
      replace (H * exp (- 2 * 0)) with (H + 0) by (rewrite Rmult_0_r, exp_0; ring).
      apply is_lim_seq_plus'; [exact HS|].
      apply (lim_inv_S 1). intros N.
      set (n := INR (S N)). assert (Hn : 0 < n) by (apply lt_0_INR; lia).
      assert (Hi : 0 < / n) by (apply Rinv_0_lt_compat; exact Hn).
      rewrite Rabs_Ropp. pose proof (E_small 0 (/ n)) as B. rewrite Rminus_0_r, (Rabs_pos_eq (/ n)) in B by lra. lra.
Qed.

(* ====================================================================== *)
(* (3) the quadratic form commutes with the integral                       *)
(* ====================================================================== *)
Lemma is_RInt_zero lo hi : is_RInt (fun _ : R => 0) lo hi 0.
Proof.
  pose proof (@is_RInt_const R_NormedModule lo hi 0) as H. unfold scal in H; cbn in H; unfold mult in H; cbn in H.
  rewrite Rmult_0_r in H. exact H.
Qed.

Lemma lin_RInt (g : R -> list R -> list R -> R) lo hi x : forall ys cs,
  (forall y, In y ys -> ex_RInt (fun v => g v x y) lo hi) ->
  is_RInt (fun v => lin (g v) x ys cs) lo hi (lin (fun u w => RInt (fun v => g v u w) lo hi) x ys cs).
Proof.
  induction ys as [|y ys IH]; intros cs H; [apply is_RInt_zero|]. destruct cs as [|c cs]; [apply is_RInt_zero|].
  cbn [lin].
  apply (@is_RInt_plus R_NormedModule (fun v => c * g v x y) (fun v => lin (g v) x ys cs) lo hi).
  - apply (@is_RInt_scal R_NormedModule (fun v => g v x y) lo hi c). apply RInt_correct_R. apply H. left. reflexivity.
  - apply IH. intros y0 Hy0. apply H. right. exact Hy0.
Qed.

Lemma qf_aux_RInt (g : R -> list R -> list R -> R) lo hi all allc : forall xs cs,
  (forall x y, In x xs -> In y all -> ex_RInt (fun v => g v x y) lo hi) ->
  is_RInt (fun v => qf_aux (g v) all allc xs cs) lo hi (qf_aux (fun u w => RInt (fun v => g v u w) lo hi) all allc xs cs).
Proof.
  induction xs as [|x xs IH]; intros cs H; [apply is_RInt_zero|]. destruct cs as [|c cs]; [apply is_RInt_zero|].
  cbn [qf_aux].
  apply (@is_RInt_plus R_NormedModule (fun v => c * lin (g v) x all allc) (fun v => qf_aux (g v) all allc xs cs) lo hi).
  - apply (@is_RInt_scal R_NormedModule (fun v => lin (g v) x all allc) lo hi c). apply lin_RInt.
    intros y Hy. apply H; [left; reflexivity|exact Hy].
  - apply IH. intros x0 y Hx0 Hy. apply H; [right; exact Hx0|exact Hy].
Qed.

Theorem qf_RInt (g : R -> list R -> list R -> R) lo hi P cs :
  (forall x y, In x P -> In y P -> ex_RInt (fun v => g v x y) lo hi) ->
  is_RInt (fun v => qf (g v) P cs) lo hi (qf (fun u w => RInt (fun v => g v u w) lo hi) P cs).
Proof. intros H. unfold qf. apply qf_aux_RInt. exact H. Qed.

(* a non-negative mixture (integral) of PSD kernels is PSD *)
Theorem psd_RInt (g : R -> list R -> list R -> R) lo hi P cs : lo <= hi ->
  (forall x y, In x P -> In y P -> ex_RInt (fun v => g v x y) lo hi) ->
  (forall v, lo < v < hi -> 0 <= qf (g v) P cs) ->
  0 <= qf (fun u w => RInt (fun v => g v u w) lo hi) P cs.
Proof.
  intros Hle Hex Hpos. exact (is_RInt_ge_0 _ lo hi _ Hle (qf_RInt g lo hi P cs Hex) Hpos).
Qed.

(* ====================================================================== *)
(* (4) the L2 Laplace kernel with exponent 1 is PSD                        *)
(* ====================================================================== *)
(* for v > 0 the integrand is exp (- v^2) times the Gaussian kernel of bandwidth 2 L v *)
Lemma hb_as_gauss t L x z v : 0 < L -> 0 < v ->
  hb (sqrt (rdist t L x z) / 2) v = exp (- (v * v)) * closed_l2 t (2 * L * v) 2 x z.
Proof.
  intros HL Hv. rewrite (closed_l2_q2_eq t L (2 * L * v)) by nra. unfold hb. rewrite <- exp_plus. f_equal.
  pose proof (sqrt_sqrt (rdist t L x z) (rdist_nonneg t L x z HL)) as Q. set (s := sqrt (rdist t L x z)) in *. rewrite <- Q.
  field. split; lra.
Qed.

Theorem laplace_l2_q1_psd : forall t L (xs : list (list R)) (cs : list R) (d : nat),
  0 < L -> wf_tmat t d -> List.Forall (fun x => length x = d) xs -> 0 <= qf (closed_l2 t L 1) xs cs.
Proof.
  intros t L xs cs d HL Hw Hd. destruct mix_lim as [H [HH Hlim]].
  set (bb := fun x z : list R => sqrt (rdist t L x z) / 2).
  apply (psd_lim (fun N x z => / H * RInt (fun v => hb (bb x z) v) (/ INR (S N)) (INR (S N)))).
  - intros N. rewrite (qf_scale (/ H) (fun x z => RInt (fun v => hb (bb x z) v) (/ INR (S N)) (INR (S N)))).
    apply Rmult_le_pos; [left; apply Rinv_0_lt_compat; exact HH|].
    set (n := INR (S N)). assert (Hn : 1 <= n) by (unfold n; rewrite S_INR; pose proof (pos_INR N); lra).
    assert (Hi : 0 < / n) by (apply Rinv_0_lt_compat; lra).
    assert (Hin : / n <= n).
    { apply Rle_trans with 1; [|exact Hn]. rewrite <- Rinv_1. apply Rinv_le_contravar; lra. }
    apply (psd_RInt (fun v x z => hb (bb x z) v) (/ n) n xs cs Hin).
    + intros x z _ _. apply ex_RInt_cont. intros v [Hv _]. apply hb_cont.
      assert (0 < v) by (apply (between_pos (/ n) n v); lra). lra.
    + intros v [Hv _]. assert (Hv0 : 0 < v) by lra.
      rewrite (qf_ext _ (fun x z => exp (- (v * v)) * closed_l2 t (2 * L * v) 2 x z)).
      * rewrite (qf_scale (exp (- (v * v))) (closed_l2 t (2 * L * v) 2)).
        apply Rmult_le_pos; [left; apply exp_pos|]. apply (gaussian_psd t _ xs cs d); [nra|exact Hw|exact Hd].
      * intros x z _ _. unfold bb. apply hb_as_gauss; assumption.
  - intros x z Hx Hz. rewrite closed_l2_q1_eq by exact HL.
    replace (- sqrt (rdist t L x z)) with (- 2 * bb x z) by (unfold bb; field).
    replace (exp (- 2 * bb x z)) with (/ H * (H * exp (- 2 * bb x z))) by (field; lra).
    apply is_lim_seq_mult'; [apply is_lim_seq_const|]. apply Hlim.
    unfold bb. pose proof (sqrt_pos (rdist t L x z)). lra.
Qed.

(* op-sequence version: LaplaceKernel (cdist -> clamp -> pow -> scale -> exp) with exponent 1, the library default *)
Theorem laplace_l2_op_q1_psd : forall t L (xs : list (list R)) (cs : list R) (d : nat),
  0 < L -> wf_tmat t d -> List.Forall (fun x => length x = d) xs -> 0 <= qf (laplace_l2 t L 1) xs cs.
Proof.
  intros t L xs cs d HL Hw Hd.
  rewrite (qf_ext _ (closed_l2 t L 1)); [apply (laplace_l2_q1_psd t L xs cs d); assumption|].
  intros x z Hx Hz. rewrite Forall_forall in Hd. pose proof (Hd x Hx) as Lx. pose proof (Hd z Hz) as Lz.
  apply laplace_l2_closed_form; [lia|rewrite Lx; exact Hw].
Qed.

(* the premise of the conditional theorem is therefore not needed; conversely the subordination limit in the form used above *)
Corollary exp_neg_sqrt_is_gaussian_mixture_limit : exists H : R, 0 < H /\
  forall r, 0 <= r ->
    is_lim_seq (fun N => / H * RInt (fun v => exp (- (v * v)) * exp (- (r / 4) / (v * v))) (/ INR (S N)) (INR (S N))) (exp (- sqrt r)).
Proof.
  destruct mix_lim as [H [HH Hlim]]. exists H. split; [exact HH|]. intros r Hr.
  replace (exp (- sqrt r)) with (/ H * (H * exp (- 2 * (sqrt r / 2)))) by (replace (- 2 * (sqrt r / 2)) with (- sqrt r) by field; field; lra).
  apply is_lim_seq_mult'; [apply is_lim_seq_const|].
  apply (is_lim_seq_ext (fun N => RInt (hb (sqrt r / 2)) (/ INR (S N)) (INR (S N)))).
  - intros N. apply RInt_ext. intros v _. unfold hb. rewrite <- exp_plus. f_equal.
    pose proof (sqrt_sqrt r Hr) as Q. set (s := sqrt r) in *. rewrite <- Q.
    replace (s * s / 4) with (s / 2 * (s / 2)) by field. unfold Rdiv. ring.
  - apply Hlim. pose proof (sqrt_pos r). lra.
Qed.

(* ---------- concrete instances: 3 points in R^2 ---------- *)
Definition pts2 : list (list R) := [[1; 2]; [0; -3]; [4; 1]].

Example laplace_l2_q1_psd_ex : 0 <= qf (closed_l2 (TDiag [2; 1]) 3 1) pts2 [1; -2; 1].
Proof. apply (laplace_l2_q1_psd _ _ _ _ 2); [lra|reflexivity|repeat constructor]. Qed.

Example laplace_l2_op_q1_psd_ex : 0 <= qf (laplace_l2 (TFull 3 [[1; 0; 2]; [0; -1; 1]]) (1 / 2) 1) pts2 [1; -2; 1].
Proof. apply (laplace_l2_op_q1_psd _ _ _ _ 2); [lra|cbn; split; [reflexivity|repeat constructor]|repeat constructor]. Qed.

(* the quadratic form written out on the three points (no transform, L = 1) *)
Example laplace_l2_q1_psd_ex_explicit : forall c1 c2 c3 : R,
  0 <= qf (closed_l2 TNone 1 1) pts2 [c1; c2; c3].
Proof. intros. apply (laplace_l2_q1_psd _ _ _ _ 2); [lra|exact I|repeat constructor]. Qed.

(* ====================================================================== *)
(* (5) Schoenberg's theorem proper (no integral)                           *)
(* ====================================================================== *)
(* kernels on the SET of the points of P: all finite lists of points of P, coefficient lists of the matching length *)
Definition sym_on (k : list R -> list R -> R) (P : list (list R)) : Prop := forall u v, In u P -> In v P -> k u v = k v u.
Definition psd_set (k : list R -> list R -> R) (P : list (list R)) : Prop :=
  forall Q cs, incl Q P -> length cs = length Q -> 0 <= qf k Q cs.
Definition cnd_set (k : list R -> list R -> R) (P : list (list R)) : Prop :=
  forall Q cs, incl Q P -> length cs = length Q -> rsumR cs = 0 -> qf k Q cs <= 0.

(* sum_i c_i g(x_i) *)
Definition wsumf (g : list R -> R) (xs : list (list R)) (cs : list R) : R := lin (fun _ v => g v) [] xs cs.

Lemma lin_as_wsumf k x : forall ys cs, lin k x ys cs = wsumf (k x) ys cs.
Proof. unfold wsumf. induction ys as [|y ys IH]; intros [|c cs]; cbn [lin]; try ring. rewrite IH. ring. Qed.

Lemma lin_rank1 g h x : forall ys cs, lin (fun u v => g u * h v) x ys cs = g x * wsumf h ys cs.
Proof. unfold wsumf. induction ys as [|y ys IH]; intros [|c cs]; cbn [lin]; try ring. rewrite IH. ring. Qed.

Lemma qf_aux_rank1 g h all allc : forall xs cs, qf_aux (fun u v => g u * h v) all allc xs cs = wsumf g xs cs * wsumf h all allc.
Proof.
  induction xs as [|x xs IH]; intros [|c cs]; unfold wsumf in *; cbn [qf_aux lin]; try ring.
  rewrite IH. rewrite lin_rank1. unfold wsumf. ring.
Qed.

Lemma qf_rank1 g h P cs : qf (fun u v => g u * h v) P cs = wsumf g P cs * wsumf h P cs.
Proof. apply qf_aux_rank1. Qed.

Lemma wsumf_one : forall Q cs, length cs = length Q -> wsumf (fun _ => 1) Q cs = rsumR cs.
Proof.
  unfold wsumf, rsumR. induction Q as [|y Q IH]; intros [|c cs] H; try discriminate; cbn [lin fold_right]; [reflexivity|].
  cbn in H. injection H as H. rewrite (IH cs H). ring.
Qed.

Lemma wsumf_ext g h : forall Q cs, (forall u, In u Q -> g u = h u) -> wsumf g Q cs = wsumf h Q cs.
Proof.
  unfold wsumf. induction Q as [|y Q IH]; intros [|c cs] H; cbn [lin]; try reflexivity.
  rewrite (H y (or_introl eq_refl)), (IH cs) by (intros u Hu; apply H; right; exact Hu). reflexivity.
Qed.

Lemma qf_aux_cons_all k y c all allc : forall xs cs,
  qf_aux k (y :: all) (c :: allc) xs cs = c * wsumf (fun u => k u y) xs cs + qf_aux k all allc xs cs.
Proof.
  induction xs as [|x xs IH]; intros [|c' cs]; unfold wsumf in *; cbn [qf_aux lin]; try ring. rewrite IH. ring.
Qed.

Lemma qf_cons k x0 c0 Q cs :
  qf k (x0 :: Q) (c0 :: cs) = c0 * (c0 * k x0 x0 + wsumf (k x0) Q cs) + (c0 * wsumf (fun u => k u x0) Q cs + qf k Q cs).
Proof. unfold qf. cbn [qf_aux lin]. rewrite qf_aux_cons_all, lin_as_wsumf. reflexivity. Qed.

(* a representation on P extends to a further point on whose row and column the kernel vanishes *)
Lemma has_rep_extend k x0 P : has_rep k P -> (forall v, In v (x0 :: P) -> k x0 v = 0 /\ k v x0 = 0) -> has_rep k (x0 :: P).
Proof.
  intros [F [n [HL HK]]] Hz.
  assert (dec : forall u : list R, {u = x0} + {u <> x0}) by (intros u; apply list_eq_dec; apply Req_EM_T).
  exists (fun u => if dec u then repeat 0 n else F u), n. split.
  - intros u. destruct (dec u); [apply repeat_length|apply HL].
  - intros u v Hu Hv. destruct (dec u) as [->|Nu].
    + rewrite vdotR_zero_l. apply Hz; exact Hv.
    + destruct (dec v) as [->|Nv].
      * rewrite vdotR_zero_r. apply Hz; exact Hu.
      * apply HK; [destruct Hu as [E|Hu]; [congruence|exact Hu]|destruct Hv as [E|Hv]; [congruence|exact Hv]].
Qed.

(* a symmetric PSD kernel on a finite set of points has a feature representation (Schur complements) *)
Theorem psd_sym_has_rep : forall P k, sym_on k P -> psd_set k P -> has_rep k P.
Proof.
  induction P as [|x0 P IH]; intros k Hs Hp.
  - exists (fun _ => []), 0%nat. split; [reflexivity|intros u v []].
  - set (a := k x0 x0).
    assert (Hx0 : In x0 (x0 :: P)) by (left; reflexivity).
    assert (Ha : 0 <= a).
    { pose proof (Hp [x0] [1] ltac:(intros u [<-|[]]; exact Hx0) eq_refl) as H. unfold qf in H. cbn [qf_aux lin] in H.
      change (k x0 x0) with a in H. lra. }
    assert (HsP : sym_on k P) by (intros u v Hu Hv; apply Hs; right; assumption).
    assert (HpP : psd_set k P) by (intros Q cs HQ Hl; apply Hp; [intros u Hu; right; apply HQ; exact Hu|exact Hl]).
    destruct (Rle_lt_or_eq_dec 0 a Ha) as [Hpos|Hzero].
    + set (k' := fun u v => k u v - k u x0 * k x0 v / a).
      assert (Hp' : psd_set k' P).
      { intros Q cs HQ Hlen. set (S := wsumf (k x0) Q cs).
        assert (HS2 : wsumf (fun u => k u x0) Q cs = S).
        { apply wsumf_ext. intros u Hu. apply Hs; [right; apply HQ; exact Hu|exact Hx0]. }
        assert (H : 0 <= qf k (x0 :: Q) ((- S / a) :: cs)).
        { apply Hp; [|cbn; lia]. intros u [<-|Hu]; [exact Hx0|right; apply HQ; exact Hu]. }
        rewrite qf_cons, HS2 in H. change (k x0 x0) with a in H. fold S in H.
        assert (E : qf k' Q cs = qf k Q cs - S * S / a).
        { unfold k'.
          rewrite (qf_ext _ (fun u v => k u v + (- / a) * ((fun u => k u x0) u * (k x0) v))) by (intros; unfold Rdiv; ring).
          rewrite (qf_plus k (fun u v => - / a * (k u x0 * k x0 v))), (qf_scale (- / a) (fun u v => k u x0 * k x0 v)).
          rewrite (qf_rank1 (fun u => k u x0) (k x0)), HS2. fold S. unfold Rdiv; ring. }
        rewrite E.
        replace (- S / a * (- S / a * a + S) + (- S / a * S + qf k Q cs)) with (qf k Q cs - S * S / a) in H by (field; lra).
        exact H. }
      assert (Hs' : sym_on k' P).
      { intros u v Hu Hv. unfold k'.
        rewrite (HsP u v Hu Hv), (Hs u x0 (or_intror Hu) Hx0), (Hs x0 v Hx0 (or_intror Hv)). unfold Rdiv; ring. }
      pose proof (IH k' Hs' Hp') as HR.
      assert (HR' : has_rep k' (x0 :: P)).
      { apply has_rep_extend; [exact HR|]. intros v Hv. unfold k'. change (k x0 x0) with a. split; field; lra. }
      assert (Hq : 0 < sqrt a) by (apply sqrt_lt_R0; exact Hpos).
      pose (g := fun u : list R => k u x0 / sqrt a).
      apply (has_rep_ext (fun u v => k' u v + g u * g v)).
      * intros u v Hu Hv. unfold k', g. rewrite (Hs x0 v Hx0 Hv).
        pose proof (sqrt_sqrt a Ha) as Q. rewrite <- Q at 1. field. lra.
      * apply (has_rep_sum k' (fun u v => g u * g v)); [exact HR'|apply has_rep_rank1].
    + assert (Hz : forall v, In v (x0 :: P) -> k x0 v = 0).
      { intros v Hv. destruct (Req_EM_T (k x0 v) 0) as [E|NE]; [exact E|exfalso].
        set (s := - (k v v + 1) / (2 * k x0 v)).
        pose proof (Hp [x0; v] [s; 1] ltac:(intros u [<-|[<-|[]]]; assumption) eq_refl) as H.
        unfold qf in H. cbn [qf_aux lin] in H. rewrite (Hs v x0 Hv Hx0) in H. change (k x0 x0) with a in H. rewrite <- Hzero in H.
        assert (Es : s * k x0 v = - (k v v + 1) / 2) by (unfold s; field; exact NE). nra. }
      apply has_rep_extend; [apply IH; assumption|].
      intros v Hv. split; [apply Hz; exact Hv|rewrite (Hs v x0 Hv Hx0); apply Hz; exact Hv].
Qed.

(* SCHOENBERG: psi symmetric, zero on the diagonal, conditionally negative definite  ==>  exp (- psi) is PSD *)
Theorem exp_neg_cnd_is_psd : forall (psi : list R -> list R -> R) (P : list (list R)) (cs : list R),
  sym_on psi P -> (forall u, In u P -> psi u u = 0) -> cnd_set psi P ->
  0 <= qf (fun u v => exp (- psi u v)) P cs.
Proof.
  intros psi P cs Hs H0 Hc. destruct P as [|x0 P']; [cbn; lra|]. set (P := x0 :: P') in *.
  assert (Hx0 : In x0 P) by (left; reflexivity).
  set (phi := fun u v => psi u x0 + psi v x0 - psi u v).
  assert (Hsphi : sym_on phi P) by (intros u v Hu Hv; unfold phi; rewrite (Hs u v Hu Hv); ring).
  assert (Hpphi : psd_set phi P).
  { intros Q ds HQ Hlen. set (S := wsumf (psi x0) Q ds).
    assert (HS2 : wsumf (fun u => psi u x0) Q ds = S).
    { apply wsumf_ext. intros u Hu. apply Hs; [apply HQ; exact Hu|exact Hx0]. }
    assert (H : qf psi (x0 :: Q) ((- rsumR ds) :: ds) <= 0).
    { apply Hc; [intros u [<-|Hu]; [exact Hx0|apply HQ; exact Hu]|cbn; lia|unfold rsumR; cbn; ring]. }
    rewrite qf_cons, HS2, (H0 x0 Hx0) in H. fold S in H.
    unfold phi.
    rewrite (qf_ext _ (fun u v => ((fun u => psi u x0) u * (fun _ => 1) v + (fun _ => 1) u * (fun v => psi v x0) v) + (- 1) * psi u v))
      by (intros; ring).
    rewrite (qf_plus (fun u v => psi u x0 * 1 + 1 * psi v x0) (fun u v => -1 * psi u v)).
    rewrite (qf_plus (fun u v => psi u x0 * 1) (fun u v => 1 * psi v x0)).
    rewrite (qf_scale (- 1) psi).
    rewrite (qf_rank1 (fun u => psi u x0) (fun _ => 1)), (qf_rank1 (fun _ => 1) (fun v => psi v x0)).
    rewrite HS2, wsumf_one by exact Hlen. nra. }
  pose proof (psd_sym_has_rep P phi Hsphi Hpphi) as HR.
  pose (g := fun u : list R => exp (- psi u x0)).
  apply (psd_lim (fun N u v => (g u * g v) * expS (phi u v) N)).
  - intros N. apply has_rep_qf_nonneg.
    apply (has_rep_mul (fun u v => g u * g v) (fun u v => expS (phi u v) N)); [apply has_rep_rank1|apply has_rep_expS; exact HR].
  - intros u v Hu Hv.
    replace (exp (- psi u v)) with ((g u * g v) * exp (phi u v)) by (unfold g, phi; rewrite <- !exp_plus; f_equal; ring).
    apply is_lim_seq_mult'; [apply is_lim_seq_const|apply expS_lim].
Qed.

(* ---------- instances of Schoenberg's theorem ---------- *)
(* the squared Euclidean distance is conditionally negative definite on points of a common length ... *)
Lemma sqdist_cnd m P : List.Forall (fun u => length u = m) P -> cnd_set (fun u v => sumsq (vsubR u v)) P.
Proof.
  intros HP Q cs HQ Hlen Hsum.
  assert (HQm : List.Forall (fun u => length u = m) Q).
  { rewrite Forall_forall in *. intros u Hu. apply HP, HQ, Hu. }
  rewrite (qf_ext _ (fun u v => (sumsq u * (fun _ => 1) v + (fun _ => 1) u * sumsq v) + (- 2) * vdotR u v)).
  2:{ intros u v Hu Hv. rewrite sumsq_sub_expand; [ring|]. rewrite Forall_forall in HQm. rewrite (HQm u Hu), (HQm v Hv). reflexivity. }
  rewrite (qf_plus (fun u v => sumsq u * 1 + 1 * sumsq v) (fun u v => - 2 * vdotR u v)).
  rewrite (qf_plus (fun u v => sumsq u * 1) (fun u v => 1 * sumsq v)).
  rewrite (qf_scale (- 2) vdotR).
  rewrite (qf_rank1 sumsq (fun _ => 1)), (qf_rank1 (fun _ => 1) sumsq), wsumf_one, Hsum by exact Hlen.
  pose proof (has_rep_qf_nonneg vdotR Q (has_rep_dot m Q HQm) cs). lra.
Qed.

(* ... so Schoenberg's theorem gives the PSD of the Gaussian kernel (independently of PsdMore.gaussk_psd) *)
Example gauss_psd_by_schoenberg m P cs : List.Forall (fun u => length u = m) P -> 0 <= qf gaussk P cs.
Proof.
  intros HP. unfold gaussk. apply (exp_neg_cnd_is_psd (fun u v => sumsq (vsubR u v))).
  - intros u v _ _. apply sumsq_neg_sym.
  - intros u _. rewrite vsubR_self. apply sumsq_zeros.
  - apply (sqdist_cnd m). exact HP.
Qed.

Example schoenberg_ex : 0 <= qf (fun u v => exp (- sumsq (vsubR u v))) pts2 [1; -2; 1].
Proof. apply (gauss_psd_by_schoenberg 2). repeat constructor. Qed.

(* the hypotheses of the conditional theorem are satisfiable in a non-trivial way only through the identity proved above;
   a degenerate instance (all points equal, r = 0, one node) shows that they are consistent *)
Example from_mixture_ex : 0 <= qf (closed_l2 TNone 1 1) [[1; 2]; [1; 2]] [3; -1].
Proof.
  apply (laplace_l2_q1_psd_from_mixture TNone 1 _ _ 2 (fun _ _ => 1) (fun _ _ => 1) (fun _ => 1%nat)).
  - lra.
  - exact I.
  - repeat constructor.
  - intros; lra.
  - intros; lra.
  - assert (E : forall x z, In x [[1; 2]; [1; 2]] -> In z [[1; 2]; [1; 2]] -> rdist TNone 1 x z = 0).
    { intros x z [<-|[<-|[]]] [<-|[<-|[]]]; unfold rdist, sumsq, rsumR; cbn; field. }
    intros x z Hx Hz. rewrite (E x z Hx Hz). cbn [mixsum]. rewrite sqrt_0, Ropp_0, Rmult_0_r, exp_0.
    replace (0 + 1 * 1) with 1 by ring. apply is_lim_seq_const.
Qed.

Print Assumptions laplace_l2_q1_psd.
Print Assumptions laplace_l2_op_q1_psd.
Print Assumptions mix_lim.
Print Assumptions cauchy_schlomilch.
Print Assumptions exp_neg_sqrt_is_gaussian_mixture_limit.
Print Assumptions psd_RInt.
Print Assumptions laplace_l2_q1_psd_from_mixture.
Print Assumptions psd_sym_has_rep.
Print Assumptions exp_neg_cnd_is_psd.
Print Assumptions laplace_l2_q1_psd_ex.
