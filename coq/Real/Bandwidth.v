(* C19: scale invariance of the Laplace family under the median heuristic.
   (1) K_{cL}(c x, c z) = K_L(x, z) for every c > 0 (closed forms of Real/Kernels.v, any dimension, any transform);
   (2) the lower median of c * d_ij is c times the lower median of d_ij (sorting commutes with a positive scaling). *)
From Coq Require Import Reals List Lra Lia QArith.
Require Import XV.Real.Kernels.
Import ListNotations.
Local Open Scope R_scope.

Lemma vscaleR_sub c : forall x z, vsubR (vscaleR c x) (vscaleR c z) = vscaleR c (vsubR x z).
Proof. unfold vscaleR. induction x as [|a x IH]; intros [|b z]; cbn; try reflexivity. f_equal; [ring|apply IH]. Qed.

Lemma vmulR_scale c : forall x m, vmulR (vscaleR c x) m = vscaleR c (vmulR x m).
Proof. unfold vscaleR. induction x as [|a x IH]; intros [|b m]; cbn; try reflexivity. f_equal; [ring|apply IH]. Qed.

Lemma vaddR_scale c : forall a b, vaddR (vscaleR c a) (vscaleR c b) = vscaleR c (vaddR a b).
Proof. unfold vscaleR. induction a as [|x a IH]; intros [|y b]; cbn; try reflexivity. f_equal; [ring|apply IH]. Qed.

Lemma vscale_vscale a b r : vscaleR a (vscaleR b r) = vscaleR (a * b) r.
Proof. unfold vscaleR. rewrite map_map. apply map_ext. intros x. ring. Qed.

Lemma vscale_zeros c n : vscaleR c (repeat 0 n) = repeat 0 n.
Proof. unfold vscaleR. induction n as [|n IH]; cbn; [reflexivity|]. f_equal; [ring|exact IH]. Qed.

Lemma xmat_scale dout c : forall x rows, xmat dout (vscaleR c x) rows = vscaleR c (xmat dout x rows).
Proof.
  induction x as [|a x IH]; intros rows; [cbn; symmetry; apply vscale_zeros|].
  change (vscaleR c (a :: x)) with ((c * a) :: vscaleR c x). cbn [xmat].
  destruct rows as [|r rows]; [symmetry; apply vscale_zeros|].
  rewrite IH, <- vaddR_scale, vscale_vscale. reflexivity.
Qed.

Lemma transform_scale t c x : transform t (vscaleR c x) = vscaleR c (transform t x).
Proof. destruct t as [|m|dout rows]; cbn; [reflexivity|apply vmulR_scale|apply xmat_scale]. Qed.

Lemma sumsq_scale c v : sumsq (vscaleR c v) = c * c * sumsq v.
Proof. unfold sumsq, rsumR, vscaleR. induction v as [|a v IH]; cbn; [ring|]. rewrite IH. ring. Qed.

Lemma norm2_scale c v : 0 < c -> norm2 (vscaleR c v) = c * norm2 v.
Proof.
  intros Hc. unfold norm2. rewrite sumsq_scale, sqrt_mult by (try apply sumsq_nonneg; nra).
  rewrite sqrt_square by lra. reflexivity.
Qed.

Lemma pw_scale c d q : 0 < c -> 0 <= d -> pw (c * d) q = Rpower c q * pw d q.
Proof.
  intros Hc Hd. unfold pw. destruct (Req_EM_T d 0) as [->|Hne].
  - rewrite Rmult_0_r. destruct (Req_EM_T 0 0); [ring|contradiction].
  - destruct (Req_EM_T (c * d) 0) as [E|_]; [exfalso; assert (0 < d) by lra; nra|].
    symmetry. apply Rpower_mult_distr; lra.
Qed.

(* (1) *)
Theorem laplace_l2_scale_invariant t L q c x z : 0 < c -> 0 < L ->
  closed_l2 t (c * L) q (vscaleR c x) (vscaleR c z) = closed_l2 t L q x z.
Proof.
  intros Hc HL. unfold closed_l2. rewrite vscaleR_sub, transform_scale, norm2_scale by exact Hc.
  rewrite pw_scale by (try exact Hc; apply sqrt_pos). rewrite <- Rpower_mult_distr by assumption.
  f_equal. field. split; apply Rgt_not_eq, exp_pos.
Qed.

Lemma sum_abs_pow_scale p c v : 0 < c -> sum_abs_pow p (vscaleR c v) = Rpower c p * sum_abs_pow p v.
Proof.
  intros Hc. unfold sum_abs_pow, rsumR, vscaleR. induction v as [|a v IH]; cbn; [ring|].
  rewrite IH, Rabs_mult, (Rabs_right c) by lra. rewrite pw_scale by (try exact Hc; apply Rabs_pos). ring.
Qed.

Theorem laplace_product_scale_invariant t L q c x z : 0 < c -> 0 < L ->
  closed_product t (c * L) q (vscaleR c x) (vscaleR c z) = closed_product t L q x z.
Proof.
  intros Hc HL. unfold closed_product. rewrite vscaleR_sub, transform_scale, sum_abs_pow_scale by exact Hc.
  rewrite <- Rpower_mult_distr by assumption. f_equal. field. split; apply Rgt_not_eq, exp_pos.
Qed.

Theorem laplace_lpq_scale_invariant t L p q c x z : 0 < c -> 0 < L -> 0 < p ->
  closed_lpq t (c * L) p q (vscaleR c x) (vscaleR c z) = closed_lpq t L p q x z.
Proof.
  intros Hc HL Hp. unfold closed_lpq, normp. rewrite vscaleR_sub, transform_scale, sum_abs_pow_scale by exact Hc.
  rewrite pw_scale by (try apply exp_pos; apply sum_abs_pow_nonneg).
  rewrite Rpower_mult, Rinv_r, Rpower_1 by lra.
  rewrite pw_scale by (try exact Hc; apply pw_nonneg, sum_abs_pow_nonneg). rewrite <- Rpower_mult_distr by assumption.
  f_equal. field. split; apply Rgt_not_eq, exp_pos.
Qed.

(* (2) lower median over exact rationals *)
Local Open Scope Q_scope.
Fixpoint qinsert (x : Q) (l : list Q) : list Q :=
  match l with [] => [x] | y :: t => if Qle_bool x y then x :: l else y :: qinsert x t end.
Definition qsort (l : list Q) : list Q := fold_right qinsert [] l.
Definition lower_median (l : list Q) : Q := nth ((length l - 1) / 2) (qsort l) 0.

Lemma Qle_bool_scale c a b : 0 < c -> Qle_bool (c * a) (c * b) = Qle_bool a b.
Proof.
  intros Hc. destruct (Qle_bool a b) eqn:E.
  - apply Qle_bool_iff in E. apply Qle_bool_iff. apply Qmult_le_l; assumption.
  - destruct (Qle_bool (c * a) (c * b)) eqn:E2; [|reflexivity]. apply Qle_bool_iff in E2. apply Qmult_le_l in E2; [|exact Hc].
    apply Qle_bool_iff in E2. congruence.
Qed.

Lemma qinsert_scale c x l : 0 < c -> qinsert (c * x) (map (Qmult c) l) = map (Qmult c) (qinsert x l).
Proof.
  intros Hc. induction l as [|y t IH]; cbn; [reflexivity|]. rewrite Qle_bool_scale by exact Hc.
  destruct (Qle_bool x y); cbn; [reflexivity|]. rewrite IH. reflexivity.
Qed.

Lemma qsort_scale c l : 0 < c -> qsort (map (Qmult c) l) = map (Qmult c) (qsort l).
Proof. intros Hc. unfold qsort. induction l as [|x l IH]; cbn [map fold_right]; [reflexivity|]. rewrite IH. apply qinsert_scale. exact Hc. Qed.

Lemma qinsert_length x l : length (qinsert x l) = S (length l).
Proof. induction l as [|y t IH]; cbn; [reflexivity|]. destruct (Qle_bool x y); cbn; [reflexivity|]. rewrite IH. reflexivity. Qed.
Lemma qsort_length l : length (qsort l) = length l.
Proof. unfold qsort. induction l as [|x l IH]; cbn [fold_right length]; [reflexivity|]. rewrite qinsert_length, IH. reflexivity. Qed.

Theorem lower_median_homogeneous c l : 0 < c -> l <> [] -> lower_median (map (Qmult c) l) = c * lower_median l.
Proof.
  intros Hc Hne. unfold lower_median. rewrite map_length. rewrite (qsort_scale c l Hc).
  assert (Hlt : ((length l - 1) / 2 < length (qsort l))%nat).
  { rewrite qsort_length. destruct l as [|a l]; [contradiction|]. cbn [length].
    apply Nat.le_lt_trans with (m := (S (length l) - 1)%nat); [apply Nat.div_le_upper_bound; lia|lia]. }
  rewrite (nth_indep _ 0 (c * 0)) by (rewrite map_length; exact Hlt). apply (map_nth (Qmult c)).
Qed.
