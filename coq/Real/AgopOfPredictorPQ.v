(* Composition of C04 (gradients) and C14 (AGOP) for the PRODUCT ('l1') and the Lpq Laplace kernels -- the analogue of
   XV.Real.AgopOfPredictor (L2 kernel):
   "the matrix the code accumulates is the sum, over the training points and the outputs, of the outer products of the TRUE
    derivative of the predictor with each point's own (coincident) kernel term left out".
   The gradient models are those of XV.Real.GradAuto (grad_product, grad_lpq: jacrev in transformed space with the eps-mask treated
   as a constant, then multiplied by the transform); the derivative theorems are those re-stated in Properties/C04.v.
   (A)  at a point z, the model gradient is, coordinate by coordinate, the derivative (Coquelicot is_derive, in exactly the form of
        C04_product_gradient_is_the_derivative / C04_lpq_gradient_is_the_derivative) of the LEAVE-OUT predictor: the predictor
        restricted to the centres that do not coincide with z under the transform.  Hypothesis ("general position"): every centre is
        either coincident with z (its mask quantity is 0) or has its mask open and no vanishing coordinate of the transformed difference.
        (A') when z = x_k is a training point in general position w.r.t. all the OTHER centres, the leave-out predictor is literally
        the predictor with centre k (and coefficient k) removed.
   (B)  entry (i,j) of agop_raw G is sum_g g_i g_j   (re-used: AgopOfPredictor.agop_raw_entry_gen, no hypothesis);
   (C)  hence entry (i,j) of the accumulated matrix is the sum over outputs and training points of products of true partial
        derivatives of the leave-out predictors -- any number of outputs, identity or diagonal transform;
   (D)  concrete instances (2 points in R^2, no transform) for both kernels.

   Hypotheses: the statements below carry ONLY the hypotheses that are used.  Compared with the L2 theorem of AgopOfPredictor.v the
   harmless ones (X <> [], i < n, j < n, d < n, length a = length X) are dropped (the theorems are stronger), and the mask hypothesis
   "coincident or at least eps away" becomes "coincident or (mask open and no vanishing coordinate)", which is exactly what the C04
   theorems for these kernels require (|a|^q is not differentiable at a = 0 for q <= 1: C04_abs_not_differentiable_at_zero). *)
From Coq Require Import Reals List Lra Lia.
From Coquelicot Require Import Coquelicot.
Require Import XV.Real.Kernels XV.Real.Grads XV.Real.GradsP XV.Real.GradAuto XV.Real.ScaleInvL2 XV.Real.ScaleInvPQ
               XV.Real.AgopOfPredictor.
Import ListNotations.
Local Open Scope R_scope.

(* ====================================================================================================================== *)
(* Definitions *)

(* the centres (with their coefficients) whose "distance" D to the query is not 0 *)
Fixpoint others_by (D : list R -> R) (xs : list (list R)) (cs : list R) : list (list R) * list R :=
  match xs, cs with
  | x :: xs', c :: cs' => let '(ys, ds) := others_by D xs' cs' in
      if Req_EM_T (D x) 0 then (ys, ds) else (x :: ys, c :: ds)
  | _, _ => ([], [])
  end.

(* the predictor of kernel K with the centres at D-distance 0 left out *)
Definition loo_pred_by (K : list R -> list R -> R) (D : list R -> R) (xs : list (list R)) (cs : list R) : list R -> R :=
  fun z' => fpred K (fst (others_by D xs cs)) (snd (others_by D xs cs)) z'.

(* the quantities the code masks on (GradAuto.dprod_m / dlpq_m), as functions of the centre x for a query z *)
Definition dP (t : tmat) (q : R) (z x : list R) : R := sum_abs_pow q (transform t (vsubR z x)).
Definition dLpq (t : tmat) (p : R) (z x : list R) : R := normp p (transform t (vsubR z x)).

(* the predictors with z's own (coincident) kernel terms left out *)
Definition loo_pred_product (t : tmat) (L q : R) (xs : list (list R)) (cs : list R) (z : list R) : list R -> R :=
  loo_pred_by (closed_product t L q) (dP t q z) xs cs.
Definition loo_pred_lpq (t : tmat) (L p q : R) (xs : list (list R)) (cs : list R) (z : list R) : list R -> R :=
  loo_pred_by (closed_lpq t L p q) (dLpq t p z) xs cs.

(* removal of position k *)
Fixpoint remove_nth {T} (k : nat) (l : list T) : list T :=
  match l with [] => [] | x :: l' => match k with O => l' | S k' => x :: remove_nth k' l' end end.

(* ====================================================================================================================== *)
(* others_by *)

Lemma others_by_cons D x xs c cs :
  others_by D (x :: xs) (c :: cs) =
  if Req_EM_T (D x) 0 then others_by D xs cs else (x :: fst (others_by D xs cs), c :: snd (others_by D xs cs)).
Proof.
  cbn [others_by]. destruct (others_by D xs cs) as [ys ds]. cbn [fst snd].
  destruct (Req_EM_T (D x) 0) as [E|E]; reflexivity.
Qed.

(* the kept centres are centres, and none of them is coincident *)
Lemma others_by_in D : forall xs cs x, In x (fst (others_by D xs cs)) -> In x xs /\ D x <> 0.
Proof.
  induction xs as [|x0 xs IH]; intros cs x Hin; [destruct Hin|].
  destruct cs as [|c cs]; [destruct Hin|].
  rewrite others_by_cons in Hin.
  destruct (Req_EM_T (D x0) 0) as [E|E].
  - destruct (IH cs x Hin) as [H1 H2]. split; [right; exact H1|exact H2].
  - cbn [fst] in Hin. destruct Hin as [<-|Hin].
    + split; [left; reflexivity|exact E].
    + destruct (IH cs x Hin) as [H1 H2]. split; [right; exact H1|exact H2].
Qed.

Lemma others_by_Forall D (P : list R -> Prop) xs cs : List.Forall P xs -> List.Forall P (fst (others_by D xs cs)).
Proof.
  intros H. apply Forall_forall. intros x Hx. rewrite Forall_forall in H. apply H. apply (others_by_in D xs cs x Hx).
Qed.

Lemma others_by_length D : forall xs cs, length (snd (others_by D xs cs)) = length (fst (others_by D xs cs)).
Proof.
  induction xs as [|x xs IH]; intros cs; [reflexivity|]. destruct cs as [|c cs]; [reflexivity|].
  rewrite others_by_cons. destruct (Req_EM_T (D x) 0) as [E|E]; [apply IH|].
  cbn [fst snd length]. rewrite IH. reflexivity.
Qed.

(* nothing is dropped when no centre is coincident *)
Lemma others_by_all_kept D : forall xs cs, length cs = length xs -> (forall x, In x xs -> D x <> 0) ->
  others_by D xs cs = (xs, cs).
Proof.
  induction xs as [|x xs IH]; intros [|c cs] Hl H; try discriminate; [reflexivity|].
  cbn in Hl. injection Hl as Hl. rewrite others_by_cons.
  destruct (Req_EM_T (D x) 0) as [E|E]; [exfalso; apply (H x); [left; reflexivity|exact E]|].
  rewrite (IH cs Hl) by (intros x' Hx'; apply H; right; exact Hx'). reflexivity.
Qed.

(* exactly position k is dropped when centre k is the only coincident one *)
Lemma others_by_remove D : forall xs cs k, length cs = length xs -> (k < length xs)%nat ->
  D (nth k xs []) = 0 -> (forall l, (l < length xs)%nat -> l <> k -> D (nth l xs []) <> 0) ->
  others_by D xs cs = (remove_nth k xs, remove_nth k cs).
Proof.
  induction xs as [|x xs IH]; intros [|c cs] k Hl Hk H0 Hne; try discriminate; [cbn in Hk; lia|].
  cbn in Hl. injection Hl as Hl. rewrite others_by_cons. destruct k as [|k].
  - cbn [nth] in H0. destruct (Req_EM_T (D x) 0) as [_|E]; [|contradiction]. cbn [remove_nth].
    apply others_by_all_kept; [exact Hl|]. intros x' Hx'. destruct (In_nth xs x' [] Hx') as [l [Hl1 <-]].
    apply (Hne (S l)); [cbn; lia|discriminate].
  - cbn [nth] in H0. destruct (Req_EM_T (D x) 0) as [E|_].
    + exfalso. apply (Hne 0%nat); [cbn; lia|discriminate|exact E].
    + rewrite (IH cs k Hl); [reflexivity|cbn in Hk; lia|exact H0|].
      intros l Hl1 Hlk. apply (Hne (S l)); [cbn; lia|lia].
Qed.

(* ====================================================================================================================== *)
(* the coincident centres contribute nothing to the model gradient *)

Lemma dlincomb_drop (f : list R -> R) (g : list R -> list R) (D : list R -> R) : (forall x, D x = 0 -> f (g x) = 0) ->
  forall xs cs, dlincomb f (map g xs) cs = dlincomb f (map g (fst (others_by D xs cs))) (snd (others_by D xs cs)).
Proof.
  intros H. induction xs as [|x xs IH]; intros cs; [reflexivity|]. destruct cs as [|c cs]; [reflexivity|].
  rewrite others_by_cons. destruct (Req_EM_T (D x) 0) as [E|E].
  - cbn [map dlincomb]. rewrite (H x E), (IH cs). ring.
  - cbn [fst snd map dlincomb]. rewrite (IH cs). reflexivity.
Qed.

Lemma gauto_drop (dk : list R -> list R -> R) (m : nat) (g : list R -> list R) (D : list R -> R) :
  (forall x w, D x = 0 -> dk (g x) w = 0) ->
  forall xs cs, gauto dk m (map g xs) cs = gauto dk m (map g (fst (others_by D xs cs))) (snd (others_by D xs cs)).
Proof.
  intros H xs cs. unfold gauto. apply map_ext. intros e.
  apply (dlincomb_drop (fun u => dk u (basis e m)) g D). intros x Hx. apply H. exact Hx.
Qed.

Theorem grad_product_drop_coincident t L q eps xs cs z : 0 < eps ->
  grad_product t L q eps xs cs z
  = grad_product t L q eps (fst (others_by (dP t q z) xs cs)) (snd (others_by (dP t q z) xs cs)) z.
Proof.
  intros He. unfold grad_product. f_equal.
  apply (gauto_drop (dprod_m L q eps) (length (transform t z)) (fun x => transform t (vsubR z x)) (dP t q z)).
  intros x w Hx. apply masked_closed. unfold dP in Hx. rewrite Hx. exact He.
Qed.

Theorem grad_lpq_drop_coincident t L p q eps xs cs z : 0 < eps ->
  grad_lpq t L p q eps xs cs z
  = grad_lpq t L p q eps (fst (others_by (dLpq t p z) xs cs)) (snd (others_by (dLpq t p z) xs cs)) z.
Proof.
  intros He. unfold grad_lpq. f_equal.
  apply (gauto_drop (dlpq_m L p q eps) (length (transform t z)) (fun x => transform t (vsubR z x)) (dLpq t p z)).
  intros x w Hx. apply masked_closed. unfold dLpq in Hx. rewrite Hx. exact He.
Qed.

(* ====================================================================================================================== *)
(* (A) the model gradient is the derivative of the leave-out predictor.
   General transform t used symmetrically in coordinate d, general direction e (the form of the C04 theorems). *)

Theorem masked_gradient_is_leave_out_derivative_product : forall t L q eps xs cs z d e, 0 < eps ->
  wf_tmat t (length z) -> length e = length z -> List.Forall (fun x => length x = length z) xs ->
  sym_at t d (transform t e) (length (transform t z)) ->
  (* every centre is either coincident with z under the transform, or its mask is open and no coordinate of the transformed
     difference vanishes *)
  List.Forall (fun x => sum_abs_pow q (transform t (vsubR z x)) = 0
                     \/ (eps <= sum_abs_pow q (transform t (vsubR z x)) /\ nz (transform t (vsubR z x)))) xs ->
  is_derive (fun s => loo_pred_product t L q xs cs z (vaxpy s e z)) 0 (nth d (grad_product t L q eps xs cs z) 0).
Proof.
  intros t L q eps xs cs z d e He Hw Hel Hlen Hsym Hgp.
  rewrite (grad_product_drop_coincident t L q eps xs cs z He).
  unfold loo_pred_product, loo_pred_by. rewrite Forall_forall in Hgp.
  apply grad_product_is_derivative; try assumption.
  - apply others_by_Forall. exact Hlen.
  - apply Forall_forall. intros x Hx. destruct (others_by_in _ xs cs x Hx) as [Hin Hne]. unfold dP in Hne.
    destruct (Hgp x Hin) as [H0|[H1 _]]; [contradiction|exact H1].
  - apply Forall_forall. intros x Hx. destruct (others_by_in _ xs cs x Hx) as [Hin Hne]. unfold dP in Hne.
    destruct (Hgp x Hin) as [H0|[_ H1]]; [contradiction|exact H1].
Qed.

Theorem masked_gradient_is_leave_out_derivative_lpq : forall t L p q eps xs cs z d e, 0 < eps ->
  wf_tmat t (length z) -> length e = length z -> List.Forall (fun x => length x = length z) xs ->
  sym_at t d (transform t e) (length (transform t z)) ->
  List.Forall (fun x => normp p (transform t (vsubR z x)) = 0
                     \/ (eps <= normp p (transform t (vsubR z x)) /\ nz (transform t (vsubR z x)))) xs ->
  is_derive (fun s => loo_pred_lpq t L p q xs cs z (vaxpy s e z)) 0 (nth d (grad_lpq t L p q eps xs cs z) 0).
Proof.
  intros t L p q eps xs cs z d e He Hw Hel Hlen Hsym Hgp.
  rewrite (grad_lpq_drop_coincident t L p q eps xs cs z He).
  unfold loo_pred_lpq, loo_pred_by. rewrite Forall_forall in Hgp.
  apply grad_lpq_is_derivative; try assumption.
  - apply others_by_Forall. exact Hlen.
  - apply Forall_forall. intros x Hx. destruct (others_by_in _ xs cs x Hx) as [Hin Hne]. unfold dLpq in Hne.
    destruct (Hgp x Hin) as [H0|[H1 _]]; [contradiction|exact H1].
  - apply Forall_forall. intros x Hx. destruct (others_by_in _ xs cs x Hx) as [Hin Hne]. unfold dLpq in Hne.
    destruct (Hgp x Hin) as [H0|[_ H1]]; [contradiction|exact H1].
Qed.

(* ---------- coordinate directions; no transform / diagonal transform: no sym_at hypothesis left ---------- *)
Corollary masked_gradient_none_or_diag_product : forall t L q eps xs cs z d, 0 < eps ->
  (t = TNone \/ exists m, t = TDiag m /\ length m = length z) ->
  List.Forall (fun x => length x = length z) xs ->
  List.Forall (fun x => sum_abs_pow q (transform t (vsubR z x)) = 0
                     \/ (eps <= sum_abs_pow q (transform t (vsubR z x)) /\ nz (transform t (vsubR z x)))) xs ->
  is_derive (fun s => loo_pred_product t L q xs cs z (vaxpy s (basis d (length z)) z)) 0 (nth d (grad_product t L q eps xs cs z) 0).
Proof.
  intros t L q eps xs cs z d He [->|[m [-> Hm]]] Hlen Hgp.
  - apply masked_gradient_is_leave_out_derivative_product;
      [exact He|exact I|apply basis_length|exact Hlen|apply (sym_at_none d (length z))|exact Hgp].
  - apply masked_gradient_is_leave_out_derivative_product;
      [exact He|exact Hm|apply basis_length|exact Hlen|apply sym_at_diag_z; exact Hm|exact Hgp].
Qed.

Corollary masked_gradient_none_or_diag_lpq : forall t L p q eps xs cs z d, 0 < eps ->
  (t = TNone \/ exists m, t = TDiag m /\ length m = length z) ->
  List.Forall (fun x => length x = length z) xs ->
  List.Forall (fun x => normp p (transform t (vsubR z x)) = 0
                     \/ (eps <= normp p (transform t (vsubR z x)) /\ nz (transform t (vsubR z x)))) xs ->
  is_derive (fun s => loo_pred_lpq t L p q xs cs z (vaxpy s (basis d (length z)) z)) 0 (nth d (grad_lpq t L p q eps xs cs z) 0).
Proof.
  intros t L p q eps xs cs z d He [->|[m [-> Hm]]] Hlen Hgp.
  - apply masked_gradient_is_leave_out_derivative_lpq;
      [exact He|exact I|apply basis_length|exact Hlen|apply (sym_at_none d (length z))|exact Hgp].
  - apply masked_gradient_is_leave_out_derivative_lpq;
      [exact He|exact Hm|apply basis_length|exact Hlen|apply sym_at_diag_z; exact Hm|exact Hgp].
Qed.

(* ====================================================================================================================== *)
(* (A') a training point is coincident with itself, so for DISTINCT points in general position the leave-out predictor at x_k is
   the predictor with centre k removed *)

Lemma sum_abs_pow_vmul_zeros q : forall k m, sum_abs_pow q (vmulR (repeat 0 k) m) = 0.
Proof.
  unfold sum_abs_pow, rsumR. induction k as [|k IH]; intros [|c m]; cbn [repeat vmulR map fold_right]; try reflexivity.
  rewrite (IH m), Rmult_0_l, Rabs_R0, pw_0. ring.
Qed.

Lemma dP_self t q z : (t = TNone \/ exists m, t = TDiag m) -> dP t q z z = 0.
Proof.
  intros [->|[m ->]]; unfold dP; rewrite vsubR_self; cbn [transform]; [apply sum_abs_pow_zeros|apply sum_abs_pow_vmul_zeros].
Qed.

Lemma dLpq_self t p z : (t = TNone \/ exists m, t = TDiag m) -> dLpq t p z z = 0.
Proof. intros Ht. unfold dLpq, normp. fold (dP t p z z). rewrite (dP_self t p z Ht). apply pw_0. Qed.

Lemma loo_pred_by_remove K D xs cs k z' : length cs = length xs -> (k < length xs)%nat ->
  D (nth k xs []) = 0 -> (forall l, (l < length xs)%nat -> l <> k -> D (nth l xs []) <> 0) ->
  loo_pred_by K D xs cs z' = fpred K (remove_nth k xs) (remove_nth k cs) z'.
Proof. intros Hl Hk H0 Hne. unfold loo_pred_by. rewrite (others_by_remove D xs cs k Hl Hk H0 Hne). reflexivity. Qed.

(* general position of the ordered pair (z, x): mask open, no vanishing coordinate *)
Theorem loo_pred_product_is_own_center_removed t L q eps X a k z' : 0 < eps ->
  (t = TNone \/ exists m, t = TDiag m) -> length a = length X -> (k < length X)%nat ->
  (forall l, (l < length X)%nat -> l <> k -> eps <= sum_abs_pow q (transform t (vsubR (nth k X []) (nth l X [])))) ->
  loo_pred_product t L q X a (nth k X []) z' = fpred (closed_product t L q) (remove_nth k X) (remove_nth k a) z'.
Proof.
  intros He Ht Ha Hk Hopen. unfold loo_pred_product. apply loo_pred_by_remove; [exact Ha|exact Hk|apply dP_self; exact Ht|].
  intros l Hl Hlk. unfold dP. specialize (Hopen l Hl Hlk). lra.
Qed.

Theorem loo_pred_lpq_is_own_center_removed t L p q eps X a k z' : 0 < eps ->
  (t = TNone \/ exists m, t = TDiag m) -> length a = length X -> (k < length X)%nat ->
  (forall l, (l < length X)%nat -> l <> k -> eps <= normp p (transform t (vsubR (nth k X []) (nth l X [])))) ->
  loo_pred_lpq t L p q X a (nth k X []) z' = fpred (closed_lpq t L p q) (remove_nth k X) (remove_nth k a) z'.
Proof.
  intros He Ht Ha Hk Hopen. unfold loo_pred_lpq. apply loo_pred_by_remove; [exact Ha|exact Hk|apply dLpq_self; exact Ht|].
  intros l Hl Hlk. unfold dLpq. specialize (Hopen l Hl Hlk). lra.
Qed.

(* ====================================================================================================================== *)
(* (B) entries of the accumulated matrix: AgopOfPredictor.agop_raw_entry_gen
       ment (agop_raw G) i j = fold_right Rplus 0 (map (fun g => nth i g 0 * nth j g 0) G)      (no hypothesis). *)

(* ====================================================================================================================== *)
(* (C) the accumulated feature matrix is the AGOP of the leave-out predictors *)

Lemma gradsP_length q eps t L X a : length (gradsP q eps t L X a) = length X.
Proof. unfold gradsP. apply map_length. Qed.
Lemma gradsLpq_length p q eps t L X a : length (gradsLpq p q eps t L X a) = length X.
Proof. unfold gradsLpq. apply map_length. Qed.

Lemma gradsP_nth q eps t L X a k : (k < length X)%nat ->
  nth k (gradsP q eps t L X a) [] = grad_product t L q eps X a (nth k X []).
Proof. intros Hk. unfold gradsP. apply (nth_map_nil (fun z => grad_product t L q eps X a z) []). exact Hk. Qed.
Lemma gradsLpq_nth p q eps t L X a k : (k < length X)%nat ->
  nth k (gradsLpq p q eps t L X a) [] = grad_lpq t L p q eps X a (nth k X []).
Proof. intros Hk. unfold gradsLpq. apply (nth_map_nil (fun z => grad_lpq t L p q eps X a z) []). exact Hk. Qed.

Lemma tmat_length_at t n (z : list R) : (t = TNone \/ exists m, t = TDiag m /\ length m = n) -> length z = n ->
  (t = TNone \/ exists m, t = TDiag m /\ length m = length z).
Proof. intros [->|[m [-> Hm]]] Hz; [left; reflexivity|right; exists m; split; [reflexivity|rewrite Hz; exact Hm]]. Qed.

(* one row of the family: the k-th accumulated gradient is the gradient of the k-th leave-out predictor *)
Lemma gradsP_row_is_leave_out_gradient t n L q eps X a k d : 0 < eps ->
  (t = TNone \/ exists m, t = TDiag m /\ length m = n) ->
  List.Forall (fun x => length x = n) X -> (k < length X)%nat ->
  (forall x z, In x X -> In z X ->
     sum_abs_pow q (transform t (vsubR z x)) = 0
     \/ (eps <= sum_abs_pow q (transform t (vsubR z x)) /\ nz (transform t (vsubR z x)))) ->
  is_derive (fun s => loo_pred_product t L q X a (nth k X []) (vaxpy s (basis d n) (nth k X []))) 0
            (nth d (nth k (gradsP q eps t L X a) []) 0).
Proof.
  intros He Ht HX Hk Hgp.
  rewrite (gradsP_nth q eps t L X a k Hk).
  assert (Hin : In (nth k X []) X) by (apply nth_In; exact Hk).
  set (z := nth k X []) in *.
  assert (Hz : length z = n) by (rewrite Forall_forall in HX; apply HX; exact Hin).
  rewrite <- Hz.
  apply masked_gradient_none_or_diag_product.
  - exact He.
  - apply (tmat_length_at t n z Ht Hz).
  - apply Forall_forall. intros x Hx. rewrite Forall_forall in HX. rewrite Hz. apply HX. exact Hx.
  - apply Forall_forall. intros x Hx. apply Hgp; assumption.
Qed.

Lemma gradsLpq_row_is_leave_out_gradient t n L p q eps X a k d : 0 < eps ->
  (t = TNone \/ exists m, t = TDiag m /\ length m = n) ->
  List.Forall (fun x => length x = n) X -> (k < length X)%nat ->
  (forall x z, In x X -> In z X ->
     normp p (transform t (vsubR z x)) = 0
     \/ (eps <= normp p (transform t (vsubR z x)) /\ nz (transform t (vsubR z x)))) ->
  is_derive (fun s => loo_pred_lpq t L p q X a (nth k X []) (vaxpy s (basis d n) (nth k X []))) 0
            (nth d (nth k (gradsLpq p q eps t L X a) []) 0).
Proof.
  intros He Ht HX Hk Hgp.
  rewrite (gradsLpq_nth p q eps t L X a k Hk).
  assert (Hin : In (nth k X []) X) by (apply nth_In; exact Hk).
  set (z := nth k X []) in *.
  assert (Hz : length z = n) by (rewrite Forall_forall in HX; apply HX; exact Hin).
  rewrite <- Hz.
  apply masked_gradient_none_or_diag_lpq.
  - exact He.
  - apply (tmat_length_at t n z Ht Hz).
  - apply Forall_forall. intros x Hx. rewrite Forall_forall in HX. rewrite Hz. apply HX. exact Hx.
  - apply Forall_forall. intros x Hx. apply Hgp; assumption.
Qed.

(* the plumbing shared by both kernels (and by any family of per-output, per-point gradient vectors):
   if every coordinate of every accumulated vector has property P, the accumulated entry is the sum of products of the
   coordinates of a family D (one vector per (output, point)) all of whose coordinates have property P *)
Lemma agop_of_rows (F : list R -> list (list R)) (P : nat -> nat -> nat -> R -> Prop) (N : nat) (A : list (list R)) i j :
  (forall a, In a A -> length (F a) = N) ->
  (forall o k d, (o < length A)%nat -> (k < N)%nat -> P o k d (nth d (nth k (F (nth o A [])) []) 0)) ->
  exists D : list (list R),
    length D = (length A * N)%nat /\
    (forall o k d, (o < length A)%nat -> (k < N)%nat -> P o k d (nth d (nth (o * N + k) D []) 0)) /\
    ment (agop_raw (concat (map F A))) i j = fold_right Rplus 0 (map (fun g => nth i g 0 * nth j g 0) D).
Proof.
  intros HF HP.
  assert (Hall : List.Forall (fun G : list (list R) => length G = N) (map F A)).
  { apply Forall_forall. intros G HG. apply in_map_iff in HG. destruct HG as [a [<- Ha]]. apply HF. exact Ha. }
  exists (concat (map F A)). split; [|split].
  - rewrite (concat_length_uniform N _ Hall), map_length. reflexivity.
  - intros o k d Ho Hk.
    rewrite (nth_concat_uniform N [] _ o k Hall Hk).
    rewrite (nth_map_nil F [] A o Ho). apply HP; assumption.
  - apply agop_raw_entry_gen.
Qed.

(* (C), PRODUCT kernel, any number of outputs: A lists one coefficient vector per output; the accumulated matrix is agop_raw of the
   concatenation of the per-output gradient families (exactly as in the L2 theorem).  D lists the derivative vectors output by
   output, point by point: D_(o * |X| + k) is the gradient at X_k of the leave-out predictor of output o. *)
Theorem product_feature_matrix_is_the_agop_of_the_leave_out_predictor :
  forall t n L q eps X (A : list (list R)) i j, 0 < eps ->
  (t = TNone \/ exists m, t = TDiag m /\ length m = n) ->
  List.Forall (fun x => length x = n) X ->
  (* every ordered pair of training points is either coincident under the transform or in general position:
     mask open and no vanishing coordinate of the transformed difference *)
  (forall x z, In x X -> In z X ->
     sum_abs_pow q (transform t (vsubR z x)) = 0
     \/ (eps <= sum_abs_pow q (transform t (vsubR z x)) /\ nz (transform t (vsubR z x)))) ->
  exists D : list (list R),
    length D = (length A * length X)%nat /\
    (forall o k d, (o < length A)%nat -> (k < length X)%nat ->
       is_derive (fun s => loo_pred_product t L q X (nth o A []) (nth k X []) (vaxpy s (basis d n) (nth k X []))) 0
                 (nth d (nth (o * length X + k) D []) 0)) /\
    ment (agop_raw (concat (map (fun a => gradsP q eps t L X a) A))) i j
      = fold_right Rplus 0 (map (fun g => nth i g 0 * nth j g 0) D).
Proof.
  intros t n L q eps X A i j He Ht HX Hgp.
  apply (agop_of_rows (fun a => gradsP q eps t L X a)
           (fun o k d v => is_derive (fun s => loo_pred_product t L q X (nth o A []) (nth k X []) (vaxpy s (basis d n) (nth k X []))) 0 v)
           (length X) A i j).
  - intros a _. apply gradsP_length.
  - intros o k d _ Hk. apply gradsP_row_is_leave_out_gradient; assumption.
Qed.

(* (C), Lpq kernel *)
Theorem lpq_feature_matrix_is_the_agop_of_the_leave_out_predictor :
  forall t n L p q eps X (A : list (list R)) i j, 0 < eps ->
  (t = TNone \/ exists m, t = TDiag m /\ length m = n) ->
  List.Forall (fun x => length x = n) X ->
  (forall x z, In x X -> In z X ->
     normp p (transform t (vsubR z x)) = 0
     \/ (eps <= normp p (transform t (vsubR z x)) /\ nz (transform t (vsubR z x)))) ->
  exists D : list (list R),
    length D = (length A * length X)%nat /\
    (forall o k d, (o < length A)%nat -> (k < length X)%nat ->
       is_derive (fun s => loo_pred_lpq t L p q X (nth o A []) (nth k X []) (vaxpy s (basis d n) (nth k X []))) 0
                 (nth d (nth (o * length X + k) D []) 0)) /\
    ment (agop_raw (concat (map (fun a => gradsLpq p q eps t L X a) A))) i j
      = fold_right Rplus 0 (map (fun g => nth i g 0 * nth j g 0) D).
Proof.
  intros t n L p q eps X A i j He Ht HX Hgp.
  apply (agop_of_rows (fun a => gradsLpq p q eps t L X a)
           (fun o k d v => is_derive (fun s => loo_pred_lpq t L p q X (nth o A []) (nth k X []) (vaxpy s (basis d n) (nth k X []))) 0 v)
           (length X) A i j).
  - intros a _. apply gradsLpq_length.
  - intros o k d _ Hk. apply gradsLpq_row_is_leave_out_gradient; assumption.
Qed.

(* ---------- (C) for DISTINCT training points in general position: "the predictor with centre k removed" ---------- *)
Lemma pairwise_to_dichotomy (Dq : list R -> list R -> R) (GP : list R -> list R -> Prop) (X : list (list R)) :
  (forall z, In z X -> Dq z z = 0) ->
  (forall k l, (k < length X)%nat -> (l < length X)%nat -> k <> l -> GP (nth k X []) (nth l X [])) ->
  forall x z, In x X -> In z X -> Dq z x = 0 \/ GP z x.
Proof.
  intros Hself Hpair x z Hx Hz.
  destruct (In_nth X x [] Hx) as [l [Hl <-]]. destruct (In_nth X z [] Hz) as [k [Hk <-]].
  destruct (Nat.eq_dec k l) as [->|Hkl]; [left; apply Hself; apply nth_In; exact Hl|right; apply Hpair; assumption].
Qed.

Theorem product_feature_matrix_is_the_agop_of_the_predictor_with_own_center_removed :
  forall t n L q eps X (A : list (list R)) i j, 0 < eps ->
  (t = TNone \/ exists m, t = TDiag m /\ length m = n) ->
  List.Forall (fun x => length x = n) X -> List.Forall (fun a => length a = length X) A ->
  (* distinct training points are pairwise in general position *)
  (forall k l, (k < length X)%nat -> (l < length X)%nat -> k <> l ->
     eps <= sum_abs_pow q (transform t (vsubR (nth k X []) (nth l X [])))
     /\ nz (transform t (vsubR (nth k X []) (nth l X [])))) ->
  exists D : list (list R),
    length D = (length A * length X)%nat /\
    (forall o k d, (o < length A)%nat -> (k < length X)%nat ->
       is_derive (fun s => fpred (closed_product t L q) (remove_nth k X) (remove_nth k (nth o A []))
                                 (vaxpy s (basis d n) (nth k X []))) 0
                 (nth d (nth (o * length X + k) D []) 0)) /\
    ment (agop_raw (concat (map (fun a => gradsP q eps t L X a) A))) i j
      = fold_right Rplus 0 (map (fun g => nth i g 0 * nth j g 0) D).
Proof.
  intros t n L q eps X A i j He Ht HX HA Hpair.
  assert (Ht' : t = TNone \/ exists m, t = TDiag m) by (destruct Ht as [->|[m [-> _]]]; [left|right; exists m]; reflexivity).
  destruct (product_feature_matrix_is_the_agop_of_the_leave_out_predictor t n L q eps X A i j He Ht HX) as [D [HD1 [HD2 HD3]]].
  { apply (pairwise_to_dichotomy (dP t q)
             (fun z x => eps <= sum_abs_pow q (transform t (vsubR z x)) /\ nz (transform t (vsubR z x)))).
    - intros z _. apply dP_self. exact Ht'.
    - exact Hpair. }
  exists D. split; [exact HD1|]. split; [|exact HD3].
  intros o k d Ho Hk. eapply is_derive_ext; [|apply (HD2 o k d Ho Hk)].
  intros s. cbv beta. apply (loo_pred_product_is_own_center_removed t L q eps); try assumption.
  - rewrite Forall_forall in HA. apply HA. apply nth_In. exact Ho.
  - intros l Hl Hlk. apply (Hpair k l Hk Hl). intros E. apply Hlk. symmetry. exact E.
Qed.

Theorem lpq_feature_matrix_is_the_agop_of_the_predictor_with_own_center_removed :
  forall t n L p q eps X (A : list (list R)) i j, 0 < eps ->
  (t = TNone \/ exists m, t = TDiag m /\ length m = n) ->
  List.Forall (fun x => length x = n) X -> List.Forall (fun a => length a = length X) A ->
  (forall k l, (k < length X)%nat -> (l < length X)%nat -> k <> l ->
     eps <= normp p (transform t (vsubR (nth k X []) (nth l X [])))
     /\ nz (transform t (vsubR (nth k X []) (nth l X [])))) ->
  exists D : list (list R),
    length D = (length A * length X)%nat /\
    (forall o k d, (o < length A)%nat -> (k < length X)%nat ->
       is_derive (fun s => fpred (closed_lpq t L p q) (remove_nth k X) (remove_nth k (nth o A []))
                                 (vaxpy s (basis d n) (nth k X []))) 0
                 (nth d (nth (o * length X + k) D []) 0)) /\
    ment (agop_raw (concat (map (fun a => gradsLpq p q eps t L X a) A))) i j
      = fold_right Rplus 0 (map (fun g => nth i g 0 * nth j g 0) D).
Proof.
  intros t n L p q eps X A i j He Ht HX HA Hpair.
  assert (Ht' : t = TNone \/ exists m, t = TDiag m) by (destruct Ht as [->|[m [-> _]]]; [left|right; exists m]; reflexivity).
  destruct (lpq_feature_matrix_is_the_agop_of_the_leave_out_predictor t n L p q eps X A i j He Ht HX) as [D [HD1 [HD2 HD3]]].
  { apply (pairwise_to_dichotomy (dLpq t p)
             (fun z x => eps <= normp p (transform t (vsubR z x)) /\ nz (transform t (vsubR z x)))).
    - intros z _. apply dLpq_self. exact Ht'.
    - exact Hpair. }
  exists D. split; [exact HD1|]. split; [|exact HD3].
  intros o k d Ho Hk. eapply is_derive_ext; [|apply (HD2 o k d Ho Hk)].
  intros s. cbv beta. apply (loo_pred_lpq_is_own_center_removed t L p q eps); try assumption.
  - rewrite Forall_forall in HA. apply HA. apply nth_In. exact Ho.
  - intros l Hl Hlk. apply (Hpair k l Hk Hl). intros E. apply Hlk. symmetry. exact E.
Qed.

(* the same entry as an explicit double sum over outputs and training points (no hypothesis) *)
Corollary product_feature_matrix_multi_double_sum : forall t L q eps X (A : list (list R)) i j,
  ment (agop_raw (concat (map (fun a => gradsP q eps t L X a) A))) i j
  = fold_right Rplus 0 (map (fun a =>
      fold_right Rplus 0 (map (fun z => nth i (grad_product t L q eps X a z) 0 * nth j (grad_product t L q eps X a z) 0) X)) A).
Proof.
  intros t L q eps X A i j. rewrite agop_raw_entry_gen, sum_concat, map_map. f_equal. apply map_ext. intros a.
  unfold gradsP. rewrite map_map. reflexivity.
Qed.

Corollary lpq_feature_matrix_multi_double_sum : forall t L p q eps X (A : list (list R)) i j,
  ment (agop_raw (concat (map (fun a => gradsLpq p q eps t L X a) A))) i j
  = fold_right Rplus 0 (map (fun a =>
      fold_right Rplus 0 (map (fun z => nth i (grad_lpq t L p q eps X a z) 0 * nth j (grad_lpq t L p q eps X a z) 0) X)) A).
Proof.
  intros t L p q eps X A i j. rewrite agop_raw_entry_gen, sum_concat, map_map. f_equal. apply map_ext. intros a.
  unfold gradsLpq. rewrite map_map. reflexivity.
Qed.

(* ====================================================================================================================== *)
(* (D) Examples: the 2 points Xex = [[0;0];[3;4]] of R^2 (ScaleInvL2), no transform, eps = 1/1000, two outputs Aex = [[1;2];[-1;3]].
   Product kernel with q = 1 (mask quantities 0 and 7, ScaleInvPQ.DP_00 etc.); Lpq kernel with p = 2, q = 1 (0 and 5, NL_00 etc.). *)

Lemma nz_ex_01 : nz (vsubR [0; 0] [3; 4]).
Proof. cbn [vsubR]. repeat constructor; lra. Qed.
Lemma nz_ex_10 : nz (vsubR [3; 4] [0; 0]).
Proof. cbn [vsubR]. repeat constructor; lra. Qed.

Lemma general_position_product_Xex : forall x z, In x Xex -> In z Xex ->
  sum_abs_pow 1 (transform TNone (vsubR z x)) = 0
  \/ (1 / 1000 <= sum_abs_pow 1 (transform TNone (vsubR z x)) /\ nz (transform TNone (vsubR z x))).
Proof.
  intros x z Hx Hz. cbn [transform].
  destruct Hx as [<-|[<-|[]]]; destruct Hz as [<-|[<-|[]]].
  - left. apply DP_00.
  - right. rewrite DP_10. split; [lra|apply nz_ex_10].
  - right. rewrite DP_01. split; [lra|apply nz_ex_01].
  - left. apply DP_11.
Qed.

Lemma general_position_lpq_Xex : forall x z, In x Xex -> In z Xex ->
  normp 2 (transform TNone (vsubR z x)) = 0
  \/ (1 / 1000 <= normp 2 (transform TNone (vsubR z x)) /\ nz (transform TNone (vsubR z x))).
Proof.
  intros x z Hx Hz. cbn [transform].
  destruct Hx as [<-|[<-|[]]]; destruct Hz as [<-|[<-|[]]].
  - left. apply NL_00.
  - right. rewrite NL_10. split; [lra|apply nz_ex_10].
  - right. rewrite NL_01. split; [lra|apply nz_ex_01].
  - left. apply NL_11.
Qed.

(* what is left out: at the query [0;0] the coincident centre [0;0] is dropped, the centre [3;4] is kept *)
Example others_product_ex : others_by (dP TNone 1 [0; 0]) Xex [1; 2] = ([[3; 4]], [2]).
Proof.
  unfold Xex. rewrite !others_by_cons. unfold dP. cbn [transform]. rewrite DP_00, DP_01.
  destruct (Req_EM_T 0 0) as [_|N]; [|contradiction]. destruct (Req_EM_T 7 0) as [E|_]; [lra|]. reflexivity.
Qed.

Example loo_pred_product_ex L z' : loo_pred_product TNone L 1 Xex [1; 2] [0; 0] z' = 2 * closed_product TNone L 1 [3; 4] z' + 0.
Proof. unfold loo_pred_product, loo_pred_by. rewrite others_product_ex. reflexivity. Qed.

(* (A) on the instance *)
Example masked_gradient_product_ex d :
  is_derive (fun s => loo_pred_product TNone 1 1 Xex [1; 2] [3; 4] (vaxpy s (basis d (length [3; 4])) [3; 4])) 0
            (nth d (grad_product TNone 1 1 (1 / 1000) Xex [1; 2] [3; 4]) 0).
Proof.
  apply masked_gradient_none_or_diag_product.
  - lra.
  - left. reflexivity.
  - unfold Xex. repeat constructor.
  - apply Forall_forall. intros x Hx. apply general_position_product_Xex; [exact Hx|right; left; reflexivity].
Qed.

(* (d) NON-VACUITY of (C), product kernel: all hypotheses of the main theorem hold for Xex with TNone, two outputs *)
Example product_feature_matrix_ex : exists D : list (list R),
  length D = (length Aex * length Xex)%nat /\
  (forall o k d, (o < length Aex)%nat -> (k < length Xex)%nat ->
     is_derive (fun s => loo_pred_product TNone 1 1 Xex (nth o Aex []) (nth k Xex []) (vaxpy s (basis d 2) (nth k Xex []))) 0
               (nth d (nth (o * length Xex + k) D []) 0)) /\
  ment (agop_raw (concat (map (fun a => gradsP 1 (1 / 1000) TNone 1 Xex a) Aex))) 0 1
    = fold_right Rplus 0 (map (fun g => nth 0 g 0 * nth 1 g 0) D).
Proof.
  apply product_feature_matrix_is_the_agop_of_the_leave_out_predictor.
  - lra.
  - left. reflexivity.
  - unfold Xex. repeat constructor.
  - apply general_position_product_Xex.
Qed.

(* the same instance in the "own centre removed" form: the hypotheses of that theorem hold as well *)
Example product_feature_matrix_own_center_removed_ex : exists D : list (list R),
  length D = (length Aex * length Xex)%nat /\
  (forall o k d, (o < length Aex)%nat -> (k < length Xex)%nat ->
     is_derive (fun s => fpred (closed_product TNone 1 1) (remove_nth k Xex) (remove_nth k (nth o Aex []))
                               (vaxpy s (basis d 2) (nth k Xex []))) 0
               (nth d (nth (o * length Xex + k) D []) 0)) /\
  ment (agop_raw (concat (map (fun a => gradsP 1 (1 / 1000) TNone 1 Xex a) Aex))) 0 1
    = fold_right Rplus 0 (map (fun g => nth 0 g 0 * nth 1 g 0) D).
Proof.
  apply product_feature_matrix_is_the_agop_of_the_predictor_with_own_center_removed.
  - lra.
  - left. reflexivity.
  - unfold Xex. repeat constructor.
  - unfold Aex, Xex. repeat constructor.
  - intros k l Hk Hl Hkl. unfold Xex in *. cbn [length] in Hk, Hl. cbn [transform].
    destruct k as [|[|k]]; destruct l as [|[|l]]; try lia; cbn [nth].
    + rewrite DP_01. split; [lra|apply nz_ex_01].
    + rewrite DP_10. split; [lra|apply nz_ex_10].
Qed.

(* NON-VACUITY of (C), Lpq kernel (p = 2, q = 1) *)
Example lpq_feature_matrix_ex : exists D : list (list R),
  length D = (length Aex * length Xex)%nat /\
  (forall o k d, (o < length Aex)%nat -> (k < length Xex)%nat ->
     is_derive (fun s => loo_pred_lpq TNone 1 2 1 Xex (nth o Aex []) (nth k Xex []) (vaxpy s (basis d 2) (nth k Xex []))) 0
               (nth d (nth (o * length Xex + k) D []) 0)) /\
  ment (agop_raw (concat (map (fun a => gradsLpq 2 1 (1 / 1000) TNone 1 Xex a) Aex))) 0 1
    = fold_right Rplus 0 (map (fun g => nth 0 g 0 * nth 1 g 0) D).
Proof.
  apply lpq_feature_matrix_is_the_agop_of_the_leave_out_predictor.
  - lra.
  - left. reflexivity.
  - unfold Xex. repeat constructor.
  - apply general_position_lpq_Xex.
Qed.

Print Assumptions masked_gradient_is_leave_out_derivative_product.
Print Assumptions masked_gradient_is_leave_out_derivative_lpq.
Print Assumptions product_feature_matrix_is_the_agop_of_the_predictor_with_own_center_removed.
Print Assumptions lpq_feature_matrix_is_the_agop_of_the_predictor_with_own_center_removed.
Print Assumptions product_feature_matrix_is_the_agop_of_the_leave_out_predictor.
Print Assumptions lpq_feature_matrix_is_the_agop_of_the_leave_out_predictor.
