(* The kernel ridge system (K + lambda I) alpha = Y over the reals, on lists (any size, any number of outputs).
   K is given by its rows; the multi-output coefficient matrix is given by its columns and solved column by column. *)
From Coq Require Import Reals List Lra Lia Psatz.
Require Import XV.Real.Kernels.
Import ListNotations.
Local Open Scope R_scope.

(* ---------- definitions (names fixed by the specification) ---------- *)
Definition mvR (K : list (list R)) (a : list R) : list R := map (fun row => vdotR row a) K.

(* kernel_matrix.diagonal().add_(reg): row number i gets reg added at column i *)
Fixpoint add_diag_from (i : nat) (reg : R) (K : list (list R)) : list (list R) :=
  match K with
  | [] => []
  | row :: K' =>
      (fix upd (j : nat) (r : list R) : list R :=
         match r with [] => [] | x :: r' => (if Nat.eqb j i then x + reg else x) :: upd (S j) r' end) 0%nat row
      :: add_diag_from (S i) reg K'
  end.
Definition add_diagR (reg : R) (K : list (list R)) : list (list R) := add_diag_from 0 reg K.
Definition square (n : nat) (K : list (list R)) : Prop := length K = n /\ Forall (fun r => length r = n) K.
Definition qformR (K : list (list R)) (v : list R) : R := vdotR v (mvR K v).
Definition psdR (n : nat) (K : list (list R)) : Prop := forall v, length v = n -> 0 <= qformR K v.
Definition solves (reg : R) (K : list (list R)) (alphas ys : list (list R)) : Prop :=
  Forall2 (fun a y => mvR (add_diagR reg K) a = y) alphas ys.

(* the inner loop of add_diag_from, named (convertible to the anonymous fix above) *)
Definition upd_row (i : nat) (reg : R) : nat -> list R -> list R :=
  fix upd (j : nat) (r : list R) : list R :=
    match r with [] => [] | x :: r' => (if Nat.eqb j i then x + reg else x) :: upd (S j) r' end.

Lemma upd_row_cons i reg j x r :
  upd_row i reg j (x :: r) = (if Nat.eqb j i then x + reg else x) :: upd_row i reg (S j) r.
Proof. reflexivity. Qed.

Lemma upd_row_nil i reg j : upd_row i reg j [] = [].
Proof. reflexivity. Qed.

Lemma add_diag_from_cons i reg row K :
  add_diag_from i reg (row :: K) = upd_row i reg 0 row :: add_diag_from (S i) reg K.
Proof. reflexivity. Qed.

(* ---------- the row update ---------- *)
Lemma upd_row_above i reg : forall r j, (i < j)%nat -> upd_row i reg j r = r.
Proof.
  induction r as [|x r IH]; intros j H; [reflexivity|].
  rewrite upd_row_cons. destruct (Nat.eqb_spec j i) as [E|E]; [lia|].
  rewrite IH by lia. reflexivity.
Qed.

Lemma upd_row_dot i reg : forall r a j, length r = length a -> (j <= i)%nat ->
  vdotR (upd_row i reg j r) a = vdotR r a + reg * nth (i - j) a 0.
Proof.
  induction r as [|x r IH]; intros [|y a] j Hl Hj; try discriminate.
  - rewrite upd_row_nil. cbn [vdotR]. destruct (i - j)%nat; cbn [nth]; ring.
  - rewrite upd_row_cons. destruct (Nat.eqb_spec j i) as [E|E].
    + subst j. rewrite upd_row_above by lia. replace (i - i)%nat with 0%nat by lia. cbn [vdotR nth]. ring.
    + replace (i - j)%nat with (S (i - S j)) by lia. cbn [vdotR nth].
      cbn in Hl. rewrite IH by lia. ring.
Qed.

Lemma skipn_nth : forall (a : list R) i, (i < length a)%nat -> skipn i a = nth i a 0 :: skipn (S i) a.
Proof.
  induction a as [|x a IH]; intros i H; [cbn in H; lia|]. destruct i as [|i]; [reflexivity|].
  change (skipn i a = nth i a 0 :: skipn (S i) a). apply IH. cbn in H. lia.
Qed.

Lemma add_diag_from_mv reg a : forall K i, Forall (fun r => length r = length a) K -> (i + length K = length a)%nat ->
  mvR (add_diag_from i reg K) a = vaddR (mvR K a) (vscaleR reg (skipn i a)).
Proof.
  induction K as [|row K IH]; intros i HF Hi; [reflexivity|].
  inversion HF as [|? ? Hrow HK]; subst. cbn [length] in Hi.
  rewrite add_diag_from_cons. rewrite skipn_nth by lia.
  unfold mvR, vscaleR in *. cbn [map vaddR]. f_equal.
  - rewrite upd_row_dot by (try exact Hrow; lia). replace (i - 0)%nat with i by lia. reflexivity.
  - apply IH; [exact HK|lia].
Qed.

(* ---------- R1 ---------- *)
Theorem add_diag_spec n reg K a : square n K -> length a = n ->
  mvR (add_diagR reg K) a = vaddR (mvR K a) (vscaleR reg a).
Proof.
  intros [HK HF] Ha. unfold add_diagR. rewrite add_diag_from_mv.
  - reflexivity.
  - rewrite Ha. exact HF.
  - lia.
Qed.

(* ---------- vector algebra on equal-length lists ---------- *)
Lemma mvR_length K a : length (mvR K a) = length K.
Proof. unfold mvR. apply map_length. Qed.

Lemma vscaleR_length c a : length (vscaleR c a) = length a.
Proof. unfold vscaleR. apply map_length. Qed.

Lemma vadd_eq_iff : forall u v y, length u = length v -> length y = length u ->
  (vaddR u v = y <-> u = vsubR y v).
Proof.
  induction u as [|p u IH]; intros [|q v] [|s y] H1 H2; try discriminate; cbn [vaddR vsubR]; [tauto|].
  cbn in H1, H2. injection H1 as H1. injection H2 as H2. specialize (IH v y H1 H2). split; intros E.
  - injection E as E1 E2. f_equal; [lra|]. apply IH. exact E2.
  - injection E as E1 E2. f_equal; [lra|]. apply IH. exact E2.
Qed.

(* ---------- R2 ---------- *)
Theorem ridge_equiv n reg K a y : square n K -> length a = n -> length y = n ->
  (mvR (add_diagR reg K) a = y <-> mvR K a = vsubR y (vscaleR reg a)).
Proof.
  intros HK Ha Hy. rewrite (add_diag_spec n) by assumption. destruct HK as [HK _].
  apply vadd_eq_iff.
  - rewrite mvR_length, vscaleR_length. lia.
  - rewrite mvR_length. lia.
Qed.

(* linearity in the second argument *)
Lemma vdotR_sub_r : forall r a b, length a = length b -> vdotR r (vsubR a b) = vdotR r a - vdotR r b.
Proof.
  induction r as [|x r IH]; intros [|y a] [|z b] H; try discriminate; cbn [vdotR vsubR]; try ring.
  cbn in H. injection H as H. rewrite IH by exact H. ring.
Qed.

Lemma vdotR_add_r : forall d u v, length u = length v -> vdotR d (vaddR u v) = vdotR d u + vdotR d v.
Proof.
  induction d as [|x d IH]; intros [|y u] [|z v] H; try discriminate; cbn [vdotR vaddR]; try ring.
  cbn in H. injection H as H. rewrite IH by exact H. ring.
Qed.

Lemma vdotR_scale_r c : forall d e, vdotR d (vscaleR c e) = c * vdotR d e.
Proof.
  unfold vscaleR. induction d as [|x d IH]; intros [|y e]; cbn [vdotR map]; try ring. rewrite IH. ring.
Qed.

Lemma mvR_sub : forall K a b, length a = length b -> mvR K (vsubR a b) = vsubR (mvR K a) (mvR K b).
Proof.
  unfold mvR. induction K as [|row K IH]; intros a b H; [reflexivity|].
  cbn [map vsubR]. f_equal; [apply vdotR_sub_r; exact H|apply IH; exact H].
Qed.

Lemma vdotR_self_nonneg : forall d, 0 <= vdotR d d.
Proof. induction d as [|x d IH]; cbn [vdotR]; [lra|]. nra. Qed.

(* sum of squares = 0 -> every coordinate of the difference is 0 *)
Lemma vsub_sq_zero_eq : forall a b, length a = length b -> vdotR (vsubR a b) (vsubR a b) = 0 -> a = b.
Proof.
  induction a as [|x a IH]; intros [|y b] H E; try discriminate; [reflexivity|].
  cbn in H. injection H as H. cbn [vsubR vdotR] in E.
  pose proof (vdotR_self_nonneg (vsubR a b)) as Hn.
  assert (Ex : x = y) by nra. assert (Et : vdotR (vsubR a b) (vsubR a b) = 0) by nra.
  f_equal; [exact Ex|apply IH; assumption].
Qed.

(* ---------- the key identity: d . ((K + reg I) a - (K + reg I) b) = d^T K d + reg |d|^2, d = a - b ---------- *)
Lemma ridge_identity n reg K a b : square n K -> length a = n -> length b = n ->
  vdotR (vsubR a b) (vsubR (mvR (add_diagR reg K) a) (mvR (add_diagR reg K) b))
  = qformR K (vsubR a b) + reg * vdotR (vsubR a b) (vsubR a b).
Proof.
  intros HK Ha Hb. rewrite <- mvR_sub by lia.
  assert (Hd : length (vsubR a b) = n) by (rewrite vsubR_length; lia).
  rewrite (add_diag_spec n) by assumption. destruct HK as [HK _].
  rewrite vdotR_add_r by (rewrite mvR_length, vscaleR_length; lia).
  rewrite vdotR_scale_r. unfold qformR. reflexivity.
Qed.

(* ---------- R5 (displayed inequality) ---------- *)
Theorem residual_bound n reg K a b : 0 < reg -> square n K -> psdR n K -> length a = n -> length b = n ->
  let r := vsubR (mvR (add_diagR reg K) a) (mvR (add_diagR reg K) b) in
  reg * vdotR (vsubR a b) (vsubR a b) <= vdotR (vsubR a b) r.
Proof.
  intros Hreg HK Hpsd Ha Hb r. unfold r. rewrite (ridge_identity n) by assumption.
  assert (Hd : length (vsubR a b) = n) by (rewrite vsubR_length; lia).
  pose proof (Hpsd _ Hd). lra.
Qed.

(* ---------- R3 ---------- *)
Theorem ridge_unique n reg K a b : 0 < reg -> square n K -> psdR n K -> length a = n -> length b = n ->
  mvR (add_diagR reg K) a = mvR (add_diagR reg K) b -> a = b.
Proof.
  intros Hreg HK Hpsd Ha Hb E.
  pose proof (residual_bound n reg K a b Hreg HK Hpsd Ha Hb) as Hr. cbn zeta in Hr.
  rewrite E in Hr.
  rewrite (vdotR_sub_r (vsubR a b) (mvR (add_diagR reg K) b) (mvR (add_diagR reg K) b) eq_refl) in Hr.
  pose proof (vdotR_self_nonneg (vsubR a b)) as Hn.
  apply vsub_sq_zero_eq; [lia|]. nra.
Qed.

(* ---------- R4 ---------- *)
Theorem solves_unique n reg K A B ys : 0 < reg -> square n K -> psdR n K ->
  Forall (fun a => length a = n) A -> Forall (fun b => length b = n) B ->
  solves reg K A ys -> solves reg K B ys -> A = B.
Proof.
  intros Hreg HK Hpsd HA HB SA. unfold solves in *. revert B HB.
  induction SA as [|a y A ys Hay SA IH]; intros B HB SB.
  - inversion SB. reflexivity.
  - destruct B as [|b B']; [inversion SB|].
    pose proof (Forall_inv HA) as Hla. pose proof (Forall_inv_tail HA) as HA'.
    pose proof (Forall_inv HB) as Hlb. pose proof (Forall_inv_tail HB) as HB'.
    cbv beta in Hla, Hlb.
    inversion SB as [|? ? ? ? Hby SB'].
    f_equal.
    + apply (ridge_unique n reg K); try assumption. rewrite Hay, Hby. reflexivity.
    + apply IH; assumption.
Qed.

(* ---------- Cauchy-Schwarz for vdotR (no length hypothesis needed: truncation only drops nonnegative terms) ---------- *)
Lemma vdotR_quadratic : forall a b s t,
  0 <= s * s * vdotR a a - 2 * s * t * vdotR a b + t * t * vdotR b b.
Proof.
  induction a as [|x a IH]; intros [|y b] s t; cbn [vdotR].
  - nra.
  - pose proof (vdotR_self_nonneg b). pose proof (Rle_0_sqr t) as Ht. unfold Rsqr in Ht. nra.
  - pose proof (vdotR_self_nonneg a). pose proof (Rle_0_sqr s) as Hs. pose proof (Rle_0_sqr x) as Hx. unfold Rsqr in *. nra.
  - specialize (IH b s t). pose proof (Rle_0_sqr (s * x - t * y)) as Hs. unfold Rsqr in Hs. lra.
Qed.

Lemma vdotR_zero_l : forall a b, vdotR a a = 0 -> vdotR a b = 0.
Proof.
  induction a as [|x a IH]; intros [|y b] H; cbn [vdotR] in *; try reflexivity.
  pose proof (vdotR_self_nonneg a). assert (x = 0) by nra. assert (vdotR a a = 0) by nra.
  rewrite (IH b) by assumption. subst x. ring.
Qed.

Lemma cauchy_schwarz a b : vdotR a b * vdotR a b <= vdotR a a * vdotR b b.
Proof.
  pose proof (vdotR_self_nonneg a) as HA. pose proof (vdotR_self_nonneg b) as HB.
  destruct (Req_dec (vdotR a a) 0) as [E|E].
  - rewrite (vdotR_zero_l a b E), E. lra.
  - pose proof (vdotR_quadratic a b (vdotR a b) (vdotR a a)) as Q.
    set (A := vdotR a a) in *. set (B := vdotR b b) in *. set (C := vdotR a b) in *.
    assert (HApos : 0 < A) by lra.
    assert (Q' : 0 <= A * (A * B - C * C)) by lra.
    nra.
Qed.

Lemma vdotR_le_norms a b : vdotR a b <= sqrt (vdotR a a) * sqrt (vdotR b b).
Proof.
  pose proof (vdotR_self_nonneg a) as HA. pose proof (vdotR_self_nonneg b) as HB.
  pose proof (cauchy_schwarz a b) as CS.
  rewrite <- sqrt_mult by assumption.
  destruct (Rle_lt_dec (vdotR a b) 0) as [Hle|Hgt].
  - pose proof (sqrt_pos (vdotR a a * vdotR b b)). lra.
  - rewrite <- (sqrt_square (vdotR a b)) at 1 by lra. apply sqrt_le_1_alt. exact CS.
Qed.

(* ---------- R5 (norm corollary): |a - b| <= |residual| / reg ---------- *)
Theorem residual_bound_norm n reg K a b : 0 < reg -> square n K -> psdR n K -> length a = n -> length b = n ->
  let d := vsubR a b in
  let r := vsubR (mvR (add_diagR reg K) a) (mvR (add_diagR reg K) b) in
  sqrt (vdotR d d) <= sqrt (vdotR r r) / reg.
Proof.
  intros Hreg HK Hpsd Ha Hb d r.
  pose proof (residual_bound n reg K a b Hreg HK Hpsd Ha Hb) as H1. cbn zeta in H1.
  change (reg * vdotR d d <= vdotR d r) in H1.
  pose proof (vdotR_le_norms d r) as H2.
  pose proof (vdotR_self_nonneg d) as Hd.
  pose proof (sqrt_pos (vdotR d d)) as HD. pose proof (sqrt_pos (vdotR r r)) as HR.
  pose proof (sqrt_sqrt _ Hd) as HDD.
  set (D := sqrt (vdotR d d)) in *. set (Rn := sqrt (vdotR r r)) in *.
  apply (Rmult_le_reg_l reg); [exact Hreg|].
  replace (reg * (Rn / reg)) with Rn by (field; lra).
  destruct (Req_dec D 0) as [E|E]; [rewrite E; lra|].
  assert (HDpos : 0 < D) by lra.
  rewrite <- HDD in H1. clearbody D Rn.
  assert (H3 : D * (reg * D) <= D * Rn) by lra.
  apply (Rmult_le_reg_l D); assumption.
Qed.

(* ---------- examples: the hypotheses are satisfiable on a concrete instance ---------- *)
Definition Kex : list (list R) := [[2; 1]; [1; 2]].

Example Kex_square : square 2 Kex.
Proof. split; [reflexivity|]. repeat constructor. Qed.

Example Kex_psd : psdR 2 Kex.
Proof.
  intros v Hv. destruct v as [|x [|y [|z v]]]; try discriminate.
  unfold qformR, mvR, Kex. cbn [map vdotR]. nra.
Qed.

(* both sides of R1 computed *)
Example add_diag_spec_ex_lhs : mvR (add_diagR 1 Kex) [1; -1] = [2; -2].
Proof. unfold add_diagR, Kex, mvR. cbn [add_diag_from Nat.eqb map vdotR]. f_equal; [lra|f_equal; lra]. Qed.

Example add_diag_spec_ex_rhs : vaddR (mvR Kex [1; -1]) (vscaleR 1 [1; -1]) = [2; -2].
Proof. unfold Kex, mvR, vscaleR. cbn [map vdotR vaddR]. f_equal; [lra|f_equal; lra]. Qed.

Example add_diag_spec_ex : mvR (add_diagR 1 Kex) [1; -1] = vaddR (mvR Kex [1; -1]) (vscaleR 1 [1; -1]).
Proof. apply (add_diag_spec 2); [exact Kex_square|reflexivity]. Qed.

Example ridge_equiv_ex : mvR (add_diagR 1 Kex) [1; -1] = [2; -2] <-> mvR Kex [1; -1] = vsubR [2; -2] (vscaleR 1 [1; -1]).
Proof. apply (ridge_equiv 2); [exact Kex_square|reflexivity|reflexivity]. Qed.

Example ridge_unique_ex b : length b = 2%nat -> mvR (add_diagR 1 Kex) b = [2; -2] -> b = [1; -1].
Proof.
  intros Hb E. apply (ridge_unique 2 1 Kex); try assumption; try reflexivity; try lra.
  - exact Kex_square.
  - exact Kex_psd.
  - rewrite E. symmetry. exact add_diag_spec_ex_lhs.
Qed.

Example solves_ex : solves 1 Kex [[1; -1]; [1; 0]] [[2; -2]; [3; 1]].
Proof.
  unfold solves. constructor; [exact add_diag_spec_ex_lhs|]. constructor; [|constructor].
  unfold add_diagR, Kex, mvR. cbn [add_diag_from Nat.eqb map vdotR]. f_equal; [lra|f_equal; lra].
Qed.

Example solves_unique_ex B : Forall (fun b => length b = 2%nat) B ->
  solves 1 Kex B [[2; -2]; [3; 1]] -> B = [[1; -1]; [1; 0]].
Proof.
  intros HB SB. apply (solves_unique 2 1 Kex B [[1; -1]; [1; 0]] [[2; -2]; [3; 1]]); try assumption; try lra.
  - exact Kex_square.
  - exact Kex_psd.
  - repeat constructor.
  - exact solves_ex.
Qed.

Example residual_bound_ex :
  1 * vdotR (vsubR [1; -1] [0; 0]) (vsubR [1; -1] [0; 0])
  <= vdotR (vsubR [1; -1] [0; 0]) (vsubR (mvR (add_diagR 1 Kex) [1; -1]) (mvR (add_diagR 1 Kex) [0; 0])).
Proof. apply (residual_bound 2 1 Kex [1; -1] [0; 0]); try reflexivity; try lra; [exact Kex_square|exact Kex_psd]. Qed.

Example residual_bound_norm_ex :
  sqrt (vdotR (vsubR [1; -1] [0; 0]) (vsubR [1; -1] [0; 0]))
  <= sqrt (vdotR (vsubR (mvR (add_diagR 1 Kex) [1; -1]) (mvR (add_diagR 1 Kex) [0; 0]))
                 (vsubR (mvR (add_diagR 1 Kex) [1; -1]) (mvR (add_diagR 1 Kex) [0; 0]))) / 1.
Proof. apply (residual_bound_norm 2 1 Kex [1; -1] [0; 0]); try reflexivity; try lra; [exact Kex_square|exact Kex_psd]. Qed.

Print Assumptions add_diag_spec.
Print Assumptions ridge_equiv.
Print Assumptions ridge_unique.
Print Assumptions solves_unique.
Print Assumptions residual_bound.
Print Assumptions residual_bound_norm.
