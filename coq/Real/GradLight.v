(* C04 (and its composition with C14) for the MEMORY-LIGHT L2 Laplace kernel
   (xrfm/rfm_src/kernels.py, class LightLaplaceKernel, get_function_grads, lines ~229-254).
   Models: Kernels.laplace_light / Kernels.light_sq (the kernel's op sequence: the matrix M ITSELF is the `mat`, squared distance by
   the expansion  (x@M).x - 2 (x@M).z + (z@M).z , clamp at 0, sqrt, pow, scale, exp) and Grads.grad_light / gsum_light / gweight
   (the gradient's op sequence:  sum_i c_i w_i (z@M - x_i@M),  w_i the masked weight at the light distance, NO second
   multiplication by M).

   What is proved (every statement is about the OP SEQUENCES, not about a closed form):
   (G)  light_gradient_general: for EVERY well-shaped transform (no symmetry), every L, q (no sign condition is needed: Rpower is
        total), every number of centres and every dimension, if every centre's mask is open (light distance >= eps > 0), the
        predictor  s |-> sum_i c_i k(x_i, z + s e)  is differentiable at 0 and its derivative is
             grad_light . e   +   (e^T M z - z^T M e) / 2 * sum_i c_i w_i .
   (a)  light_gradient_is_the_derivative: hence grad_light . e IS the derivative as soon as  z^T M e = e^T M z  (Kernels.bil, the
        pairwise symmetry hypothesis Kernels.light_sq_is_quadratic_form also uses).  That hypothesis holds for TNone, for every
        TDiag m, and for every TFull n rows that is square, well formed and entrywise symmetric (msym) : bil_symmetric_tmat.
        Positive semi-definiteness of M is NOT assumed; light_sq > 0 at the centres follows from the open mask.
        Coordinate form (nth d, direction basis d): light_gradient_is_the_derivative_coord.
   (b)  light_coincident_center_contributes_zero (+ _weight, _dropped): a centre whose light distance is below eps has weight 0,
        contributes the zero vector, and can be dropped from grad_light; nothing about its coefficient is assumed.
   (c)  light_masked_gradient_is_leave_out_derivative: grad_light . e is the derivative of the predictor with ALL masked centres
        (light distance < eps) left out; NO dichotomy hypothesis is needed because the leave-out set is the mask itself.  Under the
        dichotomy "distance 0 or >= eps" of AgopOfPredictor.v the left-out centres are exactly those at light distance 0
        (others_light_is_zero_mask, light_masked_gradient_is_leave_out_derivative_zero).
   (d)  light_gradient_needs_symmetry: grad_light is NOT the derivative of the laplace_light predictor for the non-symmetric
        M = [[0;1];[0;0]] (both numbers computed: 0 versus gweight/2 < 0).  So the symmetry hypothesis of (a) cannot be dropped; (G)
        gives the exact defect.  (The code only ever feeds M = identity / diagonal / a normalised AGOP, all symmetric.)
   (e)  light_gradient_nonvacuous: all hypotheses of (a) hold on a 2-centre instance in R^2 with the symmetric, non-identity and
        INDEFINITE matrix [[1;2];[2;1]].
   (f)  light_feature_matrix_is_the_agop_of_the_leave_out_predictor: entry (i,j) of the accumulated matrix agop_raw of the
        gradients of all outputs at all training points is the sum over outputs and training points of products of true partial
        derivatives of the leave-out predictors. *)
From Coq Require Import Reals List Lra Lia.
From Coquelicot Require Import Coquelicot.
Require Import XV.Real.Kernels XV.Real.Grads XV.Real.GradOps XV.Real.ScaleInvL2 XV.Real.AgopOfPredictor.
Import ListNotations.
Local Open Scope R_scope.

(* ====================================================================================================================== *)
(* Definitions *)

(* the distance the light kernel computes: expansion with M, clamp at 0, square root (the argument of gweight in gsum_light) *)
Definition lightd (t : tmat) (x z : list R) : R := sqrt (Rmax 0 (light_sq t x z)).

(* sum_i c_i * w(x_i) *)
Fixpoint gdef (w : list R -> R) (xs : list (list R)) (cs : list R) : R :=
  match xs, cs with x :: xs', c :: cs' => c * w x + gdef w xs' cs' | _, _ => 0 end.

(* sum_i c_i * (masked weight of centre i at z) *)
Definition gwsum (t : tmat) (L q eps : R) (xs : list (list R)) (cs : list R) (z : list R) : R :=
  gdef (fun x => gweight L q eps (lightd t x z)) xs cs.

(* the unmasked weight: -(q / L^q) * exp(-d^q / L^q) * d^(q-2), written as gweight_far writes it *)
Definition lw (L q d : R) : R := exp (Rpower d q * (- 1 / Rpower L q)) * Rpower d (q - 2) * (- q / Rpower L q).

(* ====================================================================================================================== *)
(* lengths *)

Lemma vmulR_length_min : forall a m : list R, length (vmulR a m) = Nat.min (length a) (length m).
Proof. induction a as [|x a IH]; intros [|y m]; cbn [vmulR length Nat.min]; try reflexivity. rewrite IH. reflexivity. Qed.

Lemma transform_length_eq t a b : length a = length b -> wf_tmat t (length b) -> length (transform t a) = length (transform t b).
Proof.
  intros Hl Hw. destruct t as [|m|dout rows]; cbn [transform].
  - exact Hl.
  - rewrite !vmulR_length_min, Hl. reflexivity.
  - destruct Hw as [_ Hr]. rewrite !xmat_length by exact Hr. reflexivity.
Qed.

Lemma tlen_all t z xs : wf_tmat t (length z) -> List.Forall (fun x => length x = length z) xs ->
  List.Forall (fun x => length (transform t x) = length (transform t z)) xs.
Proof.
  intros Hw H. apply Forall_forall. intros x Hx. rewrite Forall_forall in H.
  apply transform_length_eq; [apply H; exact Hx|exact Hw].
Qed.

Lemma gsum_light_length t L q eps z : forall xs cs,
  List.Forall (fun x => length (transform t x) = length (transform t z)) xs ->
  length (gsum_light t L q eps z xs cs) = length (transform t z).
Proof.
  induction xs as [|x xs IH]; intros cs H; [apply repeat_length|].
  destruct cs as [|c cs]; [apply repeat_length|]. cbn [gsum_light].
  inversion H as [|? ? Hx Hr]; subst.
  rewrite vaddR_length; unfold vscaleR; rewrite map_length, vsubR_length by (symmetry; exact Hx); [reflexivity|].
  rewrite IH by exact Hr. reflexivity.
Qed.

(* ====================================================================================================================== *)
(* bilinearity of the dot product along a line *)

Lemma vdotR_nil_r : forall a, vdotR a [] = 0.
Proof. destruct a; reflexivity. Qed.

Lemma vdotR_axpy_r : forall e z a s, length e = length z -> vdotR a (vaxpy s e z) = vdotR a z + s * vdotR a e.
Proof.
  induction e as [|ei e IH]; intros [|zi z] a s H; try discriminate.
  - cbn [vaxpy]. rewrite vdotR_nil_r. ring.
  - cbn in H. injection H as H. destruct a as [|ai a]; cbn [vaxpy vdotR]; [ring|]. rewrite (IH z a s H). ring.
Qed.

Lemma vdotR_axpy_l : forall a b w s, length a = length b -> vdotR (vaxpy s a b) w = vdotR b w + s * vdotR a w.
Proof.
  induction a as [|ai a IH]; intros [|bi b] w s H; try discriminate.
  - cbn [vaxpy vdotR]. ring.
  - cbn in H. injection H as H. destruct w as [|wi w]; cbn [vaxpy vdotR]; [ring|]. rewrite (IH b w s H). ring.
Qed.

Lemma vdotR_vsub_l : forall a b w, length a = length b -> vdotR (vsubR a b) w = vdotR a w - vdotR b w.
Proof.
  induction a as [|ai a IH]; intros [|bi b] w H; try discriminate.
  - cbn [vsubR vdotR]. ring.
  - cbn in H. injection H as H. destruct w as [|wi w]; cbn [vsubR vdotR]; [ring|]. rewrite (IH b w H). ring.
Qed.

(* the expansion along the line z + s e is a quadratic polynomial in s -- for EVERY well-shaped matrix, symmetric or not *)
Lemma light_sq_line t x z e s : wf_tmat t (length z) -> length e = length z ->
  light_sq t x (vaxpy s e z)
  = light_sq t x z + (- 2 * bil t x e + bil t z e + bil t e z) * s + bil t e e * s * s.
Proof.
  intros Hw He. unfold light_sq, bil. rewrite transform_axpy by assumption.
  rewrite (vdotR_axpy_r e z (transform t x) s He).
  rewrite vdotR_axpy_l by (apply transform_length_eq; assumption).
  rewrite !(vdotR_axpy_r e z _ s He). ring.
Qed.

(* ====================================================================================================================== *)
(* one centre: the kernel along the line and its derivative at 0 *)

Lemma light_kernel_derive t L q x z e : wf_tmat t (length z) -> length e = length z -> 0 < light_sq t x z ->
  is_derive (fun s => laplace_light t L q x (vaxpy s e z)) 0
            (lw L q (lightd t x z) * ((- 2 * bil t x e + bil t z e + bil t e z) / 2)).
Proof.
  intros Hw He Hpos.
  set (A := light_sq t x z) in *. set (B := - 2 * bil t x e + bil t z e + bil t e z). set (C := bil t e e).
  assert (Hk := kline_derive A B C (/ Rpower L q) q 0).
  replace (A + B * 0 + C * 0 * 0) with A in Hk by ring. specialize (Hk Hpos).
  assert (Hc : continuous (fun s => A + B * s + C * s * s) 0).
  { apply (ex_derive_continuous (fun s => A + B * s + C * s * s)). auto_derive. trivial. }
  assert (Hloc : locally 0 (fun s => kline A B C (/ Rpower L q) q s = laplace_light t L q x (vaxpy s e z))).
  { assert (Hp : locally 0 (fun s => 0 < A + B * s + C * s * s)).
    { apply (Hc (fun v => 0 < v)). apply (open_gt 0). ring_simplify. exact Hpos. }
    revert Hp. apply filter_imp. intros s Hs. unfold laplace_light, kline.
    rewrite (light_sq_line t x z e s Hw He). fold A B C.
    rewrite Rmax_right by lra. rewrite pw_pos by (apply sqrt_lt_R0; exact Hs).
    f_equal. change (Rpower (sqrt (A + B * s + C * s * s)) q) with (exp (q * ln (sqrt (A + B * s + C * s * s)))).
    unfold Rdiv. ring. }
  eapply is_derive_ext_loc; [exact Hloc|].
  replace (lw L q (lightd t x z) * (B / 2))
    with (- / Rpower L q * q * kline A B C (/ Rpower L q) q 0 * exp ((q - 2) * ln (sqrt A)) * ((B + 2 * C * 0) / 2)); [exact Hk|].
  unfold kline, lw, lightd. fold A. replace (A + B * 0 + C * 0 * 0) with A by ring.
  rewrite Rmax_right by lra. unfold Rpower. unfold Rdiv.
  replace (- / exp (q * ln L) * exp (q * ln (sqrt A))) with (exp (q * ln (sqrt A)) * (-1 * / exp (q * ln L))) by ring.
  field. apply Rgt_not_eq, exp_pos.
Qed.

(* an open mask (eps > 0) forces the expansion to be strictly positive: no positive semi-definiteness is needed *)
Lemma open_mask_light_sq_pos t eps x z : 0 < eps -> eps <= lightd t x z -> 0 < light_sq t x z.
Proof.
  intros He Hd. unfold lightd in Hd. destruct (Rlt_le_dec 0 (light_sq t x z)) as [H|H]; [exact H|].
  rewrite Rmax_left in Hd by exact H. rewrite sqrt_0 in Hd. lra.
Qed.

Lemma gweight_open L q eps d : 0 < eps -> eps <= d -> gweight L q eps d = lw L q d.
Proof. intros He Hd. unfold lw. apply gweight_far; assumption. Qed.

Lemma gweight_masked L q eps d : ~ eps <= d -> gweight L q eps d = 0.
Proof. intros H. unfold gweight. destruct (Rle_dec eps d) as [H'|_]; [contradiction|ring]. Qed.

(* ====================================================================================================================== *)
(* sums over centres *)

Lemma gdef_ext_in w w' : forall xs cs, (forall x, In x xs -> w x = w' x) -> gdef w xs cs = gdef w' xs cs.
Proof.
  induction xs as [|x xs IH]; intros cs H; [reflexivity|]. destruct cs as [|c cs]; [reflexivity|]. cbn [gdef].
  rewrite (H x (or_introl eq_refl)), (IH cs) by (intros y Hy; apply H; right; exact Hy). reflexivity.
Qed.

Lemma gdef_lin w1 w2 k : forall xs cs, gdef (fun x => w1 x + k * w2 x) xs cs = gdef w1 xs cs + k * gdef w2 xs cs.
Proof.
  induction xs as [|x xs IH]; intros cs; [cbn [gdef]; ring|]. destruct cs as [|c cs]; [cbn [gdef]; ring|]. cbn [gdef].
  rewrite IH. ring.
Qed.

(* derivative of a kernel sum along a line from the derivatives of its terms *)
Lemma fpred_line_derive (k : list R -> list R -> R) (dk : list R -> R) z e : forall xs cs,
  (forall x, In x xs -> is_derive (fun s => k x (vaxpy s e z)) 0 (dk x)) ->
  is_derive (fun s => fpred k xs cs (vaxpy s e z)) 0 (gdef dk xs cs).
Proof.
  induction xs as [|x xs IH]; intros cs H.
  - apply is_derive_ext with (f := fun _ : R => 0); [intros; reflexivity|apply @is_derive_const].
  - destruct cs as [|c cs]; [apply is_derive_ext with (f := fun _ : R => 0); [intros; reflexivity|apply @is_derive_const]|].
    cbn [fpred gdef].
    apply (is_derive_plus (fun s => c * k x (vaxpy s e z)) (fun s => fpred k xs cs (vaxpy s e z))).
    + apply (is_derive_scal (fun s => k x (vaxpy s e z)) 0 c). apply H. left. reflexivity.
    + apply IH. intros y Hy. apply H. right. exact Hy.
Qed.

(* the directional value of the code's gradient *)
Lemma grad_light_dot t L q eps z e : forall xs cs,
  List.Forall (fun x => length (transform t x) = length (transform t z)) xs ->
  vdotR (grad_light t L q eps xs cs z) e
  = gdef (fun x => gweight L q eps (lightd t x z) * (bil t z e - bil t x e)) xs cs.
Proof.
  unfold grad_light. induction xs as [|x xs IH]; intros cs H; [apply vdotR_zeros|].
  destruct cs as [|c cs]; [apply vdotR_zeros|]. cbn [gsum_light gdef].
  inversion H as [|? ? Hx Hr]; subst.
  rewrite vdotR_vadd.
  - rewrite vdotR_vscale, vdotR_vsub_l by (symmetry; exact Hx). rewrite (IH cs Hr). unfold lightd, bil. ring.
  - unfold vscaleR. rewrite map_length, vsubR_length by (symmetry; exact Hx). rewrite gsum_light_length by exact Hr. reflexivity.
Qed.

(* ====================================================================================================================== *)
(* (G) the general statement, NO symmetry: derivative = code's gradient + defect *)

Theorem light_gradient_general : forall t L q eps xs cs z e, 0 < eps ->
  wf_tmat t (length z) -> length e = length z ->
  List.Forall (fun x => length x = length z) xs ->
  List.Forall (fun x => eps <= lightd t x z) xs ->
  is_derive (fun s => fpred (laplace_light t L q) xs cs (vaxpy s e z)) 0
            (vdotR (grad_light t L q eps xs cs z) e + (bil t e z - bil t z e) / 2 * gwsum t L q eps xs cs z).
Proof.
  intros t L q eps xs cs z e He Hw Hle Hlen Hopen.
  rewrite (grad_light_dot t L q eps z e xs cs (tlen_all t z xs Hw Hlen)). unfold gwsum.
  rewrite <- gdef_lin.
  rewrite (gdef_ext_in _ (fun x => lw L q (lightd t x z) * ((- 2 * bil t x e + bil t z e + bil t e z) / 2)) xs cs).
  - apply fpred_line_derive. intros x Hx. rewrite Forall_forall in Hopen.
    apply light_kernel_derive; [exact Hw|exact Hle|]. apply (open_mask_light_sq_pos t eps); [exact He|apply Hopen; exact Hx].
  - intros x Hx. rewrite Forall_forall in Hopen. rewrite (gweight_open L q eps _ He (Hopen x Hx)). field.
Qed.

(* ====================================================================================================================== *)
(* (a) with the pairwise symmetry  z^T M e = e^T M z  the code's gradient IS the derivative *)

Theorem light_gradient_is_the_derivative : forall t L q eps xs cs z e, 0 < eps ->
  wf_tmat t (length z) -> length e = length z ->
  List.Forall (fun x => length x = length z) xs ->
  bil t z e = bil t e z ->                                        (* symmetry of M on the pair (query, direction) *)
  List.Forall (fun x => eps <= lightd t x z) xs ->                     (* every mask is open *)
  is_derive (fun s => fpred (laplace_light t L q) xs cs (vaxpy s e z)) 0 (vdotR (grad_light t L q eps xs cs z) e).
Proof.
  intros t L q eps xs cs z e He Hw Hle Hlen Hsym Hopen.
  assert (H := light_gradient_general t L q eps xs cs z e He Hw Hle Hlen Hopen).
  replace (vdotR (grad_light t L q eps xs cs z) e)
    with (vdotR (grad_light t L q eps xs cs z) e + (bil t e z - bil t z e) / 2 * gwsum t L q eps xs cs z); [exact H|].
  rewrite Hsym. field.
Qed.

(* ====================================================================================================================== *)
(* instances of the symmetry hypothesis: TNone, every TDiag, every square symmetric TFull *)

(* M is n x n *)
Definition square_tmat (t : tmat) (n : nat) : Prop := match t with TFull dout _ => dout = n | _ => True end.
(* entrywise symmetry of a matrix given by its rows, on the index range of an n x n matrix *)
Definition msym (n : nat) (rows : list (list R)) : Prop :=
  forall i j, (i < n)%nat -> (j < n)%nat -> nth j (nth i rows []) 0 = nth i (nth j rows []) 0.
Definition sym_tmat (t : tmat) (n : nat) : Prop := match t with TFull _ rows => msym n rows | _ => True end.

Lemma transform_length_square t n v : wf_tmat t n -> square_tmat t n -> length v = n -> length (transform t v) = n.
Proof.
  intros Hw Hs Hv. destruct t as [|m|dout rows]; cbn [transform].
  - exact Hv.
  - cbn in Hw. rewrite vmulR_length_min, Hv, Hw. apply Nat.min_id.
  - destruct Hw as [_ Hr]. cbn in Hs. rewrite xmat_length by exact Hr. exact Hs.
Qed.

Lemma vdotR_comm : forall a b, vdotR a b = vdotR b a.
Proof. induction a as [|x a IH]; intros [|y b]; cbn [vdotR]; try reflexivity. rewrite (IH b). ring. Qed.

Lemma bil_diag_sym m : forall u v, bil (TDiag m) u v = bil (TDiag m) v u.
Proof.
  unfold bil. cbn [transform]. revert m. intros m u. revert m.
  induction u as [|a u IH]; intros m v.
  - cbn [vmulR vdotR]. rewrite vdotR_nil_r. reflexivity.
  - destruct m as [|c m]; [cbn [vmulR vdotR]; destruct v; reflexivity|].
    destruct v as [|b v]; [cbn [vmulR vdotR]; reflexivity|]. cbn [vmulR vdotR]. rewrite (IH m v). ring.
Qed.

(* finite sums over 0 .. n-1 *)
Definition rsumN (f : nat -> R) (n : nat) : R := fold_right Rplus 0 (map f (seq 0 n)).

Lemma rsumN_S f n : rsumN f (S n) = f 0%nat + rsumN (fun i => f (S i)) n.
Proof. unfold rsumN. cbn [seq map fold_right]. rewrite <- seq_shift, map_map. reflexivity. Qed.

Lemma rsumN_ext : forall n f g, (forall i, (i < n)%nat -> f i = g i) -> rsumN f n = rsumN g n.
Proof.
  induction n as [|n IH]; intros f g H; [reflexivity|]. rewrite !rsumN_S. f_equal; [apply H; lia|].
  apply IH. intros i Hi. apply H. lia.
Qed.

Lemma rsumN_plus : forall n f g, rsumN (fun i => f i + g i) n = rsumN f n + rsumN g n.
Proof. induction n as [|n IH]; intros f g; [unfold rsumN; cbn; ring|]. rewrite !rsumN_S, IH. ring. Qed.

Lemma rsumN_scal c : forall n f, rsumN (fun i => c * f i) n = c * rsumN f n.
Proof. induction n as [|n IH]; intros f; [unfold rsumN; cbn; ring|]. rewrite !rsumN_S, IH. ring. Qed.

Lemma rsumN_zero : forall n, rsumN (fun _ => 0) n = 0.
Proof. induction n as [|n IH]; [reflexivity|]. rewrite rsumN_S, IH. ring. Qed.

Lemma rsumN_swap m : forall n (f : nat -> nat -> R),
  rsumN (fun i => rsumN (fun j => f i j) m) n = rsumN (fun j => rsumN (fun i => f i j) n) m.
Proof.
  induction n as [|n IH]; intros f.
  - symmetry. transitivity (rsumN (fun _ => 0) m); [apply rsumN_ext; intros; reflexivity|apply rsumN_zero].
  - rewrite rsumN_S. rewrite (IH (fun i j => f (S i) j)).
    rewrite (rsumN_ext m (fun j => rsumN (fun i => f i j) (S n)) (fun j => f 0%nat j + rsumN (fun i => f (S i) j) n))
      by (intros j _; apply rsumN_S).
    rewrite rsumN_plus. reflexivity.
Qed.

Lemma vdotR_rsumN : forall a b n, length a = n -> vdotR a b = rsumN (fun j => nth j a 0 * nth j b 0) n.
Proof.
  induction a as [|x a IH]; intros b n H.
  - cbn in H. subst n. reflexivity.
  - destruct n as [|n]; [discriminate|]. cbn in H. injection H as H. rewrite rsumN_S.
    destruct b as [|y b].
    + cbn [vdotR nth]. rewrite (rsumN_ext n _ (fun _ => 0)) by (intros i _; destruct i; ring). rewrite rsumN_zero. ring.
    + cbn [vdotR nth]. rewrite (IH b n H). reflexivity.
Qed.

Lemma vdot_xmat dout v : forall u rows, List.Forall (fun r => length r = dout) rows ->
  vdotR (xmat dout u rows) v = rsumN (fun i => nth i u 0 * vdotR (nth i rows []) v) (length u).
Proof.
  induction u as [|a u IH]; intros rows H.
  - cbn [xmat length]. rewrite vdotR_zeros. reflexivity.
  - destruct rows as [|r rows].
    + cbn [xmat length]. rewrite vdotR_zeros. symmetry.
      rewrite (rsumN_ext _ _ (fun _ => 0)) by (intros i _; destruct i; cbn [nth vdotR]; ring). apply rsumN_zero.
    + inversion H as [|? ? Hr Hrs]; subst. cbn [xmat length]. rewrite rsumN_S. cbn [nth].
      rewrite vdotR_vadd by (unfold vscaleR; rewrite map_length, xmat_length by exact Hrs; reflexivity).
      rewrite vdotR_vscale, (IH rows Hrs). reflexivity.
Qed.

Lemma bil_full_sum n rows u v : length rows = n -> List.Forall (fun r => length r = n) rows -> length u = n ->
  bil (TFull n rows) u v = rsumN (fun i => rsumN (fun j => nth i u 0 * nth j (nth i rows []) 0 * nth j v 0) n) n.
Proof.
  intros Hn Hr Hu. unfold bil. cbn [transform]. rewrite vdot_xmat by exact Hr. rewrite Hu.
  apply rsumN_ext. intros i Hi.
  assert (Hl : length (nth i rows []) = n).
  { rewrite Forall_forall in Hr. apply Hr. apply nth_In. rewrite Hn. exact Hi. }
  rewrite (vdotR_rsumN (nth i rows []) v n Hl). rewrite <- rsumN_scal. apply rsumN_ext. intros j _. ring.
Qed.

(* the bilinear form of the light kernel is symmetric on R^n for no matrix, a diagonal, or a square symmetric full matrix *)
Theorem bil_symmetric_tmat : forall t n u v, wf_tmat t n -> square_tmat t n -> sym_tmat t n ->
  length u = n -> length v = n -> bil t u v = bil t v u.
Proof.
  intros t n u v Hw Hsq Hsy Hu Hv. destruct t as [|m|dout rows].
  - unfold bil. cbn [transform]. apply vdotR_comm.
  - apply bil_diag_sym.
  - cbn in Hsq. subst dout. destruct Hw as [Hn Hr]. cbn in Hsy.
    rewrite (bil_full_sum n rows u v Hn Hr Hu), (bil_full_sum n rows v u Hn Hr Hv).
    rewrite (rsumN_swap n n (fun i j => nth i v 0 * nth j (nth i rows []) 0 * nth j u 0)).
    apply rsumN_ext. intros i Hi. apply rsumN_ext. intros j Hj. rewrite (Hsy i j Hi Hj). ring.
Qed.

(* (a) for the three kinds of matrix the code feeds, with concrete predicates only *)
Corollary light_gradient_is_the_derivative_sym : forall t L q eps xs cs z e, 0 < eps ->
  wf_tmat t (length z) -> square_tmat t (length z) -> sym_tmat t (length z) ->   (* TNone, TDiag m, or TFull n rows symmetric *)
  length e = length z ->
  List.Forall (fun x => length x = length z) xs ->
  List.Forall (fun x => eps <= lightd t x z) xs ->
  is_derive (fun s => fpred (laplace_light t L q) xs cs (vaxpy s e z)) 0 (vdotR (grad_light t L q eps xs cs z) e).
Proof.
  intros t L q eps xs cs z e He Hw Hsq Hsy Hle Hlen Hopen.
  apply light_gradient_is_the_derivative; try assumption.
  apply (bil_symmetric_tmat t (length z)); try assumption. reflexivity.
Qed.

(* (a), coordinate form: coordinate d of what the code returns is the partial derivative in direction e_d *)
Lemma grad_light_length t L q eps xs cs z : wf_tmat t (length z) -> List.Forall (fun x => length x = length z) xs ->
  length (grad_light t L q eps xs cs z) = length (transform t z).
Proof. intros Hw Hlen. unfold grad_light. apply gsum_light_length. apply tlen_all; assumption. Qed.

Corollary light_gradient_is_the_derivative_coord : forall t L q eps xs cs z d, 0 < eps ->
  wf_tmat t (length z) -> square_tmat t (length z) -> sym_tmat t (length z) ->
  List.Forall (fun x => length x = length z) xs ->
  List.Forall (fun x => eps <= lightd t x z) xs ->
  is_derive (fun s => fpred (laplace_light t L q) xs cs (vaxpy s (basis d (length z)) z)) 0
            (nth d (grad_light t L q eps xs cs z) 0).
Proof.
  intros t L q eps xs cs z d He Hw Hsq Hsy Hlen Hopen.
  rewrite <- (vdot_basis (length z) (grad_light t L q eps xs cs z) d)
    by (rewrite grad_light_length by assumption; apply transform_length_square; try assumption; reflexivity).
  apply light_gradient_is_the_derivative_sym; try assumption. apply basis_length.
Qed.

(* ====================================================================================================================== *)
(* (b) a centre under the mask contributes zero *)

Theorem light_coincident_center_contributes_zero_weight : forall t L q eps x z,
  lightd t x z < eps -> gweight L q eps (lightd t x z) = 0.
Proof. intros t L q eps x z H. apply gweight_masked. lra. Qed.

Lemma vscaleR_zero : forall v, vscaleR 0 v = repeat 0 (length v).
Proof. unfold vscaleR. induction v as [|a v IH]; cbn [map length repeat]; [reflexivity|]. rewrite IH. f_equal. ring. Qed.

(* the centre's own term of the sum is the zero vector (finite), whatever its coefficient *)
Theorem light_coincident_center_contributes_zero : forall t L q eps x z c,
  lightd t x z < eps ->
  vscaleR (c * gweight L q eps (lightd t x z)) (vsubR (transform t z) (transform t x))
  = repeat 0 (length (vsubR (transform t z) (transform t x))).
Proof.
  intros t L q eps x z c H. rewrite (light_coincident_center_contributes_zero_weight t L q eps x z H), Rmult_0_r.
  apply vscaleR_zero.
Qed.

(* ... and the gradient is the gradient without that centre *)
Theorem light_coincident_center_contributes_zero_dropped : forall t L q eps x xs c cs z,
  wf_tmat t (length z) -> List.Forall (fun y => length y = length z) (x :: xs) ->
  lightd t x z < eps ->
  grad_light t L q eps (x :: xs) (c :: cs) z = grad_light t L q eps xs cs z.
Proof.
  intros t L q eps x xs c cs z Hw Hlen H. unfold grad_light. cbn [gsum_light]. fold (lightd t x z).
  rewrite (light_coincident_center_contributes_zero_weight t L q eps x z H), Rmult_0_r.
  assert (Ht := tlen_all t z (x :: xs) Hw Hlen). inversion Ht as [|? ? Hx Hr]; subst.
  apply vaddR_zero_scale. rewrite vsubR_length by (symmetry; exact Hx). rewrite gsum_light_length by exact Hr. reflexivity.
Qed.

(* the point itself is always under the mask when the expansion vanishes on the diagonal (it does: x M x - 2 x M x + x M x) *)
Lemma lightd_self t x : lightd t x x = 0.
Proof. unfold lightd, light_sq. replace (vdotR (transform t x) x - 2 * vdotR (transform t x) x + vdotR (transform t x) x) with 0 by ring.
  rewrite Rmax_left by lra. apply sqrt_0. Qed.

(* ====================================================================================================================== *)
(* (c) the masked gradient is the derivative of the leave-out predictor *)

(* the centres (with their coefficients) whose mask is open at z *)
Fixpoint others_light (t : tmat) (eps : R) (z : list R) (xs : list (list R)) (cs : list R) : list (list R) * list R :=
  match xs, cs with
  | x :: xs', c :: cs' => let '(ys, ds) := others_light t eps z xs' cs' in
      if Rle_dec eps (lightd t x z) then (x :: ys, c :: ds) else (ys, ds)
  | _, _ => ([], [])
  end.

(* the predictor with the masked kernel terms (z's own, and any other centre at light distance < eps) left out *)
Definition loo_pred_light (t : tmat) (L q eps : R) (xs : list (list R)) (cs : list R) (z : list R) : list R -> R :=
  fun z' => fpred (laplace_light t L q) (fst (others_light t eps z xs cs)) (snd (others_light t eps z xs cs)) z'.

Lemma others_light_cons t eps z x xs c cs :
  others_light t eps z (x :: xs) (c :: cs) =
  if Rle_dec eps (lightd t x z) then (x :: fst (others_light t eps z xs cs), c :: snd (others_light t eps z xs cs))
  else others_light t eps z xs cs.
Proof.
  cbn [others_light]. destruct (others_light t eps z xs cs) as [ys ds]. cbn [fst snd].
  destruct (Rle_dec eps (lightd t x z)); reflexivity.
Qed.

Lemma others_light_in t eps z : forall xs cs x, In x (fst (others_light t eps z xs cs)) -> In x xs /\ eps <= lightd t x z.
Proof.
  induction xs as [|x0 xs IH]; intros cs x Hin; [destruct Hin|].
  destruct cs as [|c cs]; [destruct Hin|].
  rewrite others_light_cons in Hin. destruct (Rle_dec eps (lightd t x0 z)) as [E|E].
  - cbn [fst] in Hin. destruct Hin as [<-|Hin]; [split; [left; reflexivity|exact E]|].
    destruct (IH cs x Hin) as [H1 H2]. split; [right; exact H1|exact H2].
  - destruct (IH cs x Hin) as [H1 H2]. split; [right; exact H1|exact H2].
Qed.

Lemma others_light_Forall t eps z (P : list R -> Prop) xs cs : List.Forall P xs -> List.Forall P (fst (others_light t eps z xs cs)).
Proof.
  intros H. apply Forall_forall. intros x Hx. rewrite Forall_forall in H. apply H. apply (others_light_in t eps z xs cs x Hx).
Qed.

Lemma others_light_length t eps z : forall xs cs,
  length (snd (others_light t eps z xs cs)) = length (fst (others_light t eps z xs cs)).
Proof.
  induction xs as [|x xs IH]; intros cs; [reflexivity|]. destruct cs as [|c cs]; [reflexivity|].
  rewrite others_light_cons. destruct (Rle_dec eps (lightd t x z)); [cbn [fst snd length]; rewrite IH; reflexivity|apply IH].
Qed.

(* the masked centres contribute the zero vector *)
Theorem grad_light_drop_masked t L q eps z : forall xs cs,
  List.Forall (fun x => length (transform t x) = length (transform t z)) xs ->
  grad_light t L q eps xs cs z = grad_light t L q eps (fst (others_light t eps z xs cs)) (snd (others_light t eps z xs cs)) z.
Proof.
  unfold grad_light. induction xs as [|x xs IH]; intros cs Hl; [reflexivity|].
  destruct cs as [|c cs]; [reflexivity|].
  inversion Hl as [|? ? Hx Hxs]; subst.
  rewrite others_light_cons. destruct (Rle_dec eps (lightd t x z)) as [E|E].
  - cbn [fst snd gsum_light]. rewrite (IH cs Hxs). reflexivity.
  - cbn [gsum_light]. fold (lightd t x z). rewrite (gweight_masked L q eps _ E), Rmult_0_r.
    rewrite vaddR_zero_scale; [apply IH; exact Hxs|].
    rewrite vsubR_length by (symmetry; exact Hx). rewrite gsum_light_length by exact Hxs. reflexivity.
Qed.

Theorem light_masked_gradient_is_leave_out_derivative : forall t L q eps xs cs z e, 0 < eps ->
  wf_tmat t (length z) -> length e = length z ->
  List.Forall (fun x => length x = length z) xs ->
  bil t z e = bil t e z ->
  is_derive (fun s => loo_pred_light t L q eps xs cs z (vaxpy s e z)) 0 (vdotR (grad_light t L q eps xs cs z) e).
Proof.
  intros t L q eps xs cs z e He Hw Hle Hlen Hsym.
  rewrite (grad_light_drop_masked t L q eps z xs cs (tlen_all t z xs Hw Hlen)). unfold loo_pred_light.
  apply light_gradient_is_the_derivative; try assumption.
  - apply others_light_Forall. exact Hlen.
  - apply Forall_forall. intros x Hx. apply (others_light_in t eps z xs cs x Hx).
Qed.

(* coordinate form for the three kinds of matrix *)
Corollary light_masked_gradient_is_leave_out_derivative_coord : forall t L q eps xs cs z d, 0 < eps ->
  wf_tmat t (length z) -> square_tmat t (length z) -> sym_tmat t (length z) ->
  List.Forall (fun x => length x = length z) xs ->
  is_derive (fun s => loo_pred_light t L q eps xs cs z (vaxpy s (basis d (length z)) z)) 0
            (nth d (grad_light t L q eps xs cs z) 0).
Proof.
  intros t L q eps xs cs z d He Hw Hsq Hsy Hlen.
  rewrite <- (vdot_basis (length z) (grad_light t L q eps xs cs z) d)
    by (rewrite grad_light_length by assumption; apply transform_length_square; try assumption; reflexivity).
  apply light_masked_gradient_is_leave_out_derivative; try assumption; [apply basis_length|].
  apply (bil_symmetric_tmat t (length z)); try assumption; [reflexivity|apply basis_length].
Qed.

(* the style of AgopOfPredictor.v: when every centre is at light distance 0 or >= eps, the left-out centres are exactly those at
   light distance 0 *)
Fixpoint others_light0 (t : tmat) (z : list R) (xs : list (list R)) (cs : list R) : list (list R) * list R :=
  match xs, cs with
  | x :: xs', c :: cs' => let '(ys, ds) := others_light0 t z xs' cs' in
      if Req_EM_T (lightd t x z) 0 then (ys, ds) else (x :: ys, c :: ds)
  | _, _ => ([], [])
  end.

Lemma others_light_is_zero_mask t eps z : 0 < eps -> forall xs cs,
  List.Forall (fun x => lightd t x z = 0 \/ eps <= lightd t x z) xs ->
  others_light t eps z xs cs = others_light0 t z xs cs.
Proof.
  intros He. induction xs as [|x xs IH]; intros cs H; [reflexivity|]. destruct cs as [|c cs]; [reflexivity|].
  inversion H as [|? ? Hx Hr]; subst. cbn [others_light others_light0]. rewrite (IH cs Hr).
  destruct (others_light0 t z xs cs) as [ys ds].
  destruct (Rle_dec eps (lightd t x z)) as [E|E]; destruct (Req_EM_T (lightd t x z) 0) as [Z|Z]; try reflexivity.
  - rewrite Z in E. lra.
  - destruct Hx as [Hx|Hx]; contradiction.
Qed.

Corollary light_masked_gradient_is_leave_out_derivative_zero : forall t L q eps xs cs z e, 0 < eps ->
  wf_tmat t (length z) -> length e = length z ->
  List.Forall (fun x => length x = length z) xs ->
  bil t z e = bil t e z ->
  List.Forall (fun x => lightd t x z = 0 \/ eps <= lightd t x z) xs ->
  is_derive (fun s => fpred (laplace_light t L q) (fst (others_light0 t z xs cs)) (snd (others_light0 t z xs cs)) (vaxpy s e z)) 0
            (vdotR (grad_light t L q eps xs cs z) e).
Proof.
  intros t L q eps xs cs z e He Hw Hle Hlen Hsym Hmask.
  rewrite <- (others_light_is_zero_mask t eps z He xs cs Hmask).
  exact (light_masked_gradient_is_leave_out_derivative t L q eps xs cs z e He Hw Hle Hlen Hsym).
Qed.

(* ====================================================================================================================== *)
(* (d) the symmetry hypothesis of (a) cannot be dropped *)

Lemma lightd_val t x z s : 0 <= s -> light_sq t x z = s * s -> lightd t x z = s.
Proof. intros Hs E. unfold lightd. rewrite E, Rmax_right by nra. apply sqrt_square. exact Hs. Qed.

Ltac full2 := cbn [transform xmat]; unfold vscaleR; cbn [vaddR map repeat vdotR]; lra.

(* the non-symmetric matrix of Kernels.light_needs_symmetry: u^T M v = u_0 v_1 *)
Definition Mns : tmat := TFull 2 [[0; 1]; [0; 0]].

Lemma wf_Mns : wf_tmat Mns 2.
Proof. unfold Mns. split; [reflexivity|repeat constructor]. Qed.

Lemma dns : lightd Mns [0; 0] [1; 1] = 1.
Proof. apply lightd_val; [lra|]. unfold light_sq, Mns. full2. Qed.

(* one centre [0;0] with coefficient 1, query [1;1], direction e_0, exponent 1, bandwidth 1: along the line the expansion is
   (1 + s) * 1, the kernel exp(-sqrt(1 + s)) has derivative  w / 2 < 0  at 0 (w the gradient weight at distance 1), but the
   code's gradient has coordinate 0 equal to  w * ((z@M)_0 - (x@M)_0) = w * 0 = 0. *)
Example light_gradient_needs_symmetry :
  bil Mns [1; 1] [1; 0] <> bil Mns [1; 0] [1; 1] /\
  vdotR (grad_light Mns 1 1 (1 / 1000) [[0; 0]] [1] [1; 1]) [1; 0] = 0 /\
  nth 0 (grad_light Mns 1 1 (1 / 1000) [[0; 0]] [1] [1; 1]) 0 = 0 /\
  is_derive (fun s => fpred (laplace_light Mns 1 1) [[0; 0]] [1] (vaxpy s [1; 0] [1; 1])) 0 (gweight 1 1 (1 / 1000) 1 / 2) /\
  gweight 1 1 (1 / 1000) 1 / 2 < 0 /\
  ~ is_derive (fun s => fpred (laplace_light Mns 1 1) [[0; 0]] [1] (vaxpy s [1; 0] [1; 1])) 0
              (vdotR (grad_light Mns 1 1 (1 / 1000) [[0; 0]] [1] [1; 1]) [1; 0]).
Proof.
  assert (Hb1 : bil Mns [1; 1] [1; 0] = 0) by (unfold bil, Mns; full2).
  assert (Hb2 : bil Mns [1; 0] [1; 1] = 1) by (unfold bil, Mns; full2).
  assert (Hgv : grad_light Mns 1 1 (1 / 1000) [[0; 0]] [1] [1; 1]
                = [1 * gweight 1 1 (1 / 1000) 1 * (1 * 0 + (1 * 0 + 0) - (0 * 0 + (0 * 0 + 0))) + 0;
                   1 * gweight 1 1 (1 / 1000) 1 * (1 * 1 + (1 * 0 + 0) - (0 * 1 + (0 * 0 + 0))) + 0]).
  { unfold grad_light. cbn [gsum_light]. fold (lightd Mns [0; 0] [1; 1]). rewrite dns. unfold Mns.
    cbn [transform xmat]. unfold vscaleR. cbn [vaddR vsubR map repeat length]. reflexivity. }
  assert (Hg : vdotR (grad_light Mns 1 1 (1 / 1000) [[0; 0]] [1] [1; 1]) [1; 0] = 0) by (rewrite Hgv; cbn [vdotR]; ring).
  assert (Hg0 : nth 0 (grad_light Mns 1 1 (1 / 1000) [[0; 0]] [1] [1; 1]) 0 = 0) by (rewrite Hgv; cbn [nth]; ring).
  assert (Hw : gweight 1 1 (1 / 1000) 1 < 0) by (apply gweight_neg; lra).
  assert (Hd : is_derive (fun s => fpred (laplace_light Mns 1 1) [[0; 0]] [1] (vaxpy s [1; 0] [1; 1])) 0 (gweight 1 1 (1 / 1000) 1 / 2)).
  { assert (H := light_gradient_general Mns 1 1 (1 / 1000) [[0; 0]] [1] [1; 1] [1; 0]).
    rewrite Hg, Hb1, Hb2 in H. unfold gwsum in H. cbn [gdef] in H. rewrite dns in H.
    replace (gweight 1 1 (1 / 1000) 1 / 2) with (0 + (1 - 0) / 2 * (1 * gweight 1 1 (1 / 1000) 1 + 0)) by field.
    apply H; [lra|exact wf_Mns|reflexivity|repeat constructor|]. constructor; [rewrite dns; lra|constructor]. }
  split; [rewrite Hb1, Hb2; lra|]. split; [exact Hg|]. split; [exact Hg0|]. split; [exact Hd|]. split; [lra|].
  intros Hn. rewrite Hg in Hn.
  assert (E1 := is_derive_unique _ _ _ Hd). assert (E2 := is_derive_unique _ _ _ Hn). rewrite E1 in E2. lra.
Qed.

(* ====================================================================================================================== *)
(* (e) non-vacuity: a symmetric, non-identity, INDEFINITE full matrix; two centres in R^2; every hypothesis of (a) holds *)

Definition Msy : tmat := TFull 2 [[1; 2]; [2; 1]].

Lemma wf_Msy : wf_tmat Msy 2.
Proof. unfold Msy. split; [reflexivity|repeat constructor]. Qed.
Lemma square_Msy : square_tmat Msy 2.
Proof. reflexivity. Qed.
Lemma sym_Msy : sym_tmat Msy 2.
Proof. unfold Msy. intros i j Hi Hj. destruct i as [|[|i]]; destruct j as [|[|j]]; try lia; reflexivity. Qed.

Lemma dsy_a : lightd Msy [0; 0] [1; 0] = 1.
Proof. apply lightd_val; [lra|]. unfold light_sq, Msy. full2. Qed.
Lemma dsy_b : lightd Msy [1; 1] [1; 0] = 1.
Proof. apply lightd_val; [lra|]. unfold light_sq, Msy. full2. Qed.

(* the matrix is not positive semi-definite: the expansion is negative at (x, z) = ([1;0], [0;1]) *)
Example Msy_indefinite : light_sq Msy [1; 0] [0; 1] = -2.
Proof. unfold light_sq, Msy. full2. Qed.

Example light_gradient_nonvacuous :
  0 < 1 / 1000 /\ wf_tmat Msy (length [1; 0]) /\ square_tmat Msy (length [1; 0]) /\ sym_tmat Msy (length [1; 0]) /\
  length [0; 1] = length [1; 0] /\
  List.Forall (fun x => length x = length [1; 0]) [[0; 0]; [1; 1]] /\
  bil Msy [1; 0] [0; 1] = bil Msy [0; 1] [1; 0] /\
  List.Forall (fun x => 1 / 1000 <= lightd Msy x [1; 0]) [[0; 0]; [1; 1]] /\
  is_derive (fun s => fpred (laplace_light Msy 1 1) [[0; 0]; [1; 1]] [1; 2] (vaxpy s [0; 1] [1; 0])) 0
            (vdotR (grad_light Msy 1 1 (1 / 1000) [[0; 0]; [1; 1]] [1; 2] [1; 0]) [0; 1]).
Proof.
  assert (H1 : 0 < 1 / 1000) by lra.
  assert (H5 : List.Forall (fun x => length x = length [1; 0]) [[0; 0]; [1; 1]]) by (repeat constructor).
  assert (H6 : bil Msy [1; 0] [0; 1] = bil Msy [0; 1] [1; 0]) by (unfold bil, Msy; full2).
  assert (H7 : List.Forall (fun x => 1 / 1000 <= lightd Msy x [1; 0]) [[0; 0]; [1; 1]]).
  { constructor; [rewrite dsy_a; lra|]. constructor; [rewrite dsy_b; lra|constructor]. }
  split; [exact H1|]. split; [exact wf_Msy|]. split; [exact square_Msy|]. split; [exact sym_Msy|]. split; [reflexivity|].
  split; [exact H5|]. split; [exact H6|]. split; [exact H7|].
  apply light_gradient_is_the_derivative; try assumption; [exact wf_Msy|reflexivity].
Qed.

(* the same through the coordinate form, and with a masked centre through (c) *)
Example light_gradient_coord_ex :
  is_derive (fun s => fpred (laplace_light Msy 1 1) [[0; 0]; [1; 1]] [1; 2] (vaxpy s (basis 1 (length [1; 0])) [1; 0])) 0
            (nth 1 (grad_light Msy 1 1 (1 / 1000) [[0; 0]; [1; 1]] [1; 2] [1; 0]) 0).
Proof.
  apply light_gradient_is_the_derivative_coord; [lra|exact wf_Msy|exact square_Msy|exact sym_Msy|repeat constructor|].
  constructor; [rewrite dsy_a; lra|]. constructor; [rewrite dsy_b; lra|constructor].
Qed.

Definition Xl : list (list R) := [[0; 0]; [1; 0]].
Lemma dl_10 : lightd Msy [1; 0] [0; 0] = 1.
Proof. apply lightd_val; [lra|]. unfold light_sq, Msy. full2. Qed.

Example others_light_ex : others_light Msy (1 / 1000) [0; 0] Xl [1; 2] = ([[1; 0]], [2]).
Proof.
  unfold Xl. rewrite !others_light_cons. rewrite lightd_self, dl_10. cbn [others_light fst snd].
  destruct (Rle_dec (1 / 1000) 0) as [E|_]; [lra|]. destruct (Rle_dec (1 / 1000) 1) as [_|E]; [reflexivity|lra].
Qed.

Example light_masked_gradient_ex :
  is_derive (fun s => loo_pred_light Msy 1 1 (1 / 1000) Xl [1; 2] [0; 0] (vaxpy s (basis 0 (length [0; 0])) [0; 0])) 0
            (nth 0 (grad_light Msy 1 1 (1 / 1000) Xl [1; 2] [0; 0]) 0).
Proof.
  apply light_masked_gradient_is_leave_out_derivative_coord; [lra|exact wf_Msy|exact square_Msy|exact sym_Msy|].
  unfold Xl. repeat constructor.
Qed.

(* ====================================================================================================================== *)
(* (f) the accumulated feature matrix is the AGOP of the leave-out predictors *)

(* the family of gradients the AGOP step accumulates: the gradient at every training point (the same term as
   ScaleInvLight.gradsLight, restated here so that this file depends on committed files only) *)
Definition grads_light (t : tmat) (L q eps : R) (X : list (list R)) (a : list R) : list (list R) :=
  map (fun z => grad_light t L q eps X a z) X.

Lemma grads_light_length t L q eps X a : length (grads_light t L q eps X a) = length X.
Proof. unfold grads_light. apply map_length. Qed.

Lemma grads_light_nth t L q eps X a k : (k < length X)%nat ->
  nth k (grads_light t L q eps X a) [] = grad_light t L q eps X a (nth k X []).
Proof. intros Hk. unfold grads_light. apply (nth_map_nil (fun z => grad_light t L q eps X a z) []). exact Hk. Qed.

Lemma grads_light_row_is_leave_out_gradient t n L q eps X a k d : 0 < eps ->
  wf_tmat t n -> square_tmat t n -> sym_tmat t n ->
  List.Forall (fun x => length x = n) X -> (k < length X)%nat ->
  is_derive (fun s => loo_pred_light t L q eps X a (nth k X []) (vaxpy s (basis d n) (nth k X []))) 0
            (nth d (nth k (grads_light t L q eps X a) []) 0).
Proof.
  intros He Hw Hsq Hsy HX Hk. rewrite (grads_light_nth t L q eps X a k Hk).
  assert (Hin : In (nth k X []) X) by (apply nth_In; exact Hk).
  set (z := nth k X []) in *.
  assert (Hz : length z = n) by (rewrite Forall_forall in HX; apply HX; exact Hin).
  rewrite <- Hz. apply light_masked_gradient_is_leave_out_derivative_coord; rewrite ?Hz; try assumption.
Qed.

(* Several outputs: A lists one coefficient vector per output; the code accumulates the gradients of all outputs at all training
   points into one matrix.  D lists the derivative vectors output by output, point by point: D_(o * |X| + k) is the gradient at X_k
   of the leave-out predictor of output o.  NO hypothesis on the distances (the leave-out set is the mask), none on the
   coefficients, none on positive semi-definiteness; M is TNone, TDiag m, or a square symmetric TFull. *)
Theorem light_feature_matrix_is_the_agop_of_the_leave_out_predictor : forall t n L q eps X (A : list (list R)) i j, 0 < eps ->
  wf_tmat t n -> square_tmat t n -> sym_tmat t n ->
  List.Forall (fun x => length x = n) X ->
  exists D : list (list R),
    length D = (length A * length X)%nat /\
    (forall o k d, (o < length A)%nat -> (k < length X)%nat -> (d < n)%nat ->
       is_derive (fun s => loo_pred_light t L q eps X (nth o A []) (nth k X []) (vaxpy s (basis d n) (nth k X []))) 0
                 (nth d (nth (o * length X + k) D []) 0)) /\
    ment (agop_raw (concat (map (fun a => grads_light t L q eps X a) A))) i j
      = fold_right Rplus 0 (map (fun g => nth i g 0 * nth j g 0) D).
Proof.
  intros t n L q eps X A i j He Hw Hsq Hsy HX.
  assert (Hall : List.Forall (fun G : list (list R) => length G = length X) (map (fun a => grads_light t L q eps X a) A)).
  { apply Forall_forall. intros G HG. apply in_map_iff in HG. destruct HG as [a [<- _]]. apply grads_light_length. }
  exists (concat (map (fun a => grads_light t L q eps X a) A)). split; [|split].
  - rewrite (concat_length_uniform (length X) _ Hall), map_length. reflexivity.
  - intros o k d Ho Hk _.
    rewrite (nth_concat_uniform (length X) [] _ o k Hall Hk).
    rewrite (nth_map_nil (fun a => grads_light t L q eps X a) [] A o Ho).
    apply grads_light_row_is_leave_out_gradient; assumption.
  - apply agop_raw_entry_gen.
Qed.

(* single output *)
Corollary light_feature_matrix_is_the_agop_of_the_leave_out_predictor_single : forall t n L q eps X a i j, 0 < eps ->
  wf_tmat t n -> square_tmat t n -> sym_tmat t n ->
  List.Forall (fun x => length x = n) X ->
  exists D : list (list R),
    length D = length X /\
    (forall k d, (k < length X)%nat -> (d < n)%nat ->
       is_derive (fun s => loo_pred_light t L q eps X a (nth k X []) (vaxpy s (basis d n) (nth k X []))) 0 (nth d (nth k D []) 0)) /\
    ment (agop_raw (grads_light t L q eps X a)) i j = fold_right Rplus 0 (map (fun g => nth i g 0 * nth j g 0) D).
Proof.
  intros t n L q eps X a i j He Hw Hsq Hsy HX.
  exists (grads_light t L q eps X a). split; [apply grads_light_length|]. split.
  - intros k d Hk _. apply grads_light_row_is_leave_out_gradient; assumption.
  - apply agop_raw_entry_gen.
Qed.

(* the same entry as an explicit double sum over outputs and training points *)
Corollary light_feature_matrix_double_sum : forall t L q eps X (A : list (list R)) i j,
  ment (agop_raw (concat (map (fun a => grads_light t L q eps X a) A))) i j
  = fold_right Rplus 0 (map (fun a =>
      fold_right Rplus 0 (map (fun z => nth i (grad_light t L q eps X a z) 0 * nth j (grad_light t L q eps X a z) 0) X)) A).
Proof.
  intros t L q eps X A i j. rewrite agop_raw_entry_gen, sum_concat, map_map. f_equal. apply map_ext. intros a.
  unfold grads_light. rewrite map_map. reflexivity.
Qed.

(* instance: two outputs, the symmetric indefinite matrix, the two points of Xl (each leaves itself out) *)
Definition Al : list (list R) := [[1; 2]; [-1; 3]].
Example light_feature_matrix_ex : exists D : list (list R),
  length D = (length Al * length Xl)%nat /\
  (forall o k d, (o < length Al)%nat -> (k < length Xl)%nat -> (d < 2)%nat ->
     is_derive (fun s => loo_pred_light Msy 1 1 (1 / 1000) Xl (nth o Al []) (nth k Xl []) (vaxpy s (basis d 2) (nth k Xl []))) 0
               (nth d (nth (o * length Xl + k) D []) 0)) /\
  ment (agop_raw (concat (map (fun a => grads_light Msy 1 1 (1 / 1000) Xl a) Al))) 0 1
    = fold_right Rplus 0 (map (fun g => nth 0 g 0 * nth 1 g 0) D).
Proof.
  apply light_feature_matrix_is_the_agop_of_the_leave_out_predictor;
    [lra|exact wf_Msy|exact square_Msy|exact sym_Msy|unfold Xl; repeat constructor].
Qed.

Print Assumptions light_gradient_general.
Print Assumptions light_gradient_is_the_derivative.
Print Assumptions light_gradient_is_the_derivative_coord.
Print Assumptions light_coincident_center_contributes_zero.
Print Assumptions light_masked_gradient_is_leave_out_derivative.
Print Assumptions light_gradient_needs_symmetry.
Print Assumptions light_gradient_nonvacuous.
Print Assumptions light_feature_matrix_is_the_agop_of_the_leave_out_predictor.
