(* The Laplace-type kernels are PSD for EVERY exponent 0 < q <= 2 (and 0 < q <= p <= 2 for the lpq kernel),
   GIVEN Bernstein's integral representation of the power function r^a, 0 < a < 1 (premise `bernstein_all`, proved in PsdGeneral.v).

   Route: psi conditionally negative definite (cnd), symmetric, zero on the diagonal, non-negative  ==>  psi^a is cnd (0 < a <= 1),
   because 1 - exp (- s psi) is cnd for every s >= 0 (Schoenberg), cnd is closed under non-negative mixtures (integrals) and limits;
   then Schoenberg's theorem (PsdLaplaceL2.exp_neg_cnd_is_psd) gives the PSD of exp (- psi^a / L^q). *)
From Coq Require Import Reals List Lra Lia.
From Coquelicot Require Import Coquelicot.
Require Import XV.Real.Kernels XV.Real.PsdProduct XV.Real.PsdMore XV.Real.PsdLaplaceL2.
Import ListNotations.
Local Open Scope R_scope.

(* Bernstein's representation of the power function r^a (0 < a < 1), written with the substitution s = exp t:
   r^a = (1/C_a) * lim_N int_{-N}^{N} (1 - exp (- r e^t)) e^{- a t} dt.   It is PROVED in PsdGeneral.v (which imports this file);
   here it is only a named premise. *)
Definition bern_int (a r : R) (N : nat) : R :=
  RInt (fun t => (1 - exp (- (r * exp t))) * exp (- (a * t))) (- INR N) (INR N).
Definition bernstein_rep (a : R) : Prop :=
  exists C : R, 0 < C /\ forall r, 0 <= r -> is_lim_seq (fun N => / C * bern_int a r N) (pw r a).
Definition bernstein_all : Prop := forall a, 0 < a < 1 -> bernstein_rep a.

(* ====================================================================== *)
(* (A) closure properties of conditionally negative definite kernels      *)
(* ====================================================================== *)
Lemma cnd_ext k k' P : (forall u v, In u P -> In v P -> k u v = k' u v) -> cnd_set k P -> cnd_set k' P.
Proof.
  intros E H Q cs HQ Hl Hs. rewrite <- (qf_ext k k' Q cs); [apply H; assumption|].
  intros u v Hu Hv. apply E; apply HQ; assumption.
Qed.

Lemma cnd_incl k P Q : incl Q P -> cnd_set k P -> cnd_set k Q.
Proof. intros HI H Q' cs HQ' Hl Hs. apply H; try assumption. intros u Hu. apply HI, HQ', Hu. Qed.

Lemma cnd_sum k1 k2 P : cnd_set k1 P -> cnd_set k2 P -> cnd_set (fun u v => k1 u v + k2 u v) P.
Proof.
  intros H1 H2 Q cs HQ Hl Hs. rewrite (qf_plus k1 k2). pose proof (H1 Q cs HQ Hl Hs). pose proof (H2 Q cs HQ Hl Hs). lra.
Qed.

Lemma cnd_scale c k P : 0 <= c -> cnd_set k P -> cnd_set (fun u v => c * k u v) P.
Proof. intros Hc H Q cs HQ Hl Hs. rewrite (qf_scale c k). pose proof (H Q cs HQ Hl Hs). nra. Qed.

Lemma cnd_zero P : cnd_set (fun _ _ => 0) P.
Proof. intros Q cs _ _ _. rewrite qf_zero. lra. Qed.

Lemma lin_precomp (g : list R -> list R) k x : forall ys cs,
  lin (fun u v => k (g u) (g v)) x ys cs = lin k (g x) (map g ys) cs.
Proof. induction ys as [|y ys IH]; intros [|c cs]; cbn [lin map]; try reflexivity. rewrite IH. reflexivity. Qed.

Lemma qf_aux_precomp (g : list R -> list R) k all allc : forall xs cs,
  qf_aux (fun u v => k (g u) (g v)) all allc xs cs = qf_aux k (map g all) allc (map g xs) cs.
Proof. induction xs as [|x xs IH]; intros [|c cs]; cbn [qf_aux map]; try reflexivity. rewrite IH, lin_precomp. reflexivity. Qed.

Lemma qf_precomp (g : list R -> list R) k Q cs : qf (fun u v => k (g u) (g v)) Q cs = qf k (map g Q) cs.
Proof. apply qf_aux_precomp. Qed.

Lemma cnd_precomp (g : list R -> list R) k P : cnd_set k (map g P) -> cnd_set (fun u v => k (g u) (g v)) P.
Proof.
  intros H Q cs HQ Hl Hs. rewrite qf_precomp. apply H; [|rewrite map_length; exact Hl|exact Hs].
  intros u Hu. apply in_map_iff in Hu. destruct Hu as [x [<- Hx]]. apply in_map. apply HQ. exact Hx.
Qed.

Lemma cnd_lim (kN : nat -> list R -> list R -> R) (k : list R -> list R -> R) P :
  (forall N, cnd_set (kN N) P) ->
  (forall u v, In u P -> In v P -> is_lim_seq (fun N => kN N u v) (k u v)) ->
  cnd_set k P.
Proof.
  intros HN Hlim Q cs HQ Hl Hs.
  assert (HL : is_lim_seq (fun N => qf (kN N) Q cs) (qf k Q cs)).
  { unfold qf. apply qf_aux_lim. intros x y Hx Hy. apply Hlim; apply HQ; assumption. }
  exact (is_lim_seq_le (fun N => qf (kN N) Q cs) (fun _ => 0) (qf k Q cs) 0 (fun N => HN N Q cs HQ Hl Hs) HL (is_lim_seq_const 0)).
Qed.

(* Schoenberg, the other direction that is needed: 1 - exp (- s psi) is cnd *)
Lemma one_minus_exp_cnd psi P : sym_on psi P -> (forall u, In u P -> psi u u = 0) -> cnd_set psi P ->
  forall s, 0 <= s -> cnd_set (fun u v => 1 - exp (- (s * psi u v))) P.
Proof.
  intros Hsym H0 Hc s Hs Q cs HQ Hl Hsum.
  rewrite (qf_ext _ (fun u v => (fun _ => 1) u * (fun _ => 1) v + (- 1) * exp (- (s * psi u v)))) by (intros; ring).
  rewrite (qf_plus (fun u v => 1 * 1) (fun u v => - 1 * exp (- (s * psi u v)))).
  rewrite (qf_scale (- 1) (fun u v => exp (- (s * psi u v)))).
  rewrite (qf_rank1 (fun _ => 1) (fun _ => 1)), wsumf_one, Hsum by exact Hl.
  assert (H : 0 <= qf (fun u v => exp (- (s * psi u v))) Q cs).
  { apply (exp_neg_cnd_is_psd (fun u v => s * psi u v) Q cs).
    - intros u v Hu Hv. rewrite (Hsym u v) by (apply HQ; assumption). reflexivity.
    - intros u Hu. rewrite H0 by (apply HQ; exact Hu). ring.
    - apply (cnd_scale s psi Q Hs). apply (cnd_incl psi P Q HQ Hc). }
  lra.
Qed.

(* ====================================================================== *)
(* (B) powers 0 < a <= 1 of a cnd kernel are cnd                          *)
(* ====================================================================== *)
Lemma bern_integrand_cont a r t : continuous (fun t => (1 - exp (- (r * exp t))) * exp (- (a * t))) t.
Proof. apply (ex_derive_continuous (fun t => (1 - exp (- (r * exp t))) * exp (- (a * t)))). auto_derive. exact I. Qed.

Lemma INR_sym_le N : - INR N <= INR N.
Proof. pose proof (pos_INR N). lra. Qed.

Theorem cnd_power_from : bernstein_all -> forall psi P a, 0 < a <= 1 -> sym_on psi P -> (forall u, In u P -> psi u u = 0) ->
  (forall u v, In u P -> In v P -> 0 <= psi u v) -> cnd_set psi P -> cnd_set (fun u v => pw (psi u v) a) P.
Proof.
  intros HB psi P a [Ha0 Ha1] Hsym H0 Hnn Hc.
  destruct (Rle_lt_or_eq_dec a 1 Ha1) as [Hlt|Heq].
  2:{ subst a. apply (cnd_ext psi); [|exact Hc]. intros u v Hu Hv. symmetry. apply pw_one. apply Hnn; assumption. }
  destruct (HB a (conj Ha0 Hlt)) as [C [HC Hlim]].
  apply (cnd_lim (fun N u v => / C * bern_int a (psi u v) N)).
  2:{ intros u v Hu Hv. apply Hlim. apply Hnn; assumption. }
  intros N Q cs HQ Hl Hsum.
  rewrite (qf_scale (/ C) (fun u v => bern_int a (psi u v) N)).
  assert (HiC : 0 < / C) by (apply Rinv_0_lt_compat; exact HC).
  assert (H : qf (fun u v => bern_int a (psi u v) N) Q cs <= 0).
  { unfold bern_int.
    pose proof (qf_RInt (fun t u w => (1 - exp (- (psi u w * exp t))) * exp (- (a * t))) (- INR N) (INR N) Q cs) as HI.
    cbv beta in HI.
    assert (Hex : forall x y, In x Q -> In y Q ->
              ex_RInt (fun v => (1 - exp (- (psi x y * exp v))) * exp (- (a * v))) (- INR N) (INR N)).
    { intros x y _ _. apply ex_RInt_cont. intros z _. apply bern_integrand_cont. }
    specialize (HI Hex).
    apply (is_RInt_le _ _ (- INR N) (INR N) _ 0 (INR_sym_le N) HI (is_RInt_zero _ _)).
    intros t _.
    rewrite (qf_ext _ (fun u w => exp (- (a * t)) * (1 - exp (- (exp t * psi u w))))).
    2:{ intros u w _ _. rewrite (Rmult_comm (psi u w) (exp t)). ring. }
    rewrite (qf_scale (exp (- (a * t))) (fun u w => 1 - exp (- (exp t * psi u w)))).
    pose proof (one_minus_exp_cnd psi P Hsym H0 Hc (exp t) (Rlt_le _ _ (exp_pos t)) Q cs HQ Hl Hsum) as H1.
    pose proof (exp_pos (- (a * t))). nra. }
  nra.
Qed.

(* ====================================================================== *)
(* (C) the kernels                                                        *)
(* ====================================================================== *)
(* the hypotheses of Schoenberg's theorem plus non-negativity, packaged *)
Definition good (psi : list R -> list R -> R) (P : list (list R)) : Prop :=
  sym_on psi P /\ (forall u, In u P -> psi u u = 0) /\ (forall u v, In u P -> In v P -> 0 <= psi u v) /\ cnd_set psi P.

Lemma good_power_from : bernstein_all -> forall psi P a, 0 < a <= 1 -> good psi P -> good (fun u v => pw (psi u v) a) P.
Proof.
  intros HB psi P a Ha [Hs [H0 [Hn Hc]]]. repeat split.
  - intros u v Hu Hv. rewrite (Hs u v Hu Hv). reflexivity.
  - intros u Hu. rewrite (H0 u Hu). apply pw_0.
  - intros u v Hu Hv. apply pw_nonneg. apply Hn; assumption.
  - apply (cnd_power_from HB); assumption.
Qed.

Lemma good_precomp (g : list R -> list R) psi P : good psi (map g P) -> good (fun u v => psi (g u) (g v)) P.
Proof.
  intros [Hs [H0 [Hn Hc]]]. repeat split.
  - intros u v Hu Hv. apply Hs; apply in_map; assumption.
  - intros u Hu. apply H0. apply in_map. exact Hu.
  - intros u v Hu Hv. apply Hn; apply in_map; assumption.
  - apply cnd_precomp. exact Hc.
Qed.

Lemma good_incl psi P Q : incl Q P -> good psi P -> good psi Q.
Proof.
  intros HI [Hs [H0 [Hn Hc]]]. repeat split.
  - intros u v Hu Hv. apply Hs; apply HI; assumption.
  - intros u Hu. apply H0, HI, Hu.
  - intros u v Hu Hv. apply Hn; apply HI; assumption.
  - apply (cnd_incl psi P Q HI Hc).
Qed.

Lemma good_ext psi psi' P : (forall u v, In u P -> In v P -> psi u v = psi' u v) -> good psi P -> good psi' P.
Proof.
  intros E [Hs [H0 [Hn Hc]]]. repeat split.
  - intros u v Hu Hv. rewrite <- !E by assumption. apply Hs; assumption.
  - intros u Hu. rewrite <- E by assumption. apply H0. exact Hu.
  - intros u v Hu Hv. rewrite <- E by assumption. apply Hn; assumption.
  - apply (cnd_ext psi psi' P E Hc).
Qed.

(* Schoenberg with a positive scale: exp (- psi / Y) is PSD *)
Lemma good_psd psi P cs Y : 0 < Y -> good psi P -> 0 <= qf (fun u v => exp (- psi u v / Y)) P cs.
Proof.
  intros HY [Hs [H0 [_ Hc]]].
  rewrite (qf_ext _ (fun u v => exp (- (/ Y * psi u v)))) by (intros; f_equal; unfold Rdiv; ring).
  apply (exp_neg_cnd_is_psd (fun u v => / Y * psi u v) P cs).
  - intros u v Hu Hv. rewrite (Hs u v Hu Hv). reflexivity.
  - intros u Hu. rewrite (H0 u Hu). ring.
  - apply cnd_scale; [left; apply Rinv_0_lt_compat; exact HY|exact Hc].
Qed.

Lemma sqdist_good m P : List.Forall (fun u => length u = m) P -> good (fun u v => sumsq (vsubR u v)) P.
Proof.
  intros HP. repeat split.
  - intros u v _ _. apply sumsq_neg_sym.
  - intros u _. rewrite vsubR_self. apply sumsq_zeros.
  - intros u v _ _. apply sumsq_nonneg.
  - apply (sqdist_cnd m). exact HP.
Qed.

(* ---------- bridges between the powers ---------- *)
Lemma pw_sqrt s q : 0 <= s -> pw (sqrt s) q = pw s (q / 2).
Proof.
  intros Hs. destruct (Req_EM_T s 0) as [->|Hne].
  - rewrite sqrt_0, !pw_0. reflexivity.
  - assert (Hp : 0 < s) by lra. assert (Hq : 0 < sqrt s) by (apply sqrt_lt_R0; exact Hp).
    rewrite !pw_pos by assumption. rewrite <- (Rpower_sqrt s Hp), Rpower_mult. f_equal. field.
Qed.

Lemma pw_abs_sq x p : pw (Rabs x) p = pw (x * x) (p / 2).
Proof.
  rewrite <- (pw_sqrt (x * x)) by nra. f_equal. change (x * x) with (Rsqr x). symmetry. apply sqrt_Rsqr_abs.
Qed.

Lemma pw_pw S p q : 0 <= S -> pw (pw S (/ p)) q = pw S (q / p).
Proof.
  intros HS. destruct (Req_EM_T S 0) as [->|Hne]; [rewrite !pw_0; reflexivity|].
  assert (HS' : 0 < S) by lra. rewrite !(pw_pos S) by exact HS'. rewrite pw_pos by apply exp_pos.
  rewrite Rpower_mult. f_equal. unfold Rdiv. ring.
Qed.

Lemma transformed_length t d xs : wf_tmat t d -> List.Forall (fun x => length x = d) xs ->
  List.Forall (fun u => length u = tdim t d) (map (transform t) xs).
Proof.
  intros Hw Hd. rewrite Forall_forall in *. intros u Hu. apply in_map_iff in Hu. destruct Hu as [x [<- Hx]].
  apply transform_length; [exact Hw|apply Hd; exact Hx].
Qed.

Lemma transform_sub_on t d xs x z : wf_tmat t d -> List.Forall (fun x => length x = d) xs -> In x xs -> In z xs ->
  transform t (vsubR x z) = vsubR (transform t x) (transform t z).
Proof.
  intros Hw Hd Hx Hz. rewrite Forall_forall in Hd. pose proof (Hd x Hx) as Lx. pose proof (Hd z Hz) as Lz.
  symmetry. apply transform_sub; [lia|rewrite Lx; exact Hw].
Qed.

(* ---------- (i) the L2 Laplace kernel, every exponent 0 < q <= 2 ---------- *)
Theorem laplace_l2_psd_all_q_from : bernstein_all -> forall t L q (xs : list (list R)) (cs : list R) (d : nat),
  0 < q <= 2 -> 0 < L -> wf_tmat t d -> List.Forall (fun x => length x = d) xs -> 0 <= qf (closed_l2 t L q) xs cs.
Proof.
  intros HB t L q xs cs d Hq HL Hw Hd.
  assert (G0 : good (fun x z => sumsq (vsubR (transform t x) (transform t z))) xs).
  { apply (good_precomp (transform t) (fun u v => sumsq (vsubR u v))). apply (sqdist_good (tdim t d)).
    apply transformed_length; assumption. }
  pose proof (good_power_from HB _ xs (q / 2) ltac:(lra) G0) as G1.
  pose proof (good_psd _ xs cs (Rpower L q) ltac:(apply exp_pos) G1) as H.
  rewrite (qf_ext _ (fun x z => exp (- pw (sumsq (vsubR (transform t x) (transform t z))) (q / 2) / Rpower L q))); [exact H|].
  intros x z Hx Hz. unfold closed_l2, norm2. rewrite (transform_sub_on t d xs) by assumption.
  rewrite pw_sqrt by apply sumsq_nonneg. reflexivity.
Qed.

(* ---------- (ii) sum_d |u_d - v_d|^p is cnd for 0 < p <= 2; the product kernel ---------- *)
Lemma abs1d_cnd_from : bernstein_all -> forall (h : list R -> R) p P, 0 < p <= 2 ->
  cnd_set (fun u v => pw (Rabs (h u - h v)) p) P.
Proof.
  intros HB h p P Hp. pose (g := fun u : list R => [h u]).
  assert (G : good (fun u v => sumsq (vsubR (g u) (g v))) P).
  { apply (good_precomp g (fun u v => sumsq (vsubR u v))). apply (sqdist_good 1).
    rewrite Forall_forall. intros u Hu. apply in_map_iff in Hu. destruct Hu as [x [<- _]]. reflexivity. }
  destruct (good_power_from HB _ P (p / 2) ltac:(lra) G) as [_ [_ [_ Hc]]].
  revert Hc. apply cnd_ext. intros u v _ _. rewrite pw_abs_sq. f_equal. unfold g, sumsq, rsumR. cbn. ring.
Qed.

Lemma abs1d_good_from : bernstein_all -> forall (h : list R -> R) p P, 0 < p <= 2 ->
  good (fun u v => pw (Rabs (h u - h v)) p) P.
Proof.
  intros HB h p P Hp. repeat split.
  - intros u v _ _. rewrite Rabs_minus_sym. reflexivity.
  - intros u _. replace (h u - h u) with 0 by ring. rewrite Rabs_R0. apply pw_0.
  - intros u v _ _. apply pw_nonneg, Rabs_pos.
  - apply abs1d_cnd_from; assumption.
Qed.

Definition sap (p : R) (u v : list R) : R := sum_abs_pow p (vsubR u v).

Lemma sap_cons p a u b v : sap p (a :: u) (b :: v) = pw (Rabs (a - b)) p + sap p u v.
Proof. reflexivity. Qed.

Lemma sap_sym p : forall u v, sap p u v = sap p v u.
Proof.
  induction u as [|a u IH]; intros [|b v]; try reflexivity. rewrite !sap_cons, (IH v), Rabs_minus_sym. reflexivity.
Qed.

Lemma sap_diag p : forall u, sap p u u = 0.
Proof.
  induction u as [|a u IH]; [reflexivity|]. rewrite sap_cons, IH. replace (a - a) with 0 by ring. rewrite Rabs_R0, pw_0. ring.
Qed.

Lemma sap_cnd_from : bernstein_all -> forall p, 0 < p <= 2 ->
  forall (m : nat) (P : list (list R)), List.Forall (fun u => length u = m) P -> cnd_set (sap p) P.
Proof.
  intros HB p Hp. induction m as [|m IH]; intros P HP.
  - apply (cnd_ext (fun _ _ => 0)); [|apply cnd_zero].
    intros u v Hu Hv. rewrite Forall_forall in HP. apply HP in Hu. destruct u as [|a u]; [|discriminate]. reflexivity.
  - assert (HT : cnd_set (fun u v => sap p (tl u) (tl v)) P).
    { apply (cnd_precomp (@tl R) (sap p)). apply IH. rewrite Forall_forall in *. intros u' Hu'.
      apply in_map_iff in Hu'. destruct Hu' as [u [<- Hu]]. apply HP in Hu. destruct u as [|a u]; [discriminate|]. cbn in Hu. cbn [tl]. lia. }
    pose proof (cnd_sum (fun u v => pw (Rabs (hd 0 u - hd 0 v)) p) (fun u v => sap p (tl u) (tl v)) P
                  (abs1d_cnd_from HB (hd 0) p P Hp) HT) as HS.
    revert HS. apply cnd_ext.
    intros u v Hu Hv. rewrite Forall_forall in HP. pose proof (HP u Hu) as Lu. pose proof (HP v Hv) as Lv.
    destruct u as [|a u]; [discriminate|]. destruct v as [|b v]; [discriminate|]. reflexivity.
Qed.

Lemma sap_good_from : bernstein_all -> forall p m P, 0 < p <= 2 -> List.Forall (fun u => length u = m) P -> good (sap p) P.
Proof.
  intros HB p m P Hp HP. repeat split.
  - intros u v _ _. apply sap_sym.
  - intros u _. apply sap_diag.
  - intros u v _ _. apply sum_abs_pow_nonneg.
  - apply (sap_cnd_from HB p Hp m). exact HP.
Qed.

Theorem product_psd_all_q_from : bernstein_all -> forall t L q xs cs d,
  0 < q <= 2 -> 0 < L -> wf_tmat t d -> List.Forall (fun x => length x = d) xs -> 0 <= qf (closed_product t L q) xs cs.
Proof.
  intros HB t L q xs cs d Hq HL Hw Hd.
  assert (G0 : good (fun x z => sap q (transform t x) (transform t z)) xs).
  { apply (good_precomp (transform t) (sap q)). apply (sap_good_from HB q (tdim t d)); [exact Hq|].
    apply transformed_length; assumption. }
  pose proof (good_psd _ xs cs (Rpower L q) ltac:(apply exp_pos) G0) as H.
  rewrite (qf_ext _ (fun x z => exp (- sap q (transform t x) (transform t z) / Rpower L q))); [exact H|].
  intros x z Hx Hz. unfold closed_product, sap. rewrite (transform_sub_on t d xs) by assumption. reflexivity.
Qed.

(* ---------- (iii) the lpq kernel, 0 < q <= p <= 2 ---------- *)
Theorem lpq_psd_from : bernstein_all -> forall t L p q xs cs d,
  0 < q <= p -> p <= 2 -> 0 < L -> wf_tmat t d -> List.Forall (fun x => length x = d) xs -> 0 <= qf (closed_lpq t L p q) xs cs.
Proof.
  intros HB t L p q xs cs d Hq Hp2 HL Hw Hd.
  assert (Hp : 0 < p <= 2) by lra.
  assert (G0 : good (fun x z => sap p (transform t x) (transform t z)) xs).
  { apply (good_precomp (transform t) (sap p)). apply (sap_good_from HB p (tdim t d)); [exact Hp|].
    apply transformed_length; assumption. }
  assert (Ha : 0 < q / p <= 1).
  { split; [apply Rdiv_lt_0_compat; lra|]. apply (Rmult_le_reg_r p); [lra|]. unfold Rdiv. rewrite Rmult_assoc, Rinv_l by lra. lra. }
  pose proof (good_power_from HB _ xs (q / p) Ha G0) as G1.
  pose proof (good_psd _ xs cs (Rpower L q) ltac:(apply exp_pos) G1) as H.
  rewrite (qf_ext _ (fun x z => exp (- pw (sap p (transform t x) (transform t z)) (q / p) / Rpower L q))); [exact H|].
  intros x z Hx Hz. unfold closed_lpq, normp, sap. rewrite (transform_sub_on t d xs) by assumption.
  rewrite pw_pw by apply sum_abs_pow_nonneg. reflexivity.
Qed.

(* ---------- (iv) the sum-power kernel, every exponent 0 < q <= 2 ---------- *)
(* the one-dimensional kernel exp (- |h u - h v|^q / L^q) has a feature representation on every finite set of points *)
Lemma e1_has_rep_from : bernstein_all -> forall (h : list R -> R) L q P, 0 < q <= 2 ->
  has_rep (fun u v => exp (- pw (Rabs (h u - h v)) q / Rpower L q)) P.
Proof.
  intros HB h L q P Hq. apply psd_sym_has_rep.
  - intros u v _ _. rewrite Rabs_minus_sym. reflexivity.
  - intros Q cs _ _. apply (good_psd (fun u v => pw (Rabs (h u - h v)) q) Q cs (Rpower L q)); [apply exp_pos|].
    apply abs1d_good_from; assumption.
Qed.

Definition ksumq (L q : R) (u v : list R) : R := rsumR (map (fun w => exp (- pw (Rabs w) q / Rpower L q)) (vsubR u v)).

Lemma has_rep_ksumq_from : bernstein_all -> forall L q, 0 < q <= 2 ->
  forall (m : nat) (P : list (list R)), List.Forall (fun u => length u = m) P -> has_rep (ksumq L q) P.
Proof.
  intros HB L q Hq. induction m as [|m IH]; intros P HP.
  - apply (has_rep_ext (fun _ _ => 0)); [|apply has_rep_const; lra].
    intros u v Hu Hv. rewrite Forall_forall in HP. apply HP in Hu. destruct u as [|a u]; [|discriminate]. reflexivity.
  - assert (HT : has_rep (fun u v => ksumq L q (tl u) (tl v)) P).
    { apply (has_rep_precomp (@tl R) (ksumq L q)). apply IH. rewrite Forall_forall in *. intros u' Hu'.
      apply in_map_iff in Hu'. destruct Hu' as [u [<- Hu]]. apply HP in Hu. destruct u as [|a u]; [discriminate|]. cbn in Hu. cbn [tl]. lia. }
    pose proof (has_rep_sum (fun u v => exp (- pw (Rabs (hd 0 u - hd 0 v)) q / Rpower L q)) (fun u v => ksumq L q (tl u) (tl v)) P
                  (e1_has_rep_from HB (hd 0) L q P Hq) HT) as HS.
    revert HS. apply has_rep_ext.
    intros u v Hu Hv. rewrite Forall_forall in HP. pose proof (HP u Hu) as Lu. pose proof (HP v Hv) as Lv.
    destruct u as [|a u]; [discriminate|]. destruct v as [|b v]; [discriminate|]. reflexivity.
Qed.

Theorem sum_power_has_rep_all_q_from : bernstein_all -> forall t L q c (power : nat) (xs : list (list R)) (d : nat),
  0 < q <= 2 -> 0 < L -> 0 <= c <= 1 -> wf_tmat t d -> List.Forall (fun x => length x = d) xs ->
  has_rep (closed_sum_power t L q c power) xs.
Proof.
  intros HB t L q c power xs d Hq HL Hc Hw Hd.
  pose (pt := fun x : list R => transform t x). pose (m := tdim t d).
  assert (H1 : has_rep (fun x z => ksumq L q (pt x) (pt z)) xs).
  { apply (has_rep_precomp pt (ksumq L q)). apply (has_rep_ksumq_from HB L q Hq m). apply transformed_length; assumption. }
  assert (Ha : 0 <= (1 - c) * / INR m) by (apply Rmult_le_pos; [lra|apply Rinv_INR_nonneg]).
  pose proof (has_rep_scale ((1 - c) * / INR m) (fun x z => ksumq L q (pt x) (pt z)) xs Ha H1) as H2.
  pose proof (has_rep_sum (fun x z => (1 - c) * / INR m * ksumq L q (pt x) (pt z)) (fun _ _ => c) xs H2 (has_rep_const c xs (proj1 Hc))) as H3.
  pose proof (has_rep_pow (fun x z => (1 - c) * / INR m * ksumq L q (pt x) (pt z) + c) xs H3 power) as H4.
  revert H4. apply has_rep_ext.
  intros x z Hx Hz. rewrite Forall_forall in Hd. pose proof (Hd x Hx) as Lx. pose proof (Hd z Hz) as Lz.
  unfold closed_sum_power. cbn zeta. rewrite <- transform_sub by (try rewrite Lx; try assumption; lia).
  rewrite vsubR_length by (rewrite !(transform_length t d) by assumption; reflexivity).
  rewrite (transform_length t d) by assumption. fold m. unfold pt, ksumq. f_equal. unfold Rdiv. ring.
Qed.

Theorem sum_power_psd_all_q_from : bernstein_all -> forall t L q c (power : nat) xs cs d,
  0 < q <= 2 -> 0 < L -> 0 <= c <= 1 -> wf_tmat t d -> List.Forall (fun x => length x = d) xs ->
  0 <= qf (closed_sum_power t L q c power) xs cs.
Proof.
  intros HB t L q c power xs cs d Hq HL Hc Hw Hd. apply has_rep_qf_nonneg.
  apply (sum_power_has_rep_all_q_from HB t L q c power xs d); assumption.
Qed.

(* ---------- the op-sequence models ---------- *)
Theorem laplace_l2_op_psd_all_q_from : bernstein_all -> forall t L q (xs : list (list R)) (cs : list R) (d : nat),
  0 < q <= 2 -> 0 < L -> wf_tmat t d -> List.Forall (fun x => length x = d) xs -> 0 <= qf (laplace_l2 t L q) xs cs.
Proof.
  intros HB t L q xs cs d Hq HL Hw Hd.
  rewrite (qf_ext _ (closed_l2 t L q)); [apply (laplace_l2_psd_all_q_from HB t L q xs cs d); assumption|].
  intros x z Hx Hz. rewrite Forall_forall in Hd. pose proof (Hd x Hx) as Lx. pose proof (Hd z Hz) as Lz.
  apply laplace_l2_closed_form; [lia|rewrite Lx; exact Hw].
Qed.

Theorem laplace_product_op_psd_all_q_from : bernstein_all -> forall t L q (xs : list (list R)) (cs : list R) (d : nat),
  0 < q <= 2 -> 0 < L -> wf_tmat t d -> List.Forall (fun x => length x = d) xs -> 0 <= qf (laplace_product t L q) xs cs.
Proof.
  intros HB t L q xs cs d Hq HL Hw Hd.
  rewrite (qf_ext _ (closed_product t L q)); [apply (product_psd_all_q_from HB t L q xs cs d); assumption|].
  intros x z Hx Hz. rewrite Forall_forall in Hd. pose proof (Hd x Hx) as Lx. pose proof (Hd z Hz) as Lz.
  apply laplace_product_closed_form; [lra|lia|rewrite Lx; exact Hw].
Qed.

Theorem laplace_lpq_op_psd_from : bernstein_all -> forall t L p q (xs : list (list R)) (cs : list R) (d : nat),
  0 < q <= p -> p <= 2 -> 0 < L -> wf_tmat t d -> List.Forall (fun x => length x = d) xs -> 0 <= qf (laplace_lpq t L p q) xs cs.
Proof.
  intros HB t L p q xs cs d Hq Hp HL Hw Hd.
  rewrite (qf_ext _ (closed_lpq t L p q)); [apply (lpq_psd_from HB t L p q xs cs d); assumption|].
  intros x z Hx Hz. rewrite Forall_forall in Hd. pose proof (Hd x Hx) as Lx. pose proof (Hd z Hz) as Lz.
  apply laplace_lpq_closed_form; [lia|rewrite Lx; exact Hw].
Qed.

Theorem sum_power_op_psd_all_q_from : bernstein_all -> forall t L q c (power : nat) (xs : list (list R)) (cs : list R) (d : nat),
  0 < q <= 2 -> 0 < L -> 0 <= c <= 1 -> wf_tmat t d -> List.Forall (fun x => length x = d) xs ->
  0 <= qf (sum_power t L q c power) xs cs.
Proof.
  intros HB t L q c power xs cs d Hq HL Hc Hw Hd.
  rewrite (qf_ext _ (closed_sum_power t L q c power)); [apply (sum_power_psd_all_q_from HB t L q c power xs cs d); assumption|].
  intros x z Hx Hz. rewrite Forall_forall in Hd. pose proof (Hd x Hx) as Lx. pose proof (Hd z Hz) as Lz.
  apply sum_power_closed_form; [lia|rewrite Lx; exact Hw|]. rewrite !(transform_length t d) by assumption. reflexivity.
Qed.

Print Assumptions cnd_power_from.
Print Assumptions laplace_l2_psd_all_q_from.
Print Assumptions product_psd_all_q_from.
Print Assumptions lpq_psd_from.
Print Assumptions sum_power_psd_all_q_from.
Print Assumptions laplace_l2_op_psd_all_q_from.
Print Assumptions laplace_product_op_psd_all_q_from.
Print Assumptions laplace_lpq_op_psd_from.
Print Assumptions sum_power_op_psd_all_q_from.
