(* End-to-end real-valued statement for the soft-routed prediction of one tree (xrfm/xrfm.py, _predict_tree_soft):
     weights as coded (SoftOps.code_weights) -> truncation to a top-weighted active set -> renormalisation -> weighted aggregation,
   and its convergence to the hard-routed prediction as the temperature goes to 0+.
   The truncation is modelled RELATIONALLY (`active_ok`): the tie order of the sort and the exact cut (keep fraction, leaf cap) are
   left open; every result below holds for ANY admissible active set.  The executable Q-level version and its checker are in Model/Soft.v. *)
From Coq Require Import Reals List Lra Lia Bool QArith.
Require Import XV.Model.Tree XV.Model.Soft XV.Real.SoftReal XV.Real.Kernels XV.Real.SoftOps.
Import ListNotations.
Local Open Scope R_scope.

Notation rsum := XV.Real.SoftReal.rsum.
Notation wsum := XV.Real.SoftReal.wsum.

(* ---------- definitions (names fixed by the task) ---------- *)
Definition active_ok (w : list R) (act : list bool) : Prop :=             (* act marks the kept leaves *)
  length act = length w /\ (exists i, nth i act false = true) /\
  (forall i j, (i < length w)%nat -> (j < length w)%nat ->
     nth i act false = true -> nth j act false = false -> nth j w 0 <= nth i w 0).      (* top-weighted *)

Definition masked_w (w : list R) (act : list bool) : list R := map (fun p : R * bool => if snd p then fst p else 0) (combine w act).
Definition renorm (m : list R) : list R := map (fun x => x / rsum m) m.
Definition trunc_out (w : list R) (act : list bool) : list R := renorm (masked_w w act).
Definition soft_pred (out : list R) (vals : list R) : R := wsum out vals.       (* one output coordinate *)

(* ---------- sums of nonnegative lists ---------- *)
Lemma pos_nonneg l : Forall (fun x => 0 < x) l -> Forall (fun x => 0 <= x) l.
Proof. apply Forall_impl. intros a Ha. lra. Qed.

Lemma rsum_nonneg : forall w, Forall (fun x => 0 <= x) w -> 0 <= rsum w.
Proof. induction 1 as [|a w Ha Hw IH]; [unfold rsum; cbn; lra|]. rewrite rsum_cons. lra. Qed.

Lemma nth_le_rsum : forall w i, Forall (fun x => 0 <= x) w -> (i < length w)%nat -> nth i w 0 <= rsum w.
Proof.
  induction w as [|a w IH]; intros i Hn Hi; [cbn in Hi; lia|].
  inversion Hn as [|? ? Ha Hw]; subst. rewrite rsum_cons. pose proof (rsum_nonneg w Hw) as H0.
  destruct i as [|i]; cbn [nth]; [lra|]. cbn [length] in Hi. specialize (IH i Hw ltac:(lia)). lra.
Qed.

Lemma two_le_rsum : forall w i h, Forall (fun x => 0 <= x) w -> i <> h -> (i < length w)%nat -> (h < length w)%nat ->
  nth i w 0 + nth h w 0 <= rsum w.
Proof.
  induction w as [|a w IH]; intros i h Hn Hne Hi Hh; [cbn in Hi; lia|].
  inversion Hn as [|? ? Ha Hw]; subst. rewrite rsum_cons. cbn [length] in Hi, Hh.
  destruct i as [|i]; destruct h as [|h]; cbn [nth].
  - contradiction.
  - pose proof (nth_le_rsum w h Hw ltac:(lia)). lra.
  - pose proof (nth_le_rsum w i Hw ltac:(lia)). lra.
  - specialize (IH i h Hw ltac:(lia) ltac:(lia) ltac:(lia)). lra.
Qed.

Lemma rsum_div (s : R) : forall m, rsum (map (fun x => x / s) m) = rsum m / s.
Proof. unfold rsum. induction m as [|a m IH]; cbn [map fold_right]; [unfold Rdiv; lra|]. rewrite IH. unfold Rdiv. lra. Qed.

(* ---------- the masked weights ---------- *)
Lemma masked_cons a w b act : masked_w (a :: w) (b :: act) = (if b then a else 0) :: masked_w w act.
Proof. reflexivity. Qed.

Lemma nth_masked : forall w act i, length act = length w ->
  nth i (masked_w w act) 0 = if nth i act false then nth i w 0 else 0.
Proof.
  induction w as [|a w IH]; intros [|b act] i Hlen; try discriminate.
  - destruct i; reflexivity.
  - rewrite masked_cons. destruct i as [|i]; cbn [nth]; [reflexivity|]. apply IH. cbn in Hlen. lia.
Qed.

Lemma length_masked w act : length act = length w -> length (masked_w w act) = length w.
Proof. intros H. unfold masked_w. rewrite map_length, combine_length. lia. Qed.

Lemma masked_nonneg : forall w act, Forall (fun x => 0 <= x) w -> Forall (fun x => 0 <= x) (masked_w w act).
Proof.
  induction w as [|a w IH]; intros [|b act] Hn; try (constructor; fail).
  inversion Hn as [|? ? Ha Hw]; subst. rewrite masked_cons. constructor; [destruct b; lra|apply IH; exact Hw].
Qed.

Lemma masked_le_rsum : forall w act, Forall (fun x => 0 <= x) w -> rsum (masked_w w act) <= rsum w.
Proof.
  induction w as [|a w IH]; intros [|b act] Hn; try (unfold rsum; cbn; lra).
  - pose proof (rsum_nonneg _ Hn). unfold masked_w. cbn [combine map]. unfold rsum at 1. cbn [fold_right]. lra.
  - inversion Hn as [|? ? Ha Hw]; subst. rewrite masked_cons, !rsum_cons. specialize (IH act Hw). destruct b; lra.
Qed.

Lemma active_in_range (w : list R) (act : list bool) i : length act = length w -> nth i act false = true -> (i < length w)%nat.
Proof.
  intros Hlen Hi. destruct (lt_dec i (length act)) as [H|H]; [lia|].
  rewrite nth_overflow in Hi by lia. discriminate.
Qed.

Lemma masked_ge_active w act i : length act = length w -> Forall (fun x => 0 <= x) w -> nth i act false = true ->
  nth i w 0 <= rsum (masked_w w act).
Proof.
  intros Hlen Hn Hi. pose proof (active_in_range w act i Hlen Hi) as Hr.
  pose proof (nth_le_rsum (masked_w w act) i (masked_nonneg w act Hn)) as H.
  rewrite length_masked in H by exact Hlen. specialize (H Hr). rewrite nth_masked, Hi in H by exact Hlen. exact H.
Qed.

(* the kept mass is positive and at most the total mass *)
Lemma kept_mass_pos w act : Forall (fun x => 0 < x) w -> active_ok w act -> 0 < rsum (masked_w w act).
Proof.
  intros Hp (Hlen & (i & Hi) & _). pose proof (active_in_range w act i Hlen Hi) as Hr.
  pose proof (masked_ge_active w act i Hlen (pos_nonneg w Hp) Hi) as H.
  assert (0 < nth i w 0). { rewrite Forall_forall in Hp. apply Hp. apply nth_In. exact Hr. }
  lra.
Qed.

Lemma length_trunc_out w act : length act = length w -> length (trunc_out w act) = length w.
Proof. intros H. unfold trunc_out, renorm. rewrite map_length. apply length_masked. exact H. Qed.

Lemma nth_trunc_out w act i : length act = length w -> (i < length w)%nat ->
  nth i (trunc_out w act) 0 = (if nth i act false then nth i w 0 else 0) / rsum (masked_w w act).
Proof.
  intros Hlen Hi. unfold trunc_out, renorm.
  set (f := fun x => x / rsum (masked_w w act)).
  rewrite (nth_indep (map f (masked_w w act)) 0 (f 0)) by (rewrite map_length, length_masked by exact Hlen; exact Hi).
  rewrite map_nth. unfold f. rewrite nth_masked by exact Hlen. reflexivity.
Qed.

(* ---------- E1 : the truncated, renormalised weights form a probability distribution ---------- *)
Theorem trunc_out_distribution : forall w act, Forall (fun x => 0 < x) w -> active_ok w act ->
  Forall (fun x => 0 <= x) (trunc_out w act) /\ rsum (trunc_out w act) = 1.
Proof.
  intros w act Hp Hok. pose proof (kept_mass_pos w act Hp Hok) as HM. split.
  - apply Forall_forall. intros x Hx. unfold trunc_out, renorm in Hx. apply in_map_iff in Hx. destruct Hx as [y [<- Hy]].
    pose proof (masked_nonneg w act (pos_nonneg w Hp)) as Hn. rewrite Forall_forall in Hn. specialize (Hn y Hy).
    unfold Rdiv. apply Rmult_le_pos; [exact Hn|]. left. apply Rinv_0_lt_compat. exact HM.
  - unfold trunc_out, renorm. rewrite rsum_div. field. lra.
Qed.

(* ---------- E2 : an index of maximal weight is always active (up to ties) ---------- *)
Theorem trunc_out_keeps_a_maximal_leaf : forall w act, Forall (fun x => 0 < x) w -> active_ok w act ->
  forall h, (h < length w)%nat -> (forall j, (j < length w)%nat -> nth j w 0 <= nth h w 0) ->
  (nth h act false = true \/ exists h', nth h' act false = true /\ nth h' w 0 = nth h w 0).
Proof.
  intros w act Hp (Hlen & (i & Hi) & Htop) h Hh Hmax.
  destruct (nth h act false) eqn:Eh; [left; reflexivity|right].
  exists i. split; [exact Hi|]. pose proof (active_in_range w act i Hlen Hi) as Hr.
  pose proof (Htop i h Hr Hh Hi Eh). pose proof (Hmax i Hr). lra.
Qed.

(* ---------- E3 : renormalising by a mass <= 1 only increases the kept weights ---------- *)
Theorem trunc_out_ge : forall w act, Forall (fun x => 0 < x) w -> rsum w = 1 -> active_ok w act ->
  forall i, nth i act false = true -> (i < length w)%nat -> nth i w 0 <= nth i (trunc_out w act) 0.
Proof.
  intros w act Hp Hs Hok i Hi Hr. pose proof (kept_mass_pos w act Hp Hok) as HM.
  pose proof (masked_le_rsum w act (pos_nonneg w Hp)) as HM1. rewrite Hs in HM1.
  destruct Hok as (Hlen & _ & _). rewrite nth_trunc_out, Hi by assumption.
  assert (Hwi : 0 < nth i w 0). { rewrite Forall_forall in Hp. apply Hp. apply nth_In. exact Hr. }
  set (M := rsum (masked_w w act)) in *. set (a := nth i w 0) in *.
  apply Rmult_le_reg_r with (r := M); [exact HM|]. unfold Rdiv. rewrite Rmult_assoc, Rinv_l by lra. nra.
Qed.

(* ---------- E4 : the soft prediction lies in the hull of the leaf values ---------- *)
Lemma wsum_hull lo hi : forall out vals, length vals = length out -> Forall (fun x => 0 <= x) out ->
  (forall i, (i < length out)%nat -> lo <= nth i vals 0 <= hi) ->
  lo * rsum out <= wsum out vals <= hi * rsum out.
Proof.
  induction out as [|x out IH]; intros [|y vals] Hlen Hn Hb; try discriminate.
  - unfold wsum, rsum. cbn. lra.
  - inversion Hn as [|? ? Hx Hout]; subst. rewrite wsum_cons, rsum_cons.
    assert (Hy : lo <= y <= hi) by (apply (Hb 0%nat); cbn; lia).
    assert (IH' : lo * rsum out <= wsum out vals <= hi * rsum out).
    { apply IH; [cbn in Hlen; lia|exact Hout|]. intros i Hi. apply (Hb (S i)). cbn. lia. }
    assert (lo * x <= x * y) by nra. assert (x * y <= hi * x) by nra. lra.
Qed.

Theorem soft_pred_in_hull : forall w act vals lo hi, Forall (fun x => 0 < x) w -> active_ok w act ->
  length vals = length w -> (forall i, (i < length w)%nat -> lo <= nth i vals 0 <= hi) ->
  lo <= soft_pred (trunc_out w act) vals <= hi.
Proof.
  intros w act vals lo hi Hp Hok Hlen Hb. destruct (trunc_out_distribution w act Hp Hok) as [Hn Hs].
  assert (Hl : length (trunc_out w act) = length w) by (apply length_trunc_out; apply Hok).
  pose proof (wsum_hull lo hi (trunc_out w act) vals) as H. rewrite Hl, Hs in H.
  specialize (H Hlen Hn Hb). unfold soft_pred. lra.
Qed.

(* ---------- E5 : quantitative closeness to the dominant (hard-routed) leaf ---------- *)
(* a leaf carrying more than half of the mass is the unique maximum, hence active *)
Lemma majority_leaf_active : forall w act h, Forall (fun x => 0 < x) w -> rsum w = 1 -> active_ok w act ->
  (h < length w)%nat -> 1 / 2 < nth h w 0 -> nth h act false = true.
Proof.
  intros w act h Hp Hs (Hlen & (i & Hi) & Htop) Hh Hhalf.
  destruct (nth h act false) eqn:Eh; [reflexivity|exfalso].
  pose proof (active_in_range w act i Hlen Hi) as Hr.
  assert (Hne : i <> h) by (intros E; subst i; congruence).
  pose proof (Htop i h Hr Hh Hi Eh) as H1.
  pose proof (two_le_rsum w i h (pos_nonneg w Hp) Hne Hr Hh) as H2. lra.
Qed.

Theorem soft_pred_close_to_hard : forall w act vals h B, Forall (fun x => 0 < x) w -> rsum w = 1 -> active_ok w act ->
  length vals = length w -> (h < length w)%nat ->
  1 / 2 < nth h w 0 ->
  (forall i, (i < length w)%nat -> Rabs (nth i vals 0 - nth h vals 0) <= B) -> 0 <= B ->
  Rabs (soft_pred (trunc_out w act) vals - nth h vals 0) <= (1 - nth h w 0) * B.
Proof.
  intros w act vals h B Hp Hs Hok Hlen Hh Hhalf HB HB0.
  destruct (trunc_out_distribution w act Hp Hok) as [Hn Hs1].
  assert (Hl : length (trunc_out w act) = length w) by (apply length_trunc_out; apply Hok).
  pose proof (majority_leaf_active w act h Hp Hs Hok Hh Hhalf) as Hact.
  pose proof (trunc_out_ge w act Hp Hs Hok h Hact Hh) as Hge.
  pose proof (mixture_close_to_dominant (trunc_out w act) vals h B) as H. rewrite Hl in H.
  specialize (H (eq_sym Hlen) Hn Hs1 Hh HB). unfold soft_pred.
  eapply Rle_trans; [exact H|]. apply Rmult_le_compat_r; [exact HB0|]. lra.
Qed.

(* ---------- E6 : the tree instance; convergence of the soft prediction to the hard one as T -> 0+ ---------- *)
(* h = position of the hard-routed leaf among the leaves `paths T`, p its gate path of depth D = length p; every gate on p follows the sign of
   its logit (`consistent`) with |z_j| >= mu (mu = margin / T).  The bound holds for ANY admissible active set (any keep fraction, any cap). *)
Theorem soft_tree_pred_close_to_hard {L} : forall (tiny : R) (z : nat -> R) (T : tree L) (act : list bool) (vals : list R)
    (h : nat) (d : L * gpath) (mu B : R),
  tiny <= 1 -> 0 <= mu -> 0 <= B ->
  (forall mp, In mp (paths T) -> -50 <= path_logp z (snd mp)) ->
  let W := code_weights tiny (map (code_path_logp z) (map snd (paths T))) in
  let p := snd (nth h (paths T) d) in
  (h < length (paths T))%nat ->
  (forall g, In g p -> consistent z g /\ mu <= Rabs (z (fst g))) ->
  INR (length p) * exp (- mu) < 1 / 2 ->
  active_ok W act -> length vals = length (paths T) ->
  (forall i, (i < length (paths T))%nat -> Rabs (nth i vals 0 - nth h vals 0) <= B) ->
  Rabs (soft_pred (trunc_out W act) vals - nth h vals 0) <= INR (length p) * exp (- mu) * B.
Proof.
  intros tiny z T act vals h d mu B Ht Hmu HB0 Hlo W p Hh Hp Hsmall Hok Hlen HB.
  assert (EW : W = map (fun mp => path_prob z (snd mp)) (paths T)).
  { unfold W. apply code_weights_are_gate_products; assumption. }
  rewrite EW in *. clear EW W. set (W := map (fun mp : L * gpath => path_prob z (snd mp)) (paths T)) in *.
  assert (HWp : Forall (fun x => 0 < x) W).
  { apply Forall_forall. intros x Hx. apply in_map_iff in Hx. destruct Hx as [mp [<- _]]. apply path_prob_pos. }
  assert (HWs : rsum W = 1) by apply leaf_probs_sum_to_one.
  assert (HWl : length W = length (paths T)) by (unfold W; apply map_length).
  assert (HWh : nth h W 0 = path_prob z p).
  { unfold W. set (f := fun mp : L * gpath => path_prob z (snd mp)).
    rewrite (nth_indep (map f (paths T)) 0 (f d)) by (rewrite map_length; exact Hh). rewrite map_nth. reflexivity. }
  pose proof (hard_leaf_weight_bound z p mu Hmu Hp) as [Hplo Hphi].
  pose proof (soft_pred_close_to_hard W act vals h B HWp HWs Hok) as H. rewrite HWl, HWh in H.
  specialize (H Hlen Hh ltac:(lra) HB HB0).
  eapply Rle_trans; [exact H|]. apply Rmult_le_compat_r; [exact HB0|]. lra.
Qed.

(* the same, phrased via `route` / `hard_path` as SoftReal.hard_leaf_weight_tends_to_one: the hard-routed leaf of the row x is one of the
   leaves of `paths T`, and the soft prediction is within D * exp(-mu) * B of ITS value *)
Theorem soft_tree_pred_converges_to_route {L} : forall (tiny : R) (z : nat -> R) (T : tree L) (x : list Q) (d : L * gpath) (mu : R),
  tiny <= 1 -> 0 <= mu ->
  (forall mp, In mp (paths T) -> -50 <= path_logp z (snd mp)) ->
  logits_of z x T 0 ->
  (forall g, In g (hard_path T x 0) -> mu <= Rabs (z (fst g))) ->
  INR (length (hard_path T x 0)) * exp (- mu) < 1 / 2 ->
  exists h, (h < length (paths T))%nat /\ nth h (paths T) d = (route T x, hard_path T x 0) /\
    forall (act : list bool) (vals : list R) (B : R), 0 <= B ->
      active_ok (code_weights tiny (map (code_path_logp z) (map snd (paths T)))) act ->
      length vals = length (paths T) ->
      (forall i, (i < length (paths T))%nat -> Rabs (nth i vals 0 - nth h vals 0) <= B) ->
      Rabs (soft_pred (trunc_out (code_weights tiny (map (code_path_logp z) (map snd (paths T)))) act) vals - nth h vals 0)
        <= INR (length (hard_path T x 0)) * exp (- mu) * B.
Proof.
  intros tiny z T x d mu Ht Hmu Hlo Hz Hm Hsmall.
  destruct (hard_leaf_weight_tends_to_one z x T mu Hmu Hz Hm) as [Hin _].
  destruct (In_nth _ _ d Hin) as (h & Hh & Eh). exists h. split; [exact Hh|]. split; [exact Eh|].
  intros act vals B HB0 Hok Hlen HB.
  pose proof (soft_tree_pred_close_to_hard tiny z T act vals h d mu B Ht Hmu HB0 Hlo) as H. cbv zeta in H.
  rewrite Eh in H. cbn [snd] in H. apply H; try assumption.
  intros g Hg. split; [eapply hard_path_consistent; eassumption|apply Hm; exact Hg].
Qed.

(* ---------- when is the "-50" hypothesis met: a sufficient condition on the logits ---------- *)
Lemma logsigmoid_lower u : - (1 + Rabs u) <= logsigmoid u.
Proof.
  unfold logsigmoid, sigmoid. pose proof (exp_pos (- u)) as He. rewrite ln_Rinv by lra.
  assert (H1 : exp (- u) <= exp (Rabs u)).
  { assert (Hle : - u <= Rabs u) by (rewrite <- Rabs_Ropp; apply Rle_abs).
    destruct Hle as [Hlt|Heq]; [left; apply exp_increasing; exact Hlt|rewrite Heq; lra]. }
  assert (H2 : 1 <= exp (Rabs u)).
  { pose proof (Rabs_pos u) as [Hlt|Heq]; [left; rewrite <- exp_0; apply exp_increasing; exact Hlt|rewrite <- Heq, exp_0; lra]. }
  assert (H3 : 2 <= exp 1) by (pose proof (exp_ineq1 1 ltac:(lra)); lra).
  assert (H4 : 1 + exp (- u) <= exp (1 + Rabs u)) by (rewrite exp_plus; nra).
  assert (H5 : ln (1 + exp (- u)) <= 1 + Rabs u).
  { rewrite <- (ln_exp (1 + Rabs u)). destruct H4 as [Hlt|Heq]; [left; apply ln_increasing; lra|rewrite Heq; lra]. }
  lra.
Qed.

Lemma path_logp_lower z (Z : R) : forall p, (forall g, In g p -> Rabs (z (fst g)) <= Z) ->
  - (INR (length p) * (1 + Z)) <= path_logp z p.
Proof.
  induction p as [|g p IH]; intros H; unfold path_logp in *; cbn [fold_right length]; [cbn; lra|]. rewrite S_INR.
  specialize (IH (fun g' Hin => H g' (or_intror Hin))). specialize (H g (or_introl eq_refl)).
  pose proof (logsigmoid_lower (glogit z g)) as Hl.
  assert (Rabs (glogit z g) = Rabs (z (fst g))) as E by (unfold glogit; destruct (snd g); [apply Rabs_Ropp|reflexivity]).
  rewrite E in Hl. lra.
Qed.

(* ---------- examples: the hypotheses are satisfiable ---------- *)
Definition ex_w : list R := [6 / 10; 3 / 10; 1 / 10].
Definition ex_act : list bool := [true; true; false].

Example ex_active_ok : active_ok ex_w ex_act.
Proof.
  unfold active_ok, ex_w, ex_act. split; [reflexivity|]. split; [exists 0%nat; reflexivity|].
  intros i j Hi Hj. cbn [length] in Hi, Hj.
  destruct i as [|[|[|i]]]; destruct j as [|[|[|j]]]; cbn [nth]; intros Ha Hb; try discriminate; try lia; lra.
Qed.

Lemma ex_w_pos : Forall (fun x => 0 < x) ex_w.
Proof. unfold ex_w. repeat constructor; lra. Qed.
Lemma ex_w_sum : rsum ex_w = 1.
Proof. unfold ex_w, rsum. cbn [fold_right]. lra. Qed.

Example ex_trunc_out : trunc_out ex_w ex_act = [2 / 3; 1 / 3; 0].
Proof.
  unfold trunc_out, renorm, masked_w, ex_w, ex_act, rsum. cbn [combine map fst snd fold_right].
  f_equal; [|f_equal; [|f_equal]]; field.
Qed.

Example ex_distribution : Forall (fun x => 0 <= x) (trunc_out ex_w ex_act) /\ rsum (trunc_out ex_w ex_act) = 1.
Proof. apply trunc_out_distribution; [apply ex_w_pos|apply ex_active_ok]. Qed.

Example ex_maximal : nth 0 ex_act false = true \/ exists h', nth h' ex_act false = true /\ nth h' ex_w 0 = nth 0 ex_w 0.
Proof.
  apply (trunc_out_keeps_a_maximal_leaf ex_w ex_act ex_w_pos ex_active_ok 0%nat); [cbn; lia|].
  intros j Hj. unfold ex_w in *. cbn [length] in Hj. destruct j as [|[|[|j]]]; cbn [nth]; try lia; lra.
Qed.

Example ex_ge : nth 1 ex_w 0 <= nth 1 (trunc_out ex_w ex_act) 0.
Proof. apply trunc_out_ge; [apply ex_w_pos|apply ex_w_sum|apply ex_active_ok|reflexivity|cbn; lia]. Qed.

Example ex_hull : 1 <= soft_pred (trunc_out ex_w ex_act) [1; 2; 3] <= 3.
Proof.
  apply soft_pred_in_hull; [apply ex_w_pos|apply ex_active_ok|reflexivity|].
  intros i Hi. unfold ex_w in Hi. cbn [length] in Hi. destruct i as [|[|[|i]]]; cbn [nth]; try lia; lra.
Qed.

Example ex_close : Rabs (soft_pred (trunc_out ex_w ex_act) [1; 2; 3] - 1) <= (1 - 6 / 10) * 2.
Proof.
  apply (soft_pred_close_to_hard ex_w ex_act [1; 2; 3] 0%nat 2);
    [apply ex_w_pos|apply ex_w_sum|apply ex_active_ok|reflexivity|cbn; lia|cbn [nth ex_w]; lra| |lra].
  intros i Hi. unfold ex_w in Hi. cbn [length] in Hi.
  destruct i as [|[|[|i]]]; cbn [nth]; try lia; rewrite Rabs_right; lra.
Qed.

(* E6 on a two-leaf tree: one split with logit -3 (the row goes left, margin/T = 3), both leaves active *)
Example ex_tree :
  let T : tree nat := Node [1%Q] 0%Q (Leaf 7%nat) (Leaf 8%nat) in
  let z : nat -> R := fun _ => -3 in
  let W := code_weights (/ 1000) (map (code_path_logp z) (map snd (paths T))) in
  active_ok W [true; true] /\
  Rabs (soft_pred (trunc_out W [true; true]) [1; 2] - 1) <= 1 * exp (- 3) * 1.
Proof.
  intros T z W.
  assert (Hok : active_ok W [true; true]).
  { assert (HlW : length W = 2%nat) by (unfold W, code_weights; rewrite !map_length; reflexivity).
    split; [rewrite HlW; reflexivity|]. split; [exists 0%nat; reflexivity|].
    intros i j _ Hjl _ Hj. rewrite HlW in Hjl. destruct j as [|[|j]]; cbn [nth] in Hj; try discriminate. lia. }
  split; [exact Hok|].
  pose proof (soft_tree_pred_close_to_hard (/ 1000) z T [true; true] [1; 2] 0%nat (0%nat, []) 3 1) as H.
  cbv zeta in H. fold W in H.
  change (snd (nth 0 (paths T) (0%nat, []))) with [(0%nat, true)] in H. cbn [length INR nth] in H.
  apply H; try lra; try exact Hok; try reflexivity; try (cbn; lia).
  - intros mp Hin. eapply Rle_trans; [|apply (path_logp_lower z 3)].
    + unfold T, paths in Hin. cbn [paths_from app] in Hin. destruct Hin as [<-|[<-|[]]]; cbn [snd length INR]; lra.
    + intros g _. unfold z. rewrite Rabs_left by lra. lra.
  - intros g [<-|[]]. unfold consistent, z. cbn [fst snd]. split; [split; [intros _; lra|discriminate]|].
    rewrite Rabs_left by lra. lra.
  - rewrite exp_Ropp. pose proof (exp_ineq1 3 ltac:(lra)) as He.
    assert (/ exp 3 < / 4) by (apply Rinv_lt_contravar; nra). lra.
  - intros i Hi. unfold T, paths in Hi. cbn [paths_from app length] in Hi.
    destruct i as [|[|i]]; cbn [nth]; try lia; rewrite Rabs_right; lra.
Qed.

Print Assumptions trunc_out_distribution.
Print Assumptions trunc_out_keeps_a_maximal_leaf.
Print Assumptions trunc_out_ge.
Print Assumptions soft_pred_in_hull.
Print Assumptions soft_pred_close_to_hard.
Print Assumptions soft_tree_pred_close_to_hard.
Print Assumptions soft_tree_pred_converges_to_route.
