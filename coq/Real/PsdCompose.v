(* (A) exponent-2 (Gaussian) corollaries: product kernel, Lpq kernel with p = q = 2, sum-power kernel, closed forms and op sequences;
   (B) bridge between the two formulations of positive semi-definiteness (qf on point lists / qformR on Gram matrices)
       and composition with the ridge theorems: the leaf coefficients of the kernel ridge system are uniquely determined. *)
From Coq Require Import Reals List Lra Lia.
From Coquelicot Require Import Coquelicot.
Require Import XV.Real.Kernels XV.Real.PsdProduct XV.Real.PsdMore XV.Real.Ridge.
Import ListNotations.
Local Open Scope R_scope.

(* positive semi-definiteness on a list of points, in the quadratic-form formulation of PsdProduct *)
Definition psd_on (k : list R -> list R -> R) (P : list (list R)) : Prop := forall cs, 0 <= qf k P cs.

Lemma psd_on_ext k k' P : (forall u v, In u P -> In v P -> k u v = k' u v) -> psd_on k P -> psd_on k' P.
Proof. intros E H cs. rewrite <- (qf_ext k k' P cs E). apply H. Qed.

Lemma has_rep_psd_on k P : has_rep k P -> psd_on k P.
Proof. intros H cs. apply has_rep_qf_nonneg. exact H. Qed.

(* ====================================================================== *)
(* (A) exponent 2                                                         *)
(* ====================================================================== *)
Lemma pw_abs_2 u : pw (Rabs u) 2 = u * u.
Proof.
  unfold pw. destruct (Req_EM_T (Rabs u) 0) as [E|NE].
  - destruct (Req_dec u 0) as [->|Hn]; [ring|]. apply Rabs_no_R0 in Hn. contradiction.
  - assert (Hp : 0 < Rabs u) by (pose proof (Rabs_pos u); lra).
    rewrite Rpower_2 by exact Hp. rewrite <- Rabs_mult. apply Rabs_pos_eq. nra.
Qed.

Lemma sum_abs_pow_2 a : sum_abs_pow 2 a = sumsq a.
Proof. unfold sum_abs_pow, sumsq. f_equal. apply map_ext. intros u. apply pw_abs_2. Qed.

(* the product kernel with exponent 2 IS the L2 kernel with exponent 2 (no hypothesis) *)
Theorem closed_product_q2 t L x z : closed_product t L 2 x z = closed_l2 t L 2 x z.
Proof. unfold closed_product, closed_l2. rewrite sum_abs_pow_2, pw_norm2_sq. reflexivity. Qed.

(* the Lpq kernel with p = q = 2 IS the product kernel with exponent 2 (no hypothesis) *)
Theorem closed_lpq_p2_q2 t L x z : closed_lpq t L 2 2 x z = closed_l2 t L 2 x z.
Proof.
  rewrite <- closed_product_q2. unfold closed_lpq, closed_product, normp.
  rewrite pw_root_pow by (try apply sum_abs_pow_nonneg; lra). reflexivity.
Qed.

Section Exponent2.
  Variables (t : tmat) (L : R) (xs : list (list R)) (d : nat).
  Hypothesis HL : 0 < L.
  Hypothesis Hw : wf_tmat t d.
  Hypothesis Hd : List.Forall (fun x => length x = d) xs.

  Lemma pair_ok x z : In x xs -> In z xs -> length x = length z /\ wf_tmat t (length x).
  Proof.
    intros Hx Hz. rewrite Forall_forall in Hd. pose proof (Hd x Hx) as Lx. pose proof (Hd z Hz) as Lz.
    split; [lia|rewrite Lx; exact Hw].
  Qed.

  Theorem l2_q2_psd_on : psd_on (closed_l2 t L 2) xs.
  Proof. intros cs. apply (gaussian_psd t L xs cs d); assumption. Qed.

  Theorem laplace_l2_q2_psd_on : psd_on (laplace_l2 t L 2) xs.
  Proof. intros cs. apply (laplace_l2_q2_psd t L xs cs d); assumption. Qed.

  Theorem product_q2_psd_on : psd_on (closed_product t L 2) xs.
  Proof. apply (psd_on_ext (closed_l2 t L 2)); [|exact l2_q2_psd_on]. intros u v _ _. symmetry. apply closed_product_q2. Qed.

  Theorem laplace_product_q2_psd_on : psd_on (laplace_product t L 2) xs.
  Proof.
    apply (psd_on_ext (closed_product t L 2)); [|exact product_q2_psd_on].
    intros u v Hu Hv. destruct (pair_ok u v Hu Hv) as [H1 H2]. symmetry. apply laplace_product_closed_form; [lra|exact H1|exact H2].
  Qed.

  Theorem lpq_p2_q2_psd_on : psd_on (closed_lpq t L 2 2) xs.
  Proof. apply (psd_on_ext (closed_l2 t L 2)); [|exact l2_q2_psd_on]. intros u v _ _. symmetry. apply closed_lpq_p2_q2. Qed.

  Theorem laplace_lpq_p2_q2_psd_on : psd_on (laplace_lpq t L 2 2) xs.
  Proof.
    apply (psd_on_ext (closed_lpq t L 2 2)); [|exact lpq_p2_q2_psd_on].
    intros u v Hu Hv. destruct (pair_ok u v Hu Hv) as [H1 H2]. symmetry. apply laplace_lpq_closed_form; [exact H1|exact H2].
  Qed.
End Exponent2.

Theorem product_q2_psd : forall t L (xs : list (list R)) (cs : list R) (d : nat),
  0 < L -> wf_tmat t d -> List.Forall (fun x => length x = d) xs -> 0 <= qf (closed_product t L 2) xs cs.
Proof. intros t L xs cs d HL Hw Hd. apply (product_q2_psd_on t L xs d); assumption. Qed.

Theorem laplace_product_q2_psd : forall t L (xs : list (list R)) (cs : list R) (d : nat),
  0 < L -> wf_tmat t d -> List.Forall (fun x => length x = d) xs -> 0 <= qf (laplace_product t L 2) xs cs.
Proof. intros t L xs cs d HL Hw Hd. apply (laplace_product_q2_psd_on t L xs d); assumption. Qed.

Theorem lpq_p2_q2_psd : forall t L (xs : list (list R)) (cs : list R) (d : nat),
  0 < L -> wf_tmat t d -> List.Forall (fun x => length x = d) xs -> 0 <= qf (closed_lpq t L 2 2) xs cs.
Proof. intros t L xs cs d HL Hw Hd. apply (lpq_p2_q2_psd_on t L xs d); assumption. Qed.

Theorem laplace_lpq_p2_q2_psd : forall t L (xs : list (list R)) (cs : list R) (d : nat),
  0 < L -> wf_tmat t d -> List.Forall (fun x => length x = d) xs -> 0 <= qf (laplace_lpq t L 2 2) xs cs.
Proof. intros t L xs cs d HL Hw Hd. apply (laplace_lpq_p2_q2_psd_on t L xs d); assumption. Qed.

(* ---------- the sum-power kernel with exponent 2 ---------- *)
(* one-dimensional Gaussian: Taylor approximants with a representation, and their limit *)
Definition g1N (N : nat) (a b : R) : R := exp (- (a * a)) * exp (- (b * b)) * expS (2 * (a * b)) N.

Lemma g1N_lim a b : is_lim_seq (fun N => g1N N a b) (exp (- ((a - b) * (a - b)))).
Proof.
  replace (exp (- ((a - b) * (a - b)))) with (exp (- (a * a)) * exp (- (b * b)) * exp (2 * (a * b)))
    by (rewrite <- !exp_plus; f_equal; ring).
  unfold g1N. apply is_lim_seq_mult'; [apply is_lim_seq_const|apply expS_lim].
Qed.

Lemma has_rep_g1N N (h : list R -> R) P : has_rep (fun u v => g1N N (h u) (h v)) P.
Proof.
  pose proof (has_rep_scale 2 (fun u v => h u * h v) P ltac:(lra) (has_rep_rank1 h P)) as H2.
  pose proof (has_rep_expS (fun u v => 2 * (h u * h v)) P H2 N) as H3.
  exact (has_rep_mul (fun u v => exp (- (h u * h u)) * exp (- (h v * h v))) (fun u v => expS (2 * (h u * h v)) N) P
           (has_rep_rank1 (fun u => exp (- (h u * h u))) P) H3).
Qed.

(* sum over the coordinates of the one-dimensional Gaussians, and of their approximants *)
Definition ksum2 (u v : list R) : R := rsumR (map (fun w => exp (- (w * w))) (vsubR u v)).
Fixpoint ksumN (N : nat) (u v : list R) : R :=
  match u, v with a :: u', b :: v' => g1N N a b + ksumN N u' v' | _, _ => 0 end.

Lemma ksumN_lim : forall u v, is_lim_seq (fun N => ksumN N u v) (ksum2 u v).
Proof.
  unfold ksum2, rsumR. induction u as [|a u IH]; intros [|b v]; cbn [ksumN vsubR map fold_right]; try apply is_lim_seq_const.
  apply is_lim_seq_plus'; [apply g1N_lim|apply IH].
Qed.

Lemma has_rep_ksumN N : forall (m : nat) (P : list (list R)), List.Forall (fun u => length u = m) P -> has_rep (ksumN N) P.
Proof.
  induction m as [|m IH]; intros P HP.
  - apply (has_rep_ext (fun _ _ => 0)); [|apply has_rep_const; lra].
    intros u v Hu Hv. rewrite Forall_forall in HP. apply HP in Hu. destruct u as [|a u]; [|discriminate]. reflexivity.
  - assert (HT : has_rep (fun u v => ksumN N (tl u) (tl v)) P).
    { apply (has_rep_precomp (@tl R) (ksumN N)). apply IH. rewrite Forall_forall in *. intros u' Hu'.
      apply in_map_iff in Hu'. destruct Hu' as [u [<- Hu]]. apply HP in Hu. destruct u as [|a u]; [discriminate|]. cbn in Hu. cbn [tl]. lia. }
    pose proof (has_rep_sum (fun u v => g1N N (hd 0 u) (hd 0 v)) (fun u v => ksumN N (tl u) (tl v)) P (has_rep_g1N N (hd 0) P) HT) as HS.
    revert HS. apply has_rep_ext.
    intros u v Hu Hv. rewrite Forall_forall in HP. pose proof (HP u Hu) as Lu. pose proof (HP v Hv) as Lv.
    destruct u as [|a u]; [discriminate|]. destruct v as [|b v]; [discriminate|]. reflexivity.
Qed.

Lemma is_lim_seq_pow_nat (u : nat -> R) (l : R) (p : nat) : is_lim_seq u l -> is_lim_seq (fun n => u n ^ p) (l ^ p).
Proof.
  intros H. induction p as [|p IH]; cbn [pow]; [apply is_lim_seq_const|]. apply is_lim_seq_mult'; assumption.
Qed.

Lemma sum_power_q2_scaled L : 0 < L -> forall a b,
  rsumR (map (fun u => exp (- pw (Rabs u) 2 / Rpower L 2)) (vsubR a b)) = ksum2 (vscaleR (/ L) a) (vscaleR (/ L) b).
Proof.
  intros HL. unfold ksum2, rsumR, vscaleR.
  induction a as [|x a IH]; intros [|y b]; cbn [vsubR map fold_right]; try reflexivity.
  rewrite <- IH. f_equal. f_equal. rewrite pw_abs_2, Rpower_2 by exact HL. field. lra.
Qed.

Lemma closed_sum_power_q2_as t L c power x z m : 0 < L -> length x = length z -> wf_tmat t (length x) ->
  length (transform t x) = m -> length (transform t z) = m ->
  closed_sum_power t L 2 c power x z =
  ((1 - c) * / INR m * ksum2 (vscaleR (/ L) (transform t x)) (vscaleR (/ L) (transform t z)) + c) ^ power.
Proof.
  intros HL Hl Hw Hx Hz. unfold closed_sum_power. cbn zeta. rewrite <- transform_sub by assumption.
  rewrite vsubR_length by (rewrite Hx, Hz; reflexivity). rewrite Hx.
  rewrite sum_power_q2_scaled by exact HL. f_equal. unfold Rdiv. ring.
Qed.

Theorem sum_power_q2_psd : forall t L c (power : nat) (xs : list (list R)) (cs : list R) (d : nat),
  0 < L -> 0 <= c <= 1 -> wf_tmat t d -> List.Forall (fun x => length x = d) xs ->
  0 <= qf (closed_sum_power t L 2 c power) xs cs.
Proof.
  intros t L c power xs cs d HL Hc Hw Hd.
  pose (pt := fun x : list R => vscaleR (/ L) (transform t x)). pose (m := tdim t d).
  assert (Ha : 0 <= (1 - c) * / INR m) by (apply Rmult_le_pos; [lra|apply Rinv_INR_nonneg]).
  apply (psd_lim (fun N x z => ((1 - c) * / INR m * ksumN N (pt x) (pt z) + c) ^ power)).
  - intros N. apply has_rep_qf_nonneg.
    assert (H1 : has_rep (fun x z => ksumN N (pt x) (pt z)) xs).
    { apply (has_rep_precomp pt (ksumN N)). apply (has_rep_ksumN N m). rewrite Forall_forall in *. intros u Hu.
      apply in_map_iff in Hu. destruct Hu as [x [<- Hx]]. unfold pt, vscaleR. rewrite map_length.
      apply transform_length; [exact Hw|apply Hd; exact Hx]. }
    pose proof (has_rep_scale ((1 - c) * / INR m) (fun x z => ksumN N (pt x) (pt z)) xs Ha H1) as H2.
    pose proof (has_rep_sum (fun x z => (1 - c) * / INR m * ksumN N (pt x) (pt z)) (fun _ _ => c) xs H2 (has_rep_const c xs (proj1 Hc))) as H3.
    exact (has_rep_pow (fun x z => (1 - c) * / INR m * ksumN N (pt x) (pt z) + c) xs H3 power).
  - intros x z Hx Hz. rewrite Forall_forall in Hd. pose proof (Hd x Hx) as Lx. pose proof (Hd z Hz) as Lz.
    rewrite (closed_sum_power_q2_as t L c power x z m); [|exact HL|lia|rewrite Lx; exact Hw|apply transform_length; assumption|apply transform_length; assumption].
    fold (pt x) (pt z). apply is_lim_seq_pow_nat. apply is_lim_seq_plus'; [|apply is_lim_seq_const].
    apply is_lim_seq_mult'; [apply is_lim_seq_const|apply ksumN_lim].
Qed.

Theorem sum_power_op_q2_psd : forall t L c (power : nat) (xs : list (list R)) (cs : list R) (d : nat),
  0 < L -> 0 <= c <= 1 -> wf_tmat t d -> List.Forall (fun x => length x = d) xs ->
  0 <= qf (sum_power t L 2 c power) xs cs.
Proof.
  intros t L c power xs cs d HL Hc Hw Hd.
  rewrite (qf_ext (sum_power t L 2 c power) (closed_sum_power t L 2 c power)); [apply (sum_power_q2_psd t L c power xs cs d); assumption|].
  intros x z Hx Hz. rewrite Forall_forall in Hd. pose proof (Hd x Hx) as Lx. pose proof (Hd z Hz) as Lz.
  apply sum_power_closed_form; [lia|rewrite Lx; exact Hw|]. rewrite !(transform_length t d) by assumption. reflexivity.
Qed.

(* ====================================================================== *)
(* (B) Gram matrices: qf on point lists = qformR on the Gram matrix        *)
(* ====================================================================== *)
Definition gram (k : list R -> list R -> R) (xs : list (list R)) : list (list R) := map (fun x => map (k x) xs) xs.

Lemma gram_square k xs : square (length xs) (gram k xs).
Proof.
  unfold square, gram. split; [apply map_length|]. apply Forall_forall. intros r Hr.
  apply in_map_iff in Hr. destruct Hr as [x [<- _]]. apply map_length.
Qed.

Lemma lin_as_dot k x : forall ys cs, lin k x ys cs = vdotR (map (k x) ys) cs.
Proof.
  induction ys as [|y ys IH]; intros cs; [reflexivity|]. destruct cs as [|c cs]; [reflexivity|].
  cbn [lin map vdotR]. rewrite IH. ring.
Qed.

Lemma qf_aux_as_dot k all allc : forall xs cs,
  qf_aux k all allc xs cs = vdotR cs (map (fun x => vdotR (map (k x) all) allc) xs).
Proof.
  induction xs as [|x xs IH]; intros cs.
  - destruct cs; reflexivity.
  - destruct cs as [|c cs]; [reflexivity|]. cbn [qf_aux map vdotR]. rewrite IH, lin_as_dot. reflexivity.
Qed.

(* holds for coefficient lists of any length (both sides truncate in the same way); in particular when length cs = length xs *)
Theorem qformR_gram k xs cs : qformR (gram k xs) cs = qf k xs cs.
Proof.
  unfold qformR, mvR, gram, qf. rewrite map_map. symmetry. apply qf_aux_as_dot.
Qed.

Theorem psd_on_psdR k xs : psd_on k xs -> psdR (length xs) (gram k xs).
Proof. intros H v _. rewrite qformR_gram. apply H. Qed.

Theorem psdR_psd_on k xs : psdR (length xs) (gram k xs) -> forall cs, length cs = length xs -> 0 <= qf k xs cs.
Proof. intros H cs Hcs. rewrite <- qformR_gram. apply H. exact Hcs. Qed.

Theorem has_rep_psdR k xs : has_rep k xs -> psdR (length xs) (gram k xs).
Proof. intros H. apply psd_on_psdR. apply has_rep_psd_on. exact H. Qed.

(* ---------- composition with the ridge theorems ---------- *)
Theorem ridge_unique_of_psd k xs reg a b : psd_on k xs -> 0 < reg -> length a = length xs -> length b = length xs ->
  mvR (add_diagR reg (gram k xs)) a = mvR (add_diagR reg (gram k xs)) b -> a = b.
Proof.
  intros Hp Hreg Ha Hb E. apply (ridge_unique (length xs) reg (gram k xs)); try assumption; [apply gram_square|apply psd_on_psdR; exact Hp].
Qed.

Theorem ridge_unique_of_rep k xs reg a b : has_rep k xs -> 0 < reg -> length a = length xs -> length b = length xs ->
  mvR (add_diagR reg (gram k xs)) a = mvR (add_diagR reg (gram k xs)) b -> a = b.
Proof. intros H. apply ridge_unique_of_psd. apply has_rep_psd_on. exact H. Qed.

(* multi-output version: the whole coefficient matrix (given by its columns) is determined by the targets *)
Theorem solves_unique_of_psd k xs reg A B ys : psd_on k xs -> 0 < reg ->
  List.Forall (fun a => length a = length xs) A -> List.Forall (fun b => length b = length xs) B ->
  solves reg (gram k xs) A ys -> solves reg (gram k xs) B ys -> A = B.
Proof.
  intros Hp Hreg HA HB SA SB. apply (solves_unique (length xs) reg (gram k xs) A B ys); try assumption; [apply gram_square|apply psd_on_psdR; exact Hp].
Qed.

Theorem solves_unique_of_rep k xs reg A B ys : has_rep k xs -> 0 < reg ->
  List.Forall (fun a => length a = length xs) A -> List.Forall (fun b => length b = length xs) B ->
  solves reg (gram k xs) A ys -> solves reg (gram k xs) B ys -> A = B.
Proof. intros H. apply solves_unique_of_psd. apply has_rep_psd_on. exact H. Qed.

(* the residual bound of Ridge for kernel Gram matrices: |a - b| <= |residual| / reg *)
Theorem residual_bound_norm_of_psd k xs reg a b : psd_on k xs -> 0 < reg -> length a = length xs -> length b = length xs ->
  let K := gram k xs in
  let dd := vsubR a b in
  let r := vsubR (mvR (add_diagR reg K) a) (mvR (add_diagR reg K) b) in
  sqrt (vdotR dd dd) <= sqrt (vdotR r r) / reg.
Proof.
  intros Hp Hreg Ha Hb. apply (residual_bound_norm (length xs) reg (gram k xs) a b); try assumption; [apply gram_square|apply psd_on_psdR; exact Hp].
Qed.

(* ---------- the kernel families of the code (op-sequence models) ---------- *)
Section RidgeFamilies.
  Variables (t : tmat) (L reg : R) (xs : list (list R)) (d : nat) (a b : list R).
  Hypothesis HL : 0 < L.
  Hypothesis Hw : wf_tmat t d.
  Hypothesis Hd : List.Forall (fun x => length x = d) xs.
  Hypothesis Hreg : 0 < reg.
  Hypothesis Ha : length a = length xs.
  Hypothesis Hb : length b = length xs.

  Theorem ridge_unique_product_q1 :
    mvR (add_diagR reg (gram (laplace_product t L 1) xs)) a = mvR (add_diagR reg (gram (laplace_product t L 1) xs)) b -> a = b.
  Proof. apply ridge_unique_of_rep; try assumption. apply (laplace_product_has_rep t L xs d); assumption. Qed.

  Theorem ridge_unique_lpq_p1_q1 :
    mvR (add_diagR reg (gram (laplace_lpq t L 1 1) xs)) a = mvR (add_diagR reg (gram (laplace_lpq t L 1 1) xs)) b -> a = b.
  Proof. apply ridge_unique_of_rep; try assumption. apply (laplace_lpq_p1_q1_has_rep t L xs d); assumption. Qed.

  Theorem ridge_unique_sum_power_q1 c (power : nat) : 0 <= c <= 1 ->
    mvR (add_diagR reg (gram (sum_power t L 1 c power) xs)) a = mvR (add_diagR reg (gram (sum_power t L 1 c power) xs)) b -> a = b.
  Proof. intros Hc. apply ridge_unique_of_rep; try assumption. apply (sum_power_op_q1_has_rep t L c power xs d); assumption. Qed.

  Theorem ridge_unique_l2_q2 :
    mvR (add_diagR reg (gram (laplace_l2 t L 2) xs)) a = mvR (add_diagR reg (gram (laplace_l2 t L 2) xs)) b -> a = b.
  Proof. apply ridge_unique_of_psd; try assumption. apply (laplace_l2_q2_psd_on t L xs d); assumption. Qed.

  (* the other exponent-2 families *)
  Theorem ridge_unique_product_q2 :
    mvR (add_diagR reg (gram (laplace_product t L 2) xs)) a = mvR (add_diagR reg (gram (laplace_product t L 2) xs)) b -> a = b.
  Proof. apply ridge_unique_of_psd; try assumption. apply (laplace_product_q2_psd_on t L xs d); assumption. Qed.

  Theorem ridge_unique_lpq_p2_q2 :
    mvR (add_diagR reg (gram (laplace_lpq t L 2 2) xs)) a = mvR (add_diagR reg (gram (laplace_lpq t L 2 2) xs)) b -> a = b.
  Proof. apply ridge_unique_of_psd; try assumption. apply (laplace_lpq_p2_q2_psd_on t L xs d); assumption. Qed.

  Theorem ridge_unique_sum_power_q2 c (power : nat) : 0 <= c <= 1 ->
    mvR (add_diagR reg (gram (sum_power t L 2 c power) xs)) a = mvR (add_diagR reg (gram (sum_power t L 2 c power) xs)) b -> a = b.
  Proof. intros Hc. apply ridge_unique_of_psd; try assumption. intros cs. apply (sum_power_op_q2_psd t L c power xs cs d); assumption. Qed.
End RidgeFamilies.

(* ---------- the hypotheses are satisfiable on concrete non-trivial instances ---------- *)
Definition tmx : tmat := TFull 2 [[1; 0]; [2; -1]; [0; 3]].
Definition ptsx : list (list R) := [[1; 2; 0]; [0; -3; 1]; [1; 1; 1]; [1; 2; 0]].
Lemma tmx_wf : wf_tmat tmx 3.
Proof. cbn. split; [reflexivity|repeat constructor]. Qed.
Lemma ptsx_len : List.Forall (fun x : list R => length x = 3%nat) ptsx.
Proof. repeat constructor. Qed.

Example product_q2_psd_ex : 0 <= qf (closed_product tmx 2 2) ptsx [1; -2; 1; -1].
Proof. apply (product_q2_psd _ _ _ _ 3); [lra|exact tmx_wf|exact ptsx_len]. Qed.
Example laplace_product_q2_psd_ex : 0 <= qf (laplace_product tmx 2 2) ptsx [1; -2; 1; -1].
Proof. apply (laplace_product_q2_psd _ _ _ _ 3); [lra|exact tmx_wf|exact ptsx_len]. Qed.
Example lpq_p2_q2_psd_ex : 0 <= qf (closed_lpq tmx 2 2 2) ptsx [1; -2; 1; -1].
Proof. apply (lpq_p2_q2_psd _ _ _ _ 3); [lra|exact tmx_wf|exact ptsx_len]. Qed.
Example laplace_lpq_p2_q2_psd_ex : 0 <= qf (laplace_lpq tmx 2 2 2) ptsx [1; -2; 1; -1].
Proof. apply (laplace_lpq_p2_q2_psd _ _ _ _ 3); [lra|exact tmx_wf|exact ptsx_len]. Qed.
Example sum_power_q2_psd_ex : 0 <= qf (closed_sum_power tmx 2 2 (1/4) 3) ptsx [1; -2; 1; -1].
Proof. apply (sum_power_q2_psd _ _ _ _ _ _ 3); [lra|lra|exact tmx_wf|exact ptsx_len]. Qed.
Example sum_power_op_q2_psd_ex : 0 <= qf (sum_power tmx 2 2 (1/4) 3) ptsx [1; -2; 1; -1].
Proof. apply (sum_power_op_q2_psd _ _ _ _ _ _ 3); [lra|lra|exact tmx_wf|exact ptsx_len]. Qed.

Example gram_ex : gram (fun u v => vdotR u v) [[1; 2]; [0; -1]] = [[1 * 1 + (2 * 2 + 0); 1 * 0 + (2 * -1 + 0)]; [0 * 1 + (-1 * 2 + 0); 0 * 0 + (-1 * -1 + 0)]].
Proof. reflexivity. Qed.
Example qformR_gram_ex : qformR (gram (laplace_product tmx 2 1) ptsx) [1; -2; 1; -1] = qf (laplace_product tmx 2 1) ptsx [1; -2; 1; -1].
Proof. apply qformR_gram. Qed.
Example has_rep_psdR_ex : psdR 4 (gram (laplace_product tmx 2 1) ptsx).
Proof. apply (has_rep_psdR (laplace_product tmx 2 1) ptsx). apply (laplace_product_has_rep _ _ _ 3); [lra|exact tmx_wf|exact ptsx_len]. Qed.

Example ridge_unique_product_q1_ex : forall a b, length a = 4%nat -> length b = 4%nat ->
  mvR (add_diagR (1/1000) (gram (laplace_product tmx 2 1) ptsx)) a = mvR (add_diagR (1/1000) (gram (laplace_product tmx 2 1) ptsx)) b -> a = b.
Proof. intros a b Ha Hb. apply (ridge_unique_product_q1 tmx 2 (1/1000) ptsx 3); [lra|exact tmx_wf|exact ptsx_len|lra|exact Ha|exact Hb]. Qed.
Example ridge_unique_lpq_p1_q1_ex : forall a b, length a = 4%nat -> length b = 4%nat ->
  mvR (add_diagR (1/1000) (gram (laplace_lpq tmx 2 1 1) ptsx)) a = mvR (add_diagR (1/1000) (gram (laplace_lpq tmx 2 1 1) ptsx)) b -> a = b.
Proof. intros a b Ha Hb. apply (ridge_unique_lpq_p1_q1 tmx 2 (1/1000) ptsx 3); [lra|exact tmx_wf|exact ptsx_len|lra|exact Ha|exact Hb]. Qed.
Example ridge_unique_sum_power_q1_ex : forall a b, length a = 4%nat -> length b = 4%nat ->
  mvR (add_diagR (1/1000) (gram (sum_power tmx 2 1 (1/4) 3) ptsx)) a = mvR (add_diagR (1/1000) (gram (sum_power tmx 2 1 (1/4) 3) ptsx)) b -> a = b.
Proof. intros a b Ha Hb. apply (ridge_unique_sum_power_q1 tmx 2 (1/1000) ptsx 3); [lra|exact tmx_wf|exact ptsx_len|lra|exact Ha|exact Hb|lra]. Qed.
Example ridge_unique_l2_q2_ex : forall a b, length a = 4%nat -> length b = 4%nat ->
  mvR (add_diagR (1/1000) (gram (laplace_l2 tmx 2 2) ptsx)) a = mvR (add_diagR (1/1000) (gram (laplace_l2 tmx 2 2) ptsx)) b -> a = b.
Proof. intros a b Ha Hb. apply (ridge_unique_l2_q2 tmx 2 (1/1000) ptsx 3); [lra|exact tmx_wf|exact ptsx_len|lra|exact Ha|exact Hb]. Qed.
Example solves_unique_of_rep_ex : forall A B ys,
  List.Forall (fun a => length a = 4%nat) A -> List.Forall (fun b => length b = 4%nat) B ->
  solves (1/1000) (gram (laplace_product tmx 2 1) ptsx) A ys -> solves (1/1000) (gram (laplace_product tmx 2 1) ptsx) B ys -> A = B.
Proof.
  intros A B ys HA HB. apply solves_unique_of_rep; [|lra|exact HA|exact HB].
  apply (laplace_product_has_rep _ _ _ 3); [lra|exact tmx_wf|exact ptsx_len].
Qed.

Print Assumptions product_q2_psd.
Print Assumptions laplace_product_q2_psd.
Print Assumptions lpq_p2_q2_psd.
Print Assumptions laplace_lpq_p2_q2_psd.
Print Assumptions sum_power_q2_psd.
Print Assumptions sum_power_op_q2_psd.
Print Assumptions qformR_gram.
Print Assumptions has_rep_psdR.
Print Assumptions ridge_unique_of_rep.
Print Assumptions solves_unique_of_psd.
Print Assumptions ridge_unique_product_q1.
Print Assumptions ridge_unique_lpq_p1_q1.
Print Assumptions ridge_unique_sum_power_q1.
Print Assumptions ridge_unique_l2_q2.
Print Assumptions ridge_unique_sum_power_q2.
