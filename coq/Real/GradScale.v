(* C19 component: the closed-form L2 gradient (Grads.grad_l2 — the code's get_function_grads for the Laplace L2 kernel) is
   homogeneous of degree -1 when inputs and bandwidth are scaled together:  grad f_{cL, cX}(c z) = (1/c) grad f_{L, X}(z).
   Hence the gradient outer products scale by 1/c^2 and the AGOP divided by its largest entry is unchanged (normalise_invariant).
   Side condition: the code masks a center whose transformed distance to z is below the ABSOLUTE threshold eps (1e-10); the statement
   therefore asks that every center is either coincident with z or at distance >= eps before and after scaling. *)
From Coq Require Import Reals List Lra.
Require Import XV.Real.Kernels XV.Real.Grads XV.Real.Bandwidth.
Import ListNotations.
Local Open Scope R_scope.

Lemma cdist2_scale c a b : 0 < c -> cdist2 (vscaleR c a) (vscaleR c b) = c * cdist2 a b.
Proof. intros Hc. unfold cdist2. rewrite vscaleR_sub. apply (norm2_scale c _ Hc). Qed.

Lemma Rpower_sq c : 0 < c -> Rpower c 2 = c * c.
Proof. intros Hc. replace 2 with (1 + 1) by ring. rewrite Rpower_plus, Rpower_1 by exact Hc. reflexivity. Qed.

Lemma gweight_scale L q eps c d : 0 < c -> 0 < L -> 0 < eps -> (d = 0 \/ (eps <= d /\ eps <= c * d)) ->
  gweight (c * L) q eps (c * d) = / (c * c) * gweight L q eps d.
Proof.
  intros Hc HL He [->|[H1 H2]].
  - rewrite Rmult_0_r. unfold gweight. destruct (Rle_dec eps 0); [lra|ring].
  - assert (Hd : 0 < d) by lra. assert (Hcd : 0 < c * d) by nra.
    unfold gweight. destruct (Rle_dec eps (c * d)); [|contradiction]. destruct (Rle_dec eps d); [|contradiction].
    rewrite (Rmax_left (c * d) eps) by exact H2. rewrite (Rmax_left d eps) by exact H1.
    rewrite pw_scale by lra. rewrite <- (Rpower_mult_distr c L q) by assumption.
    rewrite <- (Rpower_mult_distr c d (q - 2)) by assumption.
    assert (Ec : Rpower c (q - 2) = Rpower c q * / (c * c)).
    { unfold Rminus. rewrite Rpower_plus, Rpower_Ropp, Rpower_sq by exact Hc. reflexivity. }
    rewrite Ec.
    assert (HA : Rpower c q <> 0) by apply Rgt_not_eq, exp_pos.
    assert (HB : Rpower L q <> 0) by apply Rgt_not_eq, exp_pos.
    replace (Rpower c q * pw d q * (- 1 / (Rpower c q * Rpower L q))) with (pw d q * (- 1 / Rpower L q)) by (field; split; assumption).
    field. repeat split; try assumption; lra.
Qed.

Lemma gsum_scale L q eps c : 0 < c -> 0 < L -> 0 < eps -> forall zm xms cs,
  Forall (fun xm => cdist2 xm zm = 0 \/ (eps <= cdist2 xm zm /\ eps <= c * cdist2 xm zm)) xms ->
  gsum (c * L) q eps (vscaleR c zm) (map (vscaleR c) xms) cs = vscaleR (/ c) (gsum L q eps zm xms cs).
Proof.
  intros Hc HL He zm xms. induction xms as [|xm xms IH]; intros cs Hall.
  - cbn. unfold vscaleR at 1. rewrite map_length. symmetry. apply vscale_zeros.
  - destruct cs as [|c0 cs]; [cbn; unfold vscaleR at 1; rewrite map_length; symmetry; apply vscale_zeros|].
    inversion Hall as [|? ? Hx Hxs]; subst. cbn [map gsum].
    rewrite IH by exact Hxs. rewrite cdist2_scale by exact Hc. rewrite gweight_scale by assumption.
    rewrite vscaleR_sub, vscale_vscale, <- vaddR_scale, vscale_vscale. f_equal. f_equal. field. lra.
Qed.

Theorem grad_l2_homogeneous t L q eps c xs cs z : 0 < c -> 0 < L -> 0 < eps ->
  Forall (fun x => let d := cdist2 (transform t x) (transform t z) in d = 0 \/ (eps <= d /\ eps <= c * d)) xs ->
  grad_l2 t (c * L) q eps (map (vscaleR c) xs) cs (vscaleR c z) = vscaleR (/ c) (grad_l2 t L q eps xs cs z).
Proof.
  intros Hc HL He Hall. unfold grad_l2. rewrite transform_scale, map_map.
  rewrite (map_ext (fun x => transform t (vscaleR c x)) (fun x => vscaleR c (transform t x))) by (intros; apply transform_scale).
  rewrite <- (map_map (transform t) (vscaleR c)).
  rewrite gsum_scale; try assumption.
  - apply transform_scale.
  - apply Forall_forall. intros xm Hin. apply in_map_iff in Hin. destruct Hin as [x [<- Hx]].
    rewrite Forall_forall in Hall. apply (Hall x Hx).
Qed.

(* outer products scale by 1/c^2, and dividing a matrix by its largest entry removes any positive common factor *)
Lemma outer_scale (k : R) (g h : list R) :
  map (fun a => map (fun b => a * b) (vscaleR k h)) (vscaleR k g) = map (fun r => map (Rmult (k * k)) r) (map (fun a => map (fun b => a * b) h) g).
Proof.
  unfold vscaleR. rewrite !map_map. apply map_ext. intros a. rewrite !map_map. apply map_ext. intros b. ring.
Qed.

Theorem normalise_invariant (k m : R) (M : list (list R)) : 0 < k -> 0 < m ->
  map (map (fun x => x / (k * m))) (map (map (Rmult k)) M) = map (map (fun x => x / m)) M.
Proof.
  intros Hk Hm. rewrite map_map. apply map_ext. intros r. rewrite map_map. apply map_ext. intros x. field. split; lra.
Qed.
