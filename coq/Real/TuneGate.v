(* TuneGate — skipping the temperature tuning when no tree has a split loses nothing (property C10, the gate
     `if has_split and self.use_temperature_tuning: self.fit_temperature(...)`   of xRFM.fit, xrfm/xrfm.py 972-973).

   On a tree that is a single leaf `_build_tree_cache` records ONE leaf with the EMPTY gate path and no split node.  `_predict_tree_soft`
   then accumulates log_prob = 0, clamps it (max(0,-50) = 0), subtracts the row maximum (0), exponentiates (1), divides by
   clamp(1, min = tiny) = 1: the weight vector is [1] for EVERY logit function (there is no logit to look at), every admissible active
   set is [true], the renormalised weight is 1 and the aggregated output is the leaf's own output = the hard-routed output.
   Hence on a model whose trees are all single leaves the prediction FUNCTION does not depend on `split_temperature` (None / hard routing
   included), every candidate of every tuning space has the same score under every metric, and any stored temperature is optimal.

   Definitions of SoftOps.v / SoftEnd.v are used as they are; the per-tree prediction `soft_tree_pred` (SoftEnd states its theorems on the
   expanded expression) is named here:   soft_pred (trunc_out (code_weights tiny (leaf log-probabilities)) act) (leaf values).
   One output coordinate is treated (leaf predictor f : L -> row -> R), as in SoftEnd.soft_pred; apply per coordinate.
   The active set is relational (SoftEnd.active_ok): every statement holds for ANY admissible active set, i.e. any keep fraction / leaf cap. *)
From Coq Require Import Reals List Lra Lia Bool QArith Qreals FunctionalExtensionality.
Require Import XV.Model.Tree XV.Model.Soft XV.Model.TreeIter XV.Model.Select.
Require Import XV.Proofs.TreeIterProofs XV.Proofs.SelectProofs.
Require Import XV.Real.SoftReal XV.Real.Kernels XV.Real.SoftOps XV.Real.SoftEnd.
Import ListNotations.
Local Open Scope R_scope.

Notation rsum := XV.Real.SoftReal.rsum.
Notation wsum := XV.Real.SoftReal.wsum.

(* ---------- definitions ---------- *)
Definition row := list Q.

Definition is_leaf_tree {L} (t : tree L) : bool := match t with Leaf _ => true | Node _ _ _ _ => false end.

(* the code's accumulated log-probabilities of the leaves, left to right (before the clamp, which is part of code_weights) *)
Definition tree_lps {L} (z : nat -> R) (T : tree L) : list R := map (code_path_logp z) (map snd (paths T)).
(* clamp(-50) -> max -> exp -> sum -> clamp(tiny) -> divide *)
Definition tree_weights {L} (tiny : R) (z : nat -> R) (T : tree L) : list R := code_weights tiny (tree_lps z T).
(* the outputs of the leaf models on the row, left to right *)
Definition leaf_vals {L} (f : L -> row -> R) (T : tree L) (x : row) : list R := map (fun mp => f (fst mp) x) (paths T).
(* _predict_tree_soft for one row: z = the row's logits (they carry the temperature), act = the row's active mask *)
Definition soft_tree_pred {L} (tiny : R) (z : nat -> R) (T : tree L) (act : list bool) (f : L -> row -> R) (x : row) : R :=
  soft_pred (trunc_out (tree_weights tiny z T) act) (leaf_vals f T x).
(* _predict_tree_hard for one row *)
Definition hard_tree_pred {L} (f : L -> row -> R) (T : tree L) (x : row) : R := f (route T x) x.

(* ensemble mean (xRFM.predict: torch.mean over the stacked per-tree predictions) *)
Definition rmean (l : list R) : R := rsum l / INR (length l).
(* tree number i has its own node numbering, hence its own logits z i and its own active mask act i *)
Definition soft_tree_preds {L} (tiny : R) (z : nat -> nat -> R) (act : nat -> list bool) (f : L -> row -> R) (Ts : list (tree L)) (x : row) : list R :=
  map (fun iT => soft_tree_pred tiny (z (fst iT)) (snd iT) (act (fst iT)) f x) (combine (seq 0 (length Ts)) Ts).
Definition soft_forest_pred {L} tiny z act (f : L -> row -> R) (Ts : list (tree L)) (x : row) : R := rmean (soft_tree_preds tiny z act f Ts x).
Definition hard_forest_pred {L} (f : L -> row -> R) (Ts : list (tree L)) (x : row) : R := rmean (map (fun T => hard_tree_pred f T x) Ts).

(* the truncation kept a non-empty top-weighted set of leaves in every tree (always true of the code: keep_count >= 1) *)
Definition admissible {L} (tiny : R) (Ts : list (tree L)) (z : nat -> nat -> R) (act : nat -> list bool) : Prop :=
  forall i T, nth_error Ts i = Some T -> active_ok (tree_weights tiny (z i) T) (act i).

(* xRFM._predict_tree: `if not self.split_temperature:` hard routing, else soft routing with that temperature.
   zt t x i j = logit of split node j of tree i for row x at temperature t (ARBITRARY here); actt t x i = active mask. *)
Definition model_pred {L Temp : Type} (tiny : R) (f : L -> row -> R) (zt : Temp -> row -> nat -> nat -> R) (actt : Temp -> row -> nat -> list bool)
    (Ts : list (tree L)) (a : option Temp) (x : row) : R :=
  match a with
  | None => hard_forest_pred f Ts x
  | Some t => soft_forest_pred tiny (zt t x) (actt t x) f Ts x
  end.

(* ---------- 1. a single leaf: weights [1], active set [true], renormalised weight 1, soft = hard ---------- *)
Lemma single_leaf_paths {L} (m : L) : paths (Leaf m) = [(m, [])].
Proof. reflexivity. Qed.

(* the log-probability of the empty path is 0 (the code's torch.zeros), for every logit function *)
Lemma single_leaf_lps {L} (z : nat -> R) (m : L) : tree_lps z (Leaf m) = [0].
Proof. reflexivity. Qed.

(* the clamp at -50 is inactive on 0 *)
Lemma clamp_zero : Rmax (-50) 0 = 0.
Proof. apply Rmax_right. lra. Qed.

Lemma code_weights_single : forall tiny, tiny <= 1 -> code_weights tiny [0] = [1].
Proof.
  intros tiny Ht. rewrite code_weights_spec by (try exact Ht; discriminate).
  unfold rsum. cbn [map fold_right]. rewrite clamp_zero, exp_0. f_equal. field.
Qed.

Lemma single_leaf_weights {L} : forall tiny (z : nat -> R) (m : L), tiny <= 1 -> tree_weights tiny z (Leaf m) = [1].
Proof. intros tiny z m Ht. unfold tree_weights. rewrite single_leaf_lps. apply code_weights_single. exact Ht. Qed.

(* the only admissible active set over one leaf is "keep it" ... *)
Lemma active_ok_single : forall w act, active_ok [w] act -> act = [true].
Proof.
  intros w act (Hlen & (i & Hi) & _). destruct act as [|b [|c act]]; try discriminate. f_equal.
  destruct i as [|i]; cbn [nth] in Hi; [exact Hi|]. destruct i; discriminate.
Qed.
(* ... and it IS admissible *)
Lemma active_ok_single_true : forall w, active_ok [w] [true].
Proof.
  intros w. split; [reflexivity|]. split; [exists 0%nat; reflexivity|].
  intros i j _ Hj _ Hf. cbn [length] in Hj. destruct j as [|j]; [discriminate|lia].
Qed.

Lemma trunc_out_single : trunc_out [1] [true] = [1].
Proof. unfold trunc_out, renorm, masked_w, rsum. cbn [combine map fst snd fold_right]. f_equal. field. Qed.

Lemma soft_pred_single : forall v, soft_pred [1] [v] = v.
Proof. intros v. unfold soft_pred, SoftReal.wsum, rsum. cbn [combine map fst snd fold_right]. lra. Qed.

Theorem single_leaf_soft_is_hard : forall (L : Type) (tiny : R) (z : nat -> R) (m : L) (act : list bool) (f : L -> row -> R) (x : row),
  tiny <= 1 ->
  active_ok (tree_weights tiny z (Leaf m)) act ->
  tree_lps z (Leaf m) = [0] /\ Rmax (-50) 0 = 0 /\                     (* empty path: log-probability 0, clamp inactive *)
  tree_weights tiny z (Leaf m) = [1] /\                               (* the coded weights *)
  act = [true] /\                                                     (* the only admissible active set *)
  trunc_out (tree_weights tiny z (Leaf m)) act = [1] /\               (* the renormalised weight *)
  soft_tree_pred tiny z (Leaf m) act f x = f m x /\                   (* the end-to-end soft prediction is the leaf's value ... *)
  soft_tree_pred tiny z (Leaf m) act f x = hard_tree_pred f (Leaf m) x.   (* ... = the hard prediction *)
Proof.
  intros L tiny z m act f x Ht Hok.
  pose proof (single_leaf_weights tiny z m Ht) as EW. rewrite EW in Hok.
  pose proof (active_ok_single 1 act Hok) as Ea. subst act.
  assert (Es : soft_tree_pred tiny z (Leaf m) [true] f x = f m x).
  { unfold soft_tree_pred. rewrite EW, trunc_out_single. unfold leaf_vals. rewrite single_leaf_paths. cbn [map fst]. apply soft_pred_single. }
  repeat split; try assumption; try reflexivity.
  - apply clamp_zero.
  - rewrite EW. apply trunc_out_single.
Qed.

(* non-vacuity of the hypothesis: an admissible active set exists for every logit function *)
Lemma single_leaf_active_exists {L} : forall tiny (z : nat -> R) (m : L), tiny <= 1 -> active_ok (tree_weights tiny z (Leaf m)) [true].
Proof. intros tiny z m Ht. rewrite single_leaf_weights by exact Ht. apply active_ok_single_true. Qed.

(* the reference truncation of Model/Soft.v (sort, smallest prefix reaching `keep`, cap, renormalise) keeps the only leaf,
   for EVERY keep fraction and EVERY leaf cap (0 included) *)
Lemma single_leaf_reference_active_set : forall (keep w : Q) (cap : nat), active_ids keep cap [w] = [0%nat].
Proof.
  intros keep w cap. unfold active_ids, keep_count, indexed. cbn [length seq combine sort_desc fold_right insert_desc map fst].
  assert (E : Nat.max (Nat.min cap 1 - 1) 0 = 0%nat) by lia. rewrite E, Nat.min_0_r. reflexivity.
Qed.
Lemma single_leaf_reference_truncation : forall (keep : Q) (cap : nat), truncate keep cap [1%Q] = [1%Q].
Proof. intros keep cap. unfold truncate. rewrite single_leaf_reference_active_set. reflexivity. Qed.

(* two temperatures (two logit functions, two active sets) on a single-leaf tree: the same prediction *)
Corollary single_leaf_two_temperatures : forall (L : Type) (tiny : R) (z1 z2 : nat -> R) (m : L) (act1 act2 : list bool) (f : L -> row -> R) (x : row),
  tiny <= 1 -> active_ok (tree_weights tiny z1 (Leaf m)) act1 -> active_ok (tree_weights tiny z2 (Leaf m)) act2 ->
  soft_tree_pred tiny z1 (Leaf m) act1 f x = soft_tree_pred tiny z2 (Leaf m) act2 f x.
Proof.
  intros L tiny z1 z2 m act1 act2 f x Ht H1 H2.
  destruct (single_leaf_soft_is_hard L tiny z1 m act1 f x Ht H1) as (_ & _ & _ & _ & _ & E1 & _).
  destruct (single_leaf_soft_is_hard L tiny z2 m act2 f x Ht H2) as (_ & _ & _ & _ & _ & E2 & _).
  rewrite E1, E2. reflexivity.
Qed.

(* ---------- 2. an ensemble of single-leaf trees ---------- *)
Lemma soft_list_is_hard_list {L} : forall (tiny : R) (z : nat -> nat -> R) (act : nat -> list bool) (f : L -> row -> R) (x : row),
  tiny <= 1 -> forall (Ts : list (tree L)) (s : nat),
  Forall (fun T => is_leaf_tree T = true) Ts ->
  (forall i T, nth_error Ts i = Some T -> active_ok (tree_weights tiny (z (s + i)%nat) T) (act (s + i)%nat)) ->
  map (fun iT => soft_tree_pred tiny (z (fst iT)) (snd iT) (act (fst iT)) f x) (combine (seq s (length Ts)) Ts) =
  map (fun T => hard_tree_pred f T x) Ts.
Proof.
  intros tiny z act f x Ht. induction Ts as [|T Ts IH]; intros s Hl Hok; [reflexivity|].
  inversion Hl as [|? ? HT HTs]; subst. cbn [length seq combine map fst snd]. f_equal.
  - destruct T as [m|v b l r]; [|discriminate].
    pose proof (Hok 0%nat (Leaf m) eq_refl) as H0. rewrite Nat.add_0_r in H0.
    destruct (single_leaf_soft_is_hard L tiny (z s) m (act s) f x Ht H0) as (_ & _ & _ & _ & _ & _ & E). exact E.
  - apply IH; [exact HTs|]. intros i T' Hi. replace (S s + i)%nat with (s + S i)%nat by lia. apply Hok. exact Hi.
Qed.

Theorem single_leaf_forest_prediction_ignores_temperature : forall (L : Type) (tiny : R) (z : nat -> nat -> R) (act : nat -> list bool)
    (f : L -> row -> R) (Ts : list (tree L)) (x : row),
  tiny <= 1 ->
  Forall (fun T => is_leaf_tree T = true) Ts ->             (* every tree of the ensemble is a single leaf; ANY number of trees *)
  admissible tiny Ts z act ->
  soft_tree_preds tiny z act f Ts x = map (fun T => hard_tree_pred f T x) Ts /\        (* tree by tree ... *)
  soft_forest_pred tiny z act f Ts x = hard_forest_pred f Ts x.                      (* ... hence the ensemble means *)
Proof.
  intros L tiny z act f Ts x Ht Hl Hok.
  assert (E : soft_tree_preds tiny z act f Ts x = map (fun T => hard_tree_pred f T x) Ts).
  { unfold soft_tree_preds. apply (soft_list_is_hard_list tiny z act f x Ht Ts 0%nat Hl). exact Hok. }
  split; [exact E|]. unfold soft_forest_pred, hard_forest_pred. rewrite E. reflexivity.
Qed.

(* any two temperatures (including "no temperature" = hard routing) give the same ensemble prediction *)
Corollary single_leaf_forest_two_temperatures : forall (L : Type) (tiny : R) (z1 z2 : nat -> nat -> R) (act1 act2 : nat -> list bool)
    (f : L -> row -> R) (Ts : list (tree L)) (x : row),
  tiny <= 1 -> Forall (fun T => is_leaf_tree T = true) Ts -> admissible tiny Ts z1 act1 -> admissible tiny Ts z2 act2 ->
  soft_forest_pred tiny z1 act1 f Ts x = soft_forest_pred tiny z2 act2 f Ts x.
Proof.
  intros L tiny z1 z2 act1 act2 f Ts x Ht Hl H1 H2.
  destruct (single_leaf_forest_prediction_ignores_temperature L tiny z1 act1 f Ts x Ht Hl H1) as [_ E1].
  destruct (single_leaf_forest_prediction_ignores_temperature L tiny z2 act2 f Ts x Ht Hl H2) as [_ E2].
  rewrite E1, E2. reflexivity.
Qed.

Lemma model_pred_all_leaves : forall (L Temp : Type) (tiny : R) (f : L -> row -> R) zt actt (Ts : list (tree L)),
  tiny <= 1 -> Forall (fun T => is_leaf_tree T = true) Ts ->
  (forall (t : Temp) x, admissible tiny Ts (zt t x) (actt t x)) ->
  forall (a : option Temp) x, model_pred tiny f zt actt Ts a x = hard_forest_pred f Ts x.
Proof.
  intros L Temp tiny f zt actt Ts Ht Hl Hok [t|] x; cbn [model_pred]; [|reflexivity].
  apply (single_leaf_forest_prediction_ignores_temperature L tiny (zt t x) (actt t x) f Ts x Ht Hl (Hok t x)).
Qed.

(* ---------- 3. the gate of xRFM.fit ---------- *)
(* `forest` is the loop over n_trees of xRFM.fit (Model/TreeIter.v) on trees `tree L` with the leaf test of the code (tree['type'] == 'leaf');
   its second component is `has_split`.  If it is false the model holds exactly one tree and that tree is a single leaf; the prediction function is then
   the same for every stored split_temperature (None included), so every score functional takes one value on all candidates. *)
Theorem skipping_tuning_is_sound : forall (L Temp : Type) (build_tree : nat -> tree L) (ftl : nat -> bool) (n : nat)
    (tiny : R) (f : L -> row -> R) (zt : Temp -> row -> nat -> nat -> R) (actt : Temp -> row -> nat -> list bool),
  (0 < n)%nat -> tiny <= 1 ->
  snd (forest (tree L) is_leaf_tree build_tree ftl n) = false ->                       (* has_split = False: fit_temperature is skipped *)
  let Ts := fst (forest (tree L) is_leaf_tree build_tree ftl n) in                     (* self.trees *)
  (forall t x, admissible tiny Ts (zt t x) (actt t x)) ->
  (exists m, Ts = [Leaf m] /\ build_tree 0%nat = Leaf m) /\                              (* exactly one single-leaf tree *)
  (forall (t1 t2 : Temp) x,                                                             (* any two temperatures: the same prediction *)
     soft_forest_pred tiny (zt t1 x) (actt t1 x) f Ts x = soft_forest_pred tiny (zt t2 x) (actt t2 x) f Ts x) /\
  (forall (a : option Temp) x, model_pred tiny f zt actt Ts a x = hard_forest_pred f Ts x) /\     (* ... = hard routing = the leaf's output *)
  (forall (a : option Temp) x m, Ts = [Leaf m] -> model_pred tiny f zt actt Ts a x = f m x) /\
  (forall (S : Type) (score : (row -> R) -> S) (stored c : option Temp),                (* every candidate scores like the stored temperature *)
     score (model_pred tiny f zt actt Ts c) = score (model_pred tiny f zt actt Ts stored)).
Proof.
  intros L Temp build_tree ftl n tiny f zt actt Hn Ht Hs Ts Hok.
  destruct (no_split_means_single_leaf (tree L) is_leaf_tree build_tree ftl n Hn Hs) as [HTs Hleaf]. fold Ts in HTs.
  destruct (build_tree 0%nat) as [m|v b l r] eqn:Eb; [|discriminate].
  assert (Hl : Forall (fun T => is_leaf_tree T = true) Ts) by (rewrite HTs; repeat constructor).
  pose proof (model_pred_all_leaves L Temp tiny f zt actt Ts Ht Hl Hok) as Hm.
  split; [exists m; split; [exact HTs|reflexivity]|]. split; [|split; [exact Hm|split]].
  - intros t1 t2 x. pose proof (Hm (Some t1) x) as A. pose proof (Hm (Some t2) x) as B. cbn [model_pred] in A, B. rewrite A, B. reflexivity.
  - intros a x m' E. rewrite Hm, E. unfold hard_forest_pred, rmean, rsum, hard_tree_pred. cbn [map fold_right length route INR]. field.
  - intros S score stored c.
    assert (E : model_pred tiny f zt actt Ts c = model_pred tiny f zt actt Ts stored).
    { apply functional_extensionality. intros x. rewrite !Hm. reflexivity. }
    rewrite E. reflexivity.
Qed.

(* the same without function extensionality, for scores that look at the predictions on a list of (validation) rows only *)
Theorem skipping_tuning_is_sound_on_rows : forall (L Temp : Type) (build_tree : nat -> tree L) (ftl : nat -> bool) (n : nat)
    (tiny : R) (f : L -> row -> R) (zt : Temp -> row -> nat -> nat -> R) (actt : Temp -> row -> nat -> list bool),
  (0 < n)%nat -> tiny <= 1 ->
  snd (forest (tree L) is_leaf_tree build_tree ftl n) = false ->
  let Ts := fst (forest (tree L) is_leaf_tree build_tree ftl n) in
  (forall t x, admissible tiny Ts (zt t x) (actt t x)) ->
  forall (S : Type) (metric : list R -> S) (Xval : list row) (stored c : option Temp),
    metric (map (model_pred tiny f zt actt Ts c) Xval) = metric (map (model_pred tiny f zt actt Ts stored) Xval).
Proof.
  intros L Temp build_tree ftl n tiny f zt actt Hn Ht Hs Ts Hok S metric Xval stored c.
  destruct (no_split_means_single_leaf (tree L) is_leaf_tree build_tree ftl n Hn Hs) as [HTs Hleaf]. fold Ts in HTs.
  assert (Hl : Forall (fun T => is_leaf_tree T = true) Ts) by (rewrite HTs; repeat constructor; exact Hleaf).
  pose proof (model_pred_all_leaves L Temp tiny f zt actt Ts Ht Hl Hok) as Hm.
  f_equal. apply map_ext. intros x. rewrite !Hm. reflexivity.
Qed.

(* the conclusion of C10 (Properties/C10.v) for the temperature the skipped tuning leaves in place, WHATEVER it is: every candidate of ANY tuning
   space has its score, so none is strictly better (`better` irreflexive), and hard routing is not strictly better either *)
Corollary skipped_tuning_satisfies_C10 : forall (L Temp : Type) (build_tree : nat -> tree L) (ftl : nat -> bool) (n : nat)
    (tiny : R) (f : L -> row -> R) (zt : Temp -> row -> nat -> nat -> R) (actt : Temp -> row -> nat -> list bool),
  (0 < n)%nat -> tiny <= 1 ->
  snd (forest (tree L) is_leaf_tree build_tree ftl n) = false ->
  let Ts := fst (forest (tree L) is_leaf_tree build_tree ftl n) in
  (forall t x, admissible tiny Ts (zt t x) (actt t x)) ->
  forall (S : Type) (score : (row -> R) -> S) (better : S -> S -> bool), (forall a, better a a = false) ->
  forall (tle0 : Temp -> bool) (stored : option Temp) (cands : list Temp),
    let sc := fun a => score (model_pred tiny f zt actt Ts a) in
    (forall c, In c cands -> sc (to_attr Temp tle0 c) = sc stored) /\
    (forall c, In c cands -> better (sc (to_attr Temp tle0 c)) (sc stored) = false) /\
    better (sc None) (sc stored) = false.
Proof.
  intros L Temp build_tree ftl n tiny f zt actt Hn Ht Hs Ts Hok S score better Hirr tle0 stored cands sc.
  destruct (skipping_tuning_is_sound L Temp build_tree ftl n tiny f zt actt Hn Ht Hs Hok) as (_ & _ & _ & _ & Hsc). fold Ts in Hsc.
  assert (E : forall a, sc a = sc stored) by (intros a; unfold sc; apply Hsc).
  split; [intros c _; apply E|]. split; [intros c _|]; rewrite E; apply Hirr.
Qed.

(* and had the tuning loop (Model/Select.v `tune`) been run anyway, on any candidate list: the recorded best score is the score of the configured
   temperature and the tuned model predicts exactly like the untuned one *)
Corollary running_the_tuning_anyway_changes_nothing : forall (L Temp : Type) (build_tree : nat -> tree L) (ftl : nat -> bool) (n : nat)
    (tiny : R) (f : L -> row -> R) (zt : Temp -> row -> nat -> nat -> R) (actt : Temp -> row -> nat -> list bool),
  (0 < n)%nat -> tiny <= 1 ->
  snd (forest (tree L) is_leaf_tree build_tree ftl n) = false ->
  let Ts := fst (forest (tree L) is_leaf_tree build_tree ftl n) in
  (forall t x, admissible tiny Ts (zt t x) (actt t x)) ->
  forall (S : Type) (init : S) (better seqb : S -> S -> bool) (tle0 : Temp -> bool) (teqb : Temp -> Temp -> bool) (tzero : Temp),
  (forall a, better a a = false) ->
  (forall a b c, better a b = true -> better b c = true -> better a c = true) ->
  (forall a b c, seqb a b = true -> better c b = false -> better c a = false) ->
  forall (score : (row -> R) -> S) (init_attr : option Temp) (cands : list Temp), cands <> [] ->
    let sc := fun a => score (model_pred tiny f zt actt Ts a) in
    (forall a, better (sc a) init = true) ->
    let r := tune S init better seqb Temp tle0 teqb tzero init_attr sc cands in
    t_best S Temp r = sc init_attr /\
    forall x, model_pred tiny f zt actt Ts (t_attr S Temp r) x = model_pred tiny f zt actt Ts init_attr x.
Proof.
  intros L Temp build_tree ftl n tiny f zt actt Hn Ht Hs Ts Hok S init better seqb tle0 teqb tzero Hi Htr Hsq score init_attr cands Hne sc Hinit r.
  destruct (skipping_tuning_is_sound L Temp build_tree ftl n tiny f zt actt Hn Ht Hs Hok) as (_ & _ & Hm & _ & Hsc). fold Ts in Hm, Hsc.
  destruct (tune_selects_best S init better seqb Temp tle0 teqb tzero Hi Htr Hsq init_attr sc cands Hne Hinit) as (_ & c & _ & _ & Eb & _).
  fold r in Eb. split.
  - rewrite Eb. unfold sc. apply Hsc.
  - intros x. rewrite !Hm. reflexivity.
Qed.

(* ---------- 4. conversely: as soon as one tree splits the temperature matters ---------- *)
(* one split on the first coordinate at threshold 0, node scale 1; the leaves output 0 (left) and 1 (right); the row x = [1].
   The code's logit is (x . v - b) / (T * scale) = 1 / T. *)
Definition ex_T : tree nat := Node [1%Q] 0%Q (Leaf 0%nat) (Leaf 1%nat).
Definition ex_f (m : nat) (x : row) : R := INR m.
Definition ex_x : row := [1%Q].
Definition ex_logit (Temp : R) (x : row) : nat -> R := fun _ => (Q2R (dot x [1%Q]) - Q2R 0%Q) / (Temp * 1).

Lemma ex_logit_val : forall Temp j, Temp <> 0 -> ex_logit Temp ex_x j = / Temp.
Proof.
  intros Temp j HT. unfold ex_logit, ex_x. cbn [dot]. rewrite Q2R_plus, Q2R_mult.
  assert (E1 : Q2R 1%Q = 1) by (unfold Q2R; cbn; field).
  assert (E0 : Q2R 0%Q = 0) by (unfold Q2R; cbn; field).
  rewrite E1, E0. field. exact HT.
Qed.

Lemma active_both {L} tiny (z : nat -> R) (l r : L) v b : active_ok (tree_weights tiny z (Node v b (Leaf l) (Leaf r))) [true; true].
Proof.
  assert (HlW : length (tree_weights tiny z (Node v b (Leaf l) (Leaf r))) = 2%nat)
    by (unfold tree_weights, code_weights, tree_lps; rewrite !map_length; reflexivity).
  split; [rewrite HlW; reflexivity|]. split; [exists 0%nat; reflexivity|].
  intros i j _ Hjl _ Hj. rewrite HlW in Hjl. destruct j as [|[|j]]; cbn [nth] in Hj; try discriminate. lia.
Qed.

(* both leaves active: the soft prediction of the depth-1 tree is sigmoid(logit) exactly *)
Lemma depth1_soft_pred : forall tiny (z : nat -> R) (x : row), tiny <= 1 -> Rabs (z 0%nat) <= 48 ->
  soft_tree_pred tiny z ex_T [true; true] ex_f x = sigmoid (z 0%nat).
Proof.
  intros tiny z x Ht Hz. unfold soft_tree_pred, tree_weights, tree_lps.
  rewrite (code_weights_are_gate_products tiny z ex_T Ht).
  - unfold leaf_vals, ex_T, paths. cbn [paths_from app map snd fst path_prob fold_right].
    unfold gate, glogit, ex_f. cbn [fst snd INR].
    pose proof (sigmoid_compl (z 0%nat)) as Hc. set (a := sigmoid (z 0%nat)) in *. set (b := sigmoid (- z 0%nat)) in *.
    unfold soft_pred, trunc_out, renorm, masked_w, SoftReal.wsum, rsum. cbn [combine map fst snd fold_right].
    replace (b * 1 + (a * 1 + 0)) with 1 by lra. field.
  - intros mp Hin. eapply Rle_trans; [|apply (path_logp_lower z 48)].
    + unfold ex_T, paths in Hin. cbn [paths_from app] in Hin. destruct Hin as [<-|[<-|[]]]; cbn [snd length INR]; lra.
    + intros g Hg. unfold ex_T, paths in Hin. cbn [paths_from app] in Hin.
      destruct Hin as [<-|[<-|[]]]; cbn [snd] in Hg; destruct Hg as [<-|[]]; exact Hz.
Qed.

Example tuning_matters_as_soon_as_one_tree_splits :
  is_leaf_tree ex_T = false /\
  active_ok (tree_weights (/ 1000) (ex_logit 1 ex_x) ex_T) [true; true] /\
  active_ok (tree_weights (/ 1000) (ex_logit (/ 2) ex_x) ex_T) [true; true] /\
  soft_tree_pred (/ 1000) (ex_logit 1 ex_x) ex_T [true; true] ex_f ex_x = / (1 + exp (- 1)) /\          (* temperature 1 *)
  soft_tree_pred (/ 1000) (ex_logit (/ 2) ex_x) ex_T [true; true] ex_f ex_x = / (1 + exp (- 2)) /\      (* temperature 1/2 *)
  hard_tree_pred ex_f ex_T ex_x = 1 /\                                                               (* hard routing: right leaf *)
  / (1 + exp (- 1)) < / (1 + exp (- 2)) < 1.                                                          (* three different predictions *)
Proof.
  assert (E1 : forall j, ex_logit 1 ex_x j = 1) by (intros j; rewrite ex_logit_val by lra; field).
  assert (E2 : forall j, ex_logit (/ 2) ex_x j = 2) by (intros j; rewrite ex_logit_val by lra; field).
  split; [reflexivity|]. split; [apply active_both|]. split; [apply active_both|].
  split; [|split; [|split]].
  - rewrite depth1_soft_pred; [rewrite E1; reflexivity|lra|rewrite E1, Rabs_right; lra].
  - rewrite depth1_soft_pred; [rewrite E2; reflexivity|lra|rewrite E2, Rabs_right; lra].
  - unfold hard_tree_pred, ex_T, ex_x, ex_f. cbn. lra.
  - pose proof (exp_pos (- 1)) as P1. pose proof (exp_pos (- 2)) as P2.
    assert (Hlt : exp (- 2) < exp (- 1)) by (apply exp_increasing; lra).
    split.
    + apply Rinv_lt_contravar; [nra|lra].
    + rewrite <- Rinv_1 at 2. apply Rinv_lt_contravar; lra.
Qed.

(* the same two temperatures on a single-leaf tree: identical predictions (theorem 1), for contrast *)
Example same_temperatures_on_a_single_leaf :
  soft_tree_pred (/ 1000) (ex_logit 1 ex_x) (Leaf 1%nat) [true] ex_f ex_x =
  soft_tree_pred (/ 1000) (ex_logit (/ 2) ex_x) (Leaf 1%nat) [true] ex_f ex_x.
Proof. apply single_leaf_two_temperatures; [lra| |]; apply single_leaf_active_exists; lra. Qed.

(* the gate itself on a concrete fit: the first build is a single leaf -> has_split = false, one tree; hypothesis of theorem 3 is satisfiable *)
Example gate_example :
  forest (tree nat) is_leaf_tree (fun _ => Leaf 7%nat) (fun _ => false) 3 = ([Leaf 7%nat], false) /\
  forest (tree nat) is_leaf_tree (fun i => if Nat.eqb i 2 then Leaf 7%nat else ex_T) (fun _ => false) 5 = ([ex_T; ex_T; Leaf 7%nat], true).
Proof. split; reflexivity. Qed.

Print Assumptions single_leaf_soft_is_hard.
Print Assumptions single_leaf_forest_prediction_ignores_temperature.
Print Assumptions skipping_tuning_is_sound.
Print Assumptions skipping_tuning_is_sound_on_rows.
Print Assumptions skipped_tuning_satisfies_C10.
Print Assumptions running_the_tuning_anyway_changes_nothing.
Print Assumptions tuning_matters_as_soon_as_one_tree_splits.
