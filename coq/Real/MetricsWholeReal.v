(* C16 at full strength for the two metrics that need real functions: RMSE (sqrt of the mean over ALL entries of the squared
   differences; xrfm/rfm_src/metrics.py 67-74) and log-loss (mean of -ln of the probability given to the true class; metrics.py 145-154,
   sklearn.metrics.log_loss).  Proofs/MetricsWhole.v does accuracy / Brier / F1 / AUC / MSE / MAE over Q; Real/MetricsReal.v has only
   piecewise facts about sqrt and -ln.  Here the WHOLE statement "predictions identical to the targets score at least as well, in the
   declared direction, as any other predictions" is proved for both.

   Findings recorded here:
   - rmse_direction_truthful needs NO hypothesis at all (no shape agreement, no non-emptiness): an empty mean is 0 * /0 = 0 whatever /0 is,
     and a shape mismatch only truncates `combine`.
   - logloss_direction_truthful needs exactly ONE numerical hypothesis: every probability GIVEN TO THE TRUE CLASS is in (0,1].
     * q <= 1 is necessary:   logloss_direction_needs_le_1   (q = 2 gives a loss -ln 2 < 0 = loss of the perfect predictions).
     * 0 < q is there because the real logarithm diverges at 0+:   logloss_unbounded_needs_positivity  /  logloss_tends_to_infinity.
       NOTE Coq artefact: Coq's `ln` is totalised by ln x = 0 for x <= 0, so inside Coq q = 0 would give loss 0; that value has nothing to do
       with the mathematical -ln 0 = +infinity, hence the hypothesis 0 < q is kept (sklearn clips probabilities away from 0).
     The other entries of P are unconstrained (they need not be in [0,1], rows need not sum to 1).
   - the minimum 0 is attained ONLY when every true-class probability is 1   (logloss_zero_iff). *)
From Coq Require Import Reals List Lra Lia Arith QArith Qreals.
Require Import XV.Model.Soft XV.Model.Labels XV.Model.Metrics XV.Real.MetricsReal.
Import ListNotations.
Local Open Scope R_scope.

(* ================= 1. definitions ================= *)
Definition rmeanR (l : list R) : R := rsumR l / INR (length l).

Definition pairsR (t p : list (list R)) : list (R * R) := combine (concat t) (concat p).
Definition sqdiff (ab : R * R) : R := (fst ab - snd ab) * (fst ab - snd ab).

(* mean over ALL entries of the squared differences, as Metrics.mse over Q *)
Definition mseR (t p : list (list R)) : R := rmeanR (map sqdiff (pairsR t p)).
Definition rmseR (t p : list (list R)) : R := sqrt (mseR t p).

Definition one_hotR (K l : nat) : list R := map (fun j => if Nat.eqb j l then 1 else 0) (seq 0 K).
Definition perfectR (K : nat) (y : list nat) : list (list R) := map (one_hotR K) y.

(* probability assigned to the true class, per sample *)
Definition true_class_probsR (y : list nat) (P : list (list R)) : list R :=
  map (fun yp => nth (fst yp) (snd yp) 0) (combine y P).
Definition loglossR (y : list nat) (P : list (list R)) : R := logloss (true_class_probsR y P).

Definition wf_clsR (K : nat) (y : list nat) (P : list (list R)) : Prop :=
  length P = length y /\ Forall (fun r => length r = K) P /\ Forall (fun c => (c < K)%nat) y /\ y <> [].

(* the numerical hypothesis of log-loss: the probabilities given to the true classes lie in (0,1] *)
Definition true_probs_ok (y : list nat) (P : list (list R)) : Prop :=
  Forall (fun q => 0 < q <= 1) (true_class_probsR y P).

(* ================= sums and means ================= *)
Lemma rsumR_cons x l : rsumR (x :: l) = x + rsumR l.
Proof. reflexivity. Qed.

Lemma rsumR_nonneg l : Forall (fun x => 0 <= x) l -> 0 <= rsumR l.
Proof. induction 1 as [|x l Hx _ IH]; [cbn; lra|]. rewrite rsumR_cons. lra. Qed.

Lemma rsumR_zero l : Forall (fun x => x = 0) l -> rsumR l = 0.
Proof. induction 1 as [|x l Hx _ IH]; [reflexivity|]. rewrite rsumR_cons. lra. Qed.

Lemma INR_length_pos {A} (l : list A) : l <> [] -> 0 < INR (length l).
Proof. intros H. apply lt_0_INR. destruct l; [contradiction|cbn; lia]. Qed.

(* no non-emptiness needed: the empty mean is 0 * /0 = 0 *)
Lemma rmeanR_nonneg l : Forall (fun x => 0 <= x) l -> 0 <= rmeanR l.
Proof.
  intros H. unfold rmeanR, Rdiv. destruct l as [|x l].
  - cbn [rsumR fold_right]. rewrite Rmult_0_l. lra.
  - apply Rmult_le_pos; [apply rsumR_nonneg; exact H|]. left. apply Rinv_0_lt_compat. apply INR_length_pos. discriminate.
Qed.

Lemma rmeanR_zero l : Forall (fun x => x = 0) l -> rmeanR l = 0.
Proof. intros H. unfold rmeanR, Rdiv. rewrite (rsumR_zero l H). apply Rmult_0_l. Qed.

Lemma rmeanR_pos l : Forall (fun x => 0 <= x) l -> Exists (fun x => 0 < x) l -> 0 < rmeanR l.
Proof.
  intros H E. assert (Hne : l <> []) by (intros ->; inversion E).
  assert (S : 0 < rsumR l).
  { induction H as [|x l Hx Hl IH]; [contradiction|]. rewrite rsumR_cons. pose proof (rsumR_nonneg l Hl).
    inversion E as [? ? Hp|? ? Hp]; subst; [lra|]. assert (l <> []) by (intros ->; inversion Hp). specialize (IH Hp ltac:(assumption)). lra. }
  unfold rmeanR, Rdiv. apply Rmult_lt_0_compat; [exact S|]. apply Rinv_0_lt_compat. apply INR_length_pos. exact Hne.
Qed.

(* ================= 2. RMSE ================= *)
Lemma sqdiff_nonneg ab : 0 <= sqdiff ab.
Proof. unfold sqdiff. exact (Rle_0_sqr (fst ab - snd ab)). Qed.

Theorem mseR_nonneg t p : 0 <= mseR t p.
Proof.
  unfold mseR. apply rmeanR_nonneg. apply Forall_forall. intros x Hx. apply in_map_iff in Hx. destruct Hx as [ab [<- _]]. apply sqdiff_nonneg.
Qed.

Lemma in_combine_diag {A} (l : list A) ab : In ab (combine l l) -> fst ab = snd ab.
Proof. induction l as [|x l IH]; intros H; [destruct H|]. destruct H as [<-|H]; [reflexivity|apply IH; exact H]. Qed.

Theorem mseR_perfect t : mseR t t = 0.
Proof.
  unfold mseR. apply rmeanR_zero. apply Forall_forall. intros x Hx. apply in_map_iff in Hx. destruct Hx as [ab [<- Hab]].
  unfold pairsR in Hab. apply in_combine_diag in Hab. unfold sqdiff. rewrite Hab. ring.
Qed.

Theorem rmseR_nonneg t p : 0 <= rmseR t p.
Proof. apply sqrt_pos. Qed.

Theorem rmseR_perfect t : rmseR t t = 0.
Proof. unfold rmseR. rewrite mseR_perfect. apply sqrt_0. Qed.

(* declared direction of rmse: minimise; identical predictions attain the minimum.  NO hypothesis on shapes or non-emptiness is needed. *)
Theorem rmse_direction_truthful t p :
  should_maximize Rmse = false /\ rmseR t t = 0 /\ rmseR t t <= rmseR t p.
Proof. split; [reflexivity|]. split; [apply rmseR_perfect|]. rewrite rmseR_perfect. apply rmseR_nonneg. Qed.

(* RMSE and MSE always rank candidates identically *)
Theorem rmse_mse_same_ranking t p p' : mseR t p <= mseR t p' <-> rmseR t p <= rmseR t p'.
Proof.
  unfold rmseR. split; intros H.
  - apply sqrt_le_1; [apply mseR_nonneg|apply mseR_nonneg|exact H].
  - apply sqrt_le_0; [apply mseR_nonneg|apply mseR_nonneg|exact H].
Qed.

Theorem rmse_mse_same_strict_ranking t p p' : mseR t p < mseR t p' <-> rmseR t p < rmseR t p'.
Proof.
  unfold rmseR. split; intros H.
  - apply sqrt_lt_1; [apply mseR_nonneg|apply mseR_nonneg|exact H].
  - apply sqrt_lt_0; [apply mseR_nonneg|apply mseR_nonneg|exact H].
Qed.

Theorem rmse_zero_iff_mse_zero t p : rmseR t p = 0 <-> mseR t p = 0.
Proof.
  unfold rmseR. split; intros H; [apply sqrt_eq_0; [apply mseR_nonneg|exact H]|rewrite H; apply sqrt_0].
Qed.

(* strictness: any differing entry gives a strictly worse score *)
Theorem rmse_strict t p : Exists (fun ab => fst ab <> snd ab) (pairsR t p) -> rmseR t t < rmseR t p.
Proof.
  intros E. rewrite rmseR_perfect. unfold rmseR. apply sqrt_lt_R0. unfold mseR. apply rmeanR_pos.
  - apply Forall_forall. intros x Hx. apply in_map_iff in Hx. destruct Hx as [ab [<- _]]. apply sqdiff_nonneg.
  - apply Exists_exists in E. destruct E as [ab [Hin Hne]]. apply Exists_exists. exists (sqdiff ab). split; [apply in_map; exact Hin|].
    unfold sqdiff. assert (fst ab - snd ab <> 0) by lra. nra.
Qed.

(* ================= 3. log-loss ================= *)
Lemma nth_one_hotR K c j : (j < K)%nat -> nth j (one_hotR K c) 0 = if Nat.eqb j c then 1 else 0.
Proof.
  intros H. unfold one_hotR. set (f := fun j0 : nat => if Nat.eqb j0 c then 1 else 0).
  rewrite (nth_indep _ 0 (f 0%nat)) by (rewrite map_length, seq_length; exact H).
  rewrite map_nth, seq_nth by exact H. reflexivity.
Qed.

Lemma one_hotR_length K c : length (one_hotR K c) = K.
Proof. unfold one_hotR. rewrite map_length. apply seq_length. Qed.

Lemma true_class_probsR_perfect K y : Forall (fun c => (c < K)%nat) y -> Forall (fun q => q = 1) (true_class_probsR y (perfectR K y)).
Proof.
  unfold true_class_probsR, perfectR. induction 1 as [|c y Hc _ IH]; [constructor|]. cbn [map combine fst snd]. constructor; [|exact IH].
  rewrite nth_one_hotR by exact Hc. rewrite Nat.eqb_refl. reflexivity.
Qed.

Lemma true_class_probsR_length y P : length P = length y -> length (true_class_probsR y P) = length y.
Proof. intros H. unfold true_class_probsR. rewrite map_length, combine_length, H. apply Nat.min_id. Qed.

Lemma true_class_probsR_ne K y P : wf_clsR K y P -> true_class_probsR y P <> [].
Proof.
  intros [Hl [_ [_ Hne]]] E. apply (f_equal (@length R)) in E. rewrite true_class_probsR_length in E by exact Hl.
  destruct y; [contradiction|discriminate].
Qed.

Lemma perfectR_wf K y : Forall (fun c => (c < K)%nat) y -> y <> [] -> wf_clsR K y (perfectR K y).
Proof.
  intros Hy Hne. unfold wf_clsR, perfectR. rewrite map_length. repeat split; try assumption.
  apply Forall_forall. intros r Hr. apply in_map_iff in Hr. destruct Hr as [c [<- _]]. apply one_hotR_length.
Qed.

Theorem loglossR_perfect K y : Forall (fun c => (c < K)%nat) y -> loglossR y (perfectR K y) = 0.
Proof. intros Hy. unfold loglossR. apply logloss_perfect. apply true_class_probsR_perfect. exact Hy. Qed.

(* the perfect predictions themselves satisfy the numerical hypothesis *)
Lemma perfectR_true_probs_ok K y : Forall (fun c => (c < K)%nat) y -> true_probs_ok y (perfectR K y).
Proof.
  intros Hy. unfold true_probs_ok. eapply Forall_impl; [|apply true_class_probsR_perfect; exact Hy]. cbn. intros q ->. lra.
Qed.

(* no non-emptiness needed for the sign *)
Lemma logloss_nonneg_gen ps : Forall (fun p => 0 < p <= 1) ps -> 0 <= logloss ps.
Proof.
  intros H. destruct ps as [|p ps]; [|apply logloss_nonneg; [discriminate|exact H]].
  unfold logloss, Rdiv. cbn [map rsumR fold_right]. rewrite Ropp_0, Rmult_0_l. lra.
Qed.

Lemma neg_ln_pos p : 0 < p < 1 -> 0 < - ln p.
Proof. intros [H0 H1]. pose proof (ln_increasing p 1 H0 H1) as G. rewrite ln_1 in G. lra. Qed.

Lemma logloss_as_mean ps : logloss ps = rmeanR (map (fun p => - ln p) ps).
Proof.
  unfold logloss, rmeanR. rewrite map_length. f_equal. induction ps as [|p ps IH]; [cbn; lra|].
  cbn [map]. rewrite !rsumR_cons. lra.
Qed.

Theorem logloss_pos ps : Forall (fun p => 0 < p <= 1) ps -> Exists (fun p => p < 1) ps -> 0 < logloss ps.
Proof.
  intros H E. rewrite logloss_as_mean. apply rmeanR_pos.
  - apply Forall_forall. intros x Hx. apply in_map_iff in Hx. destruct Hx as [p [<- Hp]]. apply neg_ln_nonneg.
    rewrite Forall_forall in H. apply H. exact Hp.
  - apply Exists_exists in E. destruct E as [p [Hin Hlt]]. apply Exists_exists. exists (- ln p). split; [apply (in_map (fun p => - ln p)); exact Hin|].
    apply neg_ln_pos. rewrite Forall_forall in H. specialize (H p Hin). lra.
Qed.

(* declared direction of log-loss: minimise; the one-hot rows of the true labels attain the minimum 0. *)
Theorem logloss_direction_truthful K y P : wf_clsR K y P -> true_probs_ok y P ->
  should_maximize Logloss = false /\ loglossR y (perfectR K y) = 0 /\ loglossR y (perfectR K y) <= loglossR y P.
Proof.
  intros [_ [_ [Hy _]]] Hok. split; [reflexivity|]. split; [apply loglossR_perfect; exact Hy|].
  rewrite (loglossR_perfect K y Hy). unfold loglossR. apply logloss_nonneg_gen. exact Hok.
Qed.

(* strictness *)
Theorem logloss_strict y P : true_probs_ok y P -> Exists (fun q => q < 1) (true_class_probsR y P) -> 0 < loglossR y P.
Proof. intros Hok E. unfold loglossR. apply logloss_pos; assumption. Qed.

Theorem logloss_direction_strict K y P : wf_clsR K y P -> true_probs_ok y P -> Exists (fun q => q < 1) (true_class_probsR y P) ->
  loglossR y (perfectR K y) < loglossR y P.
Proof. intros [_ [_ [Hy _]]] Hok E. rewrite (loglossR_perfect K y Hy). apply logloss_strict; assumption. Qed.

(* the minimum is attained only by giving probability 1 to every true class *)
Theorem logloss_zero_iff y P : true_probs_ok y P -> (loglossR y P = 0 <-> Forall (fun q => q = 1) (true_class_probsR y P)).
Proof.
  intros Hok. split.
  - intros H0. apply Forall_forall. intros q Hq. unfold true_probs_ok in Hok. pose proof Hok as Hok'. rewrite Forall_forall in Hok'.
    destruct (Hok' q Hq) as [Hpos Hle]. destruct (Rle_lt_or_eq_dec _ _ Hle) as [Hlt|Heq]; [|exact Heq]. exfalso.
    assert (0 < loglossR y P) by (apply logloss_strict; [exact Hok|apply Exists_exists; exists q; split; assumption]). lra.
  - intros H. unfold loglossR. apply logloss_perfect. exact H.
Qed.

(* a sufficient, entry-wise form of the hypothesis: all entries of P in (0,1] (e.g. a softmax output, or sklearn's clipped probabilities) *)
Lemma entries_ok_true_probs_ok K y P : wf_clsR K y P -> Forall (Forall (fun q => 0 < q <= 1)) P -> true_probs_ok y P.
Proof.
  intros [Hl [Hr [Hy _]]] HP. unfold true_probs_ok, true_class_probsR. apply Forall_forall. intros q Hq.
  apply in_map_iff in Hq. destruct Hq as [[c r] [<- Hin]]. cbn [fst snd].
  pose proof (in_combine_l _ _ _ _ Hin) as Hc. pose proof (in_combine_r _ _ _ _ Hin) as Hrr.
  rewrite Forall_forall in Hy, Hr, HP. specialize (Hy c Hc). specialize (Hr r Hrr). specialize (HP r Hrr).
  rewrite Forall_forall in HP. apply HP. apply nth_In. rewrite Hr. exact Hy.
Qed.

(* ================= 4. why the hypotheses are there ================= *)
(* constant rows: every true-class probability is eps *)
Lemma true_class_probsR_const K y eps : Forall (fun c => (c < K)%nat) y ->
  true_class_probsR y (map (fun _ => repeat eps K) y) = map (fun _ => eps) y.
Proof.
  unfold true_class_probsR. induction 1 as [|c y Hc _ IH]; [reflexivity|]. cbn [map combine fst snd]. f_equal; [|exact IH].
  clear IH. revert c Hc. induction K as [|K IHK]; intros c Hc; [lia|]. destruct c; [reflexivity|]. cbn. apply IHK. lia.
Qed.

Lemma logloss_const {A} (y : list A) eps : y <> [] -> logloss (map (fun _ => eps) y) = - ln eps.
Proof.
  intros Hne. unfold logloss. rewrite !map_length. pose proof (INR_length_pos y Hne) as Hn.
  assert (E : rsumR (map ln (map (fun _ : A => eps) y)) = INR (length y) * ln eps).
  { clear Hne Hn. induction y as [|a y IH]; [cbn; lra|]. cbn [map]. rewrite rsumR_cons, IH.
    change (length (a :: y)) with (S (length y)). rewrite S_INR. lra. }
  rewrite E. field. lra.
Qed.

(* for every label vector and every bound B there are well-formed predictions, all true-class probabilities in (0,1), whose loss exceeds B:
   log-loss is unbounded on the admissible set, and no finite value can be assigned at true-class probability 0 *)
Theorem logloss_unbounded_needs_positivity K y B : Forall (fun c => (c < K)%nat) y -> y <> [] ->
  exists P, wf_clsR K y P /\ true_probs_ok y P /\ Forall (Forall (fun q => 0 < q < 1)) P /\ loglossR y P > B.
Proof.
  intros Hy Hne. set (eps := exp (- (Rmax B 0 + 1))). exists (map (fun _ => repeat eps K) y).
  assert (Hpos : 0 < eps) by apply exp_pos.
  assert (Hlt : eps < 1).
  { unfold eps. pose proof (Rmax_r B 0) as M. assert (G : - (Rmax B 0 + 1) < 0) by lra.
    apply exp_increasing in G. rewrite exp_0 in G. exact G. }
  split; [|split; [|split]].
  - unfold wf_clsR. rewrite map_length. repeat split; try assumption.
    apply Forall_forall. intros r Hr. apply in_map_iff in Hr. destruct Hr as [c [<- _]]. apply repeat_length.
  - unfold true_probs_ok. rewrite true_class_probsR_const by exact Hy. apply Forall_forall. intros q Hq.
    apply in_map_iff in Hq. destruct Hq as [c [<- _]]. lra.
  - apply Forall_forall. intros r Hr. apply in_map_iff in Hr. destruct Hr as [c [<- _]]. apply Forall_forall. intros q Hq.
    apply repeat_spec in Hq. subst q. lra.
  - unfold loglossR. rewrite true_class_probsR_const by exact Hy. rewrite logloss_const by exact Hne.
    unfold eps. rewrite ln_exp. pose proof (Rmax_l B 0). lra.
Qed.

(* the limit itself, on a 3-sample 3-class instance whose rows are probability vectors: sample 0 gives eps to its true class *)
Definition yL : list nat := [0; 1; 2]%nat.
Definition PL (eps : R) : list (list R) := [[eps; 1 - eps; 0]; [0; 1; 0]; [0; 0; 1]].

Lemma loglossR_PL eps : loglossR yL (PL eps) = - ln eps / 3.
Proof. unfold loglossR, true_class_probsR, logloss, yL, PL. cbn. rewrite ln_1. field. Qed.

Theorem logloss_tends_to_infinity : forall B, exists d, 0 < d /\ forall eps, 0 < eps < d ->
  wf_clsR 3 yL (PL eps) /\ Forall (fun r => rsumR r = 1) (PL eps) /\ loglossR yL (PL eps) > B.
Proof.
  intros B. exists (exp (- (3 * B))). split; [apply exp_pos|]. intros eps [H0 Hd]. split; [|split].
  - unfold wf_clsR, yL, PL. repeat split; try discriminate; repeat constructor.
  - unfold PL. repeat constructor; cbn; lra.
  - rewrite loglossR_PL. assert (ln eps < - (3 * B)).
    { rewrite <- (ln_exp (- (3 * B))). apply ln_increasing; assumption. }
    lra.
Qed.

(* q <= 1 is necessary: a "probability" 2 for the true class beats the perfect predictions *)
Example logloss_direction_needs_le_1 :
  wf_clsR 1 [0%nat] [[2]] /\ ~ true_probs_ok [0%nat] [[2]] /\ loglossR [0%nat] [[2]] < loglossR [0%nat] (perfectR 1 [0%nat]).
Proof.
  split; [unfold wf_clsR; repeat split; try discriminate; repeat constructor|]. split.
  - unfold true_probs_ok, true_class_probsR. cbn. intros H. inversion H as [|? ? [_ Hle] _]; subst. lra.
  - rewrite (loglossR_perfect 1 [0%nat]) by (repeat constructor). unfold loglossR, true_class_probsR, logloss. cbn.
    assert (0 < ln 2) by (rewrite <- ln_1; apply ln_increasing; lra). lra.
Qed.

(* Coq artefact (ln x = 0 for x <= 0): inside Coq a true-class probability 0 gives loss 0; mathematically it is +infinity (see the two
   theorems above), which is why 0 < q is a hypothesis and not derived *)
Lemma ln_at_0 : ln 0 = 0.
Proof. unfold ln. destruct (Rlt_dec 0 0) as [H|H]; [exfalso; lra|reflexivity]. Qed.

Example logloss_at_zero_is_a_coq_artefact : loglossR [0%nat] [[0; 1]] = 0.
Proof.
  unfold loglossR, true_class_probsR, logloss. cbn [combine map fst snd nth length rsumR fold_right INR]. rewrite ln_at_0. lra.
Qed.

(* ================= 5. bridge to the Q model ================= *)
Lemma combine_map {A B} (f : A -> B) : forall a b, combine (map f a) (map f b) = map (fun ab => (f (fst ab), f (snd ab))) (combine a b).
Proof. induction a as [|x a IH]; intros [|z b]; try reflexivity. cbn. f_equal. apply IH. Qed.

Lemma Q2R_qsum l : Q2R (qsum l) = rsumR (map Q2R l).
Proof. induction l as [|x l IH]; [cbn; unfold Q2R; cbn; lra|]. cbn [qsum map]. rewrite rsumR_cons, Q2R_plus, IH. reflexivity. Qed.

Lemma Q2R_inject_nat n : Q2R (inject_Z (Z.of_nat n)) = INR n.
Proof. unfold Q2R. cbn. rewrite INR_IZR_INZ. lra. Qed.

(* no hypothesis: on empty input both sides are 0 *)
Lemma Q2R_qmean l : Q2R (qmean l) = rmeanR (map Q2R l).
Proof.
  unfold qmean, rmeanR. rewrite map_length. destruct l as [|x l].
  - cbn. unfold Q2R. cbn. lra.
  - rewrite Q2R_div.
    + rewrite Q2R_qsum, Q2R_inject_nat. reflexivity.
    + intros E.
      assert (G : Q2R (inject_Z (Z.of_nat (length (x :: l)))) = Q2R 0) by (apply Qeq_eqR; exact E).
      rewrite Q2R_inject_nat in G. rewrite RMicromega.Q2R_0 in G. pose proof (INR_length_pos (x :: l) ltac:(discriminate)). lra.
Qed.

Theorem mseR_bridge t p : mseR (map (map Q2R) t) (map (map Q2R) p) = Q2R (Metrics.mse t p).
Proof.
  unfold mseR, Metrics.mse, pairsR, pairs. rewrite Q2R_qmean. f_equal.
  rewrite <- !concat_map. rewrite combine_map. rewrite !map_map. apply map_ext. intros [a b]. unfold sqdiff. cbn [fst snd].
  rewrite Q2R_mult, Q2R_minus. reflexivity.
Qed.

(* so the RMSE of the Q model's inputs is sqrt of the very quantity Metrics.mse computes, and the ranking theorem transfers *)
Corollary rmseR_bridge t p : rmseR (map (map Q2R) t) (map (map Q2R) p) = sqrt (Q2R (Metrics.mse t p)).
Proof. unfold rmseR. rewrite mseR_bridge. reflexivity. Qed.

Corollary rmse_ranks_as_Q_mse t p p' :
  (Metrics.mse t p <= Metrics.mse t p')%Q <->
  rmseR (map (map Q2R) t) (map (map Q2R) p) <= rmseR (map (map Q2R) t) (map (map Q2R) p').
Proof.
  rewrite <- rmse_mse_same_ranking, !mseR_bridge. split; [apply Qle_Rle|apply Rle_Qle].
Qed.

Lemma true_class_probs_bridge y P : true_class_probsR y (map (map Q2R) P) = map Q2R (true_class_probs y P).
Proof.
  unfold true_class_probsR, true_class_probs. revert P. induction y as [|c y IH]; intros [|r P]; try reflexivity.
  cbn [map combine fst snd]. f_equal; [|apply IH].
  replace 0 with (Q2R 0) by (unfold Q2R; cbn; lra). apply map_nth.
Qed.

(* ================= 6. non-vacuity ================= *)
Definition y3 : list nat := [0; 2; 1]%nat.
Definition P3 : list (list R) := [[7/10; 2/10; 1/10]; [1/10; 3/10; 6/10]; [1/4; 1/2; 1/4]].

Example wf_y3 : wf_clsR 3 y3 P3.
Proof. unfold wf_clsR, y3, P3. repeat split; try discriminate; repeat constructor. Qed.

Example true_probs_y3 : true_class_probsR y3 P3 = [7/10; 6/10; 1/2].
Proof. reflexivity. Qed.

Example ok_y3 : true_probs_ok y3 P3.
Proof. unfold true_probs_ok. rewrite true_probs_y3. repeat constructor; lra. Qed.

Example rows_y3 : Forall (fun r => rsumR r = 1) P3.
Proof. unfold P3. repeat constructor; cbn; lra. Qed.

Example loglossR_y3 : loglossR y3 P3 = - (ln (7/10) + ln (6/10) + ln (1/2)) / 3.
Proof. unfold loglossR. rewrite true_probs_y3. unfold logloss. cbn. field. Qed.

(* the main theorem instantiated: hypotheses satisfiable, conclusion the strict inequality *)
Example logloss_direction_y3 :
  loglossR y3 (perfectR 3 y3) = 0 /\ loglossR y3 (perfectR 3 y3) <= loglossR y3 P3 /\ loglossR y3 (perfectR 3 y3) < loglossR y3 P3.
Proof.
  destruct (logloss_direction_truthful 3 y3 P3 wf_y3 ok_y3) as [_ [A B]]. split; [exact A|]. split; [exact B|].
  apply (logloss_direction_strict 3); [exact wf_y3|exact ok_y3|]. rewrite true_probs_y3. constructor. lra.
Qed.

Example perfectR_y3 : perfectR 3 y3 = [[1; 0; 0]; [0; 0; 1]; [0; 1; 0]].
Proof. reflexivity. Qed.

(* regression: 3 samples; mse 1 and 4, rmse 1 and 2 *)
Definition t3 : list (list R) := [[1]; [2]; [3]].
Definition p3 : list (list R) := [[2]; [3]; [4]].
Definition p3' : list (list R) := [[3]; [4]; [5]].

Example mseR_ex : mseR t3 t3 = 0 /\ mseR t3 p3 = 1 /\ mseR t3 p3' = 4.
Proof. unfold mseR, rmeanR, pairsR, sqdiff, t3, p3, p3'. cbn. repeat split; field. Qed.

Example rmseR_ex : rmseR t3 t3 = 0 /\ rmseR t3 p3 = 1 /\ rmseR t3 p3' = 2.
Proof.
  destruct mseR_ex as [A [B C]]. unfold rmseR. rewrite A, B, C. split; [apply sqrt_0|]. split; [apply sqrt_1|].
  replace 4 with (2 * 2) by lra. apply sqrt_square. lra.
Qed.

Example rmse_direction_ex : rmseR t3 t3 < rmseR t3 p3 /\ rmseR t3 p3 < rmseR t3 p3' /\ mseR t3 p3 < mseR t3 p3'.
Proof.
  destruct (rmse_direction_truthful t3 p3) as [_ [_ H]].
  destruct rmseR_ex as [A [B C]]. destruct mseR_ex as [_ [D E]]. rewrite A, B, C, D, E. repeat split; lra.
Qed.

(* bridge instance: the Q model's mse of [[1;2];[3;4]] vs [[1;1];[5;4]] is 5/4 (MetricsWhole.direction_reg_ex); its RMSE is sqrt(5/4) *)
Example bridge_ex :
  rmseR (map (map Q2R) [[1; 2]; [3; 4]]%Q) (map (map Q2R) [[1; 1]; [5; 4]]%Q) = sqrt (5 / 4).
Proof.
  rewrite rmseR_bridge. apply f_equal. assert (E : (Metrics.mse [[1; 2]; [3; 4]] [[1; 1]; [5; 4]] == 5 # 4)%Q) by (vm_compute; reflexivity).
  rewrite (Qeq_eqR _ _ E). unfold Q2R. cbn. lra.
Qed.

Print Assumptions rmse_direction_truthful.
Print Assumptions rmse_mse_same_ranking.
Print Assumptions logloss_direction_truthful.
Print Assumptions logloss_strict.
Print Assumptions logloss_unbounded_needs_positivity.
Print Assumptions mseR_bridge.
