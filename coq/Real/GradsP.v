(* Derivative theorems for the product, Lpq and sum-power Laplace kernels (analogue of XV.Real.Grads for the L2 kernel). *)
From Coq Require Import Reals List Lra Lia.
From Coquelicot Require Import Coquelicot.
Require Import XV.Real.Kernels XV.Real.Grads.
Import ListNotations.
Local Open Scope R_scope.

(* ---------- definitions ---------- *)
Definition sgn (a : R) : R := if Rlt_dec 0 a then 1 else if Rlt_dec a 0 then -1 else 0.
(* coordinate-wise sum  sum_i g(u_i) * w_i *)
Fixpoint wsum (g : R -> R) (u w : list R) : R := match u, w with a :: u', b :: w' => g a * b + wsum g u' w' | _, _ => 0 end.
Definition dabs_pow (p : R) (a : R) : R := p * Rpower (Rabs a) (p - 1) * sgn a.      (* d/da |a|^p for a <> 0 *)

Definition nz (u : list R) : Prop := List.Forall (fun a => a <> 0) u.

(* product kernel along the line u + s w in transformed space *)
Definition kprod_along (L q : R) (u w : list R) (s : R) : R := exp (- sum_abs_pow q (vaxpy s w u) / Rpower L q).
Definition dprod (L q : R) (u w : list R) : R := - (/ Rpower L q) * exp (- sum_abs_pow q u / Rpower L q) * wsum (dabs_pow q) u w.

Definition klpq_along (L p q : R) (u w : list R) (s : R) : R := exp (- pw (normp p (vaxpy s w u)) q / Rpower L q).
Definition dlpq (L p q : R) (u w : list R) : R :=
  - (/ Rpower L q) * exp (- pw (normp p u) q / Rpower L q) * ((q / p) * Rpower (sum_abs_pow p u) (q / p - 1) * wsum (dabs_pow p) u w).

Definition ksp_along (L q c : R) (power : nat) (u w : list R) (s : R) : R :=
  ((1 - c) * (rsumR (map (fun v => exp (- pw (Rabs v) q / Rpower L q)) (vaxpy s w u)) / INR (length u)) + c) ^ power.
Definition dsp (L q c : R) (power : nat) (u w : list R) : R :=
  INR power * ((1 - c) * (rsumR (map (fun v => exp (- pw (Rabs v) q / Rpower L q)) u) / INR (length u)) + c) ^ (pred power)
    * ((1 - c) / INR (length u)) * wsum (fun a => exp (- pw (Rabs a) q / Rpower L q) * (- / Rpower L q) * dabs_pow q a) u w.

Fixpoint lincomb (k : list R -> R -> R) (us : list (list R)) (cs : list R) (s : R) : R :=
  match us, cs with u :: us', c :: cs' => c * k u s + lincomb k us' cs' s | _, _ => 0 end.
Fixpoint dlincomb (dk : list R -> R) (us : list (list R)) (cs : list R) : R :=
  match us, cs with u :: us', c :: cs' => c * dk u + dlincomb dk us' cs' | _, _ => 0 end.

(* ---------- building block: s |-> |a + s b|^p at s = 0, a <> 0 ---------- *)
Lemma sgn_pos a : 0 < a -> sgn a = 1.
Proof. intros H. unfold sgn. destruct (Rlt_dec 0 a); [reflexivity|contradiction]. Qed.
Lemma sgn_neg a : a < 0 -> sgn a = -1.
Proof. intros H. unfold sgn. destruct (Rlt_dec 0 a); [lra|]. destruct (Rlt_dec a 0); [reflexivity|contradiction]. Qed.
Lemma sgn_0 : sgn 0 = 0.
Proof. unfold sgn. destruct (Rlt_dec 0 0); [lra|]. destruct (Rlt_dec 0 0); [lra|reflexivity]. Qed.

Lemma exp_pm1 p x : 0 < x -> exp ((p - 1) * ln x) = exp (p * ln x) / x.
Proof.
  intros Hx. replace ((p - 1) * ln x) with (p * ln x - ln x) by ring.
  unfold Rminus. rewrite exp_plus, exp_Ropp, exp_ln by exact Hx. reflexivity.
Qed.

Lemma line_continuous a b : continuous (fun s : R => a + s * b) 0.
Proof. apply (ex_derive_continuous (fun s : R => a + s * b)). auto_derive. trivial. Qed.

Lemma abs_pow_line_derive a b p : a <> 0 ->
  is_derive (fun s => pw (Rabs (a + s * b)) p) 0 (dabs_pow p a * b).
Proof.
  intros Ha. assert (Hc := line_continuous a b).
  destruct (Rlt_dec 0 a) as [Hpos|Hnpos].
  - (* a > 0 *)
    assert (Hloc : locally 0 (fun s => exp (p * ln (a + s * b)) = pw (Rabs (a + s * b)) p)).
    { assert (Hp : locally 0 (fun s => 0 < a + s * b)).
      { apply (Hc (fun v => 0 < v)). apply (open_gt 0). ring_simplify. exact Hpos. }
      revert Hp. apply filter_imp. intros s Hs. rewrite Rabs_right by lra. rewrite pw_pos by exact Hs. reflexivity. }
    eapply is_derive_ext_loc; [exact Hloc|].
    unfold dabs_pow. rewrite sgn_pos, Rabs_right by lra. unfold Rpower. rewrite exp_pm1 by exact Hpos.
    auto_derive.
    + ring_simplify (a + 0 * b). exact Hpos.
    + ring_simplify (a + 0 * b). field. lra.
  - (* a < 0 *)
    assert (Hneg : a < 0) by lra.
    assert (Hloc : locally 0 (fun s => exp (p * ln (- (a + s * b))) = pw (Rabs (a + s * b)) p)).
    { assert (Hp : locally 0 (fun s => a + s * b < 0)).
      { apply (Hc (fun v => v < 0)). apply (open_lt 0). ring_simplify. exact Hneg. }
      revert Hp. apply filter_imp. intros s Hs. rewrite Rabs_left by exact Hs. rewrite pw_pos by lra. reflexivity. }
    eapply is_derive_ext_loc; [exact Hloc|].
    unfold dabs_pow. rewrite sgn_neg, Rabs_left by lra. unfold Rpower. rewrite exp_pm1 by lra.
    auto_derive.
    + ring_simplify (a + 0 * b). lra.
    + ring_simplify (a + 0 * b). field. lra.
Qed.

(* ---------- sum over coordinates ---------- *)
Lemma vaxpy_0 : forall u w, length u = length w -> vaxpy 0 w u = u.
Proof.
  induction u as [|a u IH]; intros [|b w] H; try discriminate; cbn; [reflexivity|].
  cbn in H. injection H as H. rewrite (IH w H). f_equal. ring.
Qed.

Lemma is_derive_zero_fun (f : R -> R) : (forall s, f s = 0) -> is_derive f 0 0.
Proof. intros H. apply is_derive_ext with (f := fun _ : R => 0); [intros; symmetry; apply H|apply @is_derive_const]. Qed.

(* generic: a coordinate-wise sum of a scalar profile f along the line, under a coordinate predicate P *)
Lemma wsum_line_derive (P : R -> Prop) (f g : R -> R) :
  (forall a b, P a -> is_derive (fun s => f (a + s * b)) 0 (g a * b)) ->
  forall u w, length u = length w -> List.Forall P u ->
  is_derive (fun s => rsumR (map f (vaxpy s w u))) 0 (wsum g u w).
Proof.
  intros Hf. induction u as [|a u IH]; intros [|b w] Hl Hnz; try discriminate.
  - apply is_derive_zero_fun. intros s. reflexivity.
  - cbn in Hl. injection Hl as Hl. inversion Hnz as [|? ? Ha Hu]; subst.
    cbn [vaxpy map wsum]. unfold rsumR. cbn [fold_right]. fold (rsumR (map f (vaxpy 0 w u))).
    apply (is_derive_plus (fun s => f (a + s * b)) (fun s => rsumR (map f (vaxpy s w u)))).
    + apply Hf. exact Ha.
    + apply IH; assumption.
Qed.

Lemma sum_abs_pow_line_derive p : forall u w, length u = length w -> nz u ->
  is_derive (fun s => sum_abs_pow p (vaxpy s w u)) 0 (wsum (dabs_pow p) u w).
Proof.
  intros u w Hl Hnz. unfold sum_abs_pow.
  apply (wsum_line_derive (fun a => a <> 0) (fun x => pw (Rabs x) p) (dabs_pow p)); [|exact Hl|exact Hnz].
  intros a b Ha. apply abs_pow_line_derive. exact Ha.
Qed.

(* exp (- S / c) for a differentiable S *)
Lemma exp_neg_div_derive (S : R -> R) c dS : is_derive S 0 dS ->
  is_derive (fun s => exp (- S s / c)) 0 (- / c * exp (- S 0 / c) * dS).
Proof.
  intros H. auto_derive.
  - exists dS. exact H.
  - replace (Derive (fun x : R => S x) 0) with dS by (symmetry; apply is_derive_unique; exact H). unfold Rdiv. ring.
Qed.

(* ---------- T1: product kernel ---------- *)
Lemma kprod_along_derive_of_sum L q u w : length u = length w ->
  is_derive (fun s => sum_abs_pow q (vaxpy s w u)) 0 (wsum (dabs_pow q) u w) ->
  is_derive (kprod_along L q u w) 0 (dprod L q u w).
Proof.
  intros Hl HS. unfold kprod_along, dprod.
  assert (H := exp_neg_div_derive (fun s => sum_abs_pow q (vaxpy s w u)) (Rpower L q) _ HS).
  cbv beta in H. rewrite (vaxpy_0 u w Hl) in H. exact H.
Qed.

Theorem kprod_along_derive L q u w : length u = length w -> List.Forall (fun a => a <> 0) u ->
  is_derive (kprod_along L q u w) 0 (dprod L q u w).
Proof.
  intros Hl Hnz. apply kprod_along_derive_of_sum; [exact Hl|]. apply sum_abs_pow_line_derive; assumption.
Qed.

(* ---------- T2: Lpq kernel ---------- *)
Lemma sum_abs_pow_pos p u : u <> [] -> nz u -> 0 < sum_abs_pow p u.
Proof.
  intros Hne Hnz. destruct u as [|a u]; [contradiction|]. inversion Hnz as [|? ? Ha Hu]; subst.
  unfold sum_abs_pow, rsumR. cbn [map fold_right]. fold (rsumR (map (fun x => pw (Rabs x) p) u)). fold (sum_abs_pow p u).
  assert (H1 := sum_abs_pow_nonneg p u).
  assert (H2 : 0 < pw (Rabs a) p). { rewrite pw_pos by (apply Rabs_pos_lt; exact Ha). apply exp_pos. }
  lra.
Qed.

Lemma pw_normp_pos p q v : 0 < sum_abs_pow p v -> pw (normp p v) q = exp (q / p * ln (sum_abs_pow p v)).
Proof.
  intros H. unfold normp. rewrite (pw_pos _ (/ p)) by exact H. rewrite pw_pos by apply exp_pos.
  rewrite Rpower_mult. unfold Rpower. f_equal. unfold Rdiv. ring.
Qed.

Lemma lpq_profile_derive (S : R -> R) r c dS : 0 < S 0 -> is_derive S 0 dS ->
  is_derive (fun s => exp (- exp (r * ln (S s)) / c)) 0
    (- / c * exp (- exp (r * ln (S 0)) / c) * (r * exp ((r - 1) * ln (S 0)) * dS)).
Proof.
  intros Hpos H. rewrite exp_pm1 by exact Hpos. auto_derive.
  - split; [exists dS; exact H|]. split; [exact Hpos|trivial].
  - replace (Derive (fun x : R => S x) 0) with dS by (symmetry; apply is_derive_unique; exact H). unfold Rdiv. ring.
Qed.

(* from the derivative of the inner sum; the inner sum must be positive at s = 0 unless the vector is empty *)
Lemma klpq_along_derive_of_sum L p q u w : length u = length w ->
  is_derive (fun s => sum_abs_pow p (vaxpy s w u)) 0 (wsum (dabs_pow p) u w) ->
  u = [] \/ 0 < sum_abs_pow p u ->
  is_derive (klpq_along L p q u w) 0 (dlpq L p q u w).
Proof.
  intros Hl HS [Eu|Hpos0].
  - subst u. destruct w as [|b w]; [|discriminate]. unfold dlpq. cbn [wsum].
    replace (- / Rpower L q * exp (- pw (normp p []) q / Rpower L q) * (q / p * Rpower (sum_abs_pow p []) (q / p - 1) * 0)) with 0 by ring.
    apply is_derive_ext with (f := fun _ : R => exp (- pw (normp p []) q / Rpower L q)); [intros s; reflexivity|apply @is_derive_const].
  - set (S := fun s : R => sum_abs_pow p (vaxpy s w u)).
    change (is_derive S 0 (wsum (dabs_pow p) u w)) in HS.
    assert (HS0 : S 0 = sum_abs_pow p u) by (unfold S; rewrite (vaxpy_0 u w Hl); reflexivity).
    assert (Hpos : 0 < S 0) by (rewrite HS0; exact Hpos0).
    assert (Hc : continuous S 0) by (apply (ex_derive_continuous S 0); eexists; exact HS).
    assert (Hloc : locally 0 (fun s => exp (- exp (q / p * ln (S s)) / Rpower L q) = klpq_along L p q u w s)).
    { assert (Hp : locally 0 (fun s => 0 < S s)) by (apply (Hc (fun v => 0 < v)); apply (open_gt 0); exact Hpos).
      revert Hp. apply filter_imp. intros s Hs. unfold klpq_along. rewrite pw_normp_pos by exact Hs. reflexivity. }
    eapply is_derive_ext_loc; [exact Hloc|].
    assert (H := lpq_profile_derive S (q / p) (Rpower L q) _ Hpos HS).
    unfold dlpq. rewrite pw_normp_pos by (rewrite <- HS0; exact Hpos). unfold Rpower at 3. rewrite <- HS0. exact H.
Qed.

(* stronger form: no hypothesis on p and the empty vector allowed *)
Lemma klpq_along_derive_gen L p q u w : length u = length w -> nz u ->
  is_derive (klpq_along L p q u w) 0 (dlpq L p q u w).
Proof.
  intros Hl Hnz. apply klpq_along_derive_of_sum; [exact Hl|apply sum_abs_pow_line_derive; assumption|].
  destruct u as [|a u]; [left; reflexivity|right; apply sum_abs_pow_pos; [discriminate|exact Hnz]].
Qed.

(* the hypotheses u <> [] and 0 < p of the specification are not needed (klpq_along_derive_gen); kept as specified *)
Theorem klpq_along_derive L p q u w : length u = length w -> List.Forall (fun a => a <> 0) u -> u <> [] -> 0 < p ->
  is_derive (klpq_along L p q u w) 0 (dlpq L p q u w).
Proof. intros Hl Hnz _ _. apply klpq_along_derive_gen; assumption. Qed.

(* ---------- T3: sum-power kernel ---------- *)
Definition spcoord (L q : R) (v : R) : R := exp (- pw (Rabs v) q / Rpower L q).
Definition dspcoord (L q : R) (a : R) : R := exp (- pw (Rabs a) q / Rpower L q) * (- / Rpower L q) * dabs_pow q a.

Lemma spcoord_line_derive_of L q a b :
  is_derive (fun s => pw (Rabs (a + s * b)) q) 0 (dabs_pow q a * b) ->
  is_derive (fun s => spcoord L q (a + s * b)) 0 (dspcoord L q a * b).
Proof.
  intros Ha. unfold spcoord, dspcoord.
  assert (H := exp_neg_div_derive (fun s => pw (Rabs (a + s * b)) q) (Rpower L q) _ Ha). cbv beta in H.
  replace (a + 0 * b) with a in H by ring.
  replace (exp (- pw (Rabs a) q / Rpower L q) * - / Rpower L q * dabs_pow q a * b)
    with (- / Rpower L q * exp (- pw (Rabs a) q / Rpower L q) * (dabs_pow q a * b)) by ring.
  exact H.
Qed.

Lemma affine_pow_derive (Rf : R -> R) c n (power : nat) dR : is_derive Rf 0 dR ->
  is_derive (fun s => ((1 - c) * (Rf s / n) + c) ^ power) 0
    (INR power * ((1 - c) * (Rf 0 / n) + c) ^ (pred power) * ((1 - c) / n) * dR).
Proof.
  intros H.
  assert (Hin : is_derive (fun s => (1 - c) * (Rf s / n) + c) 0 ((1 - c) / n * dR)).
  { auto_derive.
    - exists dR. exact H.
    - replace (Derive (fun x : R => Rf x) 0) with dR by (symmetry; apply is_derive_unique; exact H). unfold Rdiv. ring. }
  assert (Hp := is_derive_pow _ power 0 _ Hin). cbv beta in Hp.
  replace (INR power * ((1 - c) * (Rf 0 / n) + c) ^ Init.Nat.pred power * ((1 - c) / n) * dR)
    with (INR power * ((1 - c) / n * dR) * ((1 - c) * (Rf 0 / n) + c) ^ Init.Nat.pred power) by ring.
  exact Hp.
Qed.

Lemma ksp_along_derive_of_sum L q c power u w : length u = length w ->
  is_derive (fun s => rsumR (map (spcoord L q) (vaxpy s w u))) 0 (wsum (dspcoord L q) u w) ->
  is_derive (ksp_along L q c power u w) 0 (dsp L q c power u w).
Proof.
  intros Hl HR.
  assert (H := affine_pow_derive _ c (INR (length u)) power _ HR). cbv beta in H.
  rewrite (vaxpy_0 u w Hl) in H. exact H.
Qed.

Theorem ksp_along_derive L q c power u w : length u = length w -> List.Forall (fun a => a <> 0) u ->
  is_derive (ksp_along L q c power u w) 0 (dsp L q c power u w).
Proof.
  intros Hl Hnz. apply ksp_along_derive_of_sum; [exact Hl|].
  apply (wsum_line_derive (fun a => a <> 0) (spcoord L q) (dspcoord L q)); [|exact Hl|exact Hnz].
  intros a b Ha. apply spcoord_line_derive_of. apply abs_pow_line_derive. exact Ha.
Qed.

(* ---------- T4: generic linear combination ---------- *)
Theorem lincomb_derive (k : list R -> R -> R) (dk : list R -> R) : forall us cs,
  List.Forall (fun u => is_derive (k u) 0 (dk u)) us -> is_derive (lincomb k us cs) 0 (dlincomb dk us cs).
Proof.
  induction us as [|u us IH]; intros cs H.
  - apply is_derive_zero_fun. intros s. reflexivity.
  - destruct cs as [|c cs]; [apply is_derive_zero_fun; intros s; reflexivity|].
    inversion H as [|? ? Hu Hrest]; subst. cbn [lincomb dlincomb].
    apply (is_derive_plus (fun s => c * k u s) (lincomb k us cs)).
    + apply (is_derive_scal (k u) 0 c). exact Hu.
    + apply IH. exact Hrest.
Qed.

(* ---------- T5-T7: the predictor along an input-space line is a lincomb in transformed space ---------- *)
(* even scalar profiles commute with swapping the difference *)
Lemma map_even_vsub (f : R -> R) : (forall x y, f (x - y) = f (y - x)) -> forall a b, map f (vsubR a b) = map f (vsubR b a).
Proof.
  intros Hf. induction a as [|x a IH]; intros [|y b]; cbn; try reflexivity. rewrite Hf, (IH b). reflexivity.
Qed.

Lemma abs_pow_even p x y : pw (Rabs (x - y)) p = pw (Rabs (y - x)) p.
Proof. rewrite Rabs_minus_sym. reflexivity. Qed.

Lemma sum_abs_pow_even p a b : sum_abs_pow p (vsubR a b) = sum_abs_pow p (vsubR b a).
Proof. unfold sum_abs_pow. rewrite (map_even_vsub _ (fun x y => abs_pow_even p x y)). reflexivity. Qed.

Lemma vsubR_length_sym (a b : list R) : length (vsubR a b) = length (vsubR b a).
Proof.
  rewrite <- (map_length (fun _ : R => 0) (vsubR a b)), <- (map_length (fun _ : R => 0) (vsubR b a)).
  f_equal. apply map_even_vsub. reflexivity.
Qed.

(* T(x - (z + s e)) = Tx - Tz'  and  T(z - x) + s T(e) = Tz' - Tx *)
Lemma line_swap t x z e s : wf_tmat t (length z) -> length e = length z -> length x = length z ->
  transform t (vsubR x (vaxpy s e z)) = vsubR (transform t x) (transform t (vaxpy s e z)) /\
  vaxpy s (transform t e) (transform t (vsubR z x)) = vsubR (transform t (vaxpy s e z)) (transform t x).
Proof.
  intros Hw He Hx.
  assert (Hz' : length (vaxpy s e z) = length z) by (apply vaxpy_length; exact He).
  split.
  - symmetry. apply transform_sub; [rewrite Hz'; exact Hx|rewrite Hx; exact Hw].
  - rewrite <- transform_axpy.
    + rewrite <- vaxpy_sub by (try exact He; symmetry; exact Hx).
      symmetry. apply transform_sub; [rewrite Hz'; symmetry; exact Hx|rewrite Hz'; exact Hw].
    + rewrite vsubR_length by (symmetry; exact Hx). exact He.
    + rewrite vsubR_length by (symmetry; exact Hx). exact Hw.
Qed.

(* the length of a transformed vector depends only on the length of the vector *)
Lemma vmulR_length_eq : forall (a b m : list R), length a = length b -> length (vmulR a m) = length (vmulR b m).
Proof.
  induction a as [|x a IH]; intros [|y b] [|c m] H; try discriminate; cbn; try reflexivity.
  cbn in H. injection H as H. rewrite (IH b m H). reflexivity.
Qed.

Lemma transform_length_eq t a b : length a = length b -> wf_tmat t (length a) -> length (transform t a) = length (transform t b).
Proof.
  intros Hl Hw. destruct t as [|m|dout rows]; cbn; [exact Hl|apply vmulR_length_eq; exact Hl|].
  destruct Hw as [_ Hr]. rewrite !xmat_length by exact Hr. reflexivity.
Qed.

Lemma transform_diff_length t z x e : wf_tmat t (length z) -> length e = length z -> length x = length z ->
  length (transform t (vsubR z x)) = length (transform t e).
Proof.
  intros Hw He Hx. apply transform_length_eq; rewrite vsubR_length by (symmetry; exact Hx); [symmetry; exact He|exact Hw].
Qed.

(* generic: if k x (z + s e) = ka (T(z - x)) s for every admissible center, the predictor is the lincomb *)
Lemma predictor_lincomb (k : list R -> list R -> R) (ka : list R -> R -> R) t z e :
  (forall x s, length x = length z -> k x (vaxpy s e z) = ka (transform t (vsubR z x)) s) ->
  forall xs cs, List.Forall (fun x => length x = length z) xs ->
  forall s, fpred k xs cs (vaxpy s e z) = lincomb ka (map (fun x => transform t (vsubR z x)) xs) cs s.
Proof.
  intros Hk. induction xs as [|x xs IH]; intros cs Hx s; [reflexivity|]. destruct cs as [|c cs]; [reflexivity|].
  inversion Hx as [|? ? Hx1 Hxs]; subst. cbn [fpred map lincomb]. rewrite (IH cs Hxs s), (Hk x s Hx1). reflexivity.
Qed.

Theorem product_predictor_along_line t L q xs cs z e : wf_tmat t (length z) -> length e = length z ->
  List.Forall (fun x => length x = length z) xs ->
  forall s, fpred (closed_product t L q) xs cs (vaxpy s e z)
          = lincomb (fun u => kprod_along L q u (transform t e)) (map (fun x => transform t (vsubR z x)) xs) cs s.
Proof.
  intros Hw He Hx. apply (predictor_lincomb (closed_product t L q) (fun u => kprod_along L q u (transform t e))); [|exact Hx].
  intros x s Hx1. unfold closed_product, kprod_along.
  destruct (line_swap t x z e s Hw He Hx1) as [E1 E2]. rewrite E1, E2, sum_abs_pow_even. reflexivity.
Qed.

Theorem lpq_predictor_along_line t L p q xs cs z e : wf_tmat t (length z) -> length e = length z ->
  List.Forall (fun x => length x = length z) xs ->
  forall s, fpred (closed_lpq t L p q) xs cs (vaxpy s e z)
          = lincomb (fun u => klpq_along L p q u (transform t e)) (map (fun x => transform t (vsubR z x)) xs) cs s.
Proof.
  intros Hw He Hx. apply (predictor_lincomb (closed_lpq t L p q) (fun u => klpq_along L p q u (transform t e))); [|exact Hx].
  intros x s Hx1. unfold closed_lpq, klpq_along, normp.
  destruct (line_swap t x z e s Hw He Hx1) as [E1 E2]. rewrite E1, E2, sum_abs_pow_even. reflexivity.
Qed.

(* no extra hypothesis is needed for the sum-power kernel: the length of the transformed difference is determined by wf_tmat
   (transform_diff_length), so INR (length dif) is the same constant along the whole line *)
Theorem sum_power_predictor_along_line t L q c power xs cs z e : wf_tmat t (length z) -> length e = length z ->
  List.Forall (fun x => length x = length z) xs ->
  forall s, fpred (closed_sum_power t L q c power) xs cs (vaxpy s e z)
          = lincomb (fun u => ksp_along L q c power u (transform t e)) (map (fun x => transform t (vsubR z x)) xs) cs s.
Proof.
  intros Hw He Hx. apply (predictor_lincomb (closed_sum_power t L q c power) (fun u => ksp_along L q c power u (transform t e))); [|exact Hx].
  intros x s Hx1. unfold closed_sum_power, ksp_along. cbv zeta.
  destruct (line_swap t x z e s Hw He Hx1) as [E1 E2]. rewrite E1, E2.
  assert (El : length (vsubR (transform t x) (transform t (vaxpy s e z))) = length (transform t (vsubR z x))).
  { rewrite vsubR_length_sym, <- E2. apply vaxpy_length. symmetry. apply transform_diff_length; assumption. }
  rewrite El. rewrite (map_even_vsub _ (fun a b => f_equal (fun v => exp (- v / Rpower L q)) (abs_pow_even q a b))). reflexivity.
Qed.

(* ---------- T8-T10: the closed forms are the derivatives of the predictor along input-space lines ---------- *)
Lemma predictor_gradient (k : list R -> list R -> R) (ka : list R -> R -> R) (dk : list R -> R) t xs cs z e :
  (forall s, fpred k xs cs (vaxpy s e z) = lincomb ka (map (fun x => transform t (vsubR z x)) xs) cs s) ->
  List.Forall (fun x => is_derive (ka (transform t (vsubR z x))) 0 (dk (transform t (vsubR z x)))) xs ->
  is_derive (fun s => fpred k xs cs (vaxpy s e z)) 0 (dlincomb dk (map (fun x => transform t (vsubR z x)) xs) cs).
Proof.
  intros Heq Hd. apply is_derive_ext with (f := lincomb ka (map (fun x => transform t (vsubR z x)) xs) cs); [intros s; symmetry; apply Heq|].
  apply lincomb_derive. apply Forall_forall. intros u Hu. apply in_map_iff in Hu. destruct Hu as [x [<- Hx]].
  rewrite Forall_forall in Hd. apply Hd. exact Hx.
Qed.

(* stronger forms: the length condition on the transformed differences follows from wf_tmat (transform_diff_length) *)
Theorem product_gradient_is_derivative_nz t L q xs cs z e : wf_tmat t (length z) -> length e = length z ->
  List.Forall (fun x => length x = length z) xs ->
  List.Forall (fun x => nz (transform t (vsubR z x))) xs ->
  is_derive (fun s => fpred (closed_product t L q) xs cs (vaxpy s e z)) 0
    (dlincomb (fun u => dprod L q u (transform t e)) (map (fun x => transform t (vsubR z x)) xs) cs).
Proof.
  intros Hw He Hx Hnz.
  apply (predictor_gradient _ (fun u => kprod_along L q u (transform t e)) (fun u => dprod L q u (transform t e)));
    [apply product_predictor_along_line; assumption|].
  rewrite Forall_forall in *. intros x Hin. apply kprod_along_derive; [apply transform_diff_length; auto|apply Hnz; exact Hin].
Qed.

Theorem lpq_gradient_is_derivative_nz t L p q xs cs z e : wf_tmat t (length z) -> length e = length z ->
  List.Forall (fun x => length x = length z) xs ->
  List.Forall (fun x => nz (transform t (vsubR z x))) xs ->
  is_derive (fun s => fpred (closed_lpq t L p q) xs cs (vaxpy s e z)) 0
    (dlincomb (fun u => dlpq L p q u (transform t e)) (map (fun x => transform t (vsubR z x)) xs) cs).
Proof.
  intros Hw He Hx Hnz.
  apply (predictor_gradient _ (fun u => klpq_along L p q u (transform t e)) (fun u => dlpq L p q u (transform t e)));
    [apply lpq_predictor_along_line; assumption|].
  rewrite Forall_forall in *. intros x Hin. apply klpq_along_derive_gen; [apply transform_diff_length; auto|apply Hnz; exact Hin].
Qed.

Theorem sum_power_gradient_is_derivative_nz t L q c power xs cs z e : wf_tmat t (length z) -> length e = length z ->
  List.Forall (fun x => length x = length z) xs ->
  List.Forall (fun x => nz (transform t (vsubR z x))) xs ->
  is_derive (fun s => fpred (closed_sum_power t L q c power) xs cs (vaxpy s e z)) 0
    (dlincomb (fun u => dsp L q c power u (transform t e)) (map (fun x => transform t (vsubR z x)) xs) cs).
Proof.
  intros Hw He Hx Hnz.
  apply (predictor_gradient _ (fun u => ksp_along L q c power u (transform t e)) (fun u => dsp L q c power u (transform t e)));
    [apply sum_power_predictor_along_line; assumption|].
  rewrite Forall_forall in *. intros x Hin. apply ksp_along_derive; [apply transform_diff_length; auto|apply Hnz; exact Hin].
Qed.

(* T8-T10 in the specified form (with the redundant length conjunct) *)
Theorem product_gradient_is_derivative t L q xs cs z e : wf_tmat t (length z) -> length e = length z ->
  List.Forall (fun x => length x = length z) xs ->
  List.Forall (fun x => nz (transform t (vsubR z x)) /\ length (transform t (vsubR z x)) = length (transform t e)) xs ->
  is_derive (fun s => fpred (closed_product t L q) xs cs (vaxpy s e z)) 0
    (dlincomb (fun u => dprod L q u (transform t e)) (map (fun x => transform t (vsubR z x)) xs) cs).
Proof.
  intros Hw He Hx H. apply product_gradient_is_derivative_nz; try assumption.
  revert H. apply Forall_impl. intros x [Hn _]. exact Hn.
Qed.

(* the Lpq theorem needs neither 0 < p nor non-emptiness (see klpq_along_derive_gen) *)
Theorem lpq_gradient_is_derivative t L p q xs cs z e : wf_tmat t (length z) -> length e = length z ->
  List.Forall (fun x => length x = length z) xs ->
  List.Forall (fun x => nz (transform t (vsubR z x)) /\ length (transform t (vsubR z x)) = length (transform t e)) xs ->
  is_derive (fun s => fpred (closed_lpq t L p q) xs cs (vaxpy s e z)) 0
    (dlincomb (fun u => dlpq L p q u (transform t e)) (map (fun x => transform t (vsubR z x)) xs) cs).
Proof.
  intros Hw He Hx H. apply lpq_gradient_is_derivative_nz; try assumption.
  revert H. apply Forall_impl. intros x [Hn _]. exact Hn.
Qed.

Theorem sum_power_gradient_is_derivative t L q c power xs cs z e : wf_tmat t (length z) -> length e = length z ->
  List.Forall (fun x => length x = length z) xs ->
  List.Forall (fun x => nz (transform t (vsubR z x)) /\ length (transform t (vsubR z x)) = length (transform t e)) xs ->
  is_derive (fun s => fpred (closed_sum_power t L q c power) xs cs (vaxpy s e z)) 0
    (dlincomb (fun u => dsp L q c power u (transform t e)) (map (fun x => transform t (vsubR z x)) xs) cs).
Proof.
  intros Hw He Hx H. apply sum_power_gradient_is_derivative_nz; try assumption.
  revert H. apply Forall_impl. intros x [Hn _]. exact Hn.
Qed.

(* ---------- extra: exponent > 1, vanishing coordinates allowed ---------- *)
(* x |-> |x|^q is differentiable at 0 with derivative 0 when q > 1 *)
Lemma abs_pow_derive_0 q : 1 < q -> is_derive (fun x => pw (Rabs x) q) 0 0.
Proof.
  intros Hq. apply is_derive_Reals. intros eps Heps.
  assert (Hd : 0 < Rpower eps (/ (q - 1))) by apply exp_pos.
  exists (mkposreal _ Hd). intros h Hh Hlt. cbn [pos] in Hlt.
  rewrite Rplus_0_l, Rabs_R0, pw_0, Rminus_0_r, Rminus_0_r.
  assert (Hah : 0 < Rabs h) by (apply Rabs_pos_lt; exact Hh).
  rewrite pw_pos by exact Hah.
  unfold Rdiv. rewrite Rabs_mult, Rabs_inv, (Rabs_right (Rpower (Rabs h) q)) by (left; apply exp_pos).
  replace (Rpower (Rabs h) q * / Rabs h) with (Rpower (Rabs h) (q - 1)).
  - assert (H1 : Rpower (Rabs h) (q - 1) < Rpower (Rpower eps (/ (q - 1))) (q - 1)).
    { apply Rlt_Rpower_l; [lra|]. split; assumption. }
    rewrite Rpower_mult, Rinv_l, Rpower_1 in H1 by lra. exact H1.
  - unfold Rminus. rewrite Rpower_plus, Rpower_Ropp, Rpower_1 by exact Hah. reflexivity.
Qed.

Lemma dabs_pow_0 p : dabs_pow p 0 = 0.
Proof. unfold dabs_pow. rewrite sgn_0. ring. Qed.

Lemma abs_pow_line_derive_gt1 p a b : 1 < p ->
  is_derive (fun s => pw (Rabs (a + s * b)) p) 0 (dabs_pow p a * b).
Proof.
  intros Hp. destruct (Req_EM_T a 0) as [->|Ha]; [|apply abs_pow_line_derive; exact Ha].
  assert (Hg : is_derive (fun s : R => 0 + s * b) 0 b) by (auto_derive; [trivial|ring]).
  assert (Hf : is_derive (fun x => pw (Rabs x) p) (0 + 0 * b) 0).
  { replace (0 + 0 * b) with 0 by ring. apply abs_pow_derive_0. exact Hp. }
  assert (H := is_derive_comp (fun x : R => pw (Rabs x) p) (fun s : R => 0 + s * b) 0 0 b Hf Hg). cbv beta in H.
  replace (dabs_pow p 0 * b) with (scal b 0); [exact H|].
  rewrite dabs_pow_0. change (b * 0 = 0 * b). ring.
Qed.

Lemma Forall_True (u : list R) : List.Forall (fun _ : R => True) u.
Proof. apply Forall_forall. intros; exact I. Qed.

Lemma sum_abs_pow_line_derive_gt1 p u w : 1 < p -> length u = length w ->
  is_derive (fun s => sum_abs_pow p (vaxpy s w u)) 0 (wsum (dabs_pow p) u w).
Proof.
  intros Hp Hl. unfold sum_abs_pow.
  apply (wsum_line_derive (fun _ => True) (fun x => pw (Rabs x) p) (dabs_pow p)); [|exact Hl|apply Forall_True].
  intros a b _. apply abs_pow_line_derive_gt1. exact Hp.
Qed.

Theorem kprod_along_derive_q_gt_1 L q u w : 1 < q -> length u = length w ->
  is_derive (kprod_along L q u w) 0 (dprod L q u w).
Proof. intros Hq Hl. apply kprod_along_derive_of_sum; [exact Hl|]. apply sum_abs_pow_line_derive_gt1; assumption. Qed.

Theorem ksp_along_derive_q_gt_1 L q c power u w : 1 < q -> length u = length w ->
  is_derive (ksp_along L q c power u w) 0 (dsp L q c power u w).
Proof.
  intros Hq Hl. apply ksp_along_derive_of_sum; [exact Hl|].
  apply (wsum_line_derive (fun _ => True) (spcoord L q) (dspcoord L q)); [|exact Hl|apply Forall_True].
  intros a b _. apply spcoord_line_derive_of. apply abs_pow_line_derive_gt1. exact Hq.
Qed.

Lemma sum_abs_pow_pos_exists p u : List.Exists (fun a => a <> 0) u -> 0 < sum_abs_pow p u.
Proof.
  induction 1 as [a u Ha|a u Hu IH].
  - unfold sum_abs_pow, rsumR. cbn [map fold_right]. fold (rsumR (map (fun x => pw (Rabs x) p) u)). fold (sum_abs_pow p u).
    assert (H1 := sum_abs_pow_nonneg p u).
    assert (H2 : 0 < pw (Rabs a) p). { rewrite pw_pos by (apply Rabs_pos_lt; exact Ha). apply exp_pos. }
    lra.
  - unfold sum_abs_pow, rsumR. cbn [map fold_right]. fold (rsumR (map (fun x => pw (Rabs x) p) u)). fold (sum_abs_pow p u).
    assert (H2 : 0 <= pw (Rabs a) p) by (apply pw_nonneg, Rabs_pos). lra.
Qed.

(* Lpq with p > 1: only the whole difference must be non-zero (the norm itself is not differentiable at the origin) *)
Theorem klpq_along_derive_p_gt_1 L p q u w : 1 < p -> length u = length w -> List.Exists (fun a => a <> 0) u ->
  is_derive (klpq_along L p q u w) 0 (dlpq L p q u w).
Proof.
  intros Hp Hl Hex. apply klpq_along_derive_of_sum; [exact Hl|apply sum_abs_pow_line_derive_gt1; assumption|].
  right. apply sum_abs_pow_pos_exists. exact Hex.
Qed.

Theorem product_gradient_is_derivative_q_gt_1 t L q xs cs z e : 1 < q -> wf_tmat t (length z) -> length e = length z ->
  List.Forall (fun x => length x = length z) xs ->
  is_derive (fun s => fpred (closed_product t L q) xs cs (vaxpy s e z)) 0
    (dlincomb (fun u => dprod L q u (transform t e)) (map (fun x => transform t (vsubR z x)) xs) cs).
Proof.
  intros Hq Hw He Hx.
  apply (predictor_gradient _ (fun u => kprod_along L q u (transform t e)) (fun u => dprod L q u (transform t e)));
    [apply product_predictor_along_line; assumption|].
  rewrite Forall_forall in *. intros x Hin. apply kprod_along_derive_q_gt_1; [exact Hq|apply transform_diff_length; auto].
Qed.

Theorem sum_power_gradient_is_derivative_q_gt_1 t L q c power xs cs z e : 1 < q -> wf_tmat t (length z) -> length e = length z ->
  List.Forall (fun x => length x = length z) xs ->
  is_derive (fun s => fpred (closed_sum_power t L q c power) xs cs (vaxpy s e z)) 0
    (dlincomb (fun u => dsp L q c power u (transform t e)) (map (fun x => transform t (vsubR z x)) xs) cs).
Proof.
  intros Hq Hw He Hx.
  apply (predictor_gradient _ (fun u => ksp_along L q c power u (transform t e)) (fun u => dsp L q c power u (transform t e)));
    [apply sum_power_predictor_along_line; assumption|].
  rewrite Forall_forall in *. intros x Hin. apply ksp_along_derive_q_gt_1; [exact Hq|apply transform_diff_length; auto].
Qed.

Theorem lpq_gradient_is_derivative_p_gt_1 t L p q xs cs z e : 1 < p -> wf_tmat t (length z) -> length e = length z ->
  List.Forall (fun x => length x = length z) xs ->
  List.Forall (fun x => List.Exists (fun a => a <> 0) (transform t (vsubR z x))) xs ->
  is_derive (fun s => fpred (closed_lpq t L p q) xs cs (vaxpy s e z)) 0
    (dlincomb (fun u => dlpq L p q u (transform t e)) (map (fun x => transform t (vsubR z x)) xs) cs).
Proof.
  intros Hp Hw He Hx Hex.
  apply (predictor_gradient _ (fun u => klpq_along L p q u (transform t e)) (fun u => dlpq L p q u (transform t e)));
    [apply lpq_predictor_along_line; assumption|].
  rewrite Forall_forall in *. intros x Hin. apply klpq_along_derive_p_gt_1; [exact Hp|apply transform_diff_length; auto|apply Hex; exact Hin].
Qed.

(* ---------- the hypothesis nz is needed for q <= 1: |s|^1 has no derivative at 0 ---------- *)
Lemma abs_pow_not_derivable_q1 l : ~ is_derive (fun s => pw (Rabs (0 + s * 1)) 1) 0 l.
Proof.
  intros H. apply is_derive_Reals in H. destruct (H (1 / 2)) as [delta Hd]; [lra|].
  assert (Hdp := cond_pos delta).
  assert (E : forall h, pw (Rabs (0 + (0 + h) * 1)) 1 = Rabs h).
  { intros h. replace (0 + (0 + h) * 1) with h by ring. apply pw_one, Rabs_pos. }
  assert (E0 : pw (Rabs (0 + 0 * 1)) 1 = 0) by (replace (0 + 0 * 1) with 0 by ring; rewrite Rabs_R0; apply pw_0).
  assert (H1 := Hd (delta / 2)). assert (H2 := Hd (- (delta / 2))).
  rewrite E, E0 in H1, H2.
  rewrite Rabs_right in H1 by lra. rewrite Rabs_left in H2 by lra.
  specialize (H1 ltac:(lra) ltac:(lra)). specialize (H2 ltac:(lra) ltac:(lra)).
  replace ((delta / 2 - 0) / (delta / 2) - l) with (1 - l) in H1 by (field; lra).
  replace ((- - (delta / 2) - 0) / - (delta / 2) - l) with (- 1 - l) in H2 by (field; lra).
  apply Rabs_def2 in H1. apply Rabs_def2 in H2. lra.
Qed.

(* ---------- examples: the hypotheses are satisfiable on concrete non-trivial instances ---------- *)
Example ex_kprod_along_derive :
  is_derive (kprod_along 2 (1 / 2) [1; -2; 3] [1; 0; -1]) 0 (dprod 2 (1 / 2) [1; -2; 3] [1; 0; -1]).
Proof. apply kprod_along_derive; [reflexivity|repeat constructor; lra]. Qed.

Example ex_klpq_along_derive :
  is_derive (klpq_along 2 (3 / 2) 1 [1; -2; 3] [1; 0; -1]) 0 (dlpq 2 (3 / 2) 1 [1; -2; 3] [1; 0; -1]).
Proof. apply klpq_along_derive; [reflexivity|repeat constructor; lra|discriminate|lra]. Qed.

Example ex_ksp_along_derive :
  is_derive (ksp_along 2 (1 / 2) (1 / 4) 2 [1; -2; 3] [1; 0; -1]) 0 (dsp 2 (1 / 2) (1 / 4) 2 [1; -2; 3] [1; 0; -1]).
Proof. apply ksp_along_derive; [reflexivity|repeat constructor; lra]. Qed.

Example ex_lincomb_derive :
  is_derive (lincomb (fun u => kprod_along 2 1 u [1; 1]) [[1; -2]; [3; 1]] [2; -1]) 0
            (dlincomb (fun u => dprod 2 1 u [1; 1]) [[1; -2]; [3; 1]] [2; -1]).
Proof.
  apply (lincomb_derive (fun u => kprod_along 2 1 u [1; 1]) (fun u => dprod 2 1 u [1; 1])).
  repeat constructor; apply kprod_along_derive; try reflexivity; repeat constructor; lra.
Qed.

(* a non-symmetric full transform, two centers, the first coordinate direction *)
Definition exT : tmat := TFull 2 [[1; 2]; [0; 1]].
Definition exz : list R := [1; 2].
Definition exe : list R := [1; 0].
Definition exxs : list (list R) := [[0; 0]; [3; 5]].
Definition excs : list R := [2; -1].

Lemma ex_wf : wf_tmat exT (length exz).
Proof. cbn. split; [reflexivity|repeat constructor]. Qed.
Lemma ex_len : List.Forall (fun x => length x = length exz) exxs.
Proof. repeat constructor. Qed.
Lemma ex_nz : List.Forall (fun x => nz (transform exT (vsubR exz x)) /\ length (transform exT (vsubR exz x)) = length (transform exT exe)) exxs.
Proof.
  unfold exxs, exz, exe, exT, nz. cbv [transform xmat vsubR vaddR vscaleR map repeat].
  repeat constructor; lra.
Qed.

Example ex_product_predictor_along_line s :
  fpred (closed_product exT 2 (1 / 2)) exxs excs (vaxpy s exe exz)
  = lincomb (fun u => kprod_along 2 (1 / 2) u (transform exT exe)) (map (fun x => transform exT (vsubR exz x)) exxs) excs s.
Proof. apply product_predictor_along_line; [exact ex_wf|reflexivity|exact ex_len]. Qed.

Example ex_lpq_predictor_along_line s :
  fpred (closed_lpq exT 2 (3 / 2) 1) exxs excs (vaxpy s exe exz)
  = lincomb (fun u => klpq_along 2 (3 / 2) 1 u (transform exT exe)) (map (fun x => transform exT (vsubR exz x)) exxs) excs s.
Proof. apply lpq_predictor_along_line; [exact ex_wf|reflexivity|exact ex_len]. Qed.

Example ex_sum_power_predictor_along_line s :
  fpred (closed_sum_power exT 2 (1 / 2) (1 / 4) 2) exxs excs (vaxpy s exe exz)
  = lincomb (fun u => ksp_along 2 (1 / 2) (1 / 4) 2 u (transform exT exe)) (map (fun x => transform exT (vsubR exz x)) exxs) excs s.
Proof. apply sum_power_predictor_along_line; [exact ex_wf|reflexivity|exact ex_len]. Qed.

Example ex_product_gradient_is_derivative :
  is_derive (fun s => fpred (closed_product exT 2 (1 / 2)) exxs excs (vaxpy s exe exz)) 0
    (dlincomb (fun u => dprod 2 (1 / 2) u (transform exT exe)) (map (fun x => transform exT (vsubR exz x)) exxs) excs).
Proof. apply product_gradient_is_derivative; [exact ex_wf|reflexivity|exact ex_len|exact ex_nz]. Qed.

Example ex_lpq_gradient_is_derivative :
  is_derive (fun s => fpred (closed_lpq exT 2 (3 / 2) 1) exxs excs (vaxpy s exe exz)) 0
    (dlincomb (fun u => dlpq 2 (3 / 2) 1 u (transform exT exe)) (map (fun x => transform exT (vsubR exz x)) exxs) excs).
Proof. apply lpq_gradient_is_derivative; [exact ex_wf|reflexivity|exact ex_len|exact ex_nz]. Qed.

Example ex_sum_power_gradient_is_derivative :
  is_derive (fun s => fpred (closed_sum_power exT 2 (1 / 2) (1 / 4) 2) exxs excs (vaxpy s exe exz)) 0
    (dlincomb (fun u => dsp 2 (1 / 2) (1 / 4) 2 u (transform exT exe)) (map (fun x => transform exT (vsubR exz x)) exxs) excs).
Proof. apply sum_power_gradient_is_derivative; [exact ex_wf|reflexivity|exact ex_len|exact ex_nz]. Qed.

(* q > 1: a coordinate of the difference vanishes (center [1; 7] shares the first coordinate with z under TNone) *)
Example ex_kprod_along_derive_q_gt_1 :
  is_derive (kprod_along 2 (3 / 2) [0; -2; 0] [1; 0; -1]) 0 (dprod 2 (3 / 2) [0; -2; 0] [1; 0; -1]).
Proof. apply kprod_along_derive_q_gt_1; [lra|reflexivity]. Qed.

Print Assumptions abs_pow_line_derive.
Print Assumptions kprod_along_derive.
Print Assumptions klpq_along_derive.
Print Assumptions ksp_along_derive.
Print Assumptions lincomb_derive.
Print Assumptions product_predictor_along_line.
Print Assumptions lpq_predictor_along_line.
Print Assumptions sum_power_predictor_along_line.
Print Assumptions product_gradient_is_derivative.
Print Assumptions lpq_gradient_is_derivative.
Print Assumptions sum_power_gradient_is_derivative.
Print Assumptions kprod_along_derive_q_gt_1.
Print Assumptions ksp_along_derive_q_gt_1.
Print Assumptions klpq_along_derive_p_gt_1.
Print Assumptions product_gradient_is_derivative_q_gt_1.
Print Assumptions sum_power_gradient_is_derivative_q_gt_1.
Print Assumptions lpq_gradient_is_derivative_p_gt_1.
Print Assumptions abs_pow_not_derivable_q1.
