(* Real-valued model of the soft-routing weights (xrfm/xrfm.py 1296-1328) and their properties.
   z j = (x . v_j - b_j) / (T * scale_j) is the logit of split node j. *)
From Coq Require Import Reals List Lra Lia Bool QArith.
Require Import XV.Model.Tree XV.Model.Soft.
Import ListNotations.
Local Open Scope R_scope.

Definition sigmoid (z : R) : R := / (1 + exp (- z)).
Definition logsigmoid (z : R) : R := ln (sigmoid z).

Definition glogit (z : nat -> R) (g : nat * bool) : R := if snd g then - z (fst g) else z (fst g).
Definition gate (z : nat -> R) (g : nat * bool) : R := sigmoid (glogit z g).

(* product of gate probabilities along a path, and the code's accumulated log-probability *)
Definition path_prob (z : nat -> R) (p : gpath) : R := fold_right (fun g acc => gate z g * acc) 1 p.
Definition path_logp (z : nat -> R) (p : gpath) : R := fold_right (fun g acc => logsigmoid (glogit z g) + acc) 0 p.

Definition rsum (l : list R) : R := fold_right Rplus 0 l.

(* stable softmax with an arbitrary shift m (the code uses the row maximum) *)
Definition softmax_shift (m : R) (lps : list R) : list R :=
  let es := map (fun lp => exp (lp - m)) lps in map (fun e => e / rsum es) es.

Definition soft_weights (m : R) (z : nat -> R) (ps : list gpath) : list R :=
  softmax_shift m (map (path_logp z) ps).

(* ---------- basic facts ---------- *)
Lemma sigmoid_pos z : 0 < sigmoid z.
Proof. unfold sigmoid. apply Rinv_0_lt_compat. pose proof (exp_pos (- z)). lra. Qed.

Lemma sigmoid_lt1 z : sigmoid z < 1.
Proof.
  unfold sigmoid. pose proof (exp_pos (- z)) as H.
  apply Rmult_lt_reg_r with (r := 1 + exp (- z)); [lra|]. rewrite Rinv_l by lra. lra.
Qed.

Lemma sigmoid_compl z : sigmoid z + sigmoid (- z) = 1.
Proof.
  unfold sigmoid. rewrite Ropp_involutive. pose proof (exp_pos z) as Hz. pose proof (exp_pos (- z)) as Hn.
  assert (E : exp (- z) = / exp z) by apply exp_Ropp. rewrite E. field. split; lra.
Qed.

Lemma exp_logsigmoid z : exp (logsigmoid z) = sigmoid z.
Proof. unfold logsigmoid. apply exp_ln. apply sigmoid_pos. Qed.

Lemma path_prob_pos z p : 0 < path_prob z p.
Proof.
  induction p as [|g p IH]; cbn; [lra|]. apply Rmult_lt_0_compat; [apply sigmoid_pos|exact IH].
Qed.

Lemma exp_path_logp z p : exp (path_logp z p) = path_prob z p.
Proof.
  induction p as [|g p IH]; unfold path_logp, path_prob in *; cbn [fold_right]; [apply exp_0|].
  rewrite exp_plus, IH, exp_logsigmoid. reflexivity.
Qed.

Lemma path_prob_snoc z p g : path_prob z (p ++ [g]) = path_prob z p * gate z g.
Proof. unfold path_prob. induction p as [|h p IH]; cbn [app fold_right]; [lra|]. rewrite IH. lra. Qed.

Lemma rsum_app a b : rsum (a ++ b) = rsum a + rsum b.
Proof. unfold rsum. induction a as [|x a IH]; cbn [app fold_right]; [lra|]. rewrite IH. lra. Qed.

(* ---------- the leaf weights form a probability distribution: sum over leaves of the gate products = 1 ---------- *)
Section Leaves.
  Context {L : Type}.

  Lemma leaf_probs_sum (z : nat -> R) : forall (T : tree L) next p,
    rsum (map (fun mp => path_prob z (snd mp)) (paths_from T next p)) = path_prob z p.
  Proof.
    induction T as [m|v b l IHl r IHr]; intros next p;
      [unfold rsum; cbn [paths_from map fold_right snd]; lra|]. cbn [paths_from].
    rewrite map_app, rsum_app, IHl, IHr, !path_prob_snoc. unfold gate, glogit. cbn [fst snd].
    pose proof (sigmoid_compl (z next)). nra.
  Qed.

  Theorem leaf_probs_sum_to_one z (T : tree L) :
    rsum (map (fun mp => path_prob z (snd mp)) (paths T)) = 1.
  Proof. unfold paths. rewrite leaf_probs_sum. reflexivity. Qed.
End Leaves.

(* ---------- softmax of the accumulated log-sigmoids = product of gates ---------- *)
Lemma rsum_exp_pos (l : list R) : l <> [] -> 0 < rsum (map exp l).
Proof.
  unfold rsum. induction l as [|a l IH]; intros Hne; [contradiction|]. cbn [map fold_right]. pose proof (exp_pos a).
  destruct l as [|b l]; [cbn [map fold_right]; lra|]. specialize (IH ltac:(discriminate)). lra.
Qed.

(* the shift used for numerical stability does not change the result *)
Lemma softmax_shift_spec m lps :
  softmax_shift m lps = map (fun lp => exp lp / rsum (map exp lps)) lps.
Proof.
  destruct lps as [|y t]; [reflexivity|].
  unfold softmax_shift. rewrite map_map.
  assert (E : forall l, rsum (map (fun lp => exp (lp - m)) l) = rsum (map exp l) * exp (- m)).
  { unfold rsum. induction l as [|x l IH]; cbn [map fold_right]; [lra|]. rewrite IH. unfold Rminus. rewrite exp_plus. lra. }
  rewrite E. apply map_ext. intros lp. unfold Rminus. rewrite exp_plus.
  pose proof (exp_pos (- m)). pose proof (rsum_exp_pos (y :: t) ltac:(discriminate)).
  field. split; lra.
Qed.

Theorem soft_weights_are_gate_products {L} (m : R) (z : nat -> R) (T : tree L) :
  soft_weights m z (map snd (paths T)) = map (fun mp => path_prob z (snd mp)) (paths T).
Proof.
  unfold soft_weights. rewrite softmax_shift_spec.
  assert (E : rsum (map exp (map (path_logp z) (map snd (paths T)))) = 1).
  { rewrite !map_map. rewrite <- (leaf_probs_sum_to_one z T). f_equal. apply map_ext. intros mp. apply exp_path_logp. }
  rewrite E. rewrite !map_map. apply map_ext. intros mp. rewrite exp_path_logp. lra.
Qed.

Corollary soft_weights_nonneg_sum_one {L} m z (T : tree L) :
  Forall (fun w => 0 < w) (soft_weights m z (map snd (paths T))) /\ rsum (soft_weights m z (map snd (paths T))) = 1.
Proof.
  rewrite soft_weights_are_gate_products. split; [|apply leaf_probs_sum_to_one].
  apply Forall_forall. intros w Hw. apply in_map_iff in Hw. destruct Hw as [mp [<- _]]. apply path_prob_pos.
Qed.

(* ---------- T -> 0+ : quantitative bound on the weight of the hard-routed leaf ---------- *)
Lemma sigmoid_lower u : 1 - exp (- u) <= sigmoid u.
Proof.
  unfold sigmoid. pose proof (exp_pos (- u)) as He. set (e := exp (- u)) in *.
  apply Rmult_le_reg_r with (r := 1 + e); [lra|]. rewrite Rinv_l by lra. nra.
Qed.

(* a gate is consistent with hard routing when it follows the sign of the logit (logit <= 0 goes left) *)
Definition consistent (z : nat -> R) (g : nat * bool) : Prop :=
  (snd g = true -> z (fst g) <= 0) /\ (snd g = false -> 0 < z (fst g)).

Lemma gate_lower z g mu : consistent z g -> mu <= Rabs (z (fst g)) -> 1 - exp (- mu) <= gate z g.
Proof.
  intros [Hl Hr] Hmu. unfold gate, glogit. eapply Rle_trans; [|apply sigmoid_lower].
  assert (Hm : mu <= if snd g then - z (fst g) else z (fst g)).
  { destruct (snd g).
    - specialize (Hl eq_refl). rewrite Rabs_left1 in Hmu by exact Hl. exact Hmu.
    - specialize (Hr eq_refl). rewrite Rabs_right in Hmu by lra. exact Hmu. }
  assert (exp (- (if snd g then - z (fst g) else z (fst g))) <= exp (- mu)).
  { destruct (Rle_lt_or_eq_dec _ _ Hm) as [Hlt|Heq]; [left; apply exp_increasing; lra|right; rewrite Heq; reflexivity]. }
  lra.
Qed.

Theorem hard_leaf_weight_bound z (p : gpath) mu : 0 <= mu ->
  (forall g, In g p -> consistent z g /\ mu <= Rabs (z (fst g))) ->
  1 - INR (length p) * exp (- mu) <= path_prob z p <= 1.
Proof.
  intros Hmu. induction p as [|g p IH]; intros H; cbn [path_prob fold_right length]; [cbn; lra|].
  fold (path_prob z p). rewrite S_INR.
  destruct (H g (or_introl eq_refl)) as [Hc Hg]. pose proof (gate_lower z g mu Hc Hg) as Hlo.
  assert (Hhi : gate z g <= 1) by (left; apply sigmoid_lt1).
  assert (Hgp : 0 < gate z g) by apply sigmoid_pos.
  specialize (IH (fun g' Hin => H g' (or_intror Hin))). destruct IH as [IHlo IHhi].
  pose proof (path_prob_pos z p) as Hpp. pose proof (exp_pos (- mu)) as He.
  assert (He1 : exp (- mu) <= 1).
  { destruct (Rle_lt_or_eq_dec _ _ Hmu) as [Hlt|<-]; [left; rewrite <- exp_0; apply exp_increasing; lra|rewrite Ropp_0, exp_0; lra]. }
  pose proof (pos_INR (length p)) as Hn. split; [|nra].
  (* (1 - a)(1 - n a) >= 1 - (n+1) a  when the second factor may be negative: split *)
  destruct (Rle_lt_dec 0 (1 - INR (length p) * exp (- mu))) as [Hpos|Hneg].
  - assert (gate z g * path_prob z p >= (1 - exp (- mu)) * (1 - INR (length p) * exp (- mu))) by nra. nra.
  - nra.
Qed.

(* with weights on the simplex, the mixture is within (1 - w_h) * B of the value of leaf h *)
Definition wsum (w v : list R) : R := rsum (map (fun wv => fst wv * snd wv) (combine w v)).

Lemma wsum_cons x w y v : wsum (x :: w) (y :: v) = x * y + wsum w v.
Proof. reflexivity. Qed.
Lemma rsum_cons x w : rsum (x :: w) = x + rsum w.
Proof. reflexivity. Qed.

Lemma mixture_aux (c B : R) : 0 <= B -> forall w v (k : option nat), length w = length v ->
  Forall (fun x => 0 <= x) w ->
  (forall i, (i < length w)%nat -> Some i <> k -> Rabs (nth i v 0 - c) <= B) ->
  (forall j, k = Some j -> (j < length w)%nat -> nth j v 0 = c) ->
  Rabs (wsum w v - c * rsum w) <= (rsum w - match k with Some j => nth j w 0 | None => 0 end) * B.
Proof.
  intros HB0. induction w as [|x w IH]; intros v k Hlen Hn Hb Hk; destruct v as [|y v]; try discriminate.
  - unfold wsum, rsum. cbn. destruct k as [[|j]|]; rewrite Rmult_0_r, Rminus_0_r, Rabs_R0; lra.
  - inversion Hn as [|? ? Hx Hw]; subst. cbn in Hlen. injection Hlen as Hlen.
    rewrite wsum_cons, rsum_cons.
    destruct k as [[|j]|].
    + assert (y = c) by (apply (Hk 0%nat eq_refl); cbn; lia). subst y. cbn [nth].
      assert (H2 : Rabs (wsum w v - c * rsum w) <= (rsum w - 0) * B).
      { apply (IH v None Hlen Hw).
        - intros i Hi _. apply (Hb (S i)); [cbn; lia|discriminate].
        - intros j E; discriminate. }
      replace (x * c + wsum w v - c * (x + rsum w)) with (wsum w v - c * rsum w) by ring.
      replace ((x + rsum w - x) * B) with ((rsum w - 0) * B) by ring. exact H2.
    + cbn [nth].
      assert (H1 : Rabs (y - c) <= B) by (apply (Hb 0%nat); [cbn; lia|discriminate]).
      assert (H2 : Rabs (wsum w v - c * rsum w) <= (rsum w - nth j w 0) * B).
      { apply (IH v (Some j) Hlen Hw).
        - intros i Hi Hne. apply (Hb (S i)); [cbn; lia|]. intros E. apply Hne. injection E as E. subst. reflexivity.
        - intros j' E Hj'. injection E as E. subst j'. apply (Hk (S j) eq_refl). cbn. lia. }
      replace (x * y + wsum w v - c * (x + rsum w)) with (x * (y - c) + (wsum w v - c * rsum w)) by ring.
      eapply Rle_trans; [apply Rabs_triang|]. rewrite Rabs_mult, (Rabs_right x) by lra. nra.
    + assert (H1 : Rabs (y - c) <= B) by (apply (Hb 0%nat); [cbn; lia|discriminate]).
      assert (H2 : Rabs (wsum w v - c * rsum w) <= (rsum w - 0) * B).
      { apply (IH v None Hlen Hw).
        - intros i Hi _. apply (Hb (S i)); [cbn; lia|discriminate].
        - intros j E; discriminate. }
      replace (x * y + wsum w v - c * (x + rsum w)) with (x * (y - c) + (wsum w v - c * rsum w)) by ring.
      eapply Rle_trans; [apply Rabs_triang|]. rewrite Rabs_mult, (Rabs_right x) by lra. nra.
Qed.

Theorem mixture_close_to_dominant (w v : list R) (h : nat) (B : R) : length w = length v ->
  Forall (fun x => 0 <= x) w -> rsum w = 1 -> (h < length w)%nat ->
  (forall i, (i < length w)%nat -> Rabs (nth i v 0 - nth h v 0) <= B) ->
  Rabs (wsum w v - nth h v 0) <= (1 - nth h w 0) * B.
Proof.
  intros Hlen Hn Hs Hh HB.
  assert (HB0 : 0 <= B).
  { specialize (HB h Hh). rewrite Rminus_diag_eq in HB by reflexivity. rewrite Rabs_R0 in HB. exact HB. }
  pose proof (mixture_aux (nth h v 0) B HB0 w v (Some h) Hlen Hn) as G. rewrite Hs, Rmult_1_r in G. apply G.
  - intros i Hi _. apply HB. exact Hi.
  - intros j E _. injection E as E. subst. reflexivity.
Qed.

(* ---------- link with hard routing: the leaf reached by `<=` routing is the leaf whose path follows the logits' signs ---------- *)
From Coq Require Import Qreals.
Local Open Scope R_scope.
Section HardPath.
  Context {L : Type}.

  Fixpoint hard_path (T : tree L) (x : list Q) (next : nat) : gpath :=
    match T with
    | Leaf _ => []
    | Node v b l r =>
        if goes_left (dot x v) b then (next, true) :: hard_path l x (S next)
        else (next, false) :: hard_path r x (S next + nsplit l)
    end.

  Lemma hard_path_in_paths (x : list Q) : forall (T : tree L) next p,
    In (route T x, p ++ hard_path T x next) (paths_from T next p).
  Proof.
    induction T as [m|v b l IHl r IHr]; intros next p; cbn [route hard_path paths_from].
    - rewrite app_nil_r. left. reflexivity.
    - apply in_or_app. destruct (goes_left (dot x v) b).
      + left. specialize (IHl (S next) (p ++ [(next, true)])). rewrite <- app_assoc in IHl. exact IHl.
      + right. specialize (IHr (S next + nsplit l)%nat (p ++ [(next, false)])). rewrite <- app_assoc in IHr. exact IHr.
  Qed.

  Lemma hard_path_length_le (x : list Q) : forall (T : tree L) next, (length (hard_path T x next) <= nsplit T)%nat.
  Proof.
    induction T as [m|v b l IHl r IHr]; intros next; cbn [hard_path nsplit length]; [lia|].
    destruct (goes_left (dot x v) b); cbn [length];
      [specialize (IHl (S next))|specialize (IHr (S next + nsplit l)%nat)]; lia.
  Qed.

  (* z j = (x.v_j - b_j) / tau_j with tau_j = T * scale_j > 0, mu = smallest |z| on the route *)
  Definition logits_of (z : nat -> R) (x : list Q) (T : tree L) (next : nat) : Prop :=
    forall j v b, In (j, (v, b)) (nodes_from T next) ->
      exists tau, 0 < tau /\ z j = (Q2R (dot x v) - Q2R b) / tau.

  Lemma hard_path_consistent z x : forall (T : tree L) next,
    logits_of z x T next -> forall g, In g (hard_path T x next) -> consistent z g.
  Proof.
    induction T as [m|v b l IHl r IHr]; intros next Hz g Hg; cbn [hard_path] in Hg; [destruct Hg|].
    assert (Hroot : exists tau, 0 < tau /\ z next = (Q2R (dot x v) - Q2R b) / tau) by (apply (Hz next v b); left; reflexivity).
    assert (Hl : logits_of z x l (S next)).
    { intros j v' b' Hin. apply (Hz j v' b'). right. apply in_or_app. left. exact Hin. }
    assert (Hr : logits_of z x r (S next + nsplit l)).
    { intros j v' b' Hin. apply (Hz j v' b'). right. apply in_or_app. right. exact Hin. }
    destruct Hroot as (tau & Htau & Ez).
    destruct (goes_left (dot x v) b) eqn:G; destruct Hg as [<-|Hg]; try (eapply IHl; eassumption); try (eapply IHr; eassumption).
    - unfold consistent. cbn [fst snd]. split; [intros _|discriminate]. rewrite Ez.
      unfold goes_left in G. apply Qle_bool_iff in G. apply Qle_Rle in G.
      unfold Rdiv. assert (0 < / tau) by (apply Rinv_0_lt_compat; exact Htau). nra.
    - unfold consistent. cbn [fst snd]. split; [discriminate|intros _]. rewrite Ez.
      assert (Hlt : (b < dot x v)%Q).
      { apply Qnot_le_lt. intros Hc. apply Qle_bool_iff in Hc. unfold goes_left in G. congruence. }
      apply Qlt_Rlt in Hlt. unfold Rdiv. assert (0 < / tau) by (apply Rinv_0_lt_compat; exact Htau). nra.
  Qed.

  (* T -> 0+ : the weight of the leaf reached by hard routing is at least 1 - D * exp(-mu),
     D = depth of that leaf <= number of splits, mu = least |logit| on the route (mu = margin / T) *)
  Theorem hard_leaf_weight_tends_to_one z x (T : tree L) mu : 0 <= mu ->
    logits_of z x T 0 ->
    (forall g, In g (hard_path T x 0) -> mu <= Rabs (z (fst g))) ->
    In (route T x, hard_path T x 0) (paths T) /\
    1 - INR (length (hard_path T x 0)) * exp (- mu) <= path_prob z (hard_path T x 0) <= 1.
  Proof.
    intros Hmu Hz Hm. split; [apply (hard_path_in_paths x T 0%nat [])|].
    apply hard_leaf_weight_bound; [exact Hmu|]. intros g Hg. split; [eapply hard_path_consistent; eassumption|apply Hm; exact Hg].
  Qed.
End HardPath.
