(* The product Laplace kernel with exponent 1 ("L1 Laplace" kernel)
       k(x, z) = exp (- sum_d |T(x)_d - T(z)_d| / L)
   is positive semi-definite: for ANY number of points, ANY dimension, any (well-formed) feature transform.
   Proof by explicit finite-dimensional feature maps (no integrals, no spectral theory):
     (1) one dimension: telescoping features on the sorted list of the points,
     (2) tensor products for the product over coordinates,
     (3) a kernel with a feature representation has a non-negative quadratic form,
     (4) closed_product t L 1 is the l1 Laplace kernel of the points (1/L) * T(x). *)
From Coq Require Import Reals List Lra Lia.
Require Import XV.Real.Kernels.
Import ListNotations.
Local Open Scope R_scope.

(* ---------- the quadratic form  sum_i sum_j c_i c_j k(x_i, x_j) ---------- *)
Fixpoint lin (k : list R -> list R -> R) (x : list R) (xs : list (list R)) (cs : list R) : R :=
  match xs, cs with y :: xs', c :: cs' => c * k x y + lin k x xs' cs' | _, _ => 0 end.
Fixpoint qf_aux (k : list R -> list R -> R) (all : list (list R)) (allc : list R) (xs : list (list R)) (cs : list R) : R :=
  match xs, cs with x :: xs', c :: cs' => c * lin k x all allc + qf_aux k all allc xs' cs' | _, _ => 0 end.
Definition qf (k : list R -> list R -> R) (xs : list (list R)) (cs : list R) : R := qf_aux k xs cs xs cs.

(* ---------- algebra of vdotR ---------- *)
Lemma vdotR_comm : forall a b, vdotR a b = vdotR b a.
Proof. induction a as [|x a IH]; intros [|y b]; cbn [vdotR]; try reflexivity. rewrite (IH b). ring. Qed.

Lemma vdotR_scale_r c a b : vdotR a (vscaleR c b) = c * vdotR a b.
Proof. rewrite vdotR_comm, vdotR_scale_l, vdotR_comm. reflexivity. Qed.

Lemma vdotR_app : forall a a' b b', length a = length a' -> vdotR (a ++ b) (a' ++ b') = vdotR a a' + vdotR b b'.
Proof.
  induction a as [|x a IH]; intros [|y a'] b b' H; try discriminate; cbn [app vdotR]; [ring|].
  cbn in H. injection H as H. rewrite IH by exact H. ring.
Qed.

Lemma vdotR_zero_r : forall a n, vdotR a (repeat 0 n) = 0.
Proof. induction a as [|x a IH]; intros [|n]; cbn [repeat vdotR]; try reflexivity. rewrite IH. ring. Qed.

Lemma vdotR_zero_l a n : vdotR (repeat 0 n) a = 0.
Proof. rewrite vdotR_comm. apply vdotR_zero_r. Qed.

Lemma vdotR_add_r : forall a b c, length b = length c -> vdotR a (vaddR b c) = vdotR a b + vdotR a c.
Proof.
  induction a as [|x a IH]; intros [|y b] [|z c] H; try discriminate; cbn [vaddR vdotR]; try ring.
  cbn in H. injection H as H. rewrite IH by exact H. ring.
Qed.

Lemma vdotR_add_l a b c : length a = length b -> vdotR (vaddR a b) c = vdotR a c + vdotR b c.
Proof. intros H. rewrite vdotR_comm, vdotR_add_r by exact H. rewrite (vdotR_comm c a), (vdotR_comm c b). reflexivity. Qed.

Lemma vdotR_self_nonneg : forall a, 0 <= vdotR a a.
Proof. induction a as [|x a IH]; cbn [vdotR]; [lra|]. nra. Qed.

(* ====================================================================== *)
(* (1) ONE DIMENSION: telescoping features                                *)
(* ====================================================================== *)

(* weight of the coordinate attached to the point t whose predecessor in the sorted list is prev *)
Definition wgt (prev : option R) (t : R) : R := 1 - match prev with None => 0 | Some t0 => exp (-2 * (t - t0)) end.

(* the coordinate of the feature vector of a attached to t *)
Definition coord (prev : option R) (t a : R) : R :=
  if Rle_dec t a then exp (-(a - t)) * sqrt (wgt prev t) else 0.

Fixpoint feat1 (prev : option R) (ts : list R) (a : R) : list R :=
  match ts with [] => [] | t :: ts' => coord prev t a :: feat1 (Some t) ts' a end.

Lemma feat1_length : forall ts prev a, length (feat1 prev ts a) = length ts.
Proof. induction ts as [|t ts IH]; intros prev a; cbn [feat1 length]; [reflexivity|]. rewrite IH. reflexivity. Qed.

Lemma exp_le_1 x : x <= 0 -> exp x <= 1.
Proof.
  intros H. rewrite <- exp_0. destruct (Rle_lt_or_eq_dec _ _ H) as [Hlt|Heq]; [left; apply exp_increasing; exact Hlt|rewrite Heq; right; reflexivity].
Qed.

Lemma wgt_none_nonneg t : 0 <= wgt None t.
Proof. unfold wgt. lra. Qed.

Lemma wgt_some_nonneg t0 t : t0 <= t -> 0 <= wgt (Some t0) t.
Proof. intros H. unfold wgt. assert (exp (-2 * (t - t0)) <= 1) by (apply exp_le_1; lra). lra. Qed.

(* the telescoping identity: e^{2t} (1 - e^{-2 (t - t0)}) = e^{2t} - e^{2 t0} *)
Lemma wgt_some_tel t0 t : exp (2 * t) * wgt (Some t0) t = exp (2 * t) - exp (2 * t0).
Proof.
  unfold wgt. rewrite Rmult_minus_distr_l, Rmult_1_r, <- exp_plus.
  replace (2 * t + -2 * (t - t0)) with (2 * t0) by ring. reflexivity.
Qed.

Lemma coord_gt prev t a : a < t -> coord prev t a = 0.
Proof. intros H. unfold coord. destruct (Rle_dec t a) as [Hle|_]; [lra|reflexivity]. Qed.

Lemma coord_mul prev t a b : 0 <= wgt prev t -> t <= a -> t <= b ->
  coord prev t a * coord prev t b = exp (-(a + b)) * (exp (2 * t) * wgt prev t).
Proof.
  intros Hw Ha Hb. unfold coord. destruct (Rle_dec t a) as [_|Hn]; [|contradiction]. destruct (Rle_dec t b) as [_|Hn]; [|contradiction].
  pose proof (sqrt_sqrt _ Hw) as Hs.
  assert (E : exp (-(a + b)) * exp (2 * t) = exp (-(a - t)) * exp (-(b - t))).
  { rewrite <- !exp_plus. f_equal. ring. }
  rewrite <- (Rmult_assoc (exp (-(a + b)))), E.
  set (s := sqrt (wgt prev t)) in *. rewrite <- Hs. ring.
Qed.

(* weakly ascending lists (strong form: every element is below everything to its right) *)
Fixpoint ascl (l : list R) : Prop :=
  match l with [] => True | t :: ts => (forall x, In x ts -> t <= x) /\ ascl ts end.

(* every point of the list is to the right of a: all coordinates vanish *)
Lemma feat_zero : forall ts prev a b, (forall x, In x ts -> a < x) -> vdotR (feat1 prev ts a) (feat1 prev ts b) = 0.
Proof.
  induction ts as [|t ts IH]; intros prev a b H; cbn [feat1 vdotR]; [reflexivity|].
  rewrite coord_gt by (apply H; left; reflexivity). rewrite IH by (intros x Hx; apply H; right; exact Hx). ring.
Qed.

(* the invariant of the telescoping sum: the tail of the list after the point t0 *)
Lemma feat_tail : forall ts t0 a b, ascl ts -> (forall x, In x ts -> t0 <= x) -> a = t0 \/ In a ts -> a <= b ->
  vdotR (feat1 (Some t0) ts a) (feat1 (Some t0) ts b) = exp (-(a + b)) * (exp (2 * a) - exp (2 * t0)).
Proof.
  induction ts as [|t ts IH]; intros t0 a b Hs Hlb Ha Hab.
  - cbn [feat1 vdotR]. destruct Ha as [->|[]]. ring.
  - cbn [feat1 vdotR]. destruct Hs as [Hmin Hs].
    assert (Ht0 : t0 <= t) by (apply Hlb; left; reflexivity).
    destruct (Rle_dec t a) as [Hta|Hta].
    + rewrite coord_mul by (try apply wgt_some_nonneg; lra).
      rewrite (IH t a b Hs Hmin); [rewrite wgt_some_tel; ring| |exact Hab].
      destruct Ha as [->|[->|Hin]]; [left; lra|left; reflexivity|right; exact Hin].
    + assert (Hlt : a < t) by lra.
      assert (Ea : a = t0).
      { destruct Ha as [E|[E|Hin]]; [exact E|lra|]. specialize (Hmin a Hin). lra. }
      subst a. rewrite coord_gt by exact Hlt.
      rewrite feat_zero by (intros x Hx; specialize (Hmin x Hx); lra). ring.
Qed.

Lemma feat_sorted_dot ts a b : ascl ts -> In a ts -> a <= b ->
  vdotR (feat1 None ts a) (feat1 None ts b) = exp (-(b - a)).
Proof.
  intros Hs Ha Hab. destruct ts as [|t ts]; [contradiction|]. destruct Hs as [Hmin Hs]. cbn [feat1 vdotR].
  assert (Hta : t <= a) by (destruct Ha as [->|Hin]; [lra|apply Hmin; exact Hin]).
  rewrite coord_mul by (try apply wgt_none_nonneg; lra).
  rewrite feat_tail; [|exact Hs|exact Hmin| |exact Hab].
  - unfold wgt. rewrite Rminus_0_r, Rmult_1_r.
    replace (exp (-(a + b)) * exp (2 * t) + exp (-(a + b)) * (exp (2 * a) - exp (2 * t))) with (exp (-(a + b)) * exp (2 * a)) by ring.
    rewrite <- exp_plus. f_equal. ring.
  - destruct Ha as [->|Hin]; [left; reflexivity|right; exact Hin].
Qed.

(* insertion sort on the reals *)
Fixpoint insR (x : R) (l : list R) : list R :=
  match l with [] => [x] | y :: l' => if Rle_dec x y then x :: y :: l' else y :: insR x l' end.
Fixpoint sortR (l : list R) : list R := match l with [] => [] | x :: l' => insR x (sortR l') end.

Lemma insR_in x y : forall l, In y (insR x l) <-> y = x \/ In y l.
Proof.
  induction l as [|z l IH]; cbn [insR].
  - cbn. intuition.
  - destruct (Rle_dec x z) as [_|_]; cbn [In]; [intuition|]. rewrite IH. intuition.
Qed.

Lemma sortR_in y : forall l, In y (sortR l) <-> In y l.
Proof. induction l as [|x l IH]; cbn [sortR]; [reflexivity|]. rewrite insR_in, IH. cbn. intuition. Qed.

Lemma insR_length x : forall l, length (insR x l) = S (length l).
Proof. induction l as [|z l IH]; cbn [insR]; [reflexivity|]. destruct (Rle_dec x z); cbn [length]; [reflexivity|]. rewrite IH. reflexivity. Qed.

Lemma sortR_length : forall l, length (sortR l) = length l.
Proof. induction l as [|x l IH]; cbn [sortR length]; [reflexivity|]. rewrite insR_length, IH. reflexivity. Qed.

Lemma insR_ascl x : forall l, ascl l -> ascl (insR x l).
Proof.
  induction l as [|z l IH]; intros Hs; cbn [insR].
  - cbn. split; [intros y []|exact I].
  - destruct Hs as [Hmin Hs]. destruct (Rle_dec x z) as [Hle|Hnle].
    + cbn [ascl]. split; [|split; assumption]. intros y [<-|Hy]; [exact Hle|]. specialize (Hmin y Hy). lra.
    + cbn [ascl]. split; [|apply IH; exact Hs]. intros y Hy. apply insR_in in Hy. destruct Hy as [->|Hy]; [lra|apply Hmin; exact Hy].
Qed.

Lemma sortR_ascl : forall l, ascl (sortR l).
Proof. induction l as [|x l IH]; cbn [sortR]; [exact I|]. apply insR_ascl. exact IH. Qed.

(* the one-dimensional feature map attached to a finite list of points *)
Definition f1 (pts : list R) (a : R) : list R := feat1 None (sortR pts) a.

Lemma f1_length pts a : length (f1 pts a) = length pts.
Proof. unfold f1. rewrite feat1_length. apply sortR_length. Qed.

(* (1) the one-dimensional Laplace kernel exp(-|a - b|) is a Gram matrix on any finite list of reals *)
Theorem laplace1_feature_dot pts a b : In a pts -> In b pts ->
  exp (- Rabs (a - b)) = vdotR (f1 pts a) (f1 pts b).
Proof.
  intros Ha Hb. unfold f1. destruct (Rle_dec a b) as [Hab|Hab].
  - rewrite feat_sorted_dot; [|apply sortR_ascl|apply sortR_in; exact Ha|exact Hab].
    rewrite Rabs_left1 by lra. f_equal. ring.
  - rewrite vdotR_comm, feat_sorted_dot; [|apply sortR_ascl|apply sortR_in; exact Hb|lra].
    rewrite Rabs_right by lra. reflexivity.
Qed.

(* ====================================================================== *)
(* (2) TENSOR PRODUCTS                                                    *)
(* ====================================================================== *)
Definition tensor (a b : list R) : list R := flat_map (fun x => map (Rmult x) b) a.

Lemma tensor_length : forall a b, length (tensor a b) = (length a * length b)%nat.
Proof.
  unfold tensor. induction a as [|x a IH]; intros b; cbn [flat_map length]; [reflexivity|].
  rewrite app_length, map_length, IH. reflexivity.
Qed.

Theorem tensor_dot : forall a a' b b', length a = length a' -> length b = length b' ->
  vdotR (tensor a b) (tensor a' b') = vdotR a a' * vdotR b b'.
Proof.
  unfold tensor. induction a as [|x a IH]; intros [|y a'] b b' Ha Hb; try discriminate; cbn [flat_map vdotR]; [ring|].
  cbn in Ha. injection Ha as Ha.
  rewrite vdotR_app by (rewrite !map_length; exact Hb). rewrite IH by assumption.
  change (map (Rmult x) b) with (vscaleR x b). change (map (Rmult y) b') with (vscaleR y b').
  rewrite vdotR_scale_l, vdotR_scale_r. ring.
Qed.

(* the l1 Laplace kernel exp(-||u - v||_1) is a Gram matrix on any finite list of points of any dimension m *)
Theorem feature_rep_exists : forall (m : nat) (P : list (list R)), Forall (fun u => length u = m) P ->
  exists (F : list R -> list R) (n : nat),
    (forall u, length (F u) = n) /\
    (forall u v, In u P -> In v P -> exp (- rsumR (map Rabs (vsubR u v))) = vdotR (F u) (F v)).
Proof.
  induction m as [|m IH]; intros P HP.
  - exists (fun _ => [1]), 1%nat. split; [reflexivity|]. intros u v Hu Hv. rewrite Forall_forall in HP.
    apply HP in Hu. destruct u as [|a u]; [|discriminate].
    cbn [vsubR map vdotR]. unfold rsumR. cbn [fold_right]. rewrite Ropp_0, exp_0. ring.
  - destruct (IH (map (@tl R) P)) as [F' [n' [HL HF]]].
    { rewrite Forall_forall in *. intros u' Hu'. apply in_map_iff in Hu'. destruct Hu' as [u [<- Hu]].
      apply HP in Hu. destruct u as [|a u]; [discriminate|]. cbn in Hu. cbn [tl]. lia. }
    exists (fun u => tensor (f1 (map (hd 0) P) (hd 0 u)) (F' (tl u))), (length (map (hd 0%R) P) * n')%nat. split.
    + intros u. rewrite tensor_length, f1_length, HL. reflexivity.
    + intros u v Hu Hv. rewrite tensor_dot by (rewrite ?f1_length, ?HL; reflexivity).
      rewrite <- laplace1_feature_dot by (apply in_map; assumption).
      rewrite <- HF by (apply in_map; assumption).
      rewrite Forall_forall in HP. pose proof (HP u Hu) as Lu. pose proof (HP v Hv) as Lv.
      destruct u as [|a u]; [discriminate|]. destruct v as [|b v]; [discriminate|].
      cbn [hd tl vsubR map]. unfold rsumR. cbn [fold_right]. rewrite <- exp_plus. f_equal. ring.
Qed.

(* ====================================================================== *)
(* (3) a kernel with a feature representation has a non-negative quadratic form *)
(* ====================================================================== *)
Fixpoint wsum (n : nat) (F : list R -> list R) (xs : list (list R)) (cs : list R) : list R :=
  match xs, cs with x :: xs', c :: cs' => vaddR (vscaleR c (F x)) (wsum n F xs' cs') | _, _ => repeat 0 n end.

Lemma wsum_length n F : forall xs cs, (forall u, In u xs -> length (F u) = n) -> length (wsum n F xs cs) = n.
Proof.
  induction xs as [|x xs IH]; intros cs H; cbn [wsum]; [apply repeat_length|]. destruct cs as [|c cs]; [apply repeat_length|].
  assert (Hx : length (F x) = n) by (apply H; left; reflexivity).
  assert (Hr : length (wsum n F xs cs) = n) by (apply IH; intros u Hu; apply H; right; exact Hu).
  rewrite vaddR_length; unfold vscaleR; rewrite map_length; [exact Hx|]. rewrite Hx, Hr. reflexivity.
Qed.

Lemma lin_rep k n F x : forall ys cs,
  (forall y, In y ys -> length (F y) = n /\ k x y = vdotR (F x) (F y)) ->
  lin k x ys cs = vdotR (F x) (wsum n F ys cs).
Proof.
  induction ys as [|y ys IH]; intros cs H; cbn [lin wsum]; [rewrite vdotR_zero_r; reflexivity|].
  destruct cs as [|c cs]; [rewrite vdotR_zero_r; reflexivity|].
  destruct (H y (or_introl eq_refl)) as [Hy Hk].
  assert (H' : forall y0, In y0 ys -> length (F y0) = n /\ k x y0 = vdotR (F x) (F y0)) by (intros y0 Hy0; apply H; right; exact Hy0).
  rewrite vdotR_add_r.
  - rewrite vdotR_scale_r, Hk, (IH cs H'). reflexivity.
  - unfold vscaleR. rewrite map_length, Hy, wsum_length; [reflexivity|]. intros u Hu. apply H'. exact Hu.
Qed.

Lemma qf_aux_rep k n F all allc S : length S = n -> forall xs cs,
  (forall x, In x xs -> length (F x) = n /\ lin k x all allc = vdotR (F x) S) ->
  qf_aux k all allc xs cs = vdotR (wsum n F xs cs) S.
Proof.
  intros HS. induction xs as [|x xs IH]; intros cs H; cbn [qf_aux wsum]; [rewrite vdotR_zero_l; reflexivity|].
  destruct cs as [|c cs]; [rewrite vdotR_zero_l; reflexivity|].
  destruct (H x (or_introl eq_refl)) as [Hx Hk].
  assert (H' : forall x0, In x0 xs -> length (F x0) = n /\ lin k x0 all allc = vdotR (F x0) S) by (intros x0 Hx0; apply H; right; exact Hx0).
  rewrite vdotR_add_l.
  - rewrite vdotR_scale_l, Hk, (IH cs H'). reflexivity.
  - unfold vscaleR. rewrite map_length, Hx, wsum_length; [reflexivity|]. intros u Hu. apply H'. exact Hu.
Qed.

Theorem rep_qf_nonneg (k : list R -> list R -> R) (F : list R -> list R) (n : nat) (xs : list (list R)) (cs : list R) :
  (forall u, In u xs -> length (F u) = n) ->
  (forall u v, In u xs -> In v xs -> k u v = vdotR (F u) (F v)) ->
  0 <= qf k xs cs.
Proof.
  intros HL HK. unfold qf.
  rewrite (qf_aux_rep k n F xs cs (wsum n F xs cs)).
  - apply vdotR_self_nonneg.
  - apply wsum_length. exact HL.
  - intros x Hx. split; [apply HL; exact Hx|]. apply lin_rep. intros y Hy. split; [apply HL; exact Hy|apply HK; assumption].
Qed.

(* the quadratic form IS the squared norm of the weighted sum of the features (the content of (3)) *)
Theorem rep_qf_eq (k : list R -> list R -> R) (F : list R -> list R) (n : nat) (xs : list (list R)) (cs : list R) :
  (forall u, In u xs -> length (F u) = n) ->
  (forall u v, In u xs -> In v xs -> k u v = vdotR (F u) (F v)) ->
  qf k xs cs = vdotR (wsum n F xs cs) (wsum n F xs cs).
Proof.
  intros HL HK. unfold qf. apply qf_aux_rep.
  - apply wsum_length. exact HL.
  - intros x Hx. split; [apply HL; exact Hx|]. apply lin_rep. intros y Hy. split; [apply HL; exact Hy|apply HK; assumption].
Qed.

(* ====================================================================== *)
(* (4) closed_product with exponent 1 is the l1 Laplace kernel of the scaled transformed points *)
(* ====================================================================== *)
Lemma l1_scaled L : 0 < L -> forall a b,
  sum_abs_pow 1 (vsubR a b) / L = rsumR (map Rabs (vsubR (vscaleR (/ L) a) (vscaleR (/ L) b))).
Proof.
  intros HL. assert (Hi : 0 < / L) by (apply Rinv_0_lt_compat; exact HL).
  unfold sum_abs_pow, rsumR, vscaleR.
  induction a as [|x a IH]; intros [|y b]; cbn [vsubR map fold_right]; try (unfold Rdiv; ring).
  rewrite <- IH. rewrite pw_one by apply Rabs_pos.
  replace (/ L * x - / L * y) with (/ L * (x - y)) by ring.
  rewrite Rabs_mult, (Rabs_pos_eq (/ L)) by lra. unfold Rdiv. ring.
Qed.

Theorem closed_product_q1_as_l1 t L x z : 0 < L -> length x = length z -> wf_tmat t (length x) ->
  closed_product t L 1 x z =
  exp (- rsumR (map Rabs (vsubR (vscaleR (/ L) (transform t x)) (vscaleR (/ L) (transform t z))))).
Proof.
  intros HL Hl Hw. unfold closed_product. rewrite <- transform_sub by assumption.
  rewrite Rpower_1 by exact HL. rewrite <- l1_scaled by exact HL. f_equal. unfold Rdiv. ring.
Qed.

(* ====================================================================== *)
(* MAIN THEOREM                                                           *)
(* ====================================================================== *)
Theorem product_laplace_psd : forall t L (xs : list (list R)) (cs : list R) (d m : nat),
  0 < L -> wf_tmat t d -> Forall (fun x => length x = d) xs ->
  Forall (fun x => length (transform t x) = m) xs ->
  0 <= qf (closed_product t L 1) xs cs.
Proof.
  intros t L xs cs d m HL Hw Hd Hm.
  pose (pt := fun x : list R => vscaleR (/ L) (transform t x)).
  destruct (feature_rep_exists m (map pt xs)) as [F [n [HFl HF]]].
  { rewrite Forall_forall in *. intros u Hu. apply in_map_iff in Hu. destruct Hu as [x [<- Hx]].
    unfold pt, vscaleR. rewrite map_length. apply Hm. exact Hx. }
  apply (rep_qf_nonneg _ (fun x => F (pt x)) n).
  - intros u _. apply HFl.
  - intros u v Hu Hv. rewrite Forall_forall in Hd. pose proof (Hd u Hu) as Lu. pose proof (Hd v Hv) as Lv.
    rewrite closed_product_q1_as_l1; [|exact HL|lia|rewrite Lu; exact Hw].
    apply (HF (pt u) (pt v)); apply in_map; assumption.
Qed.

(* The hypothesis on the common length of the transformed points is in fact a CONSEQUENCE of wf_tmat t d and
   of the common length d of the points: the stronger statement without it (bonus). *)
Lemma vmulR_length : forall a b, length a = length b -> length (vmulR a b) = length a.
Proof. induction a as [|x a IH]; intros [|y b] H; try discriminate; cbn [vmulR length]; [reflexivity|]. cbn in H. injection H as H. rewrite IH by exact H. reflexivity. Qed.

Definition tdim (t : tmat) (d : nat) : nat := match t with TFull dout _ => dout | _ => d end.

Lemma transform_length t d x : wf_tmat t d -> length x = d -> length (transform t x) = tdim t d.
Proof.
  intros Hw Hx. destruct t as [|mm|dout rows]; cbn [transform tdim].
  - exact Hx.
  - cbn in Hw. rewrite vmulR_length; [exact Hx|]. rewrite Hx, Hw. reflexivity.
  - destruct Hw as [_ Hr]. apply xmat_length. exact Hr.
Qed.

Theorem product_laplace_psd_strong : forall t L (xs : list (list R)) (cs : list R) (d : nat),
  0 < L -> wf_tmat t d -> Forall (fun x => length x = d) xs ->
  0 <= qf (closed_product t L 1) xs cs.
Proof.
  intros t L xs cs d HL Hw Hd. apply (product_laplace_psd t L xs cs d (tdim t d)); try assumption.
  rewrite Forall_forall in *. intros x Hx. apply transform_length; [exact Hw|apply Hd; exact Hx].
Qed.

(* ---------- the hypotheses are satisfiable on concrete non-trivial instances ---------- *)
Example laplace1_feature_dot_ex :
  exp (- Rabs (3 - (-1))) = vdotR (f1 [3; -1; 2; 3] 3) (f1 [3; -1; 2; 3] (-1)).
Proof. apply laplace1_feature_dot; cbn; tauto. Qed.

Example tensor_dot_ex :
  vdotR (tensor [1; 2] [3; 4; 5]) (tensor [-1; 2] [0; 1; 2]) = vdotR [1; 2] [-1; 2] * vdotR [3; 4; 5] [0; 1; 2].
Proof. apply tensor_dot; reflexivity. Qed.

Example feature_rep_exists_ex :
  exists (F : list R -> list R) (n : nat), (forall u, length (F u) = n) /\
    (forall u v, In u [[1; 2; 0]; [0; -3; 1]; [1; 1; 1]] -> In v [[1; 2; 0]; [0; -3; 1]; [1; 1; 1]] ->
       exp (- rsumR (map Rabs (vsubR u v))) = vdotR (F u) (F v)).
Proof. apply (feature_rep_exists 3). repeat constructor. Qed.

Example rep_qf_nonneg_ex :
  0 <= qf (fun u v => vdotR u v) [[1; 2]; [0; -1]; [3; 1]] [1; -2; 1].
Proof.
  apply (rep_qf_nonneg _ (fun u => u) 2); [|reflexivity].
  intros u [<-|[<-|[<-|[]]]]; reflexivity.
Qed.

Example closed_product_q1_as_l1_ex :
  closed_product (TDiag [2; 1]) 2 1 [1; 2] [0; 3] =
  exp (- rsumR (map Rabs (vsubR (vscaleR (/ 2) (transform (TDiag [2; 1]) [1; 2])) (vscaleR (/ 2) (transform (TDiag [2; 1]) [0; 3]))))).
Proof. apply closed_product_q1_as_l1; [lra|reflexivity|reflexivity]. Qed.

Example product_laplace_psd_ex :
  0 <= qf (closed_product (TFull 2 [[1; 0]; [2; -1]; [0; 3]]) 2 1) [[1; 2; 0]; [0; 3; 1]; [1; 1; 1]; [1; 2; 0]] [1; -2; 1; -1].
Proof.
  apply (product_laplace_psd _ _ _ _ 3 2); [lra|cbn; split; [reflexivity|repeat constructor]| |]; repeat constructor.
Qed.

Example product_laplace_psd_strong_ex :
  0 <= qf (closed_product (TDiag [2; 1]) (1/2) 1) [[1; 2]; [0; 3]; [1; 1]] [1; -2; 1].
Proof. apply (product_laplace_psd_strong _ _ _ _ 2); [lra|reflexivity|repeat constructor]. Qed.

Print Assumptions laplace1_feature_dot.
Print Assumptions tensor_dot.
Print Assumptions feature_rep_exists.
Print Assumptions rep_qf_nonneg.
Print Assumptions closed_product_q1_as_l1.
Print Assumptions product_laplace_psd.
Print Assumptions product_laplace_psd_strong.
