(* C15: the categorical FAST PATH of the kernels (xrfm/rfm_src/kernels.py, _get_kernel_matrix_categorical_impl) as the code
   computes it -- numerical-block distance + per-group table lookups -- and the theorems that it equals the DENSE kernel on
   the one-hot expanded rows, for any number of numerical columns, any number of categorical groups with any numbers of
   levels, and a transform that does not mix groups (block-diagonal). *)
From Coq Require Import Reals List Lra Lia.
Require Import XV.Real.Kernels XV.Real.Grads XV.Real.Categorical.
Import ListNotations.
Local Open Scope R_scope.

(* ---------- definitions (names fixed by the spec) ---------- *)
Record group := { g_rows : list (list R); g_dout : nat; g_a : nat; g_b : nat }.

Definition group_ok (g : group) : Prop :=
  Forall (fun r => length r = g_dout g) (g_rows g) /\ (g_a g < length (g_rows g))%nat /\ (g_b g < length (g_rows g))%nat.

Definition row_of (g : group) (i : nat) : list R := nth i (g_rows g) (repeat 0 (g_dout g)).

(* squared L2 table entry *)
Definition table2 (g : group) : R := sumsq (vsubR (row_of g (g_a g)) (row_of g (g_b g))).
(* |.|^p table entry *)
Definition tablep (p : R) (g : group) : R := sum_abs_pow p (vsubR (row_of g (g_a g)) (row_of g (g_b g))).

Definition fast_l2 (tn : tmat) (L q : R) (xn zn : list R) (gs : list group) : R :=
  exp (pw (sqrt (sumsq (vsubR (transform tn xn) (transform tn zn)) + rsumR (map table2 gs))) q * (- 1 / Rpower L q)).

Definition fast_lpq (tn : tmat) (L p q : R) (xn zn : list R) (gs : list group) : R :=
  exp (pw (pw (sum_abs_pow p (vsubR (transform tn xn) (transform tn zn)) + rsumR (map (tablep p) gs)) (/ p)) q * (- 1 / Rpower L q)).

Definition fast_product (tn : tmat) (L q : R) (xn zn : list R) (gs : list group) : R :=
  exp ((sum_abs_pow q (vsubR (transform tn xn) (transform tn zn)) + rsumR (map (tablep q) gs)) * (- 1 / Rpower L q)).

(* the dense side: the transformed full rows.  Because the transform does not mix groups, the transformed row of x is the
   concatenation of the transformed blocks (this is PROVED below: dense_row_is_transformed_onehot_row) *)
Definition dense_x (tn : tmat) (xn : list R) (gs : list group) : list R :=
  transform tn xn ++ concat (map (fun g => row_of g (g_a g)) gs).
Definition dense_z (tn : tmat) (zn : list R) (gs : list group) : list R :=
  transform tn zn ++ concat (map (fun g => row_of g (g_b g)) gs).

(* ---------- auxiliary lemmas ---------- *)
Lemma rsumR_cons x l : rsumR (x :: l) = x + rsumR l.
Proof. reflexivity. Qed.

Lemma row_of_length g i : Forall (fun r => length r = g_dout g) (g_rows g) -> (i < length (g_rows g))%nat ->
  length (row_of g i) = g_dout g.
Proof.
  intros HF Hi. unfold row_of. rewrite Forall_forall in HF. apply HF. apply nth_In. exact Hi.
Qed.

Lemma group_ok_rows_same_length g : group_ok g -> length (row_of g (g_a g)) = length (row_of g (g_b g)).
Proof. intros [HF [Ha Hb]]. rewrite !row_of_length by assumption. reflexivity. Qed.

(* the categorical part of the dense squared distance = the sum of the table entries *)
Lemma sumsq_groups : forall gs, Forall group_ok gs ->
  sumsq (vsubR (concat (map (fun g => row_of g (g_a g)) gs)) (concat (map (fun g => row_of g (g_b g)) gs)))
  = rsumR (map table2 gs).
Proof.
  induction gs as [|g gs IH]; intros HF; cbn [map concat].
  - unfold sumsq. cbn. reflexivity.
  - inversion HF as [|? ? Hg Hgs]; subst. rewrite sumsq_blocks by (apply group_ok_rows_same_length; exact Hg).
    rewrite IH by exact Hgs. rewrite rsumR_cons. reflexivity.
Qed.

Lemma sum_abs_pow_groups p : forall gs, Forall group_ok gs ->
  sum_abs_pow p (vsubR (concat (map (fun g => row_of g (g_a g)) gs)) (concat (map (fun g => row_of g (g_b g)) gs)))
  = rsumR (map (tablep p) gs).
Proof.
  induction gs as [|g gs IH]; intros HF; cbn [map concat].
  - unfold sum_abs_pow. cbn. reflexivity.
  - inversion HF as [|? ? Hg Hgs]; subst. rewrite sum_abs_pow_blocks by (apply group_ok_rows_same_length; exact Hg).
    rewrite IH by exact Hgs. rewrite rsumR_cons. reflexivity.
Qed.

(* the dense squared distance / |.|^p sum decompose as  numerical part + sum of table entries *)
Lemma dense_sumsq tn xn zn gs : length (transform tn xn) = length (transform tn zn) -> Forall group_ok gs ->
  sumsq (vsubR (dense_x tn xn gs) (dense_z tn zn gs))
  = sumsq (vsubR (transform tn xn) (transform tn zn)) + rsumR (map table2 gs).
Proof. intros Hl HF. unfold dense_x, dense_z. rewrite sumsq_blocks by exact Hl. rewrite sumsq_groups by exact HF. reflexivity. Qed.

Lemma dense_sum_abs_pow p tn xn zn gs : length (transform tn xn) = length (transform tn zn) -> Forall group_ok gs ->
  sum_abs_pow p (vsubR (dense_x tn xn gs) (dense_z tn zn gs))
  = sum_abs_pow p (vsubR (transform tn xn) (transform tn zn)) + rsumR (map (tablep p) gs).
Proof. intros Hl HF. unfold dense_x, dense_z. rewrite sum_abs_pow_blocks by exact Hl. rewrite sum_abs_pow_groups by exact HF. reflexivity. Qed.

(* ---------- F1: L2 fast path = dense L2 kernel ---------- *)
Theorem fast_l2_is_dense_explicit tn L q xn zn gs :
  length (transform tn xn) = length (transform tn zn) -> Forall group_ok gs ->
  fast_l2 tn L q xn zn gs = exp (pw (Rmax 0 (cdist2 (dense_x tn xn gs) (dense_z tn zn gs))) q * (- 1 / Rpower L q)).
Proof.
  intros Hl HF. unfold fast_l2, cdist2. rewrite dense_sumsq by assumption.
  rewrite Rmax_right by apply sqrt_pos. reflexivity.
Qed.

Theorem fast_l2_is_dense tn L q xn zn gs :
  length (transform tn xn) = length (transform tn zn) -> Forall group_ok gs ->
  fast_l2 tn L q xn zn gs = laplace_l2 TNone L q (dense_x tn xn gs) (dense_z tn zn gs).
Proof. intros Hl HF. unfold laplace_l2. cbn [transform]. apply fast_l2_is_dense_explicit; assumption. Qed.

(* ---------- F2: Lpq fast path = dense Lpq kernel ---------- *)
Theorem fast_lpq_is_dense tn L p q xn zn gs : 0 < p ->
  length (transform tn xn) = length (transform tn zn) -> Forall group_ok gs ->
  fast_lpq tn L p q xn zn gs = laplace_lpq TNone L p q (dense_x tn xn gs) (dense_z tn zn gs).
Proof.
  intros Hp Hl HF. unfold fast_lpq, laplace_lpq, cdistp. cbn [transform]. rewrite dense_sum_abs_pow by assumption.
  rewrite Rmax_right; [reflexivity|]. apply pw_nonneg.
  rewrite <- (dense_sum_abs_pow p tn xn zn gs) by assumption. apply sum_abs_pow_nonneg.
Qed.

(* the code skips the numerical block's power when p = 1 (cdist_1 is already the sum of |.|): same value *)
Lemma fast_lpq_p1_skip a b : pw (cdistp 1 a b) 1 = cdistp 1 a b.
Proof. apply pw_one. unfold cdistp. apply pw_nonneg, sum_abs_pow_nonneg. Qed.

(* ---------- F3: product fast path = dense product kernel ---------- *)
Theorem fast_product_is_dense tn L q xn zn gs : 0 < q ->
  length (transform tn xn) = length (transform tn zn) -> Forall group_ok gs ->
  fast_product tn L q xn zn gs = laplace_product TNone L q (dense_x tn xn gs) (dense_z tn zn gs).
Proof.
  intros Hq Hl HF. unfold fast_product, laplace_product, cdistp. cbn [transform].
  rewrite Rmax_right by (apply pw_nonneg, sum_abs_pow_nonneg).
  rewrite pw_root_pow by (try apply sum_abs_pow_nonneg; exact Hq).
  rewrite dense_sum_abs_pow by assumption. reflexivity.
Qed.

(* the code's per-block terms (cdist_p(.,.))^p really are the |.|^p sums used above *)
Lemma cdistp_pow_is_sum_abs_pow p a b : 0 < p -> pw (cdistp p a b) p = sum_abs_pow p (vsubR a b).
Proof. intros Hp. unfold cdistp. apply pw_root_pow; [apply sum_abs_pow_nonneg|exact Hp]. Qed.

(* and (cdist(.,.))^2 is the sum of squares *)
Lemma cdist2_sq_is_sumsq a b : cdist2 a b * cdist2 a b = sumsq (vsubR a b).
Proof. unfold cdist2. apply sqrt_sqrt, sumsq_nonneg. Qed.

(* ---------- F4: the transformed one-hot block is a row of the code table ---------- *)
Lemma onehot_block_is_row g : group_ok g ->
  transform (TFull (g_dout g) (g_rows g)) (basis (g_a g) (length (g_rows g))) = row_of g (g_a g).
Proof. intros [HF [Ha Hb]]. cbn [transform]. unfold row_of. apply xmat_basis; [reflexivity|exact HF|exact Ha]. Qed.

Lemma onehot_block_is_row_b g : group_ok g ->
  transform (TFull (g_dout g) (g_rows g)) (basis (g_b g) (length (g_rows g))) = row_of g (g_b g).
Proof. intros [HF [Ha Hb]]. cbn [transform]. unfold row_of. apply xmat_basis; [reflexivity|exact HF|exact Hb]. Qed.

(* ---------- F4: block-diagonal assembly ---------- *)
Definition total_dout (blocks : list (list (list R) * nat)) : nat := fold_right (fun blk acc => (snd blk + acc)%nat) 0%nat blocks.

(* rows of block k padded with zeros to the total output width, placed at their column offset:
   the first block's rows get zeros on the right; the remaining blocks' rows (recursively assembled) get the first block's
   width of zeros on the left *)
Fixpoint blockdiag (blocks : list (list (list R) * nat)) : list (list R) :=
  match blocks with
  | [] => []
  | blk :: rest =>
      map (fun r => r ++ repeat 0 (total_dout rest)) (fst blk) ++ map (fun r => repeat 0 (snd blk) ++ r) (blockdiag rest)
  end.

Fixpoint map2 {A B C : Type} (f : A -> B -> C) (l : list A) (m : list B) : list C :=
  match l, m with a :: l', b :: m' => f a b :: map2 f l' m' | _, _ => [] end.

Lemma vaddR_assoc : forall a b c, vaddR (vaddR a b) c = vaddR a (vaddR b c).
Proof. induction a as [|x a IH]; intros [|y b] [|z c]; cbn; try reflexivity. f_equal; [ring|apply IH]. Qed.

Lemma vaddR_app : forall a a' b b', length a = length a' -> vaddR (a ++ b) (a' ++ b') = vaddR a a' ++ vaddR b b'.
Proof.
  induction a as [|x a IH]; intros [|y a'] b b' H; try discriminate; cbn; [reflexivity|].
  cbn in H. injection H as H. rewrite IH by exact H. reflexivity.
Qed.

Lemma vaddR_zeros_l' n : forall r, length r = n -> vaddR (repeat 0 n) r = r.
Proof. intros r <-. apply vaddR_zeros_l. Qed.
Lemma vaddR_zeros_r' n : forall r, length r = n -> vaddR r (repeat 0 n) = r.
Proof. intros r <-. apply vaddR_zeros_r. Qed.

Lemma vscaleR_app c a b : vscaleR c (a ++ b) = vscaleR c a ++ vscaleR c b.
Proof. unfold vscaleR. apply map_app. Qed.

Lemma vscaleR_zeros c n : vscaleR c (repeat 0 n) = repeat 0 n.
Proof. unfold vscaleR. induction n as [|n IH]; cbn; [reflexivity|]. f_equal; [ring|exact IH]. Qed.

Lemma vscaleR_length c r : length (vscaleR c r) = length r.
Proof. unfold vscaleR. apply map_length. Qed.

(* x @ [rows1 ; rows2] = x1 @ rows1 + x2 @ rows2 *)
Lemma xmat_app d : forall x1 rows1 x2 rows2, length x1 = length rows1 -> Forall (fun r => length r = d) rows2 ->
  xmat d (x1 ++ x2) (rows1 ++ rows2) = vaddR (xmat d x1 rows1) (xmat d x2 rows2).
Proof.
  induction x1 as [|a x1 IH]; intros [|r rows1] x2 rows2 HL HF; try discriminate.
  - cbn [app]. cbn [xmat]. symmetry. apply vaddR_zeros_l'. apply xmat_length. exact HF.
  - cbn in HL. injection HL as HL. cbn [app xmat]. rewrite IH by assumption. rewrite vaddR_assoc. reflexivity.
Qed.

(* padding every row with e zeros on the right pads the product with e zeros on the right *)
Lemma xmat_pad_right d e : forall x rows, Forall (fun r => length r = d) rows ->
  xmat (d + e) x (map (fun r => r ++ repeat 0 e) rows) = xmat d x rows ++ repeat 0 e.
Proof.
  induction x as [|a x IH]; intros rows HF; cbn [xmat map]; [apply repeat_app|].
  destruct rows as [|r rows]; cbn [map]; [apply repeat_app|].
  inversion HF as [|? ? Hr Hrs]; subst. rewrite IH by exact Hrs. rewrite vscaleR_app, vscaleR_zeros.
  rewrite vaddR_app by (rewrite vscaleR_length, xmat_length by exact Hrs; reflexivity).
  f_equal. apply vaddR_zeros_l'. apply repeat_length.
Qed.

(* padding every row with d zeros on the left pads the product with d zeros on the left *)
Lemma xmat_pad_left d e : forall x rows, Forall (fun r => length r = e) rows ->
  xmat (d + e) x (map (fun r => repeat 0 d ++ r) rows) = repeat 0 d ++ xmat e x rows.
Proof.
  induction x as [|a x IH]; intros rows HF; cbn [xmat map]; [apply repeat_app|].
  destruct rows as [|r rows]; cbn [map]; [apply repeat_app|].
  inversion HF as [|? ? Hr Hrs]; subst. rewrite IH by exact Hrs. rewrite vscaleR_app, vscaleR_zeros.
  rewrite vaddR_app by (rewrite !repeat_length; reflexivity).
  f_equal. apply vaddR_zeros_l'. apply repeat_length.
Qed.

Definition block_ok (x : list R) (blk : list (list R) * nat) : Prop :=
  length x = length (fst blk) /\ Forall (fun r => length r = snd blk) (fst blk).

Definition blocks_wf (blocks : list (list (list R) * nat)) : Prop :=
  Forall (fun blk => Forall (fun r => length r = snd blk) (fst blk)) blocks.

(* every row of the assembled matrix has the total output width *)
Lemma blockdiag_row_length : forall blocks, blocks_wf blocks ->
  Forall (fun r => length r = total_dout blocks) (blockdiag blocks).
Proof.
  induction blocks as [|[rows d] rest IH]; intros HW; cbn [blockdiag]; [constructor|].
  inversion HW as [|? ? Hb Hrest]; subst. cbn [fst snd] in *. specialize (IH Hrest).
  apply Forall_app. split; apply Forall_forall; intros r' Hin; apply in_map_iff in Hin; destruct Hin as [r [<- Hin]];
    rewrite app_length, repeat_length; cbn [total_dout fold_right snd].
  - rewrite Forall_forall in Hb. rewrite (Hb r Hin). reflexivity.
  - rewrite Forall_forall in IH. rewrite (IH r Hin). reflexivity.
Qed.

(* number of rows of the assembled matrix = total input width *)
Lemma blockdiag_length : forall blocks, length (blockdiag blocks) = length (concat (map fst blocks)).
Proof.
  induction blocks as [|[rows d] rest IH]; cbn [blockdiag map concat fst snd]; [reflexivity|].
  rewrite !app_length, !map_length, IH. reflexivity.
Qed.

(* THE ASSEMBLY THEOREM: (x_1 ; ... ; x_k) @ blockdiag(B_1..B_k) = (x_1 @ B_1 ; ... ; x_k @ B_k), any number of blocks of any shapes *)
Theorem xmat_blockdiag : forall blocks inputs, Forall2 block_ok inputs blocks ->
  xmat (total_dout blocks) (concat inputs) (blockdiag blocks)
  = concat (map2 (fun x blk => xmat (snd blk) x (fst blk)) inputs blocks).
Proof.
  induction blocks as [|[rows d] rest IH]; intros inputs HF.
  - inversion HF; subst. cbn. reflexivity.
  - inversion HF as [|x ? xs ? [HL HR] HF']; subst. cbn [fst snd] in *.
    assert (HW : blocks_wf rest).
    { clear -HF'. induction HF' as [|x' b' xs' bs' [_ H1] _ IH']; constructor; assumption. }
    pose proof (blockdiag_row_length rest HW) as Hlen.
    cbn [concat blockdiag map2 fst snd]. change (total_dout ((rows, d) :: rest)) with (d + total_dout rest)%nat.
    rewrite xmat_app.
    + rewrite xmat_pad_right by exact HR. rewrite xmat_pad_left by exact Hlen.
      rewrite vaddR_app by (rewrite repeat_length; apply xmat_length; exact HR).
      rewrite vaddR_zeros_r' by (apply xmat_length; exact HR).
      rewrite vaddR_zeros_l' by (apply xmat_length; exact Hlen).
      rewrite IH by exact HF'. reflexivity.
    + rewrite map_length. exact HL.
    + apply Forall_forall. intros r' Hin. apply in_map_iff in Hin. destruct Hin as [r [<- Hin]].
      rewrite app_length, repeat_length. rewrite Forall_forall in Hlen. rewrite (Hlen r Hin). reflexivity.
Qed.

(* ---------- corollary: dense_x / dense_z really are the transformed one-hot rows ---------- *)
Definition gblock (g : group) : list (list R) * nat := (g_rows g, g_dout g).
Definition onehot_a (g : group) : list R := basis (g_a g) (length (g_rows g)).
Definition onehot_b (g : group) : list R := basis (g_b g) (length (g_rows g)).

Lemma groups_blocks_a : forall gs, Forall group_ok gs ->
  Forall2 block_ok (map onehot_a gs) (map gblock gs) /\
  concat (map2 (fun x blk => xmat (snd blk) x (fst blk)) (map onehot_a gs) (map gblock gs))
  = concat (map (fun g => row_of g (g_a g)) gs).
Proof.
  induction gs as [|g gs IH]; intros HF; cbn [map map2 concat]; [split; [constructor|reflexivity]|].
  inversion HF as [|? ? Hg Hgs]; subst. destruct (IH Hgs) as [IH1 IH2]. split.
  - constructor; [|exact IH1]. destruct Hg as [Hr _]. split; cbn [gblock fst snd]; [apply basis_length|exact Hr].
  - rewrite IH2. f_equal. cbn [gblock fst snd]. exact (onehot_block_is_row g Hg).
Qed.

Lemma groups_blocks_b : forall gs, Forall group_ok gs ->
  Forall2 block_ok (map onehot_b gs) (map gblock gs) /\
  concat (map2 (fun x blk => xmat (snd blk) x (fst blk)) (map onehot_b gs) (map gblock gs))
  = concat (map (fun g => row_of g (g_b g)) gs).
Proof.
  induction gs as [|g gs IH]; intros HF; cbn [map map2 concat]; [split; [constructor|reflexivity]|].
  inversion HF as [|? ? Hg Hgs]; subst. destruct (IH Hgs) as [IH1 IH2]. split.
  - constructor; [|exact IH1]. destruct Hg as [Hr _]. split; cbn [gblock fst snd]; [apply basis_length|exact Hr].
  - rewrite IH2. f_equal. cbn [gblock fst snd]. exact (onehot_block_is_row_b g Hg).
Qed.

(* the full (block-diagonal) transform applied to the full one-hot expanded row of x = dense_x *)
Theorem dense_row_is_transformed_onehot_row dn nrows xn gs :
  length xn = length nrows -> Forall (fun r => length r = dn) nrows -> Forall group_ok gs ->
  let blocks := (nrows, dn) :: map gblock gs in
  transform (TFull (total_dout blocks) (blockdiag blocks)) (xn ++ concat (map onehot_a gs))
  = dense_x (TFull dn nrows) xn gs.
Proof.
  intros HL HR HF blocks. cbn [transform]. unfold dense_x. cbn [transform].
  destruct (groups_blocks_a gs HF) as [H1 H2].
  change (xn ++ concat (map onehot_a gs)) with (concat (xn :: map onehot_a gs)).
  unfold blocks. rewrite xmat_blockdiag.
  - cbn [map2 concat fst snd]. rewrite H2. reflexivity.
  - constructor; [split; assumption|exact H1].
Qed.

Theorem dense_row_is_transformed_onehot_row_z dn nrows zn gs :
  length zn = length nrows -> Forall (fun r => length r = dn) nrows -> Forall group_ok gs ->
  let blocks := (nrows, dn) :: map gblock gs in
  transform (TFull (total_dout blocks) (blockdiag blocks)) (zn ++ concat (map onehot_b gs))
  = dense_z (TFull dn nrows) zn gs.
Proof.
  intros HL HR HF blocks. cbn [transform]. unfold dense_z. cbn [transform].
  destruct (groups_blocks_b gs HF) as [H1 H2].
  change (zn ++ concat (map onehot_b gs)) with (concat (zn :: map onehot_b gs)).
  unfold blocks. rewrite xmat_blockdiag.
  - cbn [map2 concat fst snd]. rewrite H2. reflexivity.
  - constructor; [split; assumption|exact H1].
Qed.

(* END-TO-END: the fast path (tables + numerical block) equals the dense L2 kernel evaluated with the block-diagonal full
   transform on the one-hot expanded rows *)
Theorem fast_l2_is_dense_kernel_on_onehot_rows dn nrows L q xn zn gs :
  length xn = length nrows -> length zn = length nrows -> Forall (fun r => length r = dn) nrows -> Forall group_ok gs ->
  let blocks := (nrows, dn) :: map gblock gs in
  fast_l2 (TFull dn nrows) L q xn zn gs
  = laplace_l2 (TFull (total_dout blocks) (blockdiag blocks)) L q
      (xn ++ concat (map onehot_a gs)) (zn ++ concat (map onehot_b gs)).
Proof.
  intros HLx HLz HR HF blocks. unfold laplace_l2.
  unfold blocks. rewrite (dense_row_is_transformed_onehot_row dn nrows xn gs HLx HR HF).
  rewrite (dense_row_is_transformed_onehot_row_z dn nrows zn gs HLz HR HF).
  apply fast_l2_is_dense_explicit; [|exact HF]. cbn [transform]. rewrite !xmat_length by exact HR. reflexivity.
Qed.

Theorem fast_lpq_is_dense_kernel_on_onehot_rows dn nrows L p q xn zn gs : 0 < p ->
  length xn = length nrows -> length zn = length nrows -> Forall (fun r => length r = dn) nrows -> Forall group_ok gs ->
  let blocks := (nrows, dn) :: map gblock gs in
  fast_lpq (TFull dn nrows) L p q xn zn gs
  = laplace_lpq (TFull (total_dout blocks) (blockdiag blocks)) L p q
      (xn ++ concat (map onehot_a gs)) (zn ++ concat (map onehot_b gs)).
Proof.
  intros Hp HLx HLz HR HF blocks. unfold laplace_lpq.
  unfold blocks. rewrite (dense_row_is_transformed_onehot_row dn nrows xn gs HLx HR HF).
  rewrite (dense_row_is_transformed_onehot_row_z dn nrows zn gs HLz HR HF).
  rewrite (fast_lpq_is_dense (TFull dn nrows) L p q xn zn gs Hp); [reflexivity| |exact HF].
  cbn [transform]. rewrite !xmat_length by exact HR. reflexivity.
Qed.

Theorem fast_product_is_dense_kernel_on_onehot_rows dn nrows L q xn zn gs : 0 < q ->
  length xn = length nrows -> length zn = length nrows -> Forall (fun r => length r = dn) nrows -> Forall group_ok gs ->
  let blocks := (nrows, dn) :: map gblock gs in
  fast_product (TFull dn nrows) L q xn zn gs
  = laplace_product (TFull (total_dout blocks) (blockdiag blocks)) L q
      (xn ++ concat (map onehot_a gs)) (zn ++ concat (map onehot_b gs)).
Proof.
  intros Hq HLx HLz HR HF blocks. unfold laplace_product.
  unfold blocks. rewrite (dense_row_is_transformed_onehot_row dn nrows xn gs HLx HR HF).
  rewrite (dense_row_is_transformed_onehot_row_z dn nrows zn gs HLz HR HF).
  rewrite (fast_product_is_dense (TFull dn nrows) L q xn zn gs Hq); [reflexivity| |exact HF].
  cbn [transform]. rewrite !xmat_length by exact HR. reflexivity.
Qed.

(* ---------- examples: one numerical column + two groups (2 and 3 levels) ---------- *)
Definition ex_g1 : group := {| g_rows := [[1; 0]; [0; 2]]; g_dout := 2; g_a := 0; g_b := 1 |}.
Definition ex_g2 : group := {| g_rows := [[1; 0; 0]; [0; 1; 0]; [1; 1; 3]]; g_dout := 3; g_a := 2; g_b := 0 |}.
Definition ex_tn : tmat := TFull 1 [[2]].

Lemma ex_groups_ok : Forall group_ok [ex_g1; ex_g2].
Proof.
  repeat constructor; cbn; lia.
Qed.

(* hypotheses of F1/F2/F3 are satisfiable on a non-trivial instance, and the fast-path squared distance is 4 + 5 + 10 = 19 *)
Example ex_fast_l2_hyps :
  length (transform ex_tn [3]) = length (transform ex_tn [2]) /\ Forall group_ok [ex_g1; ex_g2] /\
  sumsq (vsubR (transform ex_tn [3]) (transform ex_tn [2])) + rsumR (map table2 [ex_g1; ex_g2]) = 19.
Proof.
  split; [reflexivity|]. split; [exact ex_groups_ok|].
  cbv [ex_tn ex_g1 ex_g2 transform xmat vaddR vscaleR map repeat sumsq vsubR rsumR fold_right table2 row_of nth g_rows g_dout g_a g_b]. lra.
Qed.

Example ex_fast_l2 (L q : R) :
  fast_l2 ex_tn L q [3] [2] [ex_g1; ex_g2] = laplace_l2 TNone L q (dense_x ex_tn [3] [ex_g1; ex_g2]) (dense_z ex_tn [2] [ex_g1; ex_g2]).
Proof. apply fast_l2_is_dense; [reflexivity|exact ex_groups_ok]. Qed.

Example ex_fast_lpq (L q : R) :
  fast_lpq ex_tn L 3 q [3] [2] [ex_g1; ex_g2] = laplace_lpq TNone L 3 q (dense_x ex_tn [3] [ex_g1; ex_g2]) (dense_z ex_tn [2] [ex_g1; ex_g2]).
Proof. apply fast_lpq_is_dense; [lra|reflexivity|exact ex_groups_ok]. Qed.

Example ex_fast_product (L : R) :
  fast_product ex_tn L (3/2) [3] [2] [ex_g1; ex_g2] = laplace_product TNone L (3/2) (dense_x ex_tn [3] [ex_g1; ex_g2]) (dense_z ex_tn [2] [ex_g1; ex_g2]).
Proof. apply fast_product_is_dense; [lra|reflexivity|exact ex_groups_ok]. Qed.

(* blockdiag of two small blocks (1x1 and 2x2) computed by cbn *)
Example ex_blockdiag :
  blockdiag [([[2]], 1%nat); ([[1; 0]; [0; 2]], 2%nat)] = [[2; 0; 0]; [0; 1; 0]; [0; 0; 2]].
Proof. cbn. reflexivity. Qed.

Example ex_blockdiag3 :
  blockdiag [([[2]], 1%nat); (g_rows ex_g1, 2%nat); (g_rows ex_g2, 3%nat)] =
  [[2; 0; 0; 0; 0; 0];
   [0; 1; 0; 0; 0; 0];
   [0; 0; 2; 0; 0; 0];
   [0; 0; 0; 1; 0; 0];
   [0; 0; 0; 0; 1; 0];
   [0; 0; 0; 1; 1; 3]].
Proof. cbn. reflexivity. Qed.

(* hypotheses of xmat_blockdiag satisfiable; and the assembled product on the full one-hot row of x (x_num = 3, levels 0 and 2) *)
Example ex_xmat_blockdiag :
  Forall2 block_ok [[3]; [1; 0]; [0; 0; 1]] [([[2]], 1%nat); (g_rows ex_g1, 2%nat); (g_rows ex_g2, 3%nat)] /\
  xmat 6 [3; 1; 0; 0; 0; 1] (blockdiag [([[2]], 1%nat); (g_rows ex_g1, 2%nat); (g_rows ex_g2, 3%nat)])
  = dense_x ex_tn [3] [ex_g1; ex_g2].
Proof.
  split.
  - repeat constructor.
  - pose proof (dense_row_is_transformed_onehot_row 1 [[2]] [3] [ex_g1; ex_g2] eq_refl ltac:(repeat constructor) ex_groups_ok) as H.
    exact H.
Qed.

Print Assumptions fast_l2_is_dense_explicit.
Print Assumptions fast_l2_is_dense.
Print Assumptions fast_lpq_is_dense.
Print Assumptions fast_product_is_dense.
Print Assumptions xmat_blockdiag.
Print Assumptions dense_row_is_transformed_onehot_row.
Print Assumptions fast_l2_is_dense_kernel_on_onehot_rows.
