(* The matrix-power routine: for M = U diag(s) U^T with U orthogonal, R := U diag(sqrt(clip0 s_i)) U^T is a symmetric PSD
   square root of U diag(clip0 s) U^T (= M when s >= 0).  Pure MathComp, over an arbitrary real closed field. *)
Set Warnings "-notation-overridden,-ambiguous-paths".
From mathcomp Require Import all_ssreflect all_algebra.
Set Implicit Arguments. Unset Strict Implicit. Unset Printing Implicit Defensive.
Import Order.TTheory GRing.Theory Num.Theory.
Local Open Scope ring_scope.

Section MatRoot.
Variable F : rcfType.
Variable n : nat.

Definition clip0 (x : F) : F := if x < 0 then 0 else x.                      (* S[S<0] = 0 *)
Definition root_of (U : 'M[F]_n) (s : 'rV[F]_n) : 'M[F]_n :=
  U *m diag_mx (map_mx (fun x => Num.sqrt (clip0 x)) s) *m U^T.
Definition recon (U : 'M[F]_n) (s : 'rV[F]_n) : 'M[F]_n := U *m diag_mx s *m U^T.

Lemma clip0_ge0 x : 0 <= clip0 x.
Proof. by rewrite /clip0; case: ifP => // /negbT; rewrite -leNgt. Qed.

Lemma clip0_id x : 0 <= x -> clip0 x = x.
Proof. by rewrite /clip0 leNgt => /negbTE ->. Qed.

Lemma sqrt_clip0_sq x : Num.sqrt (clip0 x) * Num.sqrt (clip0 x) = clip0 x.
Proof. by rewrite -expr2 sqr_sqrtr // clip0_ge0. Qed.

(* product of two diagonal matrices *)
Lemma diag_mx_mul (a b : 'rV[F]_n) :
  diag_mx a *m diag_mx b = diag_mx (\row_j (a 0 j * b 0 j)).
Proof.
apply/matrixP=> i j; rewrite !mxE (bigD1 i) //= big1 ?addr0; last first.
  by move=> k /negbTE nki; rewrite !mxE eq_sym nki mulr0n mul0r.
rewrite !mxE eqxx mulr1n; case: (i == j) / eqP => [->|_]; first by rewrite !mulr1n.
by rewrite !mulr0n mulr0.
Qed.

(* the product law of the routine: U diag(a) U^T * U diag(b) U^T = U diag(a .* b) U^T *)
Lemma recon_mul (U : 'M[F]_n) (a b : 'rV[F]_n) : U^T *m U = 1%:M ->
  recon U a *m recon U b = recon U (\row_j (a 0 j * b 0 j)).
Proof.
move=> UtU; rewrite /recon -diag_mx_mul !mulmxA; congr (_ *m _ *m _).
by rewrite -[_ *m U]mulmxA UtU mulmx1.
Qed.

Lemma root_ofE (U : 'M[F]_n) (s : 'rV[F]_n) : root_of U s = recon U (map_mx (fun x => Num.sqrt (clip0 x)) s).
Proof. by []. Qed.

Lemma recon_sym (U : 'M[F]_n) (s : 'rV[F]_n) : (recon U s)^T = recon U s.
Proof. by rewrite /recon !trmx_mul trmxK tr_diag_mx mulmxA. Qed.

(* quadratic form of U diag(d) U^T: sum_i d_i * ((v^T U)_i)^2 *)
Lemma recon_quad (U : 'M[F]_n) (d : 'rV[F]_n) (v : 'cV[F]_n) :
  (v^T *m recon U d *m v) 0 0 = \sum_i d 0 i * ((v^T *m U) 0 i) ^+ 2.
Proof.
have -> : v^T *m recon U d *m v = (v^T *m U) *m diag_mx d *m (v^T *m U)^T.
  by rewrite /recon trmx_mul trmxK !mulmxA.
set w := v^T *m U; rewrite mxE; apply: eq_bigr => i _.
by rewrite mul_mx_diag !mxE expr2 mulrAC mulrA mulrC mulrA.
Qed.

Lemma recon_psd_gen (U : 'M[F]_n) (d : 'rV[F]_n) (v : 'cV[F]_n) :
  (forall i, 0 <= d 0 i) -> 0 <= (v^T *m recon U d *m v) 0 0.
Proof.
move=> d0; rewrite recon_quad; apply: sumr_ge0 => i _.
by rewrite mulr_ge0 ?d0 // sqr_ge0.
Qed.

(* R4: no sign hypothesis, negative entries are clipped -- what the code does *)
Theorem root_of_clipped (U : 'M[F]_n) (s : 'rV[F]_n) : U^T *m U = 1%:M ->
  root_of U s *m root_of U s = recon U (map_mx clip0 s).
Proof.
move=> UtU; rewrite !root_ofE recon_mul //; congr (recon U _).
by apply/rowP=> j; rewrite !mxE sqrt_clip0_sq.
Qed.

(* R1 *)
Theorem root_squares_back (U : 'M[F]_n) (s : 'rV[F]_n) : U^T *m U = 1%:M -> (forall i, 0 <= s 0 i) ->
  root_of U s *m root_of U s = recon U s.
Proof.
move=> UtU s0; rewrite root_of_clipped //; congr (recon U _).
by apply/rowP=> j; rewrite !mxE clip0_id.
Qed.

(* R2 *)
Theorem root_symmetric (U : 'M[F]_n) (s : 'rV[F]_n) : (root_of U s)^T = root_of U s.
Proof. by rewrite root_ofE recon_sym. Qed.

(* R3 *)
Theorem root_psd (U : 'M[F]_n) (s : 'rV[F]_n) (v : 'cV[F]_n) : 0 <= (v^T *m root_of U s *m v) 0 0.
Proof. by rewrite root_ofE; apply: recon_psd_gen => i; rewrite mxE sqrtr_ge0. Qed.

(* R5 *)
Theorem recon_psd (U : 'M[F]_n) (s : 'rV[F]_n) (v : 'cV[F]_n) : (forall i, 0 <= s 0 i) -> 0 <= (v^T *m recon U s *m v) 0 0.
Proof. exact: recon_psd_gen. Qed.

(* R6 (optional): the root commutes with the reconstructed matrix *)
Theorem root_commutes_with_recon (U : 'M[F]_n) (s : 'rV[F]_n) : U^T *m U = 1%:M ->
  root_of U s *m recon U s = recon U s *m root_of U s.
Proof.
move=> UtU; rewrite !root_ofE !recon_mul //; congr (recon U _).
by apply/rowP=> j; rewrite !mxE mulrC.
Qed.

(* D1: diagonal mode *)
Theorem diag_root_squares_back (s : 'rV[F]_n) i :
  Num.sqrt (clip0 (s 0 i)) * Num.sqrt (clip0 (s 0 i)) = clip0 (s 0 i).
Proof. exact: sqrt_clip0_sq. Qed.

End MatRoot.

(* Concrete instance over the real algebraic numbers ({realalg rat} : rcfType, mathcomp.real_closed):
   U = [[0,1],[-1,0]] (a rotation), s = (4,-3) (one negative entry, clipped) and s = (4,9). *)
From mathcomp Require Import realalg.
Section Example.
Local Open Scope ring_scope.
Definition Rq : rcfType := [rcfType of realalg].
Definition Urot : 'M[Rq]_2 := \matrix_(i, j) (if i == j then 0 else if i == 0 then 1 else -1).
Definition sNeg : 'rV[Rq]_2 := \row_j (if j == 0 then 4%:R else -3%:R).
Definition sPos : 'rV[Rq]_2 := \row_j (if j == 0 then 4%:R else 9%:R).

Example ex_orth : Urot^T *m Urot = 1%:M.
Proof.
apply/matrixP=> i j; rewrite !mxE !big_ord_recl big_ord0 !mxE /=.
case: i => [[|[|i]] Hi] //; case: j => [[|[|j]] Hj] //=; rewrite /eq_op /=;
  by rewrite ?mulr0 ?mul0r ?mulr1 ?mul1r ?mulrNN ?mulr1 ?addr0 ?add0r.
Qed.

Example ex_sPos_ge0 i : 0 <= sPos 0 i.
Proof. by rewrite mxE; case: ifP => _; rewrite ler0n. Qed.

Example ex_root_squares_back : root_of Urot sPos *m root_of Urot sPos = recon Urot sPos.
Proof. exact: (root_squares_back ex_orth ex_sPos_ge0). Qed.

Example ex_root_of_clipped : root_of Urot sNeg *m root_of Urot sNeg = recon Urot (map_mx (@clip0 Rq) sNeg).
Proof. exact: (root_of_clipped sNeg ex_orth). Qed.

Example ex_clipped_entry : (map_mx (@clip0 Rq) sNeg) 0 1 = 0 /\ (map_mx (@clip0 Rq) sNeg) 0 0 = 4%:R.
Proof. by rewrite !mxE /= /clip0 oppr_lt0 !ltr0n /= ltrn0. Qed.

Example ex_root_psd (v : 'cV[Rq]_2) : 0 <= (v^T *m root_of Urot sNeg *m v) 0 0.
Proof. exact: root_psd. Qed.

Example ex_diag (i : 'I_2) : Num.sqrt (clip0 (sNeg 0 i)) * Num.sqrt (clip0 (sNeg 0 i)) = clip0 (sNeg 0 i).
Proof. exact: diag_root_squares_back. Qed.
End Example.

Print Assumptions root_squares_back.
Print Assumptions root_psd.
Print Assumptions root_of_clipped.
Print Assumptions ex_root_squares_back.
