(* C19 for the MEMORY-LIGHT L2 Laplace kernel (xrfm/rfm_src/kernels.py, class LightLaplaceKernel, use_sqrtM = False).
   The abstract scale-invariance composition (XV.Real.ScaleInv, Section Pipeline), instantiated in XV.Real.ScaleInvL2 for the
   ordinary L2 kernel, is instantiated here for the light kernel with adaptive bandwidth: one whole RFM fit
   (bandwidth -> solve -> AGOP -> next matrix, any number of rounds) commutes with rescaling all inputs by c > 0.
   Every component is the code's OP SEQUENCE (not a closed form: for the light kernel the two differ when M is not symmetric,
   Kernels.light_needs_symmetry):
     squared distance = Kernels.light_sq:  (x@M).x - 2 (x@M).z + (z@M).z            (lines 209-215 and 231-237)
     distance         = ldist = sqrt (clamp_min 0 (light_sq))                         (lines 216-217 and 238-239)
     bandwidth        = base * med (all pairwise ldist)       (Kernel._adapt_bandwidth on the matrix of ldist^q, non-degenerate branch)
     Gram             = Kernels.laplace_light on all pairs
     prediction       = Grads.fpred (laplace_light ...)
     gradients        = Grads.grad_light: sum_i a_i w_i (z@M - x_i@M), w_i = Grads.gweight at ldist, NO second multiplication by M
     AGOP             = mk (normalise (sum_z g(z) g(z)^T)),  normalise = division by the largest entry (fit_M: M / M.max()).
   The light kernel is handed the stored matrix M ITSELF (recursive_feature_machine.py: `self.sqrtM if self.use_sqrtM else self.M`),
   no matrix root is taken; `mk : list (list R) -> tmat` is nevertheless kept ARBITRARY (the code's choice is mk M = TFull d M, used in
   the second non-vacuity example).  The solver is an ARBITRARY function, `med` any positively homogeneous function.
   As for the L2 kernel the AGOP step is invariant only on the `masksLight` domain (absolute zero-distance threshold eps of the
   gradient code) — grad_light_needs_mask below is a counterexample outside it — so ScaleInv.Pipeline cannot be applied
   verbatim (its hypotheses quantify over ALL data): the four-line induction is redone carrying the domain hypotheses, and
   featmatLight_is_featmat records that the recursion IS ScaleInv.featmat at these components. *)
From Coq Require Import Reals List Lra.
Require Import XV.Real.Kernels XV.Real.Grads XV.Real.Bandwidth XV.Real.ScaleInv XV.Real.GradScale XV.Real.BwOps XV.Real.ScaleInvL2.
Import ListNotations.
Local Open Scope R_scope.

(* ====================================================================================================================== *)
(* ---------- the light distance and its scaling ---------- *)

(* the distance the light kernel computes: expansion with M, clamp at 0, square root *)
Definition ldist (t : tmat) (x z : list R) : R := sqrt (Rmax 0 (light_sq t x z)).

Lemma vdotR_vscale_both c : forall a b, vdotR (vscaleR c a) (vscaleR c b) = c * c * vdotR a b.
Proof. unfold vscaleR. induction a as [|x a IH]; intros [|y b]; cbn [map vdotR]; try ring. rewrite IH. ring. Qed.

Lemma length_transform_vscale t c z : length (transform t (vscaleR c z)) = length (transform t z).
Proof. rewrite transform_scale. unfold vscaleR. apply map_length. Qed.

(* the expansion is homogeneous of degree two — for EVERY real c and every matrix (no symmetry, no shape condition) *)
Lemma light_sq_scale t c x z : light_sq t (vscaleR c x) (vscaleR c z) = c * c * light_sq t x z.
Proof. unfold light_sq. rewrite !transform_scale, !vdotR_vscale_both. ring. Qed.

(* (2) the distance handed to the bandwidth update is homogeneous of degree one *)
Lemma sqrt_light_scale t c x z : 0 < c ->
  sqrt (Rmax 0 (light_sq t (vscaleR c x) (vscaleR c z))) = c * sqrt (Rmax 0 (light_sq t x z)).
Proof.
  intros Hc. rewrite light_sq_scale.
  replace (Rmax 0 (c * c * light_sq t x z)) with (c * c * Rmax 0 (light_sq t x z))
    by (rewrite <- RmaxRmult by nra; f_equal; ring).
  rewrite sqrt_mult by (try apply Rmax_l; nra). rewrite sqrt_square by lra. reflexivity.
Qed.

Theorem ldist_scale t c x z : 0 < c -> ldist t (vscaleR c x) (vscaleR c z) = c * ldist t x z.
Proof. apply sqrt_light_scale. Qed.

Lemma ldist_nonneg t x z : 0 <= ldist t x z.
Proof. unfold ldist. apply sqrt_pos. Qed.

(* c > 0 is needed: with c = -1 the distance is unchanged, not negated *)
Example ldist_scale_needs_c_pos : ldist TNone (vscaleR (-1) [0]) (vscaleR (-1) [1]) <> -1 * ldist TNone [0] [1].
Proof.
  unfold ldist, light_sq, vscaleR. cbn [map transform vdotR].
  replace (-1 * 0 * (-1 * 0) + 0 - 2 * (-1 * 0 * (-1 * 1) + 0) + (-1 * 1 * (-1 * 1) + 0)) with 1 by ring.
  replace (0 * 0 + 0 - 2 * (0 * 1 + 0) + (1 * 1 + 0)) with 1 by ring.
  rewrite Rmax_right by lra. rewrite sqrt_1. lra.
Qed.

(* (1) the kernel does not see a common rescaling of inputs and bandwidth *)
Theorem laplace_light_scale_invariant t L q c x z : 0 < c -> 0 < L ->
  laplace_light t (c * L) q (vscaleR c x) (vscaleR c z) = laplace_light t L q x z.
Proof.
  intros Hc HL. unfold laplace_light. rewrite sqrt_light_scale by exact Hc.
  rewrite pw_scale by (try exact Hc; apply sqrt_pos). rewrite <- Rpower_mult_distr by assumption.
  f_equal. field. split; apply Rgt_not_eq, exp_pos.
Qed.

(* ---------- (3) the gradient is homogeneous of degree -1 on the mask domain ---------- *)
Lemma gsum_light_scale t L q eps c : 0 < c -> 0 < L -> 0 < eps -> forall z xs cs,
  Forall (fun x => let dd := ldist t x z in dd = 0 \/ (eps <= dd /\ eps <= c * dd)) xs ->
  gsum_light t (c * L) q eps (vscaleR c z) (map (vscaleR c) xs) cs = vscaleR (/ c) (gsum_light t L q eps z xs cs).
Proof.
  intros Hc HL He z xs. induction xs as [|x xs IH]; intros cs Hall.
  - cbn [map gsum_light]. rewrite length_transform_vscale. symmetry. apply vscale_zeros.
  - destruct cs as [|c0 cs]; [cbn [map gsum_light]; rewrite length_transform_vscale; symmetry; apply vscale_zeros|].
    inversion Hall as [|? ? Hx Hxs]; subst. cbv zeta in Hx. unfold ldist in Hx. cbn [map gsum_light].
    rewrite IH by exact Hxs. rewrite sqrt_light_scale by exact Hc. rewrite gweight_scale by assumption.
    rewrite !transform_scale, vscaleR_sub, vscale_vscale, <- vaddR_scale, vscale_vscale. f_equal. f_equal. field. lra.
Qed.

(* Side condition, as in GradScale.grad_l2_homogeneous with the light distance in place of cdist2: every centre is either at
   light distance 0 from the query or at light distance >= eps both before and after scaling. *)
Theorem grad_light_homogeneous t L q eps c xs cs z : 0 < c -> 0 < L -> 0 < eps ->
  Forall (fun x => let dd := ldist t x z in dd = 0 \/ (eps <= dd /\ eps <= c * dd)) xs ->
  grad_light t (c * L) q eps (map (vscaleR c) xs) cs (vscaleR c z) = vscaleR (/ c) (grad_light t L q eps xs cs z).
Proof. intros Hc HL He Hall. unfold grad_light. apply gsum_light_scale; assumption. Qed.

(* ---------- all pairwise light distances ---------- *)
Definition pdistLight (t : tmat) (X : list (list R)) : list R :=
  flat_map (fun x => map (fun z => ldist t x z) X) X.

Lemma pdistLight_scale t c X : 0 < c -> pdistLight t (scaleX c X) = map (Rmult c) (pdistLight t X).
Proof.
  intros Hc. unfold pdistLight, scaleX.
  assert (G : forall Y Z : list (list R),
    flat_map (fun x => map (fun z => ldist t x z) (map (vscaleR c) Y)) (map (vscaleR c) Z)
    = map (Rmult c) (flat_map (fun x => map (fun z => ldist t x z) Y) Z)).
  { intros Y. induction Z as [|x Z IH]; cbn [map flat_map]; [reflexivity|].
    rewrite map_app, IH. f_equal. rewrite !map_map. apply map_ext. intros z. apply ldist_scale. exact Hc. }
  apply G.
Qed.

Lemma pdistLight_nonneg t X : Forall (fun d => 0 <= d) (pdistLight t X).
Proof.
  apply Forall_forall. intros d Hd. unfold pdistLight in Hd. apply in_flat_map in Hd. destruct Hd as [x [_ Hd]].
  apply in_map_iff in Hd. destruct Hd as [z [<- _]]. apply ldist_nonneg.
Qed.

(* ====================================================================================================================== *)
Section LightPipeline.
  Variables base q eps : R.
  Variable med : list R -> R.
  Hypothesis med_hom : forall c l, 0 < c -> med (map (Rmult c) l) = c * med l.
  Variable solve : list (list R) -> list R.          (* ARBITRARY: LAPACK on the Gram matrix for the fixed targets and ridge *)
  Variable mk : list (list R) -> tmat.               (* ARBITRARY: normalised AGOP -> the kernel's `mat` of the next round
                                                        (the code: the matrix itself, mk M = TFull d M) *)

  (* ---------- the concrete components ---------- *)
  Definition bwLight (t : tmat) (X : list (list R)) : R := base * med (pdistLight t X).
  Definition gramLight (t : tmat) (L : R) (X : list (list R)) : list (list R) :=
    map (fun x => map (fun z => laplace_light t L q x z) X) X.
  Definition predictLight (t : tmat) (L : R) (X : list (list R)) (a : list R) (z : list R) : R :=
    fpred (laplace_light t L q) X a z.
  Definition gradsLight (t : tmat) (L : R) (X : list (list R)) (a : list R) : list (list R) :=
    map (fun z => grad_light t L q eps X a z) X.
  Definition agopLight (t : tmat) (L : R) (X : list (list R)) (a : list R) : tmat :=
    mk (normalise (agop_raw (gradsLight t L X a))).

  (* the domain on which the masked gradient is homogeneous: every ordered pair of training points is either at light distance 0
     or at light distance >= eps both before and after scaling (side condition of grad_light_homogeneous) *)
  Definition masksLight (c : R) (t : tmat) (X : list (list R)) : Prop :=
    forall x z, In x X -> In z X ->
      let dd := ldist t x z in dd = 0 \/ (eps <= dd /\ eps <= c * dd).

  (* ---------- L1: the bandwidth is homogeneous of degree one ---------- *)
  Theorem bwLight_hom c t X : 0 < c -> bwLight t (scaleX c X) = c * bwLight t X.
  Proof. intros Hc. unfold bwLight. rewrite pdistLight_scale, med_hom by exact Hc. ring. Qed.

  (* bwLight IS the code's adaptive bandwidth (BwOps.adapt_bandwidth on the matrix of ldist^q that _get_kernel_matrix_impl hands
     over) whenever the median is not below eps, and then its homogeneity is BwOps.adapt_bandwidth_homogeneous *)
  Lemma bwLight_is_adapt_bandwidth t X : 0 < q -> eps <= med (pdistLight t X) ->
    adapt_bandwidth base q eps med (map (fun d => pw d q) (pdistLight t X)) = bwLight t X.
  Proof. intros Hq Hm. apply adapt_bandwidth_is_base_times_median; [exact Hq|apply pdistLight_nonneg|exact Hm]. Qed.

  Lemma adapt_bandwidth_pdistLight_hom c t X : 0 < q -> 0 < c -> eps <= med (pdistLight t X) -> eps <= c * med (pdistLight t X) ->
    adapt_bandwidth base q eps med (map (fun d => pw d q) (pdistLight t (scaleX c X)))
    = c * adapt_bandwidth base q eps med (map (fun d => pw d q) (pdistLight t X)).
  Proof.
    intros Hq Hc H1 H2. rewrite pdistLight_scale by exact Hc.
    apply adapt_bandwidth_homogeneous; try assumption; [apply pdistLight_nonneg|apply med_hom; exact Hc].
  Qed.

  (* ---------- L2: the Gram matrix is invariant ---------- *)
  Theorem gramLight_inv c t L X : 0 < c -> 0 < L -> gramLight t (c * L) (scaleX c X) = gramLight t L X.
  Proof.
    intros Hc HL. unfold gramLight, scaleX. rewrite map_map. apply map_ext. intros x. rewrite map_map. apply map_ext. intros z.
    apply laplace_light_scale_invariant; assumption.
  Qed.

  (* ---------- L3: predictions are invariant ---------- *)
  Theorem predictLight_inv c t L X a z : 0 < c -> 0 < L ->
    predictLight t (c * L) (scaleX c X) a (qscale c z) = predictLight t L X a z.
  Proof.
    intros Hc HL. unfold predictLight, scaleX, qscale. revert a.
    induction X as [|x X IH]; intros a; [reflexivity|]. destruct a as [|a0 a]; [reflexivity|].
    cbn [map fpred]. rewrite IH, laplace_light_scale_invariant by assumption. reflexivity.
  Qed.

  (* ---------- L4: the normalised AGOP (hence the next matrix) is invariant on the masksLight domain ---------- *)
  Lemma gradsLight_scale c t L X a : 0 < c -> 0 < L -> 0 < eps -> masksLight c t X ->
    gradsLight t (c * L) (scaleX c X) a = map (vscaleR (/ c)) (gradsLight t L X a).
  Proof.
    intros Hc HL He Hm. unfold gradsLight. unfold scaleX at 2. rewrite !map_map. apply map_ext_in. intros z Hz.
    unfold scaleX. apply grad_light_homogeneous; try assumption.
    apply Forall_forall. intros x Hx. apply (Hm x z Hx Hz).
  Qed.

  Theorem agopLight_inv c t L X a : 0 < c -> 0 < L -> 0 < eps -> masksLight c t X ->
    0 < mmaxR (agop_raw (gradsLight t L X a)) ->            (* the normaliser of the UNSCALED problem is positive *)
    agopLight t (c * L) (scaleX c X) a = agopLight t L X a.
  Proof.
    intros Hc HL He Hm Hpos. unfold agopLight. f_equal.
    rewrite gradsLight_scale by assumption. rewrite agop_raw_scale.
    assert (Hi : 0 < / c) by (apply Rinv_0_lt_compat; exact Hc).
    apply normalise_scale; [nra|exact Hpos].
  Qed.

  (* ---------- L5: the instantiated pipeline ---------- *)
  Fixpoint featmatLight (t0 : tmat) (X : list (list R)) (n : nat) : tmat :=
    match n with
    | O => t0
    | S k => agopLight (featmatLight t0 X k) (bwLight (featmatLight t0 X k) X) X
                       (solve (gramLight (featmatLight t0 X k) (bwLight (featmatLight t0 X k) X) X))
    end.
  Definition bandwidthLight (t0 : tmat) (X : list (list R)) (n : nat) : R := bwLight (featmatLight t0 X n) X.
  Definition coefsLight (t0 : tmat) (X : list (list R)) (n : nat) : list R :=
    solve (gramLight (featmatLight t0 X n) (bandwidthLight t0 X n) X).
  Definition predictionLight (t0 : tmat) (X : list (list R)) (n : nat) (z : list R) : R :=
    predictLight (featmatLight t0 X n) (bandwidthLight t0 X n) X (coefsLight t0 X n) z.

  (* the recursion is literally ScaleInv.featmat / bandwidth / coefs / prediction at these components *)
  Lemma featmatLight_is_featmat t0 X n :
    featmatLight t0 X n = featmat (list (list R)) tmat (list (list R)) (list R) bwLight gramLight solve agopLight t0 X n.
  Proof. induction n as [|n IH]; [reflexivity|]. cbn [featmatLight featmat]. rewrite <- IH. reflexivity. Qed.

  Lemma predictionLight_is_prediction t0 X n z :
    predictionLight t0 X n z
    = prediction (list (list R)) tmat (list (list R)) (list R) (list R) R bwLight gramLight solve agopLight predictLight t0 X n z.
  Proof.
    unfold predictionLight, prediction, coefsLight, coefs, bandwidthLight, bandwidth. rewrite !featmatLight_is_featmat. reflexivity.
  Qed.

  Section Fit.
    Variable c : R.
    Variable t0 : tmat.
    Variable X : list (list R).
    Hypothesis c_pos : 0 < c.
    Hypothesis eps_pos : 0 < eps.
    (* hypotheses on the UNSCALED fit only *)
    Hypothesis bw_pos : forall n, 0 < base * med (pdistLight (featmatLight t0 X n) X).
    Hypothesis masks_all : forall n, masksLight c (featmatLight t0 X n) X.
    Hypothesis norm_pos : forall n,
      0 < mmaxR (agop_raw (gradsLight (featmatLight t0 X n) (bandwidthLight t0 X n) X (coefsLight t0 X n))).

    Lemma bandwidthLight_pos n : 0 < bwLight (featmatLight t0 X n) X.
    Proof. unfold bwLight. apply bw_pos. Qed.

    Theorem featmatLight_invariant : forall n, featmatLight t0 (scaleX c X) n = featmatLight t0 X n.
    Proof.
      induction n as [|n IH]; [reflexivity|]. cbn [featmatLight]. rewrite IH.
      rewrite bwLight_hom by exact c_pos. rewrite gramLight_inv by (try exact c_pos; apply bandwidthLight_pos).
      apply agopLight_inv; [exact c_pos|apply bandwidthLight_pos|exact eps_pos|apply masks_all|apply norm_pos].
    Qed.

    Theorem bandwidthLight_scales n : bandwidthLight t0 (scaleX c X) n = c * bandwidthLight t0 X n.
    Proof. unfold bandwidthLight. rewrite featmatLight_invariant. apply bwLight_hom. exact c_pos. Qed.

    Theorem coefsLight_invariant n : coefsLight t0 (scaleX c X) n = coefsLight t0 X n.
    Proof.
      unfold coefsLight. rewrite bandwidthLight_scales, featmatLight_invariant.
      rewrite gramLight_inv by (try exact c_pos; apply bandwidthLight_pos). reflexivity.
    Qed.

    Theorem light_fit_commutes_with_rescaling n z :
      predictionLight t0 (scaleX c X) n (qscale c z) = predictionLight t0 X n z.
    Proof.
      unfold predictionLight. rewrite coefsLight_invariant, bandwidthLight_scales, featmatLight_invariant.
      apply predictLight_inv; [exact c_pos|apply bandwidthLight_pos].
    Qed.

    (* consequently every validation prediction of every iterate, hence any selection rule looking only at them, is unchanged *)
    Corollary light_selected_model_invariant (V : list (list R)) (select : list (list R) -> nat) (rounds : nat) z :
      predictionLight t0 (scaleX c X)
        (select (map (fun n => map (predictionLight t0 (scaleX c X) n) (map (qscale c) V)) (seq 0 (S rounds)))) (qscale c z)
      = predictionLight t0 X (select (map (fun n => map (predictionLight t0 X n) V) (seq 0 (S rounds)))) z.
    Proof.
      replace (map (fun n => map (predictionLight t0 (scaleX c X) n) (map (qscale c) V)) (seq 0 (S rounds)))
        with (map (fun n => map (predictionLight t0 X n) V) (seq 0 (S rounds))).
      - apply light_fit_commutes_with_rescaling.
      - apply map_ext. intros n. rewrite map_map. apply map_ext. intros v. symmetry. apply light_fit_commutes_with_rescaling.
    Qed.
  End Fit.
End LightPipeline.

(* ====================================================================================================================== *)
(* The mask side condition of grad_light_homogeneous cannot be dropped: one centre 0 in R^1, query 3/4, eps = 1, c = 2, q = 1, L = 1.
   Before scaling the centre is masked (3/4 < eps) and the gradient is 0; after scaling the distance is 3/2 >= eps and the gradient
   is gweight 2 1 1 (3/2) * (3/2) < 0. *)
Lemma sqrt_Rmax_sq v s : 0 <= s -> v = s * s -> sqrt (Rmax 0 v) = s.
Proof. intros Hs ->. rewrite Rmax_right by nra. apply sqrt_square. exact Hs. Qed.

Example grad_light_needs_mask :
  grad_light TNone (2 * 1) 1 1 (map (vscaleR 2) [[0]]) [1] (vscaleR 2 [3 / 4])
  <> vscaleR (/ 2) (grad_light TNone 1 1 1 [[0]] [1] [3 / 4]).
Proof.
  assert (D0 : sqrt (Rmax 0 (light_sq TNone [0] [3 / 4])) = 3 / 4)
    by (apply sqrt_Rmax_sq; [lra|unfold light_sq; cbn [transform vdotR]; lra]).
  assert (D1 : sqrt (Rmax 0 (light_sq TNone [2 * 0] [2 * (3 / 4)])) = 3 / 2)
    by (apply sqrt_Rmax_sq; [lra|unfold light_sq; cbn [transform vdotR]; lra]).
  assert (W0 : gweight 1 1 1 (3 / 4) = 0) by (unfold gweight; destruct (Rle_dec 1 (3 / 4)); [lra|ring]).
  assert (W1 : gweight (2 * 1) 1 1 (3 / 2) < 0) by (apply gweight_neg; lra).
  unfold grad_light, vscaleR. cbn [map gsum_light transform length repeat vsubR vaddR].
  rewrite D0, D1, W0. intros H. injection H as H. nra.
Qed.

(* ====================================================================================================================== *)
(* Non-vacuity.  Data, order statistic and solver of the closing examples of ScaleInvL2.v: Xex = [[0;0];[3;4]], medex = second entry,
   solveex = [1;1]; eps = 1/1000, c = 2, base = 10, exponent q = 1, first matrix TNone (the identity).
   Example A: mk = rootex (constant TNone), as in ScaleInvL2.
   Example B: mk M = TFull 2 M — THE CODE'S CHOICE for the light kernel (the normalised AGOP itself is the kernel's `mat`).  The
   normalised AGOP is [[9/16; 3/4]; [3/4; 1]] at every round >= 1 (it does not depend on the gradient weight), the light distance of
   the two points under it is 25/4.  ALL hypotheses of the Fit section hold at EVERY round in both examples. *)
Lemma list2x2_eq (a b c d a' b' c' d' : R) : a = a' -> b = b' -> c = c' -> d = d' -> [[a; b]; [c; d]] = [[a'; b']; [c'; d']].
Proof. intros -> -> -> ->. reflexivity. Qed.

(* entry (0,0) of the AGOP of two gradients in R^2 is a0^2 + b0^2 *)
Lemma agop2_pos_light a0 a1 b0 b1 : a0 <> 0 -> 0 < mmaxR (agop_raw [[a0; a1]; [b0; b1]]).
Proof.
  intros Ha. unfold agop_raw, outer. cbn [map fold_right maddP vaddP].
  eapply Rlt_le_trans; [|apply mmaxR_ge_head]. nra.
Qed.

(* the gradients of the example are -k (3,4) and k (3,4): their normalised AGOP does not depend on k <> 0 *)
Definition Mex : list (list R) := [[9 / 16; 3 / 4]; [3 / 4; 1]].

Lemma normalise_agop_34 k : k <> 0 -> normalise (agop_raw [[-3 * k; -4 * k]; [3 * k; 4 * k]]) = Mex.
Proof.
  intros Hk. assert (Hkk : 0 < k * k) by nra.
  assert (Hm : mmaxR (agop_raw [[-3 * k; -4 * k]; [3 * k; 4 * k]]) = 32 * (k * k)).
  { unfold mmaxR, agop_raw, outer. cbn [map fold_right maddP vaddP concat app lmaxR].
    rewrite (Rmax_left (-4 * k * (-4 * k) + 4 * k * (4 * k))) by nra.
    rewrite (Rmax_right (-4 * k * (-3 * k) + 4 * k * (3 * k))) by nra.
    rewrite (Rmax_right (-3 * k * (-4 * k) + 3 * k * (4 * k))) by nra. ring. }
  unfold normalise. rewrite Hm. unfold agop_raw, outer, Mex. cbn [map fold_right maddP vaddP].
  apply list2x2_eq; field; lra.
Qed.

(* ---- distances without a matrix ---- *)
Lemma lex_00 : sqrt (Rmax 0 (light_sq TNone [0; 0] [0; 0])) = 0.
Proof. apply sqrt_Rmax_sq; [lra|unfold light_sq; cbn [transform vdotR]; lra]. Qed.
Lemma lex_11 : sqrt (Rmax 0 (light_sq TNone [3; 4] [3; 4])) = 0.
Proof. apply sqrt_Rmax_sq; [lra|unfold light_sq; cbn [transform vdotR]; lra]. Qed.
Lemma lex_01 : sqrt (Rmax 0 (light_sq TNone [0; 0] [3; 4])) = 5.
Proof. apply sqrt_Rmax_sq; [lra|unfold light_sq; cbn [transform vdotR]; lra]. Qed.
Lemma lex_10 : sqrt (Rmax 0 (light_sq TNone [3; 4] [0; 0])) = 5.
Proof. apply sqrt_Rmax_sq; [lra|unfold light_sq; cbn [transform vdotR]; lra]. Qed.

Lemma pdistLight_ex : pdistLight TNone Xex = [0; 5; 5; 0].
Proof. unfold pdistLight, Xex, ldist. cbn [flat_map map app]. rewrite lex_00, lex_01, lex_10, lex_11. reflexivity. Qed.

Lemma masksLight_ex : masksLight (1 / 1000) 2 TNone Xex.
Proof.
  intros x z Hx Hz. cbv zeta. unfold ldist.
  destruct Hx as [<-|[<-|[]]]; destruct Hz as [<-|[<-|[]]];
    rewrite ?lex_00, ?lex_01, ?lex_10, ?lex_11; lra.
Qed.

Lemma gradsLight_ex_shape L : exists k, k <> 0 /\
  gradsLight 1 (1 / 1000) TNone L Xex [1; 1] = [[-3 * k; -4 * k]; [3 * k; 4 * k]].
Proof.
  exists (gweight L 1 (1 / 1000) 5). split; [apply Rlt_not_eq, gweight_neg; lra|].
  unfold gradsLight, grad_light, Xex. cbn [map gsum_light transform length repeat].
  rewrite lex_00, lex_01, lex_10, lex_11.
  unfold vscaleR. cbn [vsubR map vaddR]. apply list2x2_eq; ring.
Qed.

Lemma norm_pos_light_ex L : 0 < mmaxR (agop_raw (gradsLight 1 (1 / 1000) TNone L Xex [1; 1])).
Proof. destruct (gradsLight_ex_shape L) as [k [Hk ->]]. apply agop2_pos_light. nra. Qed.

(* items 1-3 on the instance *)
Example laplace_light_scale_invariant_ex :
  laplace_light TNone (2 * 50) 1 (vscaleR 2 [0; 0]) (vscaleR 2 [3; 4]) = laplace_light TNone 50 1 [0; 0] [3; 4].
Proof. apply laplace_light_scale_invariant; lra. Qed.

Example ldist_scale_ex : ldist TNone (vscaleR 2 [0; 0]) (vscaleR 2 [3; 4]) = 2 * 5.
Proof. rewrite ldist_scale by lra. unfold ldist. rewrite lex_01. reflexivity. Qed.

Example grad_light_homogeneous_ex L : 0 < L ->
  grad_light TNone (2 * L) 1 (1 / 1000) (map (vscaleR 2) Xex) [1; 1] (vscaleR 2 [0; 0])
  = vscaleR (/ 2) (grad_light TNone L 1 (1 / 1000) Xex [1; 1] [0; 0]).
Proof.
  intros HL. apply grad_light_homogeneous; [lra|exact HL|lra|].
  apply Forall_forall. intros x Hx. apply (masksLight_ex x [0; 0] Hx). left. reflexivity.
Qed.

(* L1 *)
Example bwLight_hom_ex : bwLight 10 medex TNone (scaleX 2 Xex) = 2 * bwLight 10 medex TNone Xex /\ bwLight 10 medex TNone Xex = 50.
Proof.
  split; [apply bwLight_hom; [apply medex_hom|lra]|]. unfold bwLight. rewrite pdistLight_ex. unfold medex. cbn [nth]. lra.
Qed.

(* L4 *)
Example agopLight_inv_ex :
  agopLight 1 (1 / 1000) rootex TNone (2 * 50) (scaleX 2 Xex) [1; 1] = agopLight 1 (1 / 1000) rootex TNone 50 Xex [1; 1].
Proof. apply agopLight_inv; [lra|lra|lra|apply masksLight_ex|apply norm_pos_light_ex]. Qed.

(* ---- Example A: every round of the fit, mk = rootex ---- *)
Lemma featmatLight_exA n : featmatLight 10 1 (1 / 1000) medex solveex rootex TNone Xex n = TNone.
Proof. destruct n as [|n]; reflexivity. Qed.

Example light_fit_commutes_with_rescaling_ex n z :
  predictionLight 10 1 (1 / 1000) medex solveex rootex TNone (scaleX 2 Xex) n (qscale 2 z)
  = predictionLight 10 1 (1 / 1000) medex solveex rootex TNone Xex n z.
Proof.
  apply light_fit_commutes_with_rescaling.
  - apply medex_hom.
  - lra.
  - lra.
  - intros k. rewrite featmatLight_exA, pdistLight_ex. unfold medex. cbn [nth]. lra.
  - intros k. rewrite featmatLight_exA. apply masksLight_ex.
  - intros k. rewrite featmatLight_exA. unfold coefsLight, solveex. apply norm_pos_light_ex.
Qed.

(* ---- Example B: mk M = TFull 2 M, the matrix itself ---- *)
Definition mkfull (M : list (list R)) : tmat := TFull 2 M.

Lemma lexM_00 : sqrt (Rmax 0 (light_sq (TFull 2 Mex) [0; 0] [0; 0])) = 0.
Proof. apply sqrt_Rmax_sq; [lra|unfold light_sq, Mex; cbn [transform xmat]; unfold vscaleR; cbn [vaddR map repeat vdotR]; lra]. Qed.
Lemma lexM_11 : sqrt (Rmax 0 (light_sq (TFull 2 Mex) [3; 4] [3; 4])) = 0.
Proof. apply sqrt_Rmax_sq; [lra|unfold light_sq, Mex; cbn [transform xmat]; unfold vscaleR; cbn [vaddR map repeat vdotR]; lra]. Qed.
Lemma lexM_01 : sqrt (Rmax 0 (light_sq (TFull 2 Mex) [0; 0] [3; 4])) = 25 / 4.
Proof. apply sqrt_Rmax_sq; [lra|unfold light_sq, Mex; cbn [transform xmat]; unfold vscaleR; cbn [vaddR map repeat vdotR]; lra]. Qed.
Lemma lexM_10 : sqrt (Rmax 0 (light_sq (TFull 2 Mex) [3; 4] [0; 0])) = 25 / 4.
Proof. apply sqrt_Rmax_sq; [lra|unfold light_sq, Mex; cbn [transform xmat]; unfold vscaleR; cbn [vaddR map repeat vdotR]; lra]. Qed.

Lemma pdistLight_exM : pdistLight (TFull 2 Mex) Xex = [0; 25 / 4; 25 / 4; 0].
Proof. unfold pdistLight, Xex, ldist. cbn [flat_map map app]. rewrite lexM_00, lexM_01, lexM_10, lexM_11. reflexivity. Qed.

Lemma masksLight_exM : masksLight (1 / 1000) 2 (TFull 2 Mex) Xex.
Proof.
  intros x z Hx Hz. cbv zeta. unfold ldist.
  destruct Hx as [<-|[<-|[]]]; destruct Hz as [<-|[<-|[]]];
    rewrite ?lexM_00, ?lexM_01, ?lexM_10, ?lexM_11; lra.
Qed.

(* under Mex the transformed difference of the two points is (75/16, 25/4) = 25/16 (3, 4): the gradients are again proportional to
   -(3,4) and (3,4) *)
Lemma gradsLight_exM_shape L : exists k, k <> 0 /\
  gradsLight 1 (1 / 1000) (TFull 2 Mex) L Xex [1; 1] = [[-3 * k; -4 * k]; [3 * k; 4 * k]].
Proof.
  exists (gweight L 1 (1 / 1000) (25 / 4) * (25 / 16)). split.
  { assert (H : gweight L 1 (1 / 1000) (25 / 4) < 0) by (apply gweight_neg; lra). nra. }
  unfold gradsLight, grad_light, Xex. cbn [map gsum_light].
  rewrite lexM_00, lexM_01, lexM_10, lexM_11.
  unfold Mex. cbn [transform xmat length]. unfold vscaleR. cbn [repeat vsubR map vaddR]. apply list2x2_eq; field.
Qed.

Lemma norm_pos_light_exM L : 0 < mmaxR (agop_raw (gradsLight 1 (1 / 1000) (TFull 2 Mex) L Xex [1; 1])).
Proof. destruct (gradsLight_exM_shape L) as [k [Hk ->]]. apply agop2_pos_light. nra. Qed.

(* the AGOP step reproduces Mex from the identity and from Mex, for every bandwidth *)
Lemma agopLight_ex_none L : agopLight 1 (1 / 1000) mkfull TNone L Xex [1; 1] = TFull 2 Mex.
Proof. unfold agopLight, mkfull. destruct (gradsLight_ex_shape L) as [k [Hk ->]]. rewrite normalise_agop_34 by exact Hk. reflexivity. Qed.
Lemma agopLight_ex_M L : agopLight 1 (1 / 1000) mkfull (TFull 2 Mex) L Xex [1; 1] = TFull 2 Mex.
Proof. unfold agopLight, mkfull. destruct (gradsLight_exM_shape L) as [k [Hk ->]]. rewrite normalise_agop_34 by exact Hk. reflexivity. Qed.

Lemma featmatLight_S base q eps med solve mk t0 X k :
  featmatLight base q eps med solve mk t0 X (S k)
  = agopLight q eps mk (featmatLight base q eps med solve mk t0 X k) (bwLight base med (featmatLight base q eps med solve mk t0 X k) X) X
      (solve (gramLight q (featmatLight base q eps med solve mk t0 X k) (bwLight base med (featmatLight base q eps med solve mk t0 X k) X) X)).
Proof. reflexivity. Qed.

Lemma featmatLight_exB n : featmatLight 10 1 (1 / 1000) medex solveex mkfull TNone Xex (S n) = TFull 2 Mex.
Proof.
  induction n as [|n IH].
  - rewrite featmatLight_S. cbn [featmatLight]. unfold solveex. apply agopLight_ex_none.
  - rewrite featmatLight_S, IH. unfold solveex. apply agopLight_ex_M.
Qed.

(* the matrix really changes: this fit is not the fit of Example A *)
Example featmatLight_exB_moves : featmatLight 10 1 (1 / 1000) medex solveex mkfull TNone Xex 1 <> TNone.
Proof. rewrite featmatLight_exB. discriminate. Qed.

Example light_fit_commutes_with_rescaling_ex_full n z :
  predictionLight 10 1 (1 / 1000) medex solveex mkfull TNone (scaleX 2 Xex) n (qscale 2 z)
  = predictionLight 10 1 (1 / 1000) medex solveex mkfull TNone Xex n z.
Proof.
  apply light_fit_commutes_with_rescaling.
  - apply medex_hom.
  - lra.
  - lra.
  - intros [|k]; [cbn [featmatLight]; rewrite pdistLight_ex|rewrite featmatLight_exB, pdistLight_exM]; unfold medex; cbn [nth]; lra.
  - intros [|k]; [apply masksLight_ex|rewrite featmatLight_exB; apply masksLight_exM].
  - intros [|k]; unfold coefsLight, solveex; [apply norm_pos_light_ex|rewrite featmatLight_exB; apply norm_pos_light_exM].
Qed.

(* the bandwidths of Example B: 50 at round 0, 125/2 afterwards, doubled on the rescaled data *)
Example bandwidthLight_exB :
  bandwidthLight 10 1 (1 / 1000) medex solveex mkfull TNone Xex 0 = 50 /\
  (forall n, bandwidthLight 10 1 (1 / 1000) medex solveex mkfull TNone Xex (S n) = 125 / 2) /\
  (forall n, bandwidthLight 10 1 (1 / 1000) medex solveex mkfull TNone (scaleX 2 Xex) (S n) = 2 * (125 / 2)).
Proof.
  assert (A : forall n, bandwidthLight 10 1 (1 / 1000) medex solveex mkfull TNone Xex (S n) = 125 / 2).
  { intros n. unfold bandwidthLight. rewrite featmatLight_exB. unfold bwLight. rewrite pdistLight_exM. unfold medex. cbn [nth]. lra. }
  split; [|split].
  - unfold bandwidthLight, bwLight. cbn [featmatLight]. rewrite pdistLight_ex. unfold medex. cbn [nth]. lra.
  - exact A.
  - intros n. rewrite <- (A n). apply bandwidthLight_scales.
    + apply medex_hom.
    + lra.
    + lra.
    + intros [|k]; [cbn [featmatLight]; rewrite pdistLight_ex|rewrite featmatLight_exB, pdistLight_exM]; unfold medex; cbn [nth]; lra.
    + intros [|k]; [apply masksLight_ex|rewrite featmatLight_exB; apply masksLight_exM].
    + intros [|k]; unfold coefsLight, solveex; [apply norm_pos_light_ex|rewrite featmatLight_exB; apply norm_pos_light_exM].
Qed.

Print Assumptions laplace_light_scale_invariant.
Print Assumptions ldist_scale.
Print Assumptions grad_light_homogeneous.
Print Assumptions light_fit_commutes_with_rescaling_ex_full.
Print Assumptions light_fit_commutes_with_rescaling.
