(* Composition of C04 (gradients) and C14 (AGOP) for the SUM-POWER Laplace kernel -- the analogue of XV.Real.AgopOfPredictorPQ
   (product and Lpq kernels) for the eps-masked gradient model GradAuto.grad_sum_power.
   Difference from the other kernels: the mask is per COORDINATE.  A training point's own centre is not "dropped" by a global mask;
   instead every coordinate of T(x_k - x_k) = 0 is masked (|0| < eps), so the own-centre term has derivative factor
   wsum (dspcoord_m) u w = 0 and contributes 0 to the model gradient.  Hence
   (1) VALUE statement: the model gradient at z of the full predictor equals the model gradient with centre k (and coefficient k)
       removed, whenever every coordinate of T(z - x_k) is masked (no hypothesis on lengths, q, L, c, power, k);
       in particular at z = x_k for the identity / a diagonal transform (0 < eps);
   (2) the accumulated AGOP entry is the sum over outputs and training points of products of TRUE partial derivatives of the
       predictor with the point's own centre removed, for training points pairwise "open" in every transformed coordinate.
   Compared with the product theorem the hypothesis `length a = length X` on the coefficient vectors is NOT needed (dropped),
   and `nz` is not a hypothesis: it follows from the open masks and 0 < eps. *)
From Coq Require Import Reals List Lra Lia.
From Coquelicot Require Import Coquelicot.
Require Import XV.Real.Kernels XV.Real.Grads XV.Real.GradsP XV.Real.GradAuto XV.Real.ScaleInvL2 XV.Real.AgopOfPredictor
               XV.Real.AgopOfPredictorPQ.
Import ListNotations.
Local Open Scope R_scope.

(* ---------- a term whose derivative factor vanishes can be removed from the linear combination ---------- *)
Lemma dlincomb_remove_nth (f : list R -> R) (g : list R -> list R) : forall xs cs k,
  f (g (nth k xs [])) = 0 ->
  dlincomb f (map g xs) cs = dlincomb f (map g (remove_nth k xs)) (remove_nth k cs).
Proof.
  induction xs as [|x xs IH]; intros cs k H; [destruct k; reflexivity|].
  destruct cs as [|c0 cs]; [replace (remove_nth k (@nil R)) with (@nil R) by (destruct k; reflexivity); destruct (map g (remove_nth k (x :: xs))); reflexivity|].
  destruct k as [|k]; cbn [remove_nth map dlincomb].
  - cbn [nth] in H. rewrite H. ring.
  - cbn [nth] in H. rewrite (IH cs k H). reflexivity.
Qed.

Lemma wsum_all_zero (g : R -> R) : forall u w, List.Forall (fun a => g a = 0) u -> wsum g u w = 0.
Proof.
  induction u as [|a u IH]; intros [|b w] H; cbn [wsum]; try reflexivity.
  inversion H as [|a' u' Ha Hu]; subst. rewrite Ha, (IH w Hu). ring.
Qed.

(* a transformed difference all of whose coordinates are masked has derivative value 0 in every direction *)
Lemma dsp_m_all_masked L q c eps power u w : List.Forall (fun a => Rabs a < eps) u -> dsp_m L q c eps power u w = 0.
Proof.
  intros H. unfold dsp_m. rewrite (wsum_all_zero (dspcoord_m L q eps) u w); [ring|].
  apply (Forall_impl _ (fun a Ha => dspcoord_m_closed L q eps a Ha) H).
Qed.

(* ====================================================================================================================== *)
(* (1) the value statement *)

(* general form: any query z, any transform, any centre k all of whose transformed-difference coordinates are masked *)
Theorem grad_sum_power_drop_masked_center t L q c eps power X a k z :
  List.Forall (fun v => Rabs v < eps) (transform t (vsubR z (nth k X []))) ->
  grad_sum_power t L q c eps power X a z = grad_sum_power t L q c eps power (remove_nth k X) (remove_nth k a) z.
Proof.
  intros H. unfold grad_sum_power. f_equal. unfold gauto. apply map_ext. intros e.
  apply (dlincomb_remove_nth (fun u => dsp_m L q c eps power u (basis e (length (transform t z))))
                             (fun x => transform t (vsubR z x)) X a k).
  apply dsp_m_all_masked. exact H.
Qed.

Lemma Forall_zero_repeat n : List.Forall (fun v : R => v = 0) (repeat 0 n).
Proof. induction n as [|n IH]; cbn [repeat]; constructor; [reflexivity|exact IH]. Qed.

Lemma Forall_zero_vmul_zeros : forall n m, List.Forall (fun v : R => v = 0) (vmulR (repeat 0 n) m).
Proof.
  induction n as [|n IH]; intros [|b m]; cbn [repeat vmulR]; try constructor; [ring|apply IH].
Qed.

Lemma self_difference_zero t z : (t = TNone \/ exists m, t = TDiag m) ->
  List.Forall (fun v : R => v = 0) (transform t (vsubR z z)).
Proof.
  intros [->|[m ->]]; rewrite vsubR_self; cbn [transform]; [apply Forall_zero_repeat|apply Forall_zero_vmul_zeros].
Qed.

(* at a training point: its own centre contributes nothing (identity or diagonal transform; only 0 < eps is used) *)
Theorem grad_sum_power_drop_own_center t L q c eps power X a k : 0 < eps ->
  (t = TNone \/ exists m, t = TDiag m) ->
  grad_sum_power t L q c eps power X a (nth k X [])
  = grad_sum_power t L q c eps power (remove_nth k X) (remove_nth k a) (nth k X []).
Proof.
  intros He Ht. apply grad_sum_power_drop_masked_center.
  apply (Forall_impl _ (fun v (Hv : v = 0) => eq_ind_r (fun v => Rabs v < eps) (eq_ind_r (fun r => r < eps) He Rabs_R0) Hv)
                     (self_difference_zero t (nth k X []) Ht)).
Qed.

(* ====================================================================================================================== *)
(* (2) the accumulated matrix *)

Lemma In_remove_nth {T} (d0 : T) : forall (l : list T) k x, In x (remove_nth k l) ->
  exists j, (j < length l)%nat /\ j <> k /\ nth j l d0 = x.
Proof.
  induction l as [|a l IH]; intros k x Hin; [destruct k; destruct Hin|].
  destruct k as [|k]; cbn [remove_nth] in Hin.
  - destruct (In_nth l x d0 Hin) as [j [Hj Hx]]. exists (S j). split; [cbn; lia|]. split; [discriminate|exact Hx].
  - destruct Hin as [<-|Hin].
    + exists 0%nat. split; [cbn; lia|]. split; [discriminate|reflexivity].
    + destruct (IH k x Hin) as [j [Hj [Hjk Hx]]]. exists (S j). split; [cbn; lia|]. split; [lia|exact Hx].
Qed.

Lemma sp_mask_open_nz eps u : 0 < eps -> sp_mask_open eps u -> nz u.
Proof.
  intros He H. unfold nz. unfold sp_mask_open in H. rewrite Forall_forall in *. intros a Hin E.
  specialize (H a Hin). subst a. rewrite Rabs_R0 in H. lra.
Qed.

(* one row: the gradient accumulated at x_k is the gradient of the predictor with centre k removed *)
Lemma grads_sum_power_row_is_own_center_removed_gradient t n L q c eps power X a k d : 0 < eps ->
  (t = TNone \/ exists m, t = TDiag m /\ length m = n) ->
  List.Forall (fun x => length x = n) X -> (k < length X)%nat ->
  (forall l, (l < length X)%nat -> l <> k -> sp_mask_open eps (transform t (vsubR (nth k X []) (nth l X [])))) ->
  is_derive (fun s => fpred (closed_sum_power t L q c power) (remove_nth k X) (remove_nth k a)
                            (vaxpy s (basis d n) (nth k X []))) 0
            (nth d (nth k (map (fun z => grad_sum_power t L q c eps power X a z) X) []) 0).
Proof.
  intros He Ht HX Hk Hopen.
  rewrite (nth_map_nil (fun z => grad_sum_power t L q c eps power X a z) [] X k Hk).
  assert (Ht' : t = TNone \/ exists m, t = TDiag m) by (destruct Ht as [->|[m [-> _]]]; [left|right; exists m]; reflexivity).
  rewrite (grad_sum_power_drop_own_center t L q c eps power X a k He Ht').
  assert (Hin : In (nth k X []) X) by (apply nth_In; exact Hk).
  assert (Hz : length (nth k X []) = n) by (rewrite Forall_forall in HX; apply HX; exact Hin).
  assert (Hlen : List.Forall (fun x => length x = length (nth k X [])) (remove_nth k X)).
  { apply Forall_forall. intros x Hx. destruct (In_remove_nth [] X k x Hx) as [j [Hj [_ <-]]].
    rewrite Hz. rewrite Forall_forall in HX. apply HX. apply nth_In. exact Hj. }
  assert (Hm : List.Forall (fun x => sp_mask_open eps (transform t (vsubR (nth k X []) x))) (remove_nth k X)).
  { apply Forall_forall. intros x Hx. destruct (In_remove_nth [] X k x Hx) as [j [Hj [Hjk <-]]]. apply Hopen; assumption. }
  assert (Hnz : List.Forall (fun x => nz (transform t (vsubR (nth k X []) x))) (remove_nth k X)).
  { apply (Forall_impl _ (fun x H => sp_mask_open_nz eps _ He H) Hm). }
  rewrite <- Hz.
  destruct Ht as [->|[m [-> Hml]]].
  - apply (grad_sum_power_is_derivative TNone);
      [exact I|apply basis_length|exact Hlen|apply (sym_at_none d (length (nth k X [])))|exact Hm|exact Hnz].
  - assert (Hml' : length m = length (nth k X [])) by (rewrite Hz; exact Hml).
    apply (grad_sum_power_is_derivative (TDiag m));
      [exact Hml'|apply basis_length|exact Hlen|apply sym_at_diag_z; exact Hml'|exact Hm|exact Hnz].
Qed.

(* (C), SUM-POWER kernel, any number of outputs, identity or diagonal transform.  D_(o * |X| + k) is the gradient at X_k of the
   predictor of output o with centre k removed. *)
Theorem sum_power_feature_matrix_is_the_agop_of_the_predictor_with_own_center_removed :
  forall t n L q c eps power X (A : list (list R)) i j, 0 < eps ->
  (t = TNone \/ exists m, t = TDiag m /\ length m = n) ->
  List.Forall (fun x => length x = n) X ->
  (* distinct training points are pairwise open in EVERY transformed coordinate (this implies nz, since 0 < eps) *)
  (forall k l, (k < length X)%nat -> (l < length X)%nat -> k <> l ->
     sp_mask_open eps (transform t (vsubR (nth k X []) (nth l X [])))) ->
  exists D : list (list R),
    length D = (length A * length X)%nat /\
    (forall o k d, (o < length A)%nat -> (k < length X)%nat ->
       is_derive (fun s => fpred (closed_sum_power t L q c power) (remove_nth k X) (remove_nth k (nth o A []))
                                 (vaxpy s (basis d n) (nth k X []))) 0
                 (nth d (nth (o * length X + k) D []) 0)) /\
    ment (agop_raw (concat (map (fun a => map (fun z => grad_sum_power t L q c eps power X a z) X) A))) i j
      = fold_right Rplus 0 (map (fun g => nth i g 0 * nth j g 0) D).
Proof.
  intros t n L q c eps power X A i j He Ht HX Hpair.
  apply (agop_of_rows (fun a => map (fun z => grad_sum_power t L q c eps power X a z) X)
           (fun o k d v => is_derive (fun s => fpred (closed_sum_power t L q c power) (remove_nth k X) (remove_nth k (nth o A []))
                                                     (vaxpy s (basis d n) (nth k X []))) 0 v)
           (length X) A i j).
  - intros a _. apply map_length.
  - intros o k d _ Hk. apply grads_sum_power_row_is_own_center_removed_gradient; try assumption.
    intros l Hl Hlk. apply (Hpair k l Hk Hl). intros E. apply Hlk. symmetry. exact E.
Qed.

(* ---------- non-vacuity: 2 points of R^2, no transform, two outputs ---------- *)
Example sum_power_feature_matrix_ex : exists D : list (list R),
  length D = (2 * 2)%nat /\
  (forall o k d, (o < 2)%nat -> (k < 2)%nat ->
     is_derive (fun s => fpred (closed_sum_power TNone 1 (1 / 2) (1 / 4) 2) (remove_nth k [[0; 0]; [3; 4]])
                               (remove_nth k (nth o [[1; 2]; [-1; 3]] []))
                               (vaxpy s (basis d 2) (nth k [[0; 0]; [3; 4]] []))) 0
               (nth d (nth (o * 2 + k) D []) 0)) /\
  ment (agop_raw (concat (map (fun a => map (fun z => grad_sum_power TNone 1 (1 / 2) (1 / 4) (1 / 1000) 2 [[0; 0]; [3; 4]] a z)
                                            [[0; 0]; [3; 4]]) [[1; 2]; [-1; 3]]))) 0 1
    = fold_right Rplus 0 (map (fun g => nth 0 g 0 * nth 1 g 0) D).
Proof.
  apply (sum_power_feature_matrix_is_the_agop_of_the_predictor_with_own_center_removed
           TNone 2 1 (1 / 2) (1 / 4) (1 / 1000) 2 [[0; 0]; [3; 4]] [[1; 2]; [-1; 3]] 0 1).
  - lra.
  - left. reflexivity.
  - repeat constructor.
  - intros k l Hk Hl Hkl. cbn [length] in Hk, Hl. cbn [transform]. unfold sp_mask_open.
    destruct k as [|[|k]]; destruct l as [|[|l]]; try lia; cbn [nth vsubR];
      repeat constructor; unfold Rabs; destruct (Rcase_abs _); lra.
Qed.

Print Assumptions grad_sum_power_drop_masked_center.
Print Assumptions grad_sum_power_drop_own_center.
Print Assumptions sum_power_feature_matrix_is_the_agop_of_the_predictor_with_own_center_removed.
