(* A model of what the library returns as gradient for the three autodiff kernels (product, Lpq, sum-power Laplace):
   jacrev of  zm |-> sum_i c_i fwd(x_i, zm)  in TRANSFORMED space (one partial derivative per transformed coordinate, the
   eps-mask treated as a constant), then the row vector multiplied by the transform; and the theorems that each coordinate of
   this model is the derivative of the documented predictor along the corresponding input-space line. *)
From Coq Require Import Reals List Lra Lia.
From Coquelicot Require Import Coquelicot.
Require Import XV.Real.Kernels XV.Real.Grads XV.Real.GradsP XV.Real.GradOps.
Import ListNotations.
Local Open Scope R_scope.

(* ---------- definitions ---------- *)
(* partial derivatives wrt each transformed coordinate: vector over e < m of sum_i c_i * dk u_i (basis e m) *)
Definition gauto (dk : list R -> list R -> R) (m : nat) (us : list (list R)) (cs : list R) : list R :=
  map (fun e => dlincomb (fun u => dk u (basis e m)) us cs) (seq 0 m).
Definition masked (eps D v : R) : R := if Rle_dec eps D then v else 0.
(* the code masks on D = dist^q = sum |u|^q *)
Definition dprod_m (L q eps : R) (u w : list R) : R := masked eps (sum_abs_pow q u) (dprod L q u w).
(* masks on the p-norm itself *)
Definition dlpq_m (L p q eps : R) (u w : list R) : R := masked eps (normp p u) (dlpq L p q u w).
Definition grad_product (t : tmat) (L q eps : R) (xs : list (list R)) (cs : list R) (z : list R) : list R :=
  transform t (gauto (dprod_m L q eps) (length (transform t z)) (map (fun x => transform t (vsubR z x)) xs) cs).
Definition grad_lpq (t : tmat) (L p q eps : R) (xs : list (list R)) (cs : list R) (z : list R) : list R :=
  transform t (gauto (dlpq_m L p q eps) (length (transform t z)) (map (fun x => transform t (vsubR z x)) xs) cs).
(* sum-power kernel: the code masks every COORDINATE a of the transformed difference on |a| (before the power is taken): a masked coordinate
   enters the sum as the constant exp 0 = 1 and has derivative 0 *)
Definition spcoord_m (L q eps : R) (v : R) : R := exp (- masked eps (Rabs v) (pw (Rabs v) q) / Rpower L q).
Definition dspcoord_m (L q eps : R) (a : R) : R := masked eps (Rabs a) (dspcoord L q a).
Definition dsp_m (L q c eps : R) (power : nat) (u w : list R) : R :=
  INR power * ((1 - c) * (rsumR (map (spcoord_m L q eps) u) / INR (length u)) + c) ^ (pred power)
    * ((1 - c) / INR (length u)) * wsum (dspcoord_m L q eps) u w.
Definition grad_sum_power (t : tmat) (L q c eps : R) (power : nat) (xs : list (list R)) (cs : list R) (z : list R) : list R :=
  transform t (gauto (dsp_m L q c eps power) (length (transform t z)) (map (fun x => transform t (vsubR z x)) xs) cs).
(* "the mask of coordinate a is open, or a = 0" (|0|^q = 0 and d|a|^q at 0 is modelled as 0: the mask changes nothing there) *)
Definition sp_mask_ok (eps : R) (u : list R) : Prop := List.Forall (fun a => a = 0 \/ eps <= Rabs a) u.
Definition sp_mask_open (eps : R) (u : list R) : Prop := List.Forall (fun a => eps <= Rabs a) u.

(* ---------- G6/G5: the mask ---------- *)
Lemma masked_open eps D v : eps <= D -> masked eps D v = v.
Proof. intros H. unfold masked. destruct (Rle_dec eps D); [reflexivity|contradiction]. Qed.
Lemma masked_closed eps D v : D < eps -> masked eps D v = 0.
Proof. intros H. unfold masked. destruct (Rle_dec eps D); [lra|reflexivity]. Qed.

(* ---------- algebra of vdotR over a mapped index list ---------- *)
Lemma vdotR_map_zero {A} (l : list A) : forall w, vdotR (map (fun _ => 0) l) w = 0.
Proof. induction l as [|a l IH]; intros [|b w]; cbn [map vdotR]; try reflexivity. rewrite IH. ring. Qed.

Lemma vdotR_map_scale {A} (C : R) (f : A -> R) (l : list A) : forall w,
  vdotR (map (fun e => C * f e) l) w = C * vdotR (map f l) w.
Proof. induction l as [|a l IH]; intros [|b w]; cbn [map vdotR]; try ring. rewrite IH. ring. Qed.

Lemma vdotR_map_plus {A} (f g : A -> R) (l : list A) : forall w,
  vdotR (map (fun e => f e + g e) l) w = vdotR (map f l) w + vdotR (map g l) w.
Proof. induction l as [|a l IH]; intros [|b w]; cbn [map vdotR]; try ring. rewrite IH. ring. Qed.

Lemma wsum_zeros g : forall u n, wsum g u (repeat 0 n) = 0.
Proof. induction u as [|a u IH]; intros [|n]; cbn [wsum repeat]; try reflexivity. rewrite IH. ring. Qed.

Lemma wsum_nil_r g u : wsum g u [] = 0.
Proof. destruct u; reflexivity. Qed.

(* ---------- G1: linearity in the direction ---------- *)
(* the vector of partials (directions = basis vectors) dotted with w is the directional value; only length w = m is needed *)
Lemma wsum_basis_dot g : forall m u w, length w = m ->
  vdotR (map (fun e => wsum g u (basis e m)) (seq 0 m)) w = wsum g u w.
Proof.
  induction m as [|m IH]; intros u [|b w] Hl; try discriminate.
  - cbn [seq map vdotR]. rewrite wsum_nil_r. reflexivity.
  - cbn in Hl. injection Hl as Hl. destruct u as [|a u].
    + cbn [wsum]. apply vdotR_map_zero.
    + cbn [seq map vdotR]. rewrite <- seq_shift, map_map. cbn [basis wsum]. rewrite wsum_zeros.
      rewrite (map_ext (fun e => g a * 0 + wsum g u (basis e m)) (fun e => wsum g u (basis e m))) by (intros e; ring).
      rewrite (IH u w Hl). ring.
Qed.

Lemma vdotR_seq_nth (f : nat -> R) : forall m k w, length w = m ->
  vdotR (map f (seq k m)) w = rsumR (map (fun e => f e * nth (e - k) w 0) (seq k m)).
Proof.
  unfold rsumR. induction m as [|m IH]; intros k [|b w] Hl; try discriminate; [reflexivity|].
  cbn in Hl. injection Hl as Hl. cbn [seq map vdotR fold_right]. rewrite Nat.sub_diag. cbn [nth].
  rewrite (IH (S k) w Hl). f_equal. f_equal. apply map_ext_in. intros e He. apply in_seq in He.
  replace (e - k)%nat with (S (e - S k)) by lia. reflexivity.
Qed.

Theorem wsum_basis_expand g m u w : length u = m -> length w = m ->
  wsum g u w = rsumR (map (fun e => wsum g u (basis e m) * nth e w 0) (seq 0 m)).
Proof.
  intros _ Hw. rewrite <- (wsum_basis_dot g m u w Hw). rewrite (vdotR_seq_nth _ m 0%nat w Hw).
  f_equal. apply map_ext. intros e. rewrite Nat.sub_0_r. reflexivity.
Qed.

(* "dk u . is linear in the direction": the partials vector dotted with w gives dk u w *)
Definition dir_linear (dk : list R -> list R -> R) (m : nat) (u : list R) : Prop :=
  forall w, length w = m -> vdotR (map (fun e => dk u (basis e m)) (seq 0 m)) w = dk u w.

Lemma dir_linear_scaled_wsum (dk : list R -> list R -> R) (C : list R -> R) (g : R -> R) m u :
  (forall w, dk u w = C u * wsum g u w) -> dir_linear dk m u.
Proof.
  intros H w Hw. rewrite (map_ext (fun e => dk u (basis e m)) (fun e => C u * wsum g u (basis e m))) by (intros e; apply H).
  rewrite vdotR_map_scale, wsum_basis_dot by exact Hw. symmetry. apply H.
Qed.

Lemma dprod_dir_linear L q m u : dir_linear (dprod L q) m u.
Proof.
  apply (dir_linear_scaled_wsum _ (fun u => - / Rpower L q * exp (- sum_abs_pow q u / Rpower L q)) (dabs_pow q)).
  intros w. reflexivity.
Qed.

Lemma dlpq_dir_linear L p q m u : dir_linear (dlpq L p q) m u.
Proof.
  apply (dir_linear_scaled_wsum _
    (fun u => - / Rpower L q * exp (- pw (normp p u) q / Rpower L q) * (q / p * Rpower (sum_abs_pow p u) (q / p - 1))) (dabs_pow p)).
  intros w. unfold dlpq. ring.
Qed.

Lemma dsp_dir_linear L q c power m u : dir_linear (dsp L q c power) m u.
Proof.
  apply (dir_linear_scaled_wsum _
    (fun u => INR power * ((1 - c) * (rsumR (map (fun v => exp (- pw (Rabs v) q / Rpower L q)) u) / INR (length u)) + c) ^ (pred power)
              * ((1 - c) / INR (length u)))
    (fun a => exp (- pw (Rabs a) q / Rpower L q) * (- / Rpower L q) * dabs_pow q a)).
  intros w. reflexivity.
Qed.

Lemma dsp_m_dir_linear L q c eps power m u : dir_linear (dsp_m L q c eps power) m u.
Proof.
  apply (dir_linear_scaled_wsum _
    (fun u => INR power * ((1 - c) * (rsumR (map (spcoord_m L q eps) u) / INR (length u)) + c) ^ (pred power) * ((1 - c) / INR (length u)))
    (dspcoord_m L q eps)).
  intros w. reflexivity.
Qed.

Lemma masked_dir_linear (dk : list R -> list R -> R) (D : list R -> R) eps m u :
  dir_linear dk m u -> dir_linear (fun u w => masked eps (D u) (dk u w)) m u.
Proof.
  intros H w Hw. unfold masked. destruct (Rle_dec eps (D u)); [apply H; exact Hw|apply vdotR_map_zero].
Qed.

Lemma dprod_m_dir_linear L q eps m u : dir_linear (dprod_m L q eps) m u.
Proof. apply (masked_dir_linear (dprod L q) (sum_abs_pow q)). apply dprod_dir_linear. Qed.

Lemma dlpq_m_dir_linear L p q eps m u : dir_linear (dlpq_m L p q eps) m u.
Proof. apply (masked_dir_linear (dlpq L p q) (normp p)). apply dlpq_dir_linear. Qed.

(* consequences in the wording of the task: each closed form is  (its partials vector) . w *)
Corollary dprod_as_dot L q u w : vdotR (map (fun e => dprod L q u (basis e (length w))) (seq 0 (length w))) w = dprod L q u w.
Proof. apply dprod_dir_linear. reflexivity. Qed.
Corollary dlpq_as_dot L p q u w : vdotR (map (fun e => dlpq L p q u (basis e (length w))) (seq 0 (length w))) w = dlpq L p q u w.
Proof. apply dlpq_dir_linear. reflexivity. Qed.
Corollary dsp_as_dot L q c power u w :
  vdotR (map (fun e => dsp L q c power u (basis e (length w))) (seq 0 (length w))) w = dsp L q c power u w.
Proof. apply dsp_dir_linear. reflexivity. Qed.

(* ---------- G2 ---------- *)
Lemma gauto_length dk m us cs : length (gauto dk m us cs) = m.
Proof. unfold gauto. rewrite map_length, seq_length. reflexivity. Qed.

(* minimal hypotheses *)
Lemma gauto_dot_gen (dk : list R -> list R -> R) m w : forall us cs,
  (forall u, In u us -> vdotR (map (fun e => dk u (basis e m)) (seq 0 m)) w = dk u w) ->
  vdotR (gauto dk m us cs) w = dlincomb (fun u => dk u w) us cs.
Proof.
  unfold gauto. induction us as [|u us IH]; intros cs H.
  - cbn [dlincomb]. apply vdotR_map_zero.
  - destruct cs as [|c cs]; [cbn [dlincomb]; apply vdotR_map_zero|]. cbn [dlincomb].
    rewrite (vdotR_map_plus (fun e => c * dk u (basis e m)) (fun e => dlincomb (fun u0 => dk u0 (basis e m)) us cs)).
    rewrite vdotR_map_scale, (H u (or_introl eq_refl)), (IH cs) by (intros u' Hu'; apply H; right; exact Hu'). reflexivity.
Qed.

(* as specified (the two length hypotheses are not used: they are what makes the third one provable) *)
Theorem gauto_dot (dk : list R -> list R -> R) m us cs w :
  (forall u, In u us -> length u = m) -> length w = m ->
  (forall u, In u us -> vdotR (map (fun e => dk u (basis e m)) (seq 0 m)) w = dk u w) ->
  vdotR (gauto dk m us cs) w = dlincomb (fun u => dk u w) us cs.
Proof. intros _ _ H. apply gauto_dot_gen. exact H. Qed.

Lemma dlincomb_ext (f g : list R -> R) : forall us cs, (forall u, In u us -> f u = g u) -> dlincomb f us cs = dlincomb g us cs.
Proof.
  induction us as [|u us IH]; intros cs H; [reflexivity|]. destruct cs as [|c cs]; [reflexivity|]. cbn [dlincomb].
  rewrite (H u (or_introl eq_refl)), (IH cs) by (intros u' Hu'; apply H; right; exact Hu'). reflexivity.
Qed.

(* ---------- G5: a center whose mask is closed contributes nothing ---------- *)
Lemma gauto_zero_center (dk : list R -> list R -> R) m u us c cs :
  (forall w, dk u w = 0) -> gauto dk m (u :: us) (c :: cs) = gauto dk m us cs.
Proof. intros H. unfold gauto. apply map_ext. intros e. cbn [dlincomb]. rewrite H. ring. Qed.

Theorem gauto_product_closed_center L q eps m u us c cs : sum_abs_pow q u < eps ->
  gauto (dprod_m L q eps) m (u :: us) (c :: cs) = gauto (dprod_m L q eps) m us cs.
Proof. intros H. apply gauto_zero_center. intros w. apply masked_closed. exact H. Qed.

Theorem gauto_lpq_closed_center L p q eps m u us c cs : normp p u < eps ->
  gauto (dlpq_m L p q eps) m (u :: us) (c :: cs) = gauto (dlpq_m L p q eps) m us cs.
Proof. intros H. apply gauto_zero_center. intros w. apply masked_closed. exact H. Qed.

(* in particular the coincident center (u = 0 vector, 0 < eps, 0 < q resp. p <> 0 irrelevant: pw 0 _ = 0) *)
Lemma sum_abs_pow_zeros q n : sum_abs_pow q (repeat 0 n) = 0.
Proof.
  unfold sum_abs_pow, rsumR. induction n as [|n IH]; cbn [repeat map fold_right]; [reflexivity|].
  rewrite IH, Rabs_R0, pw_0. ring.
Qed.
Lemma normp_zeros p n : normp p (repeat 0 n) = 0.
Proof. unfold normp. rewrite sum_abs_pow_zeros. apply pw_0. Qed.

Corollary gauto_product_coincident L q eps m n us c cs : 0 < eps ->
  gauto (dprod_m L q eps) m (repeat 0 n :: us) (c :: cs) = gauto (dprod_m L q eps) m us cs.
Proof. intros H. apply gauto_product_closed_center. rewrite sum_abs_pow_zeros. exact H. Qed.
Corollary gauto_lpq_coincident L p q eps m n us c cs : 0 < eps ->
  gauto (dlpq_m L p q eps) m (repeat 0 n :: us) (c :: cs) = gauto (dlpq_m L p q eps) m us cs.
Proof. intros H. apply gauto_lpq_closed_center. rewrite normp_zeros. exact H. Qed.

(* ---------- G3: a coordinate of what the code returns ---------- *)
Lemma diff_length t z x : wf_tmat t (length z) -> length x = length z ->
  length (transform t (vsubR z x)) = length (transform t z).
Proof.
  intros Hw Hx. apply transform_length_eq; rewrite vsubR_length by (symmetry; exact Hx); [reflexivity|exact Hw].
Qed.

(* generic: any direction-linear dk; masks, if any, are inside dk *)
Lemma grad_coordinate_generic (dk : list R -> list R -> R) t xs cs z d w :
  sym_at t d w (length (transform t z)) -> length w = length (transform t z) ->
  (forall u, dir_linear dk (length (transform t z)) u) ->
  nth d (transform t (gauto dk (length (transform t z)) (map (fun x => transform t (vsubR z x)) xs) cs)) 0
  = dlincomb (fun u => dk u w) (map (fun x => transform t (vsubR z x)) xs) cs.
Proof.
  intros Hsym Hlw Hlin. rewrite Hsym by apply gauto_length. apply gauto_dot_gen. intros u _. apply Hlin. exact Hlw.
Qed.

(* with the masks left in place (no hypothesis on the masks): closed masks contribute 0 *)
Theorem grad_product_coordinate_masked t L q eps xs cs z d w :
  sym_at t d w (length (transform t z)) -> length w = length (transform t z) ->
  nth d (grad_product t L q eps xs cs z) 0 = dlincomb (fun u => dprod_m L q eps u w) (map (fun x => transform t (vsubR z x)) xs) cs.
Proof. intros Hs Hl. apply (grad_coordinate_generic (dprod_m L q eps)); [exact Hs|exact Hl|]. intros u. apply dprod_m_dir_linear. Qed.

Theorem grad_lpq_coordinate_masked t L p q eps xs cs z d w :
  sym_at t d w (length (transform t z)) -> length w = length (transform t z) ->
  nth d (grad_lpq t L p q eps xs cs z) 0 = dlincomb (fun u => dlpq_m L p q eps u w) (map (fun x => transform t (vsubR z x)) xs) cs.
Proof. intros Hs Hl. apply (grad_coordinate_generic (dlpq_m L p q eps)); [exact Hs|exact Hl|]. intros u. apply dlpq_m_dir_linear. Qed.

(* G3 as specified: all masks open *)
Theorem grad_product_coordinate t L q eps xs cs z d w :
  wf_tmat t (length z) -> List.Forall (fun x => length x = length z) xs ->
  sym_at t d w (length (transform t z)) -> length w = length (transform t z) ->
  List.Forall (fun x => eps <= sum_abs_pow q (transform t (vsubR z x))) xs ->
  nth d (grad_product t L q eps xs cs z) 0 = dlincomb (fun u => dprod L q u w) (map (fun x => transform t (vsubR z x)) xs) cs.
Proof.
  intros _ _ Hs Hl Hm. rewrite (grad_product_coordinate_masked t L q eps xs cs z d w) by assumption. apply dlincomb_ext.
  intros u Hu. apply in_map_iff in Hu. destruct Hu as [x [<- Hx]]. rewrite Forall_forall in Hm.
  apply masked_open. apply Hm. exact Hx.
Qed.

Theorem grad_lpq_coordinate t L p q eps xs cs z d w :
  wf_tmat t (length z) -> List.Forall (fun x => length x = length z) xs ->
  sym_at t d w (length (transform t z)) -> length w = length (transform t z) ->
  List.Forall (fun x => eps <= normp p (transform t (vsubR z x))) xs ->
  nth d (grad_lpq t L p q eps xs cs z) 0 = dlincomb (fun u => dlpq L p q u w) (map (fun x => transform t (vsubR z x)) xs) cs.
Proof.
  intros _ _ Hs Hl Hm. rewrite (grad_lpq_coordinate_masked t L p q eps xs cs z d w) by assumption. apply dlincomb_ext.
  intros u Hu. apply in_map_iff in Hu. destruct Hu as [x [<- Hx]]. rewrite Forall_forall in Hm.
  apply masked_open. apply Hm. exact Hx.
Qed.

(* the sum-power masks: the model closure term of GradOps is the `masked` form used here *)
Lemma sp_term_as_masked eps q v : sp_term eps q v = masked eps (Rabs v) (pw (Rabs v) q).
Proof. rewrite sp_term_eq. reflexivity. Qed.

Lemma spcoord_m_ok L q eps a : a = 0 \/ eps <= Rabs a -> spcoord_m L q eps a = spcoord L q a.
Proof. intros H. unfold spcoord_m, spcoord. rewrite <- sp_term_as_masked, (sp_term_ok eps q a H). reflexivity. Qed.
Lemma dspcoord_m_ok L q eps a : a = 0 \/ eps <= Rabs a -> dspcoord_m L q eps a = dspcoord L q a.
Proof.
  intros [->|H]; unfold dspcoord_m; [|apply masked_open; exact H].
  unfold masked. destruct (Rle_dec eps (Rabs 0)); [reflexivity|]. unfold dspcoord. rewrite dabs_pow_0. ring.
Qed.
Lemma dspcoord_m_closed L q eps a : Rabs a < eps -> dspcoord_m L q eps a = 0.
Proof. intros H. apply masked_closed. exact H. Qed.
Lemma spcoord_m_closed L q eps a : Rabs a < eps -> spcoord_m L q eps a = 1.
Proof. intros H. unfold spcoord_m. rewrite masked_closed by exact H. unfold Rdiv. rewrite Ropp_0, Rmult_0_l. apply exp_0. Qed.

Lemma wsum_ext_forall (g h : R -> R) : forall u w, List.Forall (fun a => g a = h a) u -> wsum g u w = wsum h u w.
Proof.
  induction u as [|a u IH]; intros [|b w] H; cbn [wsum]; try reflexivity.
  inversion H as [|a' u' Ha Hu]; subst. rewrite Ha, (IH w Hu). reflexivity.
Qed.

Theorem dsp_m_ok L q c eps power u w : sp_mask_ok eps u -> dsp_m L q c eps power u w = dsp L q c power u w.
Proof.
  intros H. unfold dsp_m, dsp. fold (spcoord L q). fold (dspcoord L q).
  rewrite (map_ext_in (spcoord_m L q eps) (spcoord L q)) by (intros a Ha; apply spcoord_m_ok; unfold sp_mask_ok in H; rewrite Forall_forall in H; apply H; exact Ha).
  rewrite (wsum_ext_forall (dspcoord_m L q eps) (dspcoord L q)); [reflexivity|].
  apply (Forall_impl _ (fun a Ha => dspcoord_m_ok L q eps a Ha) H).
Qed.

Lemma sp_mask_open_ok eps u : sp_mask_open eps u -> sp_mask_ok eps u.
Proof. intros H. apply (Forall_impl _ (fun a Ha => or_intror Ha) H). Qed.

(* with the masks left in place (no hypothesis on the masks) *)
Theorem grad_sum_power_coordinate_masked t L q c eps power xs cs z d w :
  sym_at t d w (length (transform t z)) -> length w = length (transform t z) ->
  nth d (grad_sum_power t L q c eps power xs cs z) 0 = dlincomb (fun u => dsp_m L q c eps power u w) (map (fun x => transform t (vsubR z x)) xs) cs.
Proof. intros Hs Hl. apply (grad_coordinate_generic (dsp_m L q c eps power)); [exact Hs|exact Hl|]. intros u. apply dsp_m_dir_linear. Qed.

(* every coordinate of every transformed difference has an open mask or vanishes *)
Theorem grad_sum_power_coordinate t L q c eps power xs cs z d w :
  wf_tmat t (length z) -> List.Forall (fun x => length x = length z) xs ->
  sym_at t d w (length (transform t z)) -> length w = length (transform t z) ->
  List.Forall (fun x => sp_mask_ok eps (transform t (vsubR z x))) xs ->
  nth d (grad_sum_power t L q c eps power xs cs z) 0 = dlincomb (fun u => dsp L q c power u w) (map (fun x => transform t (vsubR z x)) xs) cs.
Proof.
  intros _ _ Hs Hl Hm. rewrite (grad_sum_power_coordinate_masked t L q c eps power xs cs z d w) by assumption. apply dlincomb_ext.
  intros u Hu. apply in_map_iff in Hu. destruct Hu as [x [<- Hx]]. rewrite Forall_forall in Hm.
  apply dsp_m_ok. apply Hm. exact Hx.
Qed.

(* the property the mask restores: a coordinate e whose mask is closed for every centre (|u_e| < eps, in particular u_e = 0: a centre and the
   query coincide in that coordinate) contributes 0 — a finite number — to the model gradient, for EVERY exponent q (also q < 1, where
   d|a|^q/da is unbounded near 0); no hypothesis on q, L, c, power is needed *)
Lemma wsum_masked_head (g : R -> R) a u b w : g a = 0 -> wsum g (a :: u) (b :: w) = wsum g u w.
Proof. intros H. cbn [wsum]. rewrite H. ring. Qed.

Lemma wsum_basis_zero (g : R -> R) : forall u e m, g (nth e u 0) = 0 -> wsum g u (basis e m) = 0.
Proof.
  induction u as [|a u IH]; intros e m H; [reflexivity|]. destruct m as [|m]; [destruct e; reflexivity|].
  destruct e as [|e]; cbn [basis wsum].
  - cbn [nth] in H. rewrite H, wsum_zeros. ring.
  - cbn [nth] in H. rewrite (IH e m H). ring.
Qed.

Lemma nth_map_seq (f : nat -> R) m e : (e < m)%nat -> nth e (map f (seq 0 m)) 0 = f e.
Proof.
  intros He. rewrite (nth_indep _ 0 (f 0%nat)) by (rewrite map_length, seq_length; exact He).
  rewrite (map_nth f), seq_nth by exact He. reflexivity.
Qed.

Theorem sum_power_masked_coordinate_contributes_zero L q c eps power m us cs e :
  List.Forall (fun u => Rabs (nth e u 0) < eps) us ->
  nth e (gauto (dsp_m L q c eps power) m us cs) 0 = 0.
Proof.
  intros H. unfold gauto. destruct (Nat.lt_ge_cases e m) as [He|He].
  - rewrite (nth_map_seq (fun e0 => dlincomb (fun u => dsp_m L q c eps power u (basis e0 m)) us cs) m e He).
    revert cs. induction H as [|u us Hu Hus IH]; intros cs; [reflexivity|]. destruct cs as [|c0 cs]; [reflexivity|]. cbn [dlincomb].
    rewrite IH. unfold dsp_m at 1. rewrite (wsum_basis_zero (dspcoord_m L q eps) u e m) by (apply dspcoord_m_closed; exact Hu). ring.
  - apply nth_overflow. rewrite map_length, seq_length. exact He.
Qed.

(* one summand: the masked coordinate's own term of the directional value does not depend on q at all *)
Corollary sum_power_masked_coordinate_term_zero L q eps a b : Rabs a < eps -> dspcoord_m L q eps a * b = 0.
Proof. intros H. rewrite dspcoord_m_closed by exact H. ring. Qed.

(* ---------- G4: each coordinate the code returns is the derivative of the documented predictor ---------- *)
Lemma dir_length t z e : wf_tmat t (length z) -> length e = length z -> length (transform t e) = length (transform t z).
Proof. intros Hw He. apply transform_length_eq; [exact He|rewrite He; exact Hw]. Qed.

Theorem grad_product_is_derivative t L q eps xs cs z d e :
  wf_tmat t (length z) -> length e = length z -> List.Forall (fun x => length x = length z) xs ->
  sym_at t d (transform t e) (length (transform t z)) ->
  List.Forall (fun x => eps <= sum_abs_pow q (transform t (vsubR z x))) xs ->
  List.Forall (fun x => nz (transform t (vsubR z x))) xs ->
  is_derive (fun s => fpred (closed_product t L q) xs cs (vaxpy s e z)) 0 (nth d (grad_product t L q eps xs cs z) 0).
Proof.
  intros Hw He Hx Hs Hm Hnz. rewrite (grad_product_coordinate t L q eps xs cs z d (transform t e)); try assumption.
  - apply product_gradient_is_derivative_nz; assumption.
  - apply dir_length; assumption.
Qed.

Theorem grad_lpq_is_derivative t L p q eps xs cs z d e :
  wf_tmat t (length z) -> length e = length z -> List.Forall (fun x => length x = length z) xs ->
  sym_at t d (transform t e) (length (transform t z)) ->
  List.Forall (fun x => eps <= normp p (transform t (vsubR z x))) xs ->
  List.Forall (fun x => nz (transform t (vsubR z x))) xs ->
  is_derive (fun s => fpred (closed_lpq t L p q) xs cs (vaxpy s e z)) 0 (nth d (grad_lpq t L p q eps xs cs z) 0).
Proof.
  intros Hw He Hx Hs Hm Hnz. rewrite (grad_lpq_coordinate t L p q eps xs cs z d (transform t e)); try assumption.
  - apply lpq_gradient_is_derivative_nz; assumption.
  - apply dir_length; assumption.
Qed.

Theorem grad_sum_power_is_derivative t L q c eps power xs cs z d e :
  wf_tmat t (length z) -> length e = length z -> List.Forall (fun x => length x = length z) xs ->
  sym_at t d (transform t e) (length (transform t z)) ->
  List.Forall (fun x => sp_mask_open eps (transform t (vsubR z x))) xs ->
  List.Forall (fun x => nz (transform t (vsubR z x))) xs ->
  is_derive (fun s => fpred (closed_sum_power t L q c power) xs cs (vaxpy s e z)) 0 (nth d (grad_sum_power t L q c eps power xs cs z) 0).
Proof.
  intros Hw He Hx Hs Hm Hnz. rewrite (grad_sum_power_coordinate t L q c eps power xs cs z d (transform t e)); try assumption.
  - apply sum_power_gradient_is_derivative_nz; assumption.
  - apply dir_length; assumption.
  - apply (Forall_impl _ (fun x H => sp_mask_open_ok eps _ H) Hm).
Qed.

(* ---------- instances: coordinate directions, no transform and diagonal transform ---------- *)
Lemma vmulR_length : forall a b : list R, length a = length b -> length (vmulR a b) = length b.
Proof. induction a as [|x a IH]; intros [|y b] H; try discriminate; cbn; [reflexivity|]. cbn in H. injection H as H. rewrite (IH b H). reflexivity. Qed.

Lemma sym_at_diag_z m z d : length m = length z ->
  sym_at (TDiag m) d (transform (TDiag m) (basis d (length z))) (length (transform (TDiag m) z)).
Proof.
  intros Hm. cbn [transform]. rewrite (vmulR_length z m) by (symmetry; exact Hm). rewrite <- Hm. apply sym_at_diag.
Qed.

Corollary grad_product_is_derivative_none L q eps xs cs z d :
  List.Forall (fun x => length x = length z) xs ->
  List.Forall (fun x => eps <= sum_abs_pow q (vsubR z x)) xs ->
  List.Forall (fun x => nz (vsubR z x)) xs ->
  is_derive (fun s => fpred (closed_product TNone L q) xs cs (vaxpy s (basis d (length z)) z)) 0 (nth d (grad_product TNone L q eps xs cs z) 0).
Proof.
  intros Hx Hm Hnz. apply (grad_product_is_derivative TNone); [exact I|apply basis_length|exact Hx|apply (sym_at_none d (length z))|exact Hm|exact Hnz].
Qed.

Corollary grad_lpq_is_derivative_none L p q eps xs cs z d :
  List.Forall (fun x => length x = length z) xs ->
  List.Forall (fun x => eps <= normp p (vsubR z x)) xs ->
  List.Forall (fun x => nz (vsubR z x)) xs ->
  is_derive (fun s => fpred (closed_lpq TNone L p q) xs cs (vaxpy s (basis d (length z)) z)) 0 (nth d (grad_lpq TNone L p q eps xs cs z) 0).
Proof.
  intros Hx Hm Hnz. apply (grad_lpq_is_derivative TNone); [exact I|apply basis_length|exact Hx|apply (sym_at_none d (length z))|exact Hm|exact Hnz].
Qed.

Corollary grad_sum_power_is_derivative_none L q c eps power xs cs z d :
  List.Forall (fun x => length x = length z) xs ->
  List.Forall (fun x => sp_mask_open eps (vsubR z x)) xs ->
  List.Forall (fun x => nz (vsubR z x)) xs ->
  is_derive (fun s => fpred (closed_sum_power TNone L q c power) xs cs (vaxpy s (basis d (length z)) z)) 0
            (nth d (grad_sum_power TNone L q c eps power xs cs z) 0).
Proof.
  intros Hx Hm Hnz. apply (grad_sum_power_is_derivative TNone); [exact I|apply basis_length|exact Hx|apply (sym_at_none d (length z))|exact Hm|exact Hnz].
Qed.

Corollary grad_product_is_derivative_diag m L q eps xs cs z d : length m = length z ->
  List.Forall (fun x => length x = length z) xs ->
  List.Forall (fun x => eps <= sum_abs_pow q (vmulR (vsubR z x) m)) xs ->
  List.Forall (fun x => nz (vmulR (vsubR z x) m)) xs ->
  is_derive (fun s => fpred (closed_product (TDiag m) L q) xs cs (vaxpy s (basis d (length z)) z)) 0
            (nth d (grad_product (TDiag m) L q eps xs cs z) 0).
Proof.
  intros Hl Hx Hm Hnz.
  apply (grad_product_is_derivative (TDiag m)); [exact Hl|apply basis_length|exact Hx|apply sym_at_diag_z; exact Hl|exact Hm|exact Hnz].
Qed.

Corollary grad_lpq_is_derivative_diag m L p q eps xs cs z d : length m = length z ->
  List.Forall (fun x => length x = length z) xs ->
  List.Forall (fun x => eps <= normp p (vmulR (vsubR z x) m)) xs ->
  List.Forall (fun x => nz (vmulR (vsubR z x) m)) xs ->
  is_derive (fun s => fpred (closed_lpq (TDiag m) L p q) xs cs (vaxpy s (basis d (length z)) z)) 0
            (nth d (grad_lpq (TDiag m) L p q eps xs cs z) 0).
Proof.
  intros Hl Hx Hm Hnz.
  apply (grad_lpq_is_derivative (TDiag m)); [exact Hl|apply basis_length|exact Hx|apply sym_at_diag_z; exact Hl|exact Hm|exact Hnz].
Qed.

Corollary grad_sum_power_is_derivative_diag m L q c eps power xs cs z d : length m = length z ->
  List.Forall (fun x => length x = length z) xs ->
  List.Forall (fun x => sp_mask_open eps (vmulR (vsubR z x) m)) xs ->
  List.Forall (fun x => nz (vmulR (vsubR z x) m)) xs ->
  is_derive (fun s => fpred (closed_sum_power (TDiag m) L q c power) xs cs (vaxpy s (basis d (length z)) z)) 0
            (nth d (grad_sum_power (TDiag m) L q c eps power xs cs z) 0).
Proof.
  intros Hl Hx Hm Hnz.
  apply (grad_sum_power_is_derivative (TDiag m)); [exact Hl|apply basis_length|exact Hx|apply sym_at_diag_z; exact Hl|exact Hm|exact Hnz].
Qed.

(* ---------- G6: evaluation helpers (sgn_pos, sgn_neg, sgn_0, dabs_pow_0 are in GradsP) ---------- *)
Lemma pw_abs_pos a p : 0 < a -> pw (Rabs a) p = Rpower a p.
Proof. intros H. rewrite Rabs_right by lra. apply pw_pos. exact H. Qed.
Lemma pw_abs_neg a p : a < 0 -> pw (Rabs a) p = Rpower (- a) p.
Proof. intros H. rewrite Rabs_left by exact H. apply pw_pos. lra. Qed.
Lemma dabs_pow_pos p a : 0 < a -> dabs_pow p a = p * Rpower a (p - 1).
Proof. intros H. unfold dabs_pow. rewrite sgn_pos, Rabs_right by lra. ring. Qed.
Lemma dabs_pow_neg p a : a < 0 -> dabs_pow p a = - (p * Rpower (- a) (p - 1)).
Proof. intros H. unfold dabs_pow. rewrite sgn_neg, Rabs_left by lra. ring. Qed.
Lemma Rpower_ge_1 a y : 1 <= a -> 0 <= y -> 1 <= Rpower a y.
Proof.
  intros Ha Hy. unfold Rpower. rewrite <- exp_0.
  assert (Hln : 0 <= ln a). { rewrite <- ln_1. destruct Ha as [Ha|<-]; [left; apply ln_increasing; lra|right; reflexivity]. }
  assert (H : 0 <= y * ln a) by nra.
  destruct H as [H|<-]; [left; apply exp_increasing; exact H|right; reflexivity].
Qed.

(* ---------- examples ---------- *)
(* diagonal transform diag(2,3), query z = (1,2), centers (0,0) and (3,5), coefficients (2,-1), L = 2, q = 1/2, eps = 1/100 *)
Definition exD : tmat := TDiag [2; 3].
Definition exz : list R := [1; 2].
Definition exxs : list (list R) := [[0; 0]; [3; 5]].
Definition excs : list R := [2; -1].

Lemma ex_u1 : transform exD (vsubR exz [0; 0]) = [2; 6].
Proof. cbv [exD exz transform vsubR vmulR]. repeat f_equal; ring. Qed.
Lemma ex_u2 : transform exD (vsubR exz [3; 5]) = [-4; -9].
Proof. cbv [exD exz transform vsubR vmulR]. repeat f_equal; ring. Qed.

Lemma ex_sap1 q : sum_abs_pow q [2; 6] = Rpower 2 q + Rpower 6 q.
Proof. cbv [sum_abs_pow rsumR map fold_right]. rewrite !pw_abs_pos by lra. ring. Qed.
Lemma ex_sap2 q : sum_abs_pow q [-4; -9] = Rpower 4 q + Rpower 9 q.
Proof.
  cbv [sum_abs_pow rsumR map fold_right]. rewrite !pw_abs_neg by lra.
  replace (- -4) with 4 by ring. replace (- -9) with 9 by ring. ring.
Qed.

Lemma ex_lengths : List.Forall (fun x => length x = length exz) exxs.
Proof. repeat constructor. Qed.
Lemma ex_nz : List.Forall (fun x => nz (transform exD (vsubR exz x))) exxs.
Proof. unfold exxs. apply Forall_cons; [rewrite ex_u1|apply Forall_cons; [rewrite ex_u2|apply Forall_nil]]; repeat constructor; lra. Qed.
Lemma ex_masks_product : List.Forall (fun x => 1 / 100 <= sum_abs_pow (1 / 2) (transform exD (vsubR exz x))) exxs.
Proof.
  unfold exxs. repeat constructor.
  - rewrite ex_u1, ex_sap1. assert (H1 := Rpower_ge_1 2 (1 / 2)). assert (H2 := Rpower_ge_1 6 (1 / 2)). lra.
  - rewrite ex_u2, ex_sap2. assert (H1 := Rpower_ge_1 4 (1 / 2)). assert (H2 := Rpower_ge_1 9 (1 / 2)). lra.
Qed.

(* G4 on the instance, all three kernels, coordinate 0 and coordinate 1 *)
Example ex_grad_product_is_derivative d :
  is_derive (fun s => fpred (closed_product exD 2 (1 / 2)) exxs excs (vaxpy s (basis d 2) exz)) 0
            (nth d (grad_product exD 2 (1 / 2) (1 / 100) exxs excs exz) 0).
Proof.
  apply (grad_product_is_derivative_diag [2; 3] 2 (1 / 2) (1 / 100) exxs excs exz d);
    [reflexivity|exact ex_lengths|exact ex_masks_product|exact ex_nz].
Qed.

Lemma ex_normp_ge p u : 0 < p -> 1 <= sum_abs_pow p u -> 1 <= normp p u.
Proof. intros Hp H. unfold normp. rewrite pw_pos by lra. apply Rpower_ge_1; [exact H|]. left. apply Rinv_0_lt_compat. exact Hp. Qed.

Lemma ex_masks_lpq : List.Forall (fun x => 1 / 100 <= normp (3 / 2) (transform exD (vsubR exz x))) exxs.
Proof.
  unfold exxs. repeat constructor.
  - rewrite ex_u1. assert (H := ex_normp_ge (3 / 2) [2; 6]). rewrite ex_sap1 in H.
    assert (H1 := Rpower_ge_1 2 (3 / 2)). assert (H2 := Rpower_ge_1 6 (3 / 2)). lra.
  - rewrite ex_u2. assert (H := ex_normp_ge (3 / 2) [-4; -9]). rewrite ex_sap2 in H.
    assert (H1 := Rpower_ge_1 4 (3 / 2)). assert (H2 := Rpower_ge_1 9 (3 / 2)). lra.
Qed.

Example ex_grad_lpq_is_derivative d :
  is_derive (fun s => fpred (closed_lpq exD 2 (3 / 2) 1) exxs excs (vaxpy s (basis d 2) exz)) 0
            (nth d (grad_lpq exD 2 (3 / 2) 1 (1 / 100) exxs excs exz) 0).
Proof.
  apply (grad_lpq_is_derivative_diag [2; 3] 2 (3 / 2) 1 (1 / 100) exxs excs exz d);
    [reflexivity|exact ex_lengths|exact ex_masks_lpq|exact ex_nz].
Qed.

Lemma ex_masks_sum_power : List.Forall (fun x => sp_mask_open (1 / 100) (vmulR (vsubR exz x) [2; 3])) exxs.
Proof.
  unfold exxs, sp_mask_open. apply Forall_cons; [|apply Forall_cons; [|apply Forall_nil]].
  - change (vmulR (vsubR exz [0; 0]) [2; 3]) with (transform exD (vsubR exz [0; 0])). rewrite ex_u1.
    repeat constructor; rewrite Rabs_right; lra.
  - change (vmulR (vsubR exz [3; 5]) [2; 3]) with (transform exD (vsubR exz [3; 5])). rewrite ex_u2.
    repeat constructor; rewrite Rabs_left; lra.
Qed.

Example ex_grad_sum_power_is_derivative d :
  is_derive (fun s => fpred (closed_sum_power exD 2 (1 / 2) (1 / 4) 2) exxs excs (vaxpy s (basis d 2) exz)) 0
            (nth d (grad_sum_power exD 2 (1 / 2) (1 / 4) (1 / 100) 2 exxs excs exz) 0).
Proof.
  apply (grad_sum_power_is_derivative_diag [2; 3] 2 (1 / 2) (1 / 4) (1 / 100) 2 exxs excs exz d);
    [reflexivity|exact ex_lengths|exact ex_masks_sum_power|exact ex_nz].
Qed.

(* the repaired case on an instance: q = 1/2 < 1, the query (1,2) and the centre (1,7) coincide in coordinate 0 *)
Example ex_sum_power_masked_coordinate c power cs :
  nth 0 (gauto (dsp_m 2 (1 / 2) c (1 / 100) power) 2 [[0; -5]] cs) 0 = 0.
Proof. apply sum_power_masked_coordinate_contributes_zero. repeat constructor. cbn [nth]. rewrite Rabs_R0. lra. Qed.

(* G6: coordinate 0 of the model evaluated to an explicit arithmetic expression (ready for `interval`) *)
Example ex_grad_product_coord0 :
  nth 0 (grad_product exD 2 (1 / 2) (1 / 100) exxs excs exz) 0 =
  (2 * (- / Rpower 2 (1 / 2) * exp (- (Rpower 2 (1 / 2) + Rpower 6 (1 / 2)) / Rpower 2 (1 / 2)) * (1 / 2 * Rpower 2 (1 / 2 - 1)))
   + -1 * (- / Rpower 2 (1 / 2) * exp (- (Rpower 4 (1 / 2) + Rpower 9 (1 / 2)) / Rpower 2 (1 / 2)) * - (1 / 2 * Rpower 4 (1 / 2 - 1)))) * 2.
Proof.
  unfold grad_product, exxs. cbn [map]. rewrite ex_u1, ex_u2.
  change (length (transform exD exz)) with 2%nat.
  cbv [gauto seq map basis repeat dlincomb excs exD transform vmulR nth dprod_m].
  assert (M1 : 1 / 100 <= sum_abs_pow (1 / 2) [2; 6]).
  { rewrite ex_sap1. assert (H1 := Rpower_ge_1 2 (1 / 2)). assert (H2 := Rpower_ge_1 6 (1 / 2)). lra. }
  assert (M2 : 1 / 100 <= sum_abs_pow (1 / 2) [-4; -9]).
  { rewrite ex_sap2. assert (H1 := Rpower_ge_1 4 (1 / 2)). assert (H2 := Rpower_ge_1 9 (1 / 2)). lra. }
  rewrite !masked_open by assumption.
  cbv [dprod wsum]. rewrite ex_sap1, ex_sap2.
  rewrite (dabs_pow_pos (1 / 2) 2), (dabs_pow_neg (1 / 2) (-4)) by lra. replace (- -4) with 4 by ring.
  ring.
Qed.

(* G5 on the instance: adding the coincident center z itself (u = 0) changes nothing *)
Example ex_coincident_center c :
  gauto (dprod_m 2 (1 / 2) (1 / 100)) 2 ([0; 0] :: map (fun x => transform exD (vsubR exz x)) exxs) (c :: excs)
  = gauto (dprod_m 2 (1 / 2) (1 / 100)) 2 (map (fun x => transform exD (vsubR exz x)) exxs) excs.
Proof. apply (gauto_product_coincident 2 (1 / 2) (1 / 100) 2 2). lra. Qed.

Print Assumptions grad_product_is_derivative.
Print Assumptions grad_lpq_is_derivative.
Print Assumptions grad_sum_power_is_derivative.
Print Assumptions sum_power_masked_coordinate_contributes_zero.
Print Assumptions dsp_m_ok.
Print Assumptions grad_product_coordinate.
Print Assumptions gauto_dot.
Print Assumptions wsum_basis_expand.
Print Assumptions gauto_product_closed_center.
