(* C09, last clause: "as T -> 0+ the soft-routed prediction converges to the hard-routed prediction" -- the LIMIT statement,
   with the temperature as the variable.

   FINDING (see `clamp_floor_prevents_exact_convergence` and `fixed_T_hypothesis_fails_near_zero` below):
   * the fixed-temperature bound C09_soft_prediction_converges_to_hard assumes that NO leaf has log-probability below -50; for a
     non-tie row this hypothesis FAILS for every sufficiently small T (every leaf off the hard route has log-probability
     <= -|margin|/T -> -oo), so the limit cannot be derived from that bound as it stands;
   * with the weights AS CODED (clamp(min=-50)) and an arbitrary admissible active set the limit statement is FALSE: a clamped leaf
     that stays active keeps the floor weight e^-50 / (1 + ...) at every small temperature, so the soft prediction tends to
     (v_h + e^-50 sum_{k<>h} v_k) / (1 + (n-1) e^-50), not to v_h  (deviation ~ 2e-22 * spread: invisible in float64, but not 0).
   Minimal added hypothesis: near T = 0 the active set contains no clamped leaf (`no_clamped_active`; this is what the code's
   truncation does for every keep fraction < 1/(1+(n-1)e^-50), in particular the default 0.99: then only the hard leaf is kept).
   Without it we prove the limit "up to the clamp floor": limsup |soft - hard| <= n e^-50 B. *)
From Coq Require Import Reals List Lra Lia Bool QArith Qreals.
Require Import XV.Model.Tree XV.Model.Soft XV.Real.SoftReal XV.Real.Kernels XV.Real.SoftOps XV.Real.SoftEnd.
Import ListNotations.
Local Open Scope R_scope.

Notation rsum := XV.Real.SoftReal.rsum.
Notation wsum := XV.Real.SoftReal.wsum.

(* ---------- 0. generic facts on the coded weights ---------- *)
Lemma code_weights_length tiny lps : length (code_weights tiny lps) = length lps.
Proof. unfold code_weights. rewrite !map_length. reflexivity. Qed.

Lemma nth_map_exp lps i : (i < length lps)%nat -> nth i (map exp lps) 0 = exp (nth i lps 0).
Proof. intros Hi. rewrite (nth_indep (map exp lps) 0 (exp 0)) by (rewrite map_length; exact Hi). apply map_nth. Qed.

Lemma lps_nonnil_of_lt (lps : list R) i : (i < length lps)%nat -> lps <> [].
Proof. intros Hi E. subst. cbn in Hi. lia. Qed.

(* an admissible active set for the coded weights, none of whose members is clamped, is admissible for the unclamped softmax numerators *)
Lemma active_ok_unclamp tiny lps act : tiny <= 1 -> active_ok (code_weights tiny lps) act ->
  (forall i, (i < length lps)%nat -> nth i act false = true -> -50 <= nth i lps 0) ->
  active_ok (map exp lps) act.
Proof.
  intros Ht (Hlen & Hex & Htop) Hnc. rewrite code_weights_length in *.
  split; [rewrite map_length; exact Hlen|]. split; [exact Hex|]. rewrite map_length.
  intros i j Hi Hj Hai Haj. specialize (Htop i j Hi Hj Hai Haj).
  rewrite !nth_code_weights in Htop by assumption. rewrite !nth_map_exp by assumption.
  pose proof (clamped_sum_pos lps (lps_nonnil_of_lt lps i Hi)) as HD.
  set (D := rsum (map (fun k => exp (Rmax (-50) k)) lps)) in *.
  rewrite (Rmax_right (-50) (nth i lps 0)) in Htop by (apply Hnc; assumption).
  pose proof (exp_clamp_lo (nth j lps 0)) as Hlo.
  assert (exp (Rmax (-50) (nth j lps 0)) <= exp (nth i lps 0)).
  { apply Rmult_le_reg_r with (r := / D); [apply Rinv_0_lt_compat; exact HD|exact Htop]. }
  lra.
Qed.

Lemma masked_scale (c : R) : forall (w w' : list R) (act : list bool), length w = length w' -> length act = length w ->
  (forall i, (i < length w)%nat -> nth i act false = true -> nth i w 0 = nth i w' 0 / c) ->
  masked_w w act = map (fun x => x / c) (masked_w w' act).
Proof.
  induction w as [|a w IH]; intros [|a' w'] [|b act] Hl1 Hl2 H; try discriminate; [reflexivity|].
  rewrite !masked_cons. cbn [map]. f_equal.
  - destruct b; [apply (H 0%nat); [cbn; lia|reflexivity]|unfold Rdiv; lra].
  - apply IH; [cbn in Hl1; lia|cbn in Hl2; lia|]. intros i Hi Ha. apply (H (S i)); [cbn; lia|exact Ha].
Qed.

Lemma trunc_out_scale (c : R) (w w' : list R) (act : list bool) : 0 < c -> length w = length w' -> length act = length w ->
  0 < rsum (masked_w w' act) ->
  (forall i, (i < length w)%nat -> nth i act false = true -> nth i w 0 = nth i w' 0 / c) ->
  trunc_out w act = trunc_out w' act.
Proof.
  intros Hc Hl1 Hl2 HM H. unfold trunc_out, renorm. rewrite (masked_scale c w w' act Hl1 Hl2 H).
  rewrite rsum_div, map_map. apply map_ext. intros x. field. split; lra.
Qed.

(* the truncated, renormalised coded weights coincide with those of the exact gate products as soon as no kept leaf is clamped *)
Lemma trunc_out_unclamp tiny lps act : tiny <= 1 -> active_ok (code_weights tiny lps) act ->
  (forall i, (i < length lps)%nat -> nth i act false = true -> -50 <= nth i lps 0) ->
  trunc_out (code_weights tiny lps) act = trunc_out (map exp lps) act.
Proof.
  intros Ht Hok Hnc. pose proof (active_ok_unclamp tiny lps act Ht Hok Hnc) as Hok'.
  destruct Hok as (Hlen & (i0 & Hi0) & _). rewrite code_weights_length in Hlen.
  assert (Hi0r : (i0 < length lps)%nat).
  { destruct (lt_dec i0 (length act)) as [H|H]; [lia|]. rewrite nth_overflow in Hi0 by lia. discriminate. }
  pose proof (clamped_sum_pos lps (lps_nonnil_of_lt lps i0 Hi0r)) as HD.
  apply (trunc_out_scale (rsum (map (fun k => exp (Rmax (-50) k)) lps))).
  - exact HD.
  - rewrite code_weights_length, map_length. reflexivity.
  - rewrite code_weights_length. exact Hlen.
  - apply kept_mass_pos; [|exact Hok']. apply Forall_forall. intros y Hy. apply in_map_iff in Hy. destruct Hy as [l [<- _]]. apply exp_pos.
  - rewrite code_weights_length. intros i Hi Ha. rewrite nth_code_weights, nth_map_exp by assumption.
    rewrite Rmax_right by (apply Hnc; assumption). reflexivity.
Qed.

(* ---------- 1. fixed temperature: the bound of SoftEnd.soft_tree_pred_close_to_hard under the WEAKER hypothesis that only the
   kept leaves are unclamped (the original asks that no leaf at all is below -50, which fails near T = 0) ---------- *)
Section Tree.
  Context {L : Type}.

  Definition tree_lps (z : nat -> R) (T : tree L) : list R := map (code_path_logp z) (map snd (paths T)).

  Lemma tree_lps_length z T : length (tree_lps z T) = length (paths T).
  Proof. unfold tree_lps. rewrite !map_length. reflexivity. Qed.

  Lemma nth_tree_lps z T i (d : L * gpath) : (i < length (paths T))%nat ->
    nth i (tree_lps z T) 0 = path_logp z (snd (nth i (paths T) d)).
  Proof.
    intros Hi. unfold tree_lps. rewrite map_map. set (f := fun mp : L * gpath => code_path_logp z (snd mp)).
    rewrite (nth_indep (map f (paths T)) 0 (f d)) by (rewrite map_length; exact Hi). rewrite map_nth. unfold f.
    apply code_path_logp_eq.
  Qed.

  Lemma exp_tree_lps z T : map exp (tree_lps z T) = map (fun mp => path_prob z (snd mp)) (paths T).
  Proof. unfold tree_lps. rewrite !map_map. apply map_ext. intros mp. rewrite code_path_logp_eq. apply exp_path_logp. Qed.

  (* no kept leaf is clamped *)
  Definition no_clamped_active (z : nat -> R) (T : tree L) (act : list bool) : Prop :=
    forall i, (i < length (paths T))%nat -> nth i act false = true -> -50 <= nth i (tree_lps z T) 0.

  Theorem soft_tree_close_to_hard_unclamped_active : forall (tiny : R) (z : nat -> R) (T : tree L) (act : list bool) (vals : list R)
      (h : nat) (d : L * gpath) (mu B : R),
    tiny <= 1 -> 0 <= mu -> 0 <= B ->
    let W := code_weights tiny (tree_lps z T) in
    let p := snd (nth h (paths T) d) in
    (h < length (paths T))%nat ->
    (forall g, In g p -> consistent z g /\ mu <= Rabs (z (fst g))) ->
    INR (length p) * exp (- mu) < 1 / 2 ->
    active_ok W act -> no_clamped_active z T act -> length vals = length (paths T) ->
    (forall i, (i < length (paths T))%nat -> Rabs (nth i vals 0 - nth h vals 0) <= B) ->
    Rabs (soft_pred (trunc_out W act) vals - nth h vals 0) <= INR (length p) * exp (- mu) * B.
  Proof.
    intros tiny z T act vals h d mu B Ht Hmu HB0 W p Hh Hp Hsmall Hok Hnc Hlen HB.
    assert (Hnc' : forall i, (i < length (tree_lps z T))%nat -> nth i act false = true -> -50 <= nth i (tree_lps z T) 0).
    { rewrite tree_lps_length. exact Hnc. }
    pose proof (active_ok_unclamp tiny _ act Ht Hok Hnc') as Hok'.
    unfold W. rewrite (trunc_out_unclamp tiny _ act Ht Hok Hnc'). rewrite exp_tree_lps in *.
    set (W' := map (fun mp : L * gpath => path_prob z (snd mp)) (paths T)) in *.
    assert (HWp : Forall (fun x => 0 < x) W').
    { apply Forall_forall. intros x Hx. apply in_map_iff in Hx. destruct Hx as [mp [<- _]]. apply path_prob_pos. }
    assert (HWs : rsum W' = 1) by apply leaf_probs_sum_to_one.
    assert (HWl : length W' = length (paths T)) by (unfold W'; apply map_length).
    assert (HWh : nth h W' 0 = path_prob z p).
    { unfold W'. set (f := fun mp : L * gpath => path_prob z (snd mp)).
      rewrite (nth_indep (map f (paths T)) 0 (f d)) by (rewrite map_length; exact Hh). rewrite map_nth. reflexivity. }
    pose proof (hard_leaf_weight_bound z p mu Hmu Hp) as [Hplo Hphi].
    pose proof (soft_pred_close_to_hard W' act vals h B HWp HWs Hok') as H. rewrite HWl, HWh in H.
    specialize (H Hlen Hh ltac:(lra) HB HB0).
    eapply Rle_trans; [exact H|]. apply Rmult_le_compat_r; [exact HB0|]. lra.
  Qed.

  (* ... and WITHOUT any hypothesis on the clamp (any admissible active set): the floor e^-50 of the clamped leaves costs n e^-50 B *)
  Lemma exp_m50_small : exp (-50) < / 51.
  Proof.
    replace (-50) with (Ropp 50) by lra. rewrite exp_Ropp. pose proof (exp_ineq1 50 ltac:(lra)).
    apply Rinv_lt_contravar; [pose proof (exp_pos 50); nra|lra].
  Qed.

  Theorem soft_tree_close_to_hard_up_to_clamp : forall (tiny : R) (z : nat -> R) (T : tree L) (act : list bool) (vals : list R)
      (h : nat) (d : L * gpath) (mu B : R),
    tiny <= 1 -> 0 <= mu -> 0 <= B ->
    let W := code_weights tiny (tree_lps z T) in
    let p := snd (nth h (paths T) d) in
    let n := length (paths T) in
    (h < n)%nat ->
    (forall g, In g p -> consistent z g /\ mu <= Rabs (z (fst g))) ->
    INR (length p) * exp (- mu) + INR n * exp (-50) < 1 / 2 ->
    active_ok W act -> length vals = n ->
    (forall i, (i < n)%nat -> Rabs (nth i vals 0 - nth h vals 0) <= B) ->
    Rabs (soft_pred (trunc_out W act) vals - nth h vals 0) <= (INR (length p) * exp (- mu) + INR n * exp (-50)) * B.
  Proof.
    intros tiny z T act vals h d mu B Ht Hmu HB0 W p n Hh Hp Hsmall Hok Hlen HB.
    assert (Hne : tree_lps z T <> []) by (apply (lps_nonnil_of_lt _ h); rewrite tree_lps_length; exact Hh).
    destruct (code_weights_distribution tiny (tree_lps z T) Ht Hne) as [HWp HWs]. fold W in HWp, HWs.
    assert (HWl : length W = n) by (unfold W; rewrite code_weights_length; apply tree_lps_length).
    pose proof (hard_leaf_weight_bound z p mu Hmu Hp) as [Hplo Hphi].
    pose proof (clamp_effect_on_tree tiny z T Ht h Hh) as Hc. cbv zeta in Hc.
    rewrite (nth_indep (paths T) (route T [], []) d) in Hc by exact Hh. fold p in Hc. fold (tree_lps z T) in Hc. fold W in Hc. fold n in Hc.
    destruct Hc as [Hc _]. pose proof exp_m50_small as H50. pose proof (exp_pos (-50)) as H50p.
    pose proof (pos_INR n) as Hn0. pose proof (pos_INR (length p)) as HD0. pose proof (exp_pos (- mu)) as Hem.
    set (delta := INR (length p) * exp (- mu)) in *. set (c := INR n * exp (-50)) in *.
    assert (Hd0 : 0 <= delta) by (unfold delta; nra). assert (Hc0 : 0 <= c) by (unfold c; nra).
    destruct (Hc ltac:(lra)) as [Hwlo _].
    assert (Hwh : 1 - (delta + c) <= nth h W 0).
    { eapply Rle_trans; [|exact Hwlo]. apply Rmult_le_reg_r with (r := 1 + c); [lra|].
      unfold Rdiv. rewrite Rmult_assoc, Rinv_l by lra. nra. }
    pose proof (soft_pred_close_to_hard W act vals h B HWp HWs Hok) as H. rewrite HWl in H.
    specialize (H Hlen Hh ltac:(lra) HB HB0).
    eapply Rle_trans; [exact H|]. apply Rmult_le_compat_r; [exact HB0|]. lra.
  Qed.
End Tree.

(* ---------- 2. the family indexed by the temperature ---------- *)
Definition zT (m : nat -> R) (T : R) : nat -> R := fun j => m j / T.          (* logit of node j at temperature T *)

Section Limit.
  Context {L : Type}.

  (* m j = (v_j . x - b_j) / scale_j, scale_j > 0 : the raw (temperature-free) margin of the row at split node j *)
  Definition margins_of (m : nat -> R) (x : list Q) (T : tree L) : Prop :=
    forall j v b, In (j, (v, b)) (nodes_from T 0) -> exists s, 0 < s /\ m j = (Q2R (dot x v) - Q2R b) / s.

  Definition weights_at (tiny : R) (tr : tree L) (m : nat -> R) (T : R) : list R := code_weights tiny (tree_lps (zT m T) tr).

  (* the end-to-end soft prediction (SoftEnd) at temperature T, with the active set act T *)
  Definition soft_at (tiny : R) (tr : tree L) (m : nat -> R) (act : R -> list bool) (vals : list R) (T : R) : R :=
    soft_pred (trunc_out (weights_at tiny tr m T) (act T)) vals.

  Lemma margins_logits m x (tr : tree L) T : 0 < T -> margins_of m x tr -> logits_of (zT m T) x tr 0.
  Proof.
    intros HT Hm j v b Hin. destruct (Hm j v b Hin) as (s & Hs & E). exists (T * s). split; [nra|].
    unfold zT. rewrite E. field. split; lra.
  Qed.

  Lemma Rabs_zT m T j : 0 < T -> Rabs (zT m T j) = Rabs (m j) / T.
  Proof. intros HT. unfold zT, Rdiv. rewrite Rabs_mult, (Rabs_right (/ T)); [reflexivity|]. left. apply Rinv_0_lt_compat. exact HT. Qed.

  (* exp(-c/T) < T/c : the elementary rate behind the limit *)
  Lemma exp_neg_inv_lt c T : 0 < c -> 0 < T -> exp (- (c / T)) < T / c.
  Proof.
    intros Hc HT. assert (Hy : 0 < c / T) by (apply Rdiv_lt_0_compat; assumption).
    rewrite exp_Ropp. pose proof (exp_ineq1 (c / T) ltac:(lra)) as He.
    replace (T / c) with (/ (c / T)) by (field; split; lra).
    apply Rinv_lt_contravar; [pose proof (exp_pos (c / T)); nra|lra].
  Qed.

  Lemma exp_neg_inv_tends_to_0 c : 0 < c -> forall eta, 0 < eta -> exists T0, 0 < T0 /\ forall T, 0 < T < T0 -> exp (- (c / T)) < eta.
  Proof.
    intros Hc eta Heta. exists (c * eta). split; [nra|]. intros T [HT HT0].
    eapply Rlt_trans; [apply exp_neg_inv_lt; assumption|].
    apply Rmult_lt_reg_r with (r := c); [exact Hc|]. unfold Rdiv. rewrite Rmult_assoc, Rinv_l by lra. lra.
  Qed.

  (* finitely many non-zero margins have a positive minimum *)
  Lemma min_margin_exists (m : nat -> R) : forall p : gpath, (forall g, In g p -> m (fst g) <> 0) ->
    exists mu1, 0 < mu1 /\ forall g, In g p -> mu1 <= Rabs (m (fst g)).
  Proof.
    induction p as [|g p IH]; intros H.
    - exists 1. split; [lra|]. intros g [].
    - destruct (IH (fun g' Hin => H g' (or_intror Hin))) as (mu & Hmu & Hall).
      pose proof (Rabs_pos_lt _ (H g (or_introl eq_refl))) as Hg.
      exists (Rmin mu (Rabs (m (fst g)))). split; [apply Rmin_glb_lt; assumption|].
      intros g' [<-|Hin]; [apply Rmin_r|]. eapply Rle_trans; [apply Rmin_l|apply Hall; exact Hin].
  Qed.

  (* finitely many leaf values have a finite spread around any value *)
  Lemma spread_exists (c : R) : forall vals : list R, exists B, 0 <= B /\ forall i, (i < length vals)%nat -> Rabs (nth i vals 0 - c) <= B.
  Proof.
    induction vals as [|v vals (B & HB0 & HB)].
    - exists 0. split; [lra|]. intros i Hi. cbn in Hi. lia.
    - exists (B + Rabs (v - c)). pose proof (Rabs_pos (v - c)). split; [lra|].
      intros [|i] Hi; cbn [nth]; [lra|]. cbn [length] in Hi. specialize (HB i ltac:(lia)). lra.
  Qed.

  (* the fixed-temperature bounds, read at temperature T with logits m/T: margin mu1/T *)
  Lemma soft_at_bound : forall (tiny : R) (tr : tree L) (x : list Q) (m : nat -> R) (d : L * gpath) (h : nat) (mu1 : R),
    tiny <= 1 -> margins_of m x tr -> 0 < mu1 ->
    (forall g, In g (hard_path tr x 0) -> mu1 <= Rabs (m (fst g))) ->
    (h < length (paths tr))%nat -> nth h (paths tr) d = (route tr x, hard_path tr x 0) ->
    forall (act : R -> list bool) (vals : list R) (B T : R), 0 <= B -> 0 < T ->
      length vals = length (paths tr) ->
      (forall i, (i < length (paths tr))%nat -> Rabs (nth i vals 0 - nth h vals 0) <= B) ->
      active_ok (weights_at tiny tr m T) (act T) ->
      let D := INR (length (hard_path tr x 0)) in
      (no_clamped_active (zT m T) tr (act T) -> D * exp (- (mu1 / T)) < 1 / 2 ->
         Rabs (soft_at tiny tr m act vals T - nth h vals 0) <= D * exp (- (mu1 / T)) * B) /\
      (D * exp (- (mu1 / T)) + INR (length (paths tr)) * exp (-50) < 1 / 2 ->
         Rabs (soft_at tiny tr m act vals T - nth h vals 0) <= (D * exp (- (mu1 / T)) + INR (length (paths tr)) * exp (-50)) * B).
  Proof.
    intros tiny tr x m d h mu1 Ht Hm Hmu1 Hmarg Hh Eh act vals B T HB0 HT Hlen HB Hok D.
    assert (Hmu : 0 <= mu1 / T) by (left; apply Rdiv_lt_0_compat; assumption).
    pose proof (margins_logits m x tr T HT Hm) as Hz.
    assert (Hp : forall g, In g (snd (nth h (paths tr) d)) -> consistent (zT m T) g /\ mu1 / T <= Rabs (zT m T (fst g))).
    { rewrite Eh. cbn [snd]. intros g Hg. split; [eapply hard_path_consistent; eassumption|].
      rewrite Rabs_zT by exact HT. unfold Rdiv. apply Rmult_le_compat_r; [left; apply Rinv_0_lt_compat; exact HT|apply Hmarg; exact Hg]. }
    split.
    - intros Hnc Hsmall.
      pose proof (soft_tree_close_to_hard_unclamped_active tiny (zT m T) tr (act T) vals h d (mu1 / T) B Ht Hmu HB0) as H.
      cbv zeta in H. rewrite Eh in H. cbn [snd] in H. rewrite Eh in Hp. cbn [snd] in Hp.
      apply H; assumption.
    - intros Hsmall.
      pose proof (soft_tree_close_to_hard_up_to_clamp tiny (zT m T) tr (act T) vals h d (mu1 / T) B Ht Hmu HB0) as H.
      cbv zeta in H. rewrite Eh in H. cbn [snd] in H. rewrite Eh in Hp. cbn [snd] in Hp.
      apply H; assumption.
  Qed.
End Limit.

Lemma exp_le_compat a b : a <= b -> exp a <= exp b.
Proof. intros [H| ->]; [left; apply exp_increasing; exact H|lra]. Qed.

(* D e < r (via (D+1) e < r) *)
Lemma small_product (D e r : R) : 0 <= D -> 0 < e -> 0 < r -> e < r / (D + 1) -> D * e < r.
Proof.
  intros HD He Hr H. assert (H1 : (D + 1) * e < r).
  { apply Rmult_lt_reg_r with (r := / (D + 1)); [apply Rinv_0_lt_compat; lra|].
    replace ((D + 1) * e * / (D + 1)) with e by (field; lra). exact H. }
  nra.
Qed.

Lemma hard_index {L} (tr : tree L) (x : list Q) (d : L * gpath) :
  exists h, (h < length (paths tr))%nat /\ nth h (paths tr) d = (route tr x, hard_path tr x 0).
Proof. apply In_nth. apply (hard_path_in_paths x tr 0%nat []). Qed.

(* ---------- 3. THE LIMIT ---------- *)
(* For every tree shape, any number of leaves, any leaf values, any row x that is on no threshold ALONG ITS HARD ROUTE (the weakest
   non-tie hypothesis: margins at nodes off the route are unconstrained), and any family of admissible active sets act T that near T = 0
   keeps no clamped leaf:  soft_at T -> value of the hard-routed leaf  as T -> 0+. *)
Theorem soft_prediction_tends_to_hard {L} : forall (tiny : R) (tr : tree L) (x : list Q) (m : nat -> R) (d : L * gpath),
  tiny <= 1 -> margins_of m x tr ->
  (forall g, In g (hard_path tr x 0) -> m (fst g) <> 0) ->
  exists h, (h < length (paths tr))%nat /\ nth h (paths tr) d = (route tr x, hard_path tr x 0) /\
    forall (act : R -> list bool) (vals : list R) (T1 : R), 0 < T1 -> length vals = length (paths tr) ->
      (forall T, 0 < T < T1 -> active_ok (weights_at tiny tr m T) (act T) /\ no_clamped_active (zT m T) tr (act T)) ->
      forall eps, 0 < eps -> exists T0, 0 < T0 /\
        forall T, 0 < T < T0 -> Rabs (soft_at tiny tr m act vals T - nth h vals 0) < eps.
Proof.
  intros tiny tr x m d Ht Hm Hnz. destruct (hard_index tr x d) as (h & Hh & Eh). exists h. split; [exact Hh|]. split; [exact Eh|].
  intros act vals T1 HT1 Hlen Hadm eps Heps.
  destruct (min_margin_exists m _ Hnz) as (mu1 & Hmu1 & Hmarg).
  destruct (spread_exists (nth h vals 0) vals) as (B & HB0 & HB). rewrite Hlen in HB.
  set (D := INR (length (hard_path tr x 0))). assert (HD : 0 <= D) by apply pos_INR.
  set (q := eps / (B + 1)). assert (Hq : 0 < q) by (apply Rdiv_lt_0_compat; lra).
  assert (Eq : q * B = eps - q) by (unfold q; field; lra).
  set (r := Rmin (1 / 2) q). assert (Hr : 0 < r) by (apply Rmin_glb_lt; lra).
  assert (Heta : 0 < r / (D + 1)) by (apply Rdiv_lt_0_compat; lra).
  destruct (exp_neg_inv_tends_to_0 mu1 Hmu1 _ Heta) as (T0 & HT0 & Hsmall).
  exists (Rmin T0 T1). split; [apply Rmin_glb_lt; assumption|]. intros T [HT HTlt].
  assert (HTa : T < T0) by (eapply Rlt_le_trans; [exact HTlt|apply Rmin_l]).
  assert (HTb : T < T1) by (eapply Rlt_le_trans; [exact HTlt|apply Rmin_r]).
  destruct (Hadm T (conj HT HTb)) as [Hok Hnc]. specialize (Hsmall T (conj HT HTa)).
  pose proof (exp_pos (- (mu1 / T))) as He.
  pose proof (small_product D _ r HD He Hr Hsmall) as HDe.
  assert (Hr1 : r <= 1 / 2) by apply Rmin_l. assert (Hr2 : r <= q) by apply Rmin_r.
  destruct (soft_at_bound tiny tr x m d h mu1 Ht Hm Hmu1 Hmarg Hh Eh act vals B T HB0 HT Hlen HB Hok) as [H _].
  fold D in H. specialize (H Hnc ltac:(lra)).
  eapply Rle_lt_trans; [exact H|]. set (X := D * exp (- (mu1 / T))) in *.
  assert (X * B <= q * B) by (apply Rmult_le_compat_r; lra). lra.
Qed.

(* the same limit WITHOUT the hypothesis on clamped leaves (any admissible active sets): convergence up to the clamp floor n e^-50 B *)
Theorem soft_prediction_tends_to_hard_up_to_clamp {L} : forall (tiny : R) (tr : tree L) (x : list Q) (m : nat -> R) (d : L * gpath),
  tiny <= 1 -> margins_of m x tr ->
  (forall g, In g (hard_path tr x 0) -> m (fst g) <> 0) ->
  INR (length (paths tr)) * exp (-50) < 1 / 2 ->
  exists h, (h < length (paths tr))%nat /\ nth h (paths tr) d = (route tr x, hard_path tr x 0) /\
    forall (act : R -> list bool) (vals : list R) (B T1 : R), 0 <= B -> 0 < T1 -> length vals = length (paths tr) ->
      (forall i, (i < length (paths tr))%nat -> Rabs (nth i vals 0 - nth h vals 0) <= B) ->
      (forall T, 0 < T < T1 -> active_ok (weights_at tiny tr m T) (act T)) ->
      forall eps, 0 < eps -> exists T0, 0 < T0 /\
        forall T, 0 < T < T0 ->
          Rabs (soft_at tiny tr m act vals T - nth h vals 0) < INR (length (paths tr)) * exp (-50) * B + eps.
Proof.
  intros tiny tr x m d Ht Hm Hnz Hc. destruct (hard_index tr x d) as (h & Hh & Eh). exists h. split; [exact Hh|]. split; [exact Eh|].
  intros act vals B T1 HB0 HT1 Hlen HB Hadm eps Heps.
  destruct (min_margin_exists m _ Hnz) as (mu1 & Hmu1 & Hmarg).
  set (D := INR (length (hard_path tr x 0))). assert (HD : 0 <= D) by apply pos_INR.
  set (c := INR (length (paths tr)) * exp (-50)) in *.
  set (q := eps / (B + 1)). assert (Hq : 0 < q) by (apply Rdiv_lt_0_compat; lra).
  assert (Eq : q * B = eps - q) by (unfold q; field; lra).
  set (r := Rmin ((1 / 2 - c) / 2) q). assert (Hr : 0 < r) by (apply Rmin_glb_lt; lra).
  assert (Heta : 0 < r / (D + 1)) by (apply Rdiv_lt_0_compat; lra).
  destruct (exp_neg_inv_tends_to_0 mu1 Hmu1 _ Heta) as (T0 & HT0 & Hsmall).
  exists (Rmin T0 T1). split; [apply Rmin_glb_lt; assumption|]. intros T [HT HTlt].
  assert (HTa : T < T0) by (eapply Rlt_le_trans; [exact HTlt|apply Rmin_l]).
  assert (HTb : T < T1) by (eapply Rlt_le_trans; [exact HTlt|apply Rmin_r]).
  pose proof (Hadm T (conj HT HTb)) as Hok. specialize (Hsmall T (conj HT HTa)).
  pose proof (exp_pos (- (mu1 / T))) as He.
  pose proof (small_product D _ r HD He Hr Hsmall) as HDe.
  assert (Hr1 : r <= (1 / 2 - c) / 2) by apply Rmin_l. assert (Hr2 : r <= q) by apply Rmin_r.
  destruct (soft_at_bound tiny tr x m d h mu1 Ht Hm Hmu1 Hmarg Hh Eh act vals B T HB0 HT Hlen HB Hok) as [_ H].
  fold D c in H. specialize (H ltac:(lra)).
  eapply Rle_lt_trans; [exact H|]. set (X := D * exp (- (mu1 / T))) in *.
  assert (X * B <= q * B) by (apply Rmult_le_compat_r; lra). lra.
Qed.

(* ---------- 4. explicit rate: T <= mu1 / ln (D B / eps)  ==>  deviation <= eps ---------- *)
(* side conditions: D >= 1 (the tree has a split on the route; for D = 0 the deviation is 0), 0 < eps < B / 2 (so that D B / eps > 1, the
   logarithm is positive, and the hard leaf carries more than half of the mass) *)
Theorem soft_prediction_rate {L} : forall (tiny : R) (tr : tree L) (x : list Q) (m : nat -> R) (d : L * gpath) (h : nat) (mu1 : R),
  tiny <= 1 -> margins_of m x tr -> 0 < mu1 ->
  (forall g, In g (hard_path tr x 0) -> mu1 <= Rabs (m (fst g))) ->
  (h < length (paths tr))%nat -> nth h (paths tr) d = (route tr x, hard_path tr x 0) ->
  forall (act : R -> list bool) (vals : list R) (B eps T : R),
    let D := INR (length (hard_path tr x 0)) in
    (1 <= length (hard_path tr x 0))%nat -> 0 < eps -> eps < B / 2 ->
    0 < T -> T <= mu1 / ln (D * B / eps) ->
    length vals = length (paths tr) ->
    (forall i, (i < length (paths tr))%nat -> Rabs (nth i vals 0 - nth h vals 0) <= B) ->
    active_ok (weights_at tiny tr m T) (act T) -> no_clamped_active (zT m T) tr (act T) ->
    Rabs (soft_at tiny tr m act vals T - nth h vals 0) <= eps.
Proof.
  intros tiny tr x m d h mu1 Ht Hm Hmu1 Hmarg Hh Eh act vals B eps T D HD1 Heps HepsB HT HTle Hlen HB Hok Hnc.
  assert (HD : 1 <= D) by (unfold D; change 1 with (INR 1); apply le_INR; exact HD1).
  assert (HB0 : 0 < B) by lra.
  set (K := D * B / eps) in *.
  assert (HK : 2 < K).
  { unfold K. apply Rmult_lt_reg_r with (r := eps); [exact Heps|]. unfold Rdiv. rewrite Rmult_assoc, Rinv_l by lra. nra. }
  assert (HL : 0 < ln K) by (rewrite <- ln_1; apply ln_increasing; lra).
  assert (HTL : T * ln K <= mu1).
  { apply Rmult_le_compat_r with (r := ln K) in HTle; [|lra]. unfold Rdiv in HTle. rewrite Rmult_assoc, Rinv_l in HTle by lra. lra. }
  assert (HLm : ln K <= mu1 / T).
  { apply Rmult_le_reg_r with (r := T); [exact HT|]. unfold Rdiv. rewrite Rmult_assoc, Rinv_l by lra. lra. }
  assert (He : exp (- (mu1 / T)) <= / K).
  { eapply Rle_trans; [apply (exp_le_compat _ (- ln K)); lra|]. rewrite exp_Ropp, exp_ln by lra. lra. }
  assert (HDe : D * exp (- (mu1 / T)) <= eps / B).
  { eapply Rle_trans; [apply Rmult_le_compat_l; [lra|exact He]|]. unfold K. right. field. repeat split; lra. }
  assert (HepsB2 : eps / B < 1 / 2).
  { apply Rmult_lt_reg_r with (r := B); [exact HB0|]. unfold Rdiv at 1. rewrite Rmult_assoc, Rinv_l by lra. lra. }
  destruct (soft_at_bound tiny tr x m d h mu1 Ht Hm Hmu1 Hmarg Hh Eh act vals B T ltac:(lra) HT Hlen HB Hok) as [H _].
  fold D in H. specialize (H Hnc ltac:(lra)).
  eapply Rle_trans; [exact H|]. 
  apply Rle_trans with (eps / B * B); [apply Rmult_le_compat_r; lra|]. right. field. lra.
Qed.

(* ---------- 5. the idealised weights (exact gate products, no clamp): the limit holds for ANY admissible active sets ---------- *)
Definition ideal_soft_at {L} (tr : tree L) (m : nat -> R) (act : R -> list bool) (vals : list R) (T : R) : R :=
  soft_pred (trunc_out (map (fun mp => path_prob (zT m T) (snd mp)) (paths tr)) (act T)) vals.

Theorem ideal_soft_prediction_tends_to_hard {L} : forall (tr : tree L) (x : list Q) (m : nat -> R) (d : L * gpath),
  margins_of m x tr ->
  (forall g, In g (hard_path tr x 0) -> m (fst g) <> 0) ->
  exists h, (h < length (paths tr))%nat /\ nth h (paths tr) d = (route tr x, hard_path tr x 0) /\
    forall (act : R -> list bool) (vals : list R) (T1 : R), 0 < T1 -> length vals = length (paths tr) ->
      (forall T, 0 < T < T1 -> active_ok (map (fun mp => path_prob (zT m T) (snd mp)) (paths tr)) (act T)) ->
      forall eps, 0 < eps -> exists T0, 0 < T0 /\
        forall T, 0 < T < T0 -> Rabs (ideal_soft_at tr m act vals T - nth h vals 0) < eps.
Proof.
  intros tr x m d Hm Hnz. destruct (hard_index tr x d) as (h & Hh & Eh). exists h. split; [exact Hh|]. split; [exact Eh|].
  intros act vals T1 HT1 Hlen Hadm eps Heps.
  destruct (min_margin_exists m _ Hnz) as (mu1 & Hmu1 & Hmarg).
  destruct (spread_exists (nth h vals 0) vals) as (B & HB0 & HB). rewrite Hlen in HB.
  set (D := INR (length (hard_path tr x 0))). assert (HD : 0 <= D) by apply pos_INR.
  set (q := eps / (B + 1)). assert (Hq : 0 < q) by (apply Rdiv_lt_0_compat; lra).
  assert (Eq : q * B = eps - q) by (unfold q; field; lra).
  set (r := Rmin (1 / 2) q). assert (Hr : 0 < r) by (apply Rmin_glb_lt; lra).
  assert (Heta : 0 < r / (D + 1)) by (apply Rdiv_lt_0_compat; lra).
  destruct (exp_neg_inv_tends_to_0 mu1 Hmu1 _ Heta) as (T0 & HT0 & Hsmall).
  exists (Rmin T0 T1). split; [apply Rmin_glb_lt; assumption|]. intros T [HT HTlt].
  assert (HTa : T < T0) by (eapply Rlt_le_trans; [exact HTlt|apply Rmin_l]).
  assert (HTb : T < T1) by (eapply Rlt_le_trans; [exact HTlt|apply Rmin_r]).
  pose proof (Hadm T (conj HT HTb)) as Hok. specialize (Hsmall T (conj HT HTa)).
  pose proof (exp_pos (- (mu1 / T))) as He.
  pose proof (small_product D _ r HD He Hr Hsmall) as HDe.
  assert (Hr1 : r <= 1 / 2) by apply Rmin_l. assert (Hr2 : r <= q) by apply Rmin_r.
  unfold ideal_soft_at. set (z := zT m T) in *.
  set (W' := map (fun mp : L * gpath => path_prob z (snd mp)) (paths tr)) in *.
  assert (HWp : Forall (fun x => 0 < x) W').
  { apply Forall_forall. intros y Hy. apply in_map_iff in Hy. destruct Hy as [mp [<- _]]. apply path_prob_pos. }
  assert (HWs : rsum W' = 1) by apply leaf_probs_sum_to_one.
  assert (HWl : length W' = length (paths tr)) by (unfold W'; apply map_length).
  assert (HWh : nth h W' 0 = path_prob z (hard_path tr x 0)).
  { unfold W'. set (f := fun mp : L * gpath => path_prob z (snd mp)).
    rewrite (nth_indep (map f (paths tr)) 0 (f d)) by (rewrite map_length; exact Hh). rewrite map_nth. unfold f. rewrite Eh. reflexivity. }
  assert (Hmu : 0 <= mu1 / T) by (left; apply Rdiv_lt_0_compat; assumption).
  pose proof (margins_logits m x tr T HT Hm) as Hz. fold z in Hz.
  assert (Hp : forall g, In g (hard_path tr x 0) -> consistent z g /\ mu1 / T <= Rabs (z (fst g))).
  { intros g Hg. split; [eapply hard_path_consistent; eassumption|]. unfold z.
    rewrite Rabs_zT by exact HT. unfold Rdiv. apply Rmult_le_compat_r; [left; apply Rinv_0_lt_compat; exact HT|apply Hmarg; exact Hg]. }
  pose proof (hard_leaf_weight_bound z _ (mu1 / T) Hmu Hp) as [Hplo Hphi]. fold D in Hplo.
  pose proof (soft_pred_close_to_hard W' (act T) vals h B HWp HWs Hok) as H. rewrite HWl, HWh in H.
  specialize (H Hlen Hh ltac:(lra) HB HB0).
  eapply Rle_lt_trans; [exact H|]. set (X := D * exp (- (mu1 / T))) in *.
  assert ((1 - path_prob z (hard_path tr x 0)) * B <= X * B) by (apply Rmult_le_compat_r; lra).
  assert (X * B <= q * B) by (apply Rmult_le_compat_r; lra). lra.
Qed.

(* ---------- 6. the hypotheses on the active-set family are satisfiable for EVERY tree: keeping only the hard leaf
   (what the code does as soon as the top weight reaches the keep fraction) is admissible near T = 0 ---------- *)
Definition onehot (n h : nat) : list bool := map (fun i => Nat.eqb i h) (seq 0 n).

Lemma onehot_length n h : length (onehot n h) = n.
Proof. unfold onehot. rewrite map_length, seq_length. reflexivity. Qed.

Lemma nth_onehot n h i : nth i (onehot n h) false = andb (Nat.ltb i n) (Nat.eqb i h).
Proof.
  destruct (Nat.ltb_spec i n) as [Hi|Hi].
  - unfold onehot. set (f := fun i : nat => Nat.eqb i h).
    rewrite (nth_indep (map f (seq 0 n)) false (f 0%nat)) by (rewrite map_length, seq_length; exact Hi).
    rewrite map_nth, seq_nth by exact Hi. reflexivity.
  - rewrite nth_overflow by (rewrite onehot_length; exact Hi). reflexivity.
Qed.

Lemma onehot_admissible {L} : forall (tiny : R) (z : nat -> R) (tr : tree L) (h : nat) (d : L * gpath),
  tiny <= 1 -> (h < length (paths tr))%nat -> 1 / 2 < path_prob z (snd (nth h (paths tr) d)) ->
  active_ok (code_weights tiny (tree_lps z tr)) (onehot (length (paths tr)) h) /\
  no_clamped_active z tr (onehot (length (paths tr)) h).
Proof.
  intros tiny z tr h d Ht Hh Hhalf. set (n := length (paths tr)) in *.
  assert (Eexp : forall i, (i < n)%nat -> exp (nth i (tree_lps z tr) 0) = path_prob z (snd (nth i (paths tr) d))).
  { intros i Hi. rewrite (nth_tree_lps z tr i d Hi). apply exp_path_logp. }
  set (W' := map (fun mp : L * gpath => path_prob z (snd mp)) (paths tr)).
  assert (HW'n : forall i, (i < n)%nat -> nth i W' 0 = path_prob z (snd (nth i (paths tr) d))).
  { intros i Hi. unfold W'. set (f := fun mp : L * gpath => path_prob z (snd mp)).
    rewrite (nth_indep (map f (paths tr)) 0 (f d)) by (rewrite map_length; exact Hi). rewrite map_nth. reflexivity. }
  assert (HWp : Forall (fun x => 0 <= x) W').
  { apply Forall_forall. intros y Hy. apply in_map_iff in Hy. destruct Hy as [mp [<- _]]. left. apply path_prob_pos. }
  assert (HWs : rsum W' = 1) by apply leaf_probs_sum_to_one.
  assert (HWl : length W' = n) by (unfold W'; apply map_length).
  assert (Hlt : forall j, (j < n)%nat -> j <> h -> nth j (tree_lps z tr) 0 <= nth h (tree_lps z tr) 0).
  { intros j Hj Hne. left. apply exp_lt_inv. rewrite !Eexp by assumption.
    pose proof (two_le_rsum W' j h HWp Hne ltac:(lia) ltac:(lia)) as H2. rewrite HWs, !HW'n in H2 by assumption. lra. }
  split.
  - split; [rewrite onehot_length, code_weights_length, tree_lps_length; reflexivity|].
    split; [exists h; rewrite nth_onehot; apply andb_true_intro; split; [apply Nat.ltb_lt; exact Hh|apply Nat.eqb_refl]|].
    rewrite code_weights_length, tree_lps_length. fold n. intros i j Hi Hj Hai Haj.
    rewrite nth_onehot in Hai, Haj. apply andb_prop in Hai. destruct Hai as [_ Hai]. apply Nat.eqb_eq in Hai. subst i.
    assert (Hne : j <> h).
    { intros E. subst j. rewrite Nat.eqb_refl, (proj2 (Nat.ltb_lt h n) Hh) in Haj. discriminate. }
    rewrite !nth_code_weights by (rewrite ?tree_lps_length; assumption).
    assert (Hne' : tree_lps z tr <> []) by (apply (lps_nonnil_of_lt _ h); rewrite tree_lps_length; exact Hh).
    pose proof (clamped_sum_pos (tree_lps z tr) Hne') as HD.
    unfold Rdiv. apply Rmult_le_compat_r; [left; apply Rinv_0_lt_compat; exact HD|].
    apply exp_le_compat. apply Rle_max_compat_l. apply Hlt; assumption.
  - intros i Hi Ha. rewrite nth_onehot in Ha. apply andb_prop in Ha. destruct Ha as [_ Ha]. apply Nat.eqb_eq in Ha. subst i.
    left. apply exp_lt_inv. rewrite Eexp by exact Hh. pose proof (@exp_m50_small). lra.
Qed.

Theorem onehot_family_admissible {L} : forall (tiny : R) (tr : tree L) (x : list Q) (m : nat -> R) (d : L * gpath) (h : nat) (mu1 : R),
  tiny <= 1 -> margins_of m x tr -> 0 < mu1 ->
  (forall g, In g (hard_path tr x 0) -> mu1 <= Rabs (m (fst g))) ->
  (h < length (paths tr))%nat -> nth h (paths tr) d = (route tr x, hard_path tr x 0) ->
  forall T, 0 < T < mu1 / (2 * (INR (length (hard_path tr x 0)) + 1)) ->
    active_ok (weights_at tiny tr m T) (onehot (length (paths tr)) h) /\ no_clamped_active (zT m T) tr (onehot (length (paths tr)) h).
Proof.
  intros tiny tr x m d h mu1 Ht Hm Hmu1 Hmarg Hh Eh T [HT HT1].
  apply (onehot_admissible tiny (zT m T) tr h d Ht Hh). rewrite Eh. cbn [snd].
  set (D := INR (length (hard_path tr x 0))) in *. assert (HD : 0 <= D) by apply pos_INR.
  assert (Hmu : 0 <= mu1 / T) by (left; apply Rdiv_lt_0_compat; assumption).
  pose proof (margins_logits m x tr T HT Hm) as Hz.
  assert (Hp : forall g, In g (hard_path tr x 0) -> consistent (zT m T) g /\ mu1 / T <= Rabs (zT m T (fst g))).
  { intros g Hg. split; [eapply hard_path_consistent; eassumption|].
    rewrite Rabs_zT by exact HT. unfold Rdiv. apply Rmult_le_compat_r; [left; apply Rinv_0_lt_compat; exact HT|apply Hmarg; exact Hg]. }
  pose proof (hard_leaf_weight_bound (zT m T) _ (mu1 / T) Hmu Hp) as [Hplo _]. fold D in Hplo.
  pose proof (exp_neg_inv_lt mu1 T Hmu1 HT) as He. pose proof (exp_pos (- (mu1 / T))) as He0.
  assert (HTm : T / mu1 < / (2 * (D + 1))).
  { apply Rmult_lt_reg_r with (r := mu1); [exact Hmu1|]. unfold Rdiv. rewrite Rmult_assoc, Rinv_l by lra.
    unfold Rdiv in HT1. lra. }
  assert (HX : D * exp (- (mu1 / T)) < 1 / 2).
  { apply small_product; try lra. eapply Rlt_trans; [exact He|]. eapply Rlt_le_trans; [exact HTm|]. right. field. lra. }
  lra.
Qed.

(* ---------- 7. examples on the depth-1 tree: ties, and the clamp floor ---------- *)
Definition tr1 : tree nat := Node [1%Q] 0%Q (Leaf 0%nat) (Leaf 1%nat).

Lemma tr1_lps z : tree_lps z tr1 = [logsigmoid (- z 0%nat); logsigmoid (z 0%nat)].
Proof.
  unfold tree_lps, tr1, paths. cbn [paths_from app map snd]. unfold code_path_logp. cbn [fold_left]. unfold code_step. cbn [fst snd].
  rewrite !Rplus_0_l. reflexivity.
Qed.

Lemma two_leaf_pred tiny l0 l1 v0 v1 : tiny <= 1 ->
  soft_pred (trunc_out (code_weights tiny [l0; l1]) [true; true]) [v0; v1] =
  (exp (Rmax (-50) l0) * v0 + exp (Rmax (-50) l1) * v1) / (exp (Rmax (-50) l0) + exp (Rmax (-50) l1)).
Proof.
  intros Ht. rewrite code_weights_spec by (try exact Ht; discriminate).
  pose proof (exp_pos (Rmax (-50) l0)). pose proof (exp_pos (Rmax (-50) l1)).
  unfold soft_pred, trunc_out, renorm, masked_w, wsum, rsum. cbn [map combine fold_right fst snd]. field. repeat split; lra.
Qed.

Lemma two_leaf_all_active (w : list R) : length w = 2%nat -> active_ok w [true; true].
Proof.
  intros Hl. split; [rewrite Hl; reflexivity|]. split; [exists 0%nat; reflexivity|].
  intros i j _ Hj _ Haj. rewrite Hl in Hj. destruct j as [|[|j]]; cbn [nth] in Haj; try discriminate. lia.
Qed.

(* the row x = [0] lies exactly on the threshold of tr1: margin 0, hard routing sends it left (value 0) *)
Lemma tie_margins : margins_of (fun _ => 0) [0%Q] tr1.
Proof.
  intros j v b [E|[]]. injection E as <- <- <-. exists 1. split; [lra|]. cbn [dot].
  replace (Q2R (0 * 1 + 0)) with 0 by (rewrite <- RMicromega.Q2R_0; apply Qeq_eqR; ring).
  rewrite RMicromega.Q2R_0. lra.
Qed.

(* a tie row: with both leaves kept the soft prediction is 1/2 at EVERY temperature, so it does not tend to the hard value 0:
   the non-tie hypothesis of the limit theorems is needed *)
Example tie_rows_do_not_converge_to_hard :
  let m : nat -> R := fun _ => 0 in let act : R -> list bool := fun _ => [true; true] in let vals := [0; 1] in
  margins_of m [0%Q] tr1 /\ route tr1 [0%Q] = 0%nat /\ nth 0 (paths tr1) (0%nat, []) = (route tr1 [0%Q], hard_path tr1 [0%Q] 0) /\
  (forall T, 0 < T -> active_ok (weights_at (/ 1000) tr1 m T) (act T) /\ no_clamped_active (zT m T) tr1 (act T)) /\
  (forall T, 0 < T -> soft_at (/ 1000) tr1 m act vals T = 1 / 2) /\
  ~ (forall eps, 0 < eps -> exists T0, 0 < T0 /\ forall T, 0 < T < T0 -> Rabs (soft_at (/ 1000) tr1 m act vals T - nth 0 vals 0) < eps).
Proof.
  intros m act vals.
  assert (Hz : forall T, zT m T 0%nat = 0) by (intros T; unfold zT, m; unfold Rdiv; lra).
  assert (Hlps : forall T, tree_lps (zT m T) tr1 = [- ln 2; - ln 2]).
  { intros T. rewrite tr1_lps, Hz, Ropp_0, logsigmoid_0. reflexivity. }
  assert (Hsoft : forall T, 0 < T -> soft_at (/ 1000) tr1 m act vals T = 1 / 2).
  { intros T _. unfold soft_at, weights_at, act, vals. rewrite Hlps, two_leaf_pred by lra.
    pose proof (exp_pos (Rmax (-50) (- ln 2))). field. lra. }
  split; [exact tie_margins|]. split; [reflexivity|]. split; [reflexivity|]. split; [|split; [exact Hsoft|]].
  - intros T HT. split.
    + apply two_leaf_all_active. unfold weights_at. rewrite code_weights_length, Hlps. reflexivity.
    + intros i Hi _. rewrite Hlps. pose proof ln2_lt_1. destruct i as [|[|i]]; cbn [nth]; try lra. cbn in Hi. lia.
  - intros H. destruct (H (1 / 4) ltac:(lra)) as (T0 & HT0 & HH). specialize (HH (T0 / 2) ltac:(lra)).
    rewrite Hsoft in HH by lra. cbn [nth vals] in HH. rewrite Rabs_right in HH; lra.
Qed.

Lemma logsigmoid_le u : logsigmoid u <= u.
Proof.
  unfold logsigmoid, sigmoid. pose proof (exp_pos (- u)) as He. rewrite ln_Rinv by lra.
  assert (ln (exp (- u)) < ln (1 + exp (- u))) by (apply ln_increasing; lra). rewrite ln_exp in H. lra.
Qed.

Lemma logsigmoid_neg u : logsigmoid u < 0.
Proof. unfold logsigmoid. rewrite <- ln_1. apply ln_increasing; [apply sigmoid_pos|apply sigmoid_lt1]. Qed.

(* the row x = [-1] of tr1: margin -1 (a NON-tie row, hard value 0) *)
Lemma left_margins : margins_of (fun _ => -1) [(-1)%Q] tr1.
Proof.
  intros j v b [E|[]]. injection E as <- <- <-. exists 1. split; [lra|]. cbn [dot].
  replace (Q2R (-1 * 1 + 0)) with (-1) by (replace (-1) with (Q2R (-1)) by (unfold Q2R; cbn; lra); apply Qeq_eqR; ring).
  rewrite RMicromega.Q2R_0. lra.
Qed.

(* (a) the hypothesis of the fixed-temperature theorem C09_soft_prediction_converges_to_hard ("no leaf below -50") FAILS for every small T *)
Example fixed_T_hypothesis_fails_near_zero : forall T, 0 < T < / 50 ->
  ~ (forall mp, In mp (paths tr1) -> -50 <= path_logp (zT (fun _ => -1) T) (snd mp)).
Proof.
  intros T [HT HT50] H. specialize (H (1%nat, [(0%nat, false)]) ltac:(right; left; reflexivity)).
  unfold path_logp in H. cbn [snd fold_right glogit fst] in H.
  pose proof (logsigmoid_le (zT (fun _ => -1) T 0%nat)) as Hl. unfold zT in *.
  assert (-1 / T < -50).
  { apply Rmult_lt_reg_r with (r := T); [exact HT|]. unfold Rdiv. rewrite Rmult_assoc, Rinv_l by lra.
    assert (T * 50 < 1) by (apply Rmult_lt_reg_r with (r := / 50); [lra|]; rewrite Rmult_assoc, Rinv_r by lra; lra). lra. }
  lra.
Qed.

(* (b) with the weights as coded and BOTH leaves kept at every temperature (keep fraction 1: an admissible active set), the soft prediction
   stays above e^-50 / (1 + e^-50) > 0 = hard value: it does NOT converge to the hard prediction.  Hence the hypothesis `no_clamped_active`
   of soft_prediction_tends_to_hard cannot be dropped; only the "up to clamp" limit holds in general. *)
Example clamp_floor_prevents_exact_convergence :
  let m : nat -> R := fun _ => -1 in let act : R -> list bool := fun _ => [true; true] in let vals := [0; 1] in
  margins_of m [(-1)%Q] tr1 /\ (forall g, In g (hard_path tr1 [(-1)%Q] 0) -> m (fst g) <> 0) /\
  nth 0 (paths tr1) (0%nat, []) = (route tr1 [(-1)%Q], hard_path tr1 [(-1)%Q] 0) /\
  (forall T, 0 < T -> active_ok (weights_at (/ 1000) tr1 m T) (act T)) /\
  (forall T, 0 < T -> exp (-50) / (1 + exp (-50)) <= soft_at (/ 1000) tr1 m act vals T) /\
  ~ (forall eps, 0 < eps -> exists T0, 0 < T0 /\ forall T, 0 < T < T0 -> Rabs (soft_at (/ 1000) tr1 m act vals T - nth 0 vals 0) < eps).
Proof.
  intros m act vals.
  assert (Hlow : forall T, 0 < T -> exp (-50) / (1 + exp (-50)) <= soft_at (/ 1000) tr1 m act vals T).
  { intros T _. unfold soft_at, weights_at, act, vals. rewrite tr1_lps, two_leaf_pred by lra.
    set (l0 := logsigmoid (- zT m T 0%nat)). set (l1 := logsigmoid (zT m T 0%nat)).
    pose proof (exp_pos (-50)) as Hf.
    assert (H1 : exp (-50) <= exp (Rmax (-50) l1)) by (apply exp_le_compat, Rmax_l).
    assert (H0 : exp (Rmax (-50) l0) <= 1).
    { rewrite <- exp_0. apply exp_le_compat. apply Rmax_lub; [lra|]. left. apply logsigmoid_neg. }
    pose proof (exp_pos (Rmax (-50) l0)) as H0p.
    set (e0 := exp (Rmax (-50) l0)) in *. set (e1 := exp (Rmax (-50) l1)) in *. set (f := exp (-50)) in *.
    apply Rmult_le_reg_r with (r := 1 + f); [lra|]. unfold Rdiv at 1. rewrite Rmult_assoc, Rinv_l by lra.
    apply Rmult_le_reg_r with (r := e0 + e1); [lra|].
    replace ((e0 * 0 + e1 * 1) / (e0 + e1) * (1 + f) * (e0 + e1)) with (e1 * (1 + f)) by (field; lra). nra. }
  split; [exact left_margins|]. split; [|split; [reflexivity|split; [|split; [exact Hlow|]]]].
  - intros g _. unfold m. lra.
  - intros T _. apply two_leaf_all_active. unfold weights_at. rewrite code_weights_length, tr1_lps. reflexivity.
  - intros H. pose proof (exp_pos (-50)) as Hf. set (f := exp (-50)) in *.
    assert (Hpos : 0 < f / (1 + f)) by (apply Rdiv_lt_0_compat; lra).
    destruct (H (f / (1 + f)) Hpos) as (T0 & HT0 & HH). specialize (HH (T0 / 2) ltac:(lra)).
    specialize (Hlow (T0 / 2) ltac:(lra)). fold f in Hlow. cbn [nth vals] in HH. rewrite Rabs_right in HH; lra.
Qed.

(* ---------- 8. non-vacuity: a concrete depth-2 tree ---------- *)
(*        node 0: x <= 0 ?            row x = [-1/2]: node 0 margin -1/2 (left), node 1 margin (-1/2) - (-1) = 1/2 (right)
          /            \               hard route: leaf 11 (index 1, value 5)
     node 1: x <= -1 ?  leaf 12
       /       \
   leaf 10    leaf 11                                                                                                   *)
Definition tr2 : tree nat := Node [1%Q] 0%Q (Node [1%Q] (-1)%Q (Leaf 10%nat) (Leaf 11%nat)) (Leaf 12%nat).
Definition x2 : list Q := [(-1 # 2)%Q].
Definition m2 : nat -> R := fun j => match j with O => - (1 / 2) | _ => 1 / 2 end.
(* a temperature-dependent active set: all three leaves at large T, only the top-weighted one below T = 1/12 *)
Definition act2 : R -> list bool := fun T => if Rlt_dec T (/ 12) then onehot 3 1 else [true; true; true].

Lemma tr2_margins : margins_of m2 x2 tr2.
Proof.
  intros j v b Hin. cbn [tr2 nodes_from nsplit app Nat.add] in Hin. exists 1. split; [lra|].
  destruct Hin as [E|[E|[]]]; injection E as <- <- <-; cbn [dot x2 m2].
  - replace (Q2R ((-1 # 2) * 1 + 0)) with (- (1 / 2)) by (unfold Q2R; cbn; lra). rewrite RMicromega.Q2R_0. lra.
  - replace (Q2R ((-1 # 2) * 1 + 0)) with (- (1 / 2)) by (unfold Q2R; cbn; lra).
    replace (Q2R (-1)) with (-1) by (unfold Q2R; cbn; lra). lra.
Qed.

Lemma tr2_hard_path : hard_path tr2 x2 0 = [(0%nat, true); (1%nat, false)] /\ route tr2 x2 = 11%nat.
Proof. split; reflexivity. Qed.

Example depth2_soft_prediction_tends_to_hard :
  forall eps, 0 < eps -> exists T0, 0 < T0 /\
    forall T, 0 < T < T0 -> Rabs (soft_at (/ 1000) tr2 m2 act2 [3; 5; 7] T - 5) < eps.
Proof.
  destruct tr2_hard_path as [Ehp Ert].
  assert (Hnz : forall g, In g (hard_path tr2 x2 0) -> m2 (fst g) <> 0).
  { rewrite Ehp. intros g [<-|[<-|[]]]; cbn [fst m2]; lra. }
  destruct (soft_prediction_tends_to_hard (/ 1000) tr2 x2 m2 (0%nat, []) ltac:(lra) tr2_margins Hnz) as (h & Hh & Eh & H).
  assert (h = 1%nat).
  { rewrite Ehp, Ert in Eh. cbn [tr2 paths paths_from nsplit app Nat.add length] in Eh, Hh.
    destruct h as [|[|[|h]]]; cbn [nth] in Eh; try discriminate; try reflexivity. lia. }
  subst h. specialize (H act2 [3; 5; 7] (/ 12) ltac:(lra) eq_refl). cbn [nth] in H. apply H.
  intros T [HT HT1]. unfold act2. destruct (Rlt_dec T (/ 12)) as [_|Hc]; [|contradiction].
  apply (onehot_family_admissible (/ 1000) tr2 x2 m2 (0%nat, []) 1%nat (1 / 2) ltac:(lra) tr2_margins ltac:(lra)).
  - rewrite Ehp. intros g [<-|[<-|[]]]; cbn [fst m2]; [rewrite Rabs_Ropp|]; rewrite Rabs_right; lra.
  - cbn. lia.
  - rewrite Ehp, Ert. reflexivity.
  - rewrite Ehp. cbn [length INR]. split; [exact HT|]. replace (1 / 2 / (2 * (1 + 1 + 1))) with (/ 12) by field. exact HT1.
Qed.

(* ---------- 9. the limit in filter form (Coquelicot): filterlim soft_at (at_right 0) (locally hard) ---------- *)
From Coquelicot Require Import Coquelicot.

Lemma eps_form_filterlim (f : R -> R) (l : R) :
  (forall eps, 0 < eps -> exists T0, 0 < T0 /\ forall T, 0 < T < T0 -> Rabs (f T - l) < eps) ->
  filterlim f (at_right 0) (locally l).
Proof.
  intros H. apply (proj2 (filterlim_locally f l)). intros eps. destruct (H eps (cond_pos eps)) as (T0 & HT0 & HH).
  exists (mkposreal T0 HT0). intros y Hy Hpos.
  unfold ball in *; simpl in *; unfold AbsRing_ball, abs, minus, plus, opp in *; simpl in *.
  replace (y + - 0) with y in Hy by lra. rewrite Rabs_right in Hy by lra.
  apply HH. lra.
Qed.

Lemma filterlim_eps_form (f : R -> R) (l : R) :
  filterlim f (at_right 0) (locally l) ->
  (forall eps, 0 < eps -> exists T0, 0 < T0 /\ forall T, 0 < T < T0 -> Rabs (f T - l) < eps).
Proof.
  intros H eps Heps. pose proof (proj1 (filterlim_locally f l) H (mkposreal eps Heps)) as [d Hd].
  exists d. split; [apply cond_pos|]. intros T [HT HTd]. specialize (Hd T).
  unfold ball in *; simpl in *; unfold AbsRing_ball, abs, minus, plus, opp in *; simpl in *.
  apply Hd; [|exact HT]. replace (T + - 0) with T by lra. rewrite Rabs_right by lra. exact HTd.
Qed.

Theorem soft_prediction_filterlim_hard {L} : forall (tiny : R) (tr : tree L) (x : list Q) (m : nat -> R) (d : L * gpath),
  tiny <= 1 -> margins_of m x tr ->
  (forall g, In g (hard_path tr x 0) -> m (fst g) <> 0) ->
  exists h, (h < length (paths tr))%nat /\ nth h (paths tr) d = (route tr x, hard_path tr x 0) /\
    forall (act : R -> list bool) (vals : list R) (T1 : R), 0 < T1 -> length vals = length (paths tr) ->
      (forall T, 0 < T < T1 -> active_ok (weights_at tiny tr m T) (act T) /\ no_clamped_active (zT m T) tr (act T)) ->
      filterlim (soft_at tiny tr m act vals) (at_right 0) (locally (nth h vals 0)).
Proof.
  intros tiny tr x m d Ht Hm Hnz. destruct (soft_prediction_tends_to_hard tiny tr x m d Ht Hm Hnz) as (h & Hh & Eh & H).
  exists h. split; [exact Hh|]. split; [exact Eh|]. intros act vals T1 HT1 Hlen Hadm. apply eps_form_filterlim. apply (H act vals T1); assumption.
Qed.

Theorem ideal_soft_prediction_filterlim_hard {L} : forall (tr : tree L) (x : list Q) (m : nat -> R) (d : L * gpath),
  margins_of m x tr ->
  (forall g, In g (hard_path tr x 0) -> m (fst g) <> 0) ->
  exists h, (h < length (paths tr))%nat /\ nth h (paths tr) d = (route tr x, hard_path tr x 0) /\
    forall (act : R -> list bool) (vals : list R) (T1 : R), 0 < T1 -> length vals = length (paths tr) ->
      (forall T, 0 < T < T1 -> active_ok (map (fun mp => path_prob (zT m T) (snd mp)) (paths tr)) (act T)) ->
      filterlim (ideal_soft_at tr m act vals) (at_right 0) (locally (nth h vals 0)).
Proof.
  intros tr x m d Hm Hnz. destruct (ideal_soft_prediction_tends_to_hard tr x m d Hm Hnz) as (h & Hh & Eh & H).
  exists h. split; [exact Hh|]. split; [exact Eh|]. intros act vals T1 HT1 Hlen Hadm. apply eps_form_filterlim. apply (H act vals T1); assumption.
Qed.

(* in filter form the two counterexamples read: NOT filterlim ... (locally hard) *)
Example tie_rows_not_filterlim :
  ~ filterlim (soft_at (/ 1000) tr1 (fun _ => 0) (fun _ => [true; true]) [0; 1]) (at_right 0) (locally 0).
Proof. intros H. pose proof (filterlim_eps_form _ _ H) as H'. destruct tie_rows_do_not_converge_to_hard as (_ & _ & _ & _ & _ & Hn). exact (Hn H'). Qed.

Example clamp_floor_not_filterlim :
  ~ filterlim (soft_at (/ 1000) tr1 (fun _ => -1) (fun _ => [true; true]) [0; 1]) (at_right 0) (locally 0).
Proof. intros H. pose proof (filterlim_eps_form _ _ H) as H'. destruct clamp_floor_prevents_exact_convergence as (_ & _ & _ & _ & _ & Hn). exact (Hn H'). Qed.

Print Assumptions soft_prediction_tends_to_hard.
Print Assumptions soft_prediction_rate.
Print Assumptions soft_prediction_tends_to_hard_up_to_clamp.
Print Assumptions ideal_soft_prediction_tends_to_hard.
Print Assumptions soft_prediction_filterlim_hard.
Print Assumptions onehot_family_admissible.
Print Assumptions tie_rows_do_not_converge_to_hard.
Print Assumptions clamp_floor_prevents_exact_convergence.
Print Assumptions depth2_soft_prediction_tends_to_hard.
