(* The adaptive-bandwidth update as the code performs it (xrfm/rfm_src/kernels.py, Kernel._adapt_bandwidth), over the reals.
   Input: the matrix the kernels hand over, with entries D(x_i, x_j)^q (distance in the kernel's own norm, to the power of the exponent).
     sub-sample rows/columns (a permutation of all of them when n <= 5000)  ->  element-wise root `** (1 / q)` when q <> 1  ->
     off-diagonal entries  ->  median (torch.median: the lower median)  ->  multiplier := 1 if it is below eps  ->  bandwidth := base * multiplier.
   The order statistic is a parameter `med` (its contract — lower median, invariant under permutations, homogeneous — is checked in
   Coq over Q on every recorded fit, Real/Bandwidth.v); here: the root undoes the power, so the multiplier is the median of the DISTANCES,
   and the update is homogeneous of degree one in the data — the fact the scale-invariance composition theorem (ScaleInv.v) consumes. *)
From Coq Require Import Reals List Lra.
Require Import XV.Real.Kernels.
Import ListNotations.
Local Open Scope R_scope.

(* torch.pow on non-negative entries: pw (0 ^ y = 0) *)
Definition unroot (q : R) (v : R) : R := if Req_EM_T q 1 then v else pw v (1 / q).

Definition adapt_multiplier (q eps : R) (med : list R -> R) (offdiag_pow : list R) : R :=
  let m := med (map (unroot q) offdiag_pow) in if Rlt_dec m eps then 1 else m.

Definition adapt_bandwidth (base q eps : R) (med : list R -> R) (offdiag_pow : list R) : R :=
  base * adapt_multiplier q eps med offdiag_pow.

(* the root undoes the power on non-negative distances *)
Lemma unroot_pow q d : 0 < q -> 0 <= d -> unroot q (pw d q) = d.
Proof.
  intros Hq Hd. unfold unroot. destruct (Req_EM_T q 1) as [->|Hne]; [apply pw_one; exact Hd|].
  unfold pw at 2. destruct (Req_EM_T d 0) as [->|Hd0]; [apply pw_0|].
  assert (0 < d) by lra. rewrite pw_pos by apply exp_pos.
  rewrite Rpower_mult. replace (q * (1 / q)) with 1 by (field; lra). apply Rpower_1. assumption.
Qed.

Lemma map_unroot_pow q : 0 < q -> forall ds, Forall (fun d => 0 <= d) ds -> map (unroot q) (map (fun d => pw d q) ds) = ds.
Proof.
  intros Hq. induction ds as [|d ds IH]; intros H; [reflexivity|]. inversion H as [|? ? Hd Hds]; subst.
  cbn [map]. rewrite unroot_pow by assumption. rewrite IH by exact Hds. reflexivity.
Qed.

(* the stored bandwidth is base * median of the pairwise distances (the statement of C19), whenever that median is not below eps *)
Theorem adapt_bandwidth_is_base_times_median base q eps med ds : 0 < q -> Forall (fun d => 0 <= d) ds -> eps <= med ds ->
  adapt_bandwidth base q eps med (map (fun d => pw d q) ds) = base * med ds.
Proof.
  intros Hq Hds Hm. unfold adapt_bandwidth, adapt_multiplier. cbv zeta. rewrite map_unroot_pow by assumption.
  destruct (Rlt_dec (med ds) eps) as [H|_]; [lra|reflexivity].
Qed.

(* degenerate data (all points coincide): the multiplier falls back to 1 *)
Theorem adapt_bandwidth_degenerate base q eps med ds : 0 < q -> Forall (fun d => 0 <= d) ds -> med ds < eps ->
  adapt_bandwidth base q eps med (map (fun d => pw d q) ds) = base.
Proof.
  intros Hq Hds Hm. unfold adapt_bandwidth, adapt_multiplier. cbv zeta. rewrite map_unroot_pow by assumption.
  destruct (Rlt_dec (med ds) eps) as [_|H]; [ring|lra].
Qed.

(* homogeneity: rescaling all inputs by c > 0 multiplies every distance, hence the stored bandwidth, by c *)
Theorem adapt_bandwidth_homogeneous base q eps med c ds : 0 < q -> 0 < c -> Forall (fun d => 0 <= d) ds ->
  med (map (Rmult c) ds) = c * med ds ->                       (* the order statistic commutes with a positive scaling (Bandwidth.lower_median_homogeneous) *)
  eps <= med ds -> eps <= c * med ds ->
  adapt_bandwidth base q eps med (map (fun d => pw d q) (map (Rmult c) ds)) = c * adapt_bandwidth base q eps med (map (fun d => pw d q) ds).
Proof.
  intros Hq Hc Hds Hmed H1 H2.
  rewrite (adapt_bandwidth_is_base_times_median base q eps med ds) by assumption.
  rewrite (adapt_bandwidth_is_base_times_median base q eps med (map (Rmult c) ds)); [rewrite Hmed; ring|exact Hq| |rewrite Hmed; exact H2].
  apply Forall_forall. intros y Hy. apply in_map_iff in Hy. destruct Hy as [d [<- Hd]]. rewrite Forall_forall in Hds. specialize (Hds d Hd). nra.
Qed.

Example adapt_example : adapt_bandwidth 10 2 (1 / 1000) (fun l => nth 1 l 0) (map (fun d => pw d 2) [1; 3; 4]) = 10 * 3.
Proof.
  apply (adapt_bandwidth_is_base_times_median 10 2 (1 / 1000) (fun l => nth 1 l 0) [1; 3; 4]); [lra| |cbn; lra].
  repeat constructor; lra.
Qed.
