(* C12, the far-row clause END TO END at model level, over the reals:

     "in 'prevalence' mode rows far from all training data equal the training class frequencies
      (up to the 1e-3 clamping of probabilities)".

   Two halves existed in different number systems and were not composed:
     * Proofs/FarRows.v (over Q): a raw numerical prediction whose entries are bounded by delta decodes, after clamp to
       [eps, 1-eps] and renormalisation, within 2 (K-1) B delta / eps of the decoded zero prediction;
     * Real/FarDecay.v (over R): the raw prediction of a Laplace-type kernel model is bounded by eps' at every query whose
       kernel distance to every centre is >= an explicit radius.
   This file
     1. ports the decoding pipeline (raw_prevalence, qclamp, normalise, probas_prevalence of Model/Labels.v) to R with the
        same shapes and order of operations, and re-proves the Lipschitz chain with THE SAME explicit constant
        C(K, B, eps) * delta = 2 * ((K-1) * B * delta) / eps          (probas_prevalenceR_near_zero_prediction);
     2. proves that the R pipeline is the image of the Q pipeline under Q2R, unconditionally (Leibniz equality of lists of
        reals; division by a zero sum included, since / 0 = 0 in both number systems)   (Q2R_probas_prevalence);
     3. composes with FarDecay: for every eta > 0 there is a radius r0 (explicit) such that EVERY query at kernel distance
        >= r0 from every centre has every class probability within eta of the decoded zero prediction
        (far_rows_probabilities_tend_to_the_decoded_prior, and the _lpq / _product versions);
     4. the decoded row is a distribution (far_rows_row_is_a_distribution);
     5. a concrete instance (K = 2, prior [1/4; 3/4], two centres) with the limit row exhibited.

   Hypotheses actually needed are fewer than in FarRows.v: no shape hypothesis on invA (vdotR truncates), no index range
   (out-of-range entries are 0 on both sides), and 0 <= delta, 0 <= B follow from the bounds (nth overflows to 0).
   Nothing is assumed about the kernel beyond what FarDecay needs (0 < L, 0 < q; nothing at all for the product kernel). *)
From Coq Require Import Reals List Lra Lia QArith Qreals.
Require Import XV.Real.Kernels XV.Real.Grads XV.Real.FarDecay.
Require Import XV.Model.Tree XV.Model.Soft XV.Model.Labels.
Import ListNotations.
Local Open Scope R_scope.

(* ---------------------------------------------------------------------------------------------------------------- *)
(* 1a. the decoding pipeline over R (mirror of Model/Labels.v)                                                       *)
(* ---------------------------------------------------------------------------------------------------------------- *)
(* torch.clamp; same order of tests as qclamp *)
Definition clampR (lo hi x : R) : R := if Rle_dec x lo then lo else if Rle_dec hi x then hi else x.

Definition normaliseR (v : list R) : list R := let s := rsumR v in map (fun x => x / s) v.

(* pi = [num, 1] @ invA^T, invA given by rows; vdotR (Real/Kernels.v) is the R twin of Model/Tree.v's dot *)
Definition raw_prevalenceR (invA : list (list R)) (num : list R) : list R :=
  map (fun row => vdotR (num ++ [1]) row) invA.

Definition probas_prevalenceR (eps : R) (invA : list (list R)) (num : list R) : list R :=
  normaliseR (map (clampR eps (1 - eps)) (raw_prevalenceR invA num)).

(* ---------------------------------------------------------------------------------------------------------------- *)
(* helpers                                                                                                           *)
(* ---------------------------------------------------------------------------------------------------------------- *)
Ltac rabs_lra :=
  unfold Rabs in *;
  repeat match goal with
         | |- context [Rcase_abs ?x] => destruct (Rcase_abs x)
         | H : context [Rcase_abs ?x] |- _ => destruct (Rcase_abs x)
         end; lra.

Lemma rsumR_cons x l : rsumR (x :: l) = x + rsumR l.
Proof. reflexivity. Qed.

Lemma nth_map_lt {A B} (f : A -> B) (d : A) (d' : B) j l : (j < length l)%nat -> nth j (map f l) d' = f (nth j l d).
Proof. intros H. rewrite (nth_indep _ d' (f d)) by (rewrite map_length; exact H). apply map_nth. Qed.

Lemma nth_repeat0R (n : nat) : forall j, nth j (repeat 0 n) 0 = 0.
Proof. induction n as [|n IH]; intros [|j]; cbn [repeat nth]; try reflexivity. apply IH. Qed.

Lemma nth_in_ForallR {P : R -> Prop} (l : list R) (i : nat) : Forall P l -> (i < length l)%nat -> P (nth i l 0).
Proof. intros H Hi. rewrite Forall_forall in H. apply H. apply nth_In. exact Hi. Qed.

Lemma INR_len_ge1 {A} (v : list A) : v <> [] -> 1 <= INR (length v).
Proof.
  destruct v as [|a v']; [contradiction|]. intros _. cbn [length]. rewrite S_INR. pose proof (pos_INR (length v')). lra.
Qed.

Lemma Rdiv_le_compat (a a' b b' : R) : 0 <= a -> a <= a' -> 0 < b' -> b' <= b -> a / b <= a' / b'.
Proof.
  intros Ha Haa Hb' Hbb. unfold Rdiv.
  assert (Hb : 0 < b) by lra.
  assert (Hi : / b <= / b') by (apply Rinv_le_contravar; assumption).
  assert (Hib : 0 < / b) by (apply Rinv_0_lt_compat; exact Hb).
  apply Rmult_le_compat; lra.
Qed.

(* ---------------------------------------------------------------------------------------------------------------- *)
(* 1b. the dot product                                                                                               *)
(* ---------------------------------------------------------------------------------------------------------------- *)
Lemma vdotR_app1 (num : list R) : forall row, vdotR (num ++ [1]) row = vdotR num row + nth (length num) row 0.
Proof.
  induction num as [|a num IH]; intros [|b row]; cbn [app vdotR length nth]; try ring.
  rewrite (IH row). ring.
Qed.

Lemma vdotR_repeat0 (k : nat) : forall row, vdotR (repeat 0 k) row = 0.
Proof.
  induction k as [|k IH]; intros [|b row]; cbn [repeat vdotR]; try reflexivity. rewrite (IH row). ring.
Qed.

(* Hoelder (l_inf, l_1) bound, the l_1 norm of the row bounded by (number of entries) * (max entry) *)
Lemma vdotR_abs_bound (delta B : R) : 0 <= delta -> 0 <= B ->
  forall num row, (forall j, Rabs (nth j num 0) <= delta) -> (forall j, Rabs (nth j row 0) <= B) ->
  Rabs (vdotR num row) <= INR (length num) * B * delta.
Proof.
  intros Hd HB. induction num as [|a num IH]; intros row Hn Hr.
  - cbn [vdotR length INR]. rewrite Rabs_R0. lra.
  - assert (Hnn : 0 <= INR (length num) * B * delta).
    { apply Rmult_le_pos; [apply Rmult_le_pos; [apply pos_INR|exact HB]|exact Hd]. }
    assert (HBd : 0 <= B * delta) by (apply Rmult_le_pos; assumption).
    destruct row as [|b row].
    + cbn [vdotR]. cbn [length]. rewrite S_INR, Rabs_R0. lra.
    + cbn [vdotR length]. rewrite S_INR.
      assert (Ha : Rabs a <= delta) by (apply (Hn O)).
      assert (Hb : Rabs b <= B) by (apply (Hr O)).
      assert (IH' : Rabs (vdotR num row) <= INR (length num) * B * delta).
      { apply IH; [intros j; apply (Hn (S j))|intros j; apply (Hr (S j))]. }
      assert (Hab : Rabs (a * b) <= B * delta).
      { rewrite Rabs_mult. pose proof (Rabs_pos a). pose proof (Rabs_pos b). nra. }
      eapply Rle_trans; [apply Rabs_triang|]. lra.
Qed.

(* ---------------------------------------------------------------------------------------------------------------- *)
(* 1c. the unclamped decoder: affine, zero decodes to the last column, Lipschitz                                     *)
(* ---------------------------------------------------------------------------------------------------------------- *)
Lemma nth_raw_prevalenceR (invA : list (list R)) (num : list R) (i : nat) : (i < length invA)%nat ->
  nth i (raw_prevalenceR invA num) 0 = vdotR (num ++ [1]) (nth i invA []).
Proof. intros Hi. unfold raw_prevalenceR. apply (nth_map_lt _ [] 0 i invA Hi). Qed.

Lemma raw_prevalenceR_length invA num : length (raw_prevalenceR invA num) = length invA.
Proof. unfold raw_prevalenceR. apply map_length. Qed.

Theorem raw_prevalenceR_affine : forall invA num i, (i < length invA)%nat ->
  nth i (raw_prevalenceR invA num) 0 = vdotR num (nth i invA []) + nth (length num) (nth i invA []) 0.
Proof. intros invA num i Hi. rewrite (nth_raw_prevalenceR invA num i Hi). apply vdotR_app1. Qed.

(* the zero raw prediction decodes to the last column of invA: the prior (training class frequencies) *)
Theorem raw_prevalenceR_zero : forall invA k i, (i < length invA)%nat ->
  nth i (raw_prevalenceR invA (repeat 0 k)) 0 = nth k (nth i invA []) 0.
Proof.
  intros invA k i Hi. rewrite (nth_raw_prevalenceR invA _ i Hi), vdotR_app1, vdotR_repeat0, repeat_length. ring.
Qed.

Theorem raw_prevalenceR_near_prior : forall invA num delta B,
  (forall j, Rabs (nth j num 0) <= delta) ->
  (forall i j, Rabs (nth j (nth i invA []) 0) <= B) ->
  0 <= delta -> 0 <= B ->
  forall i, (i < length invA)%nat ->
  Rabs (nth i (raw_prevalenceR invA num) 0 - nth (length num) (nth i invA []) 0) <= INR (length num) * B * delta.
Proof.
  intros invA num delta B Hn HA Hd HB i Hi.
  rewrite (raw_prevalenceR_affine invA num i Hi).
  replace (vdotR num (nth i invA []) + nth (length num) (nth i invA []) 0 - nth (length num) (nth i invA []) 0)
    with (vdotR num (nth i invA [])) by ring.
  apply vdotR_abs_bound; [exact Hd|exact HB|exact Hn|exact (HA i)].
Qed.

(* ---------------------------------------------------------------------------------------------------------------- *)
(* 1d. torch.clamp is 1-Lipschitz                                                                                    *)
(* ---------------------------------------------------------------------------------------------------------------- *)
Theorem clampR_lipschitz : forall lo hi x y, lo <= hi -> Rabs (clampR lo hi x - clampR lo hi y) <= Rabs (x - y).
Proof.
  intros lo hi x y H. unfold clampR.
  destruct (Rle_dec x lo); destruct (Rle_dec y lo); destruct (Rle_dec hi x); destruct (Rle_dec hi y); rabs_lra.
Qed.

Lemma clampR_bounds lo hi x : lo <= hi -> lo <= clampR lo hi x <= hi.
Proof. intros H. unfold clampR. destruct (Rle_dec x lo); [lra|]. destruct (Rle_dec hi x); lra. Qed.

Lemma clampR_id lo hi x : lo <= x <= hi -> clampR lo hi x = x.
Proof. intros H. unfold clampR. destruct (Rle_dec x lo); [lra|]. destruct (Rle_dec hi x); lra. Qed.

Lemma nth_map_clampR lo hi v j : (j < length v)%nat -> nth j (map (clampR lo hi) v) 0 = clampR lo hi (nth j v 0).
Proof. intros H. apply (nth_map_lt _ 0 0 j v H). Qed.

Lemma clampR_Forall_bounds eps l : eps <= 1 - eps -> Forall (fun x => eps <= x <= 1 - eps) (map (clampR eps (1 - eps)) l).
Proof.
  intros H. apply Forall_forall. intros x Hx. apply in_map_iff in Hx. destruct Hx as [y [<- _]].
  apply clampR_bounds. exact H.
Qed.

Lemma clampR_Forall_ge eps l : eps <= 1 - eps -> Forall (fun x => eps <= x) (map (clampR eps (1 - eps)) l).
Proof. intros H. eapply Forall_impl; [|apply (clampR_Forall_bounds eps l H)]. cbv beta. intros; lra. Qed.

(* ---------------------------------------------------------------------------------------------------------------- *)
(* 1e. normalisation is Lipschitz on vectors bounded below by eps                                                    *)
(* ---------------------------------------------------------------------------------------------------------------- *)
Definition l1distR (u v : list R) : R := rsumR (map (fun p => Rabs (fst p - snd p)) (combine u v)).

Lemma l1distR_nonneg : forall u v, 0 <= l1distR u v.
Proof.
  intros u v. unfold l1distR. apply rsumR_nonneg. apply Forall_forall. intros x Hx.
  apply in_map_iff in Hx. destruct Hx as [p [<- _]]. apply Rabs_pos.
Qed.

Lemma rsumR_diff_abs : forall u v, length u = length v -> Rabs (rsumR u - rsumR v) <= l1distR u v.
Proof.
  unfold l1distR. induction u as [|x u IH]; intros [|y v] Hl; try discriminate.
  - cbn [combine map]. unfold rsumR. cbn [fold_right]. rewrite Rminus_diag_eq by reflexivity. rewrite Rabs_R0. lra.
  - cbn in Hl. injection Hl as Hl. specialize (IH v Hl). cbn [combine map fst snd]. rewrite !rsumR_cons.
    set (S := rsumR (map (fun p => Rabs (fst p - snd p)) (combine u v))) in *. clearbody S.
    set (su := rsumR u) in *. set (sv := rsumR v) in *. clearbody su sv. rabs_lra.
Qed.

Lemma l1distR_uniform (d : R) : forall u v, length u = length v ->
  (forall j, (j < length u)%nat -> Rabs (nth j u 0 - nth j v 0) <= d) ->
  l1distR u v <= INR (length u) * d.
Proof.
  unfold l1distR. induction u as [|x u IH]; intros [|y v] Hl Hd; try discriminate.
  - cbn [combine map length INR]. unfold rsumR. cbn [fold_right]. lra.
  - cbn in Hl. injection Hl as Hl. cbn [combine map fst snd length]. rewrite rsumR_cons, S_INR.
    assert (H0 : Rabs (x - y) <= d) by (apply (Hd O); cbn; lia).
    assert (IH' : rsumR (map (fun p => Rabs (fst p - snd p)) (combine u v)) <= INR (length u) * d).
    { apply IH; [exact Hl|]. intros j Hj. apply (Hd (S j)). cbn. lia. }
    lra.
Qed.

Lemma rsumR_ge_len (eps : R) (l : list R) : Forall (fun x => eps <= x) l -> INR (length l) * eps <= rsumR l.
Proof.
  induction 1 as [|x l Hx Hl IH].
  - cbn [length INR]. unfold rsumR. cbn [fold_right]. lra.
  - cbn [length]. rewrite rsumR_cons, S_INR. lra.
Qed.

Lemma rsumR_le_len (hi : R) (l : list R) : Forall (fun x => x <= hi) l -> rsumR l <= INR (length l) * hi.
Proof.
  induction 1 as [|x l Hx Hl IH].
  - cbn [length INR]. unfold rsumR. cbn [fold_right]. lra.
  - cbn [length]. rewrite rsumR_cons, S_INR. lra.
Qed.

Lemma rsumR_ge_in l x : Forall (fun y => 0 <= y) l -> In x l -> x <= rsumR l.
Proof.
  induction 1 as [|y l Hy Hl IH]; intros Hin; [destruct Hin|]. rewrite rsumR_cons. destruct Hin as [->|Hin].
  - pose proof (rsumR_nonneg l Hl). lra.
  - specialize (IH Hin). lra.
Qed.

Lemma nth_map_div (s : R) : forall l j, nth j (map (fun x => x / s) l) 0 = nth j l 0 / s.
Proof.
  induction l as [|x l IH]; intros [|j]; cbn [map nth]; try reflexivity; try (unfold Rdiv; ring). apply IH.
Qed.

Lemma nth_normaliseR v j : nth j (normaliseR v) 0 = nth j v 0 / rsumR v.
Proof. unfold normaliseR. cbv zeta. apply nth_map_div. Qed.

Lemma normaliseR_length v : length (normaliseR v) = length v.
Proof. unfold normaliseR. cbv zeta. apply map_length. Qed.

(* scalar core *)
Lemma ratio_diff_boundR (a b su sv S : R) :
  0 < su -> 0 < sv -> 0 <= b -> b <= sv -> Rabs (su - sv) <= S ->
  Rabs (a / su - b / sv) <= (Rabs (a - b) + S) / su.
Proof.
  intros Hsu Hsv Hb0 Hb HS.
  set (t := b / sv).
  assert (Hisv : 0 < / sv) by (apply Rinv_0_lt_compat; exact Hsv).
  assert (Hisu : 0 < / su) by (apply Rinv_0_lt_compat; exact Hsu).
  assert (Ht0 : 0 <= t) by (unfold t, Rdiv; apply Rmult_le_pos; lra).
  assert (Ht1 : t <= 1).
  { unfold t, Rdiv. apply Rmult_le_reg_r with sv; [exact Hsv|]. rewrite Rmult_assoc, Rinv_l by lra. lra. }
  assert (E : a / su - t = ((a - b) + t * (sv - su)) * / su) by (unfold t; field; lra).
  rewrite E, Rabs_mult, (Rabs_pos_eq (/ su)) by lra.
  unfold Rdiv. apply Rmult_le_compat_r; [lra|].
  eapply Rle_trans; [apply Rabs_triang|].
  assert (Hts : Rabs (t * (sv - su)) <= S).
  { rewrite Rabs_mult, (Rabs_pos_eq t) by exact Ht0.
    assert (Hs' : Rabs (sv - su) <= S) by (rewrite Rabs_minus_sym; exact HS).
    pose proof (Rabs_pos (sv - su)). nra. }
  lra.
Qed.

(* u, v of the same length K with entries >= eps > 0:
   | u_i / sum u - v_i / sum v |  <=  ( |u_i - v_i| + sum_j |u_j - v_j| ) / (K * eps)   -- as in FarRows.v *)
Theorem normaliseR_lipschitz : forall eps u v, 0 < eps -> length u = length v ->
  Forall (fun x => eps <= x) u -> Forall (fun x => eps <= x) v ->
  forall i, (i < length u)%nat ->
  Rabs (nth i (normaliseR u) 0 - nth i (normaliseR v) 0)
    <= (Rabs (nth i u 0 - nth i v 0) + l1distR u v) / (INR (length u) * eps).
Proof.
  intros eps u v He Hl Hu Hv i Hi. rewrite !nth_normaliseR.
  assert (Hne : u <> []) by (intros E; subst; cbn in Hi; lia).
  assert (HK : 1 <= INR (length u)) by (apply INR_len_ge1; exact Hne).
  pose proof (rsumR_ge_len eps u Hu) as Gu. pose proof (rsumR_ge_len eps v Hv) as Gv. rewrite <- Hl in Gv.
  assert (HKe : 0 < INR (length u) * eps) by (apply Rmult_lt_0_compat; lra).
  assert (Hsu : 0 < rsumR u) by lra. assert (Hsv : 0 < rsumR v) by lra.
  assert (Hv0 : Forall (fun x => 0 <= x) v) by (eapply Forall_impl; [|exact Hv]; cbv beta; intros; lra).
  assert (Hb0 : 0 <= nth i v 0).
  { apply (nth_in_ForallR (P := fun x => 0 <= x)); [exact Hv0|lia]. }
  assert (Hb : nth i v 0 <= rsumR v) by (apply rsumR_ge_in; [exact Hv0|apply nth_In; lia]).
  eapply Rle_trans; [apply (ratio_diff_boundR _ _ _ _ (l1distR u v) Hsu Hsv Hb0 Hb (rsumR_diff_abs u v Hl))|].
  apply Rdiv_le_compat; [|lra|exact HKe|exact Gu].
  pose proof (Rabs_pos (nth i u 0 - nth i v 0)). pose proof (l1distR_nonneg u v). lra.
Qed.

(* uniform version: if every entry moves by at most d, every normalised entry moves by at most 2 d / eps *)
Theorem normaliseR_lipschitz_uniform : forall eps d u v, 0 < eps -> length u = length v ->
  Forall (fun x => eps <= x) u -> Forall (fun x => eps <= x) v ->
  (forall j, (j < length u)%nat -> Rabs (nth j u 0 - nth j v 0) <= d) ->
  forall i, (i < length u)%nat ->
  Rabs (nth i (normaliseR u) 0 - nth i (normaliseR v) 0) <= 2 * d / eps.
Proof.
  intros eps d u v He Hl Hu Hv Hd i Hi.
  eapply Rle_trans; [apply (normaliseR_lipschitz eps u v He Hl Hu Hv i Hi)|].
  assert (Hne : u <> []) by (intros E; subst; cbn in Hi; lia).
  assert (HK : 1 <= INR (length u)) by (apply INR_len_ge1; exact Hne).
  pose proof (l1distR_uniform d u v Hl Hd) as H1. pose proof (Hd i Hi) as H2.
  assert (Hd0 : 0 <= d) by (eapply Rle_trans; [apply Rabs_pos|exact H2]).
  set (K := INR (length u)) in *. clearbody K.
  assert (HKe : 0 < K * eps) by (apply Rmult_lt_0_compat; lra).
  apply Rmult_le_reg_r with (K * eps); [exact HKe|].
  replace ((Rabs (nth i u 0 - nth i v 0) + l1distR u v) / (K * eps) * (K * eps))
    with (Rabs (nth i u 0 - nth i v 0) + l1distR u v) by (field; lra).
  replace (2 * d / eps * (K * eps)) with (2 * d * K) by (field; lra).
  nra.
Qed.

(* ---------------------------------------------------------------------------------------------------------------- *)
(* 1f. MAIN LEMMA of the decoding half                                                                               *)
(* ---------------------------------------------------------------------------------------------------------------- *)
(* the constant of FarRows.v: C(K, B, eps) * delta with K - 1 = length num *)
Definition decode_const (k : nat) (B eps : R) : R := 2 * (INR k * B) / eps.

Lemma decode_const_eq k B eps delta : eps <> 0 -> decode_const k B eps * delta = 2 * (INR k * B * delta) / eps.
Proof. intros H. unfold decode_const. field. exact H. Qed.

Lemma bounds_nonneg_num (num : list R) delta : (forall j, Rabs (nth j num 0) <= delta) -> 0 <= delta.
Proof. intros H. specialize (H (length num)). rewrite nth_overflow in H by lia. rewrite Rabs_R0 in H. exact H. Qed.

Lemma bounds_nonneg_mat (invA : list (list R)) B : (forall i j, Rabs (nth j (nth i invA []) 0) <= B) -> 0 <= B.
Proof.
  intros H. specialize (H (length invA) O). rewrite (nth_overflow invA) in H by lia. cbn [nth] in H.
  rewrite Rabs_R0 in H. exact H.
Qed.

(* For eps in (0, 1/2], any invA whose entries are bounded by B (K rows), any numerical prediction num (length K-1) whose
   entries are bounded by delta: EVERY entry of the decoded probability row is within
       2 * ((K-1) * B * delta) / eps   =   decode_const (K-1) B eps * delta
   of the corresponding entry of the row decoded from the zero prediction.  Same constant as
   FarRows.probas_prevalence_near_zero_prediction; no shape hypothesis, no index range, 0 <= delta and 0 <= B derived. *)
Theorem probas_prevalenceR_near_zero_prediction : forall eps invA num delta B,
  0 < eps <= 1 / 2 ->
  (forall j, Rabs (nth j num 0) <= delta) ->
  (forall i j, Rabs (nth j (nth i invA []) 0) <= B) ->
  forall i,
  Rabs (nth i (probas_prevalenceR eps invA num) 0 - nth i (probas_prevalenceR eps invA (repeat 0 (length num))) 0)
    <= 2 * (INR (length num) * B * delta) / eps.
Proof.
  intros eps invA num delta B [He Hh] Hn HA i.
  pose proof (bounds_nonneg_num num delta Hn) as Hd. pose proof (bounds_nonneg_mat invA B HA) as HB.
  assert (Hbnd : 0 <= 2 * (INR (length num) * B * delta) / eps).
  { unfold Rdiv. apply Rmult_le_pos; [|left; apply Rinv_0_lt_compat; exact He].
    apply Rmult_le_pos; [lra|]. apply Rmult_le_pos; [apply Rmult_le_pos; [apply pos_INR|exact HB]|exact Hd]. }
  unfold probas_prevalenceR.
  assert (Hc : eps <= 1 - eps) by lra.
  pose proof (raw_prevalenceR_length invA num) as L1.
  pose proof (raw_prevalenceR_length invA (repeat 0 (length num))) as L2.
  destruct (Nat.lt_ge_cases i (length invA)) as [Hi|Hi].
  - apply normaliseR_lipschitz_uniform.
    + exact He.
    + rewrite !map_length, L1, L2. reflexivity.
    + apply clampR_Forall_ge. exact Hc.
    + apply clampR_Forall_ge. exact Hc.
    + intros j Hj. rewrite map_length, L1 in Hj.
      rewrite !nth_map_clampR by (rewrite ?L1, ?L2; exact Hj).
      eapply Rle_trans; [apply clampR_lipschitz; exact Hc|].
      rewrite (raw_prevalenceR_zero invA (length num) j Hj).
      apply raw_prevalenceR_near_prior; assumption.
    + rewrite map_length, L1. exact Hi.
  - rewrite !nth_overflow by (rewrite normaliseR_length, map_length, ?L1, ?L2; exact Hi).
    rewrite Rminus_diag_eq by reflexivity. rewrite Rabs_R0. exact Hbnd.
Qed.

(* the same, with the constant factored out: |p_i(num) - p_i(0)| <= C(K-1, B, eps) * delta *)
Corollary probas_prevalenceR_near_zero_prediction_const : forall eps invA num delta B,
  0 < eps <= 1 / 2 ->
  (forall j, Rabs (nth j num 0) <= delta) ->
  (forall i j, Rabs (nth j (nth i invA []) 0) <= B) ->
  forall i,
  Rabs (nth i (probas_prevalenceR eps invA num) 0 - nth i (probas_prevalenceR eps invA (repeat 0 (length num))) 0)
    <= decode_const (length num) B eps * delta.
Proof.
  intros eps invA num delta B He Hn HA i. rewrite decode_const_eq by lra.
  apply probas_prevalenceR_near_zero_prediction; assumption.
Qed.

(* what the zero prediction decodes to: the clamped, renormalised last column of invA (the training class frequencies) *)
Definition prior_colR (k : nat) (invA : list (list R)) : list R := map (fun row => nth k row 0) invA.

Theorem probas_prevalenceR_zero_is_clamped_prior : forall eps invA k,
  probas_prevalenceR eps invA (repeat 0 k) = normaliseR (map (clampR eps (1 - eps)) (prior_colR k invA)).
Proof.
  intros eps invA k. unfold probas_prevalenceR. f_equal. f_equal. unfold raw_prevalenceR, prior_colR.
  apply map_ext. intros row. rewrite vdotR_app1, vdotR_repeat0, repeat_length. ring.
Qed.

(* ---------------------------------------------------------------------------------------------------------------- *)
(* 4. the decoded row is a probability distribution                                                                  *)
(* ---------------------------------------------------------------------------------------------------------------- *)
Lemma rsumR_map_div (s : R) : forall l, rsumR (map (fun x => x / s) l) = rsumR l / s.
Proof.
  induction l as [|x l IH]; cbn [map].
  - unfold rsumR. cbn [fold_right]. unfold Rdiv. ring.
  - rewrite !rsumR_cons, IH. unfold Rdiv. ring.
Qed.

(* port of LabelsProofs.clamped_normalised_is_distribution (eps = 1/2 allowed here) *)
Theorem clamped_normalisedR_is_distribution (eps : R) (v : list R) :
  0 < eps <= 1 / 2 -> v <> [] ->
  let p := normaliseR (map (clampR eps (1 - eps)) v) in
  length p = length v /\
  Forall (fun x => eps / (INR (length v) * (1 - eps)) <= x <= 1) p /\
  rsumR p = 1.
Proof.
  intros [He Hh] Hne. cbv zeta. unfold normaliseR. cbv zeta. set (c := map (clampR eps (1 - eps)) v).
  assert (Hc : eps <= 1 - eps) by lra.
  pose proof (clampR_Forall_bounds eps v Hc) as Hb. fold c in Hb.
  assert (Hlen : length c = length v) by apply map_length.
  assert (HK : 1 <= INR (length v)) by (apply INR_len_ge1; exact Hne).
  assert (Hlo : INR (length v) * eps <= rsumR c).
  { rewrite <- Hlen. apply rsumR_ge_len. eapply Forall_impl; [|exact Hb]. cbv beta. intros; lra. }
  assert (Hhi : rsumR c <= INR (length v) * (1 - eps)).
  { rewrite <- Hlen. apply rsumR_le_len. eapply Forall_impl; [|exact Hb]. cbv beta. intros; lra. }
  assert (Hs : 0 < rsumR c) by nra.
  assert (Hc0 : Forall (fun x => 0 <= x) c) by (eapply Forall_impl; [|exact Hb]; cbv beta; intros; lra).
  split; [rewrite map_length; exact Hlen|]. split.
  - apply Forall_forall. intros x Hx. apply in_map_iff in Hx. destruct Hx as [y [<- Hy]].
    pose proof (proj1 (Forall_forall _ c) Hb y Hy) as [Hy1 Hy2]. cbv beta in Hy1, Hy2.
    pose proof (rsumR_ge_in c y Hc0 Hy) as Hys.
    split.
    + apply Rdiv_le_compat; [lra|exact Hy1|exact Hs|exact Hhi].
    + apply Rmult_le_reg_r with (rsumR c); [exact Hs|]. unfold Rdiv. rewrite Rmult_assoc, Rinv_l by lra. lra.
  - rewrite rsumR_map_div. field. lra.
Qed.

(* every decoded row (in particular every far row) has K entries in [eps / (K (1 - eps)), 1] that sum to 1 *)
Theorem far_rows_row_is_a_distribution : forall eps invA num,
  0 < eps <= 1 / 2 -> invA <> [] ->
  let p := probas_prevalenceR eps invA num in
  length p = length invA /\
  Forall (fun x => eps / (INR (length invA) * (1 - eps)) <= x <= 1) p /\
  rsumR p = 1.
Proof.
  intros eps invA num He Hne. cbv zeta. unfold probas_prevalenceR.
  assert (Hr : raw_prevalenceR invA num <> []).
  { intros E. apply (f_equal (@length R)) in E. rewrite raw_prevalenceR_length in E. destruct invA; [contradiction|discriminate]. }
  pose proof (clamped_normalisedR_is_distribution eps (raw_prevalenceR invA num) He Hr) as H. cbv zeta in H.
  rewrite raw_prevalenceR_length in H. exact H.
Qed.

(* in particular every entry is strictly positive *)
Corollary far_rows_row_positive : forall eps invA num, 0 < eps <= 1 / 2 -> invA <> [] ->
  Forall (fun x => 0 < x) (probas_prevalenceR eps invA num).
Proof.
  intros eps invA num He Hne. destruct (far_rows_row_is_a_distribution eps invA num He Hne) as (_ & H & _).
  eapply Forall_impl; [|exact H]. cbv beta. intros x [Hx _].
  assert (HK : 1 <= INR (length invA)) by (apply INR_len_ge1; exact Hne).
  assert (0 < eps / (INR (length invA) * (1 - eps))).
  { unfold Rdiv. apply Rmult_lt_0_compat; [lra|]. apply Rinv_0_lt_compat. apply Rmult_lt_0_compat; lra. }
  lra.
Qed.

(* ---------------------------------------------------------------------------------------------------------------- *)
(* 2. the R pipeline is the image of the Q pipeline under Q2R (unconditional)                                        *)
(* ---------------------------------------------------------------------------------------------------------------- *)
Lemma Q2R_0' : Q2R 0%Q = 0.
Proof. unfold Q2R. cbn. lra. Qed.
Lemma Q2R_1' : Q2R 1%Q = 1.
Proof. unfold Q2R. cbn. lra. Qed.

Lemma Q2R_dot (x : list Q) : forall v, Q2R (dot x v) = vdotR (map Q2R x) (map Q2R v).
Proof.
  induction x as [|a x IH]; intros [|b v]; cbn [dot map vdotR]; try apply Q2R_0'.
  rewrite Q2R_plus, Q2R_mult, IH. reflexivity.
Qed.

Lemma Q2R_qsum (l : list Q) : Q2R (qsum l) = rsumR (map Q2R l).
Proof.
  induction l as [|a l IH]; cbn [qsum map]; [exact Q2R_0'|]. rewrite rsumR_cons, Q2R_plus, IH. reflexivity.
Qed.

Lemma Q2R_qclamp (lo hi x : Q) : Q2R (qclamp lo hi x) = clampR (Q2R lo) (Q2R hi) (Q2R x).
Proof.
  unfold qclamp, clampR.
  destruct (Qle_bool x lo) eqn:E1; destruct (Rle_dec (Q2R x) (Q2R lo)) as [R1|R1]; try reflexivity.
  - exfalso. apply R1. apply Qle_Rle. apply Qle_bool_iff. exact E1.
  - exfalso. apply Rle_Qle in R1. apply Qle_bool_iff in R1. congruence.
  - destruct (Qle_bool hi x) eqn:E2; destruct (Rle_dec (Q2R hi) (Q2R x)) as [R2|R2]; try reflexivity.
    + exfalso. apply R2. apply Qle_Rle. apply Qle_bool_iff. exact E2.
    + exfalso. apply Rle_Qle in R2. apply Qle_bool_iff in R2. congruence.
Qed.

(* total division: x / 0 = 0 in Q (Qinv 0 = 0) and in R (Rinv_0) *)
Lemma Q2R_div_total (x y : Q) : Q2R (x / y) = Q2R x / Q2R y.
Proof.
  destruct (Qeq_dec y 0) as [E|E].
  - assert (Ey : Q2R y = 0) by (rewrite (Qeq_eqR _ _ E); exact Q2R_0').
    assert (Ed : (x / y == 0)%Q).
    { unfold Qdiv. destruct y as [n d]. unfold Qeq in E. cbn in E. rewrite Z.mul_1_r in E. subst n. cbn. ring. }
    rewrite (Qeq_eqR _ _ Ed), Ey, Q2R_0'. unfold Rdiv. rewrite Rinv_0. ring.
  - apply Q2R_div. exact E.
Qed.

Lemma Q2R_normalise (v : list Q) : map Q2R (normalise v) = normaliseR (map Q2R v).
Proof.
  unfold normalise, normaliseR. cbv zeta. rewrite !map_map, <- Q2R_qsum. apply map_ext. intros x. apply Q2R_div_total.
Qed.

Lemma Q2R_raw_prevalence (invA : list (list Q)) (num : list Q) :
  map Q2R (raw_prevalence invA num) = raw_prevalenceR (map (map Q2R) invA) (map Q2R num).
Proof.
  unfold raw_prevalence, raw_prevalenceR. rewrite !map_map. apply map_ext. intros row.
  rewrite Q2R_dot, map_app. cbn [map]. rewrite Q2R_1'. reflexivity.
Qed.

Theorem Q2R_probas_prevalence (eps : Q) (invA : list (list Q)) (num : list Q) :
  map Q2R (probas_prevalence eps invA num) = probas_prevalenceR (Q2R eps) (map (map Q2R) invA) (map Q2R num).
Proof.
  unfold probas_prevalence, probas_prevalenceR.
  rewrite Q2R_normalise. f_equal. rewrite <- Q2R_raw_prevalence, !map_map. apply map_ext. intros x.
  rewrite Q2R_qclamp, Q2R_minus, Q2R_1'. reflexivity.
Qed.

(* ---------------------------------------------------------------------------------------------------------------- *)
(* 3. composition with the kernel half                                                                               *)
(* ---------------------------------------------------------------------------------------------------------------- *)
(* any kernel: if all K-1 raw outputs at z are bounded by eps', the decoded row is within C * eps' of the decoded zero
   prediction *)
Lemma decode_of_small_outputs (k : list R -> list R -> R) eps invA B xs (A : list (list R)) z eps' :
  0 < eps <= 1 / 2 ->
  (forall i j, Rabs (nth j (nth i invA []) 0) <= B) ->
  0 <= eps' ->
  Forall (fun cs => Rabs (fpred k xs cs z) <= eps') A ->
  forall i,
  Rabs (nth i (probas_prevalenceR eps invA (map (fun cs => fpred k xs cs z) A)) 0
        - nth i (probas_prevalenceR eps invA (repeat 0 (length A))) 0)
    <= 2 * (INR (length A) * B * eps') / eps.
Proof.
  intros He HA He' HF i.
  pose proof (probas_prevalenceR_near_zero_prediction eps invA (map (fun cs => fpred k xs cs z) A) eps' B He) as H.
  rewrite map_length in H. apply H; [|exact HA].
  intros j. destruct (Nat.lt_ge_cases j (length A)) as [Hj|Hj].
  - rewrite (nth_map_lt (fun cs => fpred k xs cs z) [] 0 j A Hj).
    rewrite Forall_forall in HF. apply HF. apply nth_In. exact Hj.
  - rewrite nth_overflow by (rewrite map_length; exact Hj). rewrite Rabs_R0. exact He'.
Qed.

(* the tolerance on the raw outputs that yields tolerance eta on the probabilities: no case split on (K-1) B = 0 *)
Definition raw_tol (k : nat) (B eps eta : R) : R := eta * eps / (2 * (INR k * B) + 1).

Lemma raw_tol_pos k B eps eta : 0 <= B -> 0 < eps -> 0 < eta -> 0 < raw_tol k B eps eta.
Proof.
  intros HB He Hn. unfold raw_tol, Rdiv.
  assert (0 <= INR k * B) by (apply Rmult_le_pos; [apply pos_INR|exact HB]).
  apply Rmult_lt_0_compat; [apply Rmult_lt_0_compat; assumption|apply Rinv_0_lt_compat; lra].
Qed.

Lemma raw_tol_spec k B eps eta : 0 <= B -> 0 < eps -> 0 < eta ->
  2 * (INR k * B * raw_tol k B eps eta) / eps <= eta.
Proof.
  intros HB He Hn. unfold raw_tol.
  assert (H0 : 0 <= INR k * B) by (apply Rmult_le_pos; [apply pos_INR|exact HB]).
  set (m := INR k * B) in *. clearbody m.
  replace (2 * (m * (eta * eps / (2 * m + 1))) / eps) with (eta * ((2 * m) / (2 * m + 1))) by (field; lra).
  assert (2 * m / (2 * m + 1) <= 1).
  { apply Rmult_le_reg_r with (2 * m + 1); [lra|]. unfold Rdiv. rewrite Rmult_assoc, Rinv_l by lra. lra. }
  nra.
Qed.

(* outputs version of a single-output expansion bound: one factor E for all columns *)
Lemma outputs_from_expansion_bound (k : list R -> list R -> R) xs (A : list (list R)) z E eps' :
  0 <= E ->
  (forall cs, Rabs (fpred k xs cs z) <= abs_sum cs * E) ->
  abs_sum_all A * E <= eps' ->
  Forall (fun cs => Rabs (fpred k xs cs z) <= eps') A.
Proof.
  intros HE Hb HS. eapply Forall_impl; [|apply abs_sum_le_all]. intros cs Hcs. cbv beta in Hcs.
  eapply Rle_trans; [apply Hb|]. eapply Rle_trans; [|exact HS]. apply Rmult_le_compat_r; assumption.
Qed.

(* ---- L2 Laplace leaf predictor ---- *)
(* explicit radius: r0 = far_radius L q (total |coefficient| mass) (eta eps / (2 (K-1) B + 1)) *)
Definition far_rows_radius (L q : R) (A : list (list R)) (B eps eta : R) : R :=
  far_radius L q (abs_sum_all A) (raw_tol (length A) B eps eta).

Theorem far_rows_probabilities_tend_to_the_decoded_prior_explicit t L q xs (A : list (list R)) invA B eps eta :
  0 < L -> 0 < q -> 0 < eps <= 1 / 2 ->
  (forall i j, Rabs (nth j (nth i invA []) 0) <= B) ->
  0 < eta ->
  0 <= far_rows_radius L q A B eps eta /\
  forall z, Forall (fun x => far_rows_radius L q A B eps eta <= norm2 (transform t (vsubR x z))) xs ->
  forall i,
  Rabs (nth i (probas_prevalenceR eps invA (map (fun cs => fpred (closed_l2 t L q) xs cs z) A)) 0
        - nth i (probas_prevalenceR eps invA (repeat 0 (length A))) 0) <= eta.
Proof.
  intros HL Hq He HA Hn. pose proof (bounds_nonneg_mat invA B HA) as HB.
  pose proof (raw_tol_pos (length A) B eps eta HB (proj1 He) Hn) as Ht.
  unfold far_rows_radius. set (e' := raw_tol (length A) B eps eta) in *.
  split; [apply far_radius_nonneg; exact HL|].
  intros z Hz i.
  eapply Rle_trans; [|apply (raw_tol_spec (length A) B eps eta HB (proj1 He) Hn)]. fold e'.
  apply decode_of_small_outputs; [exact He|exact HA|lra|].
  apply (outputs_from_expansion_bound _ xs A z (exp (- pw (far_radius L q (abs_sum_all A) e' / L) q))).
  - left. apply exp_pos.
  - intros cs. apply kernel_expansion_bound_l2; [exact HL|exact Hq|apply far_radius_nonneg; exact HL|exact Hz].
  - apply far_radius_spec; [exact HL|exact Hq|exact Ht|apply abs_sum_all_nonneg].
Qed.

(* THE END-TO-END THEOREM *)
Theorem far_rows_probabilities_tend_to_the_decoded_prior t L q xs (A : list (list R)) invA B eps :
  0 < L -> 0 < q -> 0 < eps <= 1 / 2 ->
  (forall i j, Rabs (nth j (nth i invA []) 0) <= B) ->
  forall eta, 0 < eta ->
  exists r0, 0 <= r0 /\
    forall z, Forall (fun x => r0 <= norm2 (transform t (vsubR x z))) xs ->
    forall i,
    Rabs (nth i (probas_prevalenceR eps invA (map (fun cs => fpred (closed_l2 t L q) xs cs z) A)) 0
          - nth i (probas_prevalenceR eps invA (repeat 0 (length A))) 0) <= eta.
Proof.
  intros HL Hq He HA eta Hn. exists (far_rows_radius L q A B eps eta).
  apply far_rows_probabilities_tend_to_the_decoded_prior_explicit; assumption.
Qed.

(* the same with the limit row written out: the clamped, renormalised last column of invA (the class frequencies) *)
Corollary far_rows_probabilities_tend_to_the_clamped_prior t L q xs (A : list (list R)) invA B eps :
  0 < L -> 0 < q -> 0 < eps <= 1 / 2 ->
  (forall i j, Rabs (nth j (nth i invA []) 0) <= B) ->
  forall eta, 0 < eta ->
  exists r0, 0 <= r0 /\
    forall z, Forall (fun x => r0 <= norm2 (transform t (vsubR x z))) xs ->
    forall i,
    Rabs (nth i (probas_prevalenceR eps invA (map (fun cs => fpred (closed_l2 t L q) xs cs z) A)) 0
          - nth i (normaliseR (map (clampR eps (1 - eps)) (prior_colR (length A) invA))) 0) <= eta.
Proof.
  intros HL Hq He HA eta Hn. rewrite <- probas_prevalenceR_zero_is_clamped_prior.
  apply (far_rows_probabilities_tend_to_the_decoded_prior t L q xs A invA B eps); assumption.
Qed.

(* ---- Lpq Laplace leaf predictor: same radius, in the p-norm ---- *)
Theorem far_rows_probabilities_tend_to_the_decoded_prior_lpq t L p q xs (A : list (list R)) invA B eps :
  0 < L -> 0 < q -> 0 < eps <= 1 / 2 ->
  (forall i j, Rabs (nth j (nth i invA []) 0) <= B) ->
  forall eta, 0 < eta ->
  exists r0, 0 <= r0 /\
    forall z, Forall (fun x => r0 <= normp p (transform t (vsubR x z))) xs ->
    forall i,
    Rabs (nth i (probas_prevalenceR eps invA (map (fun cs => fpred (closed_lpq t L p q) xs cs z) A)) 0
          - nth i (probas_prevalenceR eps invA (repeat 0 (length A))) 0) <= eta.
Proof.
  intros HL Hq He HA eta Hn. pose proof (bounds_nonneg_mat invA B HA) as HB.
  pose proof (raw_tol_pos (length A) B eps eta HB (proj1 He) Hn) as Ht.
  exists (far_rows_radius L q A B eps eta).
  unfold far_rows_radius. set (e' := raw_tol (length A) B eps eta) in *.
  split; [apply far_radius_nonneg; exact HL|].
  intros z Hz i.
  eapply Rle_trans; [|apply (raw_tol_spec (length A) B eps eta HB (proj1 He) Hn)]. fold e'.
  apply decode_of_small_outputs; [exact He|exact HA|lra|].
  apply (outputs_from_expansion_bound _ xs A z (exp (- pw (far_radius L q (abs_sum_all A) e' / L) q))).
  - left. apply exp_pos.
  - intros cs. apply kernel_expansion_bound_lpq; [exact HL|exact Hq|apply far_radius_nonneg; exact HL|exact Hz].
  - apply far_radius_spec; [exact HL|exact Hq|exact Ht|apply abs_sum_all_nonneg].
Qed.

(* ---- product Laplace leaf predictor: in ITS distance sum_j |u_j|^q; no hypothesis on L or q at all ---- *)
Theorem far_rows_probabilities_tend_to_the_decoded_prior_product t L q xs (A : list (list R)) invA B eps :
  0 < eps <= 1 / 2 ->
  (forall i j, Rabs (nth j (nth i invA []) 0) <= B) ->
  forall eta, 0 < eta ->
  exists r0, 0 <= r0 /\
    forall z, Forall (fun x => r0 <= sum_abs_pow q (transform t (vsubR x z))) xs ->
    forall i,
    Rabs (nth i (probas_prevalenceR eps invA (map (fun cs => fpred (closed_product t L q) xs cs z) A)) 0
          - nth i (probas_prevalenceR eps invA (repeat 0 (length A))) 0) <= eta.
Proof.
  intros He HA eta Hn. pose proof (bounds_nonneg_mat invA B HA) as HB.
  pose proof (raw_tol_pos (length A) B eps eta HB (proj1 He) Hn) as Ht.
  set (e' := raw_tol (length A) B eps eta) in *.
  pose proof (abs_sum_all_nonneg A) as HS. set (S := abs_sum_all A) in *.
  pose proof (exp_pos (q * ln L)) as HLq. fold (Rpower L q) in HLq.
  assert (Hfin : forall r0 z, S * exp (- r0 / Rpower L q) <= e' ->
            Forall (fun x => r0 <= sum_abs_pow q (transform t (vsubR x z))) xs ->
            forall i,
            Rabs (nth i (probas_prevalenceR eps invA (map (fun cs => fpred (closed_product t L q) xs cs z) A)) 0
                  - nth i (probas_prevalenceR eps invA (repeat 0 (length A))) 0) <= eta).
  { intros r0 z Hr Hz i.
    eapply Rle_trans; [|apply (raw_tol_spec (length A) B eps eta HB (proj1 He) Hn)]. fold e'.
    apply decode_of_small_outputs; [exact He|exact HA|lra|].
    apply (outputs_from_expansion_bound _ xs A z (exp (- r0 / Rpower L q))).
    - left. apply exp_pos.
    - intros cs. apply kernel_expansion_bound_product. exact Hz.
    - exact Hr. }
  destruct (Rlt_dec e' S) as [Hlt|Hge].
  - assert (Hr : 1 < S / e').
    { apply Rmult_lt_reg_r with e'; [exact Ht|]. unfold Rdiv. rewrite Rmult_assoc, Rinv_l by lra. lra. }
    assert (Hln : 0 < ln (S / e')) by (rewrite <- ln_1; apply ln_increasing; lra).
    exists (Rpower L q * ln (S / e')). split; [nra|].
    intros z Hz. apply (Hfin (Rpower L q * ln (S / e')) z); [|exact Hz].
    replace (- (Rpower L q * ln (S / e')) / Rpower L q) with (- ln (S / e')) by (field; lra).
    rewrite exp_Ropp, exp_ln by lra. right. field. lra.
  - exists 0. split; [lra|]. intros z Hz. apply (Hfin 0 z); [|exact Hz].
    replace (- 0 / Rpower L q) with 0 by (unfold Rdiv; ring). rewrite exp_0. lra.
Qed.

(* far rows are valid distributions AND near the decoded prior, in one statement (L2 Laplace) *)
Theorem far_rows_are_distributions_near_the_decoded_prior t L q xs (A : list (list R)) invA B eps :
  0 < L -> 0 < q -> 0 < eps <= 1 / 2 -> invA <> [] ->
  (forall i j, Rabs (nth j (nth i invA []) 0) <= B) ->
  forall eta, 0 < eta ->
  exists r0, 0 <= r0 /\
    forall z, Forall (fun x => r0 <= norm2 (transform t (vsubR x z))) xs ->
    let p := probas_prevalenceR eps invA (map (fun cs => fpred (closed_l2 t L q) xs cs z) A) in
    length p = length invA /\
    Forall (fun x => eps / (INR (length invA) * (1 - eps)) <= x <= 1) p /\
    rsumR p = 1 /\
    forall i, Rabs (nth i p 0 - nth i (probas_prevalenceR eps invA (repeat 0 (length A))) 0) <= eta.
Proof.
  intros HL Hq He Hne HA eta Hn.
  destruct (far_rows_probabilities_tend_to_the_decoded_prior t L q xs A invA B eps HL Hq He HA eta Hn) as [r0 [Hr0 H]].
  exists r0. split; [exact Hr0|]. intros z Hz. cbv zeta.
  destruct (far_rows_row_is_a_distribution eps invA (map (fun cs => fpred (closed_l2 t L q) xs cs z) A) He Hne)
    as (D1 & D2 & D3).
  repeat split; try assumption. apply H. exact Hz.
Qed.

(* ---------------------------------------------------------------------------------------------------------------- *)
(* 5. non-vacuity: K = 2 classes with training frequencies [1/4; 3/4], two centres in R^2, one coefficient column    *)
(* ---------------------------------------------------------------------------------------------------------------- *)
(* invA by rows; last column = the prior (1/4, 3/4).  (The theorems hold for any decoder matrix.) *)
Definition exInvAR : list (list R) := [ [ 1 / 2; 1 / 4]; [- 1 / 2; 3 / 4] ].
Definition exXs : list (list R) := [[0; 0]; [1; 0]].
Definition exA : list (list R) := [[2; -3]].

Lemma exInvAR_bound : forall i j, Rabs (nth j (nth i exInvAR []) 0) <= 3 / 4.
Proof.
  intros i j. destruct i as [|[|i]].
  - destruct j as [|[|[|j]]]; cbn [exInvAR nth]; rabs_lra.
  - destruct j as [|[|[|j]]]; cbn [exInvAR nth]; rabs_lra.
  - replace (nth (S (S i)) exInvAR []) with (@nil R) by (destruct i; reflexivity).
    destruct j; cbn [nth]; rabs_lra.
Qed.

(* the limit row: the zero prediction decodes to the class frequencies themselves (no clamping active at eps = 1e-3) *)
Example ex_limit_row : probas_prevalenceR (1 / 1000) exInvAR (repeat 0 (length exA)) = [1 / 4; 3 / 4].
Proof.
  unfold probas_prevalenceR, raw_prevalenceR, exInvAR, exA. cbn [length repeat app map vdotR].
  replace (0 * (1 / 2) + (1 * (1 / 4) + 0)) with (1 / 4) by field.
  replace (0 * (- 1 / 2) + (1 * (3 / 4) + 0)) with (3 / 4) by field.
  rewrite !clampR_id by lra.
  unfold normaliseR, rsumR. cbn [fold_right map]. f_equal; [field|]. f_equal. field.
Qed.

(* instance of the end-to-end theorem with the limit row exhibited *)
Example far_rows_example : forall eta, 0 < eta ->
  exists r0, 0 <= r0 /\
    forall z, Forall (fun x => r0 <= norm2 (transform TNone (vsubR x z))) exXs ->
    forall i,
    Rabs (nth i (probas_prevalenceR (1 / 1000) exInvAR (map (fun cs => fpred (closed_l2 TNone 1 1) exXs cs z) exA)) 0
          - nth i [1 / 4; 3 / 4] 0) <= eta.
Proof.
  intros eta Hn. rewrite <- ex_limit_row.
  apply (far_rows_probabilities_tend_to_the_decoded_prior TNone 1 1 exXs exA exInvAR (3 / 4) (1 / 1000)); try lra.
  exact exInvAR_bound.
Qed.

(* a concrete far query: z = (40, 0) is at distance 40 and 39 from the two centres; both class probabilities are within
   7500 e^-20 (about 1.5e-5) of (1/4, 3/4) *)
Example far_rows_example_concrete : forall i,
  Rabs (nth i (probas_prevalenceR (1 / 1000) exInvAR (map (fun cs => fpred (closed_l2 TNone 1 1) exXs cs [40; 0]) exA)) 0
        - nth i [1 / 4; 3 / 4] 0) <= 7500 * exp (- 20).
Proof.
  intros i. rewrite <- ex_limit_row.
  replace (7500 * exp (- 20)) with (2 * (INR (length exA) * (3 / 4) * (5 * exp (- 20))) / (1 / 1000))
    by (unfold exA; cbn [length INR]; field).
  pose proof (exp_pos (- 20)) as Hexp.
  apply decode_of_small_outputs; [lra|exact exInvAR_bound|lra|].
  unfold exA. apply Forall_cons; [|apply Forall_nil].
  assert (Hs : abs_sum [2; -3] = 5).
  { unfold abs_sum. cbn [map]. unfold rsumR. cbn [fold_right]. rewrite (Rabs_pos_eq 2) by lra. rewrite (Rabs_left (-3)) by lra. ring. }
  assert (Hp : pw (20 / 1) 1 = 20) by (rewrite pw_one by lra; field).
  replace (5 * exp (- 20)) with (abs_sum [2; -3] * exp (- pw (20 / 1) 1)) by (rewrite Hs, Hp; reflexivity).
  apply kernel_expansion_bound_l2; try lra.
  unfold exXs. apply Forall_cons; [|apply Forall_cons; [|apply Forall_nil]];
    cbn [transform vsubR]; unfold norm2, sumsq; cbn [map]; unfold rsumR; cbn [fold_right]; apply le_sqrt_of_sq; lra.
Qed.

(* the far row of the example is a distribution *)
Example far_rows_example_distribution z :
  let p := probas_prevalenceR (1 / 1000) exInvAR (map (fun cs => fpred (closed_l2 TNone 1 1) exXs cs z) exA) in
  length p = 2%nat /\ Forall (fun x => 0 < x) p /\ rsumR p = 1.
Proof.
  cbv zeta. assert (He : 0 < 1 / 1000 <= 1 / 2) by lra. assert (Hne : exInvAR <> []) by discriminate.
  destruct (far_rows_row_is_a_distribution (1 / 1000) exInvAR (map (fun cs => fpred (closed_l2 TNone 1 1) exXs cs z) exA) He Hne)
    as (D1 & _ & D3).
  split; [exact D1|]. split; [apply far_rows_row_positive; assumption|exact D3].
Qed.

(* the bridge on rational inputs: the Q model's output on the zero prediction, mapped to R, is the limit row *)
Example ex_bridge :
  map Q2R (probas_prevalence (1 # 1000) [[1 # 2; 1 # 4]; [- 1 # 2; 3 # 4]]%Q (repeat 0%Q 1))
  = probas_prevalenceR (Q2R (1 # 1000)) (map (map Q2R) [[1 # 2; 1 # 4]; [- 1 # 2; 3 # 4]]%Q) (map Q2R (repeat 0%Q 1)).
Proof. apply Q2R_probas_prevalence. Qed.

Print Assumptions probas_prevalenceR_near_zero_prediction.
Print Assumptions Q2R_probas_prevalence.
Print Assumptions far_rows_probabilities_tend_to_the_decoded_prior.
Print Assumptions far_rows_probabilities_tend_to_the_decoded_prior_lpq.
Print Assumptions far_rows_probabilities_tend_to_the_decoded_prior_product.
Print Assumptions far_rows_row_is_a_distribution.
