(* Property C05, the GENERAL exponent range: the Gram matrices of the Laplace-type kernels are positive semi-definite for
   0 < q <= p <= 2, for ANY number of points, ANY dimension, any well-formed transform.

   Route: Bernstein's representation of the power function + Schoenberg's theorem (PsdLaplaceL2.exp_neg_cnd_is_psd).
     r^a  =  (1 / C_a) * lim_N  int_{-N}^{N} (1 - exp (- r e^t)) e^{- a t} dt            (0 < a < 1, r >= 0, C_a > 0)
   which is the classical  int_0^oo (1 - exp (- s r)) s^(-1-a) ds  after the substitution s = e^t (the substitution removes every
   side condition: the integrand is smooth on the whole line, and the scaling r -> shift t -> t + ln r).

   Files:  PsdGeneral2.v  (imported here)  contains the REDUCTION: the closure lemmas for conditionally negative definite kernels
           (cnd_sum, cnd_scale, cnd_precomp, cnd_lim, one_minus_exp_cnd), `cnd_power_from` and the kernel theorems `*_from`, each with the
           analytic fact `bernstein_all` as an explicit PREMISE (no axiom, no section hypothesis).
           PsdGeneral.v   (this file) PROVES the analytic fact (`bernstein_power : bernstein_all`) and discharges the premise.

   ALL theorems of this file are UNCONDITIONAL (only the standard real/classical axioms under Print Assumptions):
     STAGE 1  incr_shift_lim          : an increasing function bounded above converges at +oo along every shifted integer sequence
              bernstein_power         : bernstein_all, i.e. for 0 < a < 1 there is C > 0 with, for every r >= 0,
                                        / C * int_{-N}^{N} (1 - exp (- (r * exp t))) * exp (- (a * t)) dt  -->  pw r a
              bernstein_power_s_form  : the same with  int_{e^-N}^{e^N} (1 - exp (- (s * r))) * Rpower s (-1-a) ds
     STAGE 2  cnd_power               : psi symmetric, zero diagonal, >= 0, cnd on P, 0 < a <= 1  ==>  pw psi a cnd on P
     STAGE 3  laplace_l2_psd_all_q    : 0 < q <= 2          ==>  0 <= qf (closed_l2 t L q) xs cs
              product_psd_all_q       : 0 < q <= 2          ==>  0 <= qf (closed_product t L q) xs cs
              lpq_psd                 : 0 < q <= p <= 2     ==>  0 <= qf (closed_lpq t L p q) xs cs
              sum_power_psd_all_q     : 0 < q <= 2, 0 <= c <= 1  ==>  0 <= qf (closed_sum_power t L q c power) xs cs
              and the op-sequence versions (laplace_l2, laplace_product, laplace_lpq, sum_power of Kernels.v)
     STAGE 4  examples on the 3-point set [[1;2];[0;-3];[4;1]] with a full 2 -> 3 transform. *)
From Coq Require Import Reals List Lra Lia.
From Coquelicot Require Import Coquelicot.
Require Import XV.Real.Kernels XV.Real.PsdProduct XV.Real.PsdMore XV.Real.PsdLaplaceL2 XV.Real.PsdGeneral2.
Import ListNotations.
Local Open Scope R_scope.

(* ====================================================================== *)
(* STAGE 1: the analytic core                                              *)
(* ====================================================================== *)
(* an increasing function bounded above has a limit at +infinity, reached along every shifted integer sequence *)
Lemma incr_shift_lim (F : R -> R) (B : R) :
  (forall x y, x <= y -> F x <= F y) -> (forall x, F x <= B) ->
  exists l : R, (forall x, F x <= l) /\ forall c, is_lim_seq (fun N => F (INR N + c)) l.
Proof.
  intros Hinc Hb.
  destruct (ex_finite_lim_seq_incr (fun N => F (INR N)) B) as [l Hl].
  - intros n. apply Hinc. rewrite S_INR. lra.
  - intros n. apply Hb.
  - exists l.
    assert (Hup : forall x, F x <= l).
    { intros x. destruct (nfloor_ex (Rmax 0 x) (Rmax_l 0 x)) as [m [_ Hm]].
      apply Rle_trans with (F (INR (S m))).
      - apply Hinc. rewrite S_INR. pose proof (Rmax_r 0 x). lra.
      - apply (is_lim_seq_incr_compare (fun N => F (INR N)) l Hl). intros n. apply Hinc. rewrite S_INR. lra. }
    split; [exact Hup|]. intros c.
    apply is_lim_seq_spec. intros eps.
    apply is_lim_seq_spec in Hl. destruct (Hl eps) as [N0 HN0].
    destruct (nfloor_ex (Rmax 0 (INR N0 - c)) (Rmax_l 0 _)) as [m [_ Hm]].
    exists (S m). intros n Hn.
    assert (Hge : INR N0 <= INR n + c).
    { assert (INR (S m) <= INR n) by (apply le_INR; exact Hn). rewrite S_INR in H. pose proof (Rmax_r 0 (INR N0 - c)). lra. }
    pose proof (HN0 N0 (Nat.le_refl _)) as H0. cbv beta in H0.
    pose proof (Hinc _ _ Hge) as H1. pose proof (Hup (INR n + c)) as H2. pose proof (Hup (INR N0)) as H3.
    apply Rabs_lt_between'. apply Rabs_lt_between' in H0. split; lra.
Qed.

Section Bernstein.
Variable a : R.
Hypothesis Ha : 0 < a < 1.

Definition GG (w : R) : R := (1 - exp (- exp w)) * exp (- (a * w)).

Lemma GG_cont w : continuous GG w.
Proof. apply (ex_derive_continuous GG). unfold GG. auto_derive. exact I. Qed.

Lemma GG_pos w : 0 < GG w.
Proof.
  unfold GG. apply Rmult_lt_0_compat; [|apply exp_pos].
  assert (exp (- exp w) < 1); [|lra]. rewrite <- exp_0. apply exp_increasing. pose proof (exp_pos w). lra.
Qed.

Lemma GG_le1 w : GG w <= exp (- (a * w)).
Proof. unfold GG. pose proof (exp_pos (- exp w)). pose proof (exp_pos (- (a * w))). nra. Qed.

Lemma GG_le2 w : GG w <= exp ((1 - a) * w).
Proof.
  unfold GG. replace (exp ((1 - a) * w)) with (exp w * exp (- (a * w))) by (rewrite <- exp_plus; f_equal; ring).
  pose proof (exp_ineq1_le (- exp w)). pose proof (exp_pos (- (a * w))). nra.
Qed.

Lemma GG_ex x y : ex_RInt GG x y.
Proof. apply ex_RInt_cont. intros z _. apply GG_cont. Qed.

Definition PP (y : R) : R := RInt GG 0 y.

Lemma PP_diff x y : PP y - PP x = RInt GG x y.
Proof. unfold PP. rewrite (RInt_Chasles_R GG 0 x y) by apply GG_ex. ring. Qed.

Lemma PP_incr x y : x <= y -> PP x <= PP y.
Proof.
  intros H. pose proof (PP_diff x y) as E.
  assert (0 <= RInt GG x y) by (apply RInt_ge_0; [exact H|apply GG_ex|intros; left; apply GG_pos]). lra.
Qed.

Lemma PP_0 : PP 0 = 0.
Proof. unfold PP. apply is_RInt_unique_R. apply (@is_RInt_point R_NormedModule). Qed.

Lemma expint (k : R) x y : k <> 0 -> is_RInt (fun w => exp (k * w)) x y (exp (k * y) / k - exp (k * x) / k).
Proof.
  intros Hk.
  apply (is_RInt_ext (fun w => exp (k * w))); [intros; reflexivity|].
  replace (exp (k * y) / k - exp (k * x) / k) with (minus ((fun w => exp (k * w) / k) y) ((fun w => exp (k * w) / k) x)) by reflexivity.
  apply (is_RInt_derive (fun w => exp (k * w) / k)).
  - intros w _. auto_derive; [exact I|field; exact Hk].
  - intros w _. apply (ex_derive_continuous (fun w => exp (k * w))). auto_derive. exact I.
Qed.

Lemma PP_bound y : PP y <= / a.
Proof.
  assert (Hia : 0 < / a) by (apply Rinv_0_lt_compat; lra).
  destruct (Rle_dec y 0) as [Hy|Hy].
  - pose proof (PP_incr y 0 Hy). rewrite PP_0 in H. lra.
  - assert (Hy0 : 0 <= y) by lra.
    pose proof (expint (- a) 0 y ltac:(lra)) as HI.
    apply Rle_trans with (RInt (fun w => exp (- a * w)) 0 y).
    + unfold PP. apply RInt_le; [exact Hy0|apply GG_ex|eexists; exact HI|].
      intros w _. replace (- a * w) with (- (a * w)) by ring. apply GG_le1.
    + rewrite (is_RInt_unique_R _ _ _ _ HI). rewrite Rmult_0_r, exp_0.
      pose proof (exp_pos (- a * y)). unfold Rdiv.
      replace (exp (- a * y) * / - a - 1 * / - a) with (/ a - exp (- a * y) * / a) by (field; lra). nra.
Qed.

Definition QQ (y : R) : R := - PP (- y).

Lemma QQ_incr x y : x <= y -> QQ x <= QQ y.
Proof. intros H. unfold QQ. pose proof (PP_incr (- y) (- x) ltac:(lra)). lra. Qed.

Lemma QQ_bound y : QQ y <= / (1 - a).
Proof.
  assert (Hia : 0 < / (1 - a)) by (apply Rinv_0_lt_compat; lra).
  unfold QQ. destruct (Rle_dec y 0) as [Hy|Hy].
  - pose proof (PP_incr 0 (- y) ltac:(lra)). rewrite PP_0 in H. lra.
  - assert (Hy0 : - y <= 0) by lra.
    pose proof (expint (1 - a) (- y) 0 ltac:(lra)) as HI.
    pose proof (PP_diff (- y) 0) as E. rewrite PP_0 in E.
    replace (- PP (- y)) with (RInt GG (- y) 0) by lra.
    apply Rle_trans with (RInt (fun w => exp ((1 - a) * w)) (- y) 0).
    + apply RInt_le; [exact Hy0|apply GG_ex|eexists; exact HI|]. intros w _. apply GG_le2.
    + rewrite (is_RInt_unique_R _ _ _ _ HI). rewrite Rmult_0_r, exp_0.
      pose proof (exp_pos ((1 - a) * - y)). unfold Rdiv. nra.
Qed.

(* substitution t -> t + ln r *)
Lemma bern_int_shift r N : 0 < r ->
  bern_int a r N = exp (a * ln r) * (PP (INR N + ln r) - PP (- INR N + ln r)).
Proof.
  intros Hr. set (c := ln r). set (n := INR N). unfold bern_int. fold n.
  apply is_RInt_unique_R. rewrite PP_diff.
  pose proof (RInt_correct_R GG (1 * - n + c) (1 * n + c) (GG_ex _ _)) as H0.
  apply (is_RInt_comp_lin GG 1 c (- n) n) in H0.
  apply (is_RInt_scal _ _ _ (exp (a * c))) in H0.
  replace (- n + c) with (1 * - n + c) by ring. replace (n + c) with (1 * n + c) by ring.
  revert H0. apply is_RInt_ext. intros t _. unfold scal; cbn. unfold mult; cbn. unfold GG.
  replace (1 * t + c) with (t + c) by ring. rewrite exp_plus. assert (Ec : exp c = r) by (unfold c; apply exp_ln; exact Hr). rewrite Ec.
  replace (- (a * (t + c))) with (- (a * t) + - (a * c)) by ring. rewrite exp_plus.
  replace (r * exp t) with (exp t * r) by ring.
  assert (E : exp (a * c) * exp (- (a * c)) = 1) by (rewrite <- exp_plus, Rplus_opp_r; apply exp_0).
  set (A := 1 - exp (- (exp t * r))). set (B := exp (- (a * t))).
  transitivity (A * B * (exp (a * c) * exp (- (a * c)))); [ring|rewrite E; ring].
Qed.

Lemma bern_int_0 N : bern_int a 0 N = 0.
Proof.
  unfold bern_int. apply is_RInt_unique_R.
  apply (is_RInt_ext (fun _ => 0)); [|apply is_RInt_zero].
  intros t _. rewrite Rmult_0_l, Ropp_0, exp_0. rewrite (Rminus_diag_eq 1 1 eq_refl), Rmult_0_l. reflexivity.
Qed.

Theorem bernstein_power_sec : bernstein_rep a.
Proof.
  destruct (incr_shift_lim PP (/ a) PP_incr PP_bound) as [l1 [U1 L1]].
  destruct (incr_shift_lim QQ (/ (1 - a)) QQ_incr QQ_bound) as [l2 [U2 L2]].
  assert (H1 : 0 < l1).
  { pose proof (U1 1) as H. pose proof (PP_diff 0 1) as E. rewrite PP_0 in E.
    assert (0 < RInt GG 0 1) by (apply RInt_gt_0; [lra|intros; apply GG_pos|intros; apply GG_cont]). lra. }
  assert (H2 : 0 <= l2).
  { pose proof (U2 0) as H. unfold QQ in H. rewrite Ropp_0, PP_0 in H. lra. }
  exists (l1 + l2). split; [lra|]. intros r Hr.
  destruct (Rle_lt_or_eq_dec 0 r Hr) as [Hpos|<-].
  - rewrite pw_pos by exact Hpos. unfold Rpower.
    apply (is_lim_seq_ext (fun N => / (l1 + l2) * (exp (a * ln r) * (PP (INR N + ln r) + QQ (INR N + - ln r))))).
    { intros N. rewrite bern_int_shift by exact Hpos. unfold QQ.
      replace (- (INR N + - ln r)) with (- INR N + ln r) by ring. ring. }
    set (E := exp (a * ln r)).
    assert (HL : is_lim_seq (fun N => / (l1 + l2) * (E * (PP (INR N + ln r) + QQ (INR N + - ln r)))) (/ (l1 + l2) * (E * (l1 + l2)))).
    { apply is_lim_seq_mult'; [apply is_lim_seq_const|]. apply is_lim_seq_mult'; [apply is_lim_seq_const|].
      apply is_lim_seq_plus'; [apply L1|apply L2]. }
    replace (/ (l1 + l2) * (E * (l1 + l2))) with E in HL by (field; lra). exact HL.
  - rewrite pw_0. apply (is_lim_seq_ext (fun _ => 0)); [|apply is_lim_seq_const].
    intros N. rewrite bern_int_0. ring.
Qed.
End Bernstein.

Theorem bernstein_power : bernstein_all.
Proof. intros a Ha. exact (bernstein_power_sec a Ha). Qed.

(* the same statement in the variable s = exp t: the integrals of (1 - exp (- s r)) s^(-1-a) over [e^-N, e^N] *)
Lemma bern_int_s_form a r N :
  RInt (fun s => (1 - exp (- (s * r))) * Rpower s (- 1 - a)) (exp (- INR N)) (exp (INR N)) = bern_int a r N.
Proof.
  symmetry. unfold bern_int. apply is_RInt_unique_R.
  refine (is_RInt_ext _ _ _ _ _ _ (is_RInt_comp (fun s => (1 - exp (- (s * r))) * Rpower s (- 1 - a)) exp exp (- INR N) (INR N) _ _)).
  - intros t _. unfold scal; cbn. unfold mult; cbn. unfold Rpower. rewrite ln_exp.
    replace (r * exp t) with (exp t * r) by ring.
    replace (exp (- (a * t))) with (exp t * exp ((- 1 - a) * t)) by (rewrite <- exp_plus; f_equal; ring). ring.
  - intros t _. apply (ex_derive_continuous (fun s => (1 - exp (- (s * r))) * Rpower s (- 1 - a))).
    unfold Rpower. auto_derive. apply exp_pos.
  - intros t _. split; [auto_derive; [exact I|ring]|]. apply (ex_derive_continuous exp). auto_derive. exact I.
Qed.

Theorem bernstein_power_s_form : forall a, 0 < a < 1 -> exists C : R, 0 < C /\ forall r, 0 <= r ->
  is_lim_seq (fun N => / C * RInt (fun s => (1 - exp (- (s * r))) * Rpower s (- 1 - a)) (exp (- INR N)) (exp (INR N))) (pw r a).
Proof.
  intros a Ha. destruct (bernstein_power a Ha) as [C [HC HL]]. exists C. split; [exact HC|]. intros r Hr.
  apply (is_lim_seq_ext (fun N => / C * bern_int a r N)); [|apply HL; exact Hr].
  intros N. rewrite bern_int_s_form. reflexivity.
Qed.

(* ====================================================================== *)
(* STAGE 2: Bernstein closure, unconditional                               *)
(* ====================================================================== *)
Theorem cnd_power : forall psi P a, 0 < a <= 1 -> sym_on psi P -> (forall u, In u P -> psi u u = 0) ->
  (forall u v, In u P -> In v P -> 0 <= psi u v) -> cnd_set psi P -> cnd_set (fun u v => pw (psi u v) a) P.
Proof. exact (cnd_power_from bernstein_power). Qed.

(* consequences used below, unconditional: |h u - h v|^p and sum_d |u_d - v_d|^p are cnd for 0 < p <= 2 *)
Theorem abs_pow_1d_cnd : forall (h : list R -> R) p P, 0 < p <= 2 -> cnd_set (fun u v => pw (Rabs (h u - h v)) p) P.
Proof. exact (abs1d_cnd_from bernstein_power). Qed.

Theorem sum_abs_pow_cnd : forall p, 0 < p <= 2 -> forall (m : nat) (P : list (list R)),
  List.Forall (fun u => length u = m) P -> cnd_set (fun u v => sum_abs_pow p (vsubR u v)) P.
Proof. exact (sap_cnd_from bernstein_power). Qed.

(* ====================================================================== *)
(* STAGE 3: the kernels, unconditional                                     *)
(* ====================================================================== *)
(* (i) exp (- ||T(x - z)||_2^q / L^q),  0 < q <= 2 *)
Theorem laplace_l2_psd_all_q : forall t L q (xs : list (list R)) (cs : list R) (d : nat),
  0 < q <= 2 -> 0 < L -> wf_tmat t d -> List.Forall (fun x => length x = d) xs -> 0 <= qf (closed_l2 t L q) xs cs.
Proof. exact (laplace_l2_psd_all_q_from bernstein_power). Qed.

(* (ii) exp (- sum_d |T(x - z)_d|^q / L^q),  0 < q <= 2 *)
Theorem product_psd_all_q : forall t L q (xs : list (list R)) (cs : list R) (d : nat),
  0 < q <= 2 -> 0 < L -> wf_tmat t d -> List.Forall (fun x => length x = d) xs -> 0 <= qf (closed_product t L q) xs cs.
Proof. exact (product_psd_all_q_from bernstein_power). Qed.

(* (iii) exp (- ||T(x - z)||_p^q / L^q),  0 < q <= p <= 2 *)
Theorem lpq_psd : forall t L p q (xs : list (list R)) (cs : list R) (d : nat),
  0 < q <= p -> p <= 2 -> 0 < L -> wf_tmat t d -> List.Forall (fun x => length x = d) xs -> 0 <= qf (closed_lpq t L p q) xs cs.
Proof. exact (lpq_psd_from bernstein_power). Qed.

(* (iv) ((1 - c) mean_d exp (- |T(x - z)_d|^q / L^q) + c)^power,  0 < q <= 2, 0 <= c <= 1 *)
Theorem sum_power_psd_all_q : forall t L q c (power : nat) (xs : list (list R)) (cs : list R) (d : nat),
  0 < q <= 2 -> 0 < L -> 0 <= c <= 1 -> wf_tmat t d -> List.Forall (fun x => length x = d) xs ->
  0 <= qf (closed_sum_power t L q c power) xs cs.
Proof. exact (sum_power_psd_all_q_from bernstein_power). Qed.

Theorem sum_power_has_rep_all_q : forall t L q c (power : nat) (xs : list (list R)) (d : nat),
  0 < q <= 2 -> 0 < L -> 0 <= c <= 1 -> wf_tmat t d -> List.Forall (fun x => length x = d) xs ->
  has_rep (closed_sum_power t L q c power) xs.
Proof. exact (sum_power_has_rep_all_q_from bernstein_power). Qed.

(* the op-sequence models of Kernels.v (the sequences of tensor operations the code performs) *)
Theorem laplace_l2_op_psd_all_q : forall t L q (xs : list (list R)) (cs : list R) (d : nat),
  0 < q <= 2 -> 0 < L -> wf_tmat t d -> List.Forall (fun x => length x = d) xs -> 0 <= qf (laplace_l2 t L q) xs cs.
Proof. exact (laplace_l2_op_psd_all_q_from bernstein_power). Qed.

Theorem laplace_product_op_psd_all_q : forall t L q (xs : list (list R)) (cs : list R) (d : nat),
  0 < q <= 2 -> 0 < L -> wf_tmat t d -> List.Forall (fun x => length x = d) xs -> 0 <= qf (laplace_product t L q) xs cs.
Proof. exact (laplace_product_op_psd_all_q_from bernstein_power). Qed.

Theorem laplace_lpq_op_psd : forall t L p q (xs : list (list R)) (cs : list R) (d : nat),
  0 < q <= p -> p <= 2 -> 0 < L -> wf_tmat t d -> List.Forall (fun x => length x = d) xs -> 0 <= qf (laplace_lpq t L p q) xs cs.
Proof. exact (laplace_lpq_op_psd_from bernstein_power). Qed.

Theorem sum_power_op_psd_all_q : forall t L q c (power : nat) (xs : list (list R)) (cs : list R) (d : nat),
  0 < q <= 2 -> 0 < L -> 0 <= c <= 1 -> wf_tmat t d -> List.Forall (fun x => length x = d) xs ->
  0 <= qf (sum_power t L q c power) xs cs.
Proof. exact (sum_power_op_psd_all_q_from bernstein_power). Qed.

(* ====================================================================== *)
(* STAGE 4: concrete instances (3 points in R^2, a full 2 -> 3 transform)   *)
(* ====================================================================== *)
Definition tmG : tmat := TFull 3 [[1; 0; 2]; [0; -1; 1]].
Lemma tmG_wf : wf_tmat tmG 2.
Proof. cbn. split; [reflexivity|repeat constructor]. Qed.
Lemma pts2_len : List.Forall (fun x : list R => length x = 2%nat) pts2.
Proof. repeat constructor. Qed.

Example laplace_l2_q_half_ex : 0 <= qf (closed_l2 tmG 3 (1 / 2)) pts2 [1; -2; 1].
Proof. apply (laplace_l2_psd_all_q _ _ _ _ _ 2); [lra|lra|exact tmG_wf|exact pts2_len]. Qed.

Example laplace_l2_q_3half_ex : forall c1 c2 c3 : R, 0 <= qf (closed_l2 tmG 3 (3 / 2)) pts2 [c1; c2; c3].
Proof. intros. apply (laplace_l2_psd_all_q _ _ _ _ _ 2); [lra|lra|exact tmG_wf|exact pts2_len]. Qed.

Example laplace_l2_op_q_half_ex : 0 <= qf (laplace_l2 tmG 3 (1 / 2)) pts2 [1; -2; 1].
Proof. apply (laplace_l2_op_psd_all_q _ _ _ _ _ 2); [lra|lra|exact tmG_wf|exact pts2_len]. Qed.

Example lpq_p3half_q_half_ex : 0 <= qf (closed_lpq tmG (1 / 2) (3 / 2) (1 / 2)) pts2 [1; -2; 1].
Proof. apply (lpq_psd _ _ _ _ _ _ 2); [lra|lra|lra|exact tmG_wf|exact pts2_len]. Qed.

Example lpq_p3half_q3half_ex : forall c1 c2 c3 : R, 0 <= qf (closed_lpq tmG (1 / 2) (3 / 2) (3 / 2)) pts2 [c1; c2; c3].
Proof. intros. apply (lpq_psd _ _ _ _ _ _ 2); [lra|lra|lra|exact tmG_wf|exact pts2_len]. Qed.

Example laplace_lpq_op_ex : 0 <= qf (laplace_lpq (TDiag [2; 1]) 3 (3 / 2) (1 / 2)) pts2 [1; -2; 1].
Proof. apply (laplace_lpq_op_psd _ _ _ _ _ _ 2); [lra|lra|lra|reflexivity|exact pts2_len]. Qed.

Example product_q3half_ex : 0 <= qf (closed_product tmG 3 (3 / 2)) pts2 [1; -2; 1].
Proof. apply (product_psd_all_q _ _ _ _ _ 2); [lra|lra|exact tmG_wf|exact pts2_len]. Qed.

Example sum_power_q_half_ex : 0 <= qf (closed_sum_power tmG 2 (1 / 2) (1 / 4) 3) pts2 [1; -2; 1].
Proof. apply (sum_power_psd_all_q _ _ _ _ _ _ _ 2); [lra|lra|lra|exact tmG_wf|exact pts2_len]. Qed.

(* cnd_power on a concrete kernel: ||u - v||^(3/2) is conditionally negative definite on the three points *)
Example cnd_power_ex : cnd_set (fun u v => pw (sumsq (vsubR u v)) (3 / 4)) pts2.
Proof.
  apply cnd_power; [lra| | | |apply (sqdist_cnd 2); exact pts2_len].
  - intros u v _ _. apply sumsq_neg_sym.
  - intros u _. rewrite vsubR_self. apply sumsq_zeros.
  - intros u v _ _. apply sumsq_nonneg.
Qed.

Print Assumptions bernstein_power.
Print Assumptions bernstein_power_s_form.
Print Assumptions cnd_power.
Print Assumptions sum_abs_pow_cnd.
Print Assumptions laplace_l2_psd_all_q.
Print Assumptions product_psd_all_q.
Print Assumptions lpq_psd.
Print Assumptions sum_power_psd_all_q.
Print Assumptions laplace_l2_op_psd_all_q.
Print Assumptions laplace_product_op_psd_all_q.
Print Assumptions laplace_lpq_op_psd.
Print Assumptions sum_power_op_psd_all_q.
Print Assumptions laplace_l2_q_half_ex.
Print Assumptions lpq_p3half_q_half_ex.
