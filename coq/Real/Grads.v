(* Gradients of the kernel predictor f(z) = sum_i c_i k(x_i, z)  (xrfm/rfm_src/kernels.py 171-183, 229-254, 341-366).
   (1) the op sequence of the closed-form L2 gradient (with the zero-distance mask) as a real-valued model;
   (2) the theorem that, away from the centers, each coordinate of that formula IS the derivative of f along the coordinate
       direction (Coquelicot is_derive), for any number of centers and any dimension;
   (3) at a coincident center the center's own term is exactly 0. *)
From Coq Require Import Reals List Lra Lia.
From Coquelicot Require Import Coquelicot.
Require Import XV.Real.Kernels.
Import ListNotations.
Local Open Scope R_scope.

(* ---------- (1) the code's formula ---------- *)
(* weight of center i at query z (entry M[i,j] of the code): -q/L^q * k * max(dist,eps)^(q-2) * [dist >= eps] *)
Definition gweight (L q eps : R) (dist : R) : R :=
  exp (pw dist q * (- 1 / Rpower L q)) * Rpower (Rmax dist eps) (q - 2) * (if Rle_dec eps dist then 1 else 0) * (- q / Rpower L q).

(* sum_i c_i * M_i * (zm - xm_i), then multiplied by the transform (get_function_grads) *)
Fixpoint gsum (L q eps : R) (zm : list R) (xms : list (list R)) (cs : list R) : list R :=
  match xms, cs with
  | xm :: xms', c :: cs' => vaddR (vscaleR (c * gweight L q eps (cdist2 xm zm)) (vsubR zm xm)) (gsum L q eps zm xms' cs')
  | _, _ => repeat 0 (length zm)
  end.
Definition grad_l2 (t : tmat) (L q eps : R) (xs : list (list R)) (cs : list R) (z : list R) : list R :=
  transform t (gsum L q eps (transform t z) (map (transform t) xs) cs).

(* the predictor *)
Fixpoint fpred (k : list R -> list R -> R) (xs : list (list R)) (cs : list R) (z : list R) : R :=
  match xs, cs with x :: xs', c :: cs' => c * k x z + fpred k xs' cs' z | _, _ => 0 end.

(* ---------- (2) derivative ---------- *)
(* along a line u0 + s w in transformed space: ||u0 + s w||^2 = a + b s + c s^2 *)
Fixpoint vaxpy (s : R) (w u : list R) : list R := match w, u with wi :: w', ui :: u' => (ui + s * wi) :: vaxpy s w' u' | _, _ => [] end.

Lemma sumsq_line : forall u w s, length u = length w ->
  sumsq (vaxpy s w u) = sumsq u + 2 * vdotR u w * s + sumsq w * s * s.
Proof.
  unfold sumsq, rsumR. induction u as [|a u IH]; intros [|b w] s H; try discriminate; cbn [vaxpy map fold_right vdotR]; [ring|].
  cbn in H. injection H as H. rewrite (IH w s H). ring.
Qed.

(* radial profile along the line: exp(-gam * (sqrt(a + b s + c s^2))^q) with Rpower unfolded *)
Definition kline (a b c gam q : R) (s : R) : R := exp (- gam * exp (q * ln (sqrt (a + b * s + c * s * s)))).

Lemma kline_derive a b c gam q s : 0 < a + b * s + c * s * s ->
  is_derive (kline a b c gam q) s
    (- gam * q * kline a b c gam q s * exp ((q - 2) * ln (sqrt (a + b * s + c * s * s))) * ((b + 2 * c * s) / 2)).
Proof.
  intros Hpos. unfold kline. auto_derive.
  - repeat split; try exact Hpos. apply sqrt_lt_R0. exact Hpos.
  - set (r := a + b * s + c * s * s) in *.
    assert (Hs : 0 < sqrt r) by (apply sqrt_lt_R0; exact Hpos).
    assert (E : exp ((q - 2) * ln (sqrt r)) = exp (q * ln (sqrt r)) / (sqrt r * sqrt r)).
    { replace ((q - 2) * ln (sqrt r)) with (q * ln (sqrt r) - (ln (sqrt r) + ln (sqrt r))) by ring.
      unfold Rminus at 1. rewrite exp_plus, exp_Ropp, exp_plus, exp_ln by exact Hs. reflexivity. }
    rewrite E. field. lra.
Qed.

(* the kernel along the line, in transformed space: u = T(z - x), w = T(e_d) *)
Definition kalong (L q : R) (u w : list R) (s : R) : R := exp (- pw (sqrt (sumsq (vaxpy s w u))) q / Rpower L q).

Lemma kalong_is_kline L q u w : length u = length w -> 0 < sumsq u ->
  forall s, 0 < sumsq u + 2 * vdotR u w * s + sumsq w * s * s ->
  kalong L q u w s = kline (sumsq u) (2 * vdotR u w) (sumsq w) (/ Rpower L q) q s.
Proof.
  intros Hl Hu s Hs. unfold kalong, kline. rewrite sumsq_line by exact Hl.
  rewrite pw_pos by (apply sqrt_lt_R0; exact Hs). unfold Rpower at 1. f_equal. unfold Rdiv. ring.
Qed.

(* derivative of one center's kernel at s = 0: -(q / L^q) k ||u||^(q-2) (u . w) *)
Lemma kalong_derive L q u w : length u = length w -> 0 < sumsq u ->
  is_derive (kalong L q u w) 0
    (- (q / Rpower L q) * exp (- pw (sqrt (sumsq u)) q / Rpower L q) * Rpower (sqrt (sumsq u)) (q - 2) * vdotR u w).
Proof.
  intros Hl Hu.
  assert (Hk := kline_derive (sumsq u) (2 * vdotR u w) (sumsq w) (/ Rpower L q) q 0).
  replace (sumsq u + 2 * vdotR u w * 0 + sumsq w * 0 * 0) with (sumsq u) in Hk by ring. specialize (Hk Hu).
  (* kalong and kline agree on a neighbourhood of 0 (where the quadratic stays positive) *)
  assert (Hc : continuous (fun s => sumsq u + 2 * vdotR u w * s + sumsq w * s * s) 0).
  { apply (ex_derive_continuous (fun s => sumsq u + 2 * vdotR u w * s + sumsq w * s * s)). auto_derive. trivial. }
  assert (Hloc : locally 0 (fun s => kline (sumsq u) (2 * vdotR u w) (sumsq w) (/ Rpower L q) q s = kalong L q u w s)).
  { assert (Hpos : locally 0 (fun s => 0 < sumsq u + 2 * vdotR u w * s + sumsq w * s * s)).
    { apply (Hc (fun v => 0 < v)). apply (open_gt 0). ring_simplify. exact Hu. }
    revert Hpos. apply filter_imp. intros s Hs. symmetry. apply kalong_is_kline; assumption. }
  eapply is_derive_ext_loc; [exact Hloc|].
  replace (- (q / Rpower L q) * exp (- pw (sqrt (sumsq u)) q / Rpower L q) * Rpower (sqrt (sumsq u)) (q - 2) * vdotR u w)
    with (- / Rpower L q * q * kline (sumsq u) (2 * vdotR u w) (sumsq w) (/ Rpower L q) q 0 *
          exp ((q - 2) * ln (sqrt (sumsq u))) * ((2 * vdotR u w + 2 * sumsq w * 0) / 2)); [exact Hk|].
  unfold kline. replace (sumsq u + 2 * vdotR u w * 0 + sumsq w * 0 * 0) with (sumsq u) by ring.
  rewrite pw_pos by (apply sqrt_lt_R0; exact Hu). unfold Rpower. unfold Rdiv.
  replace (- / exp (q * ln L) * exp (q * ln (sqrt (sumsq u)))) with (- exp (q * ln (sqrt (sumsq u))) * / exp (q * ln L)) by ring.
  field. apply Rgt_not_eq, exp_pos.
Qed.

(* ---------- sum over centers ---------- *)
Fixpoint falong (L q : R) (us : list (list R)) (cs : list R) (w : list R) (s : R) : R :=
  match us, cs with u :: us', c :: cs' => c * kalong L q u w s + falong L q us' cs' w s | _, _ => 0 end.

Definition dcoef (L q : R) (u : list R) : R :=
  - (q / Rpower L q) * exp (- pw (sqrt (sumsq u)) q / Rpower L q) * Rpower (sqrt (sumsq u)) (q - 2).

Fixpoint gspec (L q : R) (us : list (list R)) (cs : list R) (w : list R) : R :=
  match us, cs with u :: us', c :: cs' => c * (dcoef L q u * vdotR u w) + gspec L q us' cs' w | _, _ => 0 end.

Theorem falong_derive L q w : forall us cs,
  List.Forall (fun u => length u = length w /\ 0 < sumsq u) us ->
  is_derive (falong L q us cs w) 0 (gspec L q us cs w).
Proof.
  induction us as [|u us IH]; intros cs H.
  - apply is_derive_ext with (f := fun _ : R => 0); [intros; reflexivity|apply @is_derive_const].
  - destruct cs as [|c cs]; [apply is_derive_ext with (f := fun _ : R => 0); [intros; reflexivity|apply @is_derive_const]|].
    inversion H as [|? ? [Hl Hu] Hrest]; subst. cbn [falong gspec].
    apply (is_derive_plus (fun s => c * kalong L q u w s) (falong L q us cs w)).
    + apply (is_derive_scal (kalong L q u w) 0 c). unfold dcoef. apply kalong_derive; assumption.
    + apply IH. exact Hrest.
Qed.

(* ---------- algebra: the code's coordinate equals gspec when the transform is symmetric ---------- *)
Lemma vdotR_vadd : forall a b w, length a = length b -> vdotR (vaddR a b) w = vdotR a w + vdotR b w.
Proof.
  induction a as [|x a IH]; intros [|y b] [|v w] H; try discriminate; cbn; try ring.
  cbn in H. injection H as H. rewrite (IH b w H). ring.
Qed.
Lemma vdotR_vscale c : forall a w, vdotR (vscaleR c a) w = c * vdotR a w.
Proof. unfold vscaleR. induction a as [|x a IH]; intros [|v w]; cbn; try ring. rewrite IH. ring. Qed.
Lemma vdotR_zeros n : forall w, vdotR (repeat 0 n) w = 0.
Proof. induction n as [|n IH]; intros [|v w]; cbn; try ring. rewrite IH. ring. Qed.

Lemma gsum_length L q eps zm : forall xms cs, List.Forall (fun xm => length xm = length zm) xms -> length (gsum L q eps zm xms cs) = length zm.
Proof.
  induction xms as [|xm xms IH]; intros cs H; cbn; [apply repeat_length|]. destruct cs as [|c cs]; [apply repeat_length|].
  inversion H as [|? ? Hx Hr]; subst. rewrite vaddR_length; unfold vscaleR; rewrite map_length, vsubR_length by (symmetry; exact Hx); [reflexivity|].
  rewrite IH by exact Hr. reflexivity.
Qed.

Lemma gsum_dot L q eps zm w : forall xms cs, List.Forall (fun xm => length xm = length zm) xms ->
  vdotR (gsum L q eps zm xms cs) w =
  (fix go xms cs := match xms, cs with xm :: xms', c :: cs' => c * gweight L q eps (cdist2 xm zm) * vdotR (vsubR zm xm) w + go xms' cs' | _, _ => 0 end) xms cs.
Proof.
  induction xms as [|xm xms IH]; intros cs H; cbn [gsum]; [apply vdotR_zeros|]. destruct cs as [|c cs]; [apply vdotR_zeros|].
  inversion H as [|? ? Hx Hr]; subst. rewrite vdotR_vadd, vdotR_vscale, IH by
    (try exact Hr; unfold vscaleR; rewrite map_length, vsubR_length by (symmetry; exact Hx); rewrite gsum_length by exact Hr; reflexivity).
  reflexivity.
Qed.

(* away from the center (dist >= eps > 0) the masked weight is the derivative coefficient *)
Lemma gweight_away L q eps u : 0 < eps -> eps <= sqrt (sumsq u) ->
  gweight L q eps (sqrt (sumsq u)) = dcoef L q u.
Proof.
  intros He Hd. unfold gweight, dcoef. destruct (Rle_dec eps (sqrt (sumsq u))) as [_|n]; [|contradiction].
  rewrite Rmax_left by exact Hd. unfold Rdiv. ring_simplify.
  replace (pw (sqrt (sumsq u)) q * (- 1 * / Rpower L q)) with (- pw (sqrt (sumsq u)) q * / Rpower L q) by ring. ring.
Qed.

(* (3) at a coincident center (distance 0 < eps) that center contributes exactly zero *)
Lemma gweight_coincident L q eps : 0 < eps -> gweight L q eps 0 = 0.
Proof. intros He. unfold gweight. destruct (Rle_dec eps 0) as [H|_]; [lra|]. ring. Qed.

(* symmetric use of the transform in coordinate d: (v @ T)_d = v . (e_d @ T).  Holds for None, diagonal, and symmetric full T *)
Definition sym_at (t : tmat) (d : nat) (w : list R) (n : nat) : Prop :=
  forall v, length v = n -> nth d (transform t v) 0 = vdotR v w.

Theorem grad_l2_coordinate t L q eps xs cs z d w : 0 < eps ->
  wf_tmat t (length z) -> List.Forall (fun x => length x = length z) xs ->
  List.Forall (fun x => eps <= cdist2 (transform t x) (transform t z)) xs ->
  List.Forall (fun x => length (transform t x) = length (transform t z)) xs ->
  sym_at t d w (length (transform t z)) ->
  nth d (grad_l2 t L q eps xs cs z) 0 = gspec L q (map (fun x => transform t (vsubR z x)) xs) cs w.
Proof.
  intros He Hw Hlen Hfar Htl Hsym. unfold grad_l2.
  rewrite Hsym by (apply gsum_length; apply Forall_forall; intros xm Hxm; apply in_map_iff in Hxm; destruct Hxm as [x [<- Hx]];
                   rewrite Forall_forall in Htl; apply Htl; exact Hx).
  rewrite gsum_dot by (apply Forall_forall; intros xm Hxm; apply in_map_iff in Hxm; destruct Hxm as [x [<- Hx]];
                       rewrite Forall_forall in Htl; apply Htl; exact Hx).
  revert cs. induction xs as [|x xs IH]; intros cs; [reflexivity|]. destruct cs as [|c cs]; [reflexivity|].
  inversion Hlen as [|? ? Hx Hxs]; inversion Hfar as [|? ? Fx Fxs]; inversion Htl as [|? ? Tx Txs]; subst.
  cbn [map gspec]. rewrite (IH Hxs Fxs Txs cs).
  assert (Eu : vsubR (transform t z) (transform t x) = transform t (vsubR z x)).
  { apply transform_sub; [symmetry; exact Hx|exact Hw]. }
  assert (Ed : cdist2 (transform t x) (transform t z) = sqrt (sumsq (transform t (vsubR z x)))).
  { unfold cdist2. rewrite sumsq_neg_sym, Eu. reflexivity. }
  rewrite Ed, Eu, gweight_away; [ring|exact He|]. rewrite <- Ed. exact Fx.
Qed.

(* (2) put together: each coordinate the code returns is the derivative of the predictor along the corresponding line in
   transformed space, for any number of centers, any dimension, any coefficients *)
Theorem grad_l2_is_derivative t L q eps xs cs z d w : 0 < eps ->
  wf_tmat t (length z) -> List.Forall (fun x => length x = length z) xs ->
  List.Forall (fun x => eps <= cdist2 (transform t x) (transform t z)) xs ->
  List.Forall (fun x => length (transform t x) = length (transform t z)) xs ->
  List.Forall (fun x => length (transform t (vsubR z x)) = length w) xs ->
  sym_at t d w (length (transform t z)) ->
  is_derive (falong L q (map (fun x => transform t (vsubR z x)) xs) cs w) 0 (nth d (grad_l2 t L q eps xs cs z) 0).
Proof.
  intros He Hw Hlen Hfar Htl Hwl Hsym. rewrite (grad_l2_coordinate t L q eps xs cs z d w) by assumption.
  apply falong_derive. apply Forall_forall. intros u Hu. apply in_map_iff in Hu. destruct Hu as [x [<- Hx]].
  rewrite Forall_forall in Hwl, Hfar, Hlen. split; [apply Hwl; exact Hx|].
  assert (Ed : cdist2 (transform t x) (transform t z) = sqrt (sumsq (transform t (vsubR z x)))).
  { unfold cdist2. rewrite sumsq_neg_sym, transform_sub; [reflexivity|symmetry; apply Hlen; exact Hx|exact Hw]. }
  specialize (Hfar x Hx). rewrite Ed in Hfar.
  destruct (Rle_lt_or_eq_dec 0 _ (sumsq_nonneg (transform t (vsubR z x)))) as [Hp|Hz]; [exact Hp|].
  rewrite <- Hz, sqrt_0 in Hfar. lra.
Qed.

(* ---------- the line in input space maps to a line in transformed space: T(z + s e - x) = T(z - x) + s T(e) ---------- *)
Lemma vaxpy_sub : forall e z x s, length e = length z -> length z = length x ->
  vsubR (vaxpy s e z) x = vaxpy s e (vsubR z x).
Proof.
  induction e as [|a e IH]; intros [|b z] [|c x] s H1 H2; try discriminate; cbn; [reflexivity|].
  cbn in H1, H2. injection H1 as H1. injection H2 as H2. f_equal; [ring|apply IH; assumption].
Qed.

Lemma vmulR_axpy : forall e v m s, vmulR (vaxpy s e v) m = vaxpy s (vmulR e m) (vmulR v m).
Proof. induction e as [|a e IH]; intros [|b v] [|c m] s; cbn; try reflexivity. f_equal; [ring|apply IH]. Qed.

Lemma vaxpy_length : forall e v s, length e = length v -> length (vaxpy s e v) = length v.
Proof. induction e as [|a e IH]; intros [|b v] s H; try discriminate; cbn; [reflexivity|]. cbn in H. injection H as H. rewrite IH by exact H. reflexivity. Qed.

Lemma vaxpy_vadd : forall a b c d s, length a = length b -> length c = length d -> length a = length c ->
  vaxpy s (vaddR a b) (vaddR c d) = vaddR (vaxpy s a c) (vaxpy s b d).
Proof.
  induction a as [|x a IH]; intros [|y b] [|u c] [|v d] s H1 H2 H3; try discriminate; cbn; [reflexivity|].
  cbn in *. injection H1 as H1. injection H2 as H2. injection H3 as H3. f_equal; [ring|apply IH; assumption].
Qed.

Lemma vaxpy_vscale : forall r a b s, vaxpy s (vscaleR a r) (vscaleR b r) = vscaleR (b + s * a) r.
Proof. unfold vscaleR. induction r as [|x r IH]; intros a b s; cbn; [reflexivity|]. f_equal; [ring|apply IH]. Qed.

Lemma vaxpy_zeros n s : vaxpy s (repeat 0 n) (repeat 0 n) = repeat 0 n.
Proof. induction n as [|n IH]; cbn; [reflexivity|]. f_equal; [ring|exact IH]. Qed.

Lemma xmat_axpy dout : forall e v rows s, length e = length v -> List.Forall (fun r => length r = dout) rows ->
  xmat dout (vaxpy s e v) rows = vaxpy s (xmat dout e rows) (xmat dout v rows).
Proof.
  induction e as [|a e IH]; intros [|b v] rows s Hl Hr; try discriminate; cbn; [symmetry; apply vaxpy_zeros|].
  cbn in Hl. injection Hl as Hl. destruct rows as [|r rows]; [symmetry; apply vaxpy_zeros|].
  inversion Hr as [|? ? Hr1 Hrs]; subst.
  rewrite vaxpy_vadd; try (unfold vscaleR; rewrite !map_length; try reflexivity).
  - rewrite vaxpy_vscale, IH by assumption. reflexivity.
  - rewrite xmat_length by exact Hrs. reflexivity.
  - rewrite xmat_length by exact Hrs. reflexivity.
Qed.

Lemma transform_axpy t e v s : length e = length v -> wf_tmat t (length v) ->
  transform t (vaxpy s e v) = vaxpy s (transform t e) (transform t v).
Proof.
  intros Hl Hw. destruct t as [|m|dout rows]; cbn; [reflexivity|apply vmulR_axpy|]. destruct Hw as [_ Hr]. apply xmat_axpy; assumption.
Qed.

(* the predictor along the coordinate line IS falong in transformed space *)
Theorem predictor_along_line t L q xs cs z e : wf_tmat t (length z) -> length e = length z ->
  List.Forall (fun x => length x = length z) xs ->
  forall s, fpred (closed_l2 t L q) xs cs (vaxpy s e z)
          = falong L q (map (fun x => transform t (vsubR z x)) xs) cs (transform t e) s.
Proof.
  intros Hw He Hx s. revert cs. induction xs as [|x xs IH]; intros cs; [reflexivity|]. destruct cs as [|c cs]; [reflexivity|].
  inversion Hx as [|? ? Hx1 Hxs]; subst. cbn [fpred map falong]. rewrite (IH Hxs cs). f_equal. f_equal.
  unfold closed_l2, kalong, norm2.
  (* closed_l2 takes (x, z'): T(x - z') ; symmetric in the norm *)
  assert (E : sumsq (transform t (vsubR x (vaxpy s e z))) = sumsq (vaxpy s (transform t e) (transform t (vsubR z x)))).
  { rewrite <- transform_axpy by (try rewrite vsubR_length by (symmetry; exact Hx1); try exact He; try exact Hw;
                                   rewrite vsubR_length by (symmetry; exact Hx1); exact Hw).
    rewrite <- vaxpy_sub by (try exact He; symmetry; exact Hx1).
    rewrite <- (transform_sub t (vaxpy s e z) x), <- (transform_sub t x (vaxpy s e z));
      try (rewrite vaxpy_length by exact He); try exact Hw; try (symmetry; exact Hx1); try exact Hx1;
      try (rewrite Hx1; exact Hw).
    apply sumsq_neg_sym. }
  rewrite E. reflexivity.
Qed.

(* ---------- instances of the symmetry hypothesis ---------- *)
Fixpoint basis (d n : nat) : list R :=
  match n with O => [] | S n' => match d with O => 1 :: repeat 0 n' | S d' => 0 :: basis d' n' end end.

Lemma basis_length : forall n d, length (basis d n) = n.
Proof. induction n as [|n IH]; intros [|d]; cbn; try reflexivity; [rewrite repeat_length|rewrite IH]; reflexivity. Qed.

Lemma vdotR_zeros_r : forall v n, vdotR v (repeat 0 n) = 0.
Proof. induction v as [|a v IH]; intros [|n]; cbn; try ring. rewrite IH. ring. Qed.

Lemma vdot_basis : forall n v d, length v = n -> vdotR v (basis d n) = nth d v 0.
Proof.
  induction n as [|n IH]; intros [|a v] d H; try discriminate; [destruct d; reflexivity|].
  cbn in H. injection H as H. destruct d as [|d]; cbn; [rewrite vdotR_zeros_r; ring|]. rewrite (IH v d H). ring.
Qed.

Theorem sym_at_none d n : sym_at TNone d (transform TNone (basis d n)) n.
Proof. intros v Hv. cbn. symmetry. apply vdot_basis. exact Hv. Qed.

Lemma vdot_vmul_basis : forall n v m d, length v = n -> length m = n -> vdotR v (vmulR (basis d n) m) = nth d (vmulR v m) 0.
Proof.
  induction n as [|n IH]; intros [|a v] [|c m] d Hv Hm; try discriminate; [destruct d; reflexivity|].
  cbn in Hv, Hm. injection Hv as Hv. injection Hm as Hm. destruct d as [|d]; cbn.
  - assert (Z : forall k m', vmulR (repeat 0 k) m' = repeat 0 (Nat.min k (length m'))).
    { induction k as [|k IHk]; intros [|x m']; cbn; try reflexivity. f_equal; [ring|apply IHk]. }
    rewrite Z, vdotR_zeros_r. ring.
  - rewrite (IH v m d Hv Hm). ring.
Qed.

Theorem sym_at_diag m d : sym_at (TDiag m) d (transform (TDiag m) (basis d (length m))) (length m).
Proof. intros v Hv. cbn. symmetry. apply vdot_vmul_basis; [exact Hv|reflexivity]. Qed.

(* used by the interval-certified correspondence: the mask is 1 away from the center *)
Lemma gweight_far L q eps dist : 0 < eps -> eps <= dist ->
  gweight L q eps dist = exp (Rpower dist q * (- 1 / Rpower L q)) * Rpower dist (q - 2) * (- q / Rpower L q).
Proof.
  intros He Hd. unfold gweight. destruct (Rle_dec eps dist) as [_|n]; [|contradiction].
  rewrite Rmax_left by exact Hd. rewrite pw_pos by lra. ring.
Qed.

(* LightLaplaceKernel.get_function_grads: distances from the norm expansion with M, gradient (sum_i c_i w_i (z - x_i)) @ M, no second multiplication *)
Fixpoint gsum_light (t : tmat) (L q eps : R) (z : list R) (xs : list (list R)) (cs : list R) : list R :=
  match xs, cs with
  | x :: xs', c :: cs' =>
      vaddR (vscaleR (c * gweight L q eps (sqrt (Rmax 0 (light_sq t x z)))) (vsubR (transform t z) (transform t x)))
            (gsum_light t L q eps z xs' cs')
  | _, _ => repeat 0 (length (transform t z))
  end.
Definition grad_light (t : tmat) (L q eps : R) (xs : list (list R)) (cs : list R) (z : list R) : list R := gsum_light t L q eps z xs cs.
