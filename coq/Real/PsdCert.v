(* PsdCert.v — a positive-semidefiniteness certificate checker over Z with a
   soundness theorem over R.  Standard library only. *)
Require Import ZArith Reals List Lia Lra Psatz Bool.
Import ListNotations.
Open Scope R_scope.

(* ------------------------------------------------------------------ *)
(* Definitions (names fixed by the specification; all executable)      *)
(* ------------------------------------------------------------------ *)

Definition zmat := list (list Z).
Definition cert := list (Z * list Z).                       (* (n_i, W_i) *)

Definition entry (K : zmat) (a b : nat) : Z := nth b (nth a K []) 0%Z.

Definition cert_entry (c : cert) (a b : nat) : Z :=
  fold_right (fun nw acc => (fst nw * nth a (snd nw) 0 * nth b (snd nw) 0 + acc)%Z) 0%Z c.

Definition psd_cert_okb (dim : nat) (K : zmat) (D : Z) (c : cert) : bool :=
       (0 <? D)%Z && (length K =? dim) && forallb (fun r => length r =? dim) K
    && forallb (fun nw => (0 <=? fst nw)%Z && (length (snd nw) =? dim)) c
    && forallb (fun a => forallb (fun b => (D * entry K a b =? cert_entry c a b)%Z) (seq 0 dim)) (seq 0 dim).

(* integer row against real vector *)
Fixpoint rdot (r : list Z) (v : list R) : R :=
  match r, v with
  | x :: r', y :: v' => IZR x * y + rdot r' v'
  | _, _ => 0
  end.

(* bilinear form  sum_a v_a * (sum_b K_ab w_b) *)
Fixpoint bform (K : zmat) (v w : list R) : R :=
  match K, v with
  | r :: K', y :: v' => y * rdot r w + bform K' v' w
  | _, _ => 0
  end.

(* quadratic form  sum_a v_a * (sum_b K_ab v_b) *)
Definition qform (K : zmat) (v : list R) : R := bform K v v.

(* qform coincides with the literal nested-fix expression of the specification *)
Lemma rdot_spec_eq : forall r v,
  rdot r v =
  (fix go (r : list Z) (v : list R) {struct r} : R :=
     match r, v with x :: r', y :: v' => IZR x * y + go r' v' | _, _ => 0 end) r v.
Proof. reflexivity. Qed.

Lemma qform_spec_eq : forall K v,
  qform K v =
  (fix go (K : zmat) (v' : list R) {struct K} : R :=
     match K, v' with r :: K', y :: v'' => y * rdot r v + go K' v'' | _, _ => 0 end) K v.
Proof.
  intros K v. unfold qform.
  enough (G : forall v0, bform K v0 v =
    (fix go (K : zmat) (v' : list R) {struct K} : R :=
     match K, v' with r :: K', y :: v'' => y * rdot r v + go K' v'' | _, _ => 0 end) K v0)
    by (apply G).
  induction K as [|r K IH]; intros v'; [reflexivity|].
  destruct v' as [|y v'']; [reflexivity|].
  cbn [bform]. rewrite IH. reflexivity.
Qed.

Fixpoint sumsq (v : list R) : R :=
  match v with [] => 0 | x :: v' => x * x + sumsq v' end.

(* add t to diagonal *)
Fixpoint add_at (i : nat) (t : Z) (r : list Z) : list Z :=
  match r with
  | [] => []
  | x :: r' => match i with
               | O => (x + t)%Z :: r'
               | S i' => x :: add_at i' t r'
               end
  end.

Fixpoint add_diag_from (i : nat) (t : Z) (K : zmat) : zmat :=
  match K with
  | [] => []
  | r :: K' => add_at i t r :: add_diag_from (S i) t K'
  end.

Definition add_diag (t : Z) (K : zmat) : zmat := add_diag_from 0 t K.

(* ------------------------------------------------------------------ *)
(* Finite sums over lists of indices                                   *)
(* ------------------------------------------------------------------ *)

Fixpoint rsum (l : list nat) (f : nat -> R) : R :=
  match l with [] => 0 | a :: l' => f a + rsum l' f end.

Lemma rsum_ext : forall l f g, (forall a, In a l -> f a = g a) -> rsum l f = rsum l g.
Proof.
  induction l as [|a l IH]; intros f g H; [reflexivity|].
  cbn [rsum]. rewrite (H a (or_introl eq_refl)).
  rewrite (IH f g); [reflexivity|]. intros b Hb. apply H. right. exact Hb.
Qed.

Lemma rsum_zero : forall l, rsum l (fun _ => 0) = 0.
Proof. induction l as [|a l IH]; cbn [rsum]; [reflexivity|]. rewrite IH. ring. Qed.

Lemma rsum_plus : forall l f g, rsum l (fun a => f a + g a) = rsum l f + rsum l g.
Proof. induction l as [|a l IH]; intros f g; cbn [rsum]; [ring|]. rewrite IH. ring. Qed.

Lemma rsum_scal : forall l c f, rsum l (fun a => c * f a) = c * rsum l f.
Proof. induction l as [|a l IH]; intros c f; cbn [rsum]; [ring|]. rewrite IH. ring. Qed.

Lemma rsum_scal_r : forall l c f, rsum l (fun a => f a * c) = rsum l f * c.
Proof. induction l as [|a l IH]; intros c f; cbn [rsum]; [ring|]. rewrite IH. ring. Qed.

Lemma rsum_map_S : forall l f, rsum (map S l) f = rsum l (fun a => f (S a)).
Proof. induction l as [|a l IH]; intros f; cbn [rsum map]; [reflexivity|]. rewrite IH. reflexivity. Qed.

Lemma rsum_seq_S : forall n f,
  rsum (seq 0 (S n)) f = f O + rsum (seq 0 n) (fun a => f (S a)).
Proof.
  intros n f. cbn [seq rsum]. rewrite <- seq_shift. rewrite rsum_map_S. reflexivity.
Qed.

(* ------------------------------------------------------------------ *)
(* rdot / bform as index sums                                          *)
(* ------------------------------------------------------------------ *)

Lemma rdot_rsum : forall r v, length r = length v ->
  rdot r v = rsum (seq 0 (length v)) (fun b => IZR (nth b r 0%Z) * nth b v 0).
Proof.
  induction r as [|x r IH]; intros v Hl; destruct v as [|y v]; cbn [length] in Hl; try discriminate.
  - reflexivity.
  - cbn [length]. rewrite rsum_seq_S. cbn [rdot nth].
    rewrite (IH v); [reflexivity|]. lia.
Qed.

Lemma bform_rsum : forall K v w, length K = length v ->
  bform K v w = rsum (seq 0 (length v)) (fun a => nth a v 0 * rdot (nth a K []) w).
Proof.
  induction K as [|r K IH]; intros v w Hl; destruct v as [|y v]; cbn [length] in Hl; try discriminate.
  - reflexivity.
  - cbn [length]. rewrite rsum_seq_S. cbn [bform nth].
    rewrite (IH v w); [reflexivity|]. lia.
Qed.

Lemma row_length : forall dim (K : zmat) a,
  Forall (fun r => length r = dim) K -> (a < length K)%nat -> length (nth a K []) = dim.
Proof.
  intros dim K a HF Ha. rewrite Forall_forall in HF. apply HF. apply nth_In. exact Ha.
Qed.

Lemma bform_dsum : forall dim (K : zmat) v w,
  length K = dim -> Forall (fun r => length r = dim) K ->
  length v = dim -> length w = dim ->
  bform K v w =
  rsum (seq 0 dim) (fun a => rsum (seq 0 dim) (fun b => nth a v 0 * IZR (entry K a b) * nth b w 0)).
Proof.
  intros dim K v w HK HF Hv Hw.
  rewrite bform_rsum by lia. rewrite Hv.
  apply rsum_ext. intros a Ha. apply in_seq in Ha.
  rewrite rdot_rsum.
  - rewrite Hw. rewrite <- rsum_scal. apply rsum_ext. intros b _. unfold entry. ring.
  - rewrite (row_length dim K a HF); lia.
Qed.

(* ------------------------------------------------------------------ *)
(* The certificate side                                                *)
(* ------------------------------------------------------------------ *)

Definition cbil (c : cert) (v w : list R) : R :=
  fold_right (fun nw acc => IZR (fst nw) * rdot (snd nw) v * rdot (snd nw) w + acc) 0 c.

Lemma cert_dsum : forall dim (c : cert) v w,
  Forall (fun nw => length (snd nw) = dim) c ->
  length v = dim -> length w = dim ->
  rsum (seq 0 dim) (fun a => rsum (seq 0 dim)
     (fun b => nth a v 0 * IZR (cert_entry c a b) * nth b w 0)) = cbil c v w.
Proof.
  intros dim c v w HF Hv Hw.
  induction c as [|nw c IH].
  - unfold cert_entry, cbil. cbn [fold_right].
    transitivity (rsum (seq 0 dim) (fun _ => 0)); [|apply rsum_zero].
    apply rsum_ext. intros a _.
    transitivity (rsum (seq 0 dim) (fun _ => 0)); [|apply rsum_zero].
    apply rsum_ext. intros b _. ring.
  - inversion HF as [|nw' c' Hnw HF' Heq]; subst nw' c'.
    specialize (IH HF').
    unfold cbil. cbn [fold_right]. fold (cbil c v w). rewrite <- IH.
    rewrite (rdot_rsum (snd nw) v) by lia.
    rewrite (rdot_rsum (snd nw) w) by lia.
    rewrite Hv, Hw.
    set (N := IZR (fst nw)).
    set (Sv := rsum (seq 0 dim) (fun b => IZR (nth b (snd nw) 0%Z) * nth b v 0)).
    set (Sw := rsum (seq 0 dim) (fun b => IZR (nth b (snd nw) 0%Z) * nth b w 0)).
    assert (E : N * Sv * Sw =
      rsum (seq 0 dim) (fun a => rsum (seq 0 dim)
        (fun b => (N * (IZR (nth a (snd nw) 0%Z) * nth a v 0)) * (IZR (nth b (snd nw) 0%Z) * nth b w 0)))).
    { symmetry.
      transitivity (rsum (seq 0 dim) (fun a => (N * (IZR (nth a (snd nw) 0%Z) * nth a v 0)) * Sw)).
      - apply rsum_ext. intros a _. apply rsum_scal.
      - rewrite rsum_scal_r. rewrite rsum_scal. reflexivity. }
    rewrite E. rewrite <- rsum_plus.
    apply rsum_ext. intros a _.
    rewrite <- rsum_plus.
    apply rsum_ext. intros b _.
    unfold cert_entry. cbn [fold_right]. fold (cert_entry c a b).
    rewrite plus_IZR, !mult_IZR. unfold N. ring.
Qed.

Lemma cbil_sym : forall c v w, cbil c v w = cbil c w v.
Proof.
  induction c as [|nw c IH]; intros v w; [reflexivity|].
  unfold cbil. cbn [fold_right]. fold (cbil c v w). fold (cbil c w v).
  rewrite (IH v w). ring.
Qed.

Lemma cbil_nonneg : forall c v,
  Forall (fun nw => (0 <= fst nw)%Z) c -> 0 <= cbil c v v.
Proof.
  intros c v HF. induction c as [|nw c IH]; [cbn; lra|].
  inversion HF as [|nw' c' Hnw HF' Heq]; subst nw' c'.
  specialize (IH HF').
  unfold cbil. cbn [fold_right]. fold (cbil c v v).
  apply IZR_le in Hnw.
  set (x := rdot (snd nw) v).
  assert (H1 : 0 <= IZR (fst nw) * (x * x)).
  { apply Rmult_le_pos; [exact Hnw|]. apply Rle_0_sqr. }
  lra.
Qed.

(* sum_i n_i (x_i + t y_i)^2 >= 0, written out as a polynomial in t *)
Lemma cbil_poly_nonneg : forall c v w,
  Forall (fun nw => (0 <= fst nw)%Z) c ->
  forall t, 0 <= cbil c v v + 2 * t * cbil c v w + t * t * cbil c w w.
Proof.
  intros c v w HF t. induction c as [|nw c IH]; [cbn; lra|].
  inversion HF as [|nw' c' Hnw HF' Heq]; subst nw' c'.
  specialize (IH HF').
  unfold cbil. cbn [fold_right]. fold (cbil c v v). fold (cbil c v w). fold (cbil c w w).
  apply IZR_le in Hnw.
  set (x := rdot (snd nw) v). set (y := rdot (snd nw) w). set (N := IZR (fst nw)) in *.
  assert (H1 : 0 <= N * ((x + t * y) * (x + t * y))).
  { apply Rmult_le_pos; [exact Hnw|]. apply Rle_0_sqr. }
  replace (N * x * x + cbil c v v + 2 * t * (N * x * y + cbil c v w)
           + t * t * (N * y * y + cbil c w w))
    with (N * ((x + t * y) * (x + t * y))
          + (cbil c v v + 2 * t * cbil c v w + t * t * cbil c w w)) by ring.
  lra.
Qed.

Lemma discriminant : forall A B C : R,
  0 <= C -> (forall t, 0 <= A + 2 * t * B + t * t * C) -> B * B <= A * C.
Proof.
  intros A B C HC HP.
  destruct (Req_dec C 0) as [HC0|HC0].
  - subst C.
    destruct (Req_dec B 0) as [HB0|HB0]; [subst B; lra|].
    exfalso. specialize (HP (- (A + 1) / (2 * B))).
    assert (E : A + 2 * (- (A + 1) / (2 * B)) * B + (- (A + 1) / (2 * B)) * (- (A + 1) / (2 * B)) * 0 = -1)
      by (field; exact HB0).
    rewrite E in HP. lra.
  - assert (HCp : 0 < C) by lra.
    specialize (HP (- B / C)).
    assert (E : A + 2 * (- B / C) * B + (- B / C) * (- B / C) * C = (A * C - B * B) / C)
      by (field; exact HC0).
    rewrite E in HP.
    assert (H2 : 0 <= (A * C - B * B) / C * C) by (apply Rmult_le_pos; lra).
    replace ((A * C - B * B) / C * C) with (A * C - B * B) in H2 by (field; exact HC0).
    lra.
Qed.

(* ------------------------------------------------------------------ *)
(* Decoding the boolean checker                                        *)
(* ------------------------------------------------------------------ *)

Lemma okb_spec : forall dim K D c, psd_cert_okb dim K D c = true ->
  (0 < D)%Z /\ length K = dim /\ Forall (fun r => length r = dim) K /\
  Forall (fun nw => (0 <= fst nw)%Z) c /\
  Forall (fun nw => length (snd nw) = dim) c /\
  (forall a b, (a < dim)%nat -> (b < dim)%nat -> (D * entry K a b = cert_entry c a b)%Z).
Proof.
  intros dim K D c H. unfold psd_cert_okb in H.
  apply andb_prop in H. destruct H as [H H5].
  apply andb_prop in H. destruct H as [H H4].
  apply andb_prop in H. destruct H as [H H3].
  apply andb_prop in H. destruct H as [H1 H2].
  apply Z.ltb_lt in H1. apply Nat.eqb_eq in H2.
  rewrite forallb_forall in H3, H4, H5.
  split; [exact H1|]. split; [exact H2|].
  split.
  { apply Forall_forall. intros r Hr. apply Nat.eqb_eq. apply H3. exact Hr. }
  split.
  { apply Forall_forall. intros nw Hnw. specialize (H4 nw Hnw).
    apply andb_prop in H4. destruct H4 as [H4 _]. apply Z.leb_le. exact H4. }
  split.
  { apply Forall_forall. intros nw Hnw. specialize (H4 nw Hnw).
    apply andb_prop in H4. destruct H4 as [_ H4]. apply Nat.eqb_eq. exact H4. }
  intros a b Ha Hb.
  assert (Ia : In a (seq 0 dim)) by (apply in_seq; lia).
  assert (Ib : In b (seq 0 dim)) by (apply in_seq; lia).
  specialize (H5 a Ia). rewrite forallb_forall in H5. specialize (H5 b Ib).
  apply Z.eqb_eq. exact H5.
Qed.

(* Key identity:  D * (v^T K w) = sum_i n_i (W_i . v) (W_i . w) *)
Theorem psd_cert_identity : forall dim K D c, psd_cert_okb dim K D c = true ->
  forall v w : list R, length v = dim -> length w = dim ->
  IZR D * bform K v w = cbil c v w.
Proof.
  intros dim K D c H v w Hv Hw.
  destruct (okb_spec dim K D c H) as (HD & HK & HFK & Hn & HW & Hent).
  rewrite (bform_dsum dim K v w HK HFK Hv Hw).
  rewrite <- (cert_dsum dim c v w HW Hv Hw).
  rewrite <- rsum_scal. apply rsum_ext. intros a Ha. apply in_seq in Ha.
  rewrite <- rsum_scal. apply rsum_ext. intros b Hb. apply in_seq in Hb.
  rewrite <- (Hent a b) by lia. rewrite mult_IZR. ring.
Qed.

(* ------------------------------------------------------------------ *)
(* Main theorems                                                       *)
(* ------------------------------------------------------------------ *)

Theorem psd_cert_sound : forall dim K D c, psd_cert_okb dim K D c = true ->
  forall v : list R, length v = dim -> 0 <= qform K v.
Proof.
  intros dim K D c H v Hv.
  pose proof (psd_cert_identity dim K D c H v v Hv Hv) as E.
  destruct (okb_spec dim K D c H) as (HD & _ & _ & Hn & _ & _).
  pose proof (cbil_nonneg c v Hn) as Hc.
  apply IZR_lt in HD. unfold qform.
  apply (Rmult_le_reg_l (IZR D)); [exact HD|]. rewrite E. lra.
Qed.

(* An accepted certificate forces the bilinear form to be symmetric. *)
Theorem psd_cert_bform_sym : forall dim K D c, psd_cert_okb dim K D c = true ->
  forall v w : list R, length v = dim -> length w = dim -> bform K v w = bform K w v.
Proof.
  intros dim K D c H v w Hv Hw.
  pose proof (psd_cert_identity dim K D c H v w Hv Hw) as E1.
  pose proof (psd_cert_identity dim K D c H w v Hw Hv) as E2.
  destruct (okb_spec dim K D c H) as (HD & _).
  apply IZR_lt in HD.
  apply (Rmult_eq_reg_l (IZR D)); [|lra].
  rewrite E1, E2. apply cbil_sym.
Qed.

(* Cauchy–Schwarz for the bilinear form  bform K v w = sum_a v_a (sum_b K_ab w_b). *)
Theorem psd_cert_sound_symmetrised : forall dim K D c, psd_cert_okb dim K D c = true ->
  forall v w : list R, length v = dim -> length w = dim ->
  bform K v w * bform K v w <= qform K v * qform K w.
Proof.
  intros dim K D c H v w Hv Hw.
  pose proof (psd_cert_identity dim K D c H v w Hv Hw) as Evw.
  pose proof (psd_cert_identity dim K D c H v v Hv Hv) as Evv.
  pose proof (psd_cert_identity dim K D c H w w Hw Hw) as Eww.
  destruct (okb_spec dim K D c H) as (HD & _ & _ & Hn & _ & _).
  apply IZR_lt in HD.
  pose proof (discriminant (cbil c v v) (cbil c v w) (cbil c w w)
                (cbil_nonneg c w Hn) (cbil_poly_nonneg c v w Hn)) as HCS.
  rewrite <- Evw, <- Evv, <- Eww in HCS. unfold qform.
  set (d := IZR D) in *. set (b := bform K v w) in *.
  set (p := bform K v v) in *. set (q := bform K w w) in *.
  assert (Hdd : 0 < d * d) by (apply Rmult_lt_0_compat; exact HD).
  apply (Rmult_le_reg_l (d * d)); [exact Hdd|].
  replace (d * d * (b * b)) with (d * b * (d * b)) by ring.
  replace (d * d * (p * q)) with (d * p * (d * q)) by ring.
  exact HCS.
Qed.

(* ------------------------------------------------------------------ *)
(* Diagonal shift                                                      *)
(* ------------------------------------------------------------------ *)

Lemma rdot_add_at : forall i t r v, (i < length r)%nat -> length r = length v ->
  rdot (add_at i t r) v = rdot r v + IZR t * nth i v 0.
Proof.
  intros i t r. revert i.
  induction r as [|x r IH]; intros i v Hi Hl; cbn [length] in Hi; [lia|].
  destruct v as [|y v]; cbn [length] in Hl; [discriminate|].
  destruct i as [|i].
  - cbn [add_at rdot nth]. rewrite plus_IZR. ring.
  - cbn [add_at rdot nth]. rewrite (IH i v); [ring|lia|lia].
Qed.

Lemma length_add_diag_from : forall K i t, length (add_diag_from i t K) = length K.
Proof.
  induction K as [|r K IH]; intros i t; cbn [add_diag_from length]; [reflexivity|].
  rewrite IH. reflexivity.
Qed.

Lemma nth_add_diag_from : forall K i t a, (a < length K)%nat ->
  nth a (add_diag_from i t K) [] = add_at (i + a) t (nth a K []).
Proof.
  induction K as [|r K IH]; intros i t a Ha; cbn [length] in Ha; [lia|].
  destruct a as [|a].
  - cbn [add_diag_from nth]. rewrite Nat.add_0_r. reflexivity.
  - cbn [add_diag_from nth]. rewrite (IH (S i) t a) by lia.
    replace (S i + a)%nat with (i + S a)%nat by lia. reflexivity.
Qed.

Lemma sumsq_rsum : forall v,
  sumsq v = rsum (seq 0 (length v)) (fun a => nth a v 0 * nth a v 0).
Proof.
  induction v as [|x v IH]; [reflexivity|].
  cbn [length]. rewrite rsum_seq_S. cbn [sumsq nth]. rewrite IH. reflexivity.
Qed.

(* general (bilinear) version *)
Lemma bform_shift : forall dim (K : zmat) (tol : Z) v w,
  length v = dim -> length w = dim -> length K = dim -> Forall (fun r => length r = dim) K ->
  bform (add_diag tol K) v w =
  bform K v w + IZR tol * rsum (seq 0 dim) (fun a => nth a v 0 * nth a w 0).
Proof.
  intros dim K tol v w Hv Hw HK HF.
  unfold add_diag.
  rewrite bform_rsum by (rewrite length_add_diag_from; lia).
  rewrite (bform_rsum K) by lia.
  rewrite Hv. rewrite <- rsum_scal. rewrite <- rsum_plus.
  apply rsum_ext. intros a Ha. apply in_seq in Ha.
  rewrite nth_add_diag_from by lia. cbn [plus].
  pose proof (row_length dim K a HF ltac:(lia)) as Hr.
  rewrite rdot_add_at by lia. ring.
Qed.

Theorem psd_shift : forall dim (K : zmat) (tol : Z) v,
  length v = dim -> length K = dim -> Forall (fun r => length r = dim) K ->
  qform (add_diag tol K) v = qform K v + IZR tol * sumsq v.
Proof.
  intros dim K tol v Hv HK HF. unfold qform.
  rewrite (bform_shift dim K tol v v Hv Hv HK HF).
  rewrite sumsq_rsum. rewrite Hv. reflexivity.
Qed.

(* Harness-facing corollary: certificate for K + tol*I gives  qform K v >= - tol * |v|^2. *)
Corollary psd_cert_shift_sound : forall dim K tol D c,
  length K = dim -> Forall (fun r => length r = dim) K ->
  psd_cert_okb dim (add_diag tol K) D c = true ->
  forall v : list R, length v = dim -> - IZR tol * sumsq v <= qform K v.
Proof.
  intros dim K tol D c HK HF H v Hv.
  pose proof (psd_cert_sound dim (add_diag tol K) D c H v Hv) as Hs.
  rewrite (psd_shift dim K tol v Hv HK HF) in Hs. lra.
Qed.

(* ------------------------------------------------------------------ *)
(* Examples (non-vacuity)                                              *)
(* ------------------------------------------------------------------ *)

Definition K3 : zmat := [[4;2;0];[2;5;3];[0;3;6]]%Z.
(* LDL^T:  d = (4, 4, 15/4),  l1 = (1,1/2,0), l2 = (0,1,3/4), l3 = (0,0,1);
   clearing denominators:  4 K = 4 (2,1,0)(2,1,0)^T + 1 (0,4,3)(0,4,3)^T + 15 (0,0,1)(0,0,1)^T *)
Definition D3 : Z := 4%Z.
Definition c3 : cert := [(4, [2;1;0]); (1, [0;4;3]); (15, [0;0;1])]%Z.

Example K3_cert_ok : psd_cert_okb 3 K3 D3 c3 = true.
Proof. vm_compute. reflexivity. Qed.

(* a wrong certificate is rejected *)
Example K3_cert_bad : psd_cert_okb 3 K3 D3 [(4, [2;1;0]); (1, [0;4;3]); (14, [0;0;1])]%Z = false.
Proof. vm_compute. reflexivity. Qed.

(* a negative weight is rejected *)
Example K3_cert_neg : psd_cert_okb 1 [[-1]]%Z 1 [(-1, [1])]%Z = false.
Proof. vm_compute. reflexivity. Qed.

Example K3_psd : forall v : list R, length v = 3%nat -> 0 <= qform K3 v.
Proof. exact (psd_cert_sound 3 K3 D3 c3 K3_cert_ok). Qed.

Example K3_psd_instance : 0 <= qform K3 [1; -2; 1].
Proof. apply K3_psd. reflexivity. Qed.

Example K3_qform_value : qform K3 [1; -2; 1] = 10.
Proof. unfold qform, K3. cbn [bform rdot]. lra. Qed.

Example K3_cauchy_schwarz :
  bform K3 [1; -2; 1] [0; 1; 3] * bform K3 [1; -2; 1] [0; 1; 3]
  <= qform K3 [1; -2; 1] * qform K3 [0; 1; 3].
Proof.
  apply (psd_cert_sound_symmetrised 3 K3 D3 c3 K3_cert_ok); reflexivity.
Qed.

Example K3_bform_value : bform K3 [1; -2; 1] [0; 1; 3] = -5 /\ qform K3 [0; 1; 3] = 77.
Proof. unfold qform, K3. cbn [bform rdot]. split; lra. Qed.

Example shift_compute : add_diag 7 K3 = [[11;2;0];[2;12;3];[0;3;13]]%Z.
Proof. vm_compute. reflexivity. Qed.

Example K3_shift : qform (add_diag 7 K3) [1; -2; 1] = qform K3 [1; -2; 1] + IZR 7 * sumsq [1; -2; 1].
Proof.
  apply (psd_shift 3); [reflexivity|reflexivity|].
  repeat constructor.
Qed.

(* the indefinite G = [[1;2];[2;1]] shifted by tol = 1 gives
   [[2;2];[2;2]] = 2 (1,1)(1,1)^T, which is certified; hence  qform G v >= - |v|^2 . *)
Definition Kbad : zmat := [[1;2];[2;1]]%Z.

Example Kbad_shift_cert : psd_cert_okb 2 (add_diag 1 Kbad) 1 [(2, [1;1])]%Z = true.
Proof. vm_compute. reflexivity. Qed.

Example Kbad_lower_bound : forall v : list R, length v = 2%nat -> - IZR 1 * sumsq v <= qform Kbad v.
Proof.
  apply (psd_cert_shift_sound 2 Kbad 1 1 [(2, [1;1])]%Z); [reflexivity| |exact Kbad_shift_cert].
  repeat constructor.
Qed.

(* the non-PSD matrix: a witness of negativity *)
Example Kbad_not_psd : exists v : list R, length v = 2%nat /\ qform Kbad v < 0.
Proof.
  exists [1; -1]. split; [reflexivity|].
  unfold qform, Kbad. cbn [bform rdot]. lra.
Qed.

(* hence NO certificate whatsoever is accepted for it *)
Example Kbad_no_cert : forall D c, psd_cert_okb 2 Kbad D c = false.
Proof.
  intros D c. destruct (psd_cert_okb 2 Kbad D c) eqn:E; [|reflexivity].
  exfalso. destruct Kbad_not_psd as (v & Hv & Hneg).
  pose proof (psd_cert_sound 2 Kbad D c E v Hv). lra.
Qed.

Print Assumptions psd_cert_sound.
Print Assumptions psd_cert_identity.
Print Assumptions psd_cert_bform_sym.
Print Assumptions psd_cert_sound_symmetrised.
Print Assumptions psd_shift.
Print Assumptions psd_cert_shift_sound.
Print Assumptions Kbad_no_cert.
