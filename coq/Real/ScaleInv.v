(* C19, composition: if the four component operations of one RFM round are homogeneous in the way the component theorems state
   (adaptive bandwidth of degree 1; Gram matrix, normalised AGOP and prediction of degree 0 when inputs and bandwidth are scaled
   together), then EVERY round of the alternation  bandwidth -> solve -> AGOP  started from the same feature matrix produces the same
   coefficients and feature matrices on c*X as on X, the bandwidths are scaled by c, and every prediction (hence every validation
   score, hence the selected iterate and the returned model) is unchanged.  The solver is an arbitrary function of the Gram matrix
   and the targets.  Component theorems: Bandwidth.laplace_*_scale_invariant (Gram / prediction), lower_median_homogeneous with
   norm2_scale (bandwidth), grad_l2_homogeneous below in Bandwidth.v (AGOP of the closed-form L2 gradient). *)
From Coq Require Import Reals List Lra.
Import ListNotations.
Local Open Scope R_scope.

Section Pipeline.
  Variables Data Mat Gram Coef Query Out : Type.
  Variable scale : R -> Data -> Data.
  Variable qscale : R -> Query -> Query.
  Variable bw : Mat -> Data -> R.                       (* base bandwidth x median distance under the feature matrix *)
  Variable gram : Mat -> R -> Data -> Gram.
  Variable solve : Gram -> Coef.                        (* any function: (K + reg I)^-1 Y for the fixed targets *)
  Variable agop : Mat -> R -> Data -> Coef -> Mat.      (* normalised AGOP of the predictor *)
  Variable predict : Mat -> R -> Data -> Coef -> Query -> Out.

  Variable c : R.
  Hypothesis c_pos : 0 < c.
  Hypothesis bw_hom : forall M X, bw M (scale c X) = c * bw M X.
  Hypothesis gram_inv : forall M L X, gram M (c * L) (scale c X) = gram M L X.
  Hypothesis agop_inv : forall M L X a, agop M (c * L) (scale c X) a = agop M L X a.
  Hypothesis predict_inv : forall M L X a z, predict M (c * L) (scale c X) a (qscale c z) = predict M L X a z.

  (* state after n rounds: feature matrix, and (bandwidth, coefficients) of the solve performed with it *)
  Fixpoint featmat (M0 : Mat) (X : Data) (n : nat) : Mat :=
    match n with
    | O => M0
    | S k => let M := featmat M0 X k in let L := bw M X in agop M L X (solve (gram M L X))
    end.
  Definition bandwidth (M0 : Mat) (X : Data) (n : nat) : R := bw (featmat M0 X n) X.
  Definition coefs (M0 : Mat) (X : Data) (n : nat) : Coef := solve (gram (featmat M0 X n) (bandwidth M0 X n) X).
  Definition prediction (M0 : Mat) (X : Data) (n : nat) (z : Query) : Out :=
    predict (featmat M0 X n) (bandwidth M0 X n) X (coefs M0 X n) z.

  Lemma featmat_invariant M0 X : forall n, featmat M0 (scale c X) n = featmat M0 X n.
  Proof.
    induction n as [|n IH]; [reflexivity|]. cbn [featmat]. rewrite IH, bw_hom, gram_inv, agop_inv. reflexivity.
  Qed.

  Theorem bandwidth_scales M0 X n : bandwidth M0 (scale c X) n = c * bandwidth M0 X n.
  Proof. unfold bandwidth. rewrite featmat_invariant, bw_hom. reflexivity. Qed.

  Theorem coefs_invariant M0 X n : coefs M0 (scale c X) n = coefs M0 X n.
  Proof. unfold coefs. rewrite bandwidth_scales, featmat_invariant, gram_inv. reflexivity. Qed.

  Theorem prediction_invariant M0 X n z : prediction M0 (scale c X) n (qscale c z) = prediction M0 X n z.
  Proof. unfold prediction. rewrite coefs_invariant, bandwidth_scales, featmat_invariant, predict_inv. reflexivity. Qed.

  (* any selection rule that looks only at the validation predictions of the iterates picks the same iterate, so the model
     returned by the fit predicts identically on rescaled queries *)
  Definition val_predictions (M0 : Mat) (X : Data) (rounds : nat) (V : list Query) : list (list Out) :=
    map (fun n => map (prediction M0 X n) V) (seq 0 (S rounds)).

  Lemma val_predictions_invariant M0 X rounds V :
    val_predictions M0 (scale c X) rounds (map (qscale c) V) = val_predictions M0 X rounds V.
  Proof.
    unfold val_predictions. apply map_ext. intros n. rewrite map_map. apply map_ext. intros q. apply prediction_invariant.
  Qed.

  Theorem selected_model_invariant M0 X (V : list Query) (select : list (list Out) -> nat) (rounds : nat) z :
    prediction M0 (scale c X) (select (val_predictions M0 (scale c X) rounds (map (qscale c) V))) (qscale c z)
    = prediction M0 X (select (val_predictions M0 X rounds V)) z.
  Proof. rewrite val_predictions_invariant. apply prediction_invariant. Qed.
End Pipeline.
