(* The instantiated scale-invariance composition (XV.Real.ScaleInvL2 for the L2 Laplace kernel) extended to the PRODUCT Laplace
   kernel (the library's 'l1' kernel; exponent q) and to the Lpq Laplace kernel (norm p, exponent q), both with adaptive bandwidth:
   one whole RFM fit (bandwidth -> solve -> AGOP -> root, any number of rounds) commutes with rescaling all inputs by c > 0.
     bandwidth  = base * med (all pairwise transformed distances in the kernel's own norm: q-norm resp. p-norm)
     Gram       = closed_product / closed_lpq on all pairs
     prediction = Grads.fpred (closed_product ...) / (closed_lpq ...)
     AGOP       = root (normalise (sum_z g(z) g(z)^T)),  g = GradAuto.grad_product / grad_lpq (the masked autodiff gradient model).
   The solver and the matrix root are ARBITRARY functions; `med` is any positively homogeneous function.
   The gradient is homogeneous of degree -1 on the domain where every centre is on the same side of the ABSOLUTE eps-mask before
   and after scaling (mask quantity: sum |u|^q for the product kernel, the p-norm for the Lpq kernel). *)
From Coq Require Import Reals List Lra Lia.
Require Import XV.Real.Kernels XV.Real.Grads XV.Real.GradsP XV.Real.GradAuto XV.Real.Bandwidth XV.Real.ScaleInv XV.Real.ScaleInvL2
               XV.Real.GradScale XV.Real.BwOps.
Import ListNotations.
Local Open Scope R_scope.

(* ====================================================================================================================== *)
(* ---------- generic: the mask, scaling of the autodiff model ---------- *)

(* D (before scaling) and D' (after scaling) are on the same side of the absolute threshold eps *)
Definition same_side (eps D D' : R) : Prop := (eps <= D /\ eps <= D') \/ (D < eps /\ D' < eps).

(* the side condition in the form of GradScale.grad_l2_homogeneous implies it (0 < eps, positive factor k) *)
Lemma same_side_l2style eps k D : 0 < eps -> 0 <= k -> (D = 0 \/ (eps <= D /\ eps <= k * D)) -> same_side eps D (k * D).
Proof. intros He Hk [->|[H1 H2]]; [right; rewrite Rmult_0_r; split; exact He|left; split; assumption]. Qed.

Lemma masked_same_side eps D D' k v : same_side eps D D' -> masked eps D' (k * v) = k * masked eps D v.
Proof.
  intros [[H1 H2]|[H1 H2]].
  - rewrite !masked_open by assumption. reflexivity.
  - rewrite !masked_closed by assumption. ring.
Qed.

Lemma dlincomb_scale_centres (dk dk' : list R -> R) (k c : R) : forall us cs,
  (forall u, In u us -> dk' (vscaleR c u) = k * dk u) ->
  dlincomb dk' (map (vscaleR c) us) cs = k * dlincomb dk us cs.
Proof.
  induction us as [|u us IH]; intros cs H; [cbn [map dlincomb]; ring|].
  destruct cs as [|c0 cs]; [cbn [map dlincomb]; ring|]. cbn [map dlincomb].
  rewrite (H u (or_introl eq_refl)), (IH cs) by (intros u' Hu'; apply H; right; exact Hu'). ring.
Qed.

(* if every centre's directional value scales by k when the centre is scaled by c, so does the vector of partials *)
Lemma gauto_scale (dk dk' : list R -> list R -> R) (k c : R) m us cs :
  (forall u w, In u us -> dk' (vscaleR c u) w = k * dk u w) ->
  gauto dk' m (map (vscaleR c) us) cs = vscaleR k (gauto dk m us cs).
Proof.
  intros H. unfold gauto, vscaleR. rewrite map_map. apply map_ext. intros e.
  apply dlincomb_scale_centres. intros u Hu. apply H. exact Hu.
Qed.

Lemma sgn_scale c a : 0 < c -> sgn (c * a) = sgn a.
Proof.
  intros Hc. unfold sgn.
  destruct (Rlt_dec 0 (c * a)) as [H1|H1]; destruct (Rlt_dec 0 a) as [H2|H2]; try reflexivity; try (exfalso; nra).
  destruct (Rlt_dec (c * a) 0) as [H3|H3]; destruct (Rlt_dec a 0) as [H4|H4]; try reflexivity; exfalso; nra.
Qed.

Lemma Rpower_m1 c y : 0 < c -> Rpower c (y - 1) = Rpower c y * / c.
Proof. intros Hc. unfold Rminus. rewrite Rpower_plus, Rpower_Ropp, Rpower_1 by exact Hc. reflexivity. Qed.

(* d/da |a|^p is homogeneous of degree p - 1 (also at a = 0, where both sides vanish) *)
Lemma dabs_pow_scale p c a : 0 < c -> dabs_pow p (c * a) = Rpower c (p - 1) * dabs_pow p a.
Proof.
  intros Hc. unfold dabs_pow. rewrite sgn_scale by exact Hc.
  destruct (Req_dec a 0) as [->|Ha]; [rewrite sgn_0; ring|].
  rewrite Rabs_mult, (Rabs_right c) by lra.
  assert (Hpos : 0 < Rabs a) by (apply Rabs_pos_lt; exact Ha).
  rewrite <- (Rpower_mult_distr c (Rabs a) (p - 1)) by assumption. ring.
Qed.

Lemma wsum_dabs_pow_scale p c : 0 < c -> forall u w,
  wsum (dabs_pow p) (vscaleR c u) w = Rpower c (p - 1) * wsum (dabs_pow p) u w.
Proof.
  intros Hc. unfold vscaleR. induction u as [|a u IH]; intros [|b w]; cbn [map wsum]; try ring.
  rewrite IH, dabs_pow_scale by exact Hc. ring.
Qed.

Lemma length_transform_scale t c z : length (transform t (vscaleR c z)) = length (transform t z).
Proof. rewrite transform_scale. unfold vscaleR. apply map_length. Qed.

(* the centres of the scaled problem, in transformed space, are the scaled centres *)
Lemma centres_scale t c z xs :
  map (fun x => transform t (vsubR (vscaleR c z) x)) (map (vscaleR c) xs)
  = map (vscaleR c) (map (fun x => transform t (vsubR z x)) xs).
Proof. rewrite !map_map. apply map_ext. intros x. rewrite vscaleR_sub. apply transform_scale. Qed.

(* ====================================================================================================================== *)
(* PART 1 — PRODUCT kernel *)

(* all pairwise transformed distances in the q-norm: (sum |u|^q)^(1/q) *)
Definition pdist_q (q : R) (t : tmat) (X : list (list R)) : list R :=
  flat_map (fun x => map (fun z => pw (sum_abs_pow q (transform t (vsubR x z))) (/ q)) X) X.

(* the p-norm is positively homogeneous *)
Lemma normp_scale p c v : 0 < c -> 0 < p -> normp p (vscaleR c v) = c * normp p v.
Proof.
  intros Hc Hp. unfold normp. rewrite sum_abs_pow_scale by exact Hc.
  rewrite pw_scale by (try apply exp_pos; apply sum_abs_pow_nonneg).
  rewrite Rpower_mult, Rinv_r, Rpower_1 by lra. reflexivity.
Qed.

Lemma normp_nonneg p v : 0 <= normp p v.
Proof. unfold normp. apply pw_nonneg, sum_abs_pow_nonneg. Qed.

Lemma pair_list_scale (f : list R -> list R -> R) c :
  (forall x z, f (vscaleR c x) (vscaleR c z) = c * f x z) -> forall X,
  flat_map (fun x => map (fun z => f x z) (scaleX c X)) (scaleX c X)
  = map (Rmult c) (flat_map (fun x => map (fun z => f x z) X) X).
Proof.
  intros Hf X. unfold scaleX.
  assert (G : forall Y Z : list (list R),
    flat_map (fun x => map (fun z => f x z) (map (vscaleR c) Y)) (map (vscaleR c) Z)
    = map (Rmult c) (flat_map (fun x => map (fun z => f x z) Y) Z)).
  { intros Y. induction Z as [|x Z IH]; cbn [map flat_map]; [reflexivity|].
    rewrite map_app, IH. f_equal. rewrite !map_map. apply map_ext. intros z. apply Hf. }
  apply G.
Qed.

(* (P1) *)
Lemma pdist_q_scale q t c X : 0 < c -> 0 < q -> pdist_q q t (scaleX c X) = map (Rmult c) (pdist_q q t X).
Proof.
  intros Hc Hq. unfold pdist_q.
  apply (pair_list_scale (fun x z => pw (sum_abs_pow q (transform t (vsubR x z))) (/ q))).
  intros x z. rewrite vscaleR_sub, transform_scale. apply (normp_scale q c _ Hc Hq).
Qed.

Lemma pdist_q_nonneg q t X : Forall (fun d => 0 <= d) (pdist_q q t X).
Proof.
  apply Forall_forall. intros d Hd. unfold pdist_q in Hd. apply in_flat_map in Hd. destruct Hd as [x [_ Hd]].
  apply in_map_iff in Hd. destruct Hd as [z [<- _]]. apply pw_nonneg, sum_abs_pow_nonneg.
Qed.

(* (P2) = Bandwidth.laplace_product_scale_invariant (no hypothesis on q is needed) *)
Lemma closed_product_scale t L q c x z : 0 < c -> 0 < L -> 0 < q ->
  closed_product t (c * L) q (vscaleR c x) (vscaleR c z) = closed_product t L q x z.
Proof. intros Hc HL _. apply laplace_product_scale_invariant; assumption. Qed.

(* the unmasked directional value is homogeneous of degree -1 (every u, also with zero coordinates) *)
Lemma dprod_scale L q c u w : 0 < c -> 0 < L -> dprod (c * L) q (vscaleR c u) w = / c * dprod L q u w.
Proof.
  intros Hc HL. unfold dprod. rewrite sum_abs_pow_scale, wsum_dabs_pow_scale by exact Hc.
  rewrite <- (Rpower_mult_distr c L q) by assumption. rewrite Rpower_m1 by exact Hc.
  assert (HA : Rpower c q <> 0) by apply Rgt_not_eq, exp_pos.
  assert (HB : Rpower L q <> 0) by apply Rgt_not_eq, exp_pos.
  replace (- (Rpower c q * sum_abs_pow q u) / (Rpower c q * Rpower L q)) with (- sum_abs_pow q u / Rpower L q)
    by (field; split; assumption).
  field. repeat split; try assumption; lra.
Qed.

Lemma dprod_m_scale L q eps c u w : 0 < c -> 0 < L ->
  same_side eps (sum_abs_pow q u) (Rpower c q * sum_abs_pow q u) ->
  dprod_m (c * L) q eps (vscaleR c u) w = / c * dprod_m L q eps u w.
Proof.
  intros Hc HL Hs. unfold dprod_m. rewrite sum_abs_pow_scale, dprod_scale by assumption.
  apply masked_same_side. exact Hs.
Qed.

(* (P3) the masked gradient of the product kernel is homogeneous of degree -1.
   Side condition: for every centre x the mask quantity D = sum_e |T(z - x)_e|^q (exactly what GradAuto.dprod_m compares with eps)
   and its value Rpower c q * D after scaling are on the same side of eps.  The form of GradScale.grad_l2_homogeneous,
   D = 0 \/ (eps <= D /\ eps <= Rpower c q * D) with 0 < eps, is the special case grad_product_homogeneous_l2style below.
   No length / wf_tmat / positivity-of-q-or-eps hypothesis is needed. *)
Theorem grad_product_homogeneous t L q eps c xs cs z : 0 < c -> 0 < L ->
  Forall (fun x => let D := sum_abs_pow q (transform t (vsubR z x)) in same_side eps D (Rpower c q * D)) xs ->
  grad_product t (c * L) q eps (map (vscaleR c) xs) cs (vscaleR c z) = vscaleR (/ c) (grad_product t L q eps xs cs z).
Proof.
  intros Hc HL Hall. unfold grad_product. rewrite length_transform_scale, centres_scale.
  rewrite (gauto_scale (dprod_m L q eps) (dprod_m (c * L) q eps) (/ c) c).
  - apply transform_scale.
  - intros u w Hu. apply in_map_iff in Hu. destruct Hu as [x [<- Hx]].
    apply dprod_m_scale; try assumption. rewrite Forall_forall in Hall. apply (Hall x Hx).
Qed.

Corollary grad_product_homogeneous_l2style t L q eps c xs cs z : 0 < c -> 0 < L -> 0 < eps ->
  Forall (fun x => let D := sum_abs_pow q (transform t (vsubR z x)) in D = 0 \/ (eps <= D /\ eps <= Rpower c q * D)) xs ->
  grad_product t (c * L) q eps (map (vscaleR c) xs) cs (vscaleR c z) = vscaleR (/ c) (grad_product t L q eps xs cs z).
Proof.
  intros Hc HL He Hall. apply grad_product_homogeneous; try assumption.
  apply Forall_forall. intros x Hx. rewrite Forall_forall in Hall. cbv zeta.
  apply same_side_l2style; [exact He|left; apply exp_pos|apply (Hall x Hx)].
Qed.

(* ---------- (P4) the instantiated pipeline ---------- *)
Section ProductPipeline.
  Variables base q eps : R.
  Hypothesis q_pos : 0 < q.
  Variable med : list R -> R.
  Hypothesis med_hom : forall c l, 0 < c -> med (map (Rmult c) l) = c * med l.
  Variable solve : list (list R) -> list R.          (* ARBITRARY *)
  Variable root : list (list R) -> tmat.             (* ARBITRARY: normalised AGOP -> transform of the next round *)

  Definition bwP (t : tmat) (X : list (list R)) : R := base * med (pdist_q q t X).
  Definition gramP (t : tmat) (L : R) (X : list (list R)) : list (list R) :=
    map (fun x => map (fun z => closed_product t L q x z) X) X.
  Definition predictP (t : tmat) (L : R) (X : list (list R)) (a : list R) (z : list R) : R :=
    fpred (closed_product t L q) X a z.
  Definition gradsP (t : tmat) (L : R) (X : list (list R)) (a : list R) : list (list R) :=
    map (fun z => grad_product t L q eps X a z) X.
  Definition agopP (t : tmat) (L : R) (X : list (list R)) (a : list R) : tmat :=
    root (normalise (agop_raw (gradsP t L X a))).

  (* the domain on which the masked gradient is homogeneous: for every ordered pair of training points the mask quantity
     D = sum_e |T(z - x)_e|^q is on the same side of eps before and after scaling (side condition of grad_product_homogeneous) *)
  Definition masksP (c : R) (t : tmat) (X : list (list R)) : Prop :=
    forall x z, In x X -> In z X ->
      let D := sum_abs_pow q (transform t (vsubR z x)) in same_side eps D (Rpower c q * D).

  (* the GradScale-style condition (coincident, or not below eps before and after) implies it when 0 < eps *)
  Lemma masksP_l2style c t X : 0 < eps ->
    (forall x z, In x X -> In z X ->
       let D := sum_abs_pow q (transform t (vsubR z x)) in D = 0 \/ (eps <= D /\ eps <= Rpower c q * D)) ->
    masksP c t X.
  Proof.
    intros He H x z Hx Hz. cbv zeta. apply same_side_l2style; [exact He|left; apply exp_pos|apply (H x z Hx Hz)].
  Qed.

  (* ---------- the bandwidth is homogeneous of degree one ---------- *)
  Theorem bwP_hom c t X : 0 < c -> bwP t (scaleX c X) = c * bwP t X.
  Proof. intros Hc. unfold bwP. rewrite pdist_q_scale, med_hom by assumption. ring. Qed.

  (* the matrix the product kernel hands to the bandwidth update has entries dist^q = sum |u|^q *)
  Lemma pdist_q_pow t X :
    map (fun d => pw d q) (pdist_q q t X) = flat_map (fun x => map (fun z => sum_abs_pow q (transform t (vsubR x z))) X) X.
  Proof.
    unfold pdist_q.
    assert (G : forall Y Z : list (list R),
      map (fun d => pw d q) (flat_map (fun x => map (fun z => pw (sum_abs_pow q (transform t (vsubR x z))) (/ q)) Y) Z)
      = flat_map (fun x => map (fun z => sum_abs_pow q (transform t (vsubR x z))) Y) Z).
    { intros Y. induction Z as [|x Z IH]; cbn [flat_map map]; [reflexivity|].
      rewrite map_app, IH. f_equal. rewrite map_map. apply map_ext. intros z.
      apply pw_root_pow; [apply sum_abs_pow_nonneg|exact q_pos]. }
    apply G.
  Qed.

  (* bwP IS the code's adaptive bandwidth (BwOps.adapt_bandwidth on the matrix of sum |u|^q) whenever the median is not below eps *)
  Lemma bwP_is_adapt_bandwidth t X : eps <= med (pdist_q q t X) ->
    adapt_bandwidth base q eps med (flat_map (fun x => map (fun z => sum_abs_pow q (transform t (vsubR x z))) X) X) = bwP t X.
  Proof.
    intros Hm. rewrite <- pdist_q_pow. apply adapt_bandwidth_is_base_times_median; [exact q_pos|apply pdist_q_nonneg|exact Hm].
  Qed.

  (* ---------- the Gram matrix is invariant ---------- *)
  Theorem gramP_inv c t L X : 0 < c -> 0 < L -> gramP t (c * L) (scaleX c X) = gramP t L X.
  Proof.
    intros Hc HL. unfold gramP, scaleX. rewrite map_map. apply map_ext. intros x. rewrite map_map. apply map_ext. intros z.
    apply laplace_product_scale_invariant; assumption.
  Qed.

  (* ---------- predictions are invariant ---------- *)
  Theorem predictP_inv c t L X a z : 0 < c -> 0 < L ->
    predictP t (c * L) (scaleX c X) a (qscale c z) = predictP t L X a z.
  Proof.
    intros Hc HL. unfold predictP, scaleX, qscale. revert a.
    induction X as [|x X IH]; intros a; [reflexivity|]. destruct a as [|a0 a]; [reflexivity|].
    cbn [map fpred]. rewrite IH, laplace_product_scale_invariant by assumption. reflexivity.
  Qed.

  (* ---------- the normalised AGOP (hence the next transform) is invariant on the masksP domain ---------- *)
  Lemma gradsP_scale c t L X a : 0 < c -> 0 < L -> masksP c t X ->
    gradsP t (c * L) (scaleX c X) a = map (vscaleR (/ c)) (gradsP t L X a).
  Proof.
    intros Hc HL Hm. unfold gradsP. unfold scaleX at 2. rewrite !map_map. apply map_ext_in. intros z Hz.
    unfold scaleX. apply grad_product_homogeneous; try assumption.
    apply Forall_forall. intros x Hx. apply (Hm x z Hx Hz).
  Qed.

  Theorem agopP_inv c t L X a : 0 < c -> 0 < L -> masksP c t X ->
    0 < mmaxR (agop_raw (gradsP t L X a)) ->            (* the normaliser of the UNSCALED problem is positive *)
    agopP t (c * L) (scaleX c X) a = agopP t L X a.
  Proof.
    intros Hc HL Hm Hpos. unfold agopP. f_equal.
    rewrite gradsP_scale by assumption. rewrite agop_raw_scale.
    assert (Hi : 0 < / c) by (apply Rinv_0_lt_compat; exact Hc).
    apply normalise_scale; [nra|exact Hpos].
  Qed.

  (* ---------- the recursion ---------- *)
  Fixpoint featmatP (t0 : tmat) (X : list (list R)) (n : nat) : tmat :=
    match n with
    | O => t0
    | S k => agopP (featmatP t0 X k) (bwP (featmatP t0 X k) X) X
                   (solve (gramP (featmatP t0 X k) (bwP (featmatP t0 X k) X) X))
    end.
  Definition bandwidthP (t0 : tmat) (X : list (list R)) (n : nat) : R := bwP (featmatP t0 X n) X.
  Definition coefsP (t0 : tmat) (X : list (list R)) (n : nat) : list R :=
    solve (gramP (featmatP t0 X n) (bandwidthP t0 X n) X).
  Definition predictionP (t0 : tmat) (X : list (list R)) (n : nat) (z : list R) : R :=
    predictP (featmatP t0 X n) (bandwidthP t0 X n) X (coefsP t0 X n) z.

  (* the recursion is literally ScaleInv.featmat at these components *)
  Lemma featmatP_is_featmat t0 X n :
    featmatP t0 X n = featmat (list (list R)) tmat (list (list R)) (list R) bwP gramP solve agopP t0 X n.
  Proof. induction n as [|n IH]; [reflexivity|]. cbn [featmatP featmat]. rewrite <- IH. reflexivity. Qed.

  Section Fit.
    Variable c : R.
    Variable t0 : tmat.
    Variable X : list (list R).
    Hypothesis c_pos : 0 < c.
    (* hypotheses on the UNSCALED fit only *)
    Hypothesis bw_pos : forall n, 0 < base * med (pdist_q q (featmatP t0 X n) X).
    Hypothesis masks_all : forall n, masksP c (featmatP t0 X n) X.
    Hypothesis norm_pos : forall n,
      0 < mmaxR (agop_raw (gradsP (featmatP t0 X n) (bandwidthP t0 X n) X (coefsP t0 X n))).

    Lemma bandwidthP_pos n : 0 < bwP (featmatP t0 X n) X.
    Proof. unfold bwP. apply bw_pos. Qed.

    Theorem featmatP_invariant : forall n, featmatP t0 (scaleX c X) n = featmatP t0 X n.
    Proof.
      induction n as [|n IH]; [reflexivity|]. cbn [featmatP]. rewrite IH.
      rewrite bwP_hom by exact c_pos. rewrite gramP_inv by (try exact c_pos; apply bandwidthP_pos).
      apply agopP_inv; [exact c_pos|apply bandwidthP_pos|apply masks_all|apply norm_pos].
    Qed.

    Theorem bandwidthP_scales n : bandwidthP t0 (scaleX c X) n = c * bandwidthP t0 X n.
    Proof. unfold bandwidthP. rewrite featmatP_invariant. apply bwP_hom. exact c_pos. Qed.

    Theorem coefsP_invariant n : coefsP t0 (scaleX c X) n = coefsP t0 X n.
    Proof.
      unfold coefsP. rewrite bandwidthP_scales, featmatP_invariant.
      rewrite gramP_inv by (try exact c_pos; apply bandwidthP_pos). reflexivity.
    Qed.

    Theorem product_fit_commutes_with_rescaling n z :
      predictionP t0 (scaleX c X) n (qscale c z) = predictionP t0 X n z.
    Proof.
      unfold predictionP. rewrite coefsP_invariant, bandwidthP_scales, featmatP_invariant.
      apply predictP_inv; [exact c_pos|apply bandwidthP_pos].
    Qed.

    Corollary product_selected_model_invariant (V : list (list R)) (select : list (list R) -> nat) (rounds : nat) z :
      predictionP t0 (scaleX c X)
        (select (map (fun n => map (predictionP t0 (scaleX c X) n) (map (qscale c) V)) (seq 0 (S rounds)))) (qscale c z)
      = predictionP t0 X (select (map (fun n => map (predictionP t0 X n) V) (seq 0 (S rounds)))) z.
    Proof.
      replace (map (fun n => map (predictionP t0 (scaleX c X) n) (map (qscale c) V)) (seq 0 (S rounds)))
        with (map (fun n => map (predictionP t0 X n) V) (seq 0 (S rounds))).
      - apply product_fit_commutes_with_rescaling.
      - apply map_ext. intros n. rewrite map_map. apply map_ext. intros v. symmetry. apply product_fit_commutes_with_rescaling.
    Qed.
  End Fit.
End ProductPipeline.

(* ====================================================================================================================== *)
(* PART 2 — Lpq kernel (norm p, exponent q) *)

(* all pairwise transformed distances in the p-norm *)
Definition pdist_p (p : R) (t : tmat) (X : list (list R)) : list R :=
  flat_map (fun x => map (fun z => normp p (transform t (vsubR x z))) X) X.

Lemma pdist_q_is_pdist_p q t X : pdist_q q t X = pdist_p q t X.
Proof. reflexivity. Qed.

(* (Q1) *)
Lemma pdist_p_scale p t c X : 0 < c -> 0 < p -> pdist_p p t (scaleX c X) = map (Rmult c) (pdist_p p t X).
Proof. intros Hc Hp. rewrite <- !pdist_q_is_pdist_p. apply pdist_q_scale; assumption. Qed.

Lemma pdist_p_nonneg p t X : Forall (fun d => 0 <= d) (pdist_p p t X).
Proof. rewrite <- pdist_q_is_pdist_p. apply pdist_q_nonneg. Qed.

(* (Q2) = Bandwidth.laplace_lpq_scale_invariant *)
Lemma closed_lpq_scale t L p q c x z : 0 < c -> 0 < L -> 0 < p ->
  closed_lpq t (c * L) p q (vscaleR c x) (vscaleR c z) = closed_lpq t L p q x z.
Proof. apply laplace_lpq_scale_invariant. Qed.

(* a vanishing sum of |u_e|^p means u = 0, where the coordinate derivatives vanish *)
Lemma pw_abs_eq_0 a p : pw (Rabs a) p = 0 -> a = 0.
Proof.
  intros H. destruct (Req_dec a 0) as [Ha|Ha]; [exact Ha|exfalso].
  assert (Hpos : 0 < Rabs a) by (apply Rabs_pos_lt; exact Ha).
  rewrite pw_pos in H by exact Hpos. assert (Hp : 0 < Rpower (Rabs a) p) by apply exp_pos. lra.
Qed.

Lemma sum_abs_pow_cons p a u : sum_abs_pow p (a :: u) = pw (Rabs a) p + sum_abs_pow p u.
Proof. reflexivity. Qed.

Lemma sum_abs_pow_0_wsum p : forall u w, sum_abs_pow p u = 0 -> wsum (dabs_pow p) u w = 0.
Proof.
  induction u as [|a u IH]; intros [|b w] H; cbn [wsum]; try reflexivity.
  rewrite sum_abs_pow_cons in H.
  assert (H1 : 0 <= pw (Rabs a) p) by (apply pw_nonneg, Rabs_pos).
  assert (H2 : 0 <= sum_abs_pow p u) by apply sum_abs_pow_nonneg.
  assert (Ha : a = 0) by (apply (pw_abs_eq_0 a p); lra).
  rewrite (IH w) by lra. rewrite Ha, dabs_pow_0. ring.
Qed.

(* the unmasked directional value is homogeneous of degree -1 (every u, including u = 0) *)
Lemma dlpq_scale L p q c u w : 0 < c -> 0 < L -> 0 < p -> dlpq (c * L) p q (vscaleR c u) w = / c * dlpq L p q u w.
Proof.
  intros Hc HL Hp. unfold dlpq. rewrite wsum_dabs_pow_scale by exact Hc.
  destruct (Req_dec (sum_abs_pow p u) 0) as [H0|Hne].
  - rewrite (sum_abs_pow_0_wsum p u w H0). ring.
  - assert (HS : 0 < sum_abs_pow p u) by (pose proof (sum_abs_pow_nonneg p u); lra).
    rewrite normp_scale, sum_abs_pow_scale by assumption.
    rewrite pw_scale by (try exact Hc; apply normp_nonneg).
    rewrite <- (Rpower_mult_distr c L q) by assumption.
    rewrite <- (Rpower_mult_distr (Rpower c p) (sum_abs_pow p u) (q / p - 1)) by (try apply exp_pos; exact HS).
    rewrite (Rpower_mult c p (q / p - 1)).
    replace (p * (q / p - 1)) with (q + - p) by (field; lra).
    rewrite Rpower_plus, Rpower_Ropp, (Rpower_m1 c p Hc).
    assert (HA : Rpower c q <> 0) by apply Rgt_not_eq, exp_pos.
    assert (HB : Rpower L q <> 0) by apply Rgt_not_eq, exp_pos.
    assert (HC : Rpower c p <> 0) by apply Rgt_not_eq, exp_pos.
    replace (- (Rpower c q * pw (normp p u) q) / (Rpower c q * Rpower L q)) with (- pw (normp p u) q / Rpower L q)
      by (field; split; assumption).
    field. repeat split; try assumption; lra.
Qed.

Lemma dlpq_m_scale L p q eps c u w : 0 < c -> 0 < L -> 0 < p ->
  same_side eps (normp p u) (c * normp p u) ->
  dlpq_m (c * L) p q eps (vscaleR c u) w = / c * dlpq_m L p q eps u w.
Proof.
  intros Hc HL Hp Hs. unfold dlpq_m. rewrite normp_scale, dlpq_scale by assumption.
  apply masked_same_side. exact Hs.
Qed.

(* (Q3) the masked gradient of the Lpq kernel is homogeneous of degree -1.
   Side condition: for every centre x the mask quantity N = ||T(z - x)||_p (exactly what GradAuto.dlpq_m compares with eps) and
   its value c * N after scaling are on the same side of eps. *)
Theorem grad_lpq_homogeneous t L p q eps c xs cs z : 0 < c -> 0 < L -> 0 < p ->
  Forall (fun x => let N := normp p (transform t (vsubR z x)) in same_side eps N (c * N)) xs ->
  grad_lpq t (c * L) p q eps (map (vscaleR c) xs) cs (vscaleR c z) = vscaleR (/ c) (grad_lpq t L p q eps xs cs z).
Proof.
  intros Hc HL Hp Hall. unfold grad_lpq. rewrite length_transform_scale, centres_scale.
  rewrite (gauto_scale (dlpq_m L p q eps) (dlpq_m (c * L) p q eps) (/ c) c).
  - apply transform_scale.
  - intros u w Hu. apply in_map_iff in Hu. destruct Hu as [x [<- Hx]].
    apply dlpq_m_scale; try assumption. rewrite Forall_forall in Hall. apply (Hall x Hx).
Qed.

Corollary grad_lpq_homogeneous_l2style t L p q eps c xs cs z : 0 < c -> 0 < L -> 0 < p -> 0 < eps ->
  Forall (fun x => let N := normp p (transform t (vsubR z x)) in N = 0 \/ (eps <= N /\ eps <= c * N)) xs ->
  grad_lpq t (c * L) p q eps (map (vscaleR c) xs) cs (vscaleR c z) = vscaleR (/ c) (grad_lpq t L p q eps xs cs z).
Proof.
  intros Hc HL Hp He Hall. apply grad_lpq_homogeneous; try assumption.
  apply Forall_forall. intros x Hx. rewrite Forall_forall in Hall. cbv zeta.
  apply same_side_l2style; [exact He|lra|apply (Hall x Hx)].
Qed.

(* ---------- (Q4) the instantiated pipeline ---------- *)
Section LpqPipeline.
  Variables base p q eps : R.
  Hypothesis p_pos : 0 < p.
  Variable med : list R -> R.
  Hypothesis med_hom : forall c l, 0 < c -> med (map (Rmult c) l) = c * med l.
  Variable solve : list (list R) -> list R.          (* ARBITRARY *)
  Variable root : list (list R) -> tmat.             (* ARBITRARY *)

  Definition bwLpq (t : tmat) (X : list (list R)) : R := base * med (pdist_p p t X).
  Definition gramLpq (t : tmat) (L : R) (X : list (list R)) : list (list R) :=
    map (fun x => map (fun z => closed_lpq t L p q x z) X) X.
  Definition predictLpq (t : tmat) (L : R) (X : list (list R)) (a : list R) (z : list R) : R :=
    fpred (closed_lpq t L p q) X a z.
  Definition gradsLpq (t : tmat) (L : R) (X : list (list R)) (a : list R) : list (list R) :=
    map (fun z => grad_lpq t L p q eps X a z) X.
  Definition agopLpq (t : tmat) (L : R) (X : list (list R)) (a : list R) : tmat :=
    root (normalise (agop_raw (gradsLpq t L X a))).

  (* for every ordered pair of training points the mask quantity N = ||T(z - x)||_p is on the same side of eps before and
     after scaling (side condition of grad_lpq_homogeneous) *)
  Definition masksLpq (c : R) (t : tmat) (X : list (list R)) : Prop :=
    forall x z, In x X -> In z X ->
      let N := normp p (transform t (vsubR z x)) in same_side eps N (c * N).

  Lemma masksLpq_l2style c t X : 0 < c -> 0 < eps ->
    (forall x z, In x X -> In z X ->
       let N := normp p (transform t (vsubR z x)) in N = 0 \/ (eps <= N /\ eps <= c * N)) ->
    masksLpq c t X.
  Proof.
    intros Hc He H x z Hx Hz. cbv zeta. apply same_side_l2style; [exact He|lra|apply (H x z Hx Hz)].
  Qed.

  Theorem bwLpq_hom c t X : 0 < c -> bwLpq t (scaleX c X) = c * bwLpq t X.
  Proof. intros Hc. unfold bwLpq. rewrite pdist_p_scale, med_hom by assumption. ring. Qed.

  (* bwLpq IS the code's adaptive bandwidth (BwOps.adapt_bandwidth on the matrix of dist^q) whenever the median is not below eps *)
  Lemma bwLpq_is_adapt_bandwidth t X : 0 < q -> eps <= med (pdist_p p t X) ->
    adapt_bandwidth base q eps med (map (fun d => pw d q) (pdist_p p t X)) = bwLpq t X.
  Proof. intros Hq Hm. apply adapt_bandwidth_is_base_times_median; [exact Hq|apply pdist_p_nonneg|exact Hm]. Qed.

  Theorem gramLpq_inv c t L X : 0 < c -> 0 < L -> gramLpq t (c * L) (scaleX c X) = gramLpq t L X.
  Proof.
    intros Hc HL. unfold gramLpq, scaleX. rewrite map_map. apply map_ext. intros x. rewrite map_map. apply map_ext. intros z.
    apply laplace_lpq_scale_invariant; assumption.
  Qed.

  Theorem predictLpq_inv c t L X a z : 0 < c -> 0 < L ->
    predictLpq t (c * L) (scaleX c X) a (qscale c z) = predictLpq t L X a z.
  Proof.
    intros Hc HL. unfold predictLpq, scaleX, qscale. revert a.
    induction X as [|x X IH]; intros a; [reflexivity|]. destruct a as [|a0 a]; [reflexivity|].
    cbn [map fpred]. rewrite IH, laplace_lpq_scale_invariant by assumption. reflexivity.
  Qed.

  Lemma gradsLpq_scale c t L X a : 0 < c -> 0 < L -> masksLpq c t X ->
    gradsLpq t (c * L) (scaleX c X) a = map (vscaleR (/ c)) (gradsLpq t L X a).
  Proof.
    intros Hc HL Hm. unfold gradsLpq. unfold scaleX at 2. rewrite !map_map. apply map_ext_in. intros z Hz.
    unfold scaleX. apply grad_lpq_homogeneous; try assumption.
    apply Forall_forall. intros x Hx. apply (Hm x z Hx Hz).
  Qed.

  Theorem agopLpq_inv c t L X a : 0 < c -> 0 < L -> masksLpq c t X ->
    0 < mmaxR (agop_raw (gradsLpq t L X a)) ->            (* the normaliser of the UNSCALED problem is positive *)
    agopLpq t (c * L) (scaleX c X) a = agopLpq t L X a.
  Proof.
    intros Hc HL Hm Hpos. unfold agopLpq. f_equal.
    rewrite gradsLpq_scale by assumption. rewrite agop_raw_scale.
    assert (Hi : 0 < / c) by (apply Rinv_0_lt_compat; exact Hc).
    apply normalise_scale; [nra|exact Hpos].
  Qed.

  Fixpoint featmatLpq (t0 : tmat) (X : list (list R)) (n : nat) : tmat :=
    match n with
    | O => t0
    | S k => agopLpq (featmatLpq t0 X k) (bwLpq (featmatLpq t0 X k) X) X
                     (solve (gramLpq (featmatLpq t0 X k) (bwLpq (featmatLpq t0 X k) X) X))
    end.
  Definition bandwidthLpq (t0 : tmat) (X : list (list R)) (n : nat) : R := bwLpq (featmatLpq t0 X n) X.
  Definition coefsLpq (t0 : tmat) (X : list (list R)) (n : nat) : list R :=
    solve (gramLpq (featmatLpq t0 X n) (bandwidthLpq t0 X n) X).
  Definition predictionLpq (t0 : tmat) (X : list (list R)) (n : nat) (z : list R) : R :=
    predictLpq (featmatLpq t0 X n) (bandwidthLpq t0 X n) X (coefsLpq t0 X n) z.

  Lemma featmatLpq_is_featmat t0 X n :
    featmatLpq t0 X n = featmat (list (list R)) tmat (list (list R)) (list R) bwLpq gramLpq solve agopLpq t0 X n.
  Proof. induction n as [|n IH]; [reflexivity|]. cbn [featmatLpq featmat]. rewrite <- IH. reflexivity. Qed.

  Section Fit.
    Variable c : R.
    Variable t0 : tmat.
    Variable X : list (list R).
    Hypothesis c_pos : 0 < c.
    (* hypotheses on the UNSCALED fit only *)
    Hypothesis bw_pos : forall n, 0 < base * med (pdist_p p (featmatLpq t0 X n) X).
    Hypothesis masks_all : forall n, masksLpq c (featmatLpq t0 X n) X.
    Hypothesis norm_pos : forall n,
      0 < mmaxR (agop_raw (gradsLpq (featmatLpq t0 X n) (bandwidthLpq t0 X n) X (coefsLpq t0 X n))).

    Lemma bandwidthLpq_pos n : 0 < bwLpq (featmatLpq t0 X n) X.
    Proof. unfold bwLpq. apply bw_pos. Qed.

    Theorem featmatLpq_invariant : forall n, featmatLpq t0 (scaleX c X) n = featmatLpq t0 X n.
    Proof.
      induction n as [|n IH]; [reflexivity|]. cbn [featmatLpq]. rewrite IH.
      rewrite bwLpq_hom by exact c_pos. rewrite gramLpq_inv by (try exact c_pos; apply bandwidthLpq_pos).
      apply agopLpq_inv; [exact c_pos|apply bandwidthLpq_pos|apply masks_all|apply norm_pos].
    Qed.

    Theorem bandwidthLpq_scales n : bandwidthLpq t0 (scaleX c X) n = c * bandwidthLpq t0 X n.
    Proof. unfold bandwidthLpq. rewrite featmatLpq_invariant. apply bwLpq_hom. exact c_pos. Qed.

    Theorem coefsLpq_invariant n : coefsLpq t0 (scaleX c X) n = coefsLpq t0 X n.
    Proof.
      unfold coefsLpq. rewrite bandwidthLpq_scales, featmatLpq_invariant.
      rewrite gramLpq_inv by (try exact c_pos; apply bandwidthLpq_pos). reflexivity.
    Qed.

    Theorem lpq_fit_commutes_with_rescaling n z :
      predictionLpq t0 (scaleX c X) n (qscale c z) = predictionLpq t0 X n z.
    Proof.
      unfold predictionLpq. rewrite coefsLpq_invariant, bandwidthLpq_scales, featmatLpq_invariant.
      apply predictLpq_inv; [exact c_pos|apply bandwidthLpq_pos].
    Qed.

    Corollary lpq_selected_model_invariant (V : list (list R)) (select : list (list R) -> nat) (rounds : nat) z :
      predictionLpq t0 (scaleX c X)
        (select (map (fun n => map (predictionLpq t0 (scaleX c X) n) (map (qscale c) V)) (seq 0 (S rounds)))) (qscale c z)
      = predictionLpq t0 X (select (map (fun n => map (predictionLpq t0 X n) V) (seq 0 (S rounds)))) z.
    Proof.
      replace (map (fun n => map (predictionLpq t0 (scaleX c X) n) (map (qscale c) V)) (seq 0 (S rounds)))
        with (map (fun n => map (predictionLpq t0 X n) V) (seq 0 (S rounds))).
      - apply lpq_fit_commutes_with_rescaling.
      - apply map_ext. intros n. rewrite map_map. apply map_ext. intros v. symmetry. apply lpq_fit_commutes_with_rescaling.
    Qed.
  End Fit.
End LpqPipeline.

(* ====================================================================================================================== *)
(* PART 3 — non-vacuity.  The data, order statistic, solver and root of the closing examples of ScaleInvL2.v are reused:
   Xex = [[0;0];[3;4]], medex = second entry, solveex = [1;1], rootex = TNone; no transform, eps = 1/1000, c = 2, base = 10.
   Product kernel with q = 1 (l1 distance 7); Lpq kernel with p = 2, q = 1 (distance 5).  All hypotheses of the Fit sections
   hold at EVERY round (the normaliser is positive for any positive bandwidth). *)
(* generic helpers *)
Lemma dabs_pow_neg_sign p a : 0 < p -> a < 0 -> dabs_pow p a < 0.
Proof.
  intros Hp Ha. rewrite dabs_pow_neg by exact Ha.
  assert (H : 0 < Rpower (- a) (p - 1)) by apply exp_pos. nra.
Qed.

(* entry (0,0) of the AGOP of two gradients in R^2 is a0^2 + b0^2 *)
Lemma agop2_pos a0 a1 b0 b1 : a0 <> 0 -> 0 < mmaxR (agop_raw [[a0; a1]; [b0; b1]]).
Proof.
  intros Ha. unfold agop_raw, outer. cbn [map fold_right maddP vaddP].
  eapply Rlt_le_trans; [|apply mmaxR_ge_head]. nra.
Qed.

Lemma sap_2 q a b : sum_abs_pow q [a; b] = pw (Rabs a) q + pw (Rabs b) q.
Proof. unfold sum_abs_pow, rsumR. cbn [map fold_right]. ring. Qed.

Lemma Rabs_0m a : 0 <= a -> Rabs (0 - a) = a.
Proof. intros H. replace (0 - a) with (- a) by ring. rewrite Rabs_Ropp. apply Rabs_right. lra. Qed.
Lemma Rabs_m0 a : 0 <= a -> Rabs (a - 0) = a.
Proof. intros H. replace (a - 0) with a by ring. apply Rabs_right. lra. Qed.
Lemma Rabs_self a : Rabs (a - a) = 0.
Proof. replace (a - a) with 0 by ring. apply Rabs_R0. Qed.

(* ---- product kernel, q = 1: the l1 distances of Xex = [[0;0];[3;4]] ---- *)
Lemma DP_00 : sum_abs_pow 1 (vsubR [0; 0] [0; 0]) = 0.
Proof. cbn [vsubR]. rewrite sap_2, !Rabs_self, pw_0. ring. Qed.
Lemma DP_11 : sum_abs_pow 1 (vsubR [3; 4] [3; 4]) = 0.
Proof. cbn [vsubR]. rewrite sap_2, !Rabs_self, pw_0. ring. Qed.
Lemma DP_01 : sum_abs_pow 1 (vsubR [0; 0] [3; 4]) = 7.
Proof. cbn [vsubR]. rewrite sap_2, !Rabs_0m, !pw_one by lra. ring. Qed.
Lemma DP_10 : sum_abs_pow 1 (vsubR [3; 4] [0; 0]) = 7.
Proof. cbn [vsubR]. rewrite sap_2, !Rabs_m0, !pw_one by lra. ring. Qed.

Lemma pdist_q_ex : pdist_q 1 TNone Xex = [0; 7; 7; 0].
Proof.
  unfold pdist_q, Xex. cbn [flat_map map app transform]. rewrite DP_00, DP_01, DP_10, DP_11.
  rewrite Rinv_1, pw_0, pw_one by lra. reflexivity.
Qed.

Lemma masksP_ex : masksP 1 (1 / 1000) 2 TNone Xex.
Proof.
  intros x z Hx Hz. cbn [transform]. cbv zeta. rewrite Rpower_1 by lra.
  destruct Hx as [<-|[<-|[]]]; destruct Hz as [<-|[<-|[]]];
    rewrite ?DP_00, ?DP_01, ?DP_10, ?DP_11; unfold same_side; lra.
Qed.

(* the gradients of the example: two vectors of R^2, the first with a non-zero first coordinate (for ANY bandwidth L):
   at z = (0,0) the coincident centre is masked and the centre (3,4) contributes  -k/L * d|a|/da(-3) * 1 <> 0 *)
Lemma gradsP_ex_shape L : exists a0 a1 b0 b1, a0 <> 0 /\ gradsP 1 (1 / 1000) TNone L Xex [1; 1] = [[a0; a1]; [b0; b1]].
Proof.
  unfold gradsP, grad_product, Xex. cbn [map transform length]. unfold gauto. cbn [seq map dlincomb basis repeat].
  unfold dprod_m. rewrite DP_00, DP_01, DP_10, DP_11.
  rewrite !(masked_closed (1 / 1000) 0) by lra. rewrite !(masked_open (1 / 1000) 7) by lra.
  do 4 eexists. split; [|reflexivity].
  unfold dprod. rewrite DP_01. cbn [vsubR wsum].
  assert (Hd : dabs_pow 1 (0 - 3) < 0) by (apply dabs_pow_neg_sign; lra).
  assert (HA : 0 < / Rpower L 1) by (apply Rinv_0_lt_compat, exp_pos).
  assert (HB : 0 < exp (- (7) / Rpower L 1)) by apply exp_pos.
  assert (HAB : 0 < / Rpower L 1 * exp (- (7) / Rpower L 1)) by (apply Rmult_lt_0_compat; assumption).
  set (K := / Rpower L 1 * exp (- (7) / Rpower L 1)) in *. set (d3 := dabs_pow 1 (0 - 3)) in *. set (d4 := dabs_pow 1 (0 - 4)).
  replace (- / Rpower L 1 * exp (- (7) / Rpower L 1)) with (- K) by (unfold K; ring).
  nra.
Qed.

Lemma normP_pos_ex L : 0 < mmaxR (agop_raw (gradsP 1 (1 / 1000) TNone L Xex [1; 1])).
Proof. destruct (gradsP_ex_shape L) as [a0 [a1 [b0 [b1 [Ha ->]]]]]. apply agop2_pos. exact Ha. Qed.

Example grad_product_homogeneous_ex L : 0 < L ->
  grad_product TNone (2 * L) 1 (1 / 1000) (map (vscaleR 2) Xex) [1; 1] (vscaleR 2 [0; 0])
  = vscaleR (/ 2) (grad_product TNone L 1 (1 / 1000) Xex [1; 1] [0; 0]).
Proof.
  intros HL. apply grad_product_homogeneous; [lra|exact HL|].
  apply Forall_forall. intros x Hx. apply (masksP_ex x [0; 0] Hx). left. reflexivity.
Qed.

Example bwP_hom_ex : bwP 10 1 medex TNone (scaleX 2 Xex) = 2 * bwP 10 1 medex TNone Xex /\ bwP 10 1 medex TNone Xex = 70.
Proof.
  split; [apply bwP_hom; [lra|apply medex_hom|lra]|]. unfold bwP. rewrite pdist_q_ex. unfold medex. cbn [nth]. lra.
Qed.

Example agopP_inv_ex :
  agopP 1 (1 / 1000) rootex TNone (2 * 70) (scaleX 2 Xex) [1; 1] = agopP 1 (1 / 1000) rootex TNone 70 Xex [1; 1].
Proof. apply agopP_inv; [lra|lra|apply masksP_ex|apply normP_pos_ex]. Qed.

Lemma featmatP_ex n : featmatP 10 1 (1 / 1000) medex solveex rootex TNone Xex n = TNone.
Proof. destruct n as [|n]; reflexivity. Qed.

(* every round of the product-kernel fit *)
Example product_fit_commutes_with_rescaling_ex n z :
  predictionP 10 1 (1 / 1000) medex solveex rootex TNone (scaleX 2 Xex) n (qscale 2 z)
  = predictionP 10 1 (1 / 1000) medex solveex rootex TNone Xex n z.
Proof.
  apply product_fit_commutes_with_rescaling.
  - lra.
  - apply medex_hom.
  - lra.
  - intros k. rewrite featmatP_ex, pdist_q_ex. unfold medex. cbn [nth]. lra.
  - intros k. rewrite featmatP_ex. apply masksP_ex.
  - intros k. rewrite featmatP_ex. unfold coefsP, solveex. apply normP_pos_ex.
Qed.

(* (P1), (P2) on the instance *)
Example pdist_q_scale_ex : pdist_q 1 TNone (scaleX 2 Xex) = [2 * 0; 2 * 7; 2 * 7; 2 * 0].
Proof. rewrite pdist_q_scale, pdist_q_ex by lra. reflexivity. Qed.

Example closed_product_scale_ex : closed_product TNone (2 * 70) 1 (vscaleR 2 [0; 0]) (vscaleR 2 [3; 4]) = closed_product TNone 70 1 [0; 0] [3; 4].
Proof. apply closed_product_scale; lra. Qed.

(* ---- Lpq kernel, p = 2, q = 1: the Euclidean distances of Xex in the form normp 2 ---- *)
Lemma pw_sq a : 0 < a -> pw a 2 = a * a.
Proof. intros H. rewrite pw_pos by exact H. apply Rpower_sq. exact H. Qed.
Lemma pw_half_25 : pw 25 (/ 2) = 5.
Proof.
  rewrite pw_pos by lra. rewrite Rpower_sqrt by lra. replace 25 with (5 * 5) by ring. apply sqrt_square. lra.
Qed.

Lemma SL_00 : sum_abs_pow 2 (vsubR [0; 0] [0; 0]) = 0.
Proof. cbn [vsubR]. rewrite sap_2, !Rabs_self, pw_0. ring. Qed.
Lemma SL_11 : sum_abs_pow 2 (vsubR [3; 4] [3; 4]) = 0.
Proof. cbn [vsubR]. rewrite sap_2, !Rabs_self, pw_0. ring. Qed.
Lemma SL_01 : sum_abs_pow 2 (vsubR [0; 0] [3; 4]) = 25.
Proof. cbn [vsubR]. rewrite sap_2, !Rabs_0m, !pw_sq by lra. ring. Qed.
Lemma SL_10 : sum_abs_pow 2 (vsubR [3; 4] [0; 0]) = 25.
Proof. cbn [vsubR]. rewrite sap_2, !Rabs_m0, !pw_sq by lra. ring. Qed.

Lemma NL_00 : normp 2 (vsubR [0; 0] [0; 0]) = 0.
Proof. unfold normp. rewrite SL_00. apply pw_0. Qed.
Lemma NL_11 : normp 2 (vsubR [3; 4] [3; 4]) = 0.
Proof. unfold normp. rewrite SL_11. apply pw_0. Qed.
Lemma NL_01 : normp 2 (vsubR [0; 0] [3; 4]) = 5.
Proof. unfold normp. rewrite SL_01. apply pw_half_25. Qed.
Lemma NL_10 : normp 2 (vsubR [3; 4] [0; 0]) = 5.
Proof. unfold normp. rewrite SL_10. apply pw_half_25. Qed.

Lemma pdist_p_ex : pdist_p 2 TNone Xex = [0; 5; 5; 0].
Proof. unfold pdist_p, Xex. cbn [flat_map map app transform]. rewrite NL_00, NL_01, NL_10, NL_11. reflexivity. Qed.

Lemma masksLpq_ex : masksLpq 2 (1 / 1000) 2 TNone Xex.
Proof.
  intros x z Hx Hz. cbn [transform]. cbv zeta.
  destruct Hx as [<-|[<-|[]]]; destruct Hz as [<-|[<-|[]]];
    rewrite ?NL_00, ?NL_01, ?NL_10, ?NL_11; unfold same_side; lra.
Qed.

Lemma gradsLpq_ex_shape L : exists a0 a1 b0 b1, a0 <> 0 /\ gradsLpq 2 1 (1 / 1000) TNone L Xex [1; 1] = [[a0; a1]; [b0; b1]].
Proof.
  unfold gradsLpq, grad_lpq, Xex. cbn [map transform length]. unfold gauto. cbn [seq map dlincomb basis repeat].
  unfold dlpq_m. rewrite NL_00, NL_01, NL_10, NL_11.
  rewrite !(masked_closed (1 / 1000) 0) by lra. rewrite !(masked_open (1 / 1000) 5) by lra.
  do 4 eexists. split; [|reflexivity].
  unfold dlpq. rewrite NL_01, SL_01. cbn [vsubR wsum].
  assert (Hd : dabs_pow 2 (0 - 3) < 0) by (apply dabs_pow_neg_sign; lra).
  assert (HA : 0 < / Rpower L 1) by (apply Rinv_0_lt_compat, exp_pos).
  assert (HB : 0 < exp (- pw 5 1 / Rpower L 1)) by apply exp_pos.
  assert (HR : 0 < Rpower 25 (1 / 2 - 1)) by apply exp_pos.
  assert (HAB : 0 < / Rpower L 1 * exp (- pw 5 1 / Rpower L 1)) by (apply Rmult_lt_0_compat; assumption).
  assert (HK : 0 < / Rpower L 1 * exp (- pw 5 1 / Rpower L 1) * (1 / 2 * Rpower 25 (1 / 2 - 1)))
    by (apply Rmult_lt_0_compat; [exact HAB|lra]).
  set (K := / Rpower L 1 * exp (- pw 5 1 / Rpower L 1) * (1 / 2 * Rpower 25 (1 / 2 - 1))) in *.
  set (d3 := dabs_pow 2 (0 - 3)) in *. set (d4 := dabs_pow 2 (0 - 4)).
  replace (- / Rpower L 1 * exp (- pw 5 1 / Rpower L 1) * (1 / 2 * Rpower 25 (1 / 2 - 1) * (d3 * 1 + (d4 * 0 + 0))))
    with (- K * d3) by (unfold K; ring).
  nra.
Qed.

Lemma normLpq_pos_ex L : 0 < mmaxR (agop_raw (gradsLpq 2 1 (1 / 1000) TNone L Xex [1; 1])).
Proof. destruct (gradsLpq_ex_shape L) as [a0 [a1 [b0 [b1 [Ha ->]]]]]. apply agop2_pos. exact Ha. Qed.

Example grad_lpq_homogeneous_ex L : 0 < L ->
  grad_lpq TNone (2 * L) 2 1 (1 / 1000) (map (vscaleR 2) Xex) [1; 1] (vscaleR 2 [0; 0])
  = vscaleR (/ 2) (grad_lpq TNone L 2 1 (1 / 1000) Xex [1; 1] [0; 0]).
Proof.
  intros HL. apply grad_lpq_homogeneous; [lra|exact HL|lra|].
  apply Forall_forall. intros x Hx. apply (masksLpq_ex x [0; 0] Hx). left. reflexivity.
Qed.

Example bwLpq_hom_ex : bwLpq 10 2 medex TNone (scaleX 2 Xex) = 2 * bwLpq 10 2 medex TNone Xex /\ bwLpq 10 2 medex TNone Xex = 50.
Proof.
  split; [apply bwLpq_hom; [lra|apply medex_hom|lra]|]. unfold bwLpq. rewrite pdist_p_ex. unfold medex. cbn [nth]. lra.
Qed.

Example agopLpq_inv_ex :
  agopLpq 2 1 (1 / 1000) rootex TNone (2 * 50) (scaleX 2 Xex) [1; 1] = agopLpq 2 1 (1 / 1000) rootex TNone 50 Xex [1; 1].
Proof. apply agopLpq_inv; [lra|lra|lra|apply masksLpq_ex|apply normLpq_pos_ex]. Qed.

Lemma featmatLpq_ex n : featmatLpq 10 2 1 (1 / 1000) medex solveex rootex TNone Xex n = TNone.
Proof. destruct n as [|n]; reflexivity. Qed.

(* every round of the Lpq-kernel fit *)
Example lpq_fit_commutes_with_rescaling_ex n z :
  predictionLpq 10 2 1 (1 / 1000) medex solveex rootex TNone (scaleX 2 Xex) n (qscale 2 z)
  = predictionLpq 10 2 1 (1 / 1000) medex solveex rootex TNone Xex n z.
Proof.
  apply lpq_fit_commutes_with_rescaling.
  - lra.
  - apply medex_hom.
  - lra.
  - intros k. rewrite featmatLpq_ex, pdist_p_ex. unfold medex. cbn [nth]. lra.
  - intros k. rewrite featmatLpq_ex. apply masksLpq_ex.
  - intros k. rewrite featmatLpq_ex. unfold coefsLpq, solveex. apply normLpq_pos_ex.
Qed.

(* (Q1), (Q2) on the instance *)
Example pdist_p_scale_ex : pdist_p 2 TNone (scaleX 2 Xex) = [2 * 0; 2 * 5; 2 * 5; 2 * 0].
Proof. rewrite pdist_p_scale, pdist_p_ex by lra. reflexivity. Qed.

Example closed_lpq_scale_ex : closed_lpq TNone (2 * 50) 2 1 (vscaleR 2 [0; 0]) (vscaleR 2 [3; 4]) = closed_lpq TNone 50 2 1 [0; 0] [3; 4].
Proof. apply closed_lpq_scale; lra. Qed.

Print Assumptions product_fit_commutes_with_rescaling.
Print Assumptions lpq_fit_commutes_with_rescaling.
Print Assumptions grad_product_homogeneous.
Print Assumptions grad_lpq_homogeneous.
Print Assumptions product_fit_commutes_with_rescaling_ex.
Print Assumptions lpq_fit_commutes_with_rescaling_ex.
