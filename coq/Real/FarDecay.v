(* C12, the KERNEL half of the far-row clause: the raw leaf prediction  f(z) = sum_i alpha_i k(c_i, z)  of a Laplace-type
   kernel model tends to 0 as the query z moves away from ALL centers, with an explicit rate and an explicit radius.

   Proofs/FarRows.v proves the DECODING half over Q (probas_prevalence_near_prior / probas_prevalence_near_zero_prediction:
   a raw prediction whose entries are bounded by delta decodes, after clamp + renormalisation, within
   2 (K-1) B delta / eps of the decoded prior).  This file supplies the missing premise "the raw prediction is bounded by
   delta far from the data" over the reals, for the closed-form kernels of Real/Kernels.v:

     |f(z)| <= (sum_i |alpha_i|) * exp (- (R / L)^q)        whenever every center is at kernel-distance >= R from z,

   for closed_l2 (any transform t), closed_lpq, and (with the distance the product kernel actually uses, sum_j |u_j|^q)
   closed_product; and the op-sequence kernels laplace_l2 / laplace_light(TNone) through the closed-form theorems.
   No PSD, no symmetry, no length agreement between centers and coefficients, no well-formedness of the transform are
   needed: fpred truncates to the shorter list and the bound uses the full sum of |alpha_i|.

   NEGATIVE RESULT (item 4): the sum-power kernel with const_mix c > 0 does NOT vanish far away: c^power <= k(x, z) for all
   x, z (sum_power_lower_bound), so with one center and coefficient 1 the raw prediction stays >= c^power at every distance
   (sum_power_does_not_vanish).  The far-row clause of C12 cannot be derived for that kernel by this argument. *)
From Coq Require Import Reals List Lra Lia.
Require Import XV.Real.Kernels XV.Real.Grads.
Import ListNotations.
Local Open Scope R_scope.

(* ---------------------------------------------------------------------------------------------------------------- *)
(* elementary facts                                                                                                  *)
(* ---------------------------------------------------------------------------------------------------------------- *)
Lemma exp_le x y : x <= y -> exp x <= exp y.
Proof. intros H. destruct (Rle_lt_or_eq_dec _ _ H) as [Hlt| ->]; [left; apply exp_increasing; exact Hlt|right; reflexivity]. Qed.

(* the development's power function is monotone in the base (q >= 0) *)
Lemma pw_mono a b q : 0 <= q -> 0 <= a <= b -> pw a q <= pw b q.
Proof.
  intros Hq [Ha Hab]. unfold pw. destruct (Req_EM_T a 0) as [Ea|Na]; destruct (Req_EM_T b 0) as [Eb|Nb]; try lra.
  - left. apply exp_pos.
  - apply Rle_Rpower_l; [exact Hq|lra].
Qed.

Lemma Rpower_inv_base L q : 0 < L -> Rpower (/ L) q = / Rpower L q.
Proof. intros HL. unfold Rpower. rewrite ln_Rinv by exact HL. rewrite <- exp_Ropp. f_equal. ring. Qed.

(* (r0 / L)^q = r0^q / L^q  in the development's power function *)
Lemma pw_div r0 L q : 0 < L -> 0 <= r0 -> pw (r0 / L) q = pw r0 q / Rpower L q.
Proof.
  intros HL HR. destruct (Req_dec r0 0) as [-> |Hne].
  - unfold Rdiv. rewrite Rmult_0_l, pw_0. ring.
  - assert (HRp : 0 < r0) by lra.
    assert (HiL : 0 < / L) by (apply Rinv_0_lt_compat; exact HL).
    rewrite !pw_pos; [|exact HRp|unfold Rdiv; apply Rmult_lt_0_compat; assumption].
    unfold Rdiv. rewrite <- Rpower_inv_base by exact HL.
    unfold Rpower. rewrite ln_mult by assumption. rewrite <- exp_plus. f_equal. ring.
Qed.

(* r |-> exp (- r^q / L^q) is non-increasing on r >= 0 (any L: Rpower L q > 0 always) *)
Lemma radial_decreasing L q r0 d : 0 <= q -> 0 <= r0 <= d -> exp (- pw d q / Rpower L q) <= exp (- pw r0 q / Rpower L q).
Proof.
  intros Hq HRd. apply exp_le.
  pose proof (pw_mono r0 d q Hq HRd) as Hm.
  assert (HL : 0 < / Rpower L q) by (apply Rinv_0_lt_compat, exp_pos).
  unfold Rdiv. nra.
Qed.

(* ---------------------------------------------------------------------------------------------------------------- *)
(* the expansion bound for an arbitrary kernel                                                                       *)
(* ---------------------------------------------------------------------------------------------------------------- *)
Definition abs_sum (cs : list R) : R := rsumR (map Rabs cs).

Lemma abs_sum_nonneg cs : 0 <= abs_sum cs.
Proof.
  unfold abs_sum. apply rsumR_nonneg. apply Forall_forall. intros y Hy. apply in_map_iff in Hy.
  destruct Hy as [x [<- _]]. apply Rabs_pos.
Qed.

Lemma abs_sum_cons c cs : abs_sum (c :: cs) = Rabs c + abs_sum cs.
Proof. reflexivity. Qed.

(* |sum_i alpha_i k(c_i, z)| <= (sum_i |alpha_i|) * B  when every |k(c_i, z)| <= B.  No length hypothesis. *)
Theorem fpred_bound (k : list R -> list R -> R) (z : list R) (B : R) : forall xs cs,
  0 <= B -> Forall (fun x => Rabs (k x z) <= B) xs ->
  Rabs (fpred k xs cs z) <= abs_sum cs * B.
Proof.
  intros xs cs HB. revert cs. induction xs as [|x xs IH]; intros cs H.
  - cbn [fpred]. rewrite Rabs_R0. pose proof (abs_sum_nonneg cs). nra.
  - destruct cs as [|c cs].
    + cbn [fpred]. rewrite Rabs_R0. unfold abs_sum, rsumR. cbn. lra.
    + inversion H as [|? ? Hx Hxs]; subst. cbn [fpred]. rewrite abs_sum_cons.
      specialize (IH cs Hxs).
      eapply Rle_trans; [apply Rabs_triang|]. rewrite Rabs_mult.
      pose proof (Rabs_pos c). pose proof (Rabs_pos (k x z)). nra.
Qed.

(* radial kernels  k(x, z) = exp (- dist(x, z)^q / L^q) *)
Theorem radial_expansion_bound (dist : list R -> list R -> R) (L q r0 : R) (xs : list (list R)) (cs z : list R) :
  0 <= q -> 0 <= r0 ->
  Forall (fun x => r0 <= dist x z) xs ->
  Rabs (fpred (fun x z => exp (- pw (dist x z) q / Rpower L q)) xs cs z) <= abs_sum cs * exp (- pw r0 q / Rpower L q).
Proof.
  intros Hq HR H.
  apply (fpred_bound (fun x z => exp (- pw (dist x z) q / Rpower L q))); [left; apply exp_pos|].
  eapply Forall_impl; [|exact H]. intros x Hx. cbv beta.
  rewrite Rabs_pos_eq by (left; apply exp_pos). apply radial_decreasing; [exact Hq|lra].
Qed.

(* ---------------------------------------------------------------------------------------------------------------- *)
(* 1. the L2 Laplace kernel                                                                                          *)
(* ---------------------------------------------------------------------------------------------------------------- *)
(* kernel form of the bound; L arbitrary, q >= 0 *)
Theorem kernel_expansion_bound_l2_raw t L q xs cs z r0 :
  0 <= q -> 0 <= r0 ->
  Forall (fun x => r0 <= norm2 (transform t (vsubR x z))) xs ->
  Rabs (fpred (closed_l2 t L q) xs cs z) <= abs_sum cs * exp (- pw r0 q / Rpower L q).
Proof.
  intros Hq HR H.
  exact (radial_expansion_bound (fun x z => norm2 (transform t (vsubR x z))) L q r0 xs cs z Hq HR H).
Qed.

(* the requested form: (sum_i |alpha_i|) * exp (- (r0/L)^q) *)
Theorem kernel_expansion_bound_l2 t L q xs cs z r0 :
  0 < L -> 0 < q -> 0 <= r0 ->
  Forall (fun x => r0 <= norm2 (transform t (vsubR x z))) xs ->
  Rabs (fpred (closed_l2 t L q) xs cs z) <= abs_sum cs * exp (- pw (r0 / L) q).
Proof.
  intros HL Hq HR H. rewrite pw_div by assumption.
  replace (- (pw r0 q / Rpower L q)) with (- pw r0 q / Rpower L q) by (unfold Rdiv; ring).
  apply kernel_expansion_bound_l2_raw; [lra|exact HR|exact H].
Qed.

(* ---------------------------------------------------------------------------------------------------------------- *)
(* 2. the product and Lpq Laplace kernels                                                                            *)
(* ---------------------------------------------------------------------------------------------------------------- *)
(* product kernel: its "distance" is sum_j |u_j|^q itself; no hypothesis on L, q, r0 at all *)
Theorem kernel_expansion_bound_product t L q xs cs z r0 :
  Forall (fun x => r0 <= sum_abs_pow q (transform t (vsubR x z))) xs ->
  Rabs (fpred (closed_product t L q) xs cs z) <= abs_sum cs * exp (- r0 / Rpower L q).
Proof.
  intros H. apply fpred_bound; [left; apply exp_pos|].
  eapply Forall_impl; [|exact H]. intros x Hx. cbv beta. unfold closed_product.
  rewrite Rabs_pos_eq by (left; apply exp_pos). apply exp_le.
  assert (HL : 0 < / Rpower L q) by (apply Rinv_0_lt_compat, exp_pos).
  unfold Rdiv. nra.
Qed.

Theorem kernel_expansion_bound_lpq_raw t L p q xs cs z r0 :
  0 <= q -> 0 <= r0 ->
  Forall (fun x => r0 <= normp p (transform t (vsubR x z))) xs ->
  Rabs (fpred (closed_lpq t L p q) xs cs z) <= abs_sum cs * exp (- pw r0 q / Rpower L q).
Proof.
  intros Hq HR H.
  exact (radial_expansion_bound (fun x z => normp p (transform t (vsubR x z))) L q r0 xs cs z Hq HR H).
Qed.

Theorem kernel_expansion_bound_lpq t L p q xs cs z r0 :
  0 < L -> 0 < q -> 0 <= r0 ->
  Forall (fun x => r0 <= normp p (transform t (vsubR x z))) xs ->
  Rabs (fpred (closed_lpq t L p q) xs cs z) <= abs_sum cs * exp (- pw (r0 / L) q).
Proof.
  intros HL Hq HR H. rewrite pw_div by assumption.
  replace (- (pw r0 q / Rpower L q)) with (- pw r0 q / Rpower L q) by (unfold Rdiv; ring).
  apply kernel_expansion_bound_lpq_raw; [lra|exact HR|exact H].
Qed.

(* the op-sequence kernels (what the code computes), with the distance the op sequence computes *)
Theorem kernel_expansion_bound_laplace_l2_ops t L q xs cs z r0 :
  0 <= q -> 0 <= r0 ->
  Forall (fun x => r0 <= cdist2 (transform t x) (transform t z)) xs ->
  Rabs (fpred (laplace_l2 t L q) xs cs z) <= abs_sum cs * exp (- pw r0 q / Rpower L q).
Proof.
  intros Hq HR H. apply fpred_bound; [left; apply exp_pos|].
  eapply Forall_impl; [|exact H]. intros x Hx. cbv beta. unfold laplace_l2.
  rewrite Rabs_pos_eq by (left; apply exp_pos).
  rewrite Rmax_right by (unfold cdist2; apply sqrt_pos).
  replace (pw (cdist2 (transform t x) (transform t z)) q * (- 1 / Rpower L q))
    with (- pw (cdist2 (transform t x) (transform t z)) q / Rpower L q) by (unfold Rdiv; ring).
  apply radial_decreasing; [exact Hq|lra].
Qed.

(* ---------------------------------------------------------------------------------------------------------------- *)
(* 3. the raw prediction vanishes far from the data: explicit radius                                                 *)
(* ---------------------------------------------------------------------------------------------------------------- *)
(* r0 = L * (ln (S / eps'))^(1/q)  when S > eps', else 0 *)
Definition far_radius (L q S eps' : R) : R :=
  if Rlt_dec eps' S then L * Rpower (ln (S / eps')) (/ q) else 0.

Lemma far_radius_nonneg L q S eps' : 0 < L -> 0 <= far_radius L q S eps'.
Proof.
  intros HL. unfold far_radius. destruct (Rlt_dec eps' S); [|lra].
  pose proof (exp_pos (/ q * ln (ln (S / eps')))). unfold Rpower. nra.
Qed.

(* the defining property of the radius: S * exp (- (r0/L)^q) <= eps' *)
Lemma far_radius_spec L q S eps' : 0 < L -> 0 < q -> 0 < eps' -> 0 <= S ->
  S * exp (- pw (far_radius L q S eps' / L) q) <= eps'.
Proof.
  intros HL Hq He HS. unfold far_radius. destruct (Rlt_dec eps' S) as [Hlt|Hge].
  - assert (HSp : 0 < S) by lra.
    assert (Hr : 1 < S / eps').
    { apply Rmult_lt_reg_r with eps'; [exact He|]. unfold Rdiv. rewrite Rmult_assoc, Rinv_l by lra. lra. }
    assert (Hln : 0 < ln (S / eps')) by (rewrite <- ln_1; apply ln_increasing; lra).
    replace (L * Rpower (ln (S / eps')) (/ q) / L) with (Rpower (ln (S / eps')) (/ q)) by (field; lra).
    rewrite pw_pos by apply exp_pos.
    rewrite Rpower_mult, Rinv_l by lra. rewrite Rpower_1 by exact Hln.
    rewrite exp_Ropp, exp_ln by lra. right. field. lra.
  - replace (0 / L) with 0 by (unfold Rdiv; ring). rewrite pw_0, Ropp_0, exp_0. lra.
Qed.

(* single output: for every eps' > 0 the explicit radius works, for any number of centers, any transform *)
Theorem far_rows_raw_prediction_vanishes_l2_explicit t L q xs cs eps' :
  0 < L -> 0 < q -> 0 < eps' ->
  forall z, Forall (fun x => far_radius L q (abs_sum cs) eps' <= norm2 (transform t (vsubR x z))) xs ->
  Rabs (fpred (closed_l2 t L q) xs cs z) <= eps'.
Proof.
  intros HL Hq He z H.
  eapply Rle_trans; [apply (kernel_expansion_bound_l2 t L q xs cs z _ HL Hq (far_radius_nonneg L q _ eps' HL) H)|].
  apply far_radius_spec; try assumption. apply abs_sum_nonneg.
Qed.

Theorem far_rows_raw_prediction_vanishes_l2 t L q xs cs eps' :
  0 < L -> 0 < q -> 0 < eps' ->
  exists r0, 0 <= r0 /\
    forall z, Forall (fun x => r0 <= norm2 (transform t (vsubR x z))) xs ->
    Rabs (fpred (closed_l2 t L q) xs cs z) <= eps'.
Proof.
  intros HL Hq He. exists (far_radius L q (abs_sum cs) eps'). split; [apply far_radius_nonneg; exact HL|].
  apply far_rows_raw_prediction_vanishes_l2_explicit; assumption.
Qed.

(* any number of outputs: A = one coefficient vector per output column; ONE radius for all outputs
   (S = total absolute mass of all the coefficients) *)
Definition abs_sum_all (A : list (list R)) : R := rsumR (map abs_sum A).

Lemma abs_sum_le_all A : Forall (fun cs => abs_sum cs <= abs_sum_all A) A.
Proof.
  induction A as [|a A IH]; constructor.
  - unfold abs_sum_all. cbn [map rsumR fold_right].
    assert (0 <= rsumR (map abs_sum A)).
    { apply rsumR_nonneg. apply Forall_forall. intros y Hy. apply in_map_iff in Hy. destruct Hy as [x [<- _]]. apply abs_sum_nonneg. }
    unfold rsumR in *. lra.
  - eapply Forall_impl; [|exact IH]. intros cs Hcs. cbv beta in *. unfold abs_sum_all in *. cbn [map rsumR fold_right].
    pose proof (abs_sum_nonneg a). unfold rsumR in *. lra.
Qed.

Lemma abs_sum_all_nonneg A : 0 <= abs_sum_all A.
Proof.
  unfold abs_sum_all. apply rsumR_nonneg. apply Forall_forall. intros y Hy. apply in_map_iff in Hy.
  destruct Hy as [x [<- _]]. apply abs_sum_nonneg.
Qed.

Theorem far_rows_raw_prediction_vanishes_l2_outputs t L q xs (A : list (list R)) eps' :
  0 < L -> 0 < q -> 0 < eps' ->
  exists r0, 0 <= r0 /\
    forall z, Forall (fun x => r0 <= norm2 (transform t (vsubR x z))) xs ->
    Forall (fun cs => Rabs (fpred (closed_l2 t L q) xs cs z) <= eps') A.
Proof.
  intros HL Hq He. exists (far_radius L q (abs_sum_all A) eps'). split; [apply far_radius_nonneg; exact HL|].
  intros z H. eapply Forall_impl; [|apply abs_sum_le_all]. intros cs Hcs. cbv beta in Hcs.
  eapply Rle_trans; [apply (kernel_expansion_bound_l2 t L q xs cs z _ HL Hq (far_radius_nonneg L q _ eps' HL) H)|].
  eapply Rle_trans; [|apply (far_radius_spec L q (abs_sum_all A) eps' HL Hq He (abs_sum_all_nonneg A))].
  apply Rmult_le_compat_r; [left; apply exp_pos|exact Hcs].
Qed.

(* the same limit for the Lpq kernel (same radius) and the product kernel (radius L^q ln (S/eps') in ITS distance) *)
Theorem far_rows_raw_prediction_vanishes_lpq t L p q xs cs eps' :
  0 < L -> 0 < q -> 0 < eps' ->
  exists r0, 0 <= r0 /\
    forall z, Forall (fun x => r0 <= normp p (transform t (vsubR x z))) xs ->
    Rabs (fpred (closed_lpq t L p q) xs cs z) <= eps'.
Proof.
  intros HL Hq He. exists (far_radius L q (abs_sum cs) eps'). split; [apply far_radius_nonneg; exact HL|].
  intros z H.
  eapply Rle_trans; [apply (kernel_expansion_bound_lpq t L p q xs cs z _ HL Hq (far_radius_nonneg L q _ eps' HL) H)|].
  apply far_radius_spec; try assumption. apply abs_sum_nonneg.
Qed.

Theorem far_rows_raw_prediction_vanishes_product t L q xs cs eps' :
  0 < eps' ->
  exists r0, 0 <= r0 /\
    forall z, Forall (fun x => r0 <= sum_abs_pow q (transform t (vsubR x z))) xs ->
    Rabs (fpred (closed_product t L q) xs cs z) <= eps'.
Proof.
  intros He. pose proof (abs_sum_nonneg cs) as HS. pose proof (exp_pos (q * ln L)) as HLq. fold (Rpower L q) in HLq.
  destruct (Rlt_dec eps' (abs_sum cs)) as [Hlt|Hge].
  - assert (Hr : 1 < abs_sum cs / eps').
    { apply Rmult_lt_reg_r with eps'; [exact He|]. unfold Rdiv. rewrite Rmult_assoc, Rinv_l by lra. lra. }
    assert (Hln : 0 < ln (abs_sum cs / eps')) by (rewrite <- ln_1; apply ln_increasing; lra).
    exists (Rpower L q * ln (abs_sum cs / eps')). split; [nra|].
    intros z H. eapply Rle_trans; [apply (kernel_expansion_bound_product t L q xs cs z _ H)|].
    replace (- (Rpower L q * ln (abs_sum cs / eps')) / Rpower L q) with (- ln (abs_sum cs / eps')) by (field; lra).
    rewrite exp_Ropp, exp_ln by lra. right. field. lra.
  - exists 0. split; [lra|]. intros z H.
    eapply Rle_trans; [apply (kernel_expansion_bound_product t L q xs cs z _ H)|].
    replace (- 0 / Rpower L q) with 0 by (unfold Rdiv; ring). rewrite exp_0. lra.
Qed.

(* ---------------------------------------------------------------------------------------------------------------- *)
(* 4. the sum-power kernel does NOT vanish                                                                           *)
(* ---------------------------------------------------------------------------------------------------------------- *)
Lemma sum_power_lower_bound t L q c power x z : 0 <= c <= 1 ->
  c ^ power <= closed_sum_power t L q c power x z.
Proof.
  intros [Hc0 Hc1]. unfold closed_sum_power. cbv zeta.
  set (dif := transform t (vsubR x z)).
  set (s := rsumR (map (fun u => exp (- pw (Rabs u) q / Rpower L q)) dif)).
  assert (Hs : 0 <= s).
  { unfold s. apply rsumR_nonneg. apply Forall_forall. intros y Hy. apply in_map_iff in Hy.
    destruct Hy as [u [<- _]]. left. apply exp_pos. }
  assert (Hm : 0 <= s / INR (length dif)).
  { destruct dif as [|d0 dif'] eqn:E.
    - unfold s. cbn [map rsumR fold_right]. unfold Rdiv. rewrite Rmult_0_l. lra.
    - assert (0 < INR (length (d0 :: dif'))) by (apply lt_0_INR; cbn; lia).
      apply Rmult_le_pos; [exact Hs|]. left. apply Rinv_0_lt_compat. assumption. }
  apply pow_incr. split; [exact Hc0|]. nra.
Qed.

(* one center at the origin of R^1, coefficient 1, TNone, L = q = 1, const_mix 1/2, power 2:
   the raw prediction is >= 1/4 at EVERY query, so the statement of item 3 is false for this kernel *)
Example sum_power_far_value_ge z :
  1 / 4 <= fpred (closed_sum_power TNone 1 1 (1 / 2) 2) [[0]] [1] z.
Proof.
  cbn [fpred]. pose proof (sum_power_lower_bound TNone 1 1 (1 / 2) 2 [0] z) as H.
  assert (Hc : 0 <= 1 / 2 <= 1) by lra. specialize (H Hc). lra.
Qed.

Example sum_power_does_not_vanish :
  ~ (forall eps', 0 < eps' -> exists r0, forall z, r0 <= norm2 (transform TNone (vsubR [0] z)) ->
       Rabs (fpred (closed_sum_power TNone 1 1 (1 / 2) 2) [[0]] [1] z) <= eps').
Proof.
  intros H. destruct (H (1 / 8)) as [r0 HR]; [lra|].
  specialize (HR [r0]).
  assert (Hd : r0 <= norm2 (transform TNone (vsubR [0] [r0]))).
  { cbn [transform vsubR]. unfold norm2, sumsq. cbn [map rsumR fold_right].
    replace ((0 - r0) * (0 - r0) + 0) with (Rsqr r0) by (unfold Rsqr; ring).
    rewrite sqrt_Rsqr_abs. apply Rle_abs. }
  specialize (HR Hd). pose proof (sum_power_far_value_ge [r0]) as Hv.
  pose proof (Rle_abs (fpred (closed_sum_power TNone 1 1 (1 / 2) 2) [[0]] [1] [r0])). lra.
Qed.

(* ---------------------------------------------------------------------------------------------------------------- *)
(* 5. non-vacuity: two centers in R^2, coefficients [2; -3], TNone, L = 1, q = 1 *)
(* ---------------------------------------------------------------------------------------------------------------- *)
Lemma le_sqrt_of_sq r0 s : 0 <= r0 -> r0 * r0 <= s -> r0 <= sqrt s.
Proof. intros HR H. rewrite <- (sqrt_square r0 HR). apply sqrt_le_1_alt. exact H. Qed.

Example far_decay_example :
  Rabs (fpred (closed_l2 TNone 1 1) [[0; 0]; [1; 0]] [2; -3] [20; 0]) <= 5 * exp (- 10).
Proof.
  assert (Hs : abs_sum [2; -3] = 5).
  { unfold abs_sum. cbn [map rsumR fold_right]. rewrite (Rabs_pos_eq 2) by lra. rewrite (Rabs_left (-3)) by lra. ring. }
  assert (Hp : pw (10 / 1) 1 = 10) by (rewrite pw_one by lra; field).
  replace (5 * exp (- 10)) with (abs_sum [2; -3] * exp (- pw (10 / 1) 1)) by (rewrite Hs, Hp; f_equal; f_equal; lra).
  apply kernel_expansion_bound_l2; try lra.
  apply Forall_cons; [|apply Forall_cons; [|apply Forall_nil]];
    cbn [transform vsubR]; unfold norm2, sumsq; cbn [map rsumR fold_right]; apply le_sqrt_of_sq; lra.
Qed.

(* the hypothesis of the example is met with room: both centers are at distance >= 10 (in fact 20 and 19) *)
Example far_decay_example_distances :
  Forall (fun x => 10 <= norm2 (transform TNone (vsubR x [20; 0]))) [[0; 0]; [1; 0]].
Proof.
  apply Forall_cons; [|apply Forall_cons; [|apply Forall_nil]];
    cbn [transform vsubR]; unfold norm2, sumsq; cbn [map rsumR fold_right]; apply le_sqrt_of_sq; lra.
Qed.

(* and the bound is not trivially satisfied by f = 0: the prediction at that query is non-zero *)
Example far_decay_example_nonzero :
  fpred (closed_l2 TNone 1 1) [[0; 0]; [1; 0]] [2; -3] [20; 0] <> 0.
Proof.
  cbn [fpred]. unfold closed_l2, norm2, sumsq. cbn [transform vsubR map rsumR fold_right].
  replace ((0 - 20) * (0 - 20) + ((0 - 0) * (0 - 0) + 0)) with (20 * 20) by ring.
  replace ((1 - 20) * (1 - 20) + ((0 - 0) * (0 - 0) + 0)) with (19 * 19) by ring.
  rewrite !sqrt_square by lra. rewrite !pw_one by lra.
  rewrite Rpower_1 by lra.
  (* 2 e^-20 - 3 e^-19 = e^-20 (2 - 3 e) < 0 *)
  assert (E : exp (- (19) / 1) = exp (- (20) / 1) * exp 1) by (rewrite <- exp_plus; f_equal; field).
  rewrite E.
  pose proof (exp_pos (- (20) / 1)) as H20. pose proof exp_ineq1 1 as H1.
  assert (1 + 1 < exp 1) by (apply H1; lra). nra.
Qed.

Print Assumptions kernel_expansion_bound_l2.
Print Assumptions kernel_expansion_bound_product.
Print Assumptions kernel_expansion_bound_lpq.
Print Assumptions far_rows_raw_prediction_vanishes_l2.
Print Assumptions far_rows_raw_prediction_vanishes_l2_outputs.
Print Assumptions sum_power_lower_bound.
