(* The soft-routing weight computation as the code performs it (xrfm/xrfm.py, _predict_tree_soft), with its two clamps
   (log-probabilities clamped below at -50, normaliser clamped below at `tiny`), tied to the idealised model of Real/SoftReal.v.

     for each split node j:   logits = x . v_j - b_j ;  z_j = logits / (T * s_j)
     for each leaf, along its path (node j, took_left):
         log_prob = 0 ; log_prob = log_prob + logsigmoid(-z_j) if took_left else log_prob + logsigmoid(z_j)      (a LEFT fold)
     c = clamp(stack(log_probs), min = -50) ; m = max(c) ; e = exp(c - m) ;
     normaliser = clamp(sum(e), min = tiny) ; weights = e / normaliser                                                        *)
From Coq Require Import Reals List Lra Lia Bool QArith.
Require Import XV.Model.Tree XV.Model.Soft XV.Real.SoftReal XV.Real.Kernels.
Import ListNotations.
Local Open Scope R_scope.

(* `rsum` below is always SoftReal.rsum (Kernels.rsumR is the same function under another name). *)
Notation rsum := XV.Real.SoftReal.rsum.

(* ---------- definitions (names fixed by the task) ---------- *)
Definition code_logit (T : R) (x v : list R) (b s : R) : R := (vdotR x v - b) / (T * s).

Definition code_step (z : nat -> R) (acc : R) (g : nat * bool) : R :=
  if snd g then acc + logsigmoid (- z (fst g)) else acc + logsigmoid (z (fst g)).

Definition code_path_logp (z : nat -> R) (p : gpath) : R := fold_left (code_step z) p 0.

Definition rmaxl (l : list R) : R := match l with [] => 0 | a :: t => fold_right Rmax a t end.

Definition code_weights (tiny : R) (lps : list R) : list R :=
  let c := map (Rmax (-50)) lps in
  let m := rmaxl c in
  let es := map (fun l => exp (l - m)) c in
  map (fun e => e / Rmax (rsum es) tiny) es.

(* ---------- S1 : the code's left fold is the model's right fold ---------- *)
Lemma code_step_glogit z acc g : code_step z acc g = acc + logsigmoid (glogit z g).
Proof. unfold code_step, glogit. destruct (snd g); reflexivity. Qed.

Lemma code_fold_acc z : forall p acc, fold_left (code_step z) p acc = acc + path_logp z p.
Proof.
  induction p as [|g p IH]; intros acc; unfold path_logp in *; cbn [fold_left fold_right]; [lra|].
  rewrite IH, code_step_glogit. lra.
Qed.

Theorem code_path_logp_eq : forall z p, code_path_logp z p = path_logp z p.
Proof. intros z p. unfold code_path_logp. rewrite code_fold_acc. lra. Qed.

(* ---------- S2 : the row maximum ---------- *)
Lemma fold_Rmax_in : forall t a, In (fold_right Rmax a t) (a :: t).
Proof.
  induction t as [|b t IH]; intros a; cbn [fold_right]; [left; reflexivity|].
  destruct (Rmax_case b (fold_right Rmax a t) (fun r => r = b \/ r = fold_right Rmax a t)) as [E|E];
    [left; reflexivity|right; reflexivity| |].
  - rewrite E. right. left. reflexivity.
  - rewrite E. destruct (IH a) as [H|H]; [left; exact H|right; right; exact H].
Qed.

Lemma fold_Rmax_ge : forall t a x, In x (a :: t) -> x <= fold_right Rmax a t.
Proof.
  induction t as [|b t IH]; intros a x Hx; cbn [fold_right].
  - destruct Hx as [E|[]]. subst x. lra.
  - destruct Hx as [E|[E|Hx]].
    + subst x. eapply Rle_trans; [apply (IH a a); left; reflexivity|apply Rmax_r].
    + subst x. apply Rmax_l.
    + eapply Rle_trans; [apply (IH a x); right; exact Hx|apply Rmax_r].
Qed.

Theorem rmaxl_in : forall l, l <> [] -> In (rmaxl l) l.
Proof. intros [|a t] Hne; [contradiction|]. unfold rmaxl. apply fold_Rmax_in. Qed.

Theorem rmaxl_ge : forall l a, In a l -> a <= rmaxl l.
Proof. intros [|b t] a Ha; [destruct Ha|]. unfold rmaxl. apply fold_Rmax_ge. exact Ha. Qed.

(* ---------- S3 : the normaliser is at least 1, so the `tiny` clamp is inactive ---------- *)
Lemma rsum_map_nonneg {A} (f : A -> R) : (forall a, 0 <= f a) -> forall l, 0 <= rsum (map f l).
Proof.
  intros Hf. unfold rsum. induction l as [|a l IH]; cbn [map fold_right]; [lra|]. specialize (Hf a). lra.
Qed.

Lemma rsum_map_ge_term {A} (f : A -> R) : (forall a, 0 <= f a) -> forall l a, In a l -> f a <= rsum (map f l).
Proof.
  intros Hf. induction l as [|b l IH]; intros a Ha; [destruct Ha|].
  change (rsum (map f (b :: l))) with (f b + rsum (map f l)).
  destruct Ha as [<-|Ha].
  - pose proof (rsum_map_nonneg f Hf l). lra.
  - specialize (IH a Ha). specialize (Hf b). lra.
Qed.

Lemma shifted_sum_ge_1 : forall c, c <> [] -> 1 <= rsum (map (fun l => exp (l - rmaxl c)) c).
Proof.
  intros c Hne.
  pose proof (rsum_map_ge_term (fun l => exp (l - rmaxl c)) (fun a => Rlt_le _ _ (exp_pos _)) c (rmaxl c) (rmaxl_in c Hne)) as H.
  cbv beta in H. rewrite Rminus_diag_eq, exp_0 in H by reflexivity. exact H.
Qed.

Lemma map_nonnil {A B} (f : A -> B) l : l <> [] -> map f l <> [].
Proof. destruct l; [contradiction|discriminate]. Qed.

Theorem normaliser_ge_1 : forall lps, lps <> [] ->
  let c := map (Rmax (-50)) lps in 1 <= rsum (map (fun l => exp (l - rmaxl c)) c).
Proof. intros lps Hne c. apply shifted_sum_ge_1. apply map_nonnil. exact Hne. Qed.

Corollary outer_clamp_inactive : forall tiny lps, tiny <= 1 -> lps <> [] ->
  let c := map (Rmax (-50)) lps in let es := map (fun l => exp (l - rmaxl c)) c in
  Rmax (rsum es) tiny = rsum es.
Proof. intros tiny lps Ht Hne c es. pose proof (normaliser_ge_1 lps Hne) as H. cbv zeta in H. apply Rmax_left. unfold es, c. lra. Qed.

(* the code's weights are the model's shifted softmax of the CLAMPED log-probabilities *)
Lemma code_weights_softmax : forall tiny lps, tiny <= 1 -> lps <> [] ->
  code_weights tiny lps = softmax_shift (rmaxl (map (Rmax (-50)) lps)) (map (Rmax (-50)) lps).
Proof.
  intros tiny lps Ht Hne. unfold code_weights, softmax_shift. cbv zeta.
  rewrite (outer_clamp_inactive tiny lps Ht Hne). reflexivity.
Qed.

(* closed form: weight_i = exp(max(l_i,-50)) / sum_k exp(max(l_k,-50)) *)
Theorem code_weights_spec : forall tiny lps, tiny <= 1 -> lps <> [] ->
  code_weights tiny lps = map (fun l => exp (Rmax (-50) l) / rsum (map (fun k => exp (Rmax (-50) k)) lps)) lps.
Proof.
  intros tiny lps Ht Hne. rewrite (code_weights_softmax tiny lps Ht Hne), softmax_shift_spec, !map_map. reflexivity.
Qed.

(* ---------- S4 : without active clamp the code computes exactly the model's softmax ---------- *)
Lemma clamp_id : forall lps, Forall (fun l => -50 <= l) lps -> map (Rmax (-50)) lps = lps.
Proof.
  induction 1 as [|a l Ha Hl IH]; cbn [map]; [reflexivity|]. rewrite IH, Rmax_right by exact Ha. reflexivity.
Qed.

Theorem code_weights_unclamped : forall tiny lps, tiny <= 1 -> lps <> [] -> Forall (fun l => -50 <= l) lps ->
  code_weights tiny lps = softmax_shift (rmaxl lps) lps.
Proof. intros tiny lps Ht Hne Hall. rewrite (code_weights_softmax tiny lps Ht Hne), (clamp_id lps Hall). reflexivity. Qed.

Lemma paths_from_nonnil {L} : forall (T : tree L) next p, paths_from T next p <> [].
Proof.
  induction T as [m|v b l IHl r IHr]; intros next p; cbn [paths_from]; [discriminate|].
  intros E. apply app_eq_nil in E. destruct E as [E _]. exact (IHl _ _ E).
Qed.

(* the code's weights of the leaves of a tree are the products of the gate probabilities along the leaves' paths *)
Corollary code_weights_are_gate_products {L} : forall (tiny : R) (z : nat -> R) (T : tree L), tiny <= 1 ->
  (forall mp, In mp (paths T) -> -50 <= path_logp z (snd mp)) ->
  code_weights tiny (map (code_path_logp z) (map snd (paths T))) = map (fun mp => path_prob z (snd mp)) (paths T).
Proof.
  intros tiny z T Ht Hlo.
  assert (E : map (code_path_logp z) (map snd (paths T)) = map (path_logp z) (map snd (paths T))).
  { apply map_ext. intros p. apply code_path_logp_eq. }
  rewrite E. rewrite code_weights_unclamped.
  - apply (soft_weights_are_gate_products (rmaxl (map (path_logp z) (map snd (paths T)))) z T).
  - exact Ht.
  - apply map_nonnil, map_nonnil. apply paths_from_nonnil.
  - rewrite map_map. apply Forall_forall. intros y Hy. apply in_map_iff in Hy. destruct Hy as [mp [<- Hin]]. apply Hlo. exact Hin.
Qed.

(* ---------- S5 : the code's weights always form a probability distribution ---------- *)
Lemma rsum_map_div {A} (f : A -> R) (s : R) : forall l, rsum (map (fun a => f a / s) l) = rsum (map f l) / s.
Proof.
  unfold rsum. induction l as [|a l IH]; cbn [map fold_right]; [unfold Rdiv; lra|]. rewrite IH. unfold Rdiv. lra.
Qed.

Lemma clamped_sum_pos : forall lps, lps <> [] -> 0 < rsum (map (fun k => exp (Rmax (-50) k)) lps).
Proof.
  intros lps Hne. rewrite <- (map_map (Rmax (-50)) exp). apply rsum_exp_pos. apply map_nonnil. exact Hne.
Qed.

Theorem code_weights_distribution : forall tiny lps, tiny <= 1 -> lps <> [] ->
  Forall (fun w => 0 < w) (code_weights tiny lps) /\ rsum (code_weights tiny lps) = 1.
Proof.
  intros tiny lps Ht Hne. rewrite (code_weights_spec tiny lps Ht Hne).
  pose proof (clamped_sum_pos lps Hne) as HD. set (D := rsum (map (fun k => exp (Rmax (-50) k)) lps)) in *. split.
  - apply Forall_forall. intros w Hw. apply in_map_iff in Hw. destruct Hw as [l [<- _]].
    apply Rdiv_lt_0_compat; [apply exp_pos|exact HD].
  - rewrite (rsum_map_div (fun l => exp (Rmax (-50) l)) D lps). fold D. field. lra.
Qed.

(* ---------- S6 : the effect of the -50 clamp is negligible ---------- *)
Lemma exp_clamp_lo k : exp k <= exp (Rmax (-50) k).
Proof.
  destruct (Rle_lt_dec (-50) k) as [H|H]; [rewrite Rmax_right by exact H; lra|].
  rewrite Rmax_left by lra. left. apply exp_increasing. exact H.
Qed.

Lemma exp_clamp_hi k : exp (Rmax (-50) k) <= exp k + exp (-50).
Proof.
  pose proof (exp_pos k) as Hk. pose proof (exp_pos (-50)) as H50.
  destruct (Rle_lt_dec (-50) k) as [H|H]; [rewrite Rmax_right by exact H; lra|]. rewrite Rmax_left by lra. lra.
Qed.

Lemma clamped_sum_bounds : forall lps,
  rsum (map exp lps) <= rsum (map (fun k => exp (Rmax (-50) k)) lps) <= rsum (map exp lps) + INR (length lps) * exp (-50).
Proof.
  induction lps as [|a l IH].
  - unfold rsum. cbn [map fold_right length INR]. lra.
  - change (rsum (map exp (a :: l))) with (exp a + rsum (map exp l)).
    change (rsum (map (fun k => exp (Rmax (-50) k)) (a :: l)))
      with (exp (Rmax (-50) a) + rsum (map (fun k => exp (Rmax (-50) k)) l)).
    change (length (a :: l)) with (S (length l)). rewrite S_INR.
    pose proof (exp_clamp_lo a) as Hlo. pose proof (exp_clamp_hi a) as Hhi. lra.
Qed.

Lemma nth_code_weights : forall tiny lps i, tiny <= 1 -> (i < length lps)%nat ->
  nth i (code_weights tiny lps) 0 =
  exp (Rmax (-50) (nth i lps 0)) / rsum (map (fun k => exp (Rmax (-50) k)) lps).
Proof.
  intros tiny lps i Ht Hi.
  assert (Hne : lps <> []) by (intros E; subst lps; cbn in Hi; lia).
  rewrite (code_weights_spec tiny lps Ht Hne).
  set (f := fun l => exp (Rmax (-50) l) / rsum (map (fun k => exp (Rmax (-50) k)) lps)).
  rewrite (nth_indep (map f lps) 0 (f 0)) by (rewrite map_length; exact Hi).
  rewrite map_nth. reflexivity.
Qed.

Lemma div_le_compat_denom a d1 d2 : 0 <= a -> 0 < d1 -> d1 <= d2 -> a / d2 <= a / d1.
Proof.
  intros Ha Hd1 Hd. unfold Rdiv. apply Rmult_le_compat_l; [exact Ha|]. apply Rinv_le_contravar; assumption.
Qed.

Theorem clamp_effect_negligible : forall tiny lps, tiny <= 1 -> lps <> [] ->
  let S := rsum (map exp lps) in let n := length lps in
  forall i, (i < n)%nat ->
    let l := nth i lps 0 in let w := nth i (code_weights tiny lps) 0 in
    (-50 <= l -> exp l / (S + INR n * exp (-50)) <= w <= exp l / S) /\
    (l < -50 -> 0 < w <= exp (-50) / S).
Proof.
  intros tiny lps Ht Hne S n i Hi l w.
  assert (Ew : w = exp (Rmax (-50) l) / rsum (map (fun k => exp (Rmax (-50) k)) lps)).
  { unfold w, l. apply nth_code_weights; assumption. }
  pose proof (clamped_sum_bounds lps) as [HDlo HDhi]. fold S n in HDlo, HDhi.
  pose proof (rsum_exp_pos lps Hne) as HS. fold S in HS.
  set (D := rsum (map (fun k => exp (Rmax (-50) k)) lps)) in *.
  assert (HD : 0 < D) by lra.
  split; intros Hl; rewrite Ew.
  - rewrite Rmax_right by exact Hl. pose proof (exp_pos l) as He. split; apply div_le_compat_denom; lra.
  - rewrite Rmax_left by lra. pose proof (exp_pos (-50)) as He. split.
    + apply Rdiv_lt_0_compat; assumption.
    + apply div_le_compat_denom; lra.
Qed.

(* for the leaves of a tree S = 1 (SoftReal.leaf_probs_sum_to_one): every code weight is within the stated bounds of the gate product *)
Corollary clamp_effect_on_tree {L} : forall (tiny : R) (z : nat -> R) (T : tree L), tiny <= 1 ->
  let lps := map (code_path_logp z) (map snd (paths T)) in
  let n := length (paths T) in
  forall i, (i < n)%nat ->
    let P := path_prob z (snd (nth i (paths T) (route T [], []))) in
    let w := nth i (code_weights tiny lps) 0 in
    (exp (-50) <= P -> P / (1 + INR n * exp (-50)) <= w <= P) /\
    (P < exp (-50) -> 0 < w <= exp (-50)).
Proof.
  intros tiny z T Ht lps n i Hi P w.
  assert (Hlen : length lps = n) by (unfold lps, n; rewrite !map_length; reflexivity).
  assert (Hne : lps <> []) by (unfold lps; apply map_nonnil, map_nonnil, paths_from_nonnil).
  assert (HS : rsum (map exp lps) = 1).
  { unfold lps. rewrite !map_map. rewrite <- (leaf_probs_sum_to_one z T). f_equal. apply map_ext.
    intros mp. rewrite code_path_logp_eq. apply exp_path_logp. }
  assert (El : exp (nth i lps 0) = P).
  { unfold lps, P. rewrite map_map.
    set (f := fun mp : L * gpath => code_path_logp z (snd mp)).
    rewrite (nth_indep (map f (paths T)) 0 (f (route T [], []))) by (rewrite map_length; exact Hi).
    rewrite map_nth. unfold f. rewrite code_path_logp_eq. apply exp_path_logp. }
  pose proof (clamp_effect_negligible tiny lps Ht Hne i) as H. cbv zeta in H.
  rewrite Hlen, HS, El in H. specialize (H Hi). destruct H as [H1 H2].
  assert (Hexp : forall a b, exp a <= exp b -> a <= b).
  { intros a b Hab. destruct (Rle_lt_dec a b) as [|Hlt]; [assumption|]. apply exp_increasing in Hlt. lra. }
  split; intros HP.
  - assert (Hl : -50 <= nth i lps 0) by (apply Hexp; rewrite El; exact HP).
    specialize (H1 Hl). unfold w. replace (P / 1) with P in H1 by field. exact H1.
  - assert (Hl : nth i lps 0 < -50) by (apply exp_lt_inv; rewrite El; exact HP).
    specialize (H2 Hl). unfold w. replace (exp (-50) / 1) with (exp (-50)) in H2 by field. exact H2.
Qed.

(* ---------- examples: the hypotheses are satisfiable ---------- *)
Example ex_rmaxl : rmaxl [-1; -2; -60] = -1.
Proof.
  unfold rmaxl. cbn [fold_right]. rewrite (Rmax_right (-60) (-1)) by lra. rewrite Rmax_right by lra. reflexivity.
Qed.

Example ex_path_logp : code_path_logp (fun j => INR j) [(0%nat, true); (1%nat, false)] = path_logp (fun j => INR j) [(0%nat, true); (1%nat, false)].
Proof. apply code_path_logp_eq. Qed.

Example ex_normaliser : 1 <= rsum (map (fun l => exp (l - rmaxl (map (Rmax (-50)) [-1; -2; -60]))) (map (Rmax (-50)) [-1; -2; -60])).
Proof. apply (normaliser_ge_1 [-1; -2; -60]). discriminate. Qed.

Example ex_unclamped : code_weights (/ 1000) [-1; -2; -3] = softmax_shift (-1) [-1; -2; -3].
Proof.
  assert (E : rmaxl [-1; -2; -3] = -1).
  { unfold rmaxl. cbn [fold_right]. rewrite (Rmax_right (-3) (-1)) by lra. rewrite Rmax_right by lra. reflexivity. }
  rewrite code_weights_unclamped; [rewrite E; reflexivity|lra|discriminate|]. repeat constructor; lra.
Qed.

Example ex_distribution :
  Forall (fun w => 0 < w) (code_weights (/ 1000) [-1; -2; -60]) /\ rsum (code_weights (/ 1000) [-1; -2; -60]) = 1.
Proof. apply code_weights_distribution; [lra|discriminate]. Qed.

Example ex_spec : code_weights (/ 1000) [-1; -2; -60] =
  [exp (-1) / (exp (-1) + (exp (-2) + (exp (-50) + 0)));
   exp (-2) / (exp (-1) + (exp (-2) + (exp (-50) + 0)));
   exp (-50) / (exp (-1) + (exp (-2) + (exp (-50) + 0)))].
Proof.
  rewrite code_weights_spec by (try lra; discriminate). unfold rsum. cbn [map fold_right].
  rewrite (Rmax_right (-50) (-1)), (Rmax_right (-50) (-2)), (Rmax_left (-50) (-60)) by lra. reflexivity.
Qed.

(* the clamped entry (-60 < -50, index 2) and an unclamped one (index 0) *)
Example ex_negligible :
  let S := exp (-1) + (exp (-2) + (exp (-60) + 0)) in
  (exp (-1) / (S + 3 * exp (-50)) <= nth 0 (code_weights (/ 1000) [-1; -2; -60]) 0 <= exp (-1) / S) /\
  (0 < nth 2 (code_weights (/ 1000) [-1; -2; -60]) 0 <= exp (-50) / S).
Proof.
  intros S.
  assert (Ht : / 1000 <= 1) by lra. assert (Hne : [-1; -2; -60] <> []) by discriminate.
  pose proof (clamp_effect_negligible (/ 1000) [-1; -2; -60] Ht Hne 0%nat ltac:(cbn; lia)) as H0.
  pose proof (clamp_effect_negligible (/ 1000) [-1; -2; -60] Ht Hne 2%nat ltac:(cbn; lia)) as H2.
  cbv zeta in H0, H2. cbn [nth length] in H0, H2.
  replace (INR 3) with 3 in H0 by (cbn; lra).
  unfold rsum in H0, H2. cbn [map fold_right] in H0, H2. fold S in H0, H2.
  split; [apply (proj1 H0); lra|apply (proj2 H2); lra].
Qed.

(* S4's corollary on a two-leaf tree (one split, logit 0 : both gates 1/2) *)
Lemma logsigmoid_0 : logsigmoid 0 = - ln 2.
Proof.
  unfold logsigmoid, sigmoid. rewrite Ropp_0, exp_0. replace (1 + 1) with 2 by lra. apply ln_Rinv. lra.
Qed.

Lemma ln2_lt_1 : ln 2 < 1.
Proof.
  apply Rlt_le_trans with (ln (exp 1)); [|rewrite ln_exp; lra]. apply ln_increasing; [lra|]. pose proof (exp_ineq1 1 ltac:(lra)). lra.
Qed.

Example ex_two_leaf_tree :
  let T : tree nat := Node [1%Q] 0%Q (Leaf 7%nat) (Leaf 8%nat) in
  code_weights (/ 1000) (map (code_path_logp (fun _ => 0)) (map snd (paths T))) = [/ 2; / 2].
Proof.
  intros T.
  rewrite (code_weights_are_gate_products (/ 1000) (fun _ => 0) T).
  - unfold T, paths. cbn [paths_from app map snd path_prob fold_right gate glogit fst].
    unfold gate, glogit, sigmoid. cbn [fst snd]. rewrite ?Ropp_0, exp_0. f_equal; [|f_equal]; field.
  - lra.
  - intros mp Hin. unfold T, paths in Hin. cbn [paths_from app] in Hin.
    pose proof ln2_lt_1 as Hln.
    destruct Hin as [<-|[<-|[]]]; unfold path_logp; cbn [snd fold_right glogit fst]; rewrite ?Ropp_0, logsigmoid_0; lra.
Qed.

Print Assumptions code_path_logp_eq.
Print Assumptions rmaxl_in.
Print Assumptions rmaxl_ge.
Print Assumptions normaliser_ge_1.
Print Assumptions code_weights_unclamped.
Print Assumptions code_weights_are_gate_products.
Print Assumptions code_weights_distribution.
Print Assumptions code_weights_spec.
Print Assumptions clamp_effect_negligible.
Print Assumptions clamp_effect_on_tree.
