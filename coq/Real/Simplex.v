(* Label codes of the 'prevalence' mode (xrfm/rfm_src/class_conversion.py 30-52) over an arbitrary ordered field, MathComp matrices.
   K = n + 1 classes, codes in F^n.  Q is what torch.linalg.qr returns: orthonormal columns orthogonal to the ones vector
   (the QR contract, checked numerically on every instance by the harness). *)
Set Warnings "-notation-overridden,-ambiguous-paths".
From mathcomp Require Import all_ssreflect all_algebra.
Set Implicit Arguments. Unset Strict Implicit. Unset Printing Implicit Defensive.
Import GRing.Theory Num.Theory.
Local Open Scope ring_scope.

Section Simplex.
Variable F : numFieldType.
Variable n : nat.
Notation K := (n + 1)%N.

Variable Q : 'M[F]_(K, n).
Hypothesis QtQ : Q^T *m Q = 1%:M.
Hypothesis oneQ : (const_mx 1 : 'rV[F]_K) *m Q = 0.
Variable prior : 'rV[F]_K.
Hypothesis prior_sum : prior *m (const_mx 1 : 'cV[F]_K) = 1%:M.

Definition ones_c : 'cV[F]_K := const_mx 1.
Definition ones_r : 'rV[F]_K := const_mx 1.
Definition mu : 'rV[F]_n := prior *m Q.
Definition C : 'M[F]_(K, n) := Q - ones_c *m mu.
Definition At : 'M[F]_(K, n + 1) := row_mx C ones_c.
Definition A : 'M[F]_(n + 1, K) := At^T.
Definition decode (x : 'rV[F]_n) : 'rV[F]_K := row_mx x 1%:M *m (invmx A)^T.
Definition B : 'M[F]_(K, n + 1) := row_mx Q ones_c.

Lemma ones_tr : ones_c^T = ones_r.
Proof. by rewrite /ones_c /ones_r trmx_const. Qed.

Lemma ones_ones : ones_r *m ones_c = (K%:R)%:M.
Proof.
apply/matrixP=> i j; rewrite !mxE (eq_bigr (fun _ => 1)); last by move=> k _; rewrite !mxE mulr1.
by rewrite sumr_const card_ord !ord1 eqxx mulr1n.
Qed.

Lemma Qt_ones : Q^T *m ones_c = 0.
Proof. by rewrite -[Q^T *m _]trmxK trmx_mul trmxK ones_tr oneQ trmx0. Qed.

Lemma BtB : B^T *m B = block_mx 1%:M 0 0 (K%:R)%:M.
Proof.
by rewrite /B tr_row_mx mul_col_row QtQ Qt_ones ones_tr oneQ ones_ones.
Qed.

Lemma K_neq0 : (K%:R : F) != 0.
Proof. by rewrite pnatr_eq0 addn1. Qed.

Definition Dinv : 'M[F]_(n + 1) := block_mx 1%:M 0 0 ((K%:R)^-1)%:M.

Lemma Dinv_BtB : Dinv *m (B^T *m B) = 1%:M.
Proof.
rewrite BtB /Dinv mulmx_block ?mulmx0 ?mul0mx ?mulmx1 ?mul1mx ?addr0 ?add0r.
by rewrite -scalar_mxM mulVf ?K_neq0 // -scalar_mx_block.
Qed.

Lemma B_Dinv_Bt : B *m (Dinv *m B^T) = 1%:M.
Proof. by apply: mulmx1C; rewrite -mulmxA Dinv_BtB. Qed.

Lemma B_unit : B \in unitmx.
Proof. by case: (mulmx1_unit B_Dinv_Bt). Qed.

(* Q Q^T + K^-1 1 1^T = I *)
Lemma QQt : Q *m Q^T + (K%:R)^-1 *: (ones_c *m ones_r) = 1%:M.
Proof.
rewrite -B_Dinv_Bt /B /Dinv tr_row_mx mul_block_col ?mul1mx ?mul0mx ?addr0 ?add0r mul_row_col.
by rewrite ones_tr mul_scalar_mx -scalemxAr.
Qed.

Definition E : 'M[F]_(n + 1) := block_mx 1%:M 0 (- mu) 1%:M.
Definition Einv : 'M[F]_(n + 1) := block_mx 1%:M 0 mu 1%:M.

Lemma At_factor : At = B *m E.
Proof.
rewrite /At /B /E /C mul_row_block ?mulmx1 ?mulmx0 ?add0r ?mulmxN.
by [].
Qed.

Lemma E_unit : E \in unitmx.
Proof.
suff H : E *m Einv = 1%:M by case: (mulmx1_unit H).
rewrite /E /Einv mulmx_block ?mulmx1 ?mul1mx ?mulmx0 ?mul0mx ?addr0 ?add0r ?addNr.
by rewrite -scalar_mx_block.
Qed.

Theorem A_unit : A \in unitmx.
Proof. by rewrite /A unitmx_tr At_factor unitmx_mul B_unit E_unit. Qed.

Lemma const1_11 : (const_mx 1 : 'M[F]_1) = 1%:M.
Proof. by apply/matrixP=> i j; rewrite !mxE !ord1 eqxx. Qed.

Lemma At_invAt : At *m (invmx A)^T = 1%:M.
Proof. by rewrite -{1}[At]trmxK -trmx_mul -/A mulVmx ?trmx1 //; exact: A_unit. Qed.

(* every class code decodes to its unit vector: exact round trip *)
Theorem decode_code i : decode (row i C) = delta_mx 0 i.
Proof.
rewrite /decode.
have -> : row_mx (row i C) 1%:M = row i At.
  by rewrite /At row_row_mx /ones_c row_const const1_11.
by rewrite -row_mul At_invAt row1.
Qed.

(* the zero vector decodes to the prior *)
Lemma prior_C : prior *m C = 0.
Proof.
by rewrite /C mulmxBr mulmxA prior_sum mul1mx /mu subrr.
Qed.

Theorem decode_zero : decode 0 = prior.
Proof.
rewrite /decode.
have -> : row_mx (0 : 'rV[F]_n) 1%:M = prior *m At.
  by rewrite /At mul_mx_row prior_C prior_sum.
by rewrite -mulmxA At_invAt mulmx1.
Qed.

(* decoding is affine (before clamping): mixtures of codes decode to the same mixtures of classes *)
Theorem decode_affine (a : F) (x y : 'rV[F]_n) :
  decode (a *: x + (1 - a) *: y) = a *: decode x + (1 - a) *: decode y.
Proof.
rewrite /decode !scalemxAl -mulmxDl; congr (_ *m _).
rewrite !scale_row_mx add_row_mx; congr (row_mx _ _).
by rewrite -scalerDl addrC subrK scale1r.
Qed.

(* the codes are mutually equidistant: squared distance 2 *)
Lemma delta_ones (i : 'I_K) : delta_mx 0 i *m ones_c = (1%:M : 'M[F]_1).
Proof.
apply/matrixP=> a b; rewrite !mxE !ord1 eqxx (bigD1 i) //= !mxE !eqxx mul1r big1 ?addr0 // => k ki.
by rewrite !mxE eqxx (negPf ki) mul0r.
Qed.

Theorem codes_equidistant (i j : 'I_K) : i != j ->
  (row i C - row j C) *m (row i C - row j C)^T = (2%:R)%:M.
Proof.
move=> ij.
set d : 'rV[F]_K := delta_mx 0 i - delta_mx 0 j.
have d1 : d *m ones_c = 0 by rewrite /d mulmxBl !delta_ones subrr.
have -> : row i C - row j C = d *m Q.
  by rewrite !rowE -mulmxBl -/d /C mulmxBr mulmxA d1 mul0mx subr0.
rewrite trmx_mul mulmxA -(mulmxA d) (_ : Q *m Q^T = 1%:M - (K%:R)^-1 *: (ones_c *m ones_r)); last first.
  by rewrite -QQt addrK.
rewrite mulmxBr mulmx1 mulmxBl -scalemxAr -scalemxAl mulmxA d1 !mul0mx scaler0 subr0.
apply/matrixP=> a b; rewrite !mxE !ord1 eqxx mulr1n.
have ji : j != i by rewrite eq_sym.
rewrite (bigD1 i) //= (bigD1 j) //= big1 ?addr0; last first.
  move=> k /andP[ki kj]; rewrite !mxE !eqxx /= (negPf ki) (negPf kj) subr0 mul0r //.
by rewrite !mxE !eqxx /= (negPf ij) (negPf ji) subr0 sub0r mul1r mulrNN mul1r.
Qed.
End Simplex.

(* non-vacuity: a rational instance with K = 4 classes (Hadamard-type orthonormal columns orthogonal to the ones vector) *)
Section Example4.
Local Open Scope ring_scope.
Definition Q4 : 'M[rat]_(3 + 1, 3) :=
  \matrix_(i, j) ((if ((i : nat) == 0%N) || ((i : nat) == (j : nat).+1) then 1 else -1) / 2%:R).
Definition prior4 : 'rV[rat]_(3 + 1) := \row_i (if (i : nat) == 0%N then 1 else 0).

Lemma Q4_orth : Q4^T *m Q4 = 1%:M.
Proof.
apply/matrixP=> j k; rewrite !mxE !big_ord_recl big_ord0 !mxE /=.
by case: j => [[|[|[|//]]] ?]; case: k => [[|[|[|//]]] ?].
Qed.
Lemma Q4_ones : (const_mx 1 : 'rV[rat]_(3 + 1)) *m Q4 = 0.
Proof.
apply/matrixP=> j k; rewrite !mxE !big_ord_recl big_ord0 !mxE /=.
by case: k => [[|[|[|//]]] ?].
Qed.
Lemma prior4_sum : prior4 *m (const_mx 1 : 'cV[rat]_(3 + 1)) = 1%:M.
Proof.
by apply/matrixP=> j k; rewrite !mxE !big_ord_recl big_ord0 !mxE /= !ord1.
Qed.

Example simplex_instance (i j : 'I_(3 + 1)) :
  decode Q4 prior4 (row i (C Q4 prior4)) = delta_mx 0 i /\ decode Q4 prior4 0 = prior4.
Proof. split; [exact: (decode_code Q4_orth Q4_ones prior4 i)|exact: (decode_zero Q4_orth Q4_ones prior4_sum)]. Qed.
End Example4.
