(* C15: the categorical fast path.  For one-hot inputs and a transform that does not mix feature groups, the distance of the
   transformed rows is the sum of per-block contributions, and a group's contribution for one-hot rows e_a, e_b is the table
   entry computed from the transformed identity codes. *)
From Coq Require Import Reals List Lra Lia.
Require Import XV.Real.Kernels XV.Real.Grads.
Import ListNotations.
Local Open Scope R_scope.

(* ---- block decomposition ---- *)
Lemma rsumR_app a b : rsumR (a ++ b) = rsumR a + rsumR b.
Proof. unfold rsumR. induction a as [|x a IH]; cbn; [lra|]. rewrite IH. lra. Qed.

Lemma vsubR_app : forall a a' b b', length a = length a' -> vsubR (a ++ b) (a' ++ b') = vsubR a a' ++ vsubR b b'.
Proof. induction a as [|x a IH]; intros [|y a'] b b' H; try discriminate; cbn; [reflexivity|]. cbn in H. injection H as H. rewrite IH by exact H. reflexivity. Qed.

Theorem sumsq_blocks a a' b b' : length a = length a' ->
  sumsq (vsubR (a ++ b) (a' ++ b')) = sumsq (vsubR a a') + sumsq (vsubR b b').
Proof. intros H. rewrite vsubR_app by exact H. unfold sumsq. rewrite map_app, rsumR_app. reflexivity. Qed.

Theorem sum_abs_pow_blocks p a a' b b' : length a = length a' ->
  sum_abs_pow p (vsubR (a ++ b) (a' ++ b')) = sum_abs_pow p (vsubR a a') + sum_abs_pow p (vsubR b b').
Proof. intros H. rewrite vsubR_app by exact H. unfold sum_abs_pow. rewrite map_app, rsumR_app. reflexivity. Qed.

(* any number of blocks *)
Fixpoint blocks_sumsq (A B : list (list R)) : R :=
  match A, B with a :: A', b :: B' => sumsq (vsubR a b) + blocks_sumsq A' B' | _, _ => 0 end.

Theorem sumsq_concat_blocks : forall A B, length A = length B -> Forall2 (fun a b => length a = length b) A B ->
  sumsq (vsubR (concat A) (concat B)) = blocks_sumsq A B.
Proof.
  induction A as [|a A IH]; intros [|b B] HL HF; try discriminate; cbn [concat blocks_sumsq]; [unfold sumsq; cbn; reflexivity|].
  inversion HF as [|? ? ? ? Hab HF']; subst. rewrite sumsq_blocks by exact Hab. rewrite IH; [reflexivity|cbn in HL; lia|exact HF'].
Qed.

(* ---- one-hot rows select a row of the (transformed) code table ---- *)
Lemma vscaleR_0 r : vscaleR 0 r = repeat 0 (length r).
Proof. unfold vscaleR. induction r as [|x r IH]; cbn; [reflexivity|]. f_equal; [ring|exact IH]. Qed.
Lemma vscaleR_1 r : vscaleR 1 r = r.
Proof. unfold vscaleR. induction r as [|x r IH]; cbn; [reflexivity|]. f_equal; [ring|exact IH]. Qed.
Lemma vaddR_zeros_l : forall r, vaddR (repeat 0 (length r)) r = r.
Proof. induction r as [|x r IH]; cbn; [reflexivity|]. f_equal; [ring|exact IH]. Qed.
Lemma vaddR_zeros_r : forall r, vaddR r (repeat 0 (length r)) = r.
Proof. induction r as [|x r IH]; cbn; [reflexivity|]. f_equal; [ring|exact IH]. Qed.

Lemma xmat_zeros dout : forall n rows, Forall (fun r => length r = dout) rows -> xmat dout (repeat 0 n) rows = repeat 0 dout.
Proof.
  induction n as [|n IH]; intros rows H; cbn; [reflexivity|]. destruct rows as [|r rows]; [reflexivity|].
  inversion H as [|? ? Hr Hrs]; subst. rewrite IH by exact Hrs. rewrite vscaleR_0.
  generalize (length r). intros k. induction k as [|k IHk]; cbn; [reflexivity|]. f_equal; [ring|exact IHk].
Qed.

(* e_a @ T = row a of T : the transformed one-hot row IS the a-th transformed identity code *)
Theorem xmat_basis dout : forall n a rows, length rows = n -> Forall (fun r => length r = dout) rows -> (a < n)%nat ->
  xmat dout (basis a n) rows = nth a rows (repeat 0 dout).
Proof.
  induction n as [|n IH]; intros a rows HL HF Ha; [lia|]. destruct rows as [|r rows]; [discriminate|].
  inversion HF as [|? ? Hr Hrs]; subst. cbn in HL. injection HL as HL. destruct a as [|a]; cbn [basis xmat nth].
  - rewrite xmat_zeros by exact Hrs. rewrite vscaleR_1. apply vaddR_zeros_r.
  - rewrite (IH a rows HL Hrs ltac:(lia)). rewrite vscaleR_0.
    assert (Hn : length (nth a rows (repeat 0 (length r))) = length r).
    { rewrite Forall_forall in Hrs. apply Hrs. apply nth_In. lia. }
    set (w := nth a rows (repeat 0 (length r))) in *. rewrite <- Hn. apply vaddR_zeros_l.
Qed.

(* hence: for one-hot rows e_a, e_b of a group with (full) transform T_g, the group's squared distance is the table entry
   computed from the transformed identity codes (cat_vecs = identity) *)
Theorem onehot_group_distance_is_table_entry dout n a b rows :
  length rows = n -> Forall (fun r => length r = dout) rows -> (a < n)%nat -> (b < n)%nat ->
  sumsq (vsubR (transform (TFull dout rows) (basis a n)) (transform (TFull dout rows) (basis b n)))
  = sumsq (vsubR (nth a rows (repeat 0 dout)) (nth b rows (repeat 0 dout))).
Proof. intros HL HF Ha Hb. cbn [transform]. rewrite !xmat_basis by assumption. reflexivity. Qed.

Theorem onehot_group_lp_is_table_entry p dout n a b rows :
  length rows = n -> Forall (fun r => length r = dout) rows -> (a < n)%nat -> (b < n)%nat ->
  sum_abs_pow p (vsubR (transform (TFull dout rows) (basis a n)) (transform (TFull dout rows) (basis b n)))
  = sum_abs_pow p (vsubR (nth a rows (repeat 0 dout)) (nth b rows (repeat 0 dout))).
Proof. intros HL HF Ha Hb. cbn [transform]. rewrite !xmat_basis by assumption. reflexivity. Qed.
