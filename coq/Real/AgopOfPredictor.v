(* Composition of C04 (gradients) and C14 (AGOP) for the L2 Laplace kernel:
   "the matrix the code accumulates is the sum, over the training points, of the outer products of the TRUE derivative of
    the predictor with each point's own (coincident) kernel terms left out".
   (A)  the masked closed-form gradient grad_l2 at z is, coordinate by coordinate, the derivative (Coquelicot is_derive) of the
        leave-out predictor loo_pred (the kernel terms whose centre coincides with z under the transform are dropped);
   (B)  entry (i,j) of agop_raw G is sum_g g_i g_j;
   (C)  hence entry (i,j) of the accumulated matrix agop_raw (gradsL2 ...) is the sum over the training points (and outputs) of
        products of true partial derivatives of the leave-out predictors;
   (D)  concrete instances. *)
From Coq Require Import Reals List Lra Lia.
From Coquelicot Require Import Coquelicot.
Require Import XV.Real.Kernels XV.Real.Grads XV.Real.ScaleInvL2.
Import ListNotations.
Local Open Scope R_scope.

(* ====================================================================================================================== *)
(* Definitions *)

(* the centres (with their coefficients) that do NOT coincide with z under the transform *)
Fixpoint others (t : tmat) (z : list R) (xs : list (list R)) (cs : list R) : list (list R) * list R :=
  match xs, cs with
  | x :: xs', c :: cs' => let '(ys, ds) := others t z xs' cs' in
      if Req_EM_T (cdist2 (transform t x) (transform t z)) 0 then (ys, ds) else (x :: ys, c :: ds)
  | _, _ => ([], [])
  end.

(* the predictor with z's own (coincident) kernel terms left out *)
Definition loo_pred (t : tmat) (L q : R) (xs : list (list R)) (cs : list R) (z : list R) : list R -> R :=
  fun z' => fpred (closed_l2 t L q) (fst (others t z xs cs)) (snd (others t z xs cs)) z'.

(* entry of a matrix given as list of rows *)
Definition ment (M : list (list R)) (i j : nat) : R := nth j (nth i M []) 0.

(* ====================================================================================================================== *)
(* (A) the masked gradient is the derivative of the leave-out predictor *)

Lemma others_nil_l t z cs : others t z [] cs = ([], []).
Proof. reflexivity. Qed.

Lemma others_nil_r t z xs : others t z xs [] = ([], []).
Proof. destruct xs as [|x xs]; reflexivity. Qed.

Lemma others_cons t z x xs c cs :
  others t z (x :: xs) (c :: cs) =
  if Req_EM_T (cdist2 (transform t x) (transform t z)) 0 then others t z xs cs
  else (x :: fst (others t z xs cs), c :: snd (others t z xs cs)).
Proof.
  cbn [others]. destruct (others t z xs cs) as [ys ds]. cbn [fst snd].
  destruct (Req_EM_T (cdist2 (transform t x) (transform t z)) 0) as [E|E]; reflexivity.
Qed.

(* the kept centres are centres, and none of them is coincident with z *)
Lemma others_in t z : forall xs cs x, In x (fst (others t z xs cs)) ->
  In x xs /\ cdist2 (transform t x) (transform t z) <> 0.
Proof.
  induction xs as [|x0 xs IH]; intros cs x Hin; [destruct Hin|].
  destruct cs as [|c cs]; [destruct Hin|].
  rewrite others_cons in Hin.
  destruct (Req_EM_T (cdist2 (transform t x0) (transform t z)) 0) as [E|E].
  - destruct (IH cs x Hin) as [H1 H2]. split; [right; exact H1|exact H2].
  - cbn [fst] in Hin. destruct Hin as [<-|Hin].
    + split; [left; reflexivity|exact E].
    + destruct (IH cs x Hin) as [H1 H2]. split; [right; exact H1|exact H2].
Qed.

Lemma others_Forall t z (P : list R -> Prop) xs cs : List.Forall P xs -> List.Forall P (fst (others t z xs cs)).
Proof.
  intros H. apply Forall_forall. intros x Hx. rewrite Forall_forall in H. apply H.
  apply (others_in t z xs cs x Hx).
Qed.

Lemma others_length t z : forall xs cs, length (snd (others t z xs cs)) = length (fst (others t z xs cs)).
Proof.
  induction xs as [|x xs IH]; intros cs; [reflexivity|]. destruct cs as [|c cs]; [reflexivity|].
  rewrite others_cons. destruct (Req_EM_T (cdist2 (transform t x) (transform t z)) 0) as [E|E]; [apply IH|].
  cbn [fst snd length]. rewrite IH. reflexivity.
Qed.

(* adding the zero multiple of a vector of the right length changes nothing *)
Lemma vaddR_zero_scale : forall v g, length v = length g -> vaddR (vscaleR 0 v) g = g.
Proof.
  unfold vscaleR. induction v as [|a v IH]; intros [|b g] H; try discriminate; cbn [map vaddR]; [reflexivity|].
  cbn in H. injection H as H. rewrite (IH g H). f_equal. ring.
Qed.

(* the coincident centres contribute the zero vector to the masked sum *)
Lemma gsum_drop_coincident t L q eps z : 0 < eps -> forall xs cs,
  List.Forall (fun x => length (transform t x) = length (transform t z)) xs ->
  gsum L q eps (transform t z) (map (transform t) xs) cs
  = gsum L q eps (transform t z) (map (transform t) (fst (others t z xs cs))) (snd (others t z xs cs)).
Proof.
  intros He. induction xs as [|x xs IH]; intros cs Hl; [reflexivity|].
  destruct cs as [|c cs]; [reflexivity|].
  inversion Hl as [|? ? Hx Hxs]; subst.
  rewrite others_cons. destruct (Req_EM_T (cdist2 (transform t x) (transform t z)) 0) as [E|E].
  - cbn [map gsum]. rewrite E, (gweight_coincident L q eps He), Rmult_0_r.
    rewrite vaddR_zero_scale; [apply IH; exact Hxs|].
    rewrite vsubR_length by (symmetry; exact Hx). rewrite gsum_length; [reflexivity|].
    apply Forall_forall. intros xm Hxm. apply in_map_iff in Hxm. destruct Hxm as [x' [<- Hx']].
    rewrite Forall_forall in Hxs. apply Hxs. exact Hx'.
  - cbn [fst snd map gsum]. rewrite (IH cs Hxs). reflexivity.
Qed.

Theorem grad_l2_drop_coincident t L q eps xs cs z : 0 < eps ->
  List.Forall (fun x => length (transform t x) = length (transform t z)) xs ->
  grad_l2 t L q eps xs cs z = grad_l2 t L q eps (fst (others t z xs cs)) (snd (others t z xs cs)) z.
Proof. intros He Hl. unfold grad_l2. rewrite (gsum_drop_coincident t L q eps z He xs cs Hl). reflexivity. Qed.

(* (A).  The statement is exactly the one specified.  Remarks: `length (basis d (length z)) = length z` always holds
   (Grads.basis_length) and `length cs = length xs` is not needed (others/fpred/gsum truncate consistently); both are kept as
   (harmless) hypotheses so that the statement is the specified one. *)
Theorem masked_gradient_is_leave_out_derivative : forall t L q eps xs cs z d w, 0 < eps ->
  wf_tmat t (length z) -> List.Forall (fun x => length x = length z) xs -> length cs = length xs ->
  (* every centre is either coincident with z under the transform or at least eps away *)
  List.Forall (fun x => cdist2 (transform t x) (transform t z) = 0 \/ eps <= cdist2 (transform t x) (transform t z)) xs ->
  List.Forall (fun x => length (transform t x) = length (transform t z)) xs ->
  List.Forall (fun x => length (transform t (vsubR z x)) = length w) xs ->
  sym_at t d w (length (transform t z)) ->
  length (basis d (length z)) = length z -> transform t (basis d (length z)) = w ->
  is_derive (fun s => loo_pred t L q xs cs z (vaxpy s (basis d (length z)) z)) 0 (nth d (grad_l2 t L q eps xs cs z) 0).
Proof.
  intros t L q eps xs cs z d w He Hw Hlen Hcs Hmask Htl Hwl Hsym Hbl Htw.
  rewrite (grad_l2_drop_coincident t L q eps xs cs z He Htl).
  assert (Hfar : List.Forall (fun x => eps <= cdist2 (transform t x) (transform t z)) (fst (others t z xs cs))).
  { apply Forall_forall. intros x Hx. destruct (others_in t z xs cs x Hx) as [Hin Hne].
    rewrite Forall_forall in Hmask. destruct (Hmask x Hin) as [H0|H1]; [contradiction|exact H1]. }
  assert (HD := grad_l2_is_derivative t L q eps (fst (others t z xs cs)) (snd (others t z xs cs)) z d w He Hw
                  (others_Forall t z _ xs cs Hlen) Hfar (others_Forall t z _ xs cs Htl) (others_Forall t z _ xs cs Hwl) Hsym).
  eapply is_derive_ext; [|exact HD].
  intros s. cbv beta. unfold loo_pred.
  rewrite (predictor_along_line t L q (fst (others t z xs cs)) (snd (others t z xs cs)) z (basis d (length z)) Hw Hbl
             (others_Forall t z _ xs cs Hlen) s).
  rewrite Htw. reflexivity.
Qed.

(* ---------- (A1), (A2): no transform / diagonal transform, no sym_at / w hypotheses left ---------- *)
Lemma vmulR_length_l : forall a m : list R, length a = length m -> length (vmulR a m) = length a.
Proof.
  induction a as [|x a IH]; intros [|y m] H; try discriminate; cbn [vmulR length]; [reflexivity|].
  cbn in H. injection H as H. rewrite (IH m H). reflexivity.
Qed.

Corollary masked_gradient_none : forall L q eps xs cs z d, 0 < eps ->
  List.Forall (fun x => length x = length z) xs -> length cs = length xs ->
  List.Forall (fun x => cdist2 (transform TNone x) (transform TNone z) = 0 \/ eps <= cdist2 (transform TNone x) (transform TNone z)) xs ->
  is_derive (fun s => loo_pred TNone L q xs cs z (vaxpy s (basis d (length z)) z)) 0 (nth d (grad_l2 TNone L q eps xs cs z) 0).
Proof.
  intros L q eps xs cs z d He Hlen Hcs Hmask.
  assert (Hwl : List.Forall (fun x => length (transform TNone (vsubR z x)) = length (transform TNone (basis d (length z)))) xs).
  { cbn [transform]. apply Forall_forall. intros x Hx. rewrite Forall_forall in Hlen.
    rewrite vsubR_length by (symmetry; apply Hlen; exact Hx). rewrite basis_length. reflexivity. }
  exact (masked_gradient_is_leave_out_derivative TNone L q eps xs cs z d (transform TNone (basis d (length z)))
           He I Hlen Hcs Hmask Hlen Hwl (sym_at_none d (length z)) (basis_length (length z) d) eq_refl).
Qed.

Corollary masked_gradient_diag : forall m L q eps xs cs z d, 0 < eps -> length m = length z ->
  List.Forall (fun x => length x = length z) xs -> length cs = length xs ->
  List.Forall (fun x => cdist2 (transform (TDiag m) x) (transform (TDiag m) z) = 0
                     \/ eps <= cdist2 (transform (TDiag m) x) (transform (TDiag m) z)) xs ->
  is_derive (fun s => loo_pred (TDiag m) L q xs cs z (vaxpy s (basis d (length z)) z)) 0 (nth d (grad_l2 (TDiag m) L q eps xs cs z) 0).
Proof.
  intros m L q eps xs cs z d He Hm Hlen Hcs Hmask.
  assert (Lz : length (transform (TDiag m) z) = length z) by (cbn [transform]; apply vmulR_length_l; symmetry; exact Hm).
  assert (Htl : List.Forall (fun x => length (transform (TDiag m) x) = length (transform (TDiag m) z)) xs).
  { apply Forall_forall. intros x Hx. rewrite Forall_forall in Hlen. rewrite Lz. cbn [transform].
    rewrite vmulR_length_l by (rewrite Hm; apply Hlen; exact Hx). apply Hlen. exact Hx. }
  assert (Hwl : List.Forall (fun x => length (transform (TDiag m) (vsubR z x)) = length (transform (TDiag m) (basis d (length z)))) xs).
  { apply Forall_forall. intros x Hx. rewrite Forall_forall in Hlen. cbn [transform].
    assert (E1 : length (vsubR z x) = length z) by (apply vsubR_length; symmetry; apply Hlen; exact Hx).
    rewrite (vmulR_length_l (vsubR z x) m) by (rewrite E1; symmetry; exact Hm).
    rewrite (vmulR_length_l (basis d (length z)) m) by (rewrite basis_length; symmetry; exact Hm).
    rewrite E1, basis_length. reflexivity. }
  assert (Hsym : sym_at (TDiag m) d (transform (TDiag m) (basis d (length z))) (length (transform (TDiag m) z))).
  { rewrite Lz, <- Hm. apply sym_at_diag. }
  exact (masked_gradient_is_leave_out_derivative (TDiag m) L q eps xs cs z d (transform (TDiag m) (basis d (length z)))
           He Hm Hlen Hcs Hmask Htl Hwl Hsym (basis_length (length z) d) eq_refl).
Qed.

(* both cases in one statement *)
Corollary masked_gradient_none_or_diag : forall t L q eps xs cs z d, 0 < eps ->
  (t = TNone \/ exists m, t = TDiag m /\ length m = length z) ->
  List.Forall (fun x => length x = length z) xs -> length cs = length xs ->
  List.Forall (fun x => cdist2 (transform t x) (transform t z) = 0 \/ eps <= cdist2 (transform t x) (transform t z)) xs ->
  is_derive (fun s => loo_pred t L q xs cs z (vaxpy s (basis d (length z)) z)) 0 (nth d (grad_l2 t L q eps xs cs z) 0).
Proof.
  intros t L q eps xs cs z d He [->|[m [-> Hm]]] Hlen Hcs Hmask.
  - apply masked_gradient_none; assumption.
  - apply masked_gradient_diag; assumption.
Qed.

(* ====================================================================================================================== *)
(* (B) entries of the accumulated matrix.  maddP / vaddP pad ([] is neutral on both sides), and `nth` with default 0 / []
   reads the padding as zeros, so the entry formula holds with NO side condition at all (agop_raw_entry_gen); the specified
   statement (with its shape hypotheses) is the corollary agop_raw_entry. *)

Lemma vaddP_nil_r a : vaddP a [] = a.
Proof. destruct a as [|x a]; reflexivity. Qed.

Lemma nth_vaddP : forall a b j, nth j (vaddP a b) 0 = nth j a 0 + nth j b 0.
Proof.
  induction a as [|x a IH]; intros b j.
  - cbn [vaddP]. destruct j; cbn [nth]; ring.
  - destruct b as [|y b].
    + cbn [vaddP]. destruct j; cbn [nth]; ring.
    + cbn [vaddP]. destruct j as [|j]; cbn [nth]; [reflexivity|apply IH].
Qed.

Lemma nth_maddP : forall A B i, nth i (maddP A B) [] = vaddP (nth i A []) (nth i B []).
Proof.
  induction A as [|r A IH]; intros B i.
  - cbn [maddP]. destruct i; reflexivity.
  - destruct B as [|s B].
    + cbn [maddP]. destruct i; cbn [nth]; rewrite vaddP_nil_r; reflexivity.
    + cbn [maddP]. destruct i as [|i]; cbn [nth]; [reflexivity|apply IH].
Qed.

Lemma ment_maddP A B i j : ment (maddP A B) i j = ment A i j + ment B i j.
Proof. unfold ment. rewrite nth_maddP. apply nth_vaddP. Qed.

Lemma nth_map_mult (a : R) : forall g j, nth j (map (fun b => a * b) g) 0 = a * nth j g 0.
Proof.
  induction g as [|x g IH]; intros j; [destruct j; cbn [map nth]; ring|].
  destruct j as [|j]; cbn [map nth]; [reflexivity|apply IH].
Qed.

Lemma ment_outer g i j : ment (outer g) i j = nth i g 0 * nth j g 0.
Proof.
  unfold ment, outer.
  assert (G : forall (h l : list R) i, nth j (nth i (map (fun a => map (fun b => a * b) h) l) []) 0 = nth i l 0 * nth j h 0).
  { intros h. induction l as [|x l IH]; intros k; [destruct k, j; cbn [map nth]; ring|].
    destruct k as [|k]; cbn [map nth]; [apply nth_map_mult|apply IH]. }
  apply G.
Qed.

Theorem agop_raw_entry_gen : forall (G : list (list R)) i j,
  ment (agop_raw G) i j = fold_right Rplus 0 (map (fun g => nth i g 0 * nth j g 0) G).
Proof.
  unfold agop_raw. induction G as [|g G IH]; intros i j; cbn [map fold_right].
  - unfold ment. destruct i, j; reflexivity.
  - rewrite ment_maddP, ment_outer, IH. reflexivity.
Qed.

(* (B) as specified (the hypotheses are not needed, see agop_raw_entry_gen) *)
Theorem agop_raw_entry : forall (n : nat) (G : list (list R)) i j, List.Forall (fun g => length g = n) G -> (i < n)%nat -> (j < n)%nat -> G <> [] ->
  ment (agop_raw G) i j = fold_right Rplus 0 (map (fun g => nth i g 0 * nth j g 0) G).
Proof. intros n G i j _ _ _ _. apply agop_raw_entry_gen. Qed.

(* shape of the accumulated matrix, for completeness: n x n when G is a non-empty list of n-vectors *)
Lemma vaddP_length : forall a b, length a = length b -> length (vaddP a b) = length a.
Proof.
  induction a as [|x a IH]; intros [|y b] H; try discriminate; cbn [vaddP length]; [reflexivity|].
  cbn in H. injection H as H. rewrite (IH b H). reflexivity.
Qed.

Lemma maddP_shape (m : nat) : forall A B, length A = length B ->
  List.Forall (fun r => length r = m) A -> List.Forall (fun r => length r = m) B ->
  length (maddP A B) = length A /\ List.Forall (fun r => length r = m) (maddP A B).
Proof.
  induction A as [|r A IH]; intros [|s B] Hl HA HB; try discriminate; cbn [maddP length]; [split; [reflexivity|constructor]|].
  cbn in Hl. injection Hl as Hl.
  assert (Hr := Forall_inv HA). assert (HA' := Forall_inv_tail HA).
  assert (Hs := Forall_inv HB). assert (HB' := Forall_inv_tail HB). cbv beta in Hr, Hs.
  destruct (IH B Hl HA' HB') as [E F]. split; [rewrite E; reflexivity|].
  constructor; [rewrite vaddP_length by (rewrite Hr, Hs; reflexivity); exact Hr|exact F].
Qed.

Lemma outer_shape g : length (outer g) = length g /\ List.Forall (fun r => length r = length g) (outer g).
Proof.
  unfold outer. split; [apply map_length|]. apply Forall_forall. intros r Hr. apply in_map_iff in Hr.
  destruct Hr as [a [<- _]]. apply map_length.
Qed.

(* this is where non-emptiness matters: agop_raw [] = [] is 0 x 0, every other accumulated matrix is n x n *)
Lemma agop_raw_shape (n : nat) : forall G, List.Forall (fun g => length g = n) G -> G <> [] ->
  length (agop_raw G) = n /\ List.Forall (fun r => length r = n) (agop_raw G).
Proof.
  unfold agop_raw. induction G as [|g G IH]; intros HG Hne; [contradiction|].
  assert (Hg := Forall_inv HG). assert (HG' := Forall_inv_tail HG). cbv beta in Hg. cbn [map fold_right].
  destruct (outer_shape g) as [O1 O2]. rewrite Hg in O1, O2.
  destruct G as [|g' G].
  - cbn [map fold_right]. destruct (outer g) as [|r M] eqn:E; cbn [maddP]; split; assumption.
  - destruct (IH HG' ltac:(discriminate)) as [I1 I2].
    destruct (maddP_shape n (outer g) (fold_right maddP [] (map outer (g' :: G)))) as [S1 S2];
      [rewrite O1, I1; reflexivity|exact O2|exact I2|].
    split; [rewrite S1; exact O1|exact S2].
Qed.

(* ====================================================================================================================== *)
(* (C) the accumulated feature matrix is the AGOP of the leave-out predictors *)

Lemma nth_map_nil {T U} (f : T -> list U) (d0 : T) : forall (l : list T) k, (k < length l)%nat ->
  nth k (map f l) [] = f (nth k l d0).
Proof.
  induction l as [|x l IH]; intros k Hk; [cbn in Hk; lia|].
  destruct k as [|k]; cbn [map nth]; [reflexivity|]. apply IH. cbn in Hk. lia.
Qed.

Lemma gradsL2_length q eps t L X a : length (gradsL2 q eps t L X a) = length X.
Proof. unfold gradsL2. apply map_length. Qed.

Lemma gradsL2_nth q eps t L X a k : (k < length X)%nat ->
  nth k (gradsL2 q eps t L X a) [] = grad_l2 t L q eps X a (nth k X []).
Proof. intros Hk. unfold gradsL2. apply (nth_map_nil (fun z => grad_l2 t L q eps X a z) []). exact Hk. Qed.

(* one row of the family: the k-th accumulated gradient is the gradient of the k-th leave-out predictor *)
Lemma gradsL2_row_is_leave_out_gradient t n L q eps X a k d : 0 < eps ->
  (t = TNone \/ exists m, t = TDiag m /\ length m = n) ->
  List.Forall (fun x => length x = n) X -> length a = length X -> (k < length X)%nat ->
  (forall x z, In x X -> In z X ->
     cdist2 (transform t x) (transform t z) = 0 \/ eps <= cdist2 (transform t x) (transform t z)) ->
  is_derive (fun s => loo_pred t L q X a (nth k X []) (vaxpy s (basis d n) (nth k X []))) 0
            (nth d (nth k (gradsL2 q eps t L X a) []) 0).
Proof.
  intros He Ht HX Ha Hk Hmask.
  rewrite (gradsL2_nth q eps t L X a k Hk).
  assert (Hin : In (nth k X []) X) by (apply nth_In; exact Hk).
  set (z := nth k X []) in *.
  assert (Hz : length z = n) by (rewrite Forall_forall in HX; apply HX; exact Hin).
  rewrite <- Hz.
  apply masked_gradient_none_or_diag.
  - exact He.
  - rewrite Hz. exact Ht.
  - apply Forall_forall. intros x Hx. rewrite Forall_forall in HX. rewrite Hz. apply HX. exact Hx.
  - exact Ha.
  - apply Forall_forall. intros x Hx. apply Hmask; assumption.
Qed.

(* (C), single output; t = TNone and t = TDiag m in one statement *)
Theorem l2_feature_matrix_is_agop_of_leave_out_predictor : forall t n L q eps X a i j, 0 < eps ->
  (t = TNone \/ exists m, t = TDiag m /\ length m = n) ->
  X <> [] -> List.Forall (fun x => length x = n) X -> length a = length X -> (i < n)%nat -> (j < n)%nat ->
  (forall x z, In x X -> In z X ->
     cdist2 (transform t x) (transform t z) = 0 \/ eps <= cdist2 (transform t x) (transform t z)) ->
  exists D : list (list R),
    length D = length X /\
    (forall k d, (k < length X)%nat -> (d < n)%nat ->
       is_derive (fun s => loo_pred t L q X a (nth k X []) (vaxpy s (basis d n) (nth k X []))) 0 (nth d (nth k D []) 0)) /\
    ment (agop_raw (gradsL2 q eps t L X a)) i j = fold_right Rplus 0 (map (fun g => nth i g 0 * nth j g 0) D).
Proof.
  intros t n L q eps X a i j He Ht Hne HX Ha Hi Hj Hmask.
  exists (gradsL2 q eps t L X a). split; [apply gradsL2_length|]. split.
  - intros k d Hk _. apply gradsL2_row_is_leave_out_gradient; assumption.
  - apply (agop_raw_entry n).
    + apply Forall_forall. intros g Hg. unfold gradsL2 in Hg. apply in_map_iff in Hg. destruct Hg as [z [<- Hz]].
      (* length of a gradient: not needed by agop_raw_entry_gen, proved here only to use (B) as specified *)
      unfold grad_l2. rewrite Forall_forall in HX.
      assert (Lg : forall x, In x X -> length (transform t x) = n).
      { intros x Hx. destruct Ht as [->|[m [-> Hm]]]; cbn [transform]; [apply HX; exact Hx|].
        rewrite vmulR_length_l by (rewrite Hm; apply HX; exact Hx). apply HX. exact Hx. }
      assert (Lgs : length (gsum L q eps (transform t z) (map (transform t) X) a) = n).
      { rewrite gsum_length; [apply Lg; exact Hz|]. apply Forall_forall. intros xm Hxm. apply in_map_iff in Hxm.
        destruct Hxm as [x [<- Hx]]. rewrite (Lg x Hx), (Lg z Hz). reflexivity. }
      destruct Ht as [->|[m [-> Hm]]]; cbn [transform] in *; [exact Lgs|].
      rewrite vmulR_length_l by (rewrite Lgs; symmetry; exact Hm). exact Lgs.
    + exact Hi.
    + exact Hj.
    + unfold gradsL2. destruct X as [|x X]; [contradiction|discriminate].
Qed.

Corollary l2_feature_matrix_is_agop_of_leave_out_predictor_none : forall n L q eps X a i j, 0 < eps ->
  X <> [] -> List.Forall (fun x => length x = n) X -> length a = length X -> (i < n)%nat -> (j < n)%nat ->
  (forall x z, In x X -> In z X ->
     cdist2 (transform TNone x) (transform TNone z) = 0 \/ eps <= cdist2 (transform TNone x) (transform TNone z)) ->
  exists D : list (list R),
    length D = length X /\
    (forall k d, (k < length X)%nat -> (d < n)%nat ->
       is_derive (fun s => loo_pred TNone L q X a (nth k X []) (vaxpy s (basis d n) (nth k X []))) 0 (nth d (nth k D []) 0)) /\
    ment (agop_raw (gradsL2 q eps TNone L X a)) i j = fold_right Rplus 0 (map (fun g => nth i g 0 * nth j g 0) D).
Proof.
  intros n L q eps X a i j He Hne HX Ha Hi Hj Hmask.
  apply l2_feature_matrix_is_agop_of_leave_out_predictor; try assumption. left. reflexivity.
Qed.

Corollary l2_feature_matrix_is_agop_of_leave_out_predictor_diag : forall m n L q eps X a i j, 0 < eps -> length m = n ->
  X <> [] -> List.Forall (fun x => length x = n) X -> length a = length X -> (i < n)%nat -> (j < n)%nat ->
  (forall x z, In x X -> In z X ->
     cdist2 (transform (TDiag m) x) (transform (TDiag m) z) = 0 \/ eps <= cdist2 (transform (TDiag m) x) (transform (TDiag m) z)) ->
  exists D : list (list R),
    length D = length X /\
    (forall k d, (k < length X)%nat -> (d < n)%nat ->
       is_derive (fun s => loo_pred (TDiag m) L q X a (nth k X []) (vaxpy s (basis d n) (nth k X []))) 0 (nth d (nth k D []) 0)) /\
    ment (agop_raw (gradsL2 q eps (TDiag m) L X a)) i j = fold_right Rplus 0 (map (fun g => nth i g 0 * nth j g 0) D).
Proof.
  intros m n L q eps X a i j He Hm Hne HX Ha Hi Hj Hmask.
  apply l2_feature_matrix_is_agop_of_leave_out_predictor; try assumption. right. exists m. split; [reflexivity|exact Hm].
Qed.

(* ---------- several outputs: the gradients of all outputs are accumulated into one matrix ---------- *)
Lemma concat_length_uniform {T} (m : nat) : forall Ls : list (list T), List.Forall (fun l => length l = m) Ls ->
  length (concat Ls) = (length Ls * m)%nat.
Proof.
  induction Ls as [|l Ls IH]; intros H; [reflexivity|].
  assert (Hl := Forall_inv H). assert (H' := Forall_inv_tail H). cbv beta in Hl.
  cbn [concat length Nat.mul]. rewrite app_length, Hl, (IH H'). reflexivity.
Qed.

Lemma nth_concat_uniform {T} (m : nat) (d0 : T) : forall (Ls : list (list T)) o k,
  List.Forall (fun l => length l = m) Ls -> (k < m)%nat ->
  nth (o * m + k) (concat Ls) d0 = nth k (nth o Ls []) d0.
Proof.
  induction Ls as [|l Ls IH]; intros o k H Hk.
  - cbn [concat]. destruct o; cbn [nth]; destruct (_ + k)%nat; destruct k; reflexivity.
  - assert (Hl := Forall_inv H). assert (H' := Forall_inv_tail H). cbv beta in Hl.
    cbn [concat]. destruct o as [|o].
    + cbn [Nat.mul Nat.add nth]. apply app_nth1. rewrite Hl. exact Hk.
    + replace (S o * m + k)%nat with (length l + (o * m + k))%nat by (rewrite Hl; cbn [Nat.mul]; lia).
      rewrite app_nth2_plus. cbn [nth]. apply IH; assumption.
Qed.

Lemma sum_concat (f : list R -> R) : forall Ls : list (list (list R)),
  fold_right Rplus 0 (map f (concat Ls)) = fold_right Rplus 0 (map (fun l => fold_right Rplus 0 (map f l)) Ls).
Proof.
  induction Ls as [|l Ls IH]; [reflexivity|]. cbn [concat map fold_right]. rewrite map_app, <- IH.
  generalize (map f (concat Ls)). intros r. induction (map f l) as [|y ys IHy]; cbn [app fold_right]; [ring|].
  rewrite IHy. ring.
Qed.

(* (C), several outputs: A lists one coefficient vector per output; the accumulated matrix is agop_raw of the concatenation of
   the per-output gradient families.  D lists the derivative vectors output by output, point by point:
   D_(o * |X| + k) is the gradient at X_k of the leave-out predictor of output o. *)
Theorem l2_feature_matrix_is_agop_of_leave_out_predictor_multi : forall t n L q eps X (A : list (list R)) i j, 0 < eps ->
  (t = TNone \/ exists m, t = TDiag m /\ length m = n) ->
  X <> [] -> List.Forall (fun x => length x = n) X -> List.Forall (fun a => length a = length X) A ->
  (i < n)%nat -> (j < n)%nat ->
  (forall x z, In x X -> In z X ->
     cdist2 (transform t x) (transform t z) = 0 \/ eps <= cdist2 (transform t x) (transform t z)) ->
  exists D : list (list R),
    length D = (length A * length X)%nat /\
    (forall o k d, (o < length A)%nat -> (k < length X)%nat -> (d < n)%nat ->
       is_derive (fun s => loo_pred t L q X (nth o A []) (nth k X []) (vaxpy s (basis d n) (nth k X []))) 0
                 (nth d (nth (o * length X + k) D []) 0)) /\
    ment (agop_raw (concat (map (fun a => gradsL2 q eps t L X a) A))) i j
      = fold_right Rplus 0 (map (fun g => nth i g 0 * nth j g 0) D).
Proof.
  intros t n L q eps X A i j He Ht Hne HX HA Hi Hj Hmask.
  assert (Hall : List.Forall (fun G : list (list R) => length G = length X) (map (fun a => gradsL2 q eps t L X a) A)).
  { apply Forall_forall. intros G HG. apply in_map_iff in HG. destruct HG as [a [<- _]]. apply gradsL2_length. }
  exists (concat (map (fun a => gradsL2 q eps t L X a) A)). split; [|split].
  - rewrite (concat_length_uniform (length X) _ Hall), map_length. reflexivity.
  - intros o k d Ho Hk _.
    rewrite (nth_concat_uniform (length X) [] _ o k Hall Hk).
    rewrite (nth_map_nil (fun a => gradsL2 q eps t L X a) [] A o Ho).
    apply gradsL2_row_is_leave_out_gradient; try assumption.
    rewrite Forall_forall in HA. apply HA. apply nth_In. exact Ho.
  - apply agop_raw_entry_gen.
Qed.

(* the same entry as an explicit double sum over outputs and training points *)
Corollary l2_feature_matrix_multi_double_sum : forall t L q eps X (A : list (list R)) i j,
  ment (agop_raw (concat (map (fun a => gradsL2 q eps t L X a) A))) i j
  = fold_right Rplus 0 (map (fun a =>
      fold_right Rplus 0 (map (fun z => nth i (grad_l2 t L q eps X a z) 0 * nth j (grad_l2 t L q eps X a z) 0) X)) A).
Proof.
  intros t L q eps X A i j. rewrite agop_raw_entry_gen, sum_concat, map_map. f_equal. apply map_ext. intros a.
  unfold gradsL2. rewrite map_map. reflexivity.
Qed.

(* ====================================================================================================================== *)
(* (D) Examples: 2 points in R^2 at distance 5 (Xex = [[0;0];[3;4]] of ScaleInvL2), coefficients [1;2], eps = 1/1000 *)

Ltac sqrt25 := unfold cdist2, sumsq, rsumR; cbn [transform vmulR vsubR map fold_right];
  match goal with |- sqrt ?e = _ => replace e with (5 * 5) by ring end; apply sqrt_square; lra.
Ltac sqrt0 := unfold cdist2, sumsq, rsumR; cbn [transform vmulR vsubR map fold_right];
  match goal with |- sqrt ?e = _ => replace e with 0 by ring end; apply sqrt_0.

Lemma masks_Xex : forall x z, In x Xex -> In z Xex ->
  cdist2 (transform TNone x) (transform TNone z) = 0 \/ 1 / 1000 <= cdist2 (transform TNone x) (transform TNone z).
Proof.
  intros x z Hx Hz. cbn [transform].
  destruct Hx as [<-|[<-|[]]]; destruct Hz as [<-|[<-|[]]]; rewrite ?dex_00, ?dex_01, ?dex_10, ?dex_11; lra.
Qed.

(* what is left out: at the query [0;0] the coincident centre [0;0] is dropped, the far centre [3;4] is kept *)
Example others_ex : others TNone [0; 0] Xex [1; 2] = ([[3; 4]], [2]).
Proof.
  unfold Xex. rewrite !others_cons. cbn [transform]. rewrite dex_00, dex_10.
  destruct (Req_EM_T 0 0) as [_|N]; [|contradiction]. destruct (Req_EM_T 5 0) as [E|_]; [lra|]. reflexivity.
Qed.

Example loo_pred_ex L q z' : loo_pred TNone L q Xex [1; 2] [0; 0] z' = 2 * closed_l2 TNone L q [3; 4] z' + 0.
Proof. unfold loo_pred. rewrite others_ex. reflexivity. Qed.

(* (A), through the general theorem with w = e_0 *)
Example masked_gradient_is_leave_out_derivative_ex :
  is_derive (fun s => loo_pred TNone 1 1 Xex [1; 2] [0; 0] (vaxpy s (basis 0 (length [0; 0])) [0; 0])) 0
            (nth 0 (grad_l2 TNone 1 1 (1 / 1000) Xex [1; 2] [0; 0]) 0).
Proof.
  apply (masked_gradient_is_leave_out_derivative TNone 1 1 (1 / 1000) Xex [1; 2] [0; 0] 0%nat [1; 0]).
  - lra.
  - exact I.
  - unfold Xex. repeat constructor.
  - reflexivity.
  - unfold Xex. cbn [transform]. constructor; [left; apply dex_00|]. constructor; [right; rewrite dex_10; lra|constructor].
  - unfold Xex. repeat constructor.
  - unfold Xex. repeat constructor.
  - apply (sym_at_none 0 2).
  - reflexivity.
  - reflexivity.
Qed.

(* (A1) *)
Example masked_gradient_none_ex :
  is_derive (fun s => loo_pred TNone 1 1 Xex [1; 2] [3; 4] (vaxpy s (basis 1 (length [3; 4])) [3; 4])) 0
            (nth 1 (grad_l2 TNone 1 1 (1 / 1000) Xex [1; 2] [3; 4]) 0).
Proof.
  apply masked_gradient_none.
  - lra.
  - unfold Xex. repeat constructor.
  - reflexivity.
  - apply Forall_forall. intros x Hx. apply masks_Xex; [exact Hx|right; left; reflexivity].
Qed.

(* (A2): diagonal transform [1;2]; the points [0;0], [3;2] are at transformed distance 5 *)
Definition Xdg : list (list R) := [[0; 0]; [3; 2]].
Lemma ddg_00 : cdist2 (transform (TDiag [1; 2]) [0; 0]) (transform (TDiag [1; 2]) [0; 0]) = 0. Proof. sqrt0. Qed.
Lemma ddg_11 : cdist2 (transform (TDiag [1; 2]) [3; 2]) (transform (TDiag [1; 2]) [3; 2]) = 0. Proof. sqrt0. Qed.
Lemma ddg_01 : cdist2 (transform (TDiag [1; 2]) [0; 0]) (transform (TDiag [1; 2]) [3; 2]) = 5. Proof. sqrt25. Qed.
Lemma ddg_10 : cdist2 (transform (TDiag [1; 2]) [3; 2]) (transform (TDiag [1; 2]) [0; 0]) = 5. Proof. sqrt25. Qed.

Lemma masks_Xdg : forall x z, In x Xdg -> In z Xdg ->
  cdist2 (transform (TDiag [1; 2]) x) (transform (TDiag [1; 2]) z) = 0
  \/ 1 / 1000 <= cdist2 (transform (TDiag [1; 2]) x) (transform (TDiag [1; 2]) z).
Proof.
  intros x z Hx Hz.
  destruct Hx as [<-|[<-|[]]]; destruct Hz as [<-|[<-|[]]]; rewrite ?ddg_00, ?ddg_01, ?ddg_10, ?ddg_11; lra.
Qed.

Example masked_gradient_diag_ex :
  is_derive (fun s => loo_pred (TDiag [1; 2]) 1 1 Xdg [1; 2] [0; 0] (vaxpy s (basis 1 (length [0; 0])) [0; 0])) 0
            (nth 1 (grad_l2 (TDiag [1; 2]) 1 1 (1 / 1000) Xdg [1; 2] [0; 0]) 0).
Proof.
  apply masked_gradient_diag.
  - lra.
  - reflexivity.
  - unfold Xdg. repeat constructor.
  - reflexivity.
  - apply Forall_forall. intros x Hx. apply masks_Xdg; [exact Hx|left; reflexivity].
Qed.

(* (B): [[1;2];[3;4]] accumulates to [[10;14];[14;20]] *)
Example agop_raw_entry_ex : ment (agop_raw [[1; 2]; [3; 4]]) 0 1 = 14.
Proof.
  rewrite (agop_raw_entry 2); [cbn [map fold_right nth]; lra|repeat constructor|lia|lia|discriminate].
Qed.
Example agop_raw_compute_ex : agop_raw [[1; 2]; [3; 4]] = [[1 * 1 + (3 * 3); 1 * 2 + (3 * 4)]; [2 * 1 + (4 * 3); 2 * 2 + (4 * 4)]].
Proof. reflexivity. Qed.

(* (C): all hypotheses hold for Xex, no transform *)
Example l2_feature_matrix_ex : exists D : list (list R),
  length D = length Xex /\
  (forall k d, (k < length Xex)%nat -> (d < 2)%nat ->
     is_derive (fun s => loo_pred TNone 1 1 Xex [1; 2] (nth k Xex []) (vaxpy s (basis d 2) (nth k Xex []))) 0 (nth d (nth k D []) 0)) /\
  ment (agop_raw (gradsL2 1 (1 / 1000) TNone 1 Xex [1; 2])) 0 1 = fold_right Rplus 0 (map (fun g => nth 0 g 0 * nth 1 g 0) D).
Proof.
  apply l2_feature_matrix_is_agop_of_leave_out_predictor.
  - lra.
  - left. reflexivity.
  - discriminate.
  - unfold Xex. repeat constructor.
  - reflexivity.
  - lia.
  - lia.
  - apply masks_Xex.
Qed.

(* (C) with a diagonal transform and a REPEATED training point: the two copies of [0;0] leave each other out *)
Definition Xdg3 : list (list R) := [[0; 0]; [3; 2]; [0; 0]].
Lemma masks_Xdg3 : forall x z, In x Xdg3 -> In z Xdg3 ->
  cdist2 (transform (TDiag [1; 2]) x) (transform (TDiag [1; 2]) z) = 0
  \/ 1 / 1000 <= cdist2 (transform (TDiag [1; 2]) x) (transform (TDiag [1; 2]) z).
Proof.
  intros x z Hx Hz.
  destruct Hx as [<-|[<-|[<-|[]]]]; destruct Hz as [<-|[<-|[<-|[]]]]; rewrite ?ddg_00, ?ddg_01, ?ddg_10, ?ddg_11; lra.
Qed.

Example others_dup_ex : others (TDiag [1; 2]) [0; 0] Xdg3 [1; 2; 5] = ([[3; 2]], [2]).
Proof.
  unfold Xdg3. rewrite !others_cons. rewrite ddg_00, ddg_10.
  destruct (Req_EM_T 0 0) as [_|N]; [|contradiction]. destruct (Req_EM_T 5 0) as [E|_]; [lra|]. reflexivity.
Qed.

Example l2_feature_matrix_diag_ex : exists D : list (list R),
  length D = length Xdg3 /\
  (forall k d, (k < length Xdg3)%nat -> (d < 2)%nat ->
     is_derive (fun s => loo_pred (TDiag [1; 2]) 1 1 Xdg3 [1; 2; 5] (nth k Xdg3 []) (vaxpy s (basis d 2) (nth k Xdg3 []))) 0
               (nth d (nth k D []) 0)) /\
  ment (agop_raw (gradsL2 1 (1 / 1000) (TDiag [1; 2]) 1 Xdg3 [1; 2; 5])) 1 1
    = fold_right Rplus 0 (map (fun g => nth 1 g 0 * nth 1 g 0) D).
Proof.
  apply l2_feature_matrix_is_agop_of_leave_out_predictor_diag.
  - lra.
  - reflexivity.
  - discriminate.
  - unfold Xdg3. repeat constructor.
  - reflexivity.
  - lia.
  - lia.
  - apply masks_Xdg3.
Qed.

(* (C), two outputs *)
Definition Aex : list (list R) := [[1; 2]; [-1; 3]].
Example l2_feature_matrix_multi_ex : exists D : list (list R),
  length D = (length Aex * length Xex)%nat /\
  (forall o k d, (o < length Aex)%nat -> (k < length Xex)%nat -> (d < 2)%nat ->
     is_derive (fun s => loo_pred TNone 1 1 Xex (nth o Aex []) (nth k Xex []) (vaxpy s (basis d 2) (nth k Xex []))) 0
               (nth d (nth (o * length Xex + k) D []) 0)) /\
  ment (agop_raw (concat (map (fun a => gradsL2 1 (1 / 1000) TNone 1 Xex a) Aex))) 0 1
    = fold_right Rplus 0 (map (fun g => nth 0 g 0 * nth 1 g 0) D).
Proof.
  apply l2_feature_matrix_is_agop_of_leave_out_predictor_multi.
  - lra.
  - left. reflexivity.
  - discriminate.
  - unfold Xex. repeat constructor.
  - unfold Aex, Xex. repeat constructor.
  - lia.
  - lia.
  - apply masks_Xex.
Qed.

Print Assumptions masked_gradient_is_leave_out_derivative.
Print Assumptions masked_gradient_none.
Print Assumptions masked_gradient_diag.
Print Assumptions agop_raw_entry.
Print Assumptions l2_feature_matrix_is_agop_of_leave_out_predictor.
Print Assumptions l2_feature_matrix_is_agop_of_leave_out_predictor_none.
Print Assumptions l2_feature_matrix_is_agop_of_leave_out_predictor_diag.
Print Assumptions l2_feature_matrix_is_agop_of_leave_out_predictor_multi.
