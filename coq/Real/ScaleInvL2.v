(* P7: the abstract scale-invariance composition theorem (XV.Real.ScaleInv, Section Pipeline) INSTANTIATED for the L2 Laplace
   kernel pipeline with adaptive bandwidth: one whole RFM fit (bandwidth -> solve -> AGOP -> root, any number of rounds)
   commutes with rescaling all inputs by c > 0.  Every component is concrete:
     bandwidth  = base * med (all pairwise transformed distances)          (BwOps.adapt_bandwidth on the non-degenerate branch)
     Gram       = closed_l2 on all pairs
     prediction = Grads.fpred (closed_l2 ...)
     AGOP       = root (normalise (sum_z grad_l2(z) grad_l2(z)^T)),  normalise = division by the largest entry.
   The solver and the matrix root are ARBITRARY functions; the order statistic `med` is any positively homogeneous function.
   The AGOP step is invariant only on the `masks` domain (the absolute zero-distance threshold eps of the gradient code), which
   is why ScaleInv.Pipeline cannot be applied verbatim: the four-line induction is redone carrying the domain hypotheses. *)
From Coq Require Import Reals List Lra.
Require Import XV.Real.Kernels XV.Real.Grads XV.Real.Bandwidth XV.Real.ScaleInv XV.Real.GradScale XV.Real.BwOps.
Import ListNotations.
Local Open Scope R_scope.

(* ---------- data scaling ---------- *)
Definition scaleX (c : R) (X : list (list R)) : list (list R) := map (vscaleR c) X.
Definition qscale (c : R) (z : list R) : list R := vscaleR c z.

(* all pairwise transformed distances (which of them enter the median is inside `med`) *)
Definition pdist (t : tmat) (X : list (list R)) : list R :=
  flat_map (fun x => map (fun z => cdist2 (transform t x) (transform t z)) X) X.

(* ---------- matrices as lists of rows: padded sum, outer product, AGOP, largest entry, normalisation ---------- *)
(* padding sums (a + [] = a) so that the empty matrix is a neutral element of the sum over the gradients *)
Fixpoint vaddP (a b : list R) : list R :=
  match a with
  | [] => b
  | x :: a' => match b with [] => a | y :: b' => (x + y) :: vaddP a' b' end
  end.
Fixpoint maddP (A B : list (list R)) : list (list R) :=
  match A with
  | [] => B
  | r :: A' => match B with [] => A | s :: B' => vaddP r s :: maddP A' B' end
  end.

(* g g^T, written exactly as in GradScale.outer_scale *)
Definition outer (g : list R) : list (list R) := map (fun a => map (fun b => a * b) g) g.
Definition agop_raw (G : list (list R)) : list (list R) := fold_right maddP [] (map outer G).

(* largest entry: a fold of Rmax (0 for the empty list, so that homogeneity holds without a side condition) *)
Definition lmaxR (l : list R) : R := match l with [] => 0 | a :: l' => fold_right Rmax a l' end.
Definition mmaxR (M : list (list R)) : R := lmaxR (concat M).
(* division by the largest entry, in the form of GradScale.normalise_invariant *)
Definition normalise (M : list (list R)) : list (list R) := map (map (fun x => x / mmaxR M)) M.

Lemma vaddP_scale k : forall a b, map (Rmult k) (vaddP a b) = vaddP (map (Rmult k) a) (map (Rmult k) b).
Proof.
  induction a as [|x a IH]; intros [|y b]; cbn [vaddP map]; try reflexivity. rewrite IH. f_equal. ring.
Qed.

Lemma maddP_scale k : forall A B,
  map (map (Rmult k)) (maddP A B) = maddP (map (map (Rmult k)) A) (map (map (Rmult k)) B).
Proof.
  induction A as [|r A IH]; intros [|s B]; cbn [maddP map]; try reflexivity. rewrite IH, vaddP_scale. reflexivity.
Qed.

Lemma outer_vscale k g : outer (vscaleR k g) = map (map (Rmult (k * k))) (outer g).
Proof. unfold outer. apply (outer_scale k g g). Qed.

(* outer products scale by k^2, hence so does their sum *)
Lemma agop_raw_scale k : forall G, agop_raw (map (vscaleR k) G) = map (map (Rmult (k * k))) (agop_raw G).
Proof.
  unfold agop_raw. induction G as [|g G IH]; cbn [map fold_right]; [reflexivity|].
  rewrite IH, outer_vscale, maddP_scale. reflexivity.
Qed.

Lemma lmaxR_scale k l : 0 < k -> lmaxR (map (Rmult k) l) = k * lmaxR l.
Proof.
  intros Hk. destruct l as [|a l]; cbn [map lmaxR]; [ring|].
  induction l as [|b l IH]; cbn [map fold_right]; [reflexivity|]. rewrite IH. apply RmaxRmult. lra.
Qed.

(* the largest entry of k * M is k times the largest entry of M (k > 0; in particular for every non-empty matrix) *)
Lemma mmaxR_scale k M : 0 < k -> mmaxR (map (map (Rmult k)) M) = k * mmaxR M.
Proof. intros Hk. unfold mmaxR. rewrite <- concat_map. apply lmaxR_scale. exact Hk. Qed.

Corollary mmaxR_scale_nonempty k r M : 0 < k -> mmaxR (map (map (Rmult k)) (r :: M)) = k * mmaxR (r :: M).
Proof. apply mmaxR_scale. Qed.

Lemma lmaxR_ge l : forall x, In x l -> x <= lmaxR l.
Proof.
  destruct l as [|a l]; intros x Hx; [destruct Hx|]. cbn [lmaxR].
  induction l as [|b l IH]; cbn [fold_right].
  - destruct Hx as [->|[]]. lra.
  - destruct Hx as [->|[->|Hx]].
    + eapply Rle_trans; [apply IH; left; reflexivity|apply Rmax_r].
    + apply Rmax_l.
    + eapply Rle_trans; [apply IH; right; exact Hx|apply Rmax_r].
Qed.

Lemma mmaxR_ge_head x r M : x <= mmaxR ((x :: r) :: M).
Proof. unfold mmaxR. apply lmaxR_ge. cbn [concat app]. left. reflexivity. Qed.

(* the normalised matrix does not see a positive common factor *)
Lemma normalise_scale k M : 0 < k -> 0 < mmaxR M -> normalise (map (map (Rmult k)) M) = normalise M.
Proof.
  intros Hk Hm. unfold normalise. rewrite mmaxR_scale by exact Hk. apply normalise_invariant; assumption.
Qed.

(* ---------- distances under the transform ---------- *)
Lemma cdist2_transform_scale t c x z : 0 < c ->
  cdist2 (transform t (vscaleR c x)) (transform t (vscaleR c z)) = c * cdist2 (transform t x) (transform t z).
Proof. intros Hc. rewrite !transform_scale. apply cdist2_scale. exact Hc. Qed.

Lemma pdist_scale t c X : 0 < c -> pdist t (scaleX c X) = map (Rmult c) (pdist t X).
Proof.
  intros Hc. unfold pdist, scaleX.
  assert (G : forall Y Z : list (list R),
    flat_map (fun x => map (fun z => cdist2 (transform t x) (transform t z)) (map (vscaleR c) Y)) (map (vscaleR c) Z)
    = map (Rmult c) (flat_map (fun x => map (fun z => cdist2 (transform t x) (transform t z)) Y) Z)).
  { intros Y. induction Z as [|x Z IH]; cbn [map flat_map]; [reflexivity|].
    rewrite map_app, IH. f_equal. rewrite !map_map. apply map_ext. intros z. apply cdist2_transform_scale. exact Hc. }
  apply G.
Qed.

Lemma pdist_nonneg t X : Forall (fun d => 0 <= d) (pdist t X).
Proof.
  apply Forall_forall. intros d Hd. unfold pdist in Hd. apply in_flat_map in Hd. destruct Hd as [x [_ Hd]].
  apply in_map_iff in Hd. destruct Hd as [z [<- _]]. unfold cdist2. apply sqrt_pos.
Qed.

(* ====================================================================================================================== *)
Section L2Pipeline.
  Variables base q eps : R.
  Variable med : list R -> R.
  Hypothesis med_hom : forall c l, 0 < c -> med (map (Rmult c) l) = c * med l.
  Variable solve : list (list R) -> list R.          (* ARBITRARY: LAPACK on the Gram matrix for the fixed targets and ridge *)
  Variable root : list (list R) -> tmat.             (* ARBITRARY: normalised AGOP -> transform of the next round *)

  (* ---------- the concrete components ---------- *)
  Definition bwL2 (t : tmat) (X : list (list R)) : R := base * med (pdist t X).
  Definition gramL2 (t : tmat) (L : R) (X : list (list R)) : list (list R) :=
    map (fun x => map (fun z => closed_l2 t L q x z) X) X.
  Definition predictL2 (t : tmat) (L : R) (X : list (list R)) (a : list R) (z : list R) : R :=
    fpred (closed_l2 t L q) X a z.
  Definition gradsL2 (t : tmat) (L : R) (X : list (list R)) (a : list R) : list (list R) :=
    map (fun z => grad_l2 t L q eps X a z) X.
  Definition agopL2 (t : tmat) (L : R) (X : list (list R)) (a : list R) : tmat :=
    root (normalise (agop_raw (gradsL2 t L X a))).

  (* the domain on which the masked gradient is homogeneous: every pair of training points is either coincident under the
     transform or at distance >= eps both before and after scaling (side condition of GradScale.grad_l2_homogeneous) *)
  Definition masks (c : R) (t : tmat) (X : list (list R)) : Prop :=
    forall x z, In x X -> In z X ->
      let dd := cdist2 (transform t x) (transform t z) in dd = 0 \/ (eps <= dd /\ eps <= c * dd).

  (* ---------- L1: the bandwidth is homogeneous of degree one ---------- *)
  Theorem bwL2_hom c t X : 0 < c -> bwL2 t (scaleX c X) = c * bwL2 t X.
  Proof. intros Hc. unfold bwL2. rewrite pdist_scale, med_hom by exact Hc. ring. Qed.

  (* bwL2 IS the code's adaptive bandwidth (BwOps.adapt_bandwidth on the matrix of d^q) whenever the median is not below eps,
     and then its homogeneity is BwOps.adapt_bandwidth_homogeneous *)
  Lemma bwL2_is_adapt_bandwidth t X : 0 < q -> eps <= med (pdist t X) ->
    adapt_bandwidth base q eps med (map (fun d => pw d q) (pdist t X)) = bwL2 t X.
  Proof. intros Hq Hm. apply adapt_bandwidth_is_base_times_median; [exact Hq|apply pdist_nonneg|exact Hm]. Qed.

  Lemma adapt_bandwidth_pdist_hom c t X : 0 < q -> 0 < c -> eps <= med (pdist t X) -> eps <= c * med (pdist t X) ->
    adapt_bandwidth base q eps med (map (fun d => pw d q) (pdist t (scaleX c X)))
    = c * adapt_bandwidth base q eps med (map (fun d => pw d q) (pdist t X)).
  Proof.
    intros Hq Hc H1 H2. rewrite pdist_scale by exact Hc.
    apply adapt_bandwidth_homogeneous; try assumption; [apply pdist_nonneg|apply med_hom; exact Hc].
  Qed.

  (* ---------- L2: the Gram matrix is invariant ---------- *)
  Theorem gramL2_inv c t L X : 0 < c -> 0 < L -> gramL2 t (c * L) (scaleX c X) = gramL2 t L X.
  Proof.
    intros Hc HL. unfold gramL2, scaleX. rewrite map_map. apply map_ext. intros x. rewrite map_map. apply map_ext. intros z.
    apply laplace_l2_scale_invariant; assumption.
  Qed.

  (* ---------- L3: predictions are invariant ---------- *)
  Theorem predictL2_inv c t L X a z : 0 < c -> 0 < L ->
    predictL2 t (c * L) (scaleX c X) a (qscale c z) = predictL2 t L X a z.
  Proof.
    intros Hc HL. unfold predictL2, scaleX, qscale. revert a.
    induction X as [|x X IH]; intros a; [reflexivity|]. destruct a as [|a0 a]; [reflexivity|].
    cbn [map fpred]. rewrite IH, laplace_l2_scale_invariant by assumption. reflexivity.
  Qed.

  (* ---------- L4: the normalised AGOP (hence the next transform) is invariant on the masks domain ---------- *)
  Lemma gradsL2_scale c t L X a : 0 < c -> 0 < L -> 0 < eps -> masks c t X ->
    gradsL2 t (c * L) (scaleX c X) a = map (vscaleR (/ c)) (gradsL2 t L X a).
  Proof.
    intros Hc HL He Hm. unfold gradsL2. unfold scaleX at 2. rewrite !map_map. apply map_ext_in. intros z Hz.
    unfold scaleX. apply grad_l2_homogeneous; try assumption.
    apply Forall_forall. intros x Hx. apply (Hm x z Hx Hz).
  Qed.

  Theorem agopL2_inv c t L X a : 0 < c -> 0 < L -> 0 < eps -> masks c t X ->
    0 < mmaxR (agop_raw (gradsL2 t L X a)) ->            (* the normaliser of the UNSCALED problem is positive *)
    agopL2 t (c * L) (scaleX c X) a = agopL2 t L X a.
  Proof.
    intros Hc HL He Hm Hpos. unfold agopL2. f_equal.
    rewrite gradsL2_scale by assumption. rewrite agop_raw_scale.
    assert (Hi : 0 < / c) by (apply Rinv_0_lt_compat; exact Hc).
    apply normalise_scale; [nra|exact Hpos].
  Qed.

  (* ---------- L5: the instantiated pipeline ---------- *)
  Fixpoint featmatL2 (t0 : tmat) (X : list (list R)) (n : nat) : tmat :=
    match n with
    | O => t0
    | S k => agopL2 (featmatL2 t0 X k) (bwL2 (featmatL2 t0 X k) X) X
                    (solve (gramL2 (featmatL2 t0 X k) (bwL2 (featmatL2 t0 X k) X) X))
    end.
  Definition bandwidthL2 (t0 : tmat) (X : list (list R)) (n : nat) : R := bwL2 (featmatL2 t0 X n) X.
  Definition coefsL2 (t0 : tmat) (X : list (list R)) (n : nat) : list R :=
    solve (gramL2 (featmatL2 t0 X n) (bandwidthL2 t0 X n) X).
  Definition predictionL2 (t0 : tmat) (X : list (list R)) (n : nat) (z : list R) : R :=
    predictL2 (featmatL2 t0 X n) (bandwidthL2 t0 X n) X (coefsL2 t0 X n) z.

  (* the recursion is literally ScaleInv.featmat / bandwidth / coefs / prediction at these components *)
  Lemma featmatL2_is_featmat t0 X n :
    featmatL2 t0 X n = featmat (list (list R)) tmat (list (list R)) (list R) bwL2 gramL2 solve agopL2 t0 X n.
  Proof. induction n as [|n IH]; [reflexivity|]. cbn [featmatL2 featmat]. rewrite <- IH. reflexivity. Qed.

  Section Fit.
    Variable c : R.
    Variable t0 : tmat.
    Variable X : list (list R).
    Hypothesis c_pos : 0 < c.
    Hypothesis eps_pos : 0 < eps.
    (* hypotheses on the UNSCALED fit only *)
    Hypothesis bw_pos : forall n, 0 < base * med (pdist (featmatL2 t0 X n) X).
    Hypothesis masks_all : forall n, masks c (featmatL2 t0 X n) X.
    Hypothesis norm_pos : forall n,
      0 < mmaxR (agop_raw (gradsL2 (featmatL2 t0 X n) (bandwidthL2 t0 X n) X (coefsL2 t0 X n))).

    Lemma bandwidthL2_pos n : 0 < bwL2 (featmatL2 t0 X n) X.
    Proof. unfold bwL2. apply bw_pos. Qed.

    Theorem featmatL2_invariant : forall n, featmatL2 t0 (scaleX c X) n = featmatL2 t0 X n.
    Proof.
      induction n as [|n IH]; [reflexivity|]. cbn [featmatL2]. rewrite IH.
      rewrite bwL2_hom by exact c_pos. rewrite gramL2_inv by (try exact c_pos; apply bandwidthL2_pos).
      apply agopL2_inv; [exact c_pos|apply bandwidthL2_pos|exact eps_pos|apply masks_all|apply norm_pos].
    Qed.

    Theorem bandwidthL2_scales n : bandwidthL2 t0 (scaleX c X) n = c * bandwidthL2 t0 X n.
    Proof. unfold bandwidthL2. rewrite featmatL2_invariant. apply bwL2_hom. exact c_pos. Qed.

    Theorem coefsL2_invariant n : coefsL2 t0 (scaleX c X) n = coefsL2 t0 X n.
    Proof.
      unfold coefsL2. rewrite bandwidthL2_scales, featmatL2_invariant.
      rewrite gramL2_inv by (try exact c_pos; apply bandwidthL2_pos). reflexivity.
    Qed.

    Theorem l2_fit_commutes_with_rescaling n z :
      predictionL2 t0 (scaleX c X) n (qscale c z) = predictionL2 t0 X n z.
    Proof.
      unfold predictionL2. rewrite coefsL2_invariant, bandwidthL2_scales, featmatL2_invariant.
      apply predictL2_inv; [exact c_pos|apply bandwidthL2_pos].
    Qed.

    (* consequently every validation prediction of every iterate, hence any selection rule looking only at them, is unchanged *)
    Corollary l2_selected_model_invariant (V : list (list R)) (select : list (list R) -> nat) (rounds : nat) z :
      predictionL2 t0 (scaleX c X)
        (select (map (fun n => map (predictionL2 t0 (scaleX c X) n) (map (qscale c) V)) (seq 0 (S rounds)))) (qscale c z)
      = predictionL2 t0 X (select (map (fun n => map (predictionL2 t0 X n) V) (seq 0 (S rounds)))) z.
    Proof.
      replace (map (fun n => map (predictionL2 t0 (scaleX c X) n) (map (qscale c) V)) (seq 0 (S rounds)))
        with (map (fun n => map (predictionL2 t0 X n) V) (seq 0 (S rounds))).
      - apply l2_fit_commutes_with_rescaling.
      - apply map_ext. intros n. rewrite map_map. apply map_ext. intros v. symmetry. apply l2_fit_commutes_with_rescaling.
    Qed.
  End Fit.
End L2Pipeline.

(* ====================================================================================================================== *)
(* Non-vacuity: 2 points in R^2 at distance 5, no transform, med = second entry, eps = 1/1000, c = 2, exponent q = 1,
   solver returning [1; 1], root returning TNone (the light-kernel identity).  All hypotheses of L1-L5 hold. *)
Definition Xex : list (list R) := [[0; 0]; [3; 4]].
Definition medex (l : list R) : R := nth 1 l 0.
Definition solveex (K : list (list R)) : list R := [1; 1].
Definition rootex (M : list (list R)) : tmat := TNone.

Lemma medex_hom c l : 0 < c -> medex (map (Rmult c) l) = c * medex l.
Proof. intros _. unfold medex. destruct l as [|a [|b l]]; cbn [map nth]; ring. Qed.

Lemma dex_00 : cdist2 [0; 0] [0; 0] = 0.
Proof. unfold cdist2, sumsq, rsumR. cbn [vsubR map fold_right]. replace ((0 - 0) * (0 - 0) + ((0 - 0) * (0 - 0) + 0)) with 0 by ring. apply sqrt_0. Qed.
Lemma dex_11 : cdist2 [3; 4] [3; 4] = 0.
Proof. unfold cdist2, sumsq, rsumR. cbn [vsubR map fold_right]. replace ((3 - 3) * (3 - 3) + ((4 - 4) * (4 - 4) + 0)) with 0 by ring. apply sqrt_0. Qed.
Lemma dex_01 : cdist2 [0; 0] [3; 4] = 5.
Proof. unfold cdist2, sumsq, rsumR. cbn [vsubR map fold_right]. replace ((0 - 3) * (0 - 3) + ((0 - 4) * (0 - 4) + 0)) with (5 * 5) by ring. apply sqrt_square. lra. Qed.
Lemma dex_10 : cdist2 [3; 4] [0; 0] = 5.
Proof. unfold cdist2, sumsq, rsumR. cbn [vsubR map fold_right]. replace ((3 - 0) * (3 - 0) + ((4 - 0) * (4 - 0) + 0)) with (5 * 5) by ring. apply sqrt_square. lra. Qed.

Lemma pdist_ex : pdist TNone Xex = [0; 5; 5; 0].
Proof. unfold pdist, Xex. cbn [flat_map map app transform]. rewrite dex_00, dex_01, dex_10, dex_11. reflexivity. Qed.

Lemma masks_ex : masks (1 / 1000) 2 TNone Xex.
Proof.
  intros x z Hx Hz. cbn [transform]. cbv zeta.
  destruct Hx as [<-|[<-|[]]]; destruct Hz as [<-|[<-|[]]];
    rewrite ?dex_00, ?dex_01, ?dex_10, ?dex_11; lra.
Qed.

(* L1 *)
Example bwL2_hom_ex : bwL2 10 medex TNone (scaleX 2 Xex) = 2 * bwL2 10 medex TNone Xex /\ bwL2 10 medex TNone Xex = 50.
Proof.
  split; [apply bwL2_hom; [apply medex_hom|lra]|]. unfold bwL2. rewrite pdist_ex. unfold medex. cbn [nth]. lra.
Qed.

(* L2, L3 *)
Example gramL2_inv_ex : gramL2 1 TNone (2 * 50) (scaleX 2 Xex) = gramL2 1 TNone 50 Xex.
Proof. apply gramL2_inv; lra. Qed.

Example predictL2_inv_ex : predictL2 1 TNone (2 * 50) (scaleX 2 Xex) [1; -2] (qscale 2 [1; 1]) = predictL2 1 TNone 50 Xex [1; -2] [1; 1].
Proof. apply predictL2_inv; lra. Qed.

(* away from the center the gradient weight is strictly negative (q > 0), so the gradients do not vanish *)
Lemma gweight_neg L q eps d : 0 < q -> 0 < eps -> eps <= d -> gweight L q eps d < 0.
Proof.
  intros Hq He Hd. unfold gweight. destruct (Rle_dec eps d) as [_|n]; [|contradiction].
  assert (A : 0 < exp (pw d q * (- 1 / Rpower L q))) by apply exp_pos.
  assert (B : 0 < Rpower (Rmax d eps) (q - 2)) by apply exp_pos.
  assert (C : 0 < / Rpower L q) by (apply Rinv_0_lt_compat, exp_pos).
  assert (AB : 0 < exp (pw d q * (- 1 / Rpower L q)) * Rpower (Rmax d eps) (q - 2)) by (apply Rmult_lt_0_compat; assumption).
  assert (D : - q / Rpower L q < 0) by (unfold Rdiv; nra).
  rewrite Rmult_1_r. nra.
Qed.

(* the normaliser of the example is positive for ANY positive bandwidth: entry (0,0) of the AGOP is
   (3 w)^2 + (3 w)^2 with w = gweight L 1 eps 5 < 0 *)
Lemma norm_pos_ex L : 0 < mmaxR (agop_raw (gradsL2 1 (1 / 1000) TNone L Xex [1; 1])).
Proof.
  assert (Hw : gweight L 1 (1 / 1000) 5 < 0) by (apply gweight_neg; lra).
  unfold gradsL2, grad_l2, Xex. cbn [map transform gsum length repeat].
  rewrite dex_00, dex_01, dex_10, dex_11.
  unfold vscaleR. cbn [vsubR map vaddR]. unfold agop_raw, outer. cbn [map fold_right maddP vaddP].
  eapply Rlt_le_trans; [|apply mmaxR_ge_head].
  set (w := gweight L 1 (1 / 1000) 5) in *. set (w0 := gweight L 1 (1 / 1000) 0).
  nra.
Qed.

(* L4 *)
Example agopL2_inv_ex :
  agopL2 1 (1 / 1000) rootex TNone (2 * 50) (scaleX 2 Xex) [1; 1] = agopL2 1 (1 / 1000) rootex TNone 50 Xex [1; 1].
Proof. apply agopL2_inv; [lra|lra|lra|apply masks_ex|apply norm_pos_ex]. Qed.

(* L5: every round of the fit *)
Lemma featmat_ex n : featmatL2 10 1 (1 / 1000) medex solveex rootex TNone Xex n = TNone.
Proof. destruct n as [|n]; reflexivity. Qed.

Example l2_fit_commutes_with_rescaling_ex n z :
  predictionL2 10 1 (1 / 1000) medex solveex rootex TNone (scaleX 2 Xex) n (qscale 2 z)
  = predictionL2 10 1 (1 / 1000) medex solveex rootex TNone Xex n z.
Proof.
  apply l2_fit_commutes_with_rescaling.
  - apply medex_hom.
  - lra.
  - lra.
  - intros k. rewrite featmat_ex, pdist_ex. unfold medex. cbn [nth]. lra.
  - intros k. rewrite featmat_ex. apply masks_ex.
  - intros k. rewrite featmat_ex. unfold coefsL2, solveex. apply norm_pos_ex.
Qed.

Print Assumptions bwL2_hom.
Print Assumptions gramL2_inv.
Print Assumptions predictL2_inv.
Print Assumptions agopL2_inv.
Print Assumptions l2_fit_commutes_with_rescaling.
