(* The irrational steps of rmse and log-loss over the reals. *)
From Coq Require Import Reals List Lra.
Import ListNotations.
Local Open Scope R_scope.

Definition rsumR (l : list R) : R := fold_right Rplus 0 l.
(* log-loss of the probabilities assigned to the true classes *)
Definition logloss (ps : list R) : R := - rsumR (map ln ps) / INR (length ps).

Lemma neg_ln_nonneg p : 0 < p <= 1 -> 0 <= - ln p.
Proof.
  intros [H0 H1]. destruct (Rle_lt_or_eq_dec _ _ H1) as [Hlt|Heq]; [|rewrite Heq, ln_1; lra].
  pose proof (ln_increasing p 1 H0 Hlt) as G. rewrite ln_1 in G. lra.
Qed.

Theorem logloss_nonneg ps : ps <> [] -> Forall (fun p => 0 < p <= 1) ps -> 0 <= logloss ps.
Proof.
  intros Hne H. unfold logloss.
  assert (G : - rsumR (map ln ps) >= 0).
  { induction H as [|p l Hp Hl IH]; [cbn; lra|]. cbn [map rsumR fold_right]. pose proof (neg_ln_nonneg p Hp).
    destruct l as [|q l]; [cbn; lra|]. specialize (IH ltac:(discriminate)). unfold rsumR in IH. lra. }
  assert (0 < INR (length ps)) by (apply lt_0_INR; destruct ps; [contradiction|cbn; apply Nat.lt_0_succ]).
  unfold Rdiv. apply Rmult_le_pos; [lra|]. left. apply Rinv_0_lt_compat. assumption.
Qed.

Theorem logloss_perfect ps : Forall (fun p => p = 1) ps -> logloss ps = 0.
Proof.
  intros H. unfold logloss. assert (E : rsumR (map ln ps) = 0).
  { induction H as [|p l Hp Hl IH]; [reflexivity|]. cbn [map rsumR fold_right]. rewrite Hp, ln_1. unfold rsumR in IH. rewrite IH. lra. }
  rewrite E. unfold Rdiv. rewrite Ropp_0. apply Rmult_0_l.
Qed.

(* rmse = sqrt(mse): non-negative, zero exactly when mse is zero, monotone in mse *)
Theorem rmse_facts (m : R) : 0 <= m -> 0 <= sqrt m /\ (m = 0 -> sqrt m = 0) /\ forall m', m <= m' -> sqrt m <= sqrt m'.
Proof.
  intros Hm. split; [apply sqrt_pos|]. split; [intros ->; apply sqrt_0|]. intros m' H. apply sqrt_le_1; lra.
Qed.
