(* Interface between the gradient models of Real/Grads.v and the op sequences re-translated from the source on every run
   (harness/gradops.py).  The translator emits, for a generic center x and query point z, the real-valued weight the code
   computes (entry M[i,j] of `kernel_mat`) and the two row tensors of the final pair of einsums; the generated file proves
   that plugging them into the generic sum below gives the hand-written models grad_l2 / grad_light.
   It also holds the models of the functions the autodiff kernels hand to torch.func.jacrev (`forward_func`), with the
   theorems that — wherever the eps-mask is open — they are the documented closed forms of C05. *)
From Coq Require Import Reals List Lra Lia.
Require Import XV.Real.Kernels XV.Real.Grads.
Import ListNotations.
Local Open Scope R_scope.

(* sum_i c_i * w(x_i) * (zm - f(x_i)) : the difference of the two einsums 'li,ij,jd->ljd' and 'li,ij,id->ljd' for one (l, j) *)
Fixpoint gsum_w (w : list R -> R) (f : list R -> list R) (zm : list R) (xs : list (list R)) (cs : list R) : list R :=
  match xs, cs with
  | x :: xs', c :: cs' => vaddR (vscaleR (c * w x) (vsubR zm (f x))) (gsum_w w f zm xs' cs')
  | _, _ => repeat 0 (length zm)
  end.

Lemma gsum_w_ext w w' f f' zm : forall xs cs, (forall x, In x xs -> w x = w' x /\ f x = f' x) ->
  gsum_w w f zm xs cs = gsum_w w' f' zm xs cs.
Proof.
  induction xs as [|x xs IH]; intros cs H; [reflexivity|]. destruct cs as [|c cs]; [reflexivity|]. cbn [gsum_w].
  destruct (H x (or_introl eq_refl)) as [-> ->]. rewrite IH by (intros y Hy; apply H; right; exact Hy). reflexivity.
Qed.

Lemma gsum_is_gsum_w L q eps f zm : forall xs cs,
  gsum L q eps zm (map f xs) cs = gsum_w (fun x => gweight L q eps (cdist2 (f x) zm)) f zm xs cs.
Proof.
  induction xs as [|x xs IH]; intros cs; [reflexivity|]. destruct cs as [|c cs]; [reflexivity|].
  cbn [map gsum gsum_w]. rewrite IH. reflexivity.
Qed.

Theorem grad_l2_as_gsum_w t L q eps xs cs z :
  grad_l2 t L q eps xs cs z =
  transform t (gsum_w (fun x => gweight L q eps (cdist2 (transform t x) (transform t z))) (transform t) (transform t z) xs cs).
Proof. unfold grad_l2. rewrite gsum_is_gsum_w. reflexivity. Qed.

Theorem grad_light_as_gsum_w t L q eps xs cs z :
  grad_light t L q eps xs cs z =
  gsum_w (fun x => gweight L q eps (sqrt (Rmax 0 (light_sq t x z)))) (transform t) (transform t z) xs cs.
Proof.
  unfold grad_light. revert cs. induction xs as [|x xs IH]; intros cs; [reflexivity|]. destruct cs as [|c cs]; [reflexivity|].
  cbn [gsum_light gsum_w]. rewrite IH. reflexivity.
Qed.

Lemma cdist2_nonneg a b : 0 <= cdist2 a b.
Proof. unfold cdist2. apply sqrt_pos. Qed.

(* ---------- what the autodiff kernels differentiate ---------- *)
(* ProductLaplaceKernel.forward_func, summand for (center x, query z):
     D = cdist(xm, zm, p = q) ** q ;  exp (-(1/L)^q * (D * [D >= eps])) *)
Definition fwd_product (t : tmat) (L q eps : R) (x z : list R) : R :=
  let D := pw (cdistp q (transform t x) (transform t z)) q in
  exp (- Rpower (1 / L) q * (D * (if Rle_dec eps D then 1 else 0))).

(* LpqLaplaceKernel.forward_func: base = cdist(xm, zm, p) ; where(base >= eps, clamp_min(base, eps) ** q, 0) ; exp (-(1/L)^q * .) *)
Definition fwd_lpq (t : tmat) (L p q eps : R) (x z : list R) : R :=
  let B := cdistp p (transform t x) (transform t z) in
  exp (- Rpower (1 / L) q * (if Rle_dec eps B then Rpower (Rmax B eps) q else 0)).

(* SumPowerLaplaceKernel.forward_func: a = |xm - z| per coordinate ; where(a >= eps, clamp_min(a, eps) ** q, 0) (the coordinate is masked BEFORE the
   power is taken) ; exp (-1/L^q * .) ; (1-c) * (sum / d) + c ; ** power *)
Definition sp_term (eps q u : R) : R := if Rle_dec eps (Rabs u) then pw (Rmax (Rabs u) eps) q else 0.
Definition fwd_sum_power (t : tmat) (L q c eps : R) (power : nat) (x z : list R) : R :=
  let dif := vsubR (transform t x) (transform t z) in
  ((1 - c) * (rsumR (map (fun u => exp (- 1 / Rpower L q * (if Rle_dec eps (Rabs u) then pw (Rmax (Rabs u) eps) q else 0))) dif) / INR (length x)) + c) ^ power.

Lemma Rpower_inv_base L q : 0 < L -> Rpower (1 / L) q = / Rpower L q.
Proof.
  intros HL. unfold Rpower. replace (1 / L) with (/ L) by (unfold Rdiv; ring). rewrite ln_Rinv by exact HL.
  replace (q * - ln L) with (- (q * ln L)) by ring. apply exp_Ropp.
Qed.

Theorem fwd_product_open t L q eps x z : 0 < L -> 0 < q -> length x = length z -> wf_tmat t (length x) ->
  eps <= sum_abs_pow q (transform t (vsubR x z)) ->
  fwd_product t L q eps x z = closed_product t L q x z.
Proof.
  intros HL Hq Hl Hw He. unfold fwd_product, closed_product, cdistp. cbv zeta. rewrite transform_sub by assumption.
  rewrite pw_root_pow by (try apply sum_abs_pow_nonneg; assumption).
  destruct (Rle_dec eps (sum_abs_pow q (transform t (vsubR x z)))) as [_|n]; [|contradiction].
  rewrite Rpower_inv_base by exact HL. f_equal. unfold Rdiv. ring.
Qed.

Theorem fwd_product_masked t L q eps x z : 0 < q ->
  sum_abs_pow q (vsubR (transform t x) (transform t z)) < eps -> fwd_product t L q eps x z = 1.
Proof.
  intros Hq He. unfold fwd_product, cdistp. cbv zeta. rewrite pw_root_pow by (try apply sum_abs_pow_nonneg; assumption).
  destruct (Rle_dec eps _) as [H|_]; [lra|]. rewrite Rmult_0_r, Rmult_0_r. apply exp_0.
Qed.

Theorem fwd_lpq_open t L p q eps x z : 0 < L -> 0 < eps -> length x = length z -> wf_tmat t (length x) ->
  eps <= normp p (transform t (vsubR x z)) ->
  fwd_lpq t L p q eps x z = closed_lpq t L p q x z.
Proof.
  intros HL He0 Hl Hw He. unfold fwd_lpq, closed_lpq, cdistp. cbv zeta. rewrite transform_sub by assumption. fold (normp p (transform t (vsubR x z))).
  destruct (Rle_dec eps (normp p (transform t (vsubR x z)))) as [_|n]; [|contradiction].
  rewrite Rmax_left by exact He. rewrite pw_pos by lra. rewrite Rpower_inv_base by exact HL. f_equal. unfold Rdiv. ring.
Qed.

Theorem fwd_lpq_masked t L p q eps x z :
  cdistp p (transform t x) (transform t z) < eps -> fwd_lpq t L p q eps x z = 1.
Proof.
  intros He. unfold fwd_lpq. cbv zeta. destruct (Rle_dec eps _) as [H|_]; [lra|]. rewrite Rmult_0_r. apply exp_0.
Qed.

(* the clamp under an open mask is the identity *)
Lemma sp_term_eq eps q u : sp_term eps q u = if Rle_dec eps (Rabs u) then pw (Rabs u) q else 0.
Proof. unfold sp_term. destruct (Rle_dec eps (Rabs u)) as [H|_]; [|reflexivity]. rewrite Rmax_left by exact H. reflexivity. Qed.
Lemma sp_term_open eps q u : eps <= Rabs u -> sp_term eps q u = pw (Rabs u) q.
Proof. intros H. rewrite sp_term_eq. destruct (Rle_dec eps (Rabs u)); [reflexivity|contradiction]. Qed.
Lemma sp_term_masked eps q u : Rabs u < eps -> sp_term eps q u = 0.
Proof. intros H. rewrite sp_term_eq. destruct (Rle_dec eps (Rabs u)); [lra|reflexivity]. Qed.
(* a vanishing coordinate: |0|^q = 0 (pw 0 q = 0) whether or not the mask is open *)
Lemma sp_term_0 eps q : sp_term eps q 0 = pw (Rabs 0) q.
Proof. rewrite sp_term_eq, Rabs_R0, pw_0. destruct (Rle_dec eps 0); reflexivity. Qed.
Lemma sp_term_ok eps q u : u = 0 \/ eps <= Rabs u -> sp_term eps q u = pw (Rabs u) q.
Proof. intros [->|H]; [apply sp_term_0|apply sp_term_open; exact H]. Qed.

(* every coordinate of the transformed difference is 0 or at least eps in absolute value: the masked closure is the documented kernel *)
Theorem fwd_sum_power_closed t L q c eps power x z : length x = length z -> wf_tmat t (length x) ->
  length (transform t x) = length (transform t z) -> length (transform t x) = length x ->
  List.Forall (fun u => u = 0 \/ eps <= Rabs u) (vsubR (transform t x) (transform t z)) ->
  fwd_sum_power t L q c eps power x z = closed_sum_power t L q c power x z.
Proof.
  intros Hl Hw Ht Hx Hm. unfold fwd_sum_power, closed_sum_power. cbv zeta. rewrite <- transform_sub by assumption.
  rewrite vsubR_length by exact Ht. rewrite Hx.
  replace (map (fun u => exp (- 1 / Rpower L q * (if Rle_dec eps (Rabs u) then pw (Rmax (Rabs u) eps) q else 0))) (vsubR (transform t x) (transform t z)))
    with (map (fun u => exp (- pw (Rabs u) q / Rpower L q)) (vsubR (transform t x) (transform t z))); [reflexivity|].
  apply map_ext_in. intros u Hu. rewrite Forall_forall in Hm. fold (sp_term eps q u). rewrite (sp_term_ok eps q u (Hm u Hu)).
  f_equal. unfold Rdiv. ring.
Qed.

(* all masks open *)
Theorem fwd_sum_power_open t L q c eps power x z : length x = length z -> wf_tmat t (length x) ->
  length (transform t x) = length (transform t z) -> length (transform t x) = length x ->
  List.Forall (fun u => eps <= Rabs u) (vsubR (transform t x) (transform t z)) ->
  fwd_sum_power t L q c eps power x z = closed_sum_power t L q c power x z.
Proof.
  intros Hl Hw Ht Hx Hm. apply fwd_sum_power_closed; try assumption.
  apply (Forall_impl _ (fun u H => or_intror H) Hm).
Qed.

(* a masked coordinate enters the sum as exp 0 = 1, a constant *)
Theorem fwd_sum_power_masked_coordinate L q eps u : Rabs u < eps ->
  exp (- 1 / Rpower L q * (if Rle_dec eps (Rabs u) then pw (Rmax (Rabs u) eps) q else 0)) = 1.
Proof. intros H. fold (sp_term eps q u). rewrite sp_term_masked by exact H. rewrite Rmult_0_r. apply exp_0. Qed.
