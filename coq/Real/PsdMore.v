(* Closure properties of kernels with a finite-dimensional feature representation, and PSD corollaries:
   (A) has_rep: constants, sums, non-negative multiples, products, powers, precomposition; has_rep => PSD;
   (B) the SUM-POWER kernel with exponent 1 is PSD;
   (C) the op-sequence models (laplace_product, laplace_lpq with p = q = 1, sum_power) with exponent 1 are PSD;
   (D) the Gaussian kernel (L2 Laplace kernel with exponent 2) is PSD (limit of kernels with a representation). *)
From Coq Require Import Reals List Lra Lia.
From Coquelicot Require Import Coquelicot.
Require Import XV.Real.Kernels XV.Real.PsdProduct.
Import ListNotations.
Local Open Scope R_scope.

(* ====================================================================== *)
(* (A) kernels with a feature representation on a finite list of points   *)
(* ====================================================================== *)
Definition has_rep (k : list R -> list R -> R) (P : list (list R)) : Prop :=
  exists (F : list R -> list R) (n : nat),
    (forall u, length (F u) = n) /\ (forall u v, In u P -> In v P -> k u v = vdotR (F u) (F v)).

(* only the values on P matter *)
Lemma has_rep_ext k k' P : (forall u v, In u P -> In v P -> k u v = k' u v) -> has_rep k P -> has_rep k' P.
Proof.
  intros E [F [n [HL HK]]]. exists F, n. split; [exact HL|]. intros u v Hu Hv. rewrite <- E by assumption. apply HK; assumption.
Qed.

(* cut or pad with zeros to length n: turns a length condition on P into an unconditional one *)
Definition fit (n : nat) (u : list R) : list R := firstn n (u ++ repeat 0 n).

Lemma fit_length n u : length (fit n u) = n.
Proof. unfold fit. rewrite firstn_length, app_length, repeat_length. lia. Qed.

Lemma fit_id n u : length u = n -> fit n u = u.
Proof.
  intros H. subst n. unfold fit. rewrite firstn_app. replace (length u - length u)%nat with 0%nat by lia.
  rewrite firstn_all. cbn [firstn]. apply app_nil_r.
Qed.

Lemma has_rep_local k P (F : list R -> list R) (n : nat) :
  (forall u, In u P -> length (F u) = n) -> (forall u v, In u P -> In v P -> k u v = vdotR (F u) (F v)) -> has_rep k P.
Proof.
  intros HL HK. exists (fun u => fit n (F u)), n. split; [intros u; apply fit_length|].
  intros u v Hu Hv. rewrite !fit_id by (apply HL; assumption). apply HK; assumption.
Qed.

Lemma has_rep_const c P : 0 <= c -> has_rep (fun _ _ => c) P.
Proof.
  intros Hc. exists (fun _ => [sqrt c]), 1%nat. split; [reflexivity|]. intros u v _ _. cbn [vdotR].
  rewrite sqrt_sqrt by exact Hc. ring.
Qed.

(* rank one kernels g(u) g(v) *)
Lemma has_rep_rank1 (g : list R -> R) P : has_rep (fun u v => g u * g v) P.
Proof. exists (fun u => [g u]), 1%nat. split; [reflexivity|]. intros u v _ _. cbn [vdotR]. ring. Qed.

Lemma has_rep_sum k1 k2 P : has_rep k1 P -> has_rep k2 P -> has_rep (fun u v => k1 u v + k2 u v) P.
Proof.
  intros [F [n [HFl HF]]] [G [p [HGl HG]]]. exists (fun u => F u ++ G u), (n + p)%nat. split.
  - intros u. rewrite app_length, HFl, HGl. reflexivity.
  - intros u v Hu Hv. rewrite vdotR_app by (rewrite !HFl; reflexivity). rewrite HF, HG by assumption. reflexivity.
Qed.

Lemma has_rep_scale c k P : 0 <= c -> has_rep k P -> has_rep (fun u v => c * k u v) P.
Proof.
  intros Hc [F [n [HFl HF]]]. exists (fun u => vscaleR (sqrt c) (F u)), n. split.
  - intros u. unfold vscaleR. rewrite map_length. apply HFl.
  - intros u v Hu Hv. rewrite vdotR_scale_l, vdotR_scale_r, <- Rmult_assoc, sqrt_sqrt by exact Hc.
    rewrite HF by assumption. reflexivity.
Qed.

Lemma has_rep_mul k1 k2 P : has_rep k1 P -> has_rep k2 P -> has_rep (fun u v => k1 u v * k2 u v) P.
Proof.
  intros [F [n [HFl HF]]] [G [p [HGl HG]]]. exists (fun u => tensor (F u) (G u)), (n * p)%nat. split.
  - intros u. rewrite tensor_length, HFl, HGl. reflexivity.
  - intros u v Hu Hv. rewrite tensor_dot by (rewrite ?HFl, ?HGl; reflexivity). rewrite HF, HG by assumption. reflexivity.
Qed.

Lemma has_rep_pow k P : has_rep k P -> forall n : nat, has_rep (fun u v => k u v ^ n) P.
Proof.
  intros H. induction n as [|n IH].
  - apply (has_rep_ext (fun _ _ => 1)); [intros; reflexivity|]. apply has_rep_const. lra.
  - apply (has_rep_ext (fun u v => k u v * k u v ^ n)); [intros; reflexivity|]. apply (has_rep_mul k (fun u v => k u v ^ n)); assumption.
Qed.

(* precomposition with a map on the points *)
Lemma has_rep_precomp (g : list R -> list R) k P : has_rep k (map g P) -> has_rep (fun u v => k (g u) (g v)) P.
Proof.
  intros [F [n [HFl HF]]]. exists (fun u => F (g u)), n. split; [intros u; apply HFl|].
  intros u v Hu Hv. apply HF; apply in_map; assumption.
Qed.

(* a representation on P restricts to any list of points of P *)
Lemma has_rep_incl k P Q : incl Q P -> has_rep k P -> has_rep k Q.
Proof. intros HI [F [n [HFl HF]]]. exists F, n. split; [exact HFl|]. intros u v Hu Hv. apply HF; apply HI; assumption. Qed.

(* representation => positive semi-definite *)
Theorem has_rep_qf_nonneg k P : has_rep k P -> forall cs, 0 <= qf k P cs.
Proof.
  intros [F [n [HFl HF]]] cs. apply (rep_qf_nonneg k F n); [intros u _; apply HFl|exact HF].
Qed.

(* basic kernels *)
Lemma has_rep_dot m P : List.Forall (fun u => length u = m) P -> has_rep vdotR P.
Proof.
  intros HP. rewrite Forall_forall in HP. apply (has_rep_local vdotR P (fun u => u) m); [exact HP|reflexivity].
Qed.

(* one-dimensional Laplace kernel of any real-valued function of the points *)
Lemma has_rep_laplace1 (h : list R -> R) P : has_rep (fun u v => exp (- Rabs (h u - h v))) P.
Proof.
  exists (fun u => f1 (map h P) (h u)), (length (map h P)). split; [intros u; apply f1_length|].
  intros u v Hu Hv. apply laplace1_feature_dot; apply in_map; assumption.
Qed.

(* the l1 Laplace kernel (restatement of PsdProduct.feature_rep_exists) *)
Lemma has_rep_laplace_l1 m P : List.Forall (fun u => length u = m) P ->
  has_rep (fun u v => exp (- rsumR (map Rabs (vsubR u v)))) P.
Proof. intros HP. exact (feature_rep_exists m P HP). Qed.

(* ====================================================================== *)
(* (B) the SUM-POWER kernel with exponent 1                               *)
(* ====================================================================== *)
(* sum over the coordinates of the one-dimensional Laplace kernels *)
Definition ksum1 (u v : list R) : R := rsumR (map (fun w => exp (- Rabs w)) (vsubR u v)).

Lemma has_rep_ksum1 : forall (m : nat) (P : list (list R)), List.Forall (fun u => length u = m) P -> has_rep ksum1 P.
Proof.
  induction m as [|m IH]; intros P HP.
  - apply (has_rep_ext (fun _ _ => 0)); [|apply has_rep_const; lra].
    intros u v Hu Hv. rewrite Forall_forall in HP. apply HP in Hu. destruct u as [|a u]; [|discriminate]. reflexivity.
  - assert (HT : has_rep (fun u v => ksum1 (tl u) (tl v)) P).
    { apply (has_rep_precomp (@tl R) ksum1). apply IH. rewrite Forall_forall in *. intros u' Hu'.
      apply in_map_iff in Hu'. destruct Hu' as [u [<- Hu]]. apply HP in Hu. destruct u as [|a u]; [discriminate|]. cbn in Hu. cbn [tl]. lia. }
    pose proof (has_rep_sum (fun u v => exp (- Rabs (hd 0 u - hd 0 v))) (fun u v => ksum1 (tl u) (tl v)) P (has_rep_laplace1 (hd 0) P) HT) as HS.
    revert HS. apply has_rep_ext.
    intros u v Hu Hv. rewrite Forall_forall in HP. pose proof (HP u Hu) as Lu. pose proof (HP v Hv) as Lv.
    destruct u as [|a u]; [discriminate|]. destruct v as [|b v]; [discriminate|]. reflexivity.
Qed.

Lemma sum_power_q1_scaled L : 0 < L -> forall a b,
  rsumR (map (fun u => exp (- pw (Rabs u) 1 / Rpower L 1)) (vsubR a b)) = ksum1 (vscaleR (/ L) a) (vscaleR (/ L) b).
Proof.
  intros HL. assert (Hi : 0 < / L) by (apply Rinv_0_lt_compat; exact HL).
  unfold ksum1, rsumR, vscaleR.
  induction a as [|x a IH]; intros [|y b]; cbn [vsubR map fold_right]; try reflexivity.
  rewrite <- IH. f_equal. f_equal. rewrite pw_one by apply Rabs_pos. rewrite Rpower_1 by exact HL.
  replace (/ L * x - / L * y) with (/ L * (x - y)) by ring.
  rewrite Rabs_mult, (Rabs_pos_eq (/ L)) by lra. unfold Rdiv. ring.
Qed.

Lemma Rinv_INR_nonneg (m : nat) : 0 <= / INR m.
Proof.
  destruct m as [|m]; [cbn [INR]; rewrite Rinv_0; lra|]. left. apply Rinv_0_lt_compat. apply lt_0_INR. lia.
Qed.

Theorem sum_power_q1_has_rep : forall t L c (power : nat) (xs : list (list R)) (d : nat),
  0 < L -> 0 <= c <= 1 -> wf_tmat t d -> List.Forall (fun x => length x = d) xs ->
  has_rep (closed_sum_power t L 1 c power) xs.
Proof.
  intros t L c power xs d HL Hc Hw Hd.
  pose (pt := fun x : list R => vscaleR (/ L) (transform t x)). pose (m := tdim t d).
  assert (H1 : has_rep (fun x z => ksum1 (pt x) (pt z)) xs).
  { apply (has_rep_precomp pt ksum1). apply (has_rep_ksum1 m). rewrite Forall_forall in *. intros u Hu.
    apply in_map_iff in Hu. destruct Hu as [x [<- Hx]]. unfold pt, vscaleR. rewrite map_length.
    apply transform_length; [exact Hw|apply Hd; exact Hx]. }
  assert (Ha : 0 <= (1 - c) * / INR m) by (apply Rmult_le_pos; [lra|apply Rinv_INR_nonneg]).
  pose proof (has_rep_scale ((1 - c) * / INR m) (fun x z => ksum1 (pt x) (pt z)) xs Ha H1) as H2.
  pose proof (has_rep_sum (fun x z => (1 - c) * / INR m * ksum1 (pt x) (pt z)) (fun _ _ => c) xs H2 (has_rep_const c xs (proj1 Hc))) as H3.
  pose proof (has_rep_pow (fun x z => (1 - c) * / INR m * ksum1 (pt x) (pt z) + c) xs H3 power) as H4.
  revert H4. apply has_rep_ext.
  intros x z Hx Hz. rewrite Forall_forall in Hd. pose proof (Hd x Hx) as Lx. pose proof (Hd z Hz) as Lz.
  unfold closed_sum_power. cbn zeta. rewrite <- transform_sub by (try rewrite Lx; try assumption; lia).
  rewrite vsubR_length by (rewrite !(transform_length t d) by assumption; reflexivity).
  rewrite (transform_length t d) by assumption. fold m.
  rewrite sum_power_q1_scaled by exact HL. fold (pt x) (pt z). f_equal. unfold Rdiv. ring.
Qed.

Theorem sum_power_q1_psd : forall t L c (power : nat) (xs : list (list R)) (cs : list R) (d : nat),
  0 < L -> 0 <= c <= 1 -> wf_tmat t d -> List.Forall (fun x => length x = d) xs ->
  0 <= qf (closed_sum_power t L 1 c power) xs cs.
Proof. intros t L c power xs cs d HL Hc Hw Hd. apply has_rep_qf_nonneg. apply (sum_power_q1_has_rep t L c power xs d); assumption. Qed.

(* ====================================================================== *)
(* (C) the op-sequence models with exponent 1                             *)
(* ====================================================================== *)
Theorem closed_product_has_rep : forall t L (xs : list (list R)) (d : nat),
  0 < L -> wf_tmat t d -> List.Forall (fun x => length x = d) xs -> has_rep (closed_product t L 1) xs.
Proof.
  intros t L xs d HL Hw Hd.
  pose (pt := fun x : list R => vscaleR (/ L) (transform t x)).
  assert (H1 : has_rep (fun x z => exp (- rsumR (map Rabs (vsubR (pt x) (pt z))))) xs).
  { apply (has_rep_precomp pt (fun u v => exp (- rsumR (map Rabs (vsubR u v))))). apply (has_rep_laplace_l1 (tdim t d)).
    rewrite Forall_forall in *. intros u Hu. apply in_map_iff in Hu. destruct Hu as [x [<- Hx]]. unfold pt, vscaleR. rewrite map_length.
    apply transform_length; [exact Hw|apply Hd; exact Hx]. }
  revert H1. apply has_rep_ext.
  intros x z Hx Hz. rewrite Forall_forall in Hd. pose proof (Hd x Hx) as Lx. pose proof (Hd z Hz) as Lz.
  rewrite closed_product_q1_as_l1; [reflexivity|exact HL|lia|rewrite Lx; exact Hw].
Qed.

Theorem laplace_product_has_rep : forall t L (xs : list (list R)) (d : nat),
  0 < L -> wf_tmat t d -> List.Forall (fun x => length x = d) xs -> has_rep (laplace_product t L 1) xs.
Proof.
  intros t L xs d HL Hw Hd. apply (has_rep_ext (closed_product t L 1)); [|apply (closed_product_has_rep t L xs d); assumption].
  intros x z Hx Hz. rewrite Forall_forall in Hd. pose proof (Hd x Hx) as Lx. pose proof (Hd z Hz) as Lz.
  symmetry. apply laplace_product_closed_form; [lra|lia|rewrite Lx; exact Hw].
Qed.

Theorem laplace_product_psd : forall t L (xs : list (list R)) (cs : list R) (d : nat),
  0 < L -> wf_tmat t d -> List.Forall (fun x => length x = d) xs -> 0 <= qf (laplace_product t L 1) xs cs.
Proof. intros t L xs cs d HL Hw Hd. apply has_rep_qf_nonneg. apply (laplace_product_has_rep t L xs d); assumption. Qed.

(* Lpq with p = q = 1 is the product kernel with exponent 1 (no hypothesis at all) *)
Lemma closed_lpq_p1_q1 t L x z : closed_lpq t L 1 1 x z = closed_product t L 1 x z.
Proof.
  unfold closed_lpq, closed_product, normp. rewrite Rinv_1.
  rewrite (pw_one (sum_abs_pow 1 _)) by apply sum_abs_pow_nonneg.
  rewrite (pw_one (sum_abs_pow 1 _)) by apply sum_abs_pow_nonneg. reflexivity.
Qed.

Theorem lpq_p1_q1_has_rep : forall t L (xs : list (list R)) (d : nat),
  0 < L -> wf_tmat t d -> List.Forall (fun x => length x = d) xs -> has_rep (closed_lpq t L 1 1) xs.
Proof.
  intros t L xs d HL Hw Hd. apply (has_rep_ext (closed_product t L 1)); [|apply (closed_product_has_rep t L xs d); assumption].
  intros x z _ _. symmetry. apply closed_lpq_p1_q1.
Qed.

Theorem lpq_p1_q1_psd : forall t L (xs : list (list R)) (cs : list R) (d : nat),
  0 < L -> wf_tmat t d -> List.Forall (fun x => length x = d) xs -> 0 <= qf (closed_lpq t L 1 1) xs cs.
Proof. intros t L xs cs d HL Hw Hd. apply has_rep_qf_nonneg. apply (lpq_p1_q1_has_rep t L xs d); assumption. Qed.

Theorem laplace_lpq_p1_q1_has_rep : forall t L (xs : list (list R)) (d : nat),
  0 < L -> wf_tmat t d -> List.Forall (fun x => length x = d) xs -> has_rep (laplace_lpq t L 1 1) xs.
Proof.
  intros t L xs d HL Hw Hd. apply (has_rep_ext (closed_lpq t L 1 1)); [|apply (lpq_p1_q1_has_rep t L xs d); assumption].
  intros x z Hx Hz. rewrite Forall_forall in Hd. pose proof (Hd x Hx) as Lx. pose proof (Hd z Hz) as Lz.
  symmetry. apply laplace_lpq_closed_form; [lia|rewrite Lx; exact Hw].
Qed.

Theorem laplace_lpq_p1_q1_psd : forall t L (xs : list (list R)) (cs : list R) (d : nat),
  0 < L -> wf_tmat t d -> List.Forall (fun x => length x = d) xs -> 0 <= qf (laplace_lpq t L 1 1) xs cs.
Proof. intros t L xs cs d HL Hw Hd. apply has_rep_qf_nonneg. apply (laplace_lpq_p1_q1_has_rep t L xs d); assumption. Qed.

Theorem sum_power_op_q1_has_rep : forall t L c (power : nat) (xs : list (list R)) (d : nat),
  0 < L -> 0 <= c <= 1 -> wf_tmat t d -> List.Forall (fun x => length x = d) xs ->
  has_rep (sum_power t L 1 c power) xs.
Proof.
  intros t L c power xs d HL Hc Hw Hd.
  apply (has_rep_ext (closed_sum_power t L 1 c power)); [|apply (sum_power_q1_has_rep t L c power xs d); assumption].
  intros x z Hx Hz. rewrite Forall_forall in Hd. pose proof (Hd x Hx) as Lx. pose proof (Hd z Hz) as Lz.
  symmetry. apply sum_power_closed_form; [lia|rewrite Lx; exact Hw|].
  rewrite !(transform_length t d) by assumption. reflexivity.
Qed.

Theorem sum_power_op_q1_psd : forall t L c (power : nat) (xs : list (list R)) (cs : list R) (d : nat),
  0 < L -> 0 <= c <= 1 -> wf_tmat t d -> List.Forall (fun x => length x = d) xs ->
  0 <= qf (sum_power t L 1 c power) xs cs.
Proof. intros t L c power xs cs d HL Hc Hw Hd. apply has_rep_qf_nonneg. apply (sum_power_op_q1_has_rep t L c power xs d); assumption. Qed.

(* ====================================================================== *)
(* (D) the Gaussian kernel = L2 Laplace kernel with exponent 2            *)
(* ====================================================================== *)
(* D.1  PSD is closed under pointwise limits: the quadratic form is a finite sum of kernel values *)
Lemma lin_lim (kN : nat -> list R -> list R -> R) (k : list R -> list R -> R) (x : list R) : forall ys cs,
  (forall y, In y ys -> is_lim_seq (fun N => kN N x y) (k x y)) ->
  is_lim_seq (fun N => lin (kN N) x ys cs) (lin k x ys cs).
Proof.
  induction ys as [|y ys IH]; intros cs H; [apply is_lim_seq_const|]. destruct cs as [|c cs]; [apply is_lim_seq_const|].
  cbn [lin]. apply is_lim_seq_plus'.
  - apply is_lim_seq_mult'; [apply is_lim_seq_const|apply H; left; reflexivity].
  - apply IH. intros y0 Hy0. apply H. right. exact Hy0.
Qed.

Lemma qf_aux_lim (kN : nat -> list R -> list R -> R) (k : list R -> list R -> R) all allc : forall xs cs,
  (forall x y, In x xs -> In y all -> is_lim_seq (fun N => kN N x y) (k x y)) ->
  is_lim_seq (fun N => qf_aux (kN N) all allc xs cs) (qf_aux k all allc xs cs).
Proof.
  induction xs as [|x xs IH]; intros cs H; [apply is_lim_seq_const|]. destruct cs as [|c cs]; [apply is_lim_seq_const|].
  cbn [qf_aux]. apply is_lim_seq_plus'.
  - apply is_lim_seq_mult'; [apply is_lim_seq_const|]. apply lin_lim. intros y Hy. apply H; [left; reflexivity|exact Hy].
  - apply IH. intros x0 y Hx0 Hy. apply H; [right; exact Hx0|exact Hy].
Qed.

Theorem psd_lim (kN : nat -> list R -> list R -> R) (k : list R -> list R -> R) (P : list (list R)) (cs : list R) :
  (forall N, 0 <= qf (kN N) P cs) ->
  (forall u v, In u P -> In v P -> is_lim_seq (fun N => kN N u v) (k u v)) ->
  0 <= qf k P cs.
Proof.
  intros Hpos Hlim.
  assert (HL : is_lim_seq (fun N => qf (kN N) P cs) (qf k P cs)) by (unfold qf; apply qf_aux_lim; exact Hlim).
  exact (is_lim_seq_le (fun _ => 0) (fun N => qf (kN N) P cs) 0 (qf k P cs) Hpos (is_lim_seq_const 0) HL).
Qed.

(* D.2  the Taylor partial sums of exp, and their limit *)
Definition expS (x : R) (N : nat) : R := sum_f_R0 (fun i => / INR (fact i) * x ^ i) N.

Lemma expS_lim x : is_lim_seq (expS x) (exp x).
Proof.
  apply is_lim_seq_Reals. unfold exp. destruct (exist_exp x) as [l Hl]. exact Hl.
Qed.

Lemma has_rep_expS k P : has_rep k P -> forall N, has_rep (fun u v => expS (k u v) N) P.
Proof.
  intros H.
  assert (HT : forall i : nat, has_rep (fun u v => / INR (fact i) * k u v ^ i) P).
  { intros i. apply (has_rep_scale (/ INR (fact i)) (fun u v => k u v ^ i)); [|apply has_rep_pow; exact H].
    left. apply Rinv_0_lt_compat. apply INR_fact_lt_0. }
  induction N as [|N IH].
  - exact (HT 0%nat).
  - exact (has_rep_sum (fun u v => expS (k u v) N) (fun u v => / INR (fact (S N)) * k u v ^ S N) P IH (HT (S N))).
Qed.

(* D.3  the Gaussian kernel on points of a common length *)
Definition gaussk (u v : list R) : R := exp (- sumsq (vsubR u v)).
Definition gaussN (N : nat) (u v : list R) : R := exp (- sumsq u) * exp (- sumsq v) * expS (2 * vdotR u v) N.

Lemma sumsq_sub_expand : forall u v, length u = length v -> sumsq (vsubR u v) = sumsq u + sumsq v - 2 * vdotR u v.
Proof.
  unfold sumsq, rsumR. induction u as [|a u IH]; intros [|b v] H; try discriminate; cbn [vsubR map fold_right vdotR]; [ring|].
  cbn in H. injection H as H. rewrite (IH v H). ring.
Qed.

Lemma has_rep_gaussN m P N : List.Forall (fun u => length u = m) P -> has_rep (gaussN N) P.
Proof.
  intros HP.
  pose proof (has_rep_scale 2 vdotR P ltac:(lra) (has_rep_dot m P HP)) as H2.
  pose proof (has_rep_expS (fun u v => 2 * vdotR u v) P H2 N) as H3.
  exact (has_rep_mul (fun u v => exp (- sumsq u) * exp (- sumsq v)) (fun u v => expS (2 * vdotR u v) N) P
           (has_rep_rank1 (fun u => exp (- sumsq u)) P) H3).
Qed.

Lemma gaussN_lim u v : length u = length v -> is_lim_seq (fun N => gaussN N u v) (gaussk u v).
Proof.
  intros H. unfold gaussk. rewrite sumsq_sub_expand by exact H.
  replace (exp (- (sumsq u + sumsq v - 2 * vdotR u v))) with (exp (- sumsq u) * exp (- sumsq v) * exp (2 * vdotR u v))
    by (rewrite <- !exp_plus; f_equal; ring).
  unfold gaussN. apply is_lim_seq_mult'; [apply is_lim_seq_const|apply expS_lim].
Qed.

Theorem gaussk_psd m P cs : List.Forall (fun u => length u = m) P -> 0 <= qf gaussk P cs.
Proof.
  intros HP. apply (psd_lim gaussN).
  - intros N. apply has_rep_qf_nonneg. apply (has_rep_gaussN m). exact HP.
  - intros u v Hu Hv. rewrite Forall_forall in HP. apply gaussN_lim. rewrite (HP u Hu), (HP v Hv). reflexivity.
Qed.

(* D.4  closed_l2 with exponent 2 is the Gaussian kernel of the scaled transformed points *)
Lemma pw_norm2_sq a : pw (norm2 a) 2 = sumsq a.
Proof.
  unfold norm2, pw. pose proof (sumsq_nonneg a) as Hs. destruct (Req_EM_T (sqrt (sumsq a)) 0) as [E|NE].
  - symmetry. apply sqrt_eq_0; assumption.
  - assert (Hp : 0 < sqrt (sumsq a)) by (pose proof (sqrt_pos (sumsq a)); lra).
    replace 2 with (1 + 1) by ring. rewrite Rpower_plus, Rpower_1 by exact Hp. apply sqrt_sqrt. exact Hs.
Qed.

Lemma Rpower_2 L : 0 < L -> Rpower L 2 = L * L.
Proof. intros HL. replace 2 with (1 + 1) by ring. rewrite Rpower_plus, Rpower_1 by exact HL. reflexivity. Qed.

Lemma sumsq_scaled L : 0 < L -> forall a b,
  sumsq (vsubR a b) / (L * L) = sumsq (vsubR (vscaleR (/ L) a) (vscaleR (/ L) b)).
Proof.
  intros HL. unfold sumsq, rsumR, vscaleR.
  induction a as [|x a IH]; intros [|y b]; cbn [vsubR map fold_right]; try (unfold Rdiv; ring).
  rewrite <- IH. field. lra.
Qed.

Theorem closed_l2_q2_as_gauss t L x z : 0 < L -> length x = length z -> wf_tmat t (length x) ->
  closed_l2 t L 2 x z = gaussk (vscaleR (/ L) (transform t x)) (vscaleR (/ L) (transform t z)).
Proof.
  intros HL Hl Hw. unfold closed_l2, gaussk. rewrite <- transform_sub by assumption.
  rewrite pw_norm2_sq, Rpower_2 by exact HL. rewrite <- sumsq_scaled by exact HL. f_equal. unfold Rdiv. ring.
Qed.

Theorem gaussian_psd : forall t L (xs : list (list R)) (cs : list R) (d : nat),
  0 < L -> wf_tmat t d -> List.Forall (fun x => length x = d) xs -> 0 <= qf (closed_l2 t L 2) xs cs.
Proof.
  intros t L xs cs d HL Hw Hd.
  pose (pt := fun x : list R => vscaleR (/ L) (transform t x)).
  assert (Hpt : forall x, In x xs -> length (pt x) = tdim t d).
  { intros x Hx. rewrite Forall_forall in Hd. unfold pt, vscaleR. rewrite map_length. apply transform_length; [exact Hw|apply Hd; exact Hx]. }
  apply (psd_lim (fun N x z => gaussN N (pt x) (pt z))).
  - intros N. apply has_rep_qf_nonneg. apply (has_rep_precomp pt (gaussN N)). apply (has_rep_gaussN (tdim t d)).
    rewrite Forall_forall. intros u Hu. apply in_map_iff in Hu. destruct Hu as [x [<- Hx]]. apply Hpt. exact Hx.
  - intros x z Hx Hz. rewrite Forall_forall in Hd. pose proof (Hd x Hx) as Lx. pose proof (Hd z Hz) as Lz.
    rewrite closed_l2_q2_as_gauss; [|exact HL|lia|rewrite Lx; exact Hw].
    apply gaussN_lim. fold (pt x) (pt z). rewrite !Hpt by assumption. reflexivity.
Qed.

(* op-sequence version: LaplaceKernel with exponent 2 *)
Theorem laplace_l2_q2_psd : forall t L (xs : list (list R)) (cs : list R) (d : nat),
  0 < L -> wf_tmat t d -> List.Forall (fun x => length x = d) xs -> 0 <= qf (laplace_l2 t L 2) xs cs.
Proof.
  intros t L xs cs d HL Hw Hd.
  apply (psd_lim (fun _ => closed_l2 t L 2)); [intros _; apply (gaussian_psd t L xs cs d); assumption|].
  intros x z Hx Hz. rewrite Forall_forall in Hd. pose proof (Hd x Hx) as Lx. pose proof (Hd z Hz) as Lz.
  rewrite laplace_l2_closed_form; [apply is_lim_seq_const|lia|rewrite Lx; exact Hw].
Qed.

(* the quadratic form only depends on the kernel values on the points *)
Lemma lin_ext k k' x : forall ys cs, (forall y, In y ys -> k x y = k' x y) -> lin k x ys cs = lin k' x ys cs.
Proof.
  induction ys as [|y ys IH]; intros cs H; [reflexivity|]. destruct cs as [|c cs]; [reflexivity|]. cbn [lin].
  rewrite (H y (or_introl eq_refl)), (IH cs) by (intros y0 Hy0; apply H; right; exact Hy0). reflexivity.
Qed.

Lemma qf_aux_ext k k' all allc : forall xs cs, (forall x y, In x xs -> In y all -> k x y = k' x y) ->
  qf_aux k all allc xs cs = qf_aux k' all allc xs cs.
Proof.
  induction xs as [|x xs IH]; intros cs H; [reflexivity|]. destruct cs as [|c cs]; [reflexivity|]. cbn [qf_aux].
  rewrite (lin_ext k k' x all allc) by (intros y Hy; apply H; [left; reflexivity|exact Hy]).
  rewrite (IH cs) by (intros x0 y Hx0 Hy; apply H; [right; exact Hx0|exact Hy]). reflexivity.
Qed.

Lemma qf_ext k k' P cs : (forall u v, In u P -> In v P -> k u v = k' u v) -> qf k P cs = qf k' P cs.
Proof. intros H. unfold qf. apply qf_aux_ext. exact H. Qed.

(* ---------- the hypotheses are satisfiable on concrete non-trivial instances ---------- *)
Definition pts3 : list (list R) := [[1; 2; 0]; [0; -3; 1]; [1; 1; 1]; [1; 2; 0]].

Example has_rep_closure_ex :
  has_rep (fun u v => 2 * exp (- rsumR (map Rabs (vsubR u v))) + (vdotR u v) ^ 3 * ksum1 u v + 1) pts3.
Proof.
  assert (HP : List.Forall (fun u : list R => length u = 3%nat) pts3) by (repeat constructor).
  pose proof (has_rep_scale 2 _ pts3 ltac:(lra) (has_rep_laplace_l1 3 pts3 HP)) as H1.
  pose proof (has_rep_mul (fun u v => vdotR u v ^ 3) ksum1 pts3 (has_rep_pow vdotR pts3 (has_rep_dot 3 pts3 HP) 3) (has_rep_ksum1 3 pts3 HP)) as H2.
  pose proof (has_rep_sum _ _ pts3 H1 H2) as H3. cbv beta in H3.
  exact (has_rep_sum _ (fun _ _ => 1) pts3 H3 (has_rep_const 1 pts3 ltac:(lra))).
Qed.

Example has_rep_qf_nonneg_ex :
  0 <= qf (fun u v => 2 * exp (- rsumR (map Rabs (vsubR u v))) + (vdotR u v) ^ 3 * ksum1 u v + 1) pts3 [1; -2; 1; -1].
Proof. apply has_rep_qf_nonneg. exact has_rep_closure_ex. Qed.

Example has_rep_precomp_ex : has_rep (fun u v => vdotR (tl u) (tl v)) pts3.
Proof. apply (has_rep_precomp (@tl R) vdotR). apply (has_rep_dot 2). repeat constructor. Qed.

Definition tm3 : tmat := TFull 2 [[1; 0]; [2; -1]; [0; 3]].

Example sum_power_q1_psd_ex : 0 <= qf (closed_sum_power tm3 2 1 (1/4) 3) pts3 [1; -2; 1; -1].
Proof. apply (sum_power_q1_psd _ _ _ _ _ _ 3); [lra|lra|cbn; split; [reflexivity|repeat constructor]|repeat constructor]. Qed.

Example sum_power_op_q1_psd_ex : 0 <= qf (sum_power tm3 2 1 (1/4) 3) pts3 [1; -2; 1; -1].
Proof. apply (sum_power_op_q1_psd _ _ _ _ _ _ 3); [lra|lra|cbn; split; [reflexivity|repeat constructor]|repeat constructor]. Qed.

Example laplace_product_psd_ex : 0 <= qf (laplace_product tm3 2 1) pts3 [1; -2; 1; -1].
Proof. apply (laplace_product_psd _ _ _ _ 3); [lra|cbn; split; [reflexivity|repeat constructor]|repeat constructor]. Qed.

Example lpq_p1_q1_psd_ex : 0 <= qf (closed_lpq (TDiag [2; 1; 3]) (1/2) 1 1) pts3 [1; -2; 1; -1].
Proof. apply (lpq_p1_q1_psd _ _ _ _ 3); [lra|reflexivity|repeat constructor]. Qed.

Example laplace_lpq_p1_q1_psd_ex : 0 <= qf (laplace_lpq (TDiag [2; 1; 3]) (1/2) 1 1) pts3 [1; -2; 1; -1].
Proof. apply (laplace_lpq_p1_q1_psd _ _ _ _ 3); [lra|reflexivity|repeat constructor]. Qed.

Example gaussian_psd_ex : 0 <= qf (closed_l2 tm3 2 2) pts3 [1; -2; 1; -1].
Proof. apply (gaussian_psd _ _ _ _ 3); [lra|cbn; split; [reflexivity|repeat constructor]|repeat constructor]. Qed.

Example laplace_l2_q2_psd_ex : 0 <= qf (laplace_l2 TNone 3 2) pts3 [1; -2; 1; -1].
Proof. apply (laplace_l2_q2_psd _ _ _ _ 3); [lra|exact I|repeat constructor]. Qed.

Print Assumptions has_rep_qf_nonneg.
Print Assumptions has_rep_pow.
Print Assumptions sum_power_q1_psd.
Print Assumptions sum_power_op_q1_psd.
Print Assumptions laplace_product_psd.
Print Assumptions lpq_p1_q1_psd.
Print Assumptions laplace_lpq_p1_q1_psd.
Print Assumptions psd_lim.
Print Assumptions gaussian_psd.
Print Assumptions laplace_l2_q2_psd.
