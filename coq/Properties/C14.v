(* C14 — Learned feature matrix is the normalised AGOP with a consistent square root
   (partial: the matrix root (SVD) and the gradient values are contracts here; gradients are C04).
   Model: XV.Model.Agop. *)
From Coq Require Import QArith List Bool Arith.
Require Import XV.Model.Tree XV.Model.Soft XV.Model.Agop XV.Proofs.AgopProofs.
Import ListNotations.
Local Open Scope Q_scope.

(* the accumulated matrix is the sum over training points and outputs of the gradient outer products ... *)
Theorem C14_accumulated_matrix_is_sum_of_outer_products : forall d G i j, wfv d G -> ment (gram d G) i j == entry G i j.
Proof. exact gram_entry. Qed.
Print Assumptions C14_accumulated_matrix_is_sum_of_outer_products.

(* ... whatever batch size is used to accumulate it (no centring): every b >= 1, every number of points and outputs *)
Theorem C14_independent_of_batch_size : forall d b (Gp : list (list vec)) i j, (0 < b)%nat -> Forall (wfv d) Gp ->
  ment (agop d false b Gp) i j == entry (concat Gp) i j.
Proof. exact agop_batch_independent. Qed.
Print Assumptions C14_independent_of_batch_size.

Theorem C14_symmetric : forall G i j, entry G i j == entry G j i.
Proof. exact entry_symmetric. Qed.

(* positive semi-definite: x^T M x = sum_g (g.x)^2 >= 0 for every x supported on any index set *)
Theorem C14_positive_semidefinite : forall G (x : nat -> Q) (idx : list nat),
  0 <= qsum (map (fun i => qsum (map (fun j => x i * x j * entry G i j) idx)) idx).
Proof. exact entry_psd. Qed.
Print Assumptions C14_positive_semidefinite.

Theorem C14_diagonal_mode_is_the_diagonal : forall d G i, wfv d G -> nth i (gram_diag d G) 0 == entry G i i.
Proof. exact gram_diag_entry. Qed.
Print Assumptions C14_diagonal_mode_is_the_diagonal.

Theorem C14_normalised_entries_at_most_one : forall (M : mat) r x, 0 < mat_max M -> In r M -> In x r -> x / (mat_max M + tiny) <= 1.
Proof. exact normalised_entries_at_most_one. Qed.
Print Assumptions C14_normalised_entries_at_most_one.

(* with gradient centring ON the full statement is FALSE of the faithful model: centring is per accumulation batch, so the
   result depends on the batch size.  Witness (2 points, 1 output, dimension 1): batch size 1 gives 0, batch size 2 gives 2. *)
Theorem C14_centred_batch_dependence_refuted :
  exists d (Gp : list (list vec)) b1 b2, (0 < b1)%nat /\ (0 < b2)%nat /\
    ~ ment (agop d true b1 Gp) 0 0 == ment (agop d true b2 Gp) 0 0.
Proof.
  exists 1%nat, [[[1]]; [[3]]], 1%nat, 2%nat. split; [auto|]. split; [auto|]. vm_compute. intros H. discriminate H.
Qed.
Print Assumptions C14_centred_batch_dependence_refuted.

Example C14_example :
  Qeq_bool (ment (agop 2 false 1 [[[1; 2]]; [[3; -1]; [0; 1]]]) 0 1) (-1) = true /\
  Qeq_bool (ment (agop 2 false 2 [[[1; 2]]; [[3; -1]; [0; 1]]]) 0 1) (-1) = true /\
  mat_close 0 (normalise_mat [[2; 1]; [1; 4]]) (normalise_mat [[2; 1]; [1; 4]]) = true.
Proof. vm_compute. repeat split; reflexivity. Qed.
