(* C14 (real-valued composition with C04, continued) — for the PRODUCT ('l1') and Lpq Laplace kernels, whose gradients come from automatic differentiation
   (model: GradAuto.grad_product / grad_lpq, proved in C04 to be the derivative wherever the eps-mask is open and no transformed difference has a vanishing coordinate),
   the matrix the code accumulates IS the sum over outputs and training points of the outer products of the TRUE partial derivatives of the predictor with that
   point's own centre removed.  Model: XV.Real.AgopOfPredictorPQ over XV.Real.GradAuto, XV.Real.GradsP, XV.Real.ScaleInvPQ (gradsP / gradsLpq = the per-point gradient
   rows as coded) and XV.Real.ScaleInvL2 (agop_raw = the accumulation as coded).  Identity or diagonal transform, any number of outputs, points, dimensions. *)
From Coq Require Import Reals List Lra Lia.
From Coquelicot Require Import Coquelicot.
Require Import XV.Real.Kernels XV.Real.Grads XV.Real.GradsP XV.Real.GradAuto XV.Real.ScaleInvL2 XV.Real.ScaleInvPQ XV.Real.AgopOfPredictor XV.Real.AgopOfPredictorPQ.
Import ListNotations.
Local Open Scope R_scope.

Theorem C14_product_feature_matrix_is_the_agop_of_the_predictor_with_own_center_removed :
  forall t n L q eps X (A : list (list R)) i j, 0 < eps ->
  (t = TNone \/ exists m, t = TDiag m /\ length m = n) ->
  List.Forall (fun x => length x = n) X -> List.Forall (fun a => length a = length X) A ->
  (forall k l, (k < length X)%nat -> (l < length X)%nat -> k <> l ->
     eps <= sum_abs_pow q (transform t (vsubR (nth k X []) (nth l X [])))
     /\ nz (transform t (vsubR (nth k X []) (nth l X [])))) ->
  exists D : list (list R),
    length D = (length A * length X)%nat /\
    (forall o k d, (o < length A)%nat -> (k < length X)%nat ->
       is_derive (fun s => fpred (closed_product t L q) (remove_nth k X) (remove_nth k (nth o A []))
                                 (vaxpy s (basis d n) (nth k X []))) 0
                 (nth d (nth (o * length X + k) D []) 0)) /\
    ment (agop_raw (concat (map (fun a => gradsP q eps t L X a) A))) i j
      = fold_right Rplus 0 (map (fun g => nth i g 0 * nth j g 0) D).
Proof. exact product_feature_matrix_is_the_agop_of_the_predictor_with_own_center_removed. Qed.
Print Assumptions C14_product_feature_matrix_is_the_agop_of_the_predictor_with_own_center_removed.

Theorem C14_lpq_feature_matrix_is_the_agop_of_the_predictor_with_own_center_removed :
  forall t n L p q eps X (A : list (list R)) i j, 0 < eps ->
  (t = TNone \/ exists m, t = TDiag m /\ length m = n) ->
  List.Forall (fun x => length x = n) X -> List.Forall (fun a => length a = length X) A ->
  (forall k l, (k < length X)%nat -> (l < length X)%nat -> k <> l ->
     eps <= normp p (transform t (vsubR (nth k X []) (nth l X [])))
     /\ nz (transform t (vsubR (nth k X []) (nth l X [])))) ->
  exists D : list (list R),
    length D = (length A * length X)%nat /\
    (forall o k d, (o < length A)%nat -> (k < length X)%nat ->
       is_derive (fun s => fpred (closed_lpq t L p q) (remove_nth k X) (remove_nth k (nth o A []))
                                 (vaxpy s (basis d n) (nth k X []))) 0
                 (nth d (nth (o * length X + k) D []) 0)) /\
    ment (agop_raw (concat (map (fun a => gradsLpq p q eps t L X a) A))) i j
      = fold_right Rplus 0 (map (fun g => nth i g 0 * nth j g 0) D).
Proof. exact lpq_feature_matrix_is_the_agop_of_the_predictor_with_own_center_removed. Qed.
Print Assumptions C14_lpq_feature_matrix_is_the_agop_of_the_predictor_with_own_center_removed.
(* non-vacuity: AgopOfPredictorPQ.product_feature_matrix_own_center_removed_ex and lpq_feature_matrix_ex discharge every hypothesis on X = [[0;0];[3;4]], two outputs. *)
