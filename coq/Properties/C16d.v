(* C16 (whole metrics, real-valued) — RMSE and log-loss: the declared direction (minimise) is truthful for the metrics as computed — predictions identical to the
   targets score 0 and nothing scores lower — with the exact hypotheses this needs: none for RMSE; for log-loss, every probability GIVEN TO THE TRUE CLASS in (0, 1]
   (scikit-learn clips away from 0; without positivity the loss is unbounded, without `<= 1` it can be negative — both shown).  RMSE ranks candidates exactly as MSE
   does, and the real MSE of rational inputs is the Q model's `mse` (bridge).  Model / proofs: XV.Real.MetricsWholeReal over XV.Real.MetricsReal and XV.Model.Metrics. *)
From Coq Require Import Reals List Lra Lia Arith QArith Qreals.
Require Import XV.Model.Soft XV.Model.Labels XV.Model.Metrics XV.Real.MetricsReal XV.Real.MetricsWholeReal.
Import ListNotations.
Local Open Scope R_scope.

Theorem C16_rmse_direction_is_truthful : forall t p, should_maximize Rmse = false /\ rmseR t t = 0 /\ rmseR t t <= rmseR t p.
Proof. exact rmse_direction_truthful. Qed.
Print Assumptions C16_rmse_direction_is_truthful.
Theorem C16_rmse_ranks_candidates_as_mse_does : forall t p p', mseR t p <= mseR t p' <-> rmseR t p <= rmseR t p'.
Proof. exact rmse_mse_same_ranking. Qed.
Print Assumptions C16_rmse_ranks_candidates_as_mse_does.
Theorem C16_real_mse_is_the_rational_model : forall t p, mseR (map (map Q2R) t) (map (map Q2R) p) = Q2R (Metrics.mse t p).
Proof. exact mseR_bridge. Qed.
Print Assumptions C16_real_mse_is_the_rational_model.

Theorem C16_logloss_direction_is_truthful : forall K y P, wf_clsR K y P -> true_probs_ok y P ->
  should_maximize Logloss = false /\ loglossR y (perfectR K y) = 0 /\ loglossR y (perfectR K y) <= loglossR y P.
Proof. exact logloss_direction_truthful. Qed.
Print Assumptions C16_logloss_direction_is_truthful.
Theorem C16_logloss_is_zero_only_for_certain_correct_predictions : forall y P, true_probs_ok y P ->
  (loglossR y P = 0 <-> Forall (fun q => q = 1) (true_class_probsR y P)).
Proof. exact logloss_zero_iff. Qed.
Print Assumptions C16_logloss_is_zero_only_for_certain_correct_predictions.
Theorem C16_logloss_is_unbounded_without_positivity : forall K y B, Forall (fun c => (c < K)%nat) y -> y <> [] ->
  exists P, wf_clsR K y P /\ true_probs_ok y P /\ Forall (Forall (fun q => 0 < q < 1)) P /\ loglossR y P > B.
Proof. exact logloss_unbounded_needs_positivity. Qed.
Print Assumptions C16_logloss_is_unbounded_without_positivity.
(* non-vacuity: MetricsWholeReal.logloss_direction_y3, rmse_direction_ex, bridge_ex; the `<= 1` hypothesis is needed: logloss_direction_needs_le_1. *)
