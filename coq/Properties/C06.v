(* C06 — Tree construction terminates with bounded, balanced leaves.
   Only statements, each closed by `exact <lemma>`; the model is XV.Model.Split (build, left_size, right_size, clog). *)
From Coq Require Import ZArith List Bool Lia.
Require Import XV.Model.Split XV.Proofs.SplitProofs.
Import ListNotations.
Open Scope Z_scope.

(* each split gives o samples to both children and divides the other m - o into a ceil half (left) and a floor half (right) *)
Theorem C06_split_sizes : forall m o, 0 <= o <= m ->
  left_unique m o + right_unique m o = m - o /\
  right_unique m o <= left_unique m o <= right_unique m o + 1 /\
  left_size m o = left_unique m o + o /\
  right_size m o = right_unique m o + o /\
  left_size m o + right_size m o = m + o.
Proof. exact split_sizes. Qed.
Print Assumptions C06_split_sizes.

Theorem C06_halves_are_ceil_and_floor : forall m o, 0 <= o <= m ->
  2 * left_unique m o >= m - o /\ 2 * left_unique m o <= m - o + 1 /\
  2 * right_unique m o <= m - o /\ 2 * right_unique m o >= m - o - 1.
Proof. exact halves_are_ceil_floor. Qed.
Print Assumptions C06_halves_are_ceil_and_floor.

(* for EVERY n (no bound), every overlap rule that leaves at least two unique samples in nodes larger than L:
   the recursion needs no more fuel than n (it terminates), returns a tree over all n samples whose split nodes
   have exactly the sizes above, only splits nodes larger than L, and every leaf has at most L samples.
   Nothing here depends on the projection values: ties, duplicates and constant columns cannot matter. *)
Theorem C06_terminates_with_bounded_leaves : forall L ov n,
  ov_ok L ov -> 1 <= n ->
  exists s, build (Z.to_nat n) L ov None 0 n = Ok s (nsplits s) /\ size_of s = n /\
            shape_ok L ov s = true /\ splits_needed L s = true /\ Forall (fun k => k <= L) (leaves s).
Proof.
  intros L ov n Hov Hn.
  destruct (build_terminates_None (Z.to_nat n) L ov 0 n Hov Hn ltac:(lia)) as (s & E & S & O & N).
  exists s. repeat split; try assumption. eapply shape_ok_leaves; exact O.
Qed.
Print Assumptions C06_terminates_with_bounded_leaves.

(* the hypothesis of the property ((1-2f) L >= 4) implies ov_ok for any o within 1 of 2 f m (rounding, incl. float error) *)
Theorem C06_overlap_rule_ok : forall (fn fd L : Z) (ov : Z -> Z),
  0 < fd -> 0 <= fn -> 1 <= L -> (fd - 2 * fn) * L >= 4 * fd ->
  (forall m, L < m -> 0 <= ov m /\ Z.abs (fd * ov m - 2 * fn * m) <= fd) ->
  ov_ok L ov.
Proof.
  intros fn fd L ov Hfd Hfn HL H4 Hov m Hm. destruct (Hov m Hm) as [H0 Hab]. split; [exact H0|].
  assert (fd - 2 * fn > 0) by nia.
  assert ((fd - 2 * fn) * m >= (fd - 2 * fn) * L) by nia.
  assert (fd * (m - ov m) >= 3 * fd) by lia.
  assert (m - ov m >= 3) by nia. lia.
Qed.
Print Assumptions C06_overlap_rule_ok.

(* zero overlap, no forced split count: no leaf deeper than ceil(log2(n / L)) = least k with n <= L 2^k *)
Theorem C06_depth_bound : forall L n, 1 <= L -> 1 <= n ->
  exists s c, build (Z.to_nat n) L (fun _ => 0) None 0 n = Ok s c /\ (height s <= clog n L)%nat.
Proof.
  intros L n HL Hn.
  assert (Hov : ov_ok L (fun _ => 0)) by (intros m Hm; lia).
  destruct (build_terminates_None (Z.to_nat n) L (fun _ => 0) 0 n Hov Hn ltac:(lia)) as (s & E & S & O & N).
  exists s, (0 + nsplits s). split; [exact E|].
  apply (height_bound L s HL O N). rewrite S. apply clog_spec; assumption.
Qed.
Print Assumptions C06_depth_bound.

Theorem C06_clog_is_ceil_log2 : forall L n, 1 <= L -> 1 <= n ->
  n <= L * 2 ^ Z.of_nat (clog n L) /\ forall j : nat, n <= L * 2 ^ Z.of_nat j -> (clog n L <= j)%nat.
Proof. intros L n HL Hn. split; [apply clog_spec; assumption|intros j; apply clog_min]. Qed.
Print Assumptions C06_clog_is_ceil_log2.

(* a requested minimum number of splits is honoured by every tree the recursion returns,
   and such a tree is still locally balanced *)
Theorem C06_split_quota_honoured : forall fuel L ov q n s c,
  build fuel L ov (Some q) 0 n = Ok s c -> q <= nsplits s /\ shape_ok L ov s = true /\ size_of s = n.
Proof.
  intros fuel L ov q n s c H. destruct (build_count _ _ _ _ _ _ _ _ H) as [E Q]. cbn in Q.
  split; [lia|]. split; [eapply build_shape_ok; exact H|eapply build_shape_sizes; exact H].
Qed.
Print Assumptions C06_split_quota_honoured.

(* with a forced split count q the recursion still terminates whenever the request is feasible (n >= 2^q) and every node of size
   >= 2 keeps at least two unique samples: the forced splits go down the leftmost path (DFS, shared counter) and halve the node *)
Theorem C06_terminates_with_forced_splits : forall L ov q n, 1 <= L -> ov_ok2 ov -> 0 <= q -> 1 <= n -> 2 ^ q <= n ->
  exists s c, build (Z.to_nat n) L ov (Some q) 0 n = Ok s c /\ q <= nsplits s /\ shape_ok L ov s = true.
Proof.
  intros L ov q n HL Hov Hq Hn Hp.
  destruct (build_terminates_quota L ov q HL Hov (Z.to_nat n) 0 n Hn ltac:(lia)) as (s & c & E).
  - rewrite Z.sub_0_r, Z.max_r by lia. exact Hp.
  - exists s, c. split; [exact E|]. destruct (build_count _ _ _ _ _ _ _ _ E) as [Ec Qc]. cbn in Qc.
    split; [lia|eapply build_shape_ok; exact E].
Qed.
Print Assumptions C06_terminates_with_forced_splits.

(* non-vacuity: concrete runs of the model that meet the hypotheses *)
Example C06_example_run :
  build 37 10 (fun _ => 0) None 0 37 =
    Ok (SNode 37 (SNode 19 (SLeaf 10) (SLeaf 9)) (SNode 18 (SLeaf 9) (SLeaf 9))) 3 /\ clog 37 10 = 2%nat.
Proof. vm_compute. split; reflexivity. Qed.
Example C06_example_overlap_hyp : ov_ok 20 (fun m => (2 * m + 5) / 10).   (* f = 0.1: (1 - 0.2) * 20 = 16 >= 4 *)
Proof. intros m Hm. split; [apply Z.div_pos; lia|]. pose proof (Z.div_mod (2 * m + 5) 10 ltac:(lia)). pose proof (Z.mod_pos_bound (2 * m + 5) 10 ltac:(lia)). lia. Qed.
Example C06_example_quota : exists s c, build 20 100 (fun _ => 0) (Some 3) 0 16 = Ok s c /\ nsplits s = 3.
Proof. eexists; eexists. vm_compute. split; reflexivity. Qed.
