(* C14 (real-valued composition with C04) — for the L2 Laplace kernel the matrix the code accumulates IS the sum, over training points and outputs, of the outer
   products of the TRUE derivative of the predictor with each point's own (coincident) kernel terms left out.
   Model: XV.Real.AgopOfPredictor over XV.Real.Grads (closed-form masked gradient, proved there to be the derivative) and XV.Real.ScaleInvL2 (agop_raw = the
   accumulation as coded).  `loo_pred t L q X a z` is the predictor Σ_i a_i k(x_i, ·) restricted to the centres that do not coincide with z under the transform. *)
From Coq Require Import Reals List Lra Lia.
From Coquelicot Require Import Coquelicot.
Require Import XV.Real.Kernels XV.Real.Grads XV.Real.ScaleInvL2 XV.Real.AgopOfPredictor.
Import ListNotations.
Local Open Scope R_scope.

(* each coordinate of the masked closed-form gradient at a training point is the derivative, along that coordinate, of the leave-own-terms-out predictor
   (identity or diagonal feature transform, any number of centres, any dimension, centres coincident with z or at least eps away) *)
Theorem C14_masked_gradient_is_the_derivative_of_the_leave_out_predictor :
  forall t L q eps xs cs z d, 0 < eps -> (t = TNone \/ exists m, t = TDiag m /\ length m = length z) ->
  List.Forall (fun x => length x = length z) xs -> length cs = length xs ->
  List.Forall (fun x => cdist2 (transform t x) (transform t z) = 0 \/ eps <= cdist2 (transform t x) (transform t z)) xs ->
  is_derive (fun s => loo_pred t L q xs cs z (vaxpy s (basis d (length z)) z)) 0 (nth d (grad_l2 t L q eps xs cs z) 0).
Proof. exact masked_gradient_none_or_diag. Qed.
Print Assumptions C14_masked_gradient_is_the_derivative_of_the_leave_out_predictor.

(* the accumulation as coded: entry (i, j) is the sum over the gradient vectors of the products of their i-th and j-th coordinates — no hypotheses *)
Theorem C14_accumulated_entry_is_the_sum_of_products :
  forall G i j, ment (agop_raw G) i j = fold_right Rplus 0 (map (fun g => nth i g 0 * nth j g 0) G).
Proof. exact agop_raw_entry_gen. Qed.
Print Assumptions C14_accumulated_entry_is_the_sum_of_products.

(* composition, several outputs: there is a family D of vectors, one per (output, training point), each coordinate of which is the derivative of that output's
   leave-out predictor at that point, and the accumulated matrix is the sum of their outer products *)
Theorem C14_l2_feature_matrix_is_the_agop_of_the_leave_out_predictor :
  forall t n L q eps X (A : list (list R)) i j, 0 < eps ->
  (t = TNone \/ exists m, t = TDiag m /\ length m = n) ->
  X <> [] -> List.Forall (fun x => length x = n) X -> List.Forall (fun a => length a = length X) A -> (i < n)%nat -> (j < n)%nat ->
  (forall x z, In x X -> In z X -> cdist2 (transform t x) (transform t z) = 0 \/ eps <= cdist2 (transform t x) (transform t z)) ->
  exists D : list (list R),
    length D = (length A * length X)%nat /\
    (forall o k d, (o < length A)%nat -> (k < length X)%nat -> (d < n)%nat ->
       is_derive (fun s => loo_pred t L q X (nth o A []) (nth k X []) (vaxpy s (basis d n) (nth k X []))) 0 (nth d (nth (o * length X + k) D []) 0)) /\
    ment (agop_raw (concat (map (fun a => gradsL2 q eps t L X a) A))) i j = fold_right Rplus 0 (map (fun g => nth i g 0 * nth j g 0) D).
Proof. exact l2_feature_matrix_is_agop_of_leave_out_predictor_multi. Qed.
Print Assumptions C14_l2_feature_matrix_is_the_agop_of_the_leave_out_predictor.
