(* C04 (continued) — the MEMORY-LIGHT L2 kernel (`l2_high_dim` / `l2_light`): k(x,z) = exp(-(sqrt(max 0 (x'Mx - 2x'Mz + z'Mz)))^q / L^q), M consumed as is.
   Model: Kernels.laplace_light / Grads.grad_light (the op sequence of LightLaplaceKernel.get_function_grads, tied to the source by gradops);
   proofs: XV.Real.GradLight.  The code's gradient is the derivative of its own predictor exactly when M acts symmetrically on (query, direction): for every
   well-shaped M the derivative is the code's gradient PLUS (e'Mz - z'Me)/2 * (sum of masked weights) — `C04_light_gradient_general` — so it is the derivative for
   the identity, every diagonal and every symmetric full matrix (what the library passes: identity, diagonal, normalised AGOP), and NOT for a non-symmetric M
   (witness `C04_light_gradient_needs_symmetry`, reproduced on the real code: gradient [0, -0.3679], true partial -0.1839). *)
From Coq Require Import Reals List Lra Lia.
From Coquelicot Require Import Coquelicot.
Require Import XV.Real.Kernels XV.Real.Grads XV.Real.GradOps XV.Real.ScaleInvL2 XV.Real.AgopOfPredictor XV.Real.GradLight.
Import ListNotations.
Local Open Scope R_scope.

Theorem C04_light_gradient_general : forall t L q eps xs cs z e, 0 < eps ->
  wf_tmat t (length z) -> length e = length z ->
  List.Forall (fun x => length x = length z) xs ->
  List.Forall (fun x => eps <= lightd t x z) xs ->
  is_derive (fun s => fpred (laplace_light t L q) xs cs (vaxpy s e z)) 0
            (vdotR (grad_light t L q eps xs cs z) e + (bil t e z - bil t z e) / 2 * gwsum t L q eps xs cs z).
Proof. exact light_gradient_general. Qed.
Print Assumptions C04_light_gradient_general.

Theorem C04_light_gradient_is_the_derivative : forall t L q eps xs cs z e, 0 < eps ->
  wf_tmat t (length z) -> length e = length z ->
  List.Forall (fun x => length x = length z) xs ->
  bil t z e = bil t e z ->
  List.Forall (fun x => eps <= lightd t x z) xs ->
  is_derive (fun s => fpred (laplace_light t L q) xs cs (vaxpy s e z)) 0 (vdotR (grad_light t L q eps xs cs z) e).
Proof. exact light_gradient_is_the_derivative. Qed.
Print Assumptions C04_light_gradient_is_the_derivative.

(* identity, diagonal and entrywise-symmetric square full matrices act symmetrically *)
Theorem C04_symmetric_matrices_act_symmetrically : forall t n u v, wf_tmat t n -> square_tmat t n -> sym_tmat t n -> length u = n -> length v = n -> bil t u v = bil t v u.
Proof. exact bil_symmetric_tmat. Qed.
Print Assumptions C04_symmetric_matrices_act_symmetrically.

(* a centre under the mask (in particular the query itself: lightd t x x = 0 for EVERY M) contributes nothing, whatever its coefficient; the result stays finite *)
Theorem C04_light_coincident_center_contributes_zero : forall t L q eps x xs c cs z,
  wf_tmat t (length z) -> List.Forall (fun y => length y = length z) (x :: xs) ->
  lightd t x z < eps ->
  grad_light t L q eps (x :: xs) (c :: cs) z = grad_light t L q eps xs cs z.
Proof. exact light_coincident_center_contributes_zero_dropped. Qed.
Print Assumptions C04_light_coincident_center_contributes_zero.
Theorem C04_light_distance_to_itself_is_zero : forall t x, lightd t x x = 0.
Proof. exact lightd_self. Qed.

(* masked centres left out: no dichotomy needed, the leave-out set IS the mask *)
Theorem C04_light_masked_gradient_is_the_leave_out_derivative : forall t L q eps xs cs z e, 0 < eps ->
  wf_tmat t (length z) -> length e = length z ->
  List.Forall (fun x => length x = length z) xs -> bil t z e = bil t e z ->
  is_derive (fun s => loo_pred_light t L q eps xs cs z (vaxpy s e z)) 0 (vdotR (grad_light t L q eps xs cs z) e).
Proof. exact light_masked_gradient_is_leave_out_derivative. Qed.
Print Assumptions C04_light_masked_gradient_is_the_leave_out_derivative.

Theorem C04_light_gradient_needs_symmetry :
  bil Mns [1; 1] [1; 0] <> bil Mns [1; 0] [1; 1] /\
  vdotR (grad_light Mns 1 1 (1 / 1000) [[0; 0]] [1] [1; 1]) [1; 0] = 0 /\
  nth 0 (grad_light Mns 1 1 (1 / 1000) [[0; 0]] [1] [1; 1]) 0 = 0 /\
  is_derive (fun s => fpred (laplace_light Mns 1 1) [[0; 0]] [1] (vaxpy s [1; 0] [1; 1])) 0 (gweight 1 1 (1 / 1000) 1 / 2) /\
  gweight 1 1 (1 / 1000) 1 / 2 < 0 /\
  ~ is_derive (fun s => fpred (laplace_light Mns 1 1) [[0; 0]] [1] (vaxpy s [1; 0] [1; 1])) 0
              (vdotR (grad_light Mns 1 1 (1 / 1000) [[0; 0]] [1] [1; 1]) [1; 0]).
Proof. exact light_gradient_needs_symmetry. Qed.
Print Assumptions C04_light_gradient_needs_symmetry.
(* non-vacuity: GradLight.light_gradient_nonvacuous — symmetric, non-identity, indefinite M = [[1;2];[2;1]], two centres, all hypotheses of the derivative theorem hold. *)
