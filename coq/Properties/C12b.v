(* C12 (far rows, kernel half) — "in 'prevalence' mode rows far from all training data equal the training class frequencies": Proofs/FarRows.v (C12.v) shows that a raw
   prediction bounded by delta decodes within 2(K-1)B delta/eps of the decoded prior; THIS file shows that the raw leaf prediction f(z) = sum_i alpha_i k(c_i, z)
   is bounded by (sum_i |alpha_i|) exp(-(R/L)^q) once every centre is at kernel-norm distance >= R from z, for the L2 / product / Lpq Laplace kernels, any transform,
   any number of centres and outputs — with an explicit radius for every target accuracy.  The sum-power kernel with const_mix c > 0 does NOT decay
   (value >= c^power everywhere): the far-row clause cannot hold for that configuration (observation recorded in DESIGN.md §6).  Model / proofs: XV.Real.FarDecay. *)
From Coq Require Import Reals List Lra Lia.
Require Import XV.Real.Kernels XV.Real.Grads XV.Real.FarDecay.
Import ListNotations.
Local Open Scope R_scope.

Theorem C12_far_rows_l2_expansion_bound : forall t L q xs cs z r0, 0 < L -> 0 < q -> 0 <= r0 ->
  Forall (fun x => r0 <= norm2 (transform t (vsubR x z))) xs ->
  Rabs (fpred (closed_l2 t L q) xs cs z) <= abs_sum cs * exp (- pw (r0 / L) q).
Proof. exact kernel_expansion_bound_l2. Qed.
Print Assumptions C12_far_rows_l2_expansion_bound.
Theorem C12_far_rows_product_expansion_bound : forall t L q xs cs z r0,
  Forall (fun x => r0 <= sum_abs_pow q (transform t (vsubR x z))) xs ->
  Rabs (fpred (closed_product t L q) xs cs z) <= abs_sum cs * exp (- r0 / Rpower L q).
Proof. exact kernel_expansion_bound_product. Qed.
Print Assumptions C12_far_rows_product_expansion_bound.
Theorem C12_far_rows_lpq_expansion_bound : forall t L p q xs cs z r0, 0 < L -> 0 < q -> 0 <= r0 ->
  Forall (fun x => r0 <= normp p (transform t (vsubR x z))) xs ->
  Rabs (fpred (closed_lpq t L p q) xs cs z) <= abs_sum cs * exp (- pw (r0 / L) q).
Proof. exact kernel_expansion_bound_lpq. Qed.
Print Assumptions C12_far_rows_lpq_expansion_bound.

(* one radius for any number of output columns *)
Theorem C12_far_rows_raw_prediction_vanishes : forall t L q xs (A : list (list R)) eps', 0 < L -> 0 < q -> 0 < eps' ->
  exists r0, 0 <= r0 /\ forall z, Forall (fun x => r0 <= norm2 (transform t (vsubR x z))) xs ->
    Forall (fun cs => Rabs (fpred (closed_l2 t L q) xs cs z) <= eps') A.
Proof. exact far_rows_raw_prediction_vanishes_l2_outputs. Qed.
Print Assumptions C12_far_rows_raw_prediction_vanishes.

Theorem C12_sum_power_kernel_does_not_decay : forall t L q c power x z, 0 <= c <= 1 -> c ^ power <= closed_sum_power t L q c power x z.
Proof. exact sum_power_lower_bound. Qed.
Print Assumptions C12_sum_power_kernel_does_not_decay.
(* non-vacuity: FarDecay.far_decay_example (two centres in R^2, coefficients [2; -3], query at distance >= 10: |f| <= 5 e^-10, and f <> 0). *)
