(* C17 — Fitting is reproducible and independent of object history (partial: RNG / bit-identity are observed).
   Model: XV.Model.AttrFlow (pattern D) for the object history; a seeded generator model for the RNG history. *)
From Coq Require Import List Bool Arith.
Require Import XV.Model.AttrFlow XV.Proofs.AttrFlowProofs.
Import ListNotations.

(* If the analysis accepts the trace of `fit ; predict` starting from NO knowledge about the mutable attributes, then two
   objects that agree on the constructor-only attributes — a fresh model and one that was fitted any number of times on any
   data before — read the same values in the same order and write the same values: same fitted state, same predictions. *)
Theorem C17_fit_is_history_independent :
  forall (V : Type) (oracle : nat -> list V -> V * bool * nat) (mutable : nat -> bool) (p : prog) (c' : list nat),
  ana mutable p [] = Some c' ->
  forall (fresh used : store V) log k, (forall a, mutable a = false -> fresh a = used a) ->
  let t1 := exec V oracle p {| s_store := fresh; s_log := log; s_k := k |} in
  let t2 := exec V oracle p {| s_store := used; s_log := log; s_k := k |} in
  s_log V t1 = s_log V t2 /\ (forall a, mutable a = false \/ In a c' -> s_store V t1 a = s_store V t2 a).
Proof. exact history_independent. Qed.
Print Assumptions C17_fit_is_history_independent.

(* RNG history: a generator whose state is overwritten by seeding forgets everything drawn before *)
Section Rng.
  Variable G : Type.                 (* generator state *)
  Variable seed : nat -> G.
  Variable draw : G -> G * nat.
  Inductive rop := Seed (s : nat) | Draw.
  Fixpoint run (g : G) (ops : list rop) (out : list nat) : G * list nat :=
    match ops with
    | [] => (g, out)
    | Seed s :: t => run (seed s) t out
    | Draw :: t => let '(g', v) := draw g in run g' t (out ++ [v])
    end.
  Lemma run_app g a b out : run g (a ++ b) out = let '(g', o) := run g a out in run g' b o.
  Proof.
    revert g out. induction a as [|op a IH]; intros g out; cbn; [reflexivity|].
    destruct op; [apply IH|]. destruct (draw g) as [g' v]. apply IH.
  Qed.
  (* whatever was consumed before (history h, from any initial state), the draws after `Seed s` are the same *)
  Theorem C17_reseeding_erases_rng_history : forall (g1 g2 : G) (h1 h2 : list rop) (s : nat) (fit_draws : list rop) out1 out2,
    skipn (length (snd (run g1 h1 out1))) (snd (run g1 (h1 ++ Seed s :: fit_draws) out1)) =
    skipn (length (snd (run g2 h2 out2))) (snd (run g2 (h2 ++ Seed s :: fit_draws) out2)).
  Proof.
    intros g1 g2 h1 h2 s fd out1 out2. rewrite !run_app.
    destruct (run g1 h1 out1) as [ga oa]. destruct (run g2 h2 out2) as [gb ob]. cbn [run snd].
    assert (K : forall ops g o, snd (run g ops o) = o ++ snd (run g ops [])).
    { induction ops as [|op ops IH]; intros g o; cbn; [rewrite app_nil_r; reflexivity|].
      destruct op; [apply IH|]. destruct (draw g) as [g' v]. rewrite (IH g' (o ++ [v])), (IH g' [v]). rewrite <- app_assoc. reflexivity. }
    rewrite (K fd (seed s) oa), (K fd (seed s) ob).
    rewrite !skipn_app, !Nat.sub_diag, !skipn_all. reflexivity.
  Qed.
End Rng.
Print Assumptions C17_reseeding_erases_rng_history.

Example C17_example :
  let mutable := fun a => Nat.eqb a 0 in
  (* fit that tunes attribute 0 but first READS its old value (ties prefer it): rejected; fit that resets it first: accepted *)
  ana mutable (Seq (Rd 0) (Wr 0)) [] = None /\ ana mutable (Seq (Wr 0) (Seq (Rd 0) (Wr 0))) [] = Some [0; 0].
Proof. vm_compute. split; reflexivity. Qed.
