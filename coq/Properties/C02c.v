(* C02 (composition with C05, continued) — for the library's DEFAULT kernel (L2 Laplace, exponent 1) the ridge coefficients are uniquely determined by
   (centers, transform, bandwidth, lambda, Y): the Gram matrix of any centers is PSD (C05b), so (K + lambda I) is injective for lambda > 0. *)
From Coq Require Import Reals List.
Require Import XV.Real.Kernels XV.Real.Ridge XV.Real.PsdProduct XV.Real.PsdMore XV.Real.PsdCompose XV.Real.PsdLaplaceL2.
Import ListNotations.
Local Open Scope R_scope.

Theorem C02_ridge_unique_default_kernel : forall t L (reg : R) xs d a b, 0 < L -> wf_tmat t d -> Forall (fun x => length x = d) xs -> 0 < reg ->
  length a = length xs -> length b = length xs ->
  mvR (add_diagR reg (gram (laplace_l2 t L 1) xs)) a = mvR (add_diagR reg (gram (laplace_l2 t L 1) xs)) b -> a = b.
Proof.
  intros t L reg xs d a b HL Hw Hd Hr Ha Hb. apply ridge_unique_of_psd; try assumption.
  intros cs. exact (laplace_l2_op_q1_psd t L xs cs d HL Hw Hd).
Qed.
Print Assumptions C02_ridge_unique_default_kernel.

(* ... and for every CPU kernel on its whole valid exponent range (C05c) *)
Require Import XV.Real.PsdGeneral2 XV.Real.PsdGeneral.
Theorem C02_ridge_unique_l2_any_exponent : forall t L q (reg : R) xs d a b, 0 < q <= 2 -> 0 < L -> wf_tmat t d -> Forall (fun x => length x = d) xs -> 0 < reg ->
  length a = length xs -> length b = length xs ->
  mvR (add_diagR reg (gram (laplace_l2 t L q) xs)) a = mvR (add_diagR reg (gram (laplace_l2 t L q) xs)) b -> a = b.
Proof. intros t L q reg xs d a b Hq HL Hw Hd Hr Ha Hb. apply ridge_unique_of_psd; try assumption. intros cs. exact (laplace_l2_op_psd_all_q t L q xs cs d Hq HL Hw Hd). Qed.
Theorem C02_ridge_unique_product_any_exponent : forall t L q (reg : R) xs d a b, 0 < q <= 2 -> 0 < L -> wf_tmat t d -> Forall (fun x => length x = d) xs -> 0 < reg ->
  length a = length xs -> length b = length xs ->
  mvR (add_diagR reg (gram (laplace_product t L q) xs)) a = mvR (add_diagR reg (gram (laplace_product t L q) xs)) b -> a = b.
Proof. intros t L q reg xs d a b Hq HL Hw Hd Hr Ha Hb. apply ridge_unique_of_psd; try assumption. intros cs. exact (laplace_product_op_psd_all_q t L q xs cs d Hq HL Hw Hd). Qed.
Theorem C02_ridge_unique_lpq_whole_range : forall t L p q (reg : R) xs d a b, 0 < q <= p -> p <= 2 -> 0 < L -> wf_tmat t d -> Forall (fun x => length x = d) xs -> 0 < reg ->
  length a = length xs -> length b = length xs ->
  mvR (add_diagR reg (gram (laplace_lpq t L p q) xs)) a = mvR (add_diagR reg (gram (laplace_lpq t L p q) xs)) b -> a = b.
Proof. intros t L p q reg xs d a b Hq Hp HL Hw Hd Hr Ha Hb. apply ridge_unique_of_psd; try assumption. intros cs. exact (laplace_lpq_op_psd t L p q xs cs d Hq Hp HL Hw Hd). Qed.
Print Assumptions C02_ridge_unique_l2_any_exponent.
Print Assumptions C02_ridge_unique_product_any_exponent.
Print Assumptions C02_ridge_unique_lpq_whole_range.
Theorem C02_ridge_unique_sum_power_any_exponent : forall t L q c (power : nat) (reg : R) xs d a b, 0 < q <= 2 -> 0 < L -> 0 <= c <= 1 -> wf_tmat t d ->
  Forall (fun x => length x = d) xs -> 0 < reg -> length a = length xs -> length b = length xs ->
  mvR (add_diagR reg (gram (sum_power t L q c power) xs)) a = mvR (add_diagR reg (gram (sum_power t L q c power) xs)) b -> a = b.
Proof. intros t L q c power reg xs d a b Hq HL Hc Hw Hd Hr Ha Hb. apply ridge_unique_of_psd; try assumption. intros cs. exact (sum_power_op_psd_all_q t L q c power xs cs d Hq HL Hc Hw Hd). Qed.
Print Assumptions C02_ridge_unique_sum_power_any_exponent.
