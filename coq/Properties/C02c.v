(* C02 (composition with C05, continued) — for the library's DEFAULT kernel (L2 Laplace, exponent 1) the ridge coefficients are uniquely determined by
   (centers, transform, bandwidth, lambda, Y): the Gram matrix of any centers is PSD (C05b), so (K + lambda I) is injective for lambda > 0. *)
From Coq Require Import Reals List.
Require Import XV.Real.Kernels XV.Real.Ridge XV.Real.PsdProduct XV.Real.PsdMore XV.Real.PsdCompose XV.Real.PsdLaplaceL2.
Import ListNotations.
Local Open Scope R_scope.

Theorem C02_ridge_unique_default_kernel : forall t L (reg : R) xs d a b, 0 < L -> wf_tmat t d -> Forall (fun x => length x = d) xs -> 0 < reg ->
  length a = length xs -> length b = length xs ->
  mvR (add_diagR reg (gram (laplace_l2 t L 1) xs)) a = mvR (add_diagR reg (gram (laplace_l2 t L 1) xs)) b -> a = b.
Proof.
  intros t L reg xs d a b HL Hw Hd Hr Ha Hb. apply ridge_unique_of_psd; try assumption.
  intros cs. exact (laplace_l2_op_q1_psd t L xs cs d HL Hw Hd).
Qed.
Print Assumptions C02_ridge_unique_default_kernel.
