(* C20 (continued) — the coercion block of xRFM.fit as a PROGRAM: harness/coerceops.py serialises the block's Python ast to the deep-embedded language of
   XV.Model.CoerceLang on every run (fail closed outside the fragment); the abstract execution on every representation of the targets — metric kind x label encoding x
   K in {2,3,5} x container x dtype (float32/64, int8..int64, uint8) x shape ((n,), (n,1), (n,3)), 576 representations — is done by the Coq interpreter `run`, and the
   checker `prog_okb` decides by vm_compute that every run ends with training and validation targets in the same format and with the task type / canonical dtype /
   canonical number of columns of Coerce.is_class / canon_y.  These theorems say what acceptance by the checker means, for EVERY program of the language (the domain is
   genuinely finite and the bound is in the statement).  No axioms. *)
From Coq Require Import List Bool Arith String.
Require Import XV.Model.Coerce XV.Model.CoerceLang XV.Proofs.CoerceLangProofs.
Import ListNotations.

Theorem C20_accepted_block_computes_the_canonical_form : forall prog, prog_okb prog = true ->
  forall r, In r all_reps -> exists env', run (cfg r) (init r) prog = Some env' /\ outcome env' = expected r.
Proof. exact prog_ok_sound. Qed.
Print Assumptions C20_accepted_block_computes_the_canonical_form.

(* the property's shape: two representations of the same data (same metric kind, encoding, K; both float or both integer; (n,) and (n,1) interchangeable; any container)
   leave the block with the same task type and the same canonical targets *)
Theorem C20_accepted_block_is_representation_independent : forall prog, prog_okb prog = true ->
  forall r1 r2, In r1 all_reps -> In r2 all_reps -> same_data r1 r2 ->
  exists g1 g2 o, run (cfg r1) (init r1) prog = Some g1 /\ run (cfg r2) (init r2) prog = Some g2 /\ outcome g1 = Some o /\ outcome g2 = Some o.
Proof. exact prog_ok_representation_independent. Qed.
Print Assumptions C20_accepted_block_is_representation_independent.

Theorem C20_every_representation_is_enumerated : forall m e K c d s, In K [2; 3; 5] -> In s [Flat; Column; Wide 3] -> (is_float d = false -> s <> Wide 3) ->
  In (m, e, K, c, d, s) all_reps.
Proof. exact all_reps_complete. Qed.
Print Assumptions C20_every_representation_is_enumerated.

(* non-vacuity: the current block, written by hand, is accepted; the historical defect (y reshaped, y_val not) is rejected *)
Example C20b_example : prog_okb ref_prog = true /\ prog_okb bad_prog_reshape_y_only = false.
Proof. split; [exact ref_prog_accepted|exact bad_prog_rejected]. Qed.
