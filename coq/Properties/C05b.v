(* C05 (continued) — positive semi-definiteness of the library's DEFAULT kernel, the L2 Laplace kernel exp(-||T(x-z)||_2 / L) (exponent 1), for every finite point
   set, dimension, transform and bandwidth (until now certified per Gram matrix only).  Proof (XV.Real.PsdLaplaceL2): exp(-sqrt r) is a limit of normalised
   non-negative integral mixtures of Gaussians exp(-s r) (Cauchy–Schlömilch substitution; the normalising constant is shown to exist and be positive, its value is
   never needed), the quadratic form commutes with the Riemann integral, Gaussians are PSD (C05), limits of PSD kernels are PSD.
   Also: Schoenberg's theorem proper (exp(-psi) is PSD for every symmetric, zero-diagonal, conditionally negative definite psi) with no integral at all. *)
From Coq Require Import Reals List Lra Lia.
From Coquelicot Require Import Coquelicot.
Require Import XV.Real.Kernels XV.Real.PsdProduct XV.Real.PsdMore XV.Real.PsdLaplaceL2.
Import ListNotations.
Local Open Scope R_scope.

Theorem C05_l2_laplace_exponent_1_is_psd : forall t L (xs : list (list R)) (cs : list R) (d : nat),
  0 < L -> wf_tmat t d -> List.Forall (fun x => length x = d) xs -> 0 <= qf (closed_l2 t L 1) xs cs.
Proof. exact laplace_l2_q1_psd. Qed.
Print Assumptions C05_l2_laplace_exponent_1_is_psd.

(* the same for the op-sequence model of LaplaceKernel._get_kernel_matrix_impl (tied to the source by kernelops) *)
Theorem C05_l2_laplace_exponent_1_as_coded_is_psd : forall t L (xs : list (list R)) (cs : list R) (d : nat),
  0 < L -> wf_tmat t d -> List.Forall (fun x => length x = d) xs -> 0 <= qf (laplace_l2 t L 1) xs cs.
Proof. exact laplace_l2_op_q1_psd. Qed.
Print Assumptions C05_l2_laplace_exponent_1_as_coded_is_psd.

Theorem C05_exp_neg_sqrt_is_a_limit_of_gaussian_mixtures : exists H : R, 0 < H /\
  forall r, 0 <= r ->
    is_lim_seq (fun N => / H * RInt (fun v => exp (- (v * v)) * exp (- (r / 4) / (v * v))) (/ INR (S N)) (INR (S N))) (exp (- sqrt r)).
Proof. exact exp_neg_sqrt_is_gaussian_mixture_limit. Qed.
Print Assumptions C05_exp_neg_sqrt_is_a_limit_of_gaussian_mixtures.

Theorem C05_schoenberg : forall (psi : list R -> list R -> R) (P : list (list R)) (cs : list R),
  sym_on psi P -> (forall u, In u P -> psi u u = 0) -> cnd_set psi P ->
  0 <= qf (fun u v => exp (- psi u v)) P cs.
Proof. exact exp_neg_cnd_is_psd. Qed.
Print Assumptions C05_schoenberg.

(* a symmetric PSD kernel on a finite point set has an explicit feature representation (Schur complements) *)
Theorem C05_symmetric_psd_kernels_have_feature_maps : forall P k, sym_on k P -> psd_set k P -> has_rep k P.
Proof. exact psd_sym_has_rep. Qed.
Print Assumptions C05_symmetric_psd_kernels_have_feature_maps.
(* non-vacuity: PsdLaplaceL2.laplace_l2_q1_psd_ex / laplace_l2_op_q1_psd_ex on the 3-point set [[1;2];[0;-3];[4;1]] with a diagonal and a full 3x2 transform. *)
