(* C03 / C02 with the wall-clock test of the main loop (Model/SelectT.v): a fit whose time limit runs out at the top of round r is, in everything the
   properties speak of, the fit whose iteration budget is r.  Only statements closed by `exact`. *)
From Coq Require Import List Bool Arith.
Require Import XV.Model.Select XV.Model.SelectT XV.Proofs.SelectProofs XV.Proofs.SelectTProofs.
Import ListNotations.

(* for EVERY clock, score history and switch setting: the outcome of the timed fit is the outcome of the untimed fit with the budget cut at the round where the
   clock ran out (the final solve / validation / update still happens: the break leaves early_stopped False) *)
Theorem C03_time_limit_is_a_cut_iteration_budget :
  forall (S : Type) (init : S) (better stop : S -> S -> bool) (tl : nat -> bool) iters lbl rb es scores,
  run_t S init better stop tl iters lbl rb es scores = run S init better stop (cut tl iters) lbl rb es scores.
Proof. exact run_t_is_run_at_the_cut. Qed.
Print Assumptions C03_time_limit_is_a_cut_iteration_budget.

Theorem C03_cut_is_the_round_where_the_clock_ran_out :
  forall (tl : nat -> bool) iters r, 0 < r -> r < iters -> tl r = true -> (forall j, j < r -> tl j = false) -> cut tl iters = r.
Proof. exact cut_at. Qed.

Theorem C03_no_time_limit_is_the_plain_loop :
  forall (S : Type) (init : S) (better stop : S -> S -> bool) (tl : nat -> bool) iters lbl rb es scores, (forall i, tl i = false) ->
  run_t S init better stop tl iters lbl rb es scores = run S init better stop iters lbl rb es scores.
Proof. exact run_t_without_timeout. Qed.

(* the C03 statement for timed-out fits *)
Theorem C03_timed_out_fit_returns_first_best_iterate :
  forall (S : Type) (init : S) (better stop : S -> S -> bool) (tl : nat -> bool),
  (forall a, better a a = false) ->
  (forall a b c, better a b = true -> better b c = true -> better a c = true) ->
  (forall a b c, better a c = true -> better a b = true \/ better b c = true) ->
  forall (fin : S -> Prop), (forall s, fin s -> better s init = true) ->
  forall iters lbl es scores w m bw bi e st, Forall fin scores ->
  run_t S init better stop tl iters lbl true es scores = Out w m bw bi e st ->
  let ev := firstn e scores in
  let j := w_iter w in
  let c := cut tl iters in
  length ev = e /\ j < e /\
  (forall k, k < e -> better (nth k ev init) (nth j ev init) = false) /\
  (forall k, k < j -> better (nth j ev init) (nth k ev init) = true) /\
  w_m w = j /\ w_bw w = j /\ m = j /\ bw = j /\
  (if es then e = match first_stop S init better stop c [] scores with Some n => n | None => Datatypes.S c end
             /\ st = match first_stop S init better stop c [] scores with Some _ => true | None => false end
   else e = Datatypes.S c /\ st = false) /\ c <= iters.
Proof. exact run_t_returns_first_best. Qed.
Print Assumptions C03_timed_out_fit_returns_first_best_iterate.

Theorem C03_timed_out_fit_never_crashes :
  forall (S : Type) (init : S) (better stop : S -> S -> bool) (tl : nat -> bool),
  (forall a, better a a = false) ->
  (forall a b c, better a b = true -> better b c = true -> better a c = true) ->
  (forall a b c, better a c = true -> better a b = true \/ better b c = true) ->
  forall (fin : S -> Prop), (forall s, fin s -> better s init = true) ->
  forall iters lbl es scores, Forall fin scores -> iters < length scores ->
  run_t S init better stop tl iters lbl true es scores <> Crash.
Proof. exact run_t_never_crashes. Qed.
Print Assumptions C03_timed_out_fit_never_crashes.

Example C03_cut_example : cut (fun i => Nat.eqb i 2) 5 = 2 /\ cut (fun _ => false) 5 = 5 /\ cut (fun _ => true) 5 = 1 /\ cut (fun _ => true) 0 = 0.
Proof. exact cut_example. Qed.
