(* C18 — Fit and predict do not disturb caller data or process-wide settings (partial: tensor aliasing is observed only).
   Model: XV.Model.Protocol. The code's save/set/restore structure is re-read from the source by the harness on every run. *)
From Coq Require Import List Bool Arith.
Require Import XV.Model.Protocol XV.Proofs.ProtocolProofs.
Import ListNotations.

(* every well-bracketed nesting of wrapped calls (each returning or raising), every initial value, present or absent *)
Theorem C18_environment_variable_restored : forall (v : nat) (ops : list eop), balanced ops -> forall s : estate,
  cur (erun v ops s) = cur s /\ saved_stack (erun v ops s) = saved_stack s /\
  (Forall (fun x => x = Some v) (seen s) -> Forall (fun x => x = Some v) (seen (erun v ops s))).
Proof. exact env_restored. Qed.
Print Assumptions C18_environment_variable_restored.

Theorem C18_thread_count_restored : forall (n_threads : option nat) (t0 : nat),
  trun (fun t => t) (protocol n_threads) t0 = t0.
Proof. exact threads_restored. Qed.
Print Assumptions C18_thread_count_restored.

Example C18_example :
  let ops := [Enter; Observe; Enter; Observe; Exit; Observe; Exit; Enter; Exit] in
  balanced ops /\
  erun 7 ops {| cur := None; saved_stack := []; seen := [] |} = {| cur := None; saved_stack := []; seen := [Some 7; Some 7; Some 7] |}.
Proof.
  split; [|vm_compute; reflexivity].
  apply (b_app [Enter; Observe; Enter; Observe; Exit; Observe; Exit] [Enter; Exit]).
  - apply (b_wrap [Observe; Enter; Observe; Exit; Observe]). apply i_obs. apply (i_call [Observe] [Observe]); repeat constructor.
  - apply (b_wrap []). constructor.
Qed.
