(* C09 (last clause) — "as T -> 0+ it converges to the hard-routed prediction", with the temperature as the variable.  Model: the end-to-end soft prediction of
   SoftEnd.v (weights as coded: left fold of log-sigmoids, clamp(min=-50), shift, tiny-clamped normaliser; any admissible active set; renormalisation; aggregation),
   logits m_j / T for raw margins m_j = (v_j.x - b_j)/scale_j.  Proofs: XV.Real.SoftLimit.
   Findings of the proof attempt (the fixed-temperature bound of C09.v cannot give the limit: its hypothesis "no leaf below e^-50" fails for all small T):
   * with the coded -50 clamp the limit holds EXACTLY whenever no kept leaf is clamped near T = 0 — true of the code's truncation for every keep fraction below
     1/(1+(n-1)e^-50), in particular the default 0.99, where eventually only the hard leaf is kept (`onehot_family_admissible`);
   * with ALL leaves kept (keep fraction 1.0) the clamp gives every leaf a floor weight ~e^-50 and the prediction tends to a point within n e^-50 B (~2e-22 B) of the
     hard value, not to it (`C09_clamp_floor_prevents_exact_convergence`) — below every float resolution, recorded as an observation in DESIGN.md §6;
   * for the unclamped gate products the limit holds for any admissible active sets; rows on a threshold do not converge (1/2 at every temperature). *)
From Coq Require Import Reals List Lra Lia Bool QArith Qreals.
From Coquelicot Require Import Coquelicot.
Require Import XV.Model.Tree XV.Model.Soft XV.Real.SoftReal XV.Real.Kernels XV.Real.SoftOps XV.Real.SoftEnd XV.Real.SoftLimit.
Import ListNotations.
Local Open Scope R_scope.

Theorem C09_soft_prediction_tends_to_the_hard_prediction : forall (L : Type) (tiny : R) (tr : tree L) (x : list Q) (m : nat -> R) (d : L * gpath),
  tiny <= 1 -> margins_of m x tr ->
  (forall g, In g (hard_path tr x 0) -> m (fst g) <> 0) ->
  exists h, (h < length (paths tr))%nat /\ nth h (paths tr) d = (route tr x, hard_path tr x 0) /\
    forall (act : R -> list bool) (vals : list R) (T1 : R), 0 < T1 -> length vals = length (paths tr) ->
      (forall T, 0 < T < T1 -> active_ok (weights_at tiny tr m T) (act T) /\ no_clamped_active (zT m T) tr (act T)) ->
      filterlim (soft_at tiny tr m act vals) (at_right 0) (locally (nth h vals 0)).
Proof. intros L. exact (@soft_prediction_filterlim_hard L). Qed.
Print Assumptions C09_soft_prediction_tends_to_the_hard_prediction.

(* no hypothesis on the active sets beyond admissibility: the limit up to the clamp floor *)
Theorem C09_soft_prediction_tends_to_hard_up_to_the_clamp_floor : forall (L : Type) (tiny : R) (tr : tree L) (x : list Q) (m : nat -> R) (d : L * gpath),
  tiny <= 1 -> margins_of m x tr ->
  (forall g, In g (hard_path tr x 0) -> m (fst g) <> 0) ->
  INR (length (paths tr)) * exp (-50) < 1 / 2 ->
  exists h, (h < length (paths tr))%nat /\ nth h (paths tr) d = (route tr x, hard_path tr x 0) /\
    forall (act : R -> list bool) (vals : list R) (B T1 : R), 0 <= B -> 0 < T1 -> length vals = length (paths tr) ->
      (forall i, (i < length (paths tr))%nat -> Rabs (nth i vals 0 - nth h vals 0) <= B) ->
      (forall T, 0 < T < T1 -> active_ok (weights_at tiny tr m T) (act T)) ->
      forall eps, 0 < eps -> exists T0, 0 < T0 /\
        forall T, 0 < T < T0 ->
          Rabs (soft_at tiny tr m act vals T - nth h vals 0) < INR (length (paths tr)) * exp (-50) * B + eps.
Proof. intros L. exact (@soft_prediction_tends_to_hard_up_to_clamp L). Qed.
Print Assumptions C09_soft_prediction_tends_to_hard_up_to_the_clamp_floor.

(* explicit rate *)
Theorem C09_soft_prediction_rate : forall (L : Type) (tiny : R) (tr : tree L) (x : list Q) (m : nat -> R) (d : L * gpath) (h : nat) (mu1 : R),
  tiny <= 1 -> margins_of m x tr -> 0 < mu1 ->
  (forall g, In g (hard_path tr x 0) -> mu1 <= Rabs (m (fst g))) ->
  (h < length (paths tr))%nat -> nth h (paths tr) d = (route tr x, hard_path tr x 0) ->
  forall (act : R -> list bool) (vals : list R) (B eps T : R),
    let D := INR (length (hard_path tr x 0)) in
    (1 <= length (hard_path tr x 0))%nat -> 0 < eps -> eps < B / 2 ->
    0 < T -> T <= mu1 / ln (D * B / eps) ->
    length vals = length (paths tr) ->
    (forall i, (i < length (paths tr))%nat -> Rabs (nth i vals 0 - nth h vals 0) <= B) ->
    active_ok (weights_at tiny tr m T) (act T) -> no_clamped_active (zT m T) tr (act T) ->
    Rabs (soft_at tiny tr m act vals T - nth h vals 0) <= eps.
Proof. intros L. exact (@soft_prediction_rate L). Qed.
Print Assumptions C09_soft_prediction_rate.

(* the hypotheses of the limit theorem are satisfiable for every tree: keeping only the hard leaf is admissible and unclamped for all small T *)
Theorem C09_keeping_the_hard_leaf_is_admissible : forall (L : Type) (tiny : R) (tr : tree L) (x : list Q) (m : nat -> R) (d : L * gpath) (h : nat) (mu1 : R),
  tiny <= 1 -> margins_of m x tr -> 0 < mu1 ->
  (forall g, In g (hard_path tr x 0) -> mu1 <= Rabs (m (fst g))) ->
  (h < length (paths tr))%nat -> nth h (paths tr) d = (route tr x, hard_path tr x 0) ->
  forall T, 0 < T < mu1 / (2 * (INR (length (hard_path tr x 0)) + 1)) ->
    active_ok (weights_at tiny tr m T) (onehot (length (paths tr)) h) /\ no_clamped_active (zT m T) tr (onehot (length (paths tr)) h).
Proof. intros L. exact (@onehot_family_admissible L). Qed.
Print Assumptions C09_keeping_the_hard_leaf_is_admissible.

Theorem C09_rows_on_a_threshold_do_not_converge :
  ~ filterlim (soft_at (/ 1000) tr1 (fun _ => 0) (fun _ => [true; true]) [0; 1]) (at_right 0) (locally 0).
Proof. exact tie_rows_not_filterlim. Qed.
Theorem C09_clamp_floor_prevents_exact_convergence :
  ~ filterlim (soft_at (/ 1000) tr1 (fun _ => -1) (fun _ => [true; true]) [0; 1]) (at_right 0) (locally 0).
Proof. exact clamp_floor_not_filterlim. Qed.
Print Assumptions C09_rows_on_a_threshold_do_not_converge.
Print Assumptions C09_clamp_floor_prevents_exact_convergence.
(* non-vacuity: SoftLimit.depth2_soft_prediction_tends_to_hard (3 leaves, values [3;5;7], the soft prediction tends to 5). *)
