(* C01 — Hard-routed prediction equals the per-leaf formula of the single leaf reached; batch independence.
   Model: XV.Model.Tree (route, groups, leaf_batched, sort_pairs, predict_tree_hard, predict_hard). *)
From Coq Require Import QArith List Bool Permutation.
Require Import XV.Model.Tree XV.Proofs.TreeProofs.
Import ListNotations.

(* For every tree (any depth), every batch (any size, any order), every internal batch size bs > 0 and every
   row-wise leaf predictor f: traversal with carried indices + per-leaf chunked prediction + argsort reorder
   returns, for each row, f of the leaf reached by `projection <= threshold goes left`. *)
Theorem C01_hard_prediction_is_leaf_formula :
  forall (L V : Type) (f : L -> list Q -> V) (bs : nat) (T : tree L) (X : list (list Q)),
  (0 < bs)%nat -> predict_tree_hard V f bs T X = map (fun x => f (route T x) x) X.
Proof. exact @predict_tree_hard_spec. Qed.
Print Assumptions C01_hard_prediction_is_leaf_formula.

(* the code's traversal is iterative (explicit LIFO stack, right child pushed first): it computes the recursive left-first grouping *)
Theorem C01_iterative_traversal_is_the_recursive_grouping : forall (L : Type) (T : tree L) (rows : list (nat * list Q)),
  groups_iter T rows = Some (groups T rows).
Proof. exact @groups_iter_spec. Qed.
Print Assumptions C01_iterative_traversal_is_the_recursive_grouping.

(* instantiated with the documented leaf predictor sum_i alpha_i K(x, c_i), for an arbitrary kernel K *)
Theorem C01_kernel_expansion_of_the_leaf_reached :
  forall (K : list Q -> list Q -> Q) (nout bs : nat) (T : tree (list (list Q * list Q))) (X : list (list Q)),
  (0 < bs)%nat ->
  predict_tree_hard (list Q) (kernel_expansion K nout) bs T X = map (fun x => kernel_expansion K nout (route T x) x) X.
Proof. intros. apply predict_tree_hard_spec. assumption. Qed.
Print Assumptions C01_kernel_expansion_of_the_leaf_reached.

Theorem C01_internal_batch_size_irrelevant :
  forall (L V : Type) (f : L -> list Q -> V) bs1 bs2 T X, (0 < bs1)%nat -> (0 < bs2)%nat ->
  predict_tree_hard V f bs1 T X = predict_tree_hard V f bs2 T X.
Proof. exact @predict_tree_hard_batch_size. Qed.
Print Assumptions C01_internal_batch_size_irrelevant.

Theorem C01_concatenation_of_batches :
  forall (L V : Type) (f : L -> list Q -> V) bs T X1 X2, (0 < bs)%nat ->
  predict_tree_hard V f bs T (X1 ++ X2) = predict_tree_hard V f bs T X1 ++ predict_tree_hard V f bs T X2.
Proof. exact @predict_tree_hard_concat. Qed.
Print Assumptions C01_concatenation_of_batches.

Theorem C01_row_depends_on_itself_only :
  forall (L V : Type) (f : L -> list Q -> V) bs T X i, (0 < bs)%nat ->
  nth_error (predict_tree_hard V f bs T X) i = option_map (fun x => f (route T x) x) (nth_error X i).
Proof. exact @predict_tree_hard_row. Qed.
Print Assumptions C01_row_depends_on_itself_only.

Theorem C01_row_permutation_equivariant :
  forall (L V : Type) (f : L -> list Q -> V) bs T X (pi : list nat) d, (0 < bs)%nat ->
  predict_tree_hard V f bs T (map (fun i => nth i X d) pi) =
  map (fun i => nth i (predict_tree_hard V f bs T X) (f (route T d) d)) pi.
Proof. exact @predict_tree_hard_reorder. Qed.
Print Assumptions C01_row_permutation_equivariant.

Theorem C01_ensemble_is_rowwise_mean_over_trees :
  forall (L : Type) (f : L -> list Q -> list Q) bs (Ts : list (tree L)) X, (0 < bs)%nat ->
  predict_hard f bs Ts X = map (fun x => vmean (map (fun T => f (route T x) x) Ts)) X.
Proof. exact @predict_hard_spec. Qed.
Print Assumptions C01_ensemble_is_rowwise_mean_over_trees.

(* non-vacuity: depth-2 tree, 5 rows reaching 3 leaves, internal batch size 2 *)
Example C01_example :
  let T := Node [1; 0] (1#2) (Leaf 0%nat) (Node [0; 1] 0 (Leaf 1%nat) (Leaf 2%nat)) in
  let f := fun (m : nat) (x : list Q) => (inject_Z (Z.of_nat m), hd 0 x) in
  predict_tree_hard _ f 2 T [[1; 1]; [0; 5]; [2; -1]; [1#2; 7]; [3; 0]]
  = [(2#1, 1); (0#1, 0); (1#1, 2); (0#1, 1#2); (1#1, 3)].
Proof. vm_compute. reflexivity. Qed.
