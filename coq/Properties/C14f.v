(* C14 (real-valued composition with C04, sum-power kernel — the last of the five CPU kernels) — with the eps-masked closure of fix 2fc5ad9 a training point's own
   centre has every coordinate masked and contributes exactly 0 to the model gradient, for EVERY exponent (also q < 1, where the unmasked closure gave nan), so the
   accumulated matrix is the sum over outputs and training points of the outer products of the true partial derivatives of the predictor with the point's own centre
   removed.  Model / proofs: XV.Real.AgopOfPredictorSP over GradAuto.grad_sum_power. *)
From Coq Require Import Reals List Lra Lia.
From Coquelicot Require Import Coquelicot.
Require Import XV.Real.Kernels XV.Real.Grads XV.Real.GradsP XV.Real.GradAuto XV.Real.ScaleInvL2 XV.Real.AgopOfPredictor XV.Real.AgopOfPredictorPQ XV.Real.AgopOfPredictorSP.
Import ListNotations.
Local Open Scope R_scope.

Theorem C14_sum_power_own_center_contributes_nothing : forall t L q c eps power X a k z,
  List.Forall (fun v => Rabs v < eps) (transform t (vsubR z (nth k X []))) ->
  grad_sum_power t L q c eps power X a z = grad_sum_power t L q c eps power (remove_nth k X) (remove_nth k a) z.
Proof. exact grad_sum_power_drop_masked_center. Qed.
Print Assumptions C14_sum_power_own_center_contributes_nothing.

Theorem C14_sum_power_feature_matrix_is_the_agop_of_the_predictor_with_own_center_removed :
  forall t n L q c eps power X (A : list (list R)) i j, 0 < eps ->
  (t = TNone \/ exists m, t = TDiag m /\ length m = n) ->
  List.Forall (fun x => length x = n) X ->
  (forall k l, (k < length X)%nat -> (l < length X)%nat -> k <> l ->
     sp_mask_open eps (transform t (vsubR (nth k X []) (nth l X [])))) ->
  exists D : list (list R),
    length D = (length A * length X)%nat /\
    (forall o k d, (o < length A)%nat -> (k < length X)%nat ->
       is_derive (fun s => fpred (closed_sum_power t L q c power) (remove_nth k X) (remove_nth k (nth o A []))
                                 (vaxpy s (basis d n) (nth k X []))) 0
                 (nth d (nth (o * length X + k) D []) 0)) /\
    ment (agop_raw (concat (map (fun a => map (fun z => grad_sum_power t L q c eps power X a z) X) A))) i j
      = fold_right Rplus 0 (map (fun g => nth i g 0 * nth j g 0) D).
Proof. exact sum_power_feature_matrix_is_the_agop_of_the_predictor_with_own_center_removed. Qed.
Print Assumptions C14_sum_power_feature_matrix_is_the_agop_of_the_predictor_with_own_center_removed.
(* non-vacuity: AgopOfPredictorSP.sum_power_feature_matrix_ex (q = 1/2 < 1, const_mix 1/4, power 2). *)
