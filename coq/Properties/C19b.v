(* C19 (continued) — the composition theorem INSTANTIATED for the MEMORY-LIGHT L2 kernel (`l2_high_dim` / `l2_light`): the kernel consumes the normalised AGOP M
   itself (no matrix root), distances are sqrt(max 0 (x'Mx - 2 x'Mz + z'Mz)).  Model: XV.Real.ScaleInvLight over XV.Real.Kernels (laplace_light) and XV.Real.Grads (grad_light). *)
From Coq Require Import Reals List.
Require Import XV.Real.Kernels XV.Real.Grads XV.Real.ScaleInvL2 XV.Real.ScaleInvLight.
Import ListNotations.
Local Open Scope R_scope.

Theorem C19_light_kernel_scale_invariant : forall t L q c x z, 0 < c -> 0 < L ->
  laplace_light t (c * L) q (vscaleR c x) (vscaleR c z) = laplace_light t L q x z.
Proof. exact laplace_light_scale_invariant. Qed.
Print Assumptions C19_light_kernel_scale_invariant.

(* the distance the light kernel hands to the bandwidth update is homogeneous of degree one *)
Theorem C19_light_distance_is_homogeneous : forall t c x z, 0 < c -> ldist t (vscaleR c x) (vscaleR c z) = c * ldist t x z.
Proof. exact ldist_scale. Qed.
Print Assumptions C19_light_distance_is_homogeneous.

(* the masked closed-form gradient is homogeneous of degree -1 when no centre sits strictly between 0 and the mask threshold before or after scaling *)
Theorem C19_light_gradient_is_homogeneous : forall t L q eps c xs cs z, 0 < c -> 0 < L -> 0 < eps ->
  Forall (fun x => let dd := ldist t x z in dd = 0 \/ (eps <= dd /\ eps <= c * dd)) xs ->
  grad_light t (c * L) q eps (map (vscaleR c) xs) cs (vscaleR c z) = vscaleR (/ c) (grad_light t L q eps xs cs z).
Proof. exact grad_light_homogeneous. Qed.
Print Assumptions C19_light_gradient_is_homogeneous.

(* whole fit: any number of rounds of  bandwidth = base * med(pairwise light distances)  ->  solve (ARBITRARY)  ->  masked gradients  ->  normalised AGOP  ->
   next matrix (ARBITRARY function `mk` of the normalised AGOP; the code uses the matrix itself) on c*X predicts at c*z what the fit on X predicts at z,
   with the bandwidths multiplied by c.  Side conditions on the UNSCALED fit only, as for the L2 kernel. *)
Theorem C19_light_fit_commutes_with_rescaling :
  forall (base q eps : R) (med : list R -> R),
  (forall c l, 0 < c -> med (map (Rmult c) l) = c * med l) ->
  forall (solve : list (list R) -> list R) (mk : list (list R) -> tmat) (c : R) (t0 : tmat) (X : list (list R)), 0 < c -> 0 < eps ->
  (forall n, 0 < base * med (pdistLight (featmatLight base q eps med solve mk t0 X n) X)) ->
  (forall n, masksLight eps c (featmatLight base q eps med solve mk t0 X n) X) ->
  (forall n, 0 < mmaxR (agop_raw (gradsLight q eps (featmatLight base q eps med solve mk t0 X n) (bandwidthLight base q eps med solve mk t0 X n) X
                                             (coefsLight base q eps med solve mk t0 X n)))) ->
  forall n z, predictionLight base q eps med solve mk t0 (scaleX c X) n (qscale c z) = predictionLight base q eps med solve mk t0 X n z.
Proof. exact light_fit_commutes_with_rescaling. Qed.
Print Assumptions C19_light_fit_commutes_with_rescaling.

Theorem C19_light_bandwidth_scales_with_the_data :
  forall (base q eps : R) (med : list R -> R),
  (forall c l, 0 < c -> med (map (Rmult c) l) = c * med l) ->
  forall (solve : list (list R) -> list R) (mk : list (list R) -> tmat) (c : R) (t0 : tmat) (X : list (list R)), 0 < c -> 0 < eps ->
  (forall n, 0 < base * med (pdistLight (featmatLight base q eps med solve mk t0 X n) X)) ->
  (forall n, masksLight eps c (featmatLight base q eps med solve mk t0 X n) X) ->
  (forall n, 0 < mmaxR (agop_raw (gradsLight q eps (featmatLight base q eps med solve mk t0 X n) (bandwidthLight base q eps med solve mk t0 X n) X
                                             (coefsLight base q eps med solve mk t0 X n)))) ->
  forall n, bandwidthLight base q eps med solve mk t0 (scaleX c X) n = c * bandwidthLight base q eps med solve mk t0 X n.
Proof. exact bandwidthLight_scales. Qed.
Print Assumptions C19_light_bandwidth_scales_with_the_data.
(* non-vacuity: ScaleInvLight.light_fit_commutes_with_rescaling_ex_full discharges every hypothesis on X = [[0;0];[3;4]] with mk M = TFull 2 M (the code's choice);
   the matrix genuinely changes after the first round (featmatLight_exB_moves). *)
