(* C14 (the stored root) — `stable_matrix_power(M, 1/2)` returns  U diag(s_i^(1/2)) U^T  with s_i < 0 set to 0 first, where (U, s) come from an SVD of the symmetric matrix.
   Over any real closed field, for any orthogonal U: that formula squares back to  U diag(clip s) U^T  (= M when s >= 0), is symmetric and positive semi-definite.
   What remains a contract is the decomposition itself (U orthogonal, M = U diag(s) U^T), checked numerically per instance ("root squares back").
   Model: XV.Real.MatRoot (MathComp matrices).  No axioms. *)
Set Warnings "-notation-overridden,-ambiguous-paths".
From mathcomp Require Import all_ssreflect all_algebra.
Require Import XV.Real.MatRoot.
Set Implicit Arguments. Unset Strict Implicit. Unset Printing Implicit Defensive.
Import GRing.Theory Num.Theory.
Local Open Scope ring_scope.

Theorem C14_root_formula_squares_back : forall (F : rcfType) (n : nat) (U : 'M[F]_n) (s : 'rV[F]_n),
  U^T *m U = 1%:M -> (forall i, 0 <= s 0 i) -> root_of U s *m root_of U s = recon U s.
Proof. exact: root_squares_back. Qed.
Print Assumptions C14_root_formula_squares_back.

(* without any sign hypothesis: negative entries are clipped, as the code does *)
Theorem C14_root_formula_squares_back_to_the_clipped_matrix : forall (F : rcfType) (n : nat) (U : 'M[F]_n) (s : 'rV[F]_n),
  U^T *m U = 1%:M -> root_of U s *m root_of U s = recon U (map_mx (@clip0 F) s).
Proof. exact: root_of_clipped. Qed.
Print Assumptions C14_root_formula_squares_back_to_the_clipped_matrix.

Theorem C14_root_is_symmetric : forall (F : rcfType) (n : nat) (U : 'M[F]_n) (s : 'rV[F]_n), (root_of U s)^T = root_of U s.
Proof. exact: root_symmetric. Qed.

Theorem C14_root_is_positive_semidefinite : forall (F : rcfType) (n : nat) (U : 'M[F]_n) (s : 'rV[F]_n) (v : 'cV[F]_n),
  0 <= (v^T *m root_of U s *m v) 0 0.
Proof. exact: root_psd. Qed.
Print Assumptions C14_root_is_positive_semidefinite.

(* diagonal mode: clip, then elementwise root *)
Theorem C14_diagonal_root_squares_back : forall (F : rcfType) (n : nat) (s : 'rV[F]_n) i,
  Num.sqrt (clip0 (s 0 i)) * Num.sqrt (clip0 (s 0 i)) = clip0 (s 0 i).
Proof. exact: diag_root_squares_back. Qed.
