(* C03 — Leaf model selection returns a best-validation iterate for every score history.
   Model: XV.Model.Select (run = RFM.fit's loop + final refit + restore, generic over the score type). *)
From Coq Require Import List Bool Arith QArith.
Require Import XV.Model.Select XV.Proofs.SelectProofs.
Import ListNotations.
Local Open Scope nat_scope.

(* For EVERY history (any length), any iteration budget, early stopping on or off, any stop predicate, and any score type whose
   `better` is a strict weak order in which every occurring score beats the initial sentinel:
   - the returned coefficients belong to an evaluated iterate j whose score no evaluated iterate beats (optimal in the metric's
     direction), and j is the first such iterate;
   - coefficients, feature matrix (and its root) and bandwidth all carry that same index j;
   - with early stopping the number of evaluations is first_stop (the first iterate whose score is worse than the best so far by
     more than the multiplier), otherwise iters+1; nothing after the stop is evaluated, everything before it was a candidate. *)
Theorem C03_returns_first_best_iterate :
  forall (S : Type) (init : S) (better stop : S -> S -> bool),
  (forall a, better a a = false) ->
  (forall a b c, better a b = true -> better b c = true -> better a c = true) ->
  (forall a b c, better a c = true -> better a b = true \/ better b c = true) ->
  forall (fin : S -> Prop), (forall s, fin s -> better s init = true) ->
  forall iters lbl es scores w m bw bi e st, Forall fin scores ->
  run S init better stop iters lbl true es scores = Out w m bw bi e st ->
  let ev := firstn e scores in
  let j := w_iter w in
  length ev = e /\ j < e /\
  (forall k, k < e -> better (nth k ev init) (nth j ev init) = false) /\
  (forall k, k < j -> better (nth j ev init) (nth k ev init) = true) /\
  w_m w = j /\ w_bw w = j /\ m = j /\ bw = j /\
  (if es then e = match first_stop S init better stop iters [] scores with Some n => n | None => Datatypes.S iters end
             /\ st = match first_stop S init better stop iters [] scores with Some _ => true | None => false end
   else e = Datatypes.S iters /\ st = false).
Proof. exact run_returns_first_best. Qed.
Print Assumptions C03_returns_first_best_iterate.

Theorem C03_finite_histories_never_crash :
  forall (S : Type) (init : S) (better stop : S -> S -> bool),
  (forall a, better a a = false) ->
  (forall a b c, better a b = true -> better b c = true -> better a c = true) ->
  (forall a b c, better a c = true -> better a b = true \/ better b c = true) ->
  forall (fin : S -> Prop), (forall s, fin s -> better s init = true) ->
  forall iters lbl es scores, Forall fin scores -> iters < length scores ->
  run S init better stop iters lbl true es scores <> Crash.
Proof. exact run_never_crashes. Qed.
Print Assumptions C03_finite_histories_never_crash.

(* the hypotheses are satisfiable: rational scores with an infinite sentinel, both directions *)
Theorem C03_rational_instance : forall minimize mult iters lbl es (qs : list Q) w m bw bi e st,
  run (option Q) None (q_better minimize) (q_stop minimize mult) iters lbl true es (map Some qs) = Out w m bw bi e st ->
  let ev := firstn e (map Some qs) in
  w_iter w < e /\ (forall k, k < e -> q_better minimize (nth k ev None) (nth (w_iter w) ev None) = false) /\
  w_m w = w_iter w /\ w_bw w = w_iter w /\ m = w_iter w /\ bw = w_iter w.
Proof.
  intros minimize mult iters lbl es qs w m bw bi e st H.
  assert (Hfin : Forall qfin (map Some qs)).
  { apply Forall_forall. intros x Hx. apply in_map_iff in Hx. destruct Hx as [q [<- _]]. discriminate. }
  pose proof (run_returns_first_best (option Q) None (q_better minimize) (q_stop minimize mult)
                (qb_irr minimize) (qb_trans minimize) (qb_neg minimize) qfin (qb_scored minimize)
                iters lbl es (map Some qs) w m bw bi e st Hfin H) as R.
  cbn zeta in R. destruct R as (_ & A & B & _ & C & D & E & F & _). repeat split; assumption.
Qed.
Print Assumptions C03_rational_instance.

(* non-vacuity: concrete histories *)
Example C03_example_plateau_then_final :
  run (option Q) None (q_better true) (q_stop true (11#10)%Q) 3 (Some 3) true false (map Some [3; 2; 2; 1]%Q)
  = Out {| w_iter := 3; w_m := 3; w_bw := 3 |} 3 3 (Some (Some 3)) 4 false.
Proof. vm_compute. reflexivity. Qed.
Example C03_example_early_stop_maximise :
  run (option Q) None (q_better false) (q_stop false (11#10)%Q) 3 (Some 3) true true (map Some [3; 2; 5; 1]%Q)
  = Out {| w_iter := 0; w_m := 0; w_bw := 0 |} 0 0 (Some (Some 0)) 2 true.
Proof. vm_compute. reflexivity. Qed.
