(* C05 — Kernel matrices match their mathematical definitions (partial: positive semi-definiteness is proved for the product kernel with exponent 1 and certified per instance otherwise).
   Model: XV.Real.Kernels — the sequence of tensor operations of each CPU kernel, over the reals, for vectors of any dimension. *)
From Coq Require Import Reals List Lra.
Require Import XV.Real.Kernels.
Import ListNotations.
Local Open Scope R_scope.

(* exp(-||T(x-z)||_2^q / L^q): the transform is applied to both arguments, cdist, clamp, power, scale, exp *)
Theorem C05_laplace_l2_is_closed_form : forall t L q x z, length x = length z -> wf_tmat t (length x) ->
  laplace_l2 t L q x z = closed_l2 t L q x z.
Proof. exact laplace_l2_closed_form. Qed.
Print Assumptions C05_laplace_l2_is_closed_form.

(* exp(-||T(x-z)||_p^q / L^q) *)
Theorem C05_laplace_lpq_is_closed_form : forall t L p q x z, length x = length z -> wf_tmat t (length x) ->
  laplace_lpq t L p q x z = closed_lpq t L p q x z.
Proof. exact laplace_lpq_closed_form. Qed.
Print Assumptions C05_laplace_lpq_is_closed_form.

(* product (L1-type) kernel: the p-norm to the power p is the plain sum: exp(-sum_k |T(x-z)_k|^q / L^q) *)
Theorem C05_laplace_product_is_closed_form : forall t L q x z, 0 < q -> length x = length z -> wf_tmat t (length x) ->
  laplace_product t L q x z = closed_product t L q x z.
Proof. exact laplace_product_closed_form. Qed.
Print Assumptions C05_laplace_product_is_closed_form.

(* ((1-c) mean_d exp(-|x_d - z_d|^q / L^q) + c)^power *)
Theorem C05_sum_power_is_closed_form : forall t L q c power x z, length x = length z -> wf_tmat t (length x) ->
  length (transform t x) = length (transform t z) ->
  sum_power t L q c power x z = closed_sum_power t L q c power x z.
Proof. exact sum_power_closed_form. Qed.
Print Assumptions C05_sum_power_is_closed_form.

(* memory-light variant: the norm expansion is the quadratic form of the difference exactly when M is symmetric (and bilinear) *)
Theorem C05_light_expansion_is_quadratic_form : forall t x z,
  bil t x z = bil t z x ->
  bil t (vsubR x z) (vsubR x z) = bil t x x - bil t x z - bil t z x + bil t z z ->
  light_sq t x z = bil t (vsubR x z) (vsubR x z).
Proof. exact light_sq_is_quadratic_form. Qed.
Print Assumptions C05_light_expansion_is_quadratic_form.

Theorem C05_light_identity_transform_is_closed_form : forall L q x z, length x = length z ->
  laplace_light TNone L q x z = closed_l2 TNone L q x z.
Proof. exact light_none_closed_form. Qed.
Print Assumptions C05_light_identity_transform_is_closed_form.

Theorem C05_light_diagonal_M : forall m x z, length x = length z -> length m = length x ->
  light_sq (TDiag m) x z = rsumR (vmulR (vmulR (vsubR x z) (vsubR x z)) m).
Proof. exact light_sq_diag. Qed.
Print Assumptions C05_light_diagonal_M.

(* consequences *)
Theorem C05_gram_symmetric : forall t L q x z, laplace_l2 t L q x z = laplace_l2 t L q z x.
Proof. exact laplace_l2_symmetric. Qed.
Theorem C05_unit_diagonal : forall t L q x, laplace_l2 t L q x x = 1.
Proof. exact laplace_l2_unit_diagonal. Qed.
Theorem C05_entries_in_unit_interval : forall t L q x z, 0 < laplace_l2 t L q x z <= 1.
Proof. exact laplace_l2_range. Qed.
Print Assumptions C05_entries_in_unit_interval.

(* ---------- positive semi-definiteness ---------- *)
Require Import XV.Real.PsdProduct XV.Real.PsdMore XV.Real.PsdCert.
(* (i) PROVED for all inputs: the product (L1-type) Laplace kernel with exponent 1 — exp(-||T(x-z)||_1 / L) — has a non-negative quadratic
   form for ANY number of points, any dimension, any coefficients and any feature transform (explicit finite-dimensional feature maps:
   a telescoping 1-D construction on the sorted coordinates, tensor products over the coordinates). *)
Theorem C05_product_laplace_q1_is_psd : forall t L (xs : list (list R)) (cs : list R) (d : nat),
  0 < L -> wf_tmat t d -> Forall (fun x => length x = d) xs -> 0 <= qf (closed_product t L 1) xs cs.
Proof. exact product_laplace_psd_strong. Qed.
Print Assumptions C05_product_laplace_q1_is_psd.
(* the one-dimensional fact underneath: exp(-|a-b|) is an inner product of explicit feature vectors on any finite point set *)
Theorem C05_laplace_1d_feature_map : forall pts a b, In a pts -> In b pts -> exp (- Rabs (a - b)) = vdotR (f1 pts a) (f1 pts b).
Proof. exact laplace1_feature_dot. Qed.
Print Assumptions C05_laplace_1d_feature_map.
(* the same for the op-sequence model the code is tied to, for the Lpq kernel with p = q = 1, for the sum-power kernel with exponent 1
   (any mixing constant in [0,1], any integer power), and for the Gaussian case of the L2 kernel (exponent 2; limit of the Taylor partial sums
   of exp(2<u,v>), each of which has a finite-dimensional feature map) *)
Theorem C05_product_laplace_op_sequence_q1_is_psd : forall t L xs cs d, 0 < L -> wf_tmat t d -> Forall (fun x => length x = d) xs ->
  0 <= qf (laplace_product t L 1) xs cs.
Proof. exact laplace_product_psd. Qed.
Theorem C05_lpq_p1_q1_is_psd : forall t L xs cs d, 0 < L -> wf_tmat t d -> Forall (fun x => length x = d) xs ->
  0 <= qf (laplace_lpq t L 1 1) xs cs.
Proof. exact laplace_lpq_p1_q1_psd. Qed.
Theorem C05_sum_power_q1_is_psd : forall t L c power xs cs d, 0 < L -> 0 <= c <= 1 -> wf_tmat t d -> Forall (fun x => length x = d) xs ->
  0 <= qf (sum_power t L 1 c power) xs cs.
Proof. exact sum_power_op_q1_psd. Qed.
Theorem C05_gaussian_l2_q2_is_psd : forall t L xs cs d, 0 < L -> wf_tmat t d -> Forall (fun x => length x = d) xs ->
  0 <= qf (laplace_l2 t L 2) xs cs.
Proof. exact laplace_l2_q2_psd. Qed.
Print Assumptions C05_product_laplace_op_sequence_q1_is_psd.
Print Assumptions C05_lpq_p1_q1_is_psd.
Print Assumptions C05_sum_power_q1_is_psd.
Print Assumptions C05_gaussian_l2_q2_is_psd.
(* exponent 2 of the other families reduces to the Gaussian case *)
Require Import XV.Real.PsdCompose.
Theorem C05_product_q2_is_psd : forall t L xs cs d, 0 < L -> wf_tmat t d -> Forall (fun x => length x = d) xs -> 0 <= qf (laplace_product t L 2) xs cs.
Proof. exact laplace_product_q2_psd. Qed.
Theorem C05_lpq_p2_q2_is_psd : forall t L xs cs d, 0 < L -> wf_tmat t d -> Forall (fun x => length x = d) xs -> 0 <= qf (laplace_lpq t L 2 2) xs cs.
Proof. exact laplace_lpq_p2_q2_psd. Qed.
Theorem C05_sum_power_q2_is_psd : forall t L c power xs cs d, 0 < L -> 0 <= c <= 1 -> wf_tmat t d -> Forall (fun x => length x = d) xs ->
  0 <= qf (sum_power t L 2 c power) xs cs.
Proof. exact sum_power_op_q2_psd. Qed.
(* the two formulations of positive semi-definiteness agree: quadratic form over point lists = quadratic form of the Gram matrix *)
Theorem C05_gram_matrix_quadratic_form : forall k xs cs, Ridge.qformR (gram k xs) cs = qf k xs cs.
Proof. exact qformR_gram. Qed.
Print Assumptions C05_sum_power_q2_is_psd.
Print Assumptions C05_gram_matrix_quadratic_form.
(* closure of feature-map representations under sums, non-negative scaling, products and powers (Schur product via tensor features) *)
Theorem C05_representable_kernels_are_psd : forall k P, has_rep k P -> forall cs, 0 <= qf k P cs.
Proof. exact has_rep_qf_nonneg. Qed.
Theorem C05_schur_product : forall k1 k2 P, has_rep k1 P -> has_rep k2 P -> has_rep (fun u v => k1 u v * k2 u v) P.
Proof. exact has_rep_mul. Qed.
Print Assumptions C05_schur_product.
(* (ii) for the remaining exponents / norms (Schoenberg: 0 < q <= p <= 2, e.g. the L2 kernel with exponent 1) the general statement is NOT proved; instead every Gram matrix the
   harness obtains from the code is certified inside Coq: an exact integer LDL^T certificate is re-checked by computation and this theorem
   turns an accepted certificate into a bound on the quadratic form for EVERY real vector. *)
Theorem C05_psd_certificate_is_sound : forall dim K tol D c, length K = dim -> Forall (fun r => length r = dim) K ->
  psd_cert_okb dim (add_diag tol K) D c = true -> forall v : list R, length v = dim -> - IZR tol * PsdCert.sumsq v <= qform K v.
Proof. exact psd_cert_shift_sound. Qed.
Print Assumptions C05_psd_certificate_is_sound.
Example C05_certificate_accepts_and_rejects :
  psd_cert_okb 3 K3 D3 c3 = true /\ (forall D c, psd_cert_okb 2 Kbad D c = false).
Proof. split; [exact K3_cert_ok|exact Kbad_no_cert]. Qed.

(* without symmetry of M the light kernel's expansion differs from the quadratic form: why the hypothesis is needed *)
Example C05_light_needs_symmetric_M :
  light_sq (TFull 2 [[0; 1]; [0; 0]]) [1; 0] [0; 1] <> bil (TFull 2 [[0; 1]; [0; 0]]) (vsubR [1; 0] [0; 1]) (vsubR [1; 0] [0; 1]).
Proof. exact light_needs_symmetry. Qed.
