(* C05 — Kernel matrices match their mathematical definitions (partial: positive semi-definiteness is NOT proved).
   Model: XV.Real.Kernels — the sequence of tensor operations of each CPU kernel, over the reals, for vectors of any dimension. *)
From Coq Require Import Reals List Lra.
Require Import XV.Real.Kernels.
Import ListNotations.
Local Open Scope R_scope.

(* exp(-||T(x-z)||_2^q / L^q): the transform is applied to both arguments, cdist, clamp, power, scale, exp *)
Theorem C05_laplace_l2_is_closed_form : forall t L q x z, length x = length z -> wf_tmat t (length x) ->
  laplace_l2 t L q x z = closed_l2 t L q x z.
Proof. exact laplace_l2_closed_form. Qed.
Print Assumptions C05_laplace_l2_is_closed_form.

(* exp(-||T(x-z)||_p^q / L^q) *)
Theorem C05_laplace_lpq_is_closed_form : forall t L p q x z, length x = length z -> wf_tmat t (length x) ->
  laplace_lpq t L p q x z = closed_lpq t L p q x z.
Proof. exact laplace_lpq_closed_form. Qed.
Print Assumptions C05_laplace_lpq_is_closed_form.

(* product (L1-type) kernel: the p-norm to the power p is the plain sum: exp(-sum_k |T(x-z)_k|^q / L^q) *)
Theorem C05_laplace_product_is_closed_form : forall t L q x z, 0 < q -> length x = length z -> wf_tmat t (length x) ->
  laplace_product t L q x z = closed_product t L q x z.
Proof. exact laplace_product_closed_form. Qed.
Print Assumptions C05_laplace_product_is_closed_form.

(* ((1-c) mean_d exp(-|x_d - z_d|^q / L^q) + c)^power *)
Theorem C05_sum_power_is_closed_form : forall t L q c power x z, length x = length z -> wf_tmat t (length x) ->
  length (transform t x) = length (transform t z) ->
  sum_power t L q c power x z = closed_sum_power t L q c power x z.
Proof. exact sum_power_closed_form. Qed.
Print Assumptions C05_sum_power_is_closed_form.

(* memory-light variant: the norm expansion is the quadratic form of the difference exactly when M is symmetric (and bilinear) *)
Theorem C05_light_expansion_is_quadratic_form : forall t x z,
  bil t x z = bil t z x ->
  bil t (vsubR x z) (vsubR x z) = bil t x x - bil t x z - bil t z x + bil t z z ->
  light_sq t x z = bil t (vsubR x z) (vsubR x z).
Proof. exact light_sq_is_quadratic_form. Qed.
Print Assumptions C05_light_expansion_is_quadratic_form.

Theorem C05_light_identity_transform_is_closed_form : forall L q x z, length x = length z ->
  laplace_light TNone L q x z = closed_l2 TNone L q x z.
Proof. exact light_none_closed_form. Qed.
Print Assumptions C05_light_identity_transform_is_closed_form.

Theorem C05_light_diagonal_M : forall m x z, length x = length z -> length m = length x ->
  light_sq (TDiag m) x z = rsumR (vmulR (vmulR (vsubR x z) (vsubR x z)) m).
Proof. exact light_sq_diag. Qed.
Print Assumptions C05_light_diagonal_M.

(* consequences *)
Theorem C05_gram_symmetric : forall t L q x z, laplace_l2 t L q x z = laplace_l2 t L q z x.
Proof. exact laplace_l2_symmetric. Qed.
Theorem C05_unit_diagonal : forall t L q x, laplace_l2 t L q x x = 1.
Proof. exact laplace_l2_unit_diagonal. Qed.
Theorem C05_entries_in_unit_interval : forall t L q x z, 0 < laplace_l2 t L q x z <= 1.
Proof. exact laplace_l2_range. Qed.
Print Assumptions C05_entries_in_unit_interval.

(* the PSD clause of the property (Schoenberg: 0 < q <= p <= 2) is stated but NOT proved here; it is tested numerically by the harness *)
Definition psd_statement : Prop :=
  forall (k : list R -> list R -> R) (xs : list (list R)) (c : list R), length c = length xs ->
  0 <= rsumR (map (fun ic => rsumR (map (fun jc => snd ic * snd jc * k (fst ic) (fst jc)) (combine xs c))) (combine xs c)).

(* without symmetry of M the light kernel's expansion differs from the quadratic form: why the hypothesis is needed *)
Example C05_light_needs_symmetric_M :
  light_sq (TFull 2 [[0; 1]; [0; 0]]) [1; 0] [0; 1] <> bil (TFull 2 [[0; 1]; [0; 0]]) (vsubR [1; 0] [0; 1]) (vsubR [1; 0] [0; 1]).
Proof. exact light_needs_symmetry. Qed.
